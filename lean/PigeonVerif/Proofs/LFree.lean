/-
  Leader-free expressions: expressions from which no rule that runs the seed-growing loop can be reached. For such
  expressions the parser generated with `-support-left-recursion` and the ordinary parser compute the same function
  (`parseExpr_noLR`): the memo table is never consulted, so the evaluation is the plain PEG evaluation.
-/
import PigeonVerif.Proofs.AdvanceLR
import PigeonVerif.Proofs.MemoSound

namespace PV

mutual
/-- every rule reference inside the expression names a rule of `S`; no throw / recover -/
def Expr.callsIn (S : String → Bool) : Expr → Bool
  | .ruleRef _ n => S n
  | .throw _ _ | .recovery _ _ _ _ => false
  | .action _ _ e | .and _ e | .not _ e | .labeled _ _ e | .oneOrMore _ e | .zeroOrMore _ e | .zeroOrOne _ e => e.callsIn S
  | .choice _ _ _ es | .seq _ es => callsInL S es
  | .andCode _ _ | .notCode _ _ | .stateCode _ _ | .any _ | .cls _ _ | .lit _ _ _ _ => true
def callsInL (S : String → Bool) : List Expr → Bool
  | [] => true
  | e :: es => e.callsIn S && callsInL S es
end

theorem callsInL_mem {S : String → Bool} : ∀ {es : List Expr}, callsInL S es = true → ∀ e ∈ es, e.callsIn S = true
  | [], _, _, h => by cases h
  | e :: es, hl, x, hx => by
    simp only [callsInL, Bool.and_eq_true] at hl
    rcases List.mem_cons.mp hx with rfl | hx
    · exact hl.1
    · exact callsInL_mem hl.2 x hx

namespace RT

/-- the same grammar and code, generated WITHOUT `-support-left-recursion` -/
def dropLR (E : Env) : Env := { E with flags := { E.flags with leftRec := false } }

/-- ... and run without `Memoize`: the ordinary PEG parser -/
def noLR (E : Env) : Env := setMemo (dropLR E) false

/-- `S` is a set of rule names closed under "calls", none of which runs the seed-growing loop -/
structure LFSet (E : Env) (S : String → Bool) : Prop where
  closed : ∀ n r, S n = true → E.findRule n = some r → r.expr.callsIn S = true
  noleader : ∀ n r, S n = true → E.findRule n = some r → isLd r = false

section
variable {E : Env} (hc : LRCfg E)
variable {rec rec' : Expr → PState → Outcome}
include hc

omit hc in
theorem wrap_noLR (e : Expr) (s : PState) : parseExprWrap (noLR E) rec' e s = rec' e s :=
  wrap_eq (E := noLR E) rfl e s

theorem wrap_LR (e : Expr) (s : PState) : parseExprWrap E rec e s = rec e s := wrap_eq hc.nomemo e s

theorem seq_noLR (pt : Savepoint) (st : Store) : ∀ (es : List Expr), (∀ e ∈ es, ∀ s, rec' e s = rec e s) →
    ∀ (s : PState) (acc : List Val), parseSeq (noLR E) rec' pt st es s acc = parseSeq E rec pt st es s acc
  | [], _, _, _ => rfl
  | e :: es, h, s, acc => by
    simp only [parseSeq, wrap_noLR, wrap_LR hc, h e List.mem_cons_self]
    congr 1; funext v ok s1
    split
    · exact seq_noLR pt st es (fun e' he' => h e' (List.mem_cons_of_mem _ he')) s1 _
    · rfl

theorem choice_noLR (line col : Nat) : ∀ (alts : List Expr), (∀ e ∈ alts, ∀ s, rec' e s = rec e s) →
    ∀ (i : Nat) (s : PState), parseChoice (noLR E) rec' line col alts i s = parseChoice E rec line col alts i s
  | [], _, _, _ => rfl
  | a :: alts, h, i, s => by
    simp only [parseChoice, wrap_noLR, wrap_LR hc, h a List.mem_cons_self]
    congr 1; funext v ok s1
    split
    · rfl
    · exact choice_noLR line col alts (fun e' he' => h e' (List.mem_cons_of_mem _ he')) (i + 1) _

theorem loop_noLR (e : Expr) (h : ∀ s, rec' e s = rec e s) : ∀ (k : Nat) (s : PState) (acc : List Val),
    parseLoop (noLR E) rec' e k s acc = parseLoop E rec e k s acc
  | 0, _, _ => rfl
  | k + 1, s, acc => by
    simp only [parseLoop, wrap_noLR, wrap_LR hc, h]
    congr 1; funext v ok s1
    split
    · exact loop_noLR e h k _ _
    · rfl

omit hc in
theorem lit_noLR (start : Savepoint) (want : String) (ic : Bool) : ∀ (rs : List Rune) (s : PState),
    parseLit (noLR E) start want ic rs s = parseLit E start want ic rs s
  | [], _ => rfl
  | r :: rs, s => by
    simp only [parseLit]
    have : litCur (noLR E) ic s = litCur E ic s := rfl
    rw [this]
    split
    · rfl
    · exact lit_noLR start want ic rs _

theorem rule_noLR (r : Rule) (h : ∀ s, rec' r.expr s = rec r.expr s) (s : PState) :
    parseRule (noLR E) rec' r s = parseRule E rec r s := by
  simp only [parseRule, wrap_noLR, wrap_LR hc, h]

theorem ruleWrap_noLR (k : Nat) (r : Rule) (hl : isLd r = false) (h : ∀ s, rec' r.expr s = rec r.expr s) (s : PState) :
    parseRuleWrap (noLR E) rec' k r s = parseRuleWrap E rec k r s := by
  rw [ruleWrap_lr hc, hl]
  simp only [Bool.false_eq_true, if_false]
  rw [← rule_noLR hc r h s]
  unfold parseRuleWrap
  have h1 : (noLR E).flags.leftRec = false := rfl
  have h2 : (noLR E).opts.memoize = false := rfl
  simp [h1, h2]

end

section
variable {E : Env} (hc : LRCfg E) {S : String → Bool} (hS : LFSet E S)
variable {rec rec' : Expr → PState → Outcome}
include hc hS

theorem body_noLR (hrec : ∀ e, e.callsIn S = true → ∀ s, rec' e s = rec e s) (k : Nat) (e : Expr) (he : e.callsIn S = true)
    (s : PState) : parseExprBody (noLR E) rec' k e s = parseExprBody E rec k e s := by
  cases e with
  | action id blk e1 =>
    simp only [Expr.callsIn] at he
    simp only [parseExprBody, parseAction, wrap_noLR, wrap_LR hc, hrec e1 he]
    rfl
  | andCode id blk => rfl
  | notCode id blk => rfl
  | stateCode id blk => rfl
  | and id e1 =>
    simp only [Expr.callsIn] at he
    simp only [parseExprBody, parseAnd, wrap_noLR, wrap_LR hc, hrec e1 he]; rfl
  | not id e1 =>
    simp only [Expr.callsIn] at he
    simp only [parseExprBody, parseNot, wrap_noLR, wrap_LR hc, hrec e1 he]; rfl
  | any id => rfl
  | cls id c => rfl
  | choice id line col alts =>
    simp only [Expr.callsIn] at he
    exact choice_noLR hc line col alts (fun e' he' => hrec e' (callsInL_mem he e' he')) 0 s
  | labeled id label e1 =>
    simp only [Expr.callsIn] at he
    simp only [parseExprBody, parseLabeled, wrap_noLR, wrap_LR hc, hrec e1 he]
  | lit id val ic want => exact lit_noLR _ _ _ _ _
  | oneOrMore id e1 =>
    simp only [Expr.callsIn] at he
    exact loop_noLR hc e1 (hrec e1 he) k s []
  | zeroOrMore id e1 =>
    simp only [Expr.callsIn] at he
    simp only [parseExprBody, parseZeroOrMore, loop_noLR hc e1 (hrec e1 he)]
  | zeroOrOne id e1 =>
    simp only [Expr.callsIn] at he
    simp only [parseExprBody, parseZeroOrOne, wrap_noLR, wrap_LR hc, hrec e1 he]
  | recovery id e1 r labels => simp [Expr.callsIn] at he
  | ruleRef id name =>
    simp only [Expr.callsIn] at he
    simp only [parseExprBody, parseRuleRef]
    have hf : (noLR E).findRule name = E.findRule name := rfl
    rw [hf]
    cases hfr : E.findRule name with
    | none => rfl
    | some r =>
      simp only []
      rw [ruleWrap_noLR hc k r (hS.noleader name r he hfr) (hrec r.expr (hS.closed name r he hfr))]
  | seq id es =>
    simp only [Expr.callsIn] at he
    exact seq_noLR hc _ _ es (fun e' he' => hrec e' (callsInL_mem he e' he')) s []
  | throw id label => simp [Expr.callsIn] at he

/-- **Leader-free expressions are evaluated as the ordinary parser evaluates them.** -/
theorem parseExpr_noLR : ∀ (f : Nat) (e : Expr), e.callsIn S = true → ∀ s, parseExpr (noLR E) f e s = parseExpr E f e s
  | 0, _, _, _ => rfl
  | f + 1, e, he, s => by
    show parseExprStep (noLR E) (parseExpr (noLR E) f) f e s = parseExprStep E (parseExpr E f) f e s
    unfold parseExprStep
    have : overBudget (noLR E) (bump s) = overBudget E (bump s) := rfl
    rw [this, body_noLR hc hS (fun e' he' s' => parseExpr_noLR f e' he' s') f e he (bump s)]

end

/-! ### the ordinary parser: no memo table, progress -/

theorem ruleWrap_plain (E : Env) (rec : Expr → PState → Outcome) (k : Nat) (r : Rule) (s : PState) :
    parseRuleWrap (noLR E) rec k r s = parseRule (noLR E) rec r s := by
  unfold parseRuleWrap
  have h1 : (noLR E).flags.leftRec = false := rfl
  have h2 : (noLR E).opts.memoize = false := rfl
  simp [h1, h2]

theorem FInv_noLR {E : Env} {s : PState} : FInv (noLR E) s ↔ FInv E s := Iff.rfl

/-- the ordinary parser never writes the memo table, and respects progress -/
theorem noLR_adv (E : Env) {rn : String → Bool}
    (hrn : ∀ n r, E.findRule n = some r → r.expr.nul rn = true → rn n = true) (m : List ((Nat × MemoKey) × MemoVal)) :
    ∀ (f : Nat) (e : Expr) (s : PState), FInv E s → s.memo = m →
      (parseExpr (noLR E) f e s).Sat (fun _ ok s' => s'.memo = m ∧ Adv rn e s ok s') (fun _ => True)
  | 0, _, _, _, _ => trivial
  | f + 1, e, s, hi, hj => by
    have hJ : MemoInv (fun t : PState => t.memo = m) := ⟨fun _ _ h hj => by rw [h]; exact hj⟩
    show (parseExprStep (noLR E) (parseExpr (noLR E) f) f e s).Sat _ _
    unfold parseExprStep
    split
    · trivial
    · have hrule : ∀ (k : Nat) (name : String) (r : Rule) (s : PState), (noLR E).findRule name = some r → FInv (noLR E) s →
          s.memo = m →
          (parseRuleWrap (noLR E) (parseExpr (noLR E) f) k r s).Sat
            (fun _ ok s' => s'.memo = m ∧ (ok = true → s.pt.pos.off ≤ s'.pt.pos.off ∧ (s'.pt.pos.off = s.pt.pos.off → rn name = true)))
            (fun _ => True) := by
        intro k name r s hf hi' hj'
        rw [ruleWrap_plain]
        apply Outcome.sat_mono (rule_adv hJ (E := noLR E) rfl (parseExpr_frame (noLR E) f)
          (fun e s hi hj => noLR_adv E hrn m f e s hi hj) r s hi' hj')
        · intro v ok s' ⟨hj'', h⟩
          exact ⟨hj'', fun hok => by obtain ⟨h1, h2⟩ := h hok; exact ⟨h1, fun heq => hrn name r hf (h2 heq)⟩⟩
        · intro _ _; trivial
      exact body_adv hJ (E := noLR E) rfl (parseExpr_frame (noLR E) f) (fun e s hi hj => noLR_adv E hrn m f e s hi hj)
        hrule f e (bump s) (FInv.congr (E := noLR E) hi rfl rfl) (hJ.congr _ _ (by rfl) hj)

end RT
end PV
