/-
  A directly left-recursive rule `A <- A t1 / … / A tn / b1 / … / bm` parses as the iteration it denotes.

  The operands (`ti`, `bj`) are leader-free: no rule that runs the seed-growing loop can be reached from them, so they
  are evaluated exactly as the ordinary parser evaluates them (`Proofs/LFree.lean`), and, the code being pure, what
  they match at a position does not depend on the state they are evaluated in (`loc`, `Proofs/MemoSound.lean`).
  `Loc x p ok v q` records that fact for one operand at one position; `Iter` composes such facts the way the iteration
  `(b1/…/bm) (t1/…/tn)*` with a left-nested value does; `leader_iter` shows that the seed-growing loop computes it.
-/
import PigeonVerif.Proofs.LFree

namespace PV
namespace RT

/-! ### what the ordinary parser does with an operand at a position -/

section defs
variable (E : Env) (A : Rule)

/-- a state at position `p` inside rule `A` -/
def GoodAt (p : Savepoint) (t : PState) : Prop := t.pt = p ∧ t.rstack.head? = some A

/-- the ORDINARY parser (generated without `-support-left-recursion`, run without `Memoize`) evaluates `x` at `p`,
    inside rule `A`, to success flag `ok`, value `v` and end position `q` — from EVERY state at that position -/
def Loc (x : Expr) (p : Savepoint) (ok : Bool) (v : Val) (q : Savepoint) : Prop :=
  Reach E.input p ∧ Reach E.input q ∧
  ∃ F, ∀ t, GoodAt A p t → ∃ t', parseExpr (noLR E) F x t = .done v ok t' ∧ t'.pt = q ∧ t'.rstack = t.rstack

/-- a sequence of operands from `p`: the values of the items and the end position; `false` = some item fails -/
inductive SeqAt : List Expr → Savepoint → Bool → List Val → Savepoint → Prop
  | nil (p : Savepoint) : SeqAt [] p true [] p
  | cons {e : Expr} {es : List Expr} {p q q' : Savepoint} {v : Val} {ok : Bool} {vs : List Val} :
      Loc E A e p true v q → SeqAt es q ok vs q' → SeqAt (e :: es) p ok (v :: vs) q'
  | fail {e : Expr} {es : List Expr} {p : Savepoint} {v : Val} : Loc E A e p false v p → SeqAt (e :: es) p false [] p

/-- ordered choice among operands at `p` -/
inductive AltAt : List Expr → Savepoint → Bool → Val → Savepoint → Prop
  | nil (p : Savepoint) : AltAt [] p false .nil p
  | hit {a : Expr} {as : List Expr} {p q : Savepoint} {v : Val} : Loc E A a p true v q → AltAt (a :: as) p true v q
  | miss {a : Expr} {as : List Expr} {p q : Savepoint} {v v' : Val} {ok : Bool} :
      Loc E A a p false v' p → AltAt as p ok v q → AltAt (a :: as) p ok v q

/-- ordered choice among operand SEQUENCES at `p`: the first that matches, or none -/
inductive TailsAt : List (List Expr) → Savepoint → Option (List Val × Savepoint) → Prop
  | nil (p : Savepoint) : TailsAt [] p none
  | hit {t : List Expr} {ts : List (List Expr)} {p q : Savepoint} {vs : List Val} :
      SeqAt E A t p true vs q → TailsAt (t :: ts) p (some (vs, q))
  | miss {t : List Expr} {ts : List (List Expr)} {p q : Savepoint} {vs : List Val} {r : Option (List Val × Savepoint)} :
      SeqAt E A t p false vs q → TailsAt ts p r → TailsAt (t :: ts) p r

/-- greedy repetition of "one of the tails", folding the values to the left: from the match so far (`v`, ending at `p`)
    to the final one -/
inductive Reps (tails : List (List Expr)) : Savepoint → Val → Savepoint → Val → Prop
  | stop {p : Savepoint} {v : Val} : TailsAt E A tails p none → Reps tails p v p v
  | step {p q q' : Savepoint} {v v' : Val} {vs : List Val} : TailsAt E A tails p (some (vs, q)) →
      p.pos.off < q.pos.off → Reps tails q (.list (v :: vs)) q' v' → Reps tails p v q' v'

/-- **the iteration**: one of the bases at `p0`, then greedily the tails; `ok = false` iff no base matches -/
def Iter (tails : List (List Expr)) (bases : List Expr) (p0 : Savepoint) (ok : Bool) (v : Val) (q : Savepoint) : Prop :=
  (ok = false ∧ AltAt E A bases p0 false v q) ∨
  (ok = true ∧ ∃ v1 p1, AltAt E A bases p0 true v1 p1 ∧ Reps E A tails p1 v1 q v)

end defs

/-! ### the hypotheses -/

/-- the alternative `A t` of the rule named `a` -/
def mkAlt (a : String) (x : Nat × Nat × List Expr) : Expr := .seq x.1 (.ruleRef x.2.1 a :: x.2.2)

structure DirectLR (E : Env) (A : Rule) (cid line col : Nat) (ra : List (Nat × Nat × List Expr)) (bases : List Expr)
    (S : String → Bool) (rn : String → Bool) (own : Nat → Option String) (node : Nat → Option Expr)
    (isPred : Nat → Bool) : Prop where
  cfg : LRCfg E
  noopt : E.flags.optimize = false
  pure : PureCode E isPred
  okG : ∀ n r, E.findRule n = some r → r.expr.Ok own node isPred n
  find : E.findRule A.name = some A
  ld : isLd A = true
  shape : A.expr = .choice cid line col (ra.map (mkAlt A.name) ++ bases)
  lf : LFSet E S
  tails_lf : ∀ a ∈ ra, callsInL S a.2.2 = true
  bases_lf : callsInL S bases = true
  rnc : ∀ n r, E.findRule n = some r → r.expr.nul rn = true → rn n = true
  tails_nn : ∀ a ∈ ra, nulAll rn a.2.2 = false

section main
variable {E : Env} {A : Rule} {cid line col : Nat} {ra : List (Nat × Nat × List Expr)} {bases : List Expr}
variable {S : String → Bool} {rn : String → Bool} {own : Nat → Option String} {node : Nat → Option Expr}
variable {isPred : Nat → Bool}
variable (H : DirectLR E A cid line col ra bases S rn own node isPred)
include H

/-- what is kept fixed while operands are evaluated: frame invariants, the innermost rule, the memo table -/
structure OpInv (E : Env) (A : Rule) (m : List ((Nat × MemoKey) × MemoVal)) (X : PState) : Prop where
  finv : FInv E X
  head : X.rstack.head? = some A
  memo : X.memo = m

omit H in
theorem OpInv.congr {m : List ((Nat × MemoKey) × MemoVal)} {X X' : PState} (h : OpInv E A m X) (h1 : X'.pt = X.pt)
    (h2 : X'.rstack = X.rstack) (h3 : X'.memo = X.memo) : OpInv E A m X' :=
  ⟨h.finv.congr h1 h3, by rw [h2]; exact h.head, by rw [h3]; exact h.memo⟩

omit H in
theorem OpInv.congr' {m : List ((Nat × MemoKey) × MemoVal)} {X X' : PState} (h : OpInv E A m X) (h1 : Reach E.input X'.pt)
    (h2 : X'.rstack = X.rstack) (h3 : X'.memo = X.memo) : OpInv E A m X' :=
  ⟨h.finv.congr' h1 h3, by rw [h2]; exact h.head, by rw [h3]; exact h.memo⟩

/-- one operand, evaluated by the left-recursion parser in any state of the growth attempt -/
theorem op_sat (m : List ((Nat × MemoKey) × MemoVal)) (f : Nat) (x : Expr) (hlf : x.callsIn S = true)
    (hok : x.Ok own node isPred A.name) (X : PState) (hX : OpInv E A m X) :
    (parseExpr E f x X).Sat
      (fun v ok X' => Loc E A x X.pt ok v X'.pt ∧ OpInv E A m X' ∧ X'.rstack = X.rstack ∧ Adv rn x X ok X' ∧
        (ok = false → X'.pt = X.pt))
      (fun _ => True) := by
  have hn := parseExpr_noLR H.cfg H.lf f x hlf X
  have ha := noLR_adv E H.rnc m f x X hX.finv hX.memo
  have hfr := parseExpr_frame E f x X hX.finv.1
  rw [hn] at ha
  cases ho : parseExpr E f x X with
  | oof => trivial
  | panic p X' => trivial
  | done v ok X' =>
    rw [ho] at ha hfr hn
    simp only [Outcome.Sat] at ha hfr
    have hi' : FInv E X' := hX.finv.of_framed hfr
    refine ⟨?_, ⟨hi', by rw [hfr.stk.rstack]; exact hX.head, ha.1⟩, hfr.stk.rstack, ha.2, fun hb => ?_⟩
    · refine ⟨hX.finv.2.1, hi'.2.1, f, fun t ht => ?_⟩
      have hcfg : MemoCfg (dropLR E) := ⟨H.noopt, rfl, H.cfg.nobudget⟩
      have hp : PureCode (dropLR E) isPred := ⟨H.pure.noargs, H.pure.act, H.pure.pred⟩
      have hl := loc hcfg hp (own := own) (node := node) H.okG t.errs X.errs f x t X A.name A
        (LRel_iff.mpr ⟨ht.1.trans rfl, by rw [ht.2, hX.head], by rw [ht.1]; exact hX.finv.2.1, [], by simp, by simp⟩)
        hok H.find ht.2
      rcases hl.cases with hl | ⟨v', ok', a, b, h1, h2, hrel, hra, _⟩ | ⟨p, a, b, _, h2, _⟩
      · rw [show setMemo (dropLR E) false = noLR E from rfl, hn] at hl; cases hl
      · rw [show setMemo (dropLR E) false = noLR E from rfl, hn] at h2
        cases h2
        exact ⟨a, h1, (LRel_iff.mp hrel).1, hra⟩
      · rw [show setMemo (dropLR E) false = noLR E from rfl, hn] at h2; cases h2
    · exact Reach.unique hi'.2.1 hX.finv.2.1 (hfr.failOff hb)

/-- a sequence of operands, from an intermediate state, with any accumulator -/
theorem seq_sat (m : List ((Nat × MemoKey) × MemoVal)) (f : Nat) (pt : Savepoint) (hpt : Reach E.input pt) (st : Store) :
    ∀ (t : List Expr), callsInL S t = true → OkL own node isPred A.name t → ∀ (X : PState) (acc : List Val),
      OpInv E A m X →
      (parseSeq E (parseExpr E f) pt st t X acc).Sat
        (fun v ok X' => OpInv E A m X' ∧ X'.rstack = X.rstack ∧
          (ok = true → ∃ vs, v = .list (acc.reverse ++ vs) ∧ SeqAt E A t X.pt true vs X'.pt ∧
            X.pt.pos.off ≤ X'.pt.pos.off ∧ (X'.pt.pos.off = X.pt.pos.off → nulAll rn t = true)) ∧
          (ok = false → (∃ vs q, SeqAt E A t X.pt false vs q) ∧ X'.pt.pos.off = pt.pos.off))
        (fun _ => True)
  | [], _, _, X, acc, hX => by
    unfold parseSeq
    unfold Outcome.Sat
    exact ⟨hX, rfl, fun _ => ⟨[], by simp, SeqAt.nil _, Nat.le_refl _, fun _ => by simp [nulAll]⟩, (fun h => by cases h)⟩
  | e :: es, hlf, hok, X, acc, hX => by
    simp only [callsInL, Bool.and_eq_true] at hlf
    simp only [OkL] at hok
    unfold parseSeq
    rw [wrap_LR H.cfg]
    apply Outcome.sat_bind (op_sat H m f e hlf.1 hok.1 X hX)
    intro v ok X1 ⟨hloc, hX1, hr1, hadv, hfail⟩
    cases ok with
    | true =>
      simp only [if_true]
      apply Outcome.sat_mono (seq_sat m f pt hpt st es hlf.2 hok.2 X1 (v :: acc) hX1)
      · intro v2 ok2 X2 ⟨hX2, hr2, hT, hF⟩
        obtain ⟨a1, a2⟩ := hadv rfl
        refine ⟨hX2, hr2.trans hr1, fun h2 => ?_, fun h2 => ?_⟩
        · obtain ⟨vs, hv, hs, hle, hnul⟩ := hT h2
          refine ⟨v :: vs, by simp [hv], SeqAt.cons hloc hs, Nat.le_trans a1 hle, fun heq => ?_⟩
          have h1 : X1.pt.pos.off = X.pt.pos.off := by omega
          simp only [nulAll, Bool.and_eq_true]
          exact ⟨a2 h1, hnul (by omega)⟩
        · obtain ⟨⟨vs, q, hs⟩, ho⟩ := hF h2
          exact ⟨⟨_, _, SeqAt.cons hloc hs⟩, ho⟩
      · intro _ _; trivial
    | false =>
      simp only [Bool.false_eq_true, if_false]
      unfold Outcome.Sat
      rw [hfail rfl] at hloc
      refine ⟨?_, by simp [hr1], (fun h => by cases h), fun _ => ⟨⟨_, _, SeqAt.fail hloc⟩, by simp⟩⟩
      exact hX1.congr' (restore_pt_reach _ _ (by simpa using hX1.finv.2.1) hpt) (by simp) (by simp)

/-- ordered choice among operands (the base alternatives) -/
theorem bases_sat (m : List ((Nat × MemoKey) × MemoVal)) (f : Nat) (ln cl : Nat) :
    ∀ (bs : List Expr), callsInL S bs = true → OkL own node isPred A.name bs → ∀ (i : Nat) (X : PState),
      OpInv E A m X →
      (parseChoice E (parseExpr E f) ln cl bs i X).Sat
        (fun v ok X' => OpInv E A m X' ∧ X'.rstack = X.rstack ∧ AltAt E A bs X.pt ok v X'.pt ∧
          (ok = false → X'.pt = X.pt))
        (fun _ => True)
  | [], _, _, i, X, hX => by
    unfold parseChoice
    unfold Outcome.Sat
    exact ⟨hX.congr (by simp) (by simp) (by simp), by simp, by simpa using AltAt.nil X.pt, fun _ => by simp⟩
  | b :: bs, hlf, hok, i, X, hX => by
    simp only [callsInL, Bool.and_eq_true] at hlf
    simp only [OkL] at hok
    unfold parseChoice
    simp only []
    rw [wrap_LR H.cfg]
    apply Outcome.sat_bind (op_sat H m f b hlf.1 hok.1 (pushV X) (hX.congr rfl (by simp) rfl))
    intro v ok X1 ⟨hloc, hX1, hr1, _, hfail⟩
    have hloc' : Loc E A b X.pt ok v X1.pt := by simpa using hloc
    cases ok with
    | true =>
      simp only [if_true]
      unfold Outcome.Sat
      refine ⟨hX1.congr (by simp) (by simp) (by simp), by simpa using hr1, ?_, (fun h => by cases h)⟩
      simpa using AltAt.hit hloc'
    | false =>
      simp only [Bool.false_eq_true, if_false]
      have hpt1 : X1.pt = X.pt := by simpa using hfail rfl
      rw [hpt1] at hloc'
      have hX2 : OpInv E A m (restoreState E (popV X1) X.state) := hX1.congr (by simp) (by simp) (by simp)
      apply Outcome.sat_mono (bases_sat m f ln cl bs hlf.2 hok.2 (i + 1) _ hX2)
      · intro v2 ok2 X2 ⟨hX2', hr2, hA, hF⟩
        have hp2 : (restoreState E (popV X1) X.state).pt = X.pt := by simpa using hpt1
        rw [hp2] at hA hF
        refine ⟨hX2', ?_, AltAt.miss hloc' hA, hF⟩
        rw [hr2]; simpa using hr1
      · intro _ _; trivial

omit H in
theorem getMemoized_congr {s s' : PState} (h1 : s'.memo = s.memo) (h2 : s'.pt.pos.off = s.pt.pos.off) (k : MemoKey) :
    getMemoized s' k = getMemoized s k := by
  unfold getMemoized; rw [h1, h2]

theorem noBudget (X : PState) : overBudget E X = false := by unfold overBudget; rw [H.cfg.nobudget]

/-- a reference to `A` where the table holds a seed for it: the seed is the answer -/
theorem ref_hit (f : Nat) (rid : Nat) (X : PState) (last : MemoVal) (hg : getMemoized X (.rule A.name) = some last) :
    (parseExpr E f (.ruleRef rid A.name) X).Sat
      (fun v ok X' => v = last.v ∧ ok = last.b ∧ X' = restore (bump X) last.end) (fun _ => True) := by
  cases f with
  | zero => trivial
  | succ f =>
    show (parseExprStep E (parseExpr E f) f _ X).Sat _ _
    unfold parseExprStep
    rw [noBudget H]
    simp only [Bool.false_eq_true, if_false, parseExprBody, parseRuleRef]
    split
    · trivial
    · rw [H.find]
      simp only []
      rw [ruleWrap_lr H.cfg, H.ld]
      simp only [if_true]
      unfold parseRuleLeader
      have hg' : getMemoized (bump X) (.rule A.name) = some last := hg
      rw [hg']
      exact ⟨rfl, rfl, rfl⟩

/-- the alternative `A t`, with a seed for `A` in the table: the tail `t` is evaluated from the end of the seed -/
theorem recAlt_sat (m : List ((Nat × MemoKey) × MemoVal)) (f : Nat) (sid rid : Nat) (t : List Expr)
    (hlf : callsInL S t = true) (hok : OkL own node isPred A.name t) (hnn : nulAll rn t = false)
    (last : MemoVal) (hle : Reach E.input last.end) (X : PState) (hX : OpInv E A m X)
    (hg : getMemoized X (.rule A.name) = some last) :
    (parseExpr E f (.seq sid (.ruleRef rid A.name :: t)) X).Sat
      (fun v ok X' => OpInv E A m X' ∧ X'.rstack = X.rstack ∧
        (ok = true → last.b = true ∧ ∃ vs, v = .list (last.v :: vs) ∧ SeqAt E A t last.end true vs X'.pt ∧
          last.end.pos.off < X'.pt.pos.off) ∧
        (ok = false → X'.pt.pos.off = X.pt.pos.off ∧ (last.b = true → ∃ vs q, SeqAt E A t last.end false vs q)))
      (fun _ => True) := by
  cases f with
  | zero => trivial
  | succ f =>
    show (parseExprStep E (parseExpr E f) f _ X).Sat _ _
    unfold parseExprStep
    rw [noBudget H]
    simp only [Bool.false_eq_true, if_false, parseExprBody]
    unfold parseSeq
    rw [wrap_LR H.cfg]
    apply Outcome.sat_bind (ref_hit H f rid (bump X) last hg)
    intro v ok X2 ⟨hv, hok2, hX2⟩
    subst hv hok2 hX2
    have hreach : Reach E.input X.pt := hX.finv.2.1
    cases hb : last.b with
    | false =>
      simp only [Bool.false_eq_true, if_false]
      unfold Outcome.Sat
      refine ⟨hX.congr' (restore_pt_reach _ _ (by simpa using restore_pt_reach (bump (bump X)) last.end hreach hle) hreach) (by simp) (by simp),
        by simp, (fun h => by cases h), fun _ => ⟨by simp, fun h => by cases h⟩⟩
    | true =>
      simp only [if_true]
      have hX2 : OpInv E A m (restore (bump (bump X)) last.end) :=
        hX.congr' (restore_pt_reach _ _ hreach hle) (by simp) (by simp)
      have hp2 : (restore (bump (bump X)) last.end).pt = last.end := restore_pt (E := E) _ _ hreach hle
      apply Outcome.sat_mono (seq_sat H m f (bump X).pt hreach (bump X).state t hlf hok _ [last.v] hX2)
      · intro v2 ok2 X3 ⟨hX3, hr3, hT, hF⟩
        rw [hp2] at hT hF
        refine ⟨hX3, by simpa using hr3, fun h2 => ?_, fun h2 => ?_⟩
        · obtain ⟨vs, hv, hs, hle', hnul⟩ := hT h2
          refine ⟨by first | rfl | trivial, vs, by simpa using hv, hs, ?_⟩
          rcases Nat.lt_or_ge last.end.pos.off X3.pt.pos.off with hlt | hge
          · exact hlt
          · have := hnul (by omega)
            rw [hnn] at this; cases this
        · obtain ⟨hs, ho⟩ := hF h2
          exact ⟨by simpa using ho, fun _ => hs⟩
      · intro _ _; trivial

/-- one growth attempt, below the rule: the recursive alternatives in order, then the bases -/
theorem alts_sat (m : List ((Nat × MemoKey) × MemoVal)) (f : Nat) (ln cl : Nat) (last : MemoVal)
    (hle : Reach E.input last.end) :
    ∀ (r : List (Nat × Nat × List Expr)), (∀ a ∈ r, callsInL S a.2.2 = true) → (∀ a ∈ r, OkL own node isPred A.name a.2.2) →
      (∀ a ∈ r, nulAll rn a.2.2 = false) → callsInL S bases = true → OkL own node isPred A.name bases →
      ∀ (i : Nat) (X : PState), OpInv E A m X → getMemoized X (.rule A.name) = some last →
      (parseChoice E (parseExpr E f) ln cl (r.map (mkAlt A.name) ++ bases) i X).Sat
        (fun v ok X' => OpInv E A m X' ∧ X'.rstack = X.rstack ∧
          ((ok = true ∧ last.b = true ∧ ∃ vs, TailsAt E A (r.map (·.2.2)) last.end (some (vs, X'.pt)) ∧
              v = .list (last.v :: vs) ∧ last.end.pos.off < X'.pt.pos.off) ∨
           ((last.b = true → TailsAt E A (r.map (·.2.2)) last.end none) ∧ AltAt E A bases X.pt ok v X'.pt ∧
              (ok = false → X'.pt = X.pt))))
        (fun _ => True)
  | [], _, _, _, hbl, hbo, i, X, hX, _ => by
    simp only [List.map_nil, List.nil_append]
    apply Outcome.sat_mono (bases_sat H m f ln cl bases hbl hbo i X hX)
    · intro v ok X' ⟨h1, h2, h3, h4⟩
      exact ⟨h1, h2, Or.inr ⟨fun _ => TailsAt.nil _, h3, h4⟩⟩
    · intro _ _; trivial
  | a :: r, hlf, hok, hnn, hbl, hbo, i, X, hX, hg => by
    simp only [List.map_cons, List.cons_append]
    unfold parseChoice
    simp only []
    rw [wrap_LR H.cfg]
    have hXp : OpInv E A m (pushV X) := hX.congr rfl (by simp) rfl
    apply Outcome.sat_bind (recAlt_sat H m f a.1 a.2.1 a.2.2 (hlf a List.mem_cons_self) (hok a List.mem_cons_self)
      (hnn a List.mem_cons_self) last hle (pushV X) hXp hg)
    intro v ok X1 ⟨hX1, hr1, hT, hF⟩
    cases ok with
    | true =>
      simp only [if_true]
      unfold Outcome.Sat
      obtain ⟨hb, vs, hv, hs, hlt⟩ := hT rfl
      refine ⟨hX1.congr (by simp) (by simp) (by simp), by simpa using hr1, Or.inl ⟨rfl, hb, vs, ?_, hv, by simpa using hlt⟩⟩
      simpa using TailsAt.hit (ts := r.map (·.2.2)) hs
    | false =>
      simp only [Bool.false_eq_true, if_false]
      obtain ⟨hoff, hs⟩ := hF rfl
      have hpt1 : X1.pt = X.pt := Reach.unique hX1.finv.2.1 hX.finv.2.1 (by simpa using hoff)
      have hX2 : OpInv E A m (restoreState E (popV X1) X.state) := hX1.congr (by simp) (by simp) (by simp)
      have hp2 : (restoreState E (popV X1) X.state).pt = X.pt := by simpa using hpt1
      have hg2 : getMemoized (restoreState E (popV X1) X.state) (.rule A.name) = some last := by
        rw [getMemoized_congr (s := X) (by rw [hX2.memo, hX.memo]) (by rw [hp2])]; exact hg
      apply Outcome.sat_mono (alts_sat m f ln cl last hle r (fun a' ha' => hlf a' (List.mem_cons_of_mem _ ha'))
        (fun a' ha' => hok a' (List.mem_cons_of_mem _ ha')) (fun a' ha' => hnn a' (List.mem_cons_of_mem _ ha')) hbl hbo
        (i + 1) _ hX2 hg2)
      · intro v2 ok2 X3 ⟨hX3, hr3, hpost⟩
        rw [hp2] at hpost
        refine ⟨hX3, by rw [hr3]; simpa using hr1, ?_⟩
        rcases hpost with ⟨h1, hb, vs, ht, hv, hlt⟩ | ⟨ht, ha, hf⟩
        · obtain ⟨vs', q', hs'⟩ := hs hb
          exact Or.inl ⟨h1, hb, vs, TailsAt.miss hs' ht, hv, hlt⟩
        · refine Or.inr ⟨fun hb => ?_, ha, hf⟩
          obtain ⟨vs', q', hs'⟩ := hs hb
          exact TailsAt.miss hs' (ht hb)
      · intro _ _; trivial

/-! ### what an operand does at a position is determined -/

omit H in
theorem Loc.det {x : Expr} {p q q' : Savepoint} {ok ok' : Bool} {v v' : Val} (h1 : Loc E A x p ok v q)
    (h2 : Loc E A x p ok' v' q') : ok = ok' ∧ v = v' ∧ q = q' := by
  obtain ⟨_, _, F1, h1⟩ := h1
  obtain ⟨_, _, F2, h2⟩ := h2
  have hg : GoodAt A p { initState E with pt := p, rstack := [A] } := ⟨rfl, rfl⟩
  obtain ⟨t1, e1, rfl, _⟩ := h1 _ hg
  obtain ⟨t2, e2, rfl, _⟩ := h2 _ hg
  have l1 := parseExpr_mono (noLR E) (Nat.le_max_left F1 F2) x _ (by rw [e1]; simp)
  have l2 := parseExpr_mono (noLR E) (Nat.le_max_right F1 F2) x _ (by rw [e2]; simp)
  rw [e1] at l1
  rw [e2, l1] at l2
  cases l2
  exact ⟨rfl, rfl, rfl⟩

omit H in
theorem AltAt.det : ∀ {bs : List Expr} {p q q' : Savepoint} {ok ok' : Bool} {v v' : Val},
    AltAt E A bs p ok v q → AltAt E A bs p ok' v' q' → ok = ok' ∧ v = v' ∧ q = q'
  | _, _, _, _, _, _, _, _, .nil _, .nil _ => ⟨rfl, rfl, rfl⟩
  | _, _, _, _, _, _, _, _, .hit h1, .hit h2 => by
    obtain ⟨_, hv, hq⟩ := h1.det h2; exact ⟨rfl, hv, hq⟩
  | _, _, _, _, _, _, _, _, .hit h1, .miss h2 _ => by
    obtain ⟨hb, _, _⟩ := h1.det h2; cases hb
  | _, _, _, _, _, _, _, _, .miss h1 _, .hit h2 => by
    obtain ⟨hb, _, _⟩ := h1.det h2; cases hb
  | _, _, _, _, _, _, _, _, .miss _ r1, .miss _ r2 => AltAt.det r1 r2

omit H in
theorem AltAt.fail_inv : ∀ {bs : List Expr} {p q : Savepoint} {v : Val}, AltAt E A bs p false v q → v = .nil ∧ q = p
  | _, _, _, _, .nil _ => ⟨rfl, rfl⟩
  | _, _, _, _, .miss _ r => AltAt.fail_inv r

/-! ### the static conditions on the operands, from those on the rule -/

omit H in
theorem OkL_append {rn' : String} : ∀ (xs ys : List Expr), OkL own node isPred rn' (xs ++ ys) →
    OkL own node isPred rn' xs ∧ OkL own node isPred rn' ys
  | [], _, h => ⟨trivial, h⟩
  | x :: xs, ys, h => by
    simp only [List.cons_append, OkL] at h
    obtain ⟨h1, h2⟩ := OkL_append xs ys h.2
    exact ⟨⟨h.1, h1⟩, h2⟩

omit H in
theorem OkL_mem {rn' : String} : ∀ {xs : List Expr}, OkL own node isPred rn' xs → ∀ x ∈ xs, x.Ok own node isPred rn'
  | [], _, _, h => by cases h
  | y :: ys, hl, x, hx => by
    simp only [OkL] at hl
    rcases List.mem_cons.mp hx with rfl | hx
    · exact hl.1
    · exact OkL_mem hl.2 x hx

theorem ok_alts : OkL own node isPred A.name (ra.map (mkAlt A.name) ++ bases) := by
  have h := H.okG A.name A H.find
  rw [H.shape] at h
  simp only [Expr.Ok] at h
  exact h.2

theorem ok_bases : OkL own node isPred A.name bases := (OkL_append _ _ (ok_alts H)).2

theorem ok_tails : ∀ a ∈ ra, OkL own node isPred A.name a.2.2 := by
  intro a ha
  have h := OkL_mem (OkL_append _ _ (ok_alts H)).1 (mkAlt A.name a) (List.mem_map_of_mem ha)
  simp only [mkAlt, Expr.Ok, OkL] at h
  exact h.2.2

/-- one growth attempt: the rule's body with a seed for `A` in the table -/
theorem attempt_sat (f : Nat) (last : MemoVal) (hle : Reach E.input last.end) (s1 : PState) (hi : FInv E s1)
    (hg : getMemoized s1 (.rule A.name) = some last) :
    (parseRule E (parseExpr E f) A s1).Sat
      (fun v ok s2 => FInv E s2 ∧ s2.memo = s1.memo ∧ s2.rstack = s1.rstack ∧
        ((ok = true ∧ last.b = true ∧ ∃ vs, TailsAt E A (ra.map (·.2.2)) last.end (some (vs, s2.pt)) ∧
            v = .list (last.v :: vs) ∧ last.end.pos.off < s2.pt.pos.off) ∨
         ((last.b = true → TailsAt E A (ra.map (·.2.2)) last.end none) ∧ AltAt E A bases s1.pt ok v s2.pt ∧
            (ok = false → s2.pt = s1.pt))))
      (fun _ => True) := by
  unfold parseRule
  simp only []
  rw [wrap_LR H.cfg, H.shape]
  cases f with
  | zero => trivial
  | succ f =>
    show ((parseExprStep E (parseExpr E f) f _ _).bind _).Sat _ _
    unfold parseExprStep
    rw [noBudget H]
    simp only [Bool.false_eq_true, if_false, parseExprBody]
    have hX : OpInv E A s1.memo (bump (pushV { s1 with rstack := A :: s1.rstack })) :=
      ⟨hi.congr rfl rfl, rfl, rfl⟩
    apply Outcome.sat_bind (alts_sat H s1.memo f line col last hle ra H.tails_lf (ok_tails H) H.tails_nn H.bases_lf
      (ok_bases H) 0 _ hX hg)
    intro v ok X' ⟨hX', hr', hpost⟩
    unfold Outcome.Sat
    refine ⟨hX'.finv.congr (by simp) (by simp), by simpa using hX'.memo, ?_, ?_⟩
    · simp [hr', pushV]
    · simpa [pushV] using hpost

/-- the seed-growing loop computes the iteration -/
theorem loop_iter (f : Nat) (p0 : Savepoint) (hp0 : Reach E.input p0) :
    ∀ (k depth : Nat) (last : MemoVal) (lastErrs : List String) (s : PState), FInv E s → s.pt = p0 →
      Reach E.input last.end →
      (depth = 0 → last.b = false ∧ last.v = .nil ∧ last.end = p0) →
      (depth ≠ 0 → last.b = true ∧ ∃ v1 p1, AltAt E A bases p0 true v1 p1 ∧ p1.pos.off ≤ last.end.pos.off ∧
        ∀ qf vf, Reps E A (ra.map (·.2.2)) last.end last.v qf vf → Reps E A (ra.map (·.2.2)) p1 v1 qf vf) →
      (leaderLoop E (parseExpr E f) A p0 k depth last lastErrs s).Sat
        (fun v ok s' => Iter E A (ra.map (·.2.2)) bases p0 ok v s'.pt) (fun _ => True)
  | 0, _, _, _, _, _, _, _, _, _ => by unfold leaderLoop; trivial
  | k + 1, depth, last, lastErrs, s, hi, hpt, hle, h0, h1 => by
    unfold leaderLoop
    simp only []
    have hlf : last.b = false → last.end.pos.off = p0.pos.off := by
      intro hb
      by_cases hd : depth = 0
      · rw [(h0 hd).2.2]
      · rw [(h1 hd).1] at hb; cases hb
    have hi1 : FInv E (setMemoized s p0 (.rule A.name) last) := by
      refine ⟨MemoOK.set hi.1 hlf, by simpa using hi.2.1, ?_⟩
      intro ent hent
      simp only [setMemoized, List.mem_cons] at hent
      rcases hent with rfl | hent
      · exact hle
      · exact hi.2.2 ent hent
    have hg : getMemoized (setMemoized s p0 (.rule A.name) last) (.rule A.name) = some last := by
      simp [getMemoized, setMemoized, hpt]
    apply Outcome.sat_bind (attempt_sat H f last hle _ hi1 hg)
    intro v ok s2 ⟨hi2, hm2, hr2, hpost⟩
    have hs1pt : (setMemoized s p0 (.rule A.name) last).pt = p0 := by simpa using hpt
    rw [hs1pt] at hpost
    split
    · -- the loop stops: the seed is the result
      rename_i hcond
      unfold Outcome.Sat
      have hfin : ∀ (Y : PState), Reach E.input Y.pt →
          (setMemoized (restore Y last.end) p0 (.rule A.name) last).pt = last.end :=
        fun Y hy => restore_pt (E := E) Y last.end hy hle
      dsimp only
      rw [hfin _ (by simpa using hi2.2.1)]
      by_cases hd : depth = 0
      · obtain ⟨hb, hv, he⟩ := h0 hd
        have hok : ok = false := by
          cases ok with
          | false => rfl
          | true => simp [hd] at hcond
        subst hok
        rcases hpost with ⟨h, _⟩ | ⟨_, ha, _⟩
        · cases h
        · obtain ⟨hvn, hq⟩ := ha.fail_inv
          rw [hb, hv, he]
          rw [hvn, hq] at ha
          exact Or.inl ⟨rfl, ha⟩
      · obtain ⟨hb, v1, p1, hA, hle1, hG⟩ := h1 hd
        rw [hb]
        refine Or.inr ⟨rfl, v1, p1, hA, hG _ _ (Reps.stop ?_)⟩
        rcases hpost with ⟨hok, _, vs, _, _, hlt⟩ | ⟨ht, _, _⟩
        · subst hok
          have : ¬ (s2.pt.pos.off ≤ last.end.pos.off) := by omega
          simp [this] at hcond
        · exact ht hb
    · -- the loop goes on with the longer match as the seed
      rename_i hcond
      have hok : ok = true := by
        cases ok with
        | true => rfl
        | false => simp at hcond
      subst hok
      have hgrow : depth = 0 ∨ last.end.pos.off < s2.pt.pos.off := by
        by_cases hd : depth = 0
        · exact Or.inl hd
        · refine Or.inr ?_
          rcases Nat.lt_or_ge last.end.pos.off s2.pt.pos.off with h | h
          · exact h
          · simp [h, hd] at hcond
      apply loop_iter f p0 hp0 k (depth + 1) _ _ (restore s2 p0)
        (FInv.congr' hi2 (restore_pt_reach _ _ hi2.2.1 hp0) (by simp)) (restore_pt (E := E) _ _ hi2.2.1 hp0) hi2.2.1
        (fun h => by omega)
      intro _
      refine ⟨rfl, ?_⟩
      rcases hpost with ⟨_, hb, vs, ht, hv, hlt⟩ | ⟨_, ha, _⟩
      · have hd : depth ≠ 0 := fun hd => by rw [(h0 hd).1] at hb; cases hb
        obtain ⟨_, v1, p1, hA, hle1, hG⟩ := h1 hd
        refine ⟨v1, p1, hA, by simp only []; omega, fun qf vf hgr => hG qf vf (Reps.step ht hlt ?_)⟩
        rw [← hv]; exact hgr
      · by_cases hd : depth = 0
        · exact ⟨v, s2.pt, ha, Nat.le_refl _, fun _ _ h => h⟩
        · obtain ⟨_, v1, p1, hA, hle1, _⟩ := h1 hd
          obtain ⟨_, _, hq⟩ := ha.det hA
          rcases hgrow with h | h
          · exact absurd h hd
          · rw [hq] at h; omega

/-- **A directly left-recursive leader parses as the iteration it denotes.** -/
theorem leader_iter (f k : Nat) (s : PState) (hi : FInv E s) (hnone : getMemoized s (.rule A.name) = none) :
    (parseRuleLeader E (parseExpr E f) k A s).Sat
      (fun v ok s' => Iter E A (ra.map (·.2.2)) bases s.pt ok v s'.pt) (fun _ => True) := by
  unfold parseRuleLeader
  rw [hnone]
  simp only []
  exact loop_iter H f s.pt hi.2.1 k 0 _ s.errs s hi rfl hi.2.1 (fun _ => ⟨rfl, rfl, rfl⟩) (fun h => absurd rfl h)

end main

end RT
end PV
