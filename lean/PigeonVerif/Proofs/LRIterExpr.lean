/-
  The iteration as an ordinary rule body: if `Iter … p0 ok v q` (what the seed-growing loop computes, `Proofs/LRIter.lean`)
  then the ORDINARY parser, run on the expression `(b1 / … / bm) ((t1) / … / (tn))*` from any state at `p0` inside rule `A`,
  fails iff `ok = false` and otherwise ends at `q`.
-/
import PigeonVerif.Proofs.LRIter

namespace PV
namespace RT

section
variable {E : Env} {A : Rule}

theorem good_push {p : Savepoint} {t : PState} (h : GoodAt A p t) : GoodAt A p (pushV t) := ⟨by simpa using h.1, by simpa using h.2⟩
theorem good_bump {p : Savepoint} {t : PState} (h : GoodAt A p t) : GoodAt A p (bump t) := ⟨h.1, h.2⟩

/-- `lift` for the ordinary parser -/
theorem lift0 {f F : Nat} {e : Expr} {s : PState} {o : Outcome} (hle : f ≤ F) (ho : parseExpr (noLR E) f e s = o)
    (hne : o ≠ .oof) : parseExpr (noLR E) F e s = o := by
  rw [parseExpr_mono (noLR E) hle e s (by rw [ho]; exact hne), ho]

/-- ordered choice among operands, replayed by the ordinary parser -/
theorem alt_replay {bs : List Expr} {p q : Savepoint} {ok : Bool} {v : Val} (h : AltAt E A bs p ok v q) :
    ∀ (l c i : Nat) (t : PState), GoodAt A p t →
      ∃ F t', parseChoice (noLR E) (parseExpr (noLR E) F) l c bs i t = .done v ok t' ∧ t'.pt = q ∧ t'.rstack = t.rstack := by
  induction h with
  | nil p =>
    intro l c i t ht
    exact ⟨0, incChoiceAlt t l c none, by unfold parseChoice; rfl, by simpa using ht.1, by simp⟩
  | hit hl =>
    intro l c i t ht
    obtain ⟨_, _, F0, h0⟩ := hl
    obtain ⟨t1, e1, hp1, hr1⟩ := h0 (pushV t) (good_push ht)
    refine ⟨F0, incChoiceAlt (popV t1) l c (some i), ?_, ?_, ?_⟩
    · unfold parseChoice
      simp only []
      rw [wrap_noLR, e1]
      simp only [Outcome.bind, if_true]
    · simpa using hp1
    · simpa using hr1
  | miss hl _ ih =>
    intro l c i t ht
    obtain ⟨_, _, F0, h0⟩ := hl
    obtain ⟨t1, e1, hp1, hr1⟩ := h0 (pushV t) (good_push ht)
    have hg2 : GoodAt A _ (restoreState (noLR E) (popV t1) t.state) :=
      ⟨by simpa using hp1, by simpa [hr1] using ht.2⟩
    obtain ⟨F2, t', e2, hp2, hr2⟩ := ih l c (i + 1) _ hg2
    refine ⟨max F0 F2, t', ?_, hp2, ?_⟩
    · unfold parseChoice
      simp only []
      rw [wrap_noLR, lift0 (Nat.le_max_left F0 F2) e1 (by simp)]
      simp only [Outcome.bind, Bool.false_eq_true, if_false]
      rw [choice_ext (parseExpr_mono (noLR E) (Nat.le_max_right F0 F2)) l c _ (i + 1) _ (by rw [e2]; simp), e2]
    · rw [hr2]; simpa using hr1

/-- a sequence of operands, replayed; on failure the position is the one given to `parseSeq` -/
theorem seq_replay {es : List Expr} {p q : Savepoint} {ok : Bool} {vs : List Val} (h : SeqAt E A es p ok vs q) :
    ∀ (pt : Savepoint) (st : Store) (t : PState) (acc : List Val), GoodAt A p t → Reach E.input t.pt → Reach E.input pt →
      ∃ F t', parseSeq (noLR E) (parseExpr (noLR E) F) pt st es t acc =
          (if ok then .done (.list (acc.reverse ++ vs)) true t' else .done .nil false t') ∧
        (ok = true → t'.pt = q) ∧ (ok = false → t'.pt = pt) ∧ t'.rstack = t.rstack := by
  induction h with
  | nil p =>
    intro pt st t acc ht _ _
    exact ⟨0, t, by unfold parseSeq; simp, fun _ => ht.1, (fun h => by cases h), rfl⟩
  | cons hl _ ih =>
    intro pt st t acc ht hrt hrp
    obtain ⟨_, hq, F0, h0⟩ := hl
    obtain ⟨t1, e1, hp1, hr1⟩ := h0 t ht
    have hg1 : GoodAt A _ t1 := ⟨hp1, by rw [hr1]; exact ht.2⟩
    obtain ⟨F2, t', e2, hT, hF, hr2⟩ := ih pt st t1 (_ :: acc) hg1 (by rw [hp1]; exact hq) hrp
    refine ⟨max F0 F2, t', ?_, hT, hF, by rw [hr2, hr1]⟩
    unfold parseSeq
    rw [wrap_noLR, lift0 (Nat.le_max_left F0 F2) e1 (by simp)]
    simp only [Outcome.bind, if_true]
    rw [seq_ext (parseExpr_mono (noLR E) (Nat.le_max_right F0 F2)) pt st _ t1 _ (by rw [e2]; split <;> simp), e2]
    simp [List.reverse_cons, List.append_assoc]
  | fail hl =>
    intro pt st t acc ht hrt hrp
    obtain ⟨_, _, F0, h0⟩ := hl
    obtain ⟨t1, e1, hp1, hr1⟩ := h0 t ht
    refine ⟨F0, restore (restoreState (noLR E) t1 st) pt, ?_, (fun h => by cases h), fun _ => ?_, ?_⟩
    · unfold parseSeq
      rw [wrap_noLR, e1]
      simp only [Outcome.bind, Bool.false_eq_true, if_false]
    · exact restore_pt (E := E) _ pt (by simpa [hp1] using ht.1 ▸ hrt) hrp
    · simpa using hr1

end

section
variable {E : Env} {A : Rule}

/-- the end position of a matching sequence of operands is a reader position (given that the start is) -/
theorem seqAt_reach {es : List Expr} {p q : Savepoint} {ok : Bool} {vs : List Val} (h : SeqAt E A es p ok vs q)
    (hp : Reach E.input p) : Reach E.input q := by
  induction h with
  | nil p => exact hp
  | cons hl _ ih => exact ih hl.2.1
  | fail _ => exact hp

theorem tailsAt_reach {ts : List (List Expr)} {p : Savepoint} {r : Option (List Val × Savepoint)} (h : TailsAt E A ts p r)
    (hp : Reach E.input p) : ∀ vs q, r = some (vs, q) → Reach E.input q := by
  induction h with
  | nil p => intro _ _ h; cases h
  | hit hs => intro vs q h; cases h; exact seqAt_reach hs hp
  | miss _ _ ih => exact ih hp

end

section
variable {E : Env} {A : Rule} (hnb : E.opts.maxExpr = none)
include hnb

theorem step0 (F : Nat) (e : Expr) (t : PState) :
    parseExpr (noLR E) (F + 1) e t = parseExprBody (noLR E) (parseExpr (noLR E) F) F e (bump t) := by
  show parseExprStep (noLR E) (parseExpr (noLR E) F) F e t = _
  unfold parseExprStep
  have : overBudget (noLR E) (bump t) = false := by
    unfold overBudget
    rw [show (noLR E).opts.maxExpr = E.opts.maxExpr from rfl, hnb]
  rw [this]
  rfl

omit hnb in
/-- the outcome of the choice among the tails, as an outcome of the parser -/
def tailsOut (r : Option (List Val × Savepoint)) (t' : PState) : Outcome :=
  match r with
  | some (vs, _) => .done (.list vs) true t'
  | none => .done .nil false t'

omit hnb in
def tailsEnd (r : Option (List Val × Savepoint)) (p : Savepoint) : Savepoint :=
  match r with
  | some (_, q) => q
  | none => p

/-- the alternatives `(t1) / … / (tn)`, each a sequence node of its own -/
theorem tails_replay {ts : List (List Expr)} {p : Savepoint} {r : Option (List Val × Savepoint)}
    (h : TailsAt E A ts p r) : ∀ (l c i : Nat) (t : PState), GoodAt A p t → Reach E.input t.pt →
      ∃ F t', parseChoice (noLR E) (parseExpr (noLR E) F) l c (ts.map (.seq 0)) i t = tailsOut r t' ∧
        t'.pt = tailsEnd r p ∧ t'.rstack = t.rstack := by
  induction h with
  | nil p =>
    intro l c i t ht _
    exact ⟨0, incChoiceAlt t l c none, by simp [parseChoice, tailsOut], by simpa [tailsEnd] using ht.1, by simp⟩
  | hit hs =>
    intro l c i t ht hrt
    obtain ⟨F0, t1, e1, hT, _, hr1⟩ := seq_replay hs (bump (pushV t)).pt (bump (pushV t)).state (bump (pushV t)) []
      (good_bump (good_push ht)) (by simpa using hrt) (by simpa using hrt)
    refine ⟨F0 + 1, incChoiceAlt (popV t1) l c (some i), ?_, by simpa [tailsEnd] using hT rfl, by simpa using hr1⟩
    simp only [List.map_cons]
    unfold parseChoice
    simp only []
    rw [wrap_noLR, step0 hnb]
    simp only [parseExprBody]
    rw [e1]
    simp [Outcome.bind, tailsOut]
  | @miss tl tls p0 q0 vs0 r0 hs _ ih =>
    intro l c i t ht hrt
    obtain ⟨F0, t1, e1, _, hF, hr1⟩ := seq_replay hs (bump (pushV t)).pt (bump (pushV t)).state (bump (pushV t)) []
      (good_bump (good_push ht)) (by simpa using hrt) (by simpa using hrt)
    have hp1 : t1.pt = t.pt := by simpa using hF rfl
    have hg2 : GoodAt A _ (restoreState (noLR E) (popV t1) t.state) :=
      ⟨by simpa [hp1] using ht.1, by simpa [hr1] using ht.2⟩
    obtain ⟨F2, t', e2, hp2, hr2⟩ := ih l c (i + 1) _ hg2 (by simpa [hp1] using hrt)
    refine ⟨max (F0 + 1) F2, t', ?_, hp2, by rw [hr2]; simpa using hr1⟩
    simp only [List.map_cons]
    unfold parseChoice
    simp only []
    have hstep : parseExpr (noLR E) (F0 + 1) (.seq 0 tl) (pushV t) = .done .nil false t1 := by
      rw [step0 hnb]
      simp only [parseExprBody]
      rw [e1]
      simp
    rw [wrap_noLR, lift0 (Nat.le_max_left (F0 + 1) F2) hstep (by simp)]
    simp only [Outcome.bind, Bool.false_eq_true, if_false]
    rw [choice_ext (parseExpr_mono (noLR E) (Nat.le_max_right (F0 + 1) F2)) l c _ (i + 1) _
      (by rw [e2]; unfold tailsOut; split <;> simp), e2]

/-- the greedy repetition of the tails -/
theorem reps_replay {tails : List (List Expr)} {p q : Savepoint} {v v' : Val} (h : Reps E A tails p v q v') :
    ∀ (t : PState) (acc : List Val), GoodAt A p t → Reach E.input t.pt →
      ∃ F w ok' t', parseLoop (noLR E) (parseExpr (noLR E) F) (.choice 0 0 0 (tails.map (.seq 0))) F t acc = .done w ok' t' ∧
        t'.pt = q ∧ t'.rstack = t.rstack := by
  induction h with
  | stop hn =>
    intro t acc ht hrt
    obtain ⟨F0, t1, e1, hp1, hr1⟩ := tails_replay hnb hn 0 0 0 (bump (pushV t)) (good_bump (good_push ht)) (by simpa using hrt)
    have hbody : parseExpr (noLR E) (F0 + 1) (.choice 0 0 0 (tails.map (.seq 0))) (pushV t) = .done .nil false t1 := by
      rw [step0 hnb]; simpa [parseExprBody, tailsOut] using e1
    have hloop : parseLoop (noLR E) (parseExpr (noLR E) (F0 + 1)) (.choice 0 0 0 (tails.map (.seq 0))) (F0 + 1) t acc =
        (if acc.isEmpty then .done .nil false (popV t1) else .done (.list acc.reverse) true (popV t1)) := by
      unfold parseLoop
      simp only []
      rw [wrap_noLR, hbody]
      simp only [Outcome.bind, Bool.false_eq_true, if_false]
    by_cases hacc : acc.isEmpty = true
    · exact ⟨F0 + 1, .nil, false, popV t1, by rw [hloop, if_pos hacc], by simpa [tailsEnd] using hp1, by simpa using hr1⟩
    · exact ⟨F0 + 1, .list acc.reverse, true, popV t1, by rw [hloop, if_neg hacc], by simpa [tailsEnd] using hp1, by simpa using hr1⟩
  | @step p0 q0 q1 v0 v1 vs0 hs _ _ ih =>
    intro t acc ht hrt
    obtain ⟨F0, t1, e1, hp1, hr1⟩ := tails_replay hnb hs 0 0 0 (bump (pushV t)) (good_bump (good_push ht)) (by simpa using hrt)
    have hbody : parseExpr (noLR E) (F0 + 1) (.choice 0 0 0 (tails.map (.seq 0))) (pushV t) = .done (.list vs0) true t1 := by
      rw [step0 hnb]; simpa [parseExprBody, tailsOut] using e1
    have hp1' : t1.pt = q0 := by simpa [tailsEnd] using hp1
    have hq : Reach E.input t1.pt := by
      rw [hp1']
      exact tailsAt_reach hs (by rw [← ht.1]; exact hrt) _ _ rfl
    have hg1 : GoodAt A q0 (popV t1) := ⟨by simpa using hp1', by simpa [hr1] using ht.2⟩
    obtain ⟨F2, w, ok', t', e2, hp2, hr2⟩ := ih (popV t1) (.list vs0 :: acc) hg1 (by simpa using hq)
    refine ⟨max (F0 + 1) F2 + 1, w, ok', t', ?_, hp2, by rw [hr2]; simpa using hr1⟩
    unfold parseLoop
    simp only []
    rw [wrap_noLR, lift0 (Nat.le_trans (Nat.le_max_left (F0 + 1) F2) (Nat.le_succ _)) hbody (by simp)]
    simp only [Outcome.bind, if_true]
    rw [loop_ext (parseExpr_mono (noLR E) (Nat.le_trans (Nat.le_max_right (F0 + 1) F2) (Nat.le_succ _))) _ F2
      (max (F0 + 1) F2) _ _ (Nat.le_max_right (F0 + 1) F2) (by rw [e2]; simp), e2]

end

section
variable {E : Env} {A : Rule}

theorem altAt_reach {bs : List Expr} {p q : Savepoint} {ok : Bool} {v : Val} (h : AltAt E A bs p ok v q)
    (hp : Reach E.input p) : Reach E.input q := by
  induction h with
  | nil p => exact hp
  | hit hl => exact hl.2.1
  | miss _ _ ih => exact ih hp

/-- the rule body the iteration is: `(b1 / … / bm) ((t1) / … / (tn))*` -/
def iterExpr (tails : List (List Expr)) (bases : List Expr) : Expr :=
  .seq 0 [.choice 0 0 0 bases, .zeroOrMore 0 (.choice 0 0 0 (tails.map (.seq 0)))]

/-- **The iteration, run by the ordinary parser.** -/
theorem iter_replay (hnb : E.opts.maxExpr = none) {tails : List (List Expr)} {bases : List Expr} {p0 q : Savepoint}
    {ok : Bool} {v : Val} (h : Iter E A tails bases p0 ok v q) (t : PState) (ht : GoodAt A p0 t)
    (hrt : Reach E.input t.pt) :
    ∃ F w t', parseExpr (noLR E) F (iterExpr tails bases) t = .done w ok t' ∧ t'.pt = q := by
  have hb1 : GoodAt A p0 (bump (bump t)) := good_bump (good_bump ht)
  rcases h with ⟨rfl, ha⟩ | ⟨rfl, v1, p1, ha, hr⟩
  · -- no base matches
    obtain ⟨hv, hq⟩ := ha.fail_inv
    obtain ⟨Fa, ta, ea, hpa, hra⟩ := alt_replay ha 0 0 0 (bump (bump t)) hb1
    have hch : parseExpr (noLR E) (Fa + 1) (.choice 0 0 0 bases) (bump t) = .done v false ta := by
      rw [step0 hnb]; simpa [parseExprBody] using ea
    refine ⟨Fa + 2, .nil, restore (restoreState (noLR E) ta (bump t).state) (bump t).pt, ?_, ?_⟩
    · rw [step0 hnb]
      simp only [parseExprBody, iterExpr]
      unfold parseSeq
      rw [wrap_noLR, hch]
      simp only [Outcome.bind, Bool.false_eq_true, if_false]
    · rw [hq]
      have := restore_pt (E := E) (restoreState (noLR E) ta (bump t).state) (bump t).pt
        (by simpa [hpa, hq] using ht.1 ▸ hrt) (by simpa using hrt)
      rw [this]; exact ht.1
  · -- a base, then the tails
    obtain ⟨Fa, ta, ea, hpa, hra⟩ := alt_replay ha 0 0 0 (bump (bump t)) hb1
    have hch : parseExpr (noLR E) (Fa + 1) (.choice 0 0 0 bases) (bump t) = .done v1 true ta := by
      rw [step0 hnb]; simpa [parseExprBody] using ea
    have hp1 : Reach E.input p1 := altAt_reach ha (by rw [← ht.1]; exact hrt)
    have hga : GoodAt A p1 (bump ta) := ⟨hpa, by rw [show (bump ta).rstack = ta.rstack from rfl, hra]; exact ht.2⟩
    obtain ⟨F2, w, ok', t2, e2, hp2, _⟩ := reps_replay hnb hr (bump ta) [] hga (by rw [show (bump ta).pt = ta.pt from rfl, hpa]; exact hp1)
    have hstar : ∃ w', parseExpr (noLR E) (F2 + 1) (.zeroOrMore 0 (.choice 0 0 0 (tails.map (.seq 0)))) ta = .done w' true t2 := by
      rw [step0 hnb]
      simp only [parseExprBody, parseZeroOrMore]
      rw [e2]
      simp only [Outcome.bind]
      split
      · exact ⟨w, rfl⟩
      · exact ⟨.list [], rfl⟩
    obtain ⟨w', hstar⟩ := hstar
    refine ⟨max (Fa + 1) (F2 + 1) + 1, .list [v1, w'], t2, ?_, hp2⟩
    rw [step0 hnb]
    simp only [parseExprBody, iterExpr]
    unfold parseSeq
    rw [wrap_noLR, lift0 (Nat.le_max_left (Fa + 1) (F2 + 1)) hch (by simp)]
    simp only [Outcome.bind, if_true]
    unfold parseSeq
    rw [wrap_noLR, lift0 (Nat.le_max_right (Fa + 1) (F2 + 1)) hstar (by simp)]
    simp [Outcome.bind, parseSeq]

end

end RT
end PV
