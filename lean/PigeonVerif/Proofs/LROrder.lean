/-
  LROrder — `ComputeLeftRecursives` is a function of the first graph AS A SET (C19).

  The Go function ranges over the keys of the first graph (a map) to list the vertices, Tarjan's algorithm
  then finds the components in an order that depends on that list and on the order of every successor map, and
  `findLeader` ranges over maps again.  In the model the loop is `verts.foldl (lrStep g)`.  This file gives the
  loop a closed form — every rule whose name lies in a handled component carries `markOf g rule`, the verdict is
  `verdictFor g handled` — and concludes that two enumerations of the same vertex set over two adjacency structures
  with the same successor sets give the same marks and the same verdict.
-/
import PigeonVerif.Proofs.LeaderOrder

namespace PV
namespace Mid

/-! ### components are equivalence classes -/

/-- `x` is `v` or lies on a common cycle with it -/
def Conn (g : Graph) (v x : String) : Prop := x = v ∨ (Path g v x ∧ Path g x v)

theorem Conn.symm {g : Graph} {v x : String} (h : Conn g v x) : Conn g x v := by
  rcases h with rfl | ⟨a, b⟩
  · exact Or.inl rfl
  · exact Or.inr ⟨b, a⟩

theorem Conn.trans {g : Graph} {a b c : String} (h1 : Conn g a b) (h2 : Conn g b c) : Conn g a c := by
  rcases h1 with rfl | ⟨p1, q1⟩
  · exact h2
  · rcases h2 with rfl | ⟨p2, q2⟩
    · exact Or.inr ⟨p1, q1⟩
    · exact Or.inr ⟨p1.trans p2, q2.trans q1⟩

theorem mem_sccOf_iff (g : Graph) (hg : GraphOK g) (v x : String) : x ∈ sccOf g v ↔ Conn g v x := by
  rw [mem_sccOf, mem_reachFrom_iff g hg, mem_reachFrom_iff g hg]
  constructor
  · rintro (h | ⟨a, _, b⟩)
    · exact Or.inl h
    · exact Or.inr ⟨a, b⟩
  · rintro (h | ⟨a, b⟩)
    · exact Or.inl h
    · by_cases hx : x = v
      · exact Or.inl hx
      · exact Or.inr ⟨a, hx, b⟩

theorem scc_sameMem_of_mem (g : Graph) (hg : GraphOK g) {v x : String} (h : x ∈ sccOf g v) :
    SameMem (sccOf g x) (sccOf g v) := by
  intro y
  rw [mem_sccOf_iff g hg, mem_sccOf_iff g hg]
  have hc := (mem_sccOf_iff g hg v x).mp h
  exact ⟨fun h2 => hc.trans h2, fun h2 => hc.symm.trans h2⟩

theorem scc_length_of_mem (g : Graph) (hg : GraphOK g) {v x : String} (h : x ∈ sccOf g v) :
    (sccOf g x).length = (sccOf g v).length :=
  ((List.perm_ext_iff_of_nodup (sccOf_nodup g hg x) (sccOf_nodup g hg v)).mpr (scc_sameMem_of_mem g hg h)).length_eq

theorem findLeader_of_mem (g : Graph) (hg : GraphOK g) {v x : String} (h : x ∈ sccOf g v) :
    findLeader g (sccOf g x) = findLeader g (sccOf g v) :=
  findLeader_order_free (fun _ => SameMem.refl _) (scc_sameMem_of_mem g hg h) (scc_length_of_mem g hg h)

theorem self_mem_sccOf (g : Graph) (v : String) : v ∈ sccOf g v := by simp [sccOf]

theorem findLeader_mem {g : Graph} {scc : List String} {l : String} (h : findLeader g scc = some l) : l ∈ scc := by
  rw [findLeader_eq] at h
  have := minStr_spec (scc.filter (fun v => (allLassos g scc (scc.length + 2)).all (fun p => p.contains v)))
  rw [h] at this
  exact (List.mem_filter.mp this.1).1

/-! ### the closed form of the loop -/

/-- what `ComputeLeftRecursives` leaves on a rule whose component was handled -/
def markOf (g : Graph) (r : ARule) : ARule :=
  if (sccOf g r.name).length > 1 then
    { r with leftRecursive := true, leader := r.leader || (findLeader g (sccOf g r.name) == some r.name) }
  else if hasSelfLoop g r.name then { r with leftRecursive := true, leader := true }
  else r

@[simp] theorem markOf_name (g : Graph) (r : ARule) : (markOf g r).name = r.name := by
  unfold markOf; split <;> (try split) <;> rfl

def bigNoLeader (g : Graph) (x : String) : Bool :=
  decide ((sccOf g x).length > 1) && (findLeader g (sccOf g x)).isNone
def isLR (g : Graph) (x : String) : Bool := decide ((sccOf g x).length > 1) || hasSelfLoop g x

def verdictFor (g : Graph) (done : List String) : Verdict :=
  if done.any (bigNoLeader g) then .noLeader else .ok (done.any (isLR g))

theorem any_sameMem {l1 l2 : List String} (h : SameMem l1 l2) (p q : String → Bool) (hpq : ∀ x, p x = q x) :
    l1.any p = l2.any q := by
  rw [Bool.eq_iff_iff]
  simp only [List.any_eq_true]
  constructor
  · rintro ⟨x, hx, hp⟩; exact ⟨x, (h x).mp hx, by rw [← hpq]; exact hp⟩
  · rintro ⟨x, hx, hp⟩; exact ⟨x, (h x).mpr hx, by rw [hpq]; exact hp⟩

theorem any_union (a b : List String) (p : String → Bool) : (union a b).any p = (a.any p || b.any p) := by
  rw [Bool.eq_iff_iff]
  simp only [List.any_eq_true, Bool.or_eq_true, mem_union]
  constructor
  · rintro ⟨x, hx | hx, hp⟩
    · exact Or.inl ⟨x, hx, hp⟩
    · exact Or.inr ⟨x, hx, hp⟩
  · rintro (⟨x, hx, hp⟩ | ⟨x, hx, hp⟩)
    · exact ⟨x, Or.inl hx, hp⟩
    · exact ⟨x, Or.inr hx, hp⟩

/-- a predicate that is constant on a non-empty list -/
theorem any_const {l : List String} {p : String → Bool} {b : Bool} {v : String} (hv : v ∈ l)
    (h : ∀ x ∈ l, p x = b) : l.any p = b := by
  cases b with
  | false =>
    rw [Bool.eq_false_iff]
    intro ht
    obtain ⟨x, hx, hp⟩ := List.any_eq_true.mp ht
    rw [h x hx] at hp; cases hp
  | true => exact List.any_eq_true.mpr ⟨v, hv, h v hv⟩

theorem contains_union (a b : List String) (x : String) : (union a b).contains x = (a.contains x || b.contains x) := by
  rw [Bool.eq_iff_iff]
  simp [mem_union]

theorem updateRule_eq_map (G : AGrammar) (n : String) (f : ARule → ARule) :
    updateRule G n f = G.map (fun r => if r.name = n then f r else r) := rfl

theorem foldl_updateRule (f : ARule → ARule) (hf : ∀ r, f (f r) = f r) (hn : ∀ r, (f r).name = r.name) :
    ∀ (l : List String) (G : AGrammar),
      l.foldl (fun G n => updateRule G n f) G = G.map (fun r => if l.contains r.name then f r else r)
  | [], G => by simp
  | n :: l, G => by
    rw [List.foldl_cons, foldl_updateRule f hf hn l, updateRule_eq_map, List.map_map]
    apply List.map_congr_left
    intro r _
    simp only [Function.comp, List.contains_cons]
    by_cases h1 : r.name = n
    · subst h1
      simp [hn, hf]
    · have : (r.name == n) = false := by simpa using h1
      simp [h1, this]

/-- the invariant of the loop -/
structure LInv (g : Graph) (G0 : AGrammar) (st : AGrammar × Verdict × List String) : Prop where
  closed : ∀ x ∈ st.2.2, ∀ y, y ∈ sccOf g x → y ∈ st.2.2
  gram : st.1 = G0.map (fun r => if st.2.2.contains r.name then markOf g r else r)
  verd : st.2.1 = verdictFor g st.2.2

theorem scc_small (g : Graph) (v : String) (h : ¬ (sccOf g v).length > 1) : sccOf g v = [v] := by
  unfold sccOf at *
  cases hf : (reachFrom g v).filter (fun u => u ≠ v && (reachFrom g u).contains v) with
  | nil => rfl
  | cons a l => rw [hf] at h; simp at h

theorem lrStep_inv (g : Graph) (hg : GraphOK g) (G0 : AGrammar) (st : AGrammar × Verdict × List String) (v : String)
    (hi : LInv g G0 st) :
    LInv g G0 (lrStep g st v) ∧ ∀ x, x ∈ (lrStep g st v).2.2 ↔ (x ∈ st.2.2 ∨ x ∈ sccOf g v) := by
  obtain ⟨G, verdict, done⟩ := st
  obtain ⟨hcl, hgr, hvd⟩ := hi
  simp only at hcl hgr hvd
  unfold lrStep
  simp only
  by_cases hdone : done.contains v = true
  · -- handled before
    rw [if_pos hdone]
    refine ⟨⟨hcl, hgr, hvd⟩, fun x => ⟨Or.inl, ?_⟩⟩
    rintro (h | h)
    · exact h
    · exact hcl v (by simpa using hdone) x h
  · rw [if_neg hdone]
    have hvnd : v ∉ done := by simpa using hdone
    -- the new component is disjoint from what was handled
    have hdisj : ∀ y, y ∈ sccOf g v → y ∉ done := by
      intro y hy hyd
      have : v ∈ sccOf g y := (mem_sccOf_iff g hg y v).mpr ((mem_sccOf_iff g hg v y).mp hy).symm
      exact hvnd (hcl y hyd v this)
    have hclosed' : ∀ x ∈ union done (sccOf g v), ∀ y, y ∈ sccOf g x → y ∈ union done (sccOf g v) := by
      intro x hx y hy
      rcases (mem_union x _ _).mp hx with hx | hx
      · exact (mem_union y _ _).mpr (Or.inl (hcl x hx y hy))
      · exact (mem_union y _ _).mpr (Or.inr ((scc_sameMem_of_mem g hg hx y).mp hy))
    have hmem' : ∀ x, x ∈ union done (sccOf g v) ↔ (x ∈ done ∨ x ∈ sccOf g v) := fun x => mem_union x _ _
    have hvs : v ∈ sccOf g v := self_mem_sccOf g v
    by_cases hbig : (sccOf g v).length > 1
    · rw [if_pos hbig]
      -- marks of the members: left-recursive
      have hG1 : (sccOf g v).foldl (fun G n => updateRule G n (fun r => { r with leftRecursive := true })) G =
          G0.map (fun r => if done.contains r.name then markOf g r
            else if (sccOf g v).contains r.name then { r with leftRecursive := true } else r) := by
        rw [foldl_updateRule (fun r => { r with leftRecursive := true }) (fun _ => rfl) (fun _ => rfl), hgr, List.map_map]
        apply List.map_congr_left
        intro r _
        simp only [Function.comp]
        by_cases hd : r.name ∈ done
        · have : r.name ∉ sccOf g v := fun hc => hdisj r.name hc hd
          simp [hd, this]
        · simp [hd]
      have hbigx : ∀ x ∈ sccOf g v, (sccOf g x).length > 1 := fun x hx => by
        rw [scc_length_of_mem g hg hx]; exact hbig
      cases hl : findLeader g (sccOf g v) with
      | none =>
        simp only
        refine ⟨⟨hclosed', ?_, ?_⟩, hmem'⟩
        · simp only
          rw [hG1]
          apply List.map_congr_left
          intro r _
          rw [contains_union]
          by_cases hd : r.name ∈ done
          · simp [hd]
          · by_cases hm : r.name ∈ sccOf g v
            · have e : markOf g r = { r with leftRecursive := true } := by
                unfold markOf
                rw [if_pos (hbigx _ hm), findLeader_of_mem g hg hm, hl]
                simp
              simp [hd, hm, e]
            · simp [hd, hm]
        · simp only [verdictFor]
          rw [any_union]
          have : (sccOf g v).any (bigNoLeader g) = true :=
            List.any_eq_true.mpr ⟨v, hvs, by simp [bigNoLeader, hbig, hl]⟩
          simp [this]
      | some l =>
        simp only
        have hlm : l ∈ sccOf g v := findLeader_mem hl
        refine ⟨⟨hclosed', ?_, ?_⟩, hmem'⟩
        · simp only
          rw [hG1, updateRule_eq_map, List.map_map]
          apply List.map_congr_left
          intro r _
          simp only [Function.comp]
          rw [contains_union]
          by_cases hd : r.name ∈ done
          · have hne : r.name ≠ l := by
              intro he; exact hdisj l hlm (by rw [← he]; exact hd)
            simp [hd, hne]
          · by_cases hm : r.name ∈ sccOf g v
            · by_cases he : r.name = l
              · have e : markOf g r = { r with leftRecursive := true, leader := true } := by
                  unfold markOf
                  rw [if_pos (hbigx _ hm), findLeader_of_mem g hg hm, hl]
                  simp [he]
                have hd2 : l ∉ done := he ▸ hd
                simp [hd, hm, e, he, hd2, hlm]
              · have e : markOf g r = { r with leftRecursive := true } := by
                  unfold markOf
                  rw [if_pos (hbigx _ hm), findLeader_of_mem g hg hm, hl]
                  have : (some l == some r.name) = false := by
                    rw [beq_eq_false_iff_ne]; intro h; exact he (Option.some.inj h).symm
                  simp [this]
                simp [hd, hm, e, he]
            · have hne : r.name ≠ l := by
                intro he; exact hm (by rw [he]; exact hlm)
              simp [hd, hm, hne]
        · simp only [verdictFor]
          rw [any_union, any_union, hvd]
          have h1 : (sccOf g v).any (bigNoLeader g) = false :=
            any_const hvs (fun x hx => by simp [bigNoLeader, findLeader_of_mem g hg hx, hl])
          have h2 : (sccOf g v).any (isLR g) = true :=
            List.any_eq_true.mpr ⟨v, hvs, by simp [isLR, hbig]⟩
          simp only [h1, h2, Bool.or_false, Bool.or_true, verdictFor]
          split <;> simp_all
    · rw [if_neg hbig]
      have hone : sccOf g v = [v] := scc_small g v hbig
      by_cases hself : hasSelfLoop g v = true
      · rw [if_pos hself]
        refine ⟨⟨hclosed', ?_, ?_⟩, hmem'⟩
        · simp only
          rw [hgr, updateRule_eq_map, List.map_map]
          apply List.map_congr_left
          intro r _
          simp only [Function.comp]
          rw [contains_union, hone]
          by_cases hd : r.name ∈ done
          · have hne : r.name ≠ v := by
              intro he; exact hvnd (by rw [← he]; exact hd)
            simp [hd, hne]
          · by_cases he : r.name = v
            · have hbr : ¬ (sccOf g r.name).length > 1 := by rw [he]; exact hbig
              have e : markOf g r = { r with leftRecursive := true, leader := true } := by
                unfold markOf
                rw [if_neg hbr, he, if_pos hself]
              simp [hd, e, he, hvnd]
            · simp [hd, he]
        · simp only [verdictFor]
          rw [any_union, any_union, hvd, hone]
          have h1 : [v].any (bigNoLeader g) = false := by simp [bigNoLeader, hbig]
          have h2 : [v].any (isLR g) = true := by simp [isLR, hself]
          simp only [h1, h2, Bool.or_false, Bool.or_true, verdictFor]
          split <;> simp_all
      · rw [if_neg hself]
        refine ⟨⟨hclosed', ?_, ?_⟩, hmem'⟩
        · simp only
          rw [hgr]
          apply List.map_congr_left
          intro r _
          rw [contains_union, hone]
          by_cases hd : r.name ∈ done
          · simp [hd]
          · by_cases he : r.name = v
            · have hbr : ¬ (sccOf g r.name).length > 1 := by rw [he]; exact hbig
              have e : markOf g r = r := by
                unfold markOf
                rw [if_neg hbr, he, if_neg hself]
              simp [hd, e, he, hvnd]
            · simp [hd, he]
        · simp only [verdictFor]
          rw [any_union, any_union, hvd, hone]
          have h1 : [v].any (bigNoLeader g) = false := by simp [bigNoLeader, hbig]
          have h2 : [v].any (isLR g) = false := by simp [isLR, hbig, hself]
          simp only [h1, h2, Bool.or_false, verdictFor]

theorem fold_inv (g : Graph) (hg : GraphOK g) (G0 : AGrammar) :
    ∀ (verts : List String) (st : AGrammar × Verdict × List String), LInv g G0 st →
      LInv g G0 (verts.foldl (lrStep g) st) ∧
      ∀ x, x ∈ (verts.foldl (lrStep g) st).2.2 ↔ (x ∈ st.2.2 ∨ ∃ v ∈ verts, x ∈ sccOf g v)
  | [], st, hi => ⟨hi, fun x => by simp⟩
  | v :: vs, st, hi => by
    obtain ⟨h1, h2⟩ := lrStep_inv g hg G0 st v hi
    obtain ⟨h3, h4⟩ := fold_inv g hg G0 vs _ h1
    refine ⟨h3, fun x => ?_⟩
    rw [List.foldl_cons, h4, h2]
    simp only [List.mem_cons, exists_eq_or_imp, or_assoc]

theorem init_inv (g : Graph) (G0 : AGrammar) : LInv g G0 (G0, .ok false, []) :=
  ⟨fun _ h => (by cases h), (by simp), (by simp [verdictFor])⟩

/-- the components handled by the loop: those of the listed vertices -/
def Handled (g : Graph) (verts : List String) (x : String) : Prop := ∃ v ∈ verts, x ∈ sccOf g v

/-- **closed form of `ComputeLeftRecursives`** -/
theorem computeLRWith_closed_form (g : Graph) (hg : GraphOK g) (verts : List String) (G0 : AGrammar) :
    ∃ done : List String, (∀ x, x ∈ done ↔ Handled g verts x) ∧
      computeLRWith g verts G0 =
        (G0.map (fun r => if done.contains r.name then markOf g r else r), verdictFor g done) := by
  obtain ⟨hi, hm⟩ := fold_inv g hg G0 verts _ (init_inv g G0)
  refine ⟨(verts.foldl (lrStep g) (G0, .ok false, [])).2.2, fun x => ?_, ?_⟩
  · rw [hm]; simp [Handled]
  · unfold computeLRWith
    simp only
    rw [← hi.gram, ← hi.verd]

theorem markOf_sameSuccs {g1 g2 : Graph} (h1 : GraphOK g1) (h2 : GraphOK g2) (hg : SameSuccs g1 g2) (r : ARule) :
    markOf g1 r = markOf g2 r := by
  unfold markOf
  rw [sccOf_length h1 h2 hg, leader_of_vertex_order_free h1 h2 hg, hasSelfLoop_sameSuccs hg]

/-- **`ComputeLeftRecursives` does not depend on any iteration order.**  Two enumerations of the same vertices,
    over two adjacency structures with the same successor sets, leave the same marks on every rule and give the
    same verdict (no left recursion / left recursion / a component without a leader). -/
theorem computeLRWith_order_free {g1 g2 : Graph} (h1 : GraphOK g1) (h2 : GraphOK g2) (hg : SameSuccs g1 g2)
    {verts1 verts2 : List String} (hv : SameMem verts1 verts2) (G0 : AGrammar) :
    computeLRWith g1 verts1 G0 = computeLRWith g2 verts2 G0 := by
  obtain ⟨d1, hd1, e1⟩ := computeLRWith_closed_form g1 h1 verts1 G0
  obtain ⟨d2, hd2, e2⟩ := computeLRWith_closed_form g2 h2 verts2 G0
  have hd : SameMem d1 d2 := by
    intro x
    rw [hd1, hd2]
    constructor
    · rintro ⟨v, hv1, hx⟩; exact ⟨v, (hv v).mp hv1, (sccOf_sameMem h1 h2 hg v x).mp hx⟩
    · rintro ⟨v, hv2, hx⟩; exact ⟨v, (hv v).mpr hv2, (sccOf_sameMem h1 h2 hg v x).mpr hx⟩
  rw [e1, e2]
  congr 1
  · apply List.map_congr_left
    intro r _
    rw [contains_sameMem hd, markOf_sameSuccs h1 h2 hg]
  · unfold verdictFor
    rw [any_sameMem hd (bigNoLeader g1) (bigNoLeader g2), any_sameMem hd (isLR g1) (isLR g2)]
    · intro x; unfold isLR; rw [sccOf_length h1 h2 hg, hasSelfLoop_sameSuccs hg]
    · intro x; unfold bigNoLeader; rw [sccOf_length h1 h2 hg, leader_of_vertex_order_free h1 h2 hg]

/-! ### the first graph of the model is a graph -/

theorem lookup_mem {α : Type} (k : String) : ∀ (l : List (String × α)) (v : α), lookup k l = some v → (k, v) ∈ l
  | [], _, h => by simp [lookup] at h
  | (k', v') :: rest, v, h => by
    simp only [lookup] at h
    split at h
    · rename_i hk
      cases h; rw [hk]; exact List.mem_cons_self
    · exact List.mem_cons_of_mem _ (lookup_mem k rest v h)

theorem mem_targets (t : String) : ∀ (g : Graph) (init : List String),
    t ∈ g.foldl (fun acc e => union acc e.2) init ↔ (t ∈ init ∨ ∃ e ∈ g, t ∈ e.2)
  | [], init => by simp
  | e :: g, init => by
    rw [List.foldl_cons, mem_targets t g, mem_union]
    simp only [List.mem_cons, exists_eq_or_imp, or_assoc]

theorem firstGraph_ok (cfg : Cfg) (G : AGrammar) : GraphOK (firstGraph cfg G) := by
  intro v t ht
  unfold succs at ht
  cases hl : lookup v (firstGraph cfg G) with
  | none => rw [hl] at ht; simp at ht
  | some ns =>
    rw [hl] at ht
    simp only [Option.getD_some] at ht
    have hm := lookup_mem v _ ns hl
    unfold firstGraph at hm ⊢
    simp only [List.mem_append, List.mem_map, List.mem_filter] at hm
    simp only [List.map_append, List.mem_append]
    rcases hm with hm | ⟨a, _, ha⟩
    · -- an edge of a rule: the target is a key or was added
      by_cases hk : ((G.map (fun r => (r.name, initialNames cfg r.expr))).any (·.1 = t)) = true
      · left
        obtain ⟨e, he, het⟩ := List.any_eq_true.mp hk
        exact List.mem_map.mpr ⟨e, he, by simpa using het⟩
      · right
        have hk' := Bool.eq_false_iff.mpr hk
        refine List.mem_map.mpr ⟨(t, []), List.mem_map.mpr ⟨t, List.mem_filter.mpr ⟨?_, ?_⟩, rfl⟩, rfl⟩
        · exact (mem_targets t _ []).mpr (Or.inr ⟨(v, ns), by simpa using hm, ht⟩)
        · show (!(List.any _ _)) = true
          rw [hk']; rfl
    · -- an added vertex has no successors
      cases ha
      cases ht

end Mid
end PV
