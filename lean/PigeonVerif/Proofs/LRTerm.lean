/-
  Termination WITH left-recursion support.

  `LRWF E rn rank`: left-recursion template (Memoize off, no budget); closed nullability oracle; repetitions over
  non-nullable bodies, no throw/recover; and a ranking that strictly decreases along every first-graph edge that does NOT
  lead to a leader rule — i.e. every same-position cycle of the grammar passes through a leader (this is what
  `builder.ComputeLeftRecursives` must deliver: the seeded change to `scc.go` that dropped self-loops broke exactly this).

  `lr_terminates`: then every parse terminates, with no budget. Measure: (input left, number of leaders that have no
  seed at this offset yet, rank bound, expression size); a leader without a seed runs the growing loop, inside which it
  HAS a seed; the loop itself ends because every round but the first must end strictly later.
-/
import PigeonVerif.Proofs.AdvanceLR
import PigeonVerif.Proofs.Conv

namespace PV
namespace RT

/-- a rule name behind which no unbounded same-position recursion can hide: a leader (answered from its seed), or
    undefined (fails at once) -/
def ldName (E : Env) (m : String) : Bool :=
  match E.findRule m with
  | some rm => isLd rm
  | none => true

def hasEntry (m : List ((Nat × MemoKey) × MemoVal)) (off : Nat) (n : String) : Bool :=
  m.any (fun ent => decide (ent.1.1 = off) && decide (ent.1.2 = MemoKey.rule n))

/-- the leaders without a seed / result at this offset -/
def unseeded (E : Env) (m : List ((Nat × MemoKey) × MemoVal)) (off : Nat) : Nat :=
  (E.rules.filter (fun r => isLd r && !hasEntry m off r.name)).length

/-- the measure: input left, then unseeded leaders -/
def MR (E : Env) (s : PState) : Nat := rem E s * (E.rules.length + 1) + unseeded E s.memo s.pt.pos.off

theorem filter_length_le_of_imp {α : Type} (p q : α → Bool) : ∀ (l : List α), (∀ x ∈ l, q x = true → p x = true) →
    (l.filter q).length ≤ (l.filter p).length
  | [], _ => Nat.le_refl _
  | x :: xs, h => by
    have ih := filter_length_le_of_imp p q xs (fun y hy => h y (List.mem_cons_of_mem _ hy))
    simp only [List.filter_cons]
    cases hq : q x with
    | false => simp only [Bool.false_eq_true, if_false]; split <;> simp <;> omega
    | true =>
      have hp := h x List.mem_cons_self hq
      simp only [hp, if_true, List.length_cons]; omega

theorem filter_length_lt_of_imp {α : Type} (p q : α → Bool) : ∀ (l : List α), (∀ x ∈ l, q x = true → p x = true) →
    (∃ x ∈ l, p x = true ∧ q x = false) → (l.filter q).length < (l.filter p).length
  | [], _, ⟨x, hx, _⟩ => by cases hx
  | x :: xs, h, ⟨y, hy, hpy, hqy⟩ => by
    have hle := filter_length_le_of_imp p q xs (fun z hz => h z (List.mem_cons_of_mem _ hz))
    simp only [List.filter_cons]
    rcases List.mem_cons.mp hy with rfl | hy'
    · simp only [hpy, hqy, if_true, Bool.false_eq_true, if_false, List.length_cons]; omega
    · have ih := filter_length_lt_of_imp p q xs (fun z hz => h z (List.mem_cons_of_mem _ hz)) ⟨y, hy', hpy, hqy⟩
      cases hq : q x with
      | false => simp only [Bool.false_eq_true, if_false]; split <;> simp <;> omega
      | true =>
        have hp := h x List.mem_cons_self hq
        simp only [hp, if_true, List.length_cons]; omega

theorem hasEntry_append (a b : List ((Nat × MemoKey) × MemoVal)) (off : Nat) (n : String) :
    hasEntry (a ++ b) off n = (hasEntry a off n || hasEntry b off n) := by
  simp [hasEntry, List.any_append]

theorem unseeded_le {E : Env} (new m : List ((Nat × MemoKey) × MemoVal)) (off : Nat) :
    unseeded E (new ++ m) off ≤ unseeded E m off := by
  unfold unseeded
  apply filter_length_le_of_imp
  intro r _ hq
  simp only [Bool.and_eq_true, Bool.not_eq_true', hasEntry_append, Bool.or_eq_false_iff] at hq ⊢
  exact ⟨hq.1, hq.2.2⟩

theorem unseeded_le_len (E : Env) (m : List ((Nat × MemoKey) × MemoVal)) (off : Nat) : unseeded E m off ≤ E.rules.length :=
  List.length_filter_le _ _

theorem getMemoized_none_hasEntry {s : PState} {n : String} (h : getMemoized s (.rule n) = none) :
    hasEntry s.memo s.pt.pos.off n = false := by
  unfold getMemoized at h
  cases hf : s.memo.find? (fun e => e.1.1 = s.pt.pos.off && e.1.2 = MemoKey.rule n) with
  | some e => simp [hf] at h
  | none =>
    have := List.find?_eq_none.mp hf
    unfold hasEntry
    rw [List.any_eq_false]
    intro ent hent
    have := this ent hent
    simpa using this


/-- left-recursion template; every same-position cycle passes through a leader -/
structure LRWF (E : Env) (rn : String → Bool) (rank : String → Nat) : Prop where
  cfg : LRCfg E
  closed : ∀ n r, E.findRule n = some r → r.expr.nul rn = true → rn n = true
  shape : ∀ n r, E.findRule n = some r → r.expr.wfs rn = true
  ranked : ∀ n r, E.findRule n = some r → ∀ m ∈ r.expr.first rn, ldName E m = true ∨ rank m < rank n

/-- the invariant of the states of a left-recursive parse -/
def LI (E : Env) (rn : String → Bool) (s : PState) : Prop := FInv E s ∧ MA rn s

section
variable {E : Env} {rn : String → Bool} {rank : String → Nat} (h : LRWF E rn rank)
include h

theorem lr_call (f : Nat) (e : Expr) (s s1 : PState) (v : Val) (ok : Bool) (hi : LI E rn s)
    (ho : parseExpr E f e s = .done v ok s1) :
    LI E rn s1 ∧ (ok = true → s.pt.pos.off ≤ s1.pt.pos.off ∧ (s1.pt.pos.off = s.pt.pos.off → e.nul rn = true)) ∧
    (ok = false → s1.pt.pos.off = s.pt.pos.off) ∧ MR E s1 ≤ MR E s ∧ (MR E s1 = MR E s → s1.pt.pos.off = s.pt.pos.off) ∧
    ∃ new, s1.memo = new ++ s.memo := by
  have ha := advLR h.cfg h.closed s.memo f e s hi.1 ⟨hi.2, [], by simp⟩
  have hfr := parseExpr_frame E f e s hi.1.1
  rw [ho] at ha hfr
  obtain ⟨⟨hma1, new, hnew⟩, hadv⟩ := ha
  have hi1 : FInv E s1 := hi.1.of_framed hfr
  have hoffle : s.pt.pos.off ≤ s1.pt.pos.off := by
    cases ok with
    | true => exact (hadv rfl).1
    | false => rw [hfr.failOff rfl]; exact Nat.le_refl _
  have hlen1 := hi1.2.1.le
  have hU1 := unseeded_le_len E s1.memo s1.pt.pos.off
  have key : MR E s1 ≤ MR E s ∧ (MR E s1 = MR E s → s1.pt.pos.off = s.pt.pos.off) := by
    by_cases heq : s1.pt.pos.off = s.pt.pos.off
    · refine ⟨?_, fun _ => heq⟩
      unfold MR rem
      rw [heq, hnew]
      have := unseeded_le (E := E) new s.memo s.pt.pos.off
      omega
    · have hlt : s.pt.pos.off < s1.pt.pos.off := by omega
      have hr : rem E s1 + 1 ≤ rem E s := by unfold rem; omega
      have hmul := Nat.mul_le_mul_right (E.rules.length + 1) hr
      rw [Nat.add_mul, Nat.one_mul] at hmul
      unfold MR
      constructor
      · omega
      · intro he; omega
  exact ⟨⟨hi1, hma1⟩, hadv, hfr.failOff, key.1, key.2, new, hnew⟩

theorem lr_ctx : ConvCtx E rn (LI E rn) (MR E) where
  nomemo := h.cfg.nomemo
  nobudget := h.cfg.nobudget
  icongr := fun s s' hi h1 h2 => ⟨hi.1.congr h1 h2, by have := hi.2; unfold MA at *; rw [h2]; exact this⟩
  mcongr := fun s s' h1 h2 => by unfold MR rem; rw [h1, h2]
  call := fun f e s s1 v ok hi ho => by
    obtain ⟨a, b, c, d, e', _⟩ := lr_call h f e s s1 v ok hi ho
    exact ⟨a, b, c, d, e'⟩


/-- what is known after a rule body that returned -/
theorem rule_done (f : Nat) (r : Rule) (m0 : List ((Nat × MemoKey) × MemoVal)) (s1 s2 : PState) (v : Val) (ok : Bool)
    (hi : LI E rn s1) (hext : ∃ new, s1.memo = new ++ m0) (ho : parseRule E (parseExpr E f) r s1 = .done v ok s2) :
    LI E rn s2 ∧ (∃ new, s2.memo = new ++ m0) ∧ Adv rn r.expr s1 ok s2 := by
  have hr := rule_adv (LJ.inv rn m0) h.cfg.nomemo (parseExpr_frame E f) (advLR h.cfg h.closed m0 f) r s1 hi.1 ⟨hi.2, hext⟩
  have hf2 := rule_frame (parseExpr_frame E f) r s1 hi.1.1
  rw [ho] at hr hf2
  exact ⟨⟨hi.1.of_framed hf2, hr.1.1⟩, hr.1.2, hr.2⟩

/-- **the seed-growing loop ends**: every round but the first must end strictly later than the seed -/
theorem leaderC (n : Nat) {name : String} {r : Rule} (hf : E.findRule name = some r) (hld : isLd r = true)
    (m0 : List ((Nat × MemoKey) × MemoVal)) (startMark : Savepoint) (hsm : Reach E.input startMark)
    (hU : hasEntry m0 startMark.pos.off r.name = false)
    (hbase : (E.input.length - startMark.pos.off) * (E.rules.length + 1) + unseeded E m0 startMark.pos.off ≤ n)
    (anyT : ∀ e' s', LI E rn s' → MR E s' < n → e'.wfs rn = true → T E e' s') :
    ∀ (mz depth : Nat) (last : MemoVal) (lastErrs : List String) (t : PState),
      2 * (E.input.length - last.end.pos.off) + (if depth = 0 then 1 else 0) ≤ mz →
      LI E rn t → (∃ new, t.memo = new ++ m0) → t.pt.pos.off = startMark.pos.off →
      (last.b = true → startMark.pos.off ≤ last.end.pos.off ∧ (last.end.pos.off = startMark.pos.off → rn name = true)) →
      (last.b = false → last.end.pos.off = startMark.pos.off) → Reach E.input last.end →
      (depth = 0 → last.end.pos.off ≤ startMark.pos.off) →
      ∃ F, leaderLoop E (parseExpr E F) r startMark F depth last lastErrs t ≠ .oof := by
  have hname : r.name = name := findRule_nm hf
  intro mz
  induction mz using Nat.strongRecOn with
  | _ mz ih =>
    intro depth last lastErrs t hmz hi hext hoff hlast hlf hlr hd0
    -- the state in which the body runs: the seed is in the table
    have hi1 : LI E rn (setMemoized t startMark (.rule r.name) last) := by
      refine ⟨⟨MemoOK.set hi.1.1 hlf, by simpa using hi.1.2.1, ?_⟩, ?_⟩
      · intro ent hent
        simp only [setMemoized, List.mem_cons] at hent
        rcases hent with rfl | hent
        · exact hlr
        · exact hi.1.2.2 ent hent
      · exact (LJ.set (m0 := t.memo) (s := t) ⟨hi.2, [], by simp⟩ startMark r.name last (fun hb => by rw [hname]; exact hlast hb)).1
    have hext1 : ∃ new, (setMemoized t startMark (.rule r.name) last).memo = new ++ m0 := by
      obtain ⟨new, hn⟩ := hext
      exact ⟨((startMark.pos.off, MemoKey.rule r.name), last) :: new, by simp [setMemoized, hn]⟩
    have hM1 : MR E (pushV { setMemoized t startMark (.rule r.name) last with rstack := r :: t.rstack }) < n := by
      obtain ⟨new, hn⟩ := hext
      have hlt : unseeded E (((startMark.pos.off, MemoKey.rule r.name), last) :: new ++ m0) startMark.pos.off <
          unseeded E m0 startMark.pos.off := by
        unfold unseeded
        apply filter_length_lt_of_imp
        · intro x _ hq
          simp only [Bool.and_eq_true, Bool.not_eq_true'] at hq ⊢
          refine ⟨hq.1, ?_⟩
          have := hq.2
          rw [show ((startMark.pos.off, MemoKey.rule r.name), last) :: new ++ m0 =
            (((startMark.pos.off, MemoKey.rule r.name), last) :: new) ++ m0 from rfl, hasEntry_append,
            Bool.or_eq_false_iff] at this
          exact this.2
        · refine ⟨r, (findRule_mem hf).1, by simp [hld, hU], ?_⟩
          simp [hld, hasEntry]
      show rem E _ * _ + unseeded E _ _ < n
      have e1 : (pushV { setMemoized t startMark (.rule r.name) last with rstack := r :: t.rstack }).pt.pos.off = startMark.pos.off := by
        simpa [pushV] using hoff
      have e2 : (pushV { setMemoized t startMark (.rule r.name) last with rstack := r :: t.rstack }).memo =
          ((startMark.pos.off, MemoKey.rule r.name), last) :: new ++ m0 := by simp [pushV, setMemoized, hn]
      unfold rem
      rw [e1, e2]
      omega
    have hTb : T E r.expr (pushV { setMemoized t startMark (.rule r.name) last with rstack := r :: t.rstack }) :=
      anyT r.expr _ ⟨hi1.1.congr rfl rfl, by have := hi1.2; unfold MA at *; exact this⟩ hM1 (h.shape name r hf)
    obtain ⟨f1, h1⟩ := hTb
    have hrule1 : parseRule E (parseExpr E f1) r (setMemoized t startMark (.rule r.name) last) ≠ .oof := by
      unfold parseRule
      simp only []
      rw [wrapC (lr_ctx h)]
      exact bind_ne_oof h1 (fun _ _ _ _ => by simp)
    cases ho : parseRule E (parseExpr E f1) r (setMemoized t startMark (.rule r.name) last) with
    | oof => exact absurd ho hrule1
    | panic p s2 =>
      refine ⟨f1 + 1, ?_⟩
      unfold leaderLoop
      simp only []
      rw [rule_ext (parseExpr_mono E (Nat.le_succ f1)) r _ hrule1, ho]
      simp [Outcome.bind]
    | done v ok s2 =>
      obtain ⟨hi2, hext2, hadv⟩ := rule_done h f1 r m0 _ s2 v ok hi1 hext1 ho
      by_cases hstop : (!ok || decide (s2.pt.pos.off ≤ last.end.pos.off) && decide (depth ≠ 0)) = true
      · refine ⟨f1 + 1, ?_⟩
        unfold leaderLoop
        simp only []
        rw [rule_ext (parseExpr_mono E (Nat.le_succ f1)) r _ hrule1, ho]
        simp only [Outcome.bind]
        rw [if_pos hstop]
        simp
      · have hok : ok = true := by
          cases ok with
          | true => rfl
          | false => simp at hstop
        subst hok
        obtain ⟨a1, a2⟩ := hadv rfl
        have hs1off : (setMemoized t startMark (.rule r.name) last).pt.pos.off = startMark.pos.off := by simpa using hoff
        rw [hs1off] at a1 a2
        have hlen2 := hi2.1.2.1.le
        -- the measure of the loop drops
        have hdrop : 2 * (E.input.length - s2.pt.pos.off) + (if depth + 1 = 0 then 1 else 0) < mz := by
          simp only [Nat.add_one_ne_zero, if_false, Nat.add_zero]
          by_cases hd : depth = 0
          · have := hd0 hd
            simp only [hd, if_true] at hmz
            omega
          · simp only [hd, if_false, Nat.add_zero] at hmz
            have hgt : last.end.pos.off < s2.pt.pos.off := by
              simp only [Bool.not_true, Bool.false_or, Bool.and_eq_true, decide_eq_true_eq, not_and] at hstop
              have := hstop
              by_cases hle : s2.pt.pos.off ≤ last.end.pos.off
              · exact absurd hd (this hle)
              · omega
            omega
        obtain ⟨F2, h2⟩ := ih _ hdrop (depth + 1) { v := v, b := true, «end» := s2.pt } s2.errs (restore s2 startMark)
          (Nat.le_refl _)
          ⟨FInv.congr' hi2.1 (restore_pt_reach _ _ hi2.1.2.1 hsm) (by simp), by have := hi2.2; unfold MA at *; simpa using this⟩
          (by simpa using hext2) (by simp)
          (fun _ => ⟨a1, fun heq => h.closed name r hf (a2 heq)⟩) (fun hb => by cases hb) hi2.1.2.1
          (fun hb => by cases hb)
        refine ⟨max f1 F2 + 1, ?_⟩
        unfold leaderLoop
        simp only []
        rw [rule_ext (parseExpr_mono E (Nat.le_trans (Nat.le_max_left f1 F2) (Nat.le_succ _))) r _ hrule1, ho]
        simp only [Outcome.bind]
        rw [if_neg hstop]
        rw [leaderLoop_ext (parseExpr_mono E (Nat.le_trans (Nat.le_max_right f1 F2) (Nat.le_succ _))) r startMark F2 (max f1 F2)
          (depth + 1) _ _ _ (Nat.le_max_right f1 F2) h2]
        exact h2


/-- the ranks of the NON-leader names of a list -/
def bigKn (E : Env) (rank : String → Nat) (l : List String) : Nat := bigK rank (l.filter (fun m => !ldName E m))

omit h in
theorem lt_bigKn {m : String} {l : List String} (hm : m ∈ l) (hl : ldName E m = false) : rank m < bigKn E rank l :=
  lt_bigK (List.mem_filter.mpr ⟨hm, by simp [hl]⟩)

/-- the triple induction: (input left, unseeded leaders), rank bound of the non-leader rules reachable here, size -/
theorem term_lr : ∀ (n k sz : Nat) (e : Expr) (s : PState), LI E rn s → MR E s ≤ n → e.wfs rn = true → e.size ≤ sz →
    (MR E s = n → ∀ m ∈ e.first rn, ldName E m = false → rank m < k) → T E e s := by
  have C := lr_ctx h
  intro n
  induction n using Nat.strongRecOn with
  | _ n ihn =>
  intro k
  induction k using Nat.strongRecOn with
  | _ k ihk =>
  intro sz
  induction sz with
  | zero => intro e s _ _ _ hsz _; have := size_pos e; omega
  | succ sz ihsz =>
    intro e s hi hrem hwf hsz hfirst
    have anyT : ∀ e' s', LI E rn s' → MR E s' < n → e'.wfs rn = true → T E e' s' := fun e' s' hi' hlt hw' =>
      ihn (MR E s') hlt (bigKn E rank (e'.first rn)) e'.size e' s' hi' (Nat.le_refl _) hw' (Nat.le_refl _)
        (fun _ m hm hl => lt_bigKn hm hl)
    by_cases hlt : MR E s < n
    · exact anyT e s hi hlt hwf
    have hn : MR E s = n := by omega
    have sub : ∀ e' s', LI E rn s' → MR E s' ≤ n → e'.wfs rn = true → e'.size ≤ sz →
        (MR E s' = n → ∀ m ∈ e'.first rn, ldName E m = false → rank m < k) → T E e' s' := ihsz
    apply T_of_bodyC C
    have hib : LI E rn (bump s) := C.icongr s _ hi rfl rfl
    have hmb : MR E (bump s) = n := by rw [C.mcongr s (bump s) rfl rfl]; exact hn
    have noofk : ∀ (k' : Val → Bool → PState → Outcome), (∀ v ok s2, k' v ok s2 ≠ .oof) → ∀ (e1 : Expr) (s1 : PState),
        T E e1 s1 → ∃ F, (parseExprWrap E (parseExpr E F) e1 s1).bind k' ≠ .oof :=
      fun k' hk e1 s1 hT => oneC C hT k' hk
    have hpush : LI E rn (pushV (bump s)) ∧ MR E (pushV (bump s)) = n :=
      ⟨C.icongr _ _ hib rfl rfl, (C.mcongr (bump s) _ rfl rfl).trans hmb⟩
    cases e with
    | recovery id e1 r1 labels => simp [Expr.wfs] at hwf
    | throw id label => simp [Expr.wfs] at hwf
    | andCode id blk =>
      refine ⟨0, ?_⟩
      simp only [parseExprBody, parseAndCode]
      exact runCodeBlock_term blk _ _ (fun _ _ => by simp [Outcome.Term])
    | notCode id blk =>
      refine ⟨0, ?_⟩
      simp only [parseExprBody, parseNotCode]
      exact runCodeBlock_term blk _ _ (fun _ _ => by simp [Outcome.Term])
    | stateCode id blk =>
      refine ⟨0, ?_⟩
      simp only [parseExprBody, parseStateCode]
      split
      · simp
      · exact runCodeBlock_term blk _ _ (fun _ _ => by simp [Outcome.Term])
    | any id => exact ⟨0, by simp only [parseExprBody, parseAny]; split <;> simp [matchOne]⟩
    | cls id c =>
      refine ⟨0, ?_⟩
      simp only [parseExprBody, parseCharClass]
      repeat' split
      all_goals simp [matchOne]
    | lit id val ic want => exact ⟨0, lit_term _ _ _ _ _⟩
    | action id blk e1 =>
      simp only [Expr.wfs] at hwf
      simp only [Expr.size] at hsz
      simp only [parseExprBody, parseAction]
      apply noofk _ _ e1 (bump s) (sub e1 (bump s) hib (by omega) hwf (by omega) (fun _ m hm => hfirst hn m (by simpa [Expr.first] using hm)))
      intro v ok s2
      split
      · split <;> simp
      · simp
    | and id e1 =>
      simp only [Expr.wfs] at hwf
      simp only [Expr.size] at hsz
      simp only [parseExprBody, parseAnd]
      exact noofk _ (fun _ _ _ => by simp) e1 (pushV (bump s))
        (sub e1 _ hpush.1 (by omega) hwf (by omega) (fun _ m hm => hfirst hn m (by simpa [Expr.first] using hm)))
    | not id e1 =>
      simp only [Expr.wfs] at hwf
      simp only [Expr.size] at hsz
      simp only [parseExprBody, parseNot]
      have hi' : LI E rn { pushV (bump s) with maxFailInvert := !(bump s).maxFailInvert } := C.icongr _ _ hib rfl rfl
      have hm' : MR E { pushV (bump s) with maxFailInvert := !(bump s).maxFailInvert } = n :=
        (C.mcongr (bump s) _ rfl rfl).trans hmb
      exact noofk _ (fun _ _ _ => by simp) e1 _
        (sub e1 _ hi' (Nat.le_of_eq hm') hwf (by omega) (fun _ m hm => hfirst hn m (by simpa [Expr.first] using hm)))
    | labeled id l e1 =>
      simp only [Expr.wfs] at hwf
      simp only [Expr.size] at hsz
      simp only [parseExprBody, parseLabeled]
      exact noofk _ (fun _ _ _ => by simp) e1 (pushV (bump s))
        (sub e1 _ hpush.1 (by omega) hwf (by omega) (fun _ m hm => hfirst hn m (by simpa [Expr.first] using hm)))
    | zeroOrOne id e1 =>
      simp only [Expr.wfs] at hwf
      simp only [Expr.size] at hsz
      simp only [parseExprBody, parseZeroOrOne]
      exact noofk _ (fun _ _ _ => by simp) e1 (pushV (bump s))
        (sub e1 _ hpush.1 (by omega) hwf (by omega) (fun _ m hm => hfirst hn m (by simpa [Expr.first] using hm)))
    | choice id line col alts =>
      simp only [Expr.wfs] at hwf
      simp only [Expr.size] at hsz
      simp only [parseExprBody]
      exact choiceC C (fun m => ldName E m = false → rank m < k) n line col alts
        (fun e' he' s' hi' hr' hf' => sub e' s' hi' hr' (wfs_mem hwf he') (by have := size_mem he'; omega) hf')
        0 (bump s) hib (by omega) (fun _ m hm => hfirst hn m (by simpa [Expr.first] using hm))
    | seq id es =>
      simp only [Expr.wfs] at hwf
      simp only [Expr.size] at hsz
      simp only [parseExprBody]
      exact seqC C (fun m => ldName E m = false → rank m < k) n _ _ es
        (fun e' he' s' hi' hr' hf' => sub e' s' hi' hr' (wfs_mem hwf he') (by have := size_mem he'; omega) hf')
        (bump s) [] hib (by omega) (fun _ m hm => hfirst hn m (by simpa [Expr.first] using hm))
    | oneOrMore id e1 =>
      simp only [Expr.wfs, Bool.and_eq_true, Bool.not_eq_true'] at hwf
      simp only [Expr.size] at hsz
      simp only [parseExprBody]
      have hTl : ∀ s', LI E rn s' → MR E s' ≤ n → T E e1 s' := fun s' hi' hr' => by
        by_cases hl : MR E s' < n
        · exact anyT e1 s' hi' hl hwf.2
        · exact sub e1 s' hi' hr' hwf.2 (by omega) (fun _ m hm => hfirst hn m (by simpa [Expr.first] using hm))
      exact loopC C e1 hwf.1 n hTl n (bump s) [] hib (by omega) (Nat.le_refl _)
    | zeroOrMore id e1 =>
      simp only [Expr.wfs, Bool.and_eq_true, Bool.not_eq_true'] at hwf
      simp only [Expr.size] at hsz
      simp only [parseExprBody, parseZeroOrMore]
      have hTl : ∀ s', LI E rn s' → MR E s' ≤ n → T E e1 s' := fun s' hi' hr' => by
        by_cases hl : MR E s' < n
        · exact anyT e1 s' hi' hl hwf.2
        · exact sub e1 s' hi' hr' hwf.2 (by omega) (fun _ m hm => hfirst hn m (by simpa [Expr.first] using hm))
      obtain ⟨F, hF⟩ := loopC C e1 hwf.1 n hTl n (bump s) [] hib (by omega) (Nat.le_refl _)
      exact ⟨F, bind_ne_oof hF (fun v ok s2 _ => by split <;> simp)⟩
    | ruleRef id name =>
      simp only [parseExprBody, parseRuleRef]
      by_cases hne : name = ""
      · exact ⟨0, by simp [hne]⟩
      · simp only [hne, if_false]
        cases hfr : E.findRule name with
        | none => exact ⟨0, by simp⟩
        | some r =>
          simp only []
          by_cases hld : isLd r = true
          · -- a leader: from the table, or grown
            have hrw : ∀ F, parseRuleWrap E (parseExpr E F) F r (bump s) = parseRuleLeader E (parseExpr E F) F r (bump s) := by
              intro F; rw [ruleWrap_lr h.cfg, if_pos hld]
            cases hg : getMemoized (bump s) (.rule r.name) with
            | some res => exact ⟨0, by rw [hrw]; unfold parseRuleLeader; rw [hg]; simp⟩
            | none =>
              have hU := getMemoized_none_hasEntry hg
              obtain ⟨F, hF⟩ := leaderC h n hfr hld (bump s).memo (bump s).pt (hib.1.2.1) hU
                (by have := hmb; unfold MR rem at this; omega) anyT
                (2 * (E.input.length - (bump s).pt.pos.off) + 1) 0 { v := .nil, b := false, «end» := (bump s).pt } (bump s).errs (bump s)
                (by simp) hib ⟨[], by simp⟩ rfl (fun hb => by cases hb) (fun _ => rfl) hib.1.2.1 (fun _ => Nat.le_refl _)
              exact ⟨F, by rw [hrw]; unfold parseRuleLeader; rw [hg]; exact hF⟩
          · have hldn : ldName E name = false := by simp [ldName, hfr, hld]
            have hrk : rank name < k := hfirst hn name (by simp [Expr.first]) hldn
            have hT : T E r.expr (pushV { bump s with rstack := r :: (bump s).rstack }) :=
              ihk (rank name) hrk r.expr.size r.expr _ (C.icongr _ _ hib rfl rfl)
                (Nat.le_of_eq ((C.mcongr (bump s) _ rfl rfl).trans hmb))
                (h.shape name r hfr) (Nat.le_refl _)
                (fun _ m hm hl => by
                  rcases h.ranked name r hfr m hm with hx | hx
                  · rw [hl] at hx; cases hx
                  · exact hx)
            obtain ⟨F, hF⟩ := hT
            refine ⟨F, ?_⟩
            rw [ruleWrap_lr h.cfg, if_neg hld]
            unfold parseRule
            simp only []
            rw [wrapC C]
            exact bind_ne_oof hF (fun _ _ _ _ => by simp)

/-- **Left-recursive grammars terminate**: every well-shaped expression, from every state, at some finite depth. -/
theorem lr_terminates (e : Expr) (s : PState) (hi : LI E rn s) (hwf : e.wfs rn = true) : ∃ f, parseExpr E f e s ≠ .oof :=
  term_lr h (MR E s) (bigKn E rank (e.first rn)) e.size e s hi (Nat.le_refl _) hwf (Nat.le_refl _)
    (fun _ _ hm hl => lt_bigKn hm hl)


/-- a rule invocation (leader or not) from any state -/
theorem ruleWrap_conv {name : String} {r : Rule} (hfr : E.findRule name = some r) (s : PState) (hi : LI E rn s) :
    ∃ F, parseRuleWrap E (parseExpr E F) F r s ≠ .oof := by
  have C := lr_ctx h
  by_cases hld : isLd r = true
  · have hrw : ∀ F, parseRuleWrap E (parseExpr E F) F r s = parseRuleLeader E (parseExpr E F) F r s := by
      intro F; rw [ruleWrap_lr h.cfg, if_pos hld]
    cases hg : getMemoized s (.rule r.name) with
    | some res => exact ⟨0, by rw [hrw]; unfold parseRuleLeader; rw [hg]; simp⟩
    | none =>
      have hU := getMemoized_none_hasEntry hg
      obtain ⟨F, hF⟩ := leaderC h (MR E s) hfr hld s.memo s.pt hi.1.2.1 hU (Nat.le_refl _)
        (fun e' s' hi' _ hw' => lr_terminates h e' s' hi' hw')
        (2 * (E.input.length - s.pt.pos.off) + 1) 0 { v := .nil, b := false, «end» := s.pt } s.errs s
        (by simp) hi ⟨[], by simp⟩ rfl (fun hb => by cases hb) (fun _ => rfl) hi.1.2.1 (fun _ => Nat.le_refl _)
      exact ⟨F, by rw [hrw]; unfold parseRuleLeader; rw [hg]; exact hF⟩
  · obtain ⟨F, hF⟩ := lr_terminates h r.expr (pushV { s with rstack := r :: s.rstack }) (C.icongr _ _ hi rfl rfl)
      (h.shape name r hfr)
    refine ⟨F, ?_⟩
    rw [ruleWrap_lr h.cfg, if_neg hld]
    unfold parseRule
    simp only []
    rw [wrapC C]
    exact bind_ne_oof hF (fun _ _ _ _ => by simp)

/-- ... and so does `Parse` -/
theorem lr_parse_terminates : ∃ f, parse E f ≠ .oof := by
  unfold parse
  simp only []
  cases hr : E.rules with
  | nil => exact ⟨0, by simp⟩
  | cons first rest =>
    simp only []
    cases hfr : E.findRule (entryName E first) with
    | none => exact ⟨0, by simp⟩
    | some r =>
      simp only []
      have hi : LI E rn (startState E) := by
        refine ⟨start_inv E, ?_⟩
        intro ent hent
        have : (startState E).memo = [] := by
          show (read E (initState E)).memo = []
          simp [initState]
        rw [this] at hent; cases hent
      obtain ⟨F, hF⟩ := ruleWrap_conv h hfr (startState E) hi
      refine ⟨F, ?_⟩
      have : ∀ o : Outcome, o ≠ .oof → finish E o ≠ .oof := by
        intro o ho
        cases o with
        | oof => exact absurd rfl ho
        | panic p s => simp only [finish]; split <;> simp
        | done v ok s =>
          simp only [finish]
          repeat' split
          all_goals simp
      exact this _ hF

end

/-! ### a checker for the hypotheses -/

/-- does the candidate (nullable rules, ranking) witness `LRWF`? (every rule definition is checked) -/
def checkLRWF (E : Env) (nl : List String) (rk : List (String × Nat)) : Bool :=
  E.flags.leftRec && !E.opts.memoize && E.opts.maxExpr.isNone &&
  E.rules.all (fun r =>
    (!r.expr.nul (rnOf nl) || rnOf nl r.name) &&
    r.expr.wfs (rnOf nl) &&
    (r.expr.first (rnOf nl)).all (fun m => ldName E m || decide (rankOf rk m < rankOf rk r.name)))

theorem checkLRWF_sound {E : Env} {nl : List String} {rk : List (String × Nat)} (hc : checkLRWF E nl rk = true) :
    LRWF E (rnOf nl) (rankOf rk) := by
  unfold checkLRWF at hc
  simp only [Bool.and_eq_true, Bool.not_eq_true', List.all_eq_true, Bool.or_eq_true, decide_eq_true_eq,
    Option.isNone_iff_eq_none] at hc
  obtain ⟨⟨⟨hl, hm⟩, hb⟩, hall⟩ := hc
  have key : ∀ n r, E.findRule n = some r → _ := fun n r hf => hall r (findRule_mem hf).1
  refine ⟨⟨hl, hm, hb⟩, fun n r hf hn => ?_, fun n r hf => ?_, fun n r hf m hm' => ?_⟩
  · obtain ⟨⟨h3, _⟩, _⟩ := key n r hf
    rw [← (findRule_mem hf).2]
    rcases h3 with h3 | h3
    · rw [hn] at h3; cases h3
    · exact h3
  · exact (key n r hf).1.2
  · have := (key n r hf).2 m hm'
    rw [← (findRule_mem hf).2]; exact this

end RT
end PV
