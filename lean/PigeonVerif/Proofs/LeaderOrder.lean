/-
  LeaderOrder — the choice of the leader of a strongly connected component does not depend on any
  enumeration order (C19, leader clause).

  In the Go code (`builder/left_recursion.go`, `builder/scc.go`) the first graph is a
  `map[string]map[string]struct{}` and a component is a `map[string]struct{}`: `findLeader` ranges
  over the members of the component (start vertices, candidates), `FindCyclesInSCC` ranges over the
  successors of a node, and the final pick ranges over the surviving candidates.  Go randomises
  every one of these orders.  In the model (`Mid.findLeader`, `Mid.lassos`, `Mid.sccOf`) a map is a
  list, so an iteration order is the order of a list; the theorems below say that two lists with the
  same MEMBERS give the same component (as a set) and the same leader.
-/
import PigeonVerif.Proofs.Reach

namespace PV
namespace Mid

/-- two lists that a Go map iteration could both produce: the same members -/
def SameMem {α : Type} (l1 l2 : List α) : Prop := ∀ x, x ∈ l1 ↔ x ∈ l2

theorem SameMem.refl {α : Type} (l : List α) : SameMem l l := fun _ => Iff.rfl
theorem SameMem.symm {α : Type} {l1 l2 : List α} (h : SameMem l1 l2) : SameMem l2 l1 := fun x => (h x).symm
theorem SameMem.of_perm {α : Type} {l1 l2 : List α} (h : l1.Perm l2) : SameMem l1 l2 := fun _ => h.mem_iff

/-- two adjacency structures with the same successor SETS -/
def SameSuccs (g1 g2 : Graph) : Prop := ∀ v, SameMem (succs g1 v) (succs g2 v)

theorem foldl_append_flatMap {α β : Type} (f : α → List β) (l : List α) (init : List β) :
    l.foldl (fun acc c => acc ++ f c) init = init ++ l.flatMap f := by
  induction l generalizing init with
  | nil => simp
  | cons a l ih => simp [List.foldl_cons, ih, List.flatMap_cons, List.append_assoc]

theorem contains_sameMem {l1 l2 : List String} (h : SameMem l1 l2) (x : String) : l1.contains x = l2.contains x := by
  rw [Bool.eq_iff_iff]
  simp only [List.contains_iff_mem]
  exact h x

/-! ### the lasso paths -/

theorem mem_lassos_step (g : Graph) (scc : List String) (k : Nat) (node : String) (path p : List String) :
    p ∈ lassos g scc (k + 1) node path ↔
      (node ∈ path ∧ p = path ++ [node]) ∨
      (node ∉ path ∧ ∃ c, c ∈ succs g node ∧ c ∈ scc ∧
        p ∈ lassos g scc k c (path ++ [node])) := by
  simp only [lassos]
  split
  · rename_i h
    have h' : node ∈ path := by simpa using h
    simp [h']
  · rename_i h
    have h' : node ∉ path := by simpa using h
    simp only [foldl_append_flatMap, List.nil_append, List.mem_flatMap, List.mem_filter]
    simp [h', and_assoc]

theorem lassos_sameMem {g1 g2 : Graph} {scc1 scc2 : List String} (hg : SameSuccs g1 g2) (hs : SameMem scc1 scc2) :
    ∀ (k : Nat) (node : String) (path : List String),
      SameMem (lassos g1 scc1 k node path) (lassos g2 scc2 k node path)
  | 0, _, _ => by intro p; simp [lassos]
  | k + 1, node, path => by
    intro p
    rw [mem_lassos_step, mem_lassos_step]
    constructor
    · rintro (h | ⟨h, c, hc, hcs, hp⟩)
      · exact Or.inl h
      · exact Or.inr ⟨h, c, (hg node c).mp hc, (hs c).mp hcs, (lassos_sameMem hg hs k c _ p).mp hp⟩
    · rintro (h | ⟨h, c, hc, hcs, hp⟩)
      · exact Or.inl h
      · exact Or.inr ⟨h, c, (hg node c).mpr hc, (hs c).mpr hcs, (lassos_sameMem hg hs k c _ p).mpr hp⟩

/-- all lasso paths of a component, from every start -/
def allLassos (g : Graph) (scc : List String) (k : Nat) : List (List String) :=
  scc.foldl (fun acc s => acc ++ lassos g scc k s []) []

theorem mem_allLassos (g : Graph) (scc : List String) (k : Nat) (p : List String) :
    p ∈ allLassos g scc k ↔ ∃ s ∈ scc, p ∈ lassos g scc k s [] := by
  simp only [allLassos, foldl_append_flatMap, List.nil_append, List.mem_flatMap]

/-! ### the smallest name -/

def minFold (l : List String) (x : String) : String := l.foldl (fun m y => if y < m then y else m) x

theorem foldl_min_spec (l : List String) (x : String) :
    (minFold l x = x ∨ minFold l x ∈ l) ∧ minFold l x ≤ x ∧ ∀ y ∈ l, minFold l x ≤ y := by
  induction l generalizing x with
  | nil => exact ⟨Or.inl rfl, String.le_refl _, fun _ h => by cases h⟩
  | cons a l ih =>
    have hstep : minFold (a :: l) x = minFold l (if a < x then a else x) := rfl
    rw [hstep]
    split
    · rename_i hlt
      obtain ⟨h1, h2, h3⟩ := ih a
      refine ⟨?_, ?_, ?_⟩
      · rcases h1 with h1 | h1
        · rw [h1]; exact Or.inr List.mem_cons_self
        · exact Or.inr (List.mem_cons_of_mem _ h1)
      · exact String.le_trans h2 (String.not_lt.mp (String.lt_asymm hlt))
      · intro y hy
        rcases List.mem_cons.mp hy with rfl | hy
        · exact h2
        · exact h3 y hy
    · rename_i hnl
      obtain ⟨h1, h2, h3⟩ := ih x
      refine ⟨?_, h2, ?_⟩
      · rcases h1 with h1 | h1
        · exact Or.inl h1
        · exact Or.inr (List.mem_cons_of_mem _ h1)
      · intro y hy
        rcases List.mem_cons.mp hy with rfl | hy
        · exact String.le_trans h2 (String.not_lt.mp hnl)
        · exact h3 y hy

/-- `minStr` returns a member that no member is smaller than -/
theorem minStr_spec (l : List String) :
    match minStr l with
    | none => l = []
    | some m => m ∈ l ∧ ∀ y ∈ l, m ≤ y := by
  cases l with
  | nil => simp [minStr]
  | cons x xs =>
    show minFold xs x ∈ x :: xs ∧ ∀ y ∈ x :: xs, minFold xs x ≤ y
    obtain ⟨h1, h2, h3⟩ := foldl_min_spec xs x
    refine ⟨?_, ?_⟩
    · rcases h1 with h1 | h1
      · rw [h1]; exact List.mem_cons_self
      · exact List.mem_cons_of_mem _ h1
    · intro y hy
      rcases List.mem_cons.mp hy with rfl | hy
      · exact h2
      · exact h3 y hy

/-- the final pick of `findLeader` (`for k := range leaders { if leader == "" || k < leader … }`) is a
    function of the SET of candidates -/
theorem minStr_sameMem {l1 l2 : List String} (h : SameMem l1 l2) : minStr l1 = minStr l2 := by
  have s1 := minStr_spec l1
  have s2 := minStr_spec l2
  cases h1 : minStr l1 with
  | none =>
    rw [h1] at s1
    cases h2 : minStr l2 with
    | none => rfl
    | some m =>
      rw [h2] at s2
      have : m ∈ l1 := (h m).mpr s2.1
      rw [s1] at this; cases this
  | some m1 =>
    rw [h1] at s1
    cases h2 : minStr l2 with
    | none =>
      rw [h2] at s2
      have : m1 ∈ l2 := (h m1).mp s1.1
      rw [s2] at this; cases this
    | some m2 =>
      rw [h2] at s2
      have a : m1 ≤ m2 := s1.2 m2 ((h m2).mpr s2.1)
      have b : m2 ≤ m1 := s2.2 m1 ((h m1).mp s1.1)
      rw [String.le_antisymm a b]

/-! ### `findLeader` -/

theorem findLeader_eq (g : Graph) (scc : List String) :
    findLeader g scc =
      minStr (scc.filter (fun v => (allLassos g scc (scc.length + 2)).all (fun p => p.contains v))) := rfl

/-- the candidate test "lies on every lasso path" depends on the sets only -/
theorem onAll_sameMem {g1 g2 : Graph} {scc1 scc2 : List String} (hg : SameSuccs g1 g2) (hs : SameMem scc1 scc2)
    (k : Nat) (v : String) :
    (allLassos g1 scc1 k).all (fun p => p.contains v) = (allLassos g2 scc2 k).all (fun p => p.contains v) := by
  rw [Bool.eq_iff_iff]
  simp only [List.all_eq_true]
  constructor
  · intro h p hp
    obtain ⟨s, hs2, hp2⟩ := (mem_allLassos g2 scc2 k p).mp hp
    exact h p ((mem_allLassos g1 scc1 k p).mpr ⟨s, (hs s).mpr hs2, (lassos_sameMem hg hs k s [] p).mpr hp2⟩)
  · intro h p hp
    obtain ⟨s, hs1, hp1⟩ := (mem_allLassos g1 scc1 k p).mp hp
    exact h p ((mem_allLassos g2 scc2 k p).mpr ⟨s, (hs s).mp hs1, (lassos_sameMem hg hs k s [] p).mp hp1⟩)

/-- **The leader of a component is a function of the component as a SET and of the successor SETS**, provided
    the two enumerations of the component have the same length (Go: the same map, so the same number of keys;
    the length only bounds the depth of the path search). -/
theorem findLeader_order_free {g1 g2 : Graph} {scc1 scc2 : List String} (hg : SameSuccs g1 g2)
    (hs : SameMem scc1 scc2) (hl : scc1.length = scc2.length) : findLeader g1 scc1 = findLeader g2 scc2 := by
  rw [findLeader_eq, findLeader_eq]
  apply minStr_sameMem
  intro v
  simp only [List.mem_filter]
  rw [hl, onAll_sameMem hg hs (scc2.length + 2) v]
  exact and_congr_left' (hs v)

/-! ### the component itself -/

theorem path_sameSuccs {g1 g2 : Graph} (hg : SameSuccs g1 g2) {a b : String} (h : Path g1 a b) : Path g2 a b := by
  induction h with
  | edge he => exact .edge ((hg _ _).mp he)
  | step he _ ih => exact .step ((hg _ _).mp he) ih

theorem mem_reachFrom_iff (g : Graph) (hg : GraphOK g) (v x : String) : x ∈ reachFrom g v ↔ Path g v x :=
  ⟨fun h => (reachFrom_spec g hg v).2.1 x h, fun h => reachFrom_complete g hg h⟩

theorem reachFrom_sameMem {g1 g2 : Graph} (h1 : GraphOK g1) (h2 : GraphOK g2) (hg : SameSuccs g1 g2) (v : String) :
    SameMem (reachFrom g1 v) (reachFrom g2 v) := by
  intro x
  rw [mem_reachFrom_iff g1 h1, mem_reachFrom_iff g2 h2]
  exact ⟨path_sameSuccs hg, path_sameSuccs (fun v => (hg v).symm)⟩

theorem mem_sccOf (g : Graph) (v x : String) :
    x ∈ sccOf g v ↔ x = v ∨ (x ∈ reachFrom g v ∧ x ≠ v ∧ v ∈ reachFrom g x) := by
  simp [sccOf, List.mem_filter]

/-- the strongly connected component of a vertex, as a set, depends on the successor sets only -/
theorem sccOf_sameMem {g1 g2 : Graph} (h1 : GraphOK g1) (h2 : GraphOK g2) (hg : SameSuccs g1 g2) (v : String) :
    SameMem (sccOf g1 v) (sccOf g2 v) := by
  intro x
  rw [mem_sccOf, mem_sccOf, reachFrom_sameMem h1 h2 hg v x, reachFrom_sameMem h1 h2 hg x v]

theorem sccOf_nodup (g : Graph) (hg : GraphOK g) (v : String) : (sccOf g v).Nodup := by
  unfold sccOf
  refine List.nodup_cons.mpr ⟨?_, ((reachFrom_spec g hg v).1).filter _⟩
  intro h
  have := (List.mem_filter.mp h).2
  simp at this

/-- … and so does its size -/
theorem sccOf_length {g1 g2 : Graph} (h1 : GraphOK g1) (h2 : GraphOK g2) (hg : SameSuccs g1 g2) (v : String) :
    (sccOf g1 v).length = (sccOf g2 v).length :=
  ((List.perm_ext_iff_of_nodup (sccOf_nodup g1 h1 v) (sccOf_nodup g2 h2 v)).mpr (sccOf_sameMem h1 h2 hg v)).length_eq

/-- **Leader choice, end to end**: two first graphs with the same successor sets (two iteration orders of the same
    Go maps) give every vertex the same component and that component the same leader (or both none: `ErrNoLeader`). -/
theorem leader_of_vertex_order_free {g1 g2 : Graph} (h1 : GraphOK g1) (h2 : GraphOK g2) (hg : SameSuccs g1 g2)
    (v : String) : findLeader g1 (sccOf g1 v) = findLeader g2 (sccOf g2 v) :=
  findLeader_order_free hg (sccOf_sameMem h1 h2 hg v) (sccOf_length h1 h2 hg v)

theorem hasSelfLoop_sameSuccs {g1 g2 : Graph} (hg : SameSuccs g1 g2) (v : String) :
    hasSelfLoop g1 v = hasSelfLoop g2 v := contains_sameMem (hg v) v

end Mid
end PV
