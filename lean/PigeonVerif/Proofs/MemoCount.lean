/-
  The packrat bound: with Memoize(true), for a grammar without a same-position cycle, every (expression, offset) pair is
  evaluated at most once, so `ExprCnt ≤ (number of expression nodes) × (input length + 1)`.

  Configuration `MemoCfg` (standard template, no left-recursion support, no budget) with Memoize(true); node identifiers
  unique, no throw/recover (`Expr.Ok`); a closed nullability oracle `rn` and a ranking that decreases along the first
  graph (as in `WFTerm`). No assumption on the code blocks.

  Invariant `MI`: the `.expr` keys of the memo table are pairwise distinct, and every entry records a result that
  respects progress (`Adv`). Each evaluation (`parseExpr`) adds, besides its own key, only keys of strictly smaller
  measure `mu = (input left, rank bound of the rules reachable at this position, size)` — so its own key is new —
  and increases `exprCnt` by exactly the number of `.expr` keys added.
-/
import PigeonVerif.Proofs.WFTerm
import PigeonVerif.Proofs.MemoSound

namespace PV
namespace RT

abbrev M3 := Nat × Nat × Nat

/-- lexicographic order on triples, spelled out so that `omega` decides it -/
def Lt3 (a b : M3) : Prop := a.1 < b.1 ∨ (a.1 = b.1 ∧ (a.2.1 < b.2.1 ∨ (a.2.1 = b.2.1 ∧ a.2.2 < b.2.2)))
def Le3 (a b : M3) : Prop := Lt3 a b ∨ (a.1 = b.1 ∧ a.2.1 = b.2.1 ∧ a.2.2 = b.2.2)

theorem Le3.trans_lt {a b c : M3} (h1 : Le3 a b) (h2 : Lt3 b c) : Lt3 a c := by
  simp only [Le3, Lt3] at *; omega

theorem Lt3.le {a b : M3} (h : Lt3 a b) : Le3 a b := Or.inl h

theorem Lt3.irrefl (a : M3) : ¬ Lt3 a a := by
  simp only [Lt3]; omega

/-- the `.expr` keys of a memo table: (offset, node identifier) -/
def ekeys (m : List ((Nat × MemoKey) × MemoVal)) : List (Nat × Nat) :=
  m.filterMap (fun ent => match ent.1.2 with | .expr id => some (ent.1.1, id) | .rule _ => none)

theorem ekeys_append (a b : List ((Nat × MemoKey) × MemoVal)) : ekeys (a ++ b) = ekeys a ++ ekeys b := by
  simp [ekeys, List.filterMap_append]

theorem ekeys_cons_expr (off id : Nat) (v : MemoVal) (m : List ((Nat × MemoKey) × MemoVal)) :
    ekeys (((off, .expr id), v) :: m) = (off, id) :: ekeys m := by
  simp [ekeys, List.filterMap_cons]

theorem ekeys_cons_rule (off : Nat) (n : String) (v : MemoVal) (m : List ((Nat × MemoKey) × MemoVal)) :
    ekeys (((off, .rule n), v) :: m) = ekeys m := by
  simp [ekeys, List.filterMap_cons]

theorem mem_ekeys {m : List ((Nat × MemoKey) × MemoVal)} {off id : Nat} (h : (off, id) ∈ ekeys m) :
    ∃ v, ((off, .expr id), v) ∈ m := by
  simp only [ekeys, List.mem_filterMap] at h
  obtain ⟨ent, hm, he⟩ := h
  rcases ent with ⟨⟨o, k⟩, v⟩
  cases k with
  | rule n => simp at he
  | expr i =>
    simp at he
    obtain ⟨rfl, rfl⟩ := he
    exact ⟨v, hm⟩

theorem bigK_le_iff {rank : String → Nat} {b : Nat} : ∀ {l : List String}, bigK rank l ≤ b ↔ ∀ m ∈ l, rank m + 1 ≤ b
  | [] => by simp [bigK]
  | x :: xs => by
    have ih := bigK_le_iff (rank := rank) (b := b) (l := xs)
    simp only [bigK, List.foldr] at ih ⊢
    constructor
    · intro h m hm
      rcases List.mem_cons.mp hm with rfl | hm
      · omega
      · exact ih.mp (by omega) m hm
    · intro h
      have h1 := h x List.mem_cons_self
      have h2 := ih.mpr (fun m hm => h m (List.mem_cons_of_mem _ hm))
      omega

theorem bigK_mono {rank : String → Nat} {l1 l2 : List String} (h : ∀ m ∈ l1, m ∈ l2) : bigK rank l1 ≤ bigK rank l2 :=
  bigK_le_iff.mpr (fun m hm => bigK_le_iff.mp (Nat.le_refl _) m (h m hm))

section
variable (E : Env) (own : Nat → Option String) (node : Nat → Option Expr) (rn : String → Bool) (rank : String → Nat)

/-- the measure of evaluating `e` at offset `off` -/
def mu (e : Expr) (off : Nat) : M3 := (E.input.length - off, bigK rank (e.first rn), e.size)

/-- the measure of a memo key -/
def muKey (k : Nat × Nat) : M3 :=
  match node k.2 with
  | some e => mu E rn rank e k.1
  | none => (0, 0, 0)

/-- a memo entry respects progress -/
def EntOK (ent : (Nat × MemoKey) × MemoVal) : Prop :=
  match ent.1.2 with
  | .expr id => ent.2.b = true → ent.1.1 ≤ ent.2.end.pos.off ∧
      (ent.2.end.pos.off = ent.1.1 → ∀ e, node id = some e → e.nul rn = true)
  | .rule name => ent.2.b = true → ent.1.1 ≤ ent.2.end.pos.off ∧ (ent.2.end.pos.off = ent.1.1 → rn name = true)

/-- the invariant of the memoized run -/
structure MI (s : PState) : Prop where
  frame : FInv (setMemo E true) s
  ents : ∀ ent ∈ s.memo, EntOK node rn ent
  nodup : (ekeys s.memo).Nodup
  bounded : ∀ k ∈ ekeys s.memo, k.1 ≤ E.input.length ∧ (node k.2).isSome = true

/-- the memo table grew by `new`, whose `.expr` keys satisfy `P`, and `exprCnt` grew by `extra` plus their number -/
def Grow (extra : Nat) (s s' : PState) (P : Nat × Nat → Prop) : Prop :=
  ∃ new, s'.memo = new ++ s.memo ∧ s'.exprCnt = s.exprCnt + extra + (ekeys new).length ∧ ∀ k ∈ ekeys new, P k

/-- hypotheses of the bound -/
structure CountHyp : Prop where
  cfg : MemoCfg E
  ok : ∀ n r, E.findRule n = some r → r.expr.Ok own node (fun _ => true) n
  closed : ∀ n r, E.findRule n = some r → r.expr.nul rn = true → rn n = true
  ranked : ∀ n r, E.findRule n = some r → ∀ m ∈ r.expr.first rn, rank m < rank n

end

section
variable {E : Env} {own : Nat → Option String} {node : Nat → Option Expr} {rn : String → Bool} {rank : String → Nat}

theorem Grow.of_eq {s s' : PState} {P : Nat × Nat → Prop} (h1 : s'.memo = s.memo) (h2 : s'.exprCnt = s.exprCnt) :
    Grow 0 s s' P := ⟨[], by simp [h1], by simp [h2, ekeys], by simp [ekeys]⟩

theorem Grow.trans {x y : Nat} {a b c : PState} {P : Nat × Nat → Prop} (h1 : Grow x a b P) (h2 : Grow y b c P) :
    Grow (x + y) a c P := by
  obtain ⟨n1, m1, c1, p1⟩ := h1
  obtain ⟨n2, m2, c2, p2⟩ := h2
  refine ⟨n2 ++ n1, by rw [m2, m1, List.append_assoc], by rw [c2, c1, ekeys_append, List.length_append]; omega, ?_⟩
  intro k hk
  rw [ekeys_append, List.mem_append] at hk
  rcases hk with hk | hk
  · exact p2 k hk
  · exact p1 k hk

theorem Grow.weaken {x : Nat} {a b : PState} {P Q : Nat × Nat → Prop} (h : Grow x a b P) (hpq : ∀ k, P k → Q k) :
    Grow x a b Q := by
  obtain ⟨n, m, c, p⟩ := h
  exact ⟨n, m, c, fun k hk => hpq k (p k hk)⟩

theorem Grow.congr {x : Nat} {a b b' : PState} {P : Nat × Nat → Prop} (h : Grow x a b P) (h1 : b'.memo = b.memo)
    (h2 : b'.exprCnt = b.exprCnt) : Grow x a b' P := by
  obtain ⟨n, m, c, p⟩ := h
  exact ⟨n, by rw [h1, m], by rw [h2, c], p⟩

theorem Grow.congr_left {x : Nat} {a a' b : PState} {P : Nat × Nat → Prop} (h : Grow x a b P) (h1 : a'.memo = a.memo)
    (h2 : a'.exprCnt = a.exprCnt) : Grow x a' b P := by
  obtain ⟨n, m, c, p⟩ := h
  exact ⟨n, by rw [h1, m], by rw [h2, c], p⟩

theorem MI.congr {s s' : PState} (h : MI E node rn s) (h1 : s'.memo = s.memo) (h2 : Reach E.input s'.pt) : MI E node rn s' := by
  refine ⟨⟨h.frame.1.congr h1, h2, ?_⟩, by rw [h1]; exact h.ents, by rw [h1]; exact h.nodup, by rw [h1]; exact h.bounded⟩
  intro e he; rw [h1] at he; exact h.frame.2.2 e he

theorem MI.reach {s : PState} (h : MI E node rn s) : Reach E.input s.pt := h.frame.2.1

theorem MI.off_le {s : PState} (h : MI E node rn s) : s.pt.pos.off ≤ E.input.length := by
  have := h.reach.le; omega

/-- a child evaluated at `off'` inside the evaluation of `P` started at `off0` has a smaller measure -/
theorem child_lt {e' P : Expr} {off' off0 : Nat} (h0 : off0 ≤ off') (hl : off' ≤ E.input.length)
    (hsame : off' = off0 → bigK rank (e'.first rn) < bigK rank (P.first rn) ∨
      (bigK rank (e'.first rn) ≤ bigK rank (P.first rn) ∧ e'.size < P.size)) :
    Lt3 (mu E rn rank e' off') (mu E rn rank P off0) := by
  simp only [Lt3, mu]
  by_cases h : off' = off0
  · have := hsame h
    subst h; omega
  · omega

end

theorem getMemoized_none {s : PState} {k : MemoKey} (h : getMemoized s k = none) (v : MemoVal) :
    ((s.pt.pos.off, k), v) ∉ s.memo := by
  intro hm
  unfold getMemoized at h
  cases hf : s.memo.find? (fun e => e.1.1 = s.pt.pos.off && e.1.2 = k) with
  | some e => simp [hf] at h
  | none =>
    have := List.find?_eq_none.mp hf _ hm
    simp at this

section core
variable {E : Env} {own : Nat → Option String} {node : Nat → Option Expr} {rn : String → Bool} {rank : String → Nat}

/-- post-condition of `parseExpr`: its own count, keys of strictly smaller measure -/
def RPost (E : Env) (node : Nat → Option Expr) (rn : String → Bool) (rank : String → Nat)
    (e : Expr) (s : PState) (ok : Bool) (s' : PState) : Prop :=
  MI E node rn s' ∧ Adv rn e s ok s' ∧ (ok = false → s'.pt.pos.off = s.pt.pos.off) ∧
    Grow 1 s s' (fun k => Lt3 (muKey E node rn rank k) (mu E rn rank e s.pt.pos.off))

/-- post-condition of `parseExprWrap`: on a miss the own key is added -/
def WPost (E : Env) (node : Nat → Option Expr) (rn : String → Bool) (rank : String → Nat)
    (e : Expr) (s : PState) (ok : Bool) (s' : PState) : Prop :=
  MI E node rn s' ∧ Adv rn e s ok s' ∧ (ok = false → s'.pt.pos.off = s.pt.pos.off) ∧
    Grow 0 s s' (fun k => Le3 (muKey E node rn rank k) (mu E rn rank e s.pt.pos.off))

/-- what is assumed of the recursive calls -/
def RecC (E : Env) (own : Nat → Option String) (node : Nat → Option Expr) (rn : String → Bool) (rank : String → Nat)
    (rec : Expr → PState → Outcome) : Prop :=
  ∀ e s rnm, MI E node rn s → e.Ok own node (fun _ => true) rnm →
    (rec e s).Sat (fun _ ok s' => RPost E node rn rank e s ok s') (fun _ => True)

variable (h : CountHyp E own node rn rank) {rec : Expr → PState → Outcome}
include h

theorem call_cnt (hrec : RecC E own node rn rank rec) (e : Expr) (s : PState) (rnm : String) (hi : MI E node rn s)
    (he : e.Ok own node (fun _ => true) rnm) :
    (parseExprWrap (setMemo E true) rec e s).Sat (fun _ ok s' => WPost E node rn rank e s ok s') (fun _ => True) := by
  rw [wrapM_eq h.cfg]
  obtain ⟨_, hnode⟩ := he.keyed
  cases hg : getMemoized s (.expr e.id) with
  | some res =>
    simp only [Outcome.Sat]
    have hfr : Framed (setMemo E true) s res.b (restore (hit s) res.end) := Framed.hit' hi.frame.1 hg
    have hent := hi.ents _ (getMemoized_mem hg)
    simp only [EntOK] at hent
    have hoff : (restore (hit s) res.end).pt.pos.off = res.end.pos.off := by rw [restore_off]
    refine ⟨⟨hi.frame.of_framed hfr, by simpa using hi.ents, by simpa using hi.nodup, by simpa using hi.bounded⟩, ?_, hfr.failOff, Grow.of_eq (by simp) (by simp)⟩
    intro hb
    obtain ⟨a1, a2⟩ := hent hb
    rw [hoff]
    exact ⟨a1, fun heq => a2 heq e hnode⟩
  | none =>
    simp only []
    apply Outcome.sat_bind (hrec e s rnm hi he)
    intro v ok s1 ⟨hi1, hadv, hfo, new, hm, hc, hp⟩
    simp only [Outcome.Sat]
    have hown : muKey E node rn rank (s.pt.pos.off, e.id) = mu E rn rank e s.pt.pos.off := by
      simp [muKey, hnode]
    refine ⟨⟨⟨MemoOK.set hi1.frame.1 (fun hb => hfo hb), by simpa using hi1.frame.2.1, ?_⟩, ?_, ?_, ?_⟩, ?_, ?_, ?_⟩
    · intro ent hent
      simp only [setMemoized, List.mem_cons] at hent
      rcases hent with rfl | hent
      · exact hi1.frame.2.1
      · exact hi1.frame.2.2 ent hent
    · intro ent hent
      simp only [setMemoized, List.mem_cons] at hent
      rcases hent with rfl | hent
      · simp only [EntOK]
        intro hb
        obtain ⟨a1, a2⟩ := hadv hb
        exact ⟨a1, fun heq e' he' => by rw [hnode] at he'; cases he'; exact a2 heq⟩
      · exact hi1.ents ent hent
    · show (ekeys (((s.pt.pos.off, MemoKey.expr e.id), _) :: s1.memo)).Nodup
      rw [ekeys_cons_expr, List.nodup_cons]
      refine ⟨?_, hi1.nodup⟩
      rw [hm, ekeys_append, List.mem_append]
      rintro (hk | hk)
      · have := hp _ hk
        simp only [] at this
        rw [hown] at this
        exact Lt3.irrefl _ this
      · obtain ⟨v', hv'⟩ := mem_ekeys hk
        exact getMemoized_none hg v' hv'
    · show ∀ k ∈ ekeys (((s.pt.pos.off, MemoKey.expr e.id), _) :: s1.memo), _
      rw [ekeys_cons_expr]
      intro k hk
      rcases List.mem_cons.mp hk with rfl | hk
      · exact ⟨hi.off_le, by simp [hnode]⟩
      · exact hi1.bounded k hk
    · intro hb
      have := hadv hb
      simpa using this
    · intro hb; simpa using hfo hb
    · refine ⟨((s.pt.pos.off, MemoKey.expr e.id), { v := v, b := ok, «end» := s1.pt }) :: new, by simp [setMemoized, hm], ?_, ?_⟩
      · rw [ekeys_cons_expr]; simp [hc]; omega
      · intro k hk
        rw [ekeys_cons_expr, List.mem_cons] at hk
        rcases hk with rfl | hk
        · rw [hown]; exact Or.inr ⟨rfl, rfl, rfl⟩
        · exact (hp k hk).le


omit h in
theorem Grow.trans0 {a b c : PState} {P : Nat × Nat → Prop} (h1 : Grow 0 a b P) (h2 : Grow 0 b c P) : Grow 0 a c P :=
  Grow.trans h1 h2

/-- the post-condition of the pieces of an evaluation of `P` started at offset `off0` -/
def PG (E : Env) (node : Nat → Option Expr) (rn : String → Bool) (rank : String → Nat) (P : Expr) (off0 : Nat)
    (s s' : PState) : Prop :=
  Grow 0 s s' (fun k => Lt3 (muKey E node rn rank k) (mu E rn rank P off0))

omit h in
theorem PG.of_call {P e : Expr} {off0 : Nat} {s s' : PState} {ok : Bool} (hw : WPost E node rn rank e s ok s')
    (hlt : Lt3 (mu E rn rank e s.pt.pos.off) (mu E rn rank P off0)) : PG E node rn rank P off0 s s' :=
  hw.2.2.2.weaken (fun _ hk => hk.trans_lt hlt)

theorem seq_cnt (hrec : RecC E own node rn rank rec) (P : Expr) (off0 : Nat) (rnm : String) (pt : Savepoint)
    (hpt : Reach E.input pt) (st : Store) :
    ∀ (es : List Expr) (s : PState) (acc : List Val), MI E node rn s → OkL own node (fun _ => true) rnm es →
      off0 ≤ s.pt.pos.off → (∀ e ∈ es, e.size < P.size) →
      (s.pt.pos.off = off0 → bigK rank (firstSeq rn es) ≤ bigK rank (P.first rn)) →
      (parseSeq (setMemo E true) rec pt st es s acc).Sat
        (fun _ ok s' => MI E node rn s' ∧
          (ok = true → s.pt.pos.off ≤ s'.pt.pos.off ∧ (s'.pt.pos.off = s.pt.pos.off → nulAll rn es = true)) ∧
          (ok = false → s'.pt.pos.off = pt.pos.off) ∧ PG E node rn rank P off0 s s')
        (fun _ => True)
  | [], s, acc, hi, _, _, _, _ => by
    unfold parseSeq
    simp only [Outcome.Sat]
    exact ⟨hi, fun _ => ⟨Nat.le_refl _, fun _ => rfl⟩, (fun hb => by cases hb), Grow.of_eq rfl rfl⟩
  | e :: es, s, acc, hi, hes, h0, hsz, hK => by
    simp only [OkL] at hes
    unfold parseSeq
    apply Outcome.sat_bind (call_cnt h hrec e s rnm hi hes.1)
    intro v ok s1 hw
    obtain ⟨hi1, hadv, hfo, _⟩ := id hw
    have hlt : Lt3 (mu E rn rank e s.pt.pos.off) (mu E rn rank P off0) :=
      child_lt h0 hi.off_le (fun heq => Or.inr ⟨Nat.le_trans (bigK_mono (fun m hm => by
        simp only [firstSeq, List.mem_append]; exact Or.inl hm)) (hK heq), hsz e List.mem_cons_self⟩)
    have g1 := PG.of_call hw hlt
    cases ok with
    | false =>
      simp only [Bool.false_eq_true, if_false, Outcome.Sat]
      refine ⟨hi1.congr (by simp) (restore_pt_reach _ _ (by simpa using hi1.reach) hpt), (fun hb => by cases hb),
        (fun _ => by simp), g1.congr (by simp) (by simp)⟩
    | true =>
      simp only [if_true]
      obtain ⟨a1, a2⟩ := hadv rfl
      apply Outcome.sat_mono (seq_cnt hrec P off0 rnm pt hpt st es s1 _ hi1 hes.2 (Nat.le_trans h0 a1)
        (fun e' he' => hsz e' (List.mem_cons_of_mem _ he'))
        (fun heq => by
          have e1 : s1.pt.pos.off = s.pt.pos.off := by omega
          have e0 : s.pt.pos.off = off0 := by omega
          have hn := a2 e1
          refine Nat.le_trans (bigK_mono (fun m hm => ?_)) (hK e0)
          simp only [firstSeq, List.mem_append, hn, if_true]; exact Or.inr hm))
      · intro v' ok' s' ⟨hi', hadv', hfo', g2⟩
        refine ⟨hi', fun hok => ?_, hfo', g1.trans0 g2⟩
        obtain ⟨b1, b2⟩ := hadv' hok
        refine ⟨Nat.le_trans a1 b1, fun heq => ?_⟩
        have e1 : s1.pt.pos.off = s.pt.pos.off := by omega
        have e2 : s'.pt.pos.off = s1.pt.pos.off := by omega
        simp [nulAll, a2 e1, b2 e2]
      · intro _ _; trivial

theorem choice_cnt (hrec : RecC E own node rn rank rec) (P : Expr) (off0 : Nat) (rnm : String) (line col : Nat) :
    ∀ (alts : List Expr) (i : Nat) (s : PState), MI E node rn s → OkL own node (fun _ => true) rnm alts →
      off0 ≤ s.pt.pos.off → (∀ e ∈ alts, e.size < P.size) →
      (s.pt.pos.off = off0 → bigK rank (firstAny rn alts) ≤ bigK rank (P.first rn)) →
      (parseChoice (setMemo E true) rec line col alts i s).Sat
        (fun _ ok s' => MI E node rn s' ∧
          (ok = true → s.pt.pos.off ≤ s'.pt.pos.off ∧ (s'.pt.pos.off = s.pt.pos.off → nulAny rn alts = true)) ∧
          (ok = false → s'.pt.pos.off = s.pt.pos.off) ∧ PG E node rn rank P off0 s s')
        (fun _ => True)
  | [], i, s, hi, _, _, _, _ => by
    unfold parseChoice
    simp only [Outcome.Sat]
    exact ⟨hi.congr (by simp) (by simpa using hi.reach), (fun hb => by cases hb), (fun _ => by simp), Grow.of_eq (by simp) (by simp)⟩
  | a :: alts, i, s, hi, hes, h0, hsz, hK => by
    simp only [OkL] at hes
    unfold parseChoice
    simp only []
    have hip : MI E node rn (pushV s) := hi.congr rfl hi.reach
    apply Outcome.sat_bind (call_cnt h hrec a (pushV s) rnm hip hes.1)
    intro v ok s1 hw
    obtain ⟨hi1, hadv, hfo, _⟩ := id hw
    have hlt : Lt3 (mu E rn rank a (pushV s).pt.pos.off) (mu E rn rank P off0) :=
      child_lt h0 hi.off_le (fun heq => Or.inr ⟨Nat.le_trans (bigK_mono (fun m hm => by
        simp only [firstAny, List.mem_append]; exact Or.inl hm)) (hK heq), hsz a List.mem_cons_self⟩)
    have g1 : PG E node rn rank P off0 s s1 := (PG.of_call hw hlt).congr_left rfl rfl
    cases ok with
    | true =>
      simp only [if_true, Outcome.Sat]
      obtain ⟨a1, a2⟩ := hadv rfl
      refine ⟨hi1.congr (by simp) (by simpa using hi1.reach), fun _ => ⟨by simpa using a1, fun heq => ?_⟩,
        (fun hb => by cases hb), g1.congr (by simp) (by simp)⟩
      have := a2 (by simpa using heq)
      simp [nulAny, this]
    | false =>
      simp only [Bool.false_eq_true, if_false]
      have hoff : (restoreState (setMemo E true) (popV s1) s.state).pt.pos.off = s.pt.pos.off := by simpa using hfo rfl
      have hi2 : MI E node rn (restoreState (setMemo E true) (popV s1) s.state) :=
        hi1.congr (by simp) (by simpa using hi1.reach)
      apply Outcome.sat_mono (choice_cnt hrec P off0 rnm line col alts (i + 1) _ hi2 hes.2 (by rw [hoff]; exact h0)
        (fun e' he' => hsz e' (List.mem_cons_of_mem _ he'))
        (fun heq => by
          rw [hoff] at heq
          refine Nat.le_trans (bigK_mono (fun m hm => ?_)) (hK heq)
          simp only [firstAny, List.mem_append]; exact Or.inr hm))
      · intro v' ok' s' ⟨hi', hadv', hfo', g2⟩
        rw [hoff] at hadv' hfo'
        refine ⟨hi', fun hok => ?_, hfo', g1.trans0 (g2.congr_left (by simp) (by simp))⟩
        obtain ⟨b1, b2⟩ := hadv' hok
        exact ⟨b1, fun heq => by simp [nulAny, b2 heq]⟩
      · intro _ _; trivial


theorem loop_cnt (hrec : RecC E own node rn rank rec) (P : Expr) (off0 : Nat) (rnm : String) (e : Expr)
    (he : e.Ok own node (fun _ => true) rnm) (hK : bigK rank (e.first rn) ≤ bigK rank (P.first rn)) (hsz : e.size < P.size) :
    ∀ (k : Nat) (s : PState) (acc : List Val), MI E node rn s → off0 ≤ s.pt.pos.off →
      (parseLoop (setMemo E true) rec e k s acc).Sat
        (fun _ ok s' => MI E node rn s' ∧ s.pt.pos.off ≤ s'.pt.pos.off ∧
          (ok = true → acc = [] → s'.pt.pos.off = s.pt.pos.off → e.nul rn = true) ∧
          (ok = false → s'.pt.pos.off = s.pt.pos.off ∧ acc = []) ∧ PG E node rn rank P off0 s s')
        (fun _ => True)
  | 0, _, _, _, _ => by unfold parseLoop; trivial
  | k + 1, s, acc, hi, h0 => by
    unfold parseLoop
    simp only []
    have hip : MI E node rn (pushV s) := hi.congr rfl hi.reach
    apply Outcome.sat_bind (call_cnt h hrec e (pushV s) rnm hip he)
    intro v ok s1 hw
    obtain ⟨hi1, hadv, hfo, _⟩ := id hw
    have hlt : Lt3 (mu E rn rank e (pushV s).pt.pos.off) (mu E rn rank P off0) :=
      child_lt h0 hi.off_le (fun _ => Or.inr ⟨hK, hsz⟩)
    have g1 : PG E node rn rank P off0 s s1 := (PG.of_call hw hlt).congr_left rfl rfl
    cases ok with
    | true =>
      simp only [if_true]
      obtain ⟨a1, a2⟩ := hadv rfl
      have a1' : s.pt.pos.off ≤ s1.pt.pos.off := by simpa using a1
      apply Outcome.sat_mono (loop_cnt hrec P off0 rnm e he hK hsz k (popV s1) (v :: acc)
        (hi1.congr (by simp) (by simpa using hi1.reach)) (by simpa using Nat.le_trans h0 a1'))
      · intro v' ok' s' ⟨hi', b1, _, b3, g2⟩
        have b1' : s1.pt.pos.off ≤ s'.pt.pos.off := by simpa using b1
        refine ⟨hi', Nat.le_trans a1' b1', fun _ _ heq => a2 ?_, fun hb => ?_, g1.trans0 (g2.congr_left (by simp) (by simp))⟩
        · have : s1.pt.pos.off = s.pt.pos.off := by omega
          simpa using this
        · -- a loop that has matched once does not fail
          have := (b3 hb).2
          cases this
      · intro _ _; trivial
    | false =>
      simp only [Bool.false_eq_true, if_false]
      have hoff : s1.pt.pos.off = s.pt.pos.off := by simpa using hfo rfl
      have hi2 : MI E node rn (popV s1) := hi1.congr (by simp) (by simpa using hi1.reach)
      split
      · simp only [Outcome.Sat]
        rename_i hacc
        exact ⟨hi2, by simp [hoff], (fun hb => by cases hb), (fun _ => ⟨by simp [hoff], by simpa using hacc⟩), g1.congr (by simp) (by simp)⟩
      · rename_i hacc
        simp only [Outcome.Sat]
        refine ⟨hi2, by simp [hoff], (fun _ hnil => ?_), (fun hb => by cases hb), g1.congr (by simp) (by simp)⟩
        subst hnil; simp at hacc


/-- the un-memoized part of a rule invocation -/
theorem plainrule_cnt (hrec : RecC E own node rn rank rec) {name : String} {r : Rule} (hfr : E.findRule name = some r)
    (s : PState) (hi : MI E node rn s) :
    (parseRule (setMemo E true) rec r s).Sat
      (fun _ ok s' => MI E node rn s' ∧ Adv rn r.expr s ok s' ∧ (ok = false → s'.pt.pos.off = s.pt.pos.off) ∧
        Grow 0 s s' (fun k => Le3 (muKey E node rn rank k) (mu E rn rank r.expr s.pt.pos.off)))
      (fun _ => True) := by
  unfold parseRule
  simp only []
  have hip : MI E node rn (pushV { s with rstack := r :: s.rstack }) := hi.congr rfl hi.reach
  apply Outcome.sat_bind (call_cnt h hrec r.expr _ name hip (h.ok name r hfr))
  intro v ok s1 ⟨hi1, hadv, hfo, hg⟩
  simp only [Outcome.Sat]
  refine ⟨hi1.congr rfl (by simpa [popV] using hi1.reach), fun hok => ?_, fun hb => ?_, (hg.congr rfl rfl).congr_left rfl rfl⟩
  · obtain ⟨a1, a2⟩ := hadv hok
    exact ⟨by simpa [pushV, popV] using a1, fun heq => a2 (by simpa [pushV, popV] using heq)⟩
  · simpa [pushV, popV] using hfo hb

/-- a rule reference `P = name` evaluated at `s`: through the rule-level memo -/
theorem rule_cnt (hrec : RecC E own node rn rank rec) (P : Expr) {name : String} {r : Rule} (hfr : E.findRule name = some r)
    (hP : P.first rn = [name]) (s : PState) (hi : MI E node rn s) :
    (parseRuleMemoize (setMemo E true) rec r s).Sat
      (fun _ ok s' => MI E node rn s' ∧
        (ok = true → s.pt.pos.off ≤ s'.pt.pos.off ∧ (s'.pt.pos.off = s.pt.pos.off → rn name = true)) ∧
        (ok = false → s'.pt.pos.off = s.pt.pos.off) ∧ PG E node rn rank P s.pt.pos.off s s')
      (fun _ => True) := by
  have hname : r.name = name := findRule_name hfr
  unfold parseRuleMemoize
  cases hg : getMemoized s (.rule r.name) with
  | some res =>
    simp only [Outcome.Sat]
    have hfr' : Framed (setMemo E true) s res.b (restore s res.end) := Framed.hit hi.frame.1 hg
    have hent := hi.ents _ (getMemoized_mem hg)
    simp only [EntOK] at hent
    refine ⟨⟨hi.frame.of_framed hfr', by simpa using hi.ents, by simpa using hi.nodup, by simpa using hi.bounded⟩, fun hb => ?_, hfr'.failOff, Grow.of_eq (by simp) (by simp)⟩
    obtain ⟨a1, a2⟩ := hent hb
    rw [restore_off]
    exact ⟨a1, fun heq => by rw [← hname]; exact a2 heq⟩
  | none =>
    simp only []
    apply Outcome.sat_bind (plainrule_cnt h hrec hfr s hi)
    intro v ok s2 ⟨hi2, hadv, hfo, new, hm, hc, hp⟩
    simp only [Outcome.Sat]
    have hlt : Lt3 (mu E rn rank r.expr s.pt.pos.off) (mu E rn rank P s.pt.pos.off) := by
      refine child_lt (Nat.le_refl _) hi.off_le (fun _ => Or.inl ?_)
      have h1 : bigK rank (r.expr.first rn) ≤ rank name :=
        bigK_le_iff.mpr (fun m hm' => h.ranked name r hfr m hm')
      have h2 : bigK rank (P.first rn) = rank name + 1 := by rw [hP]; simp [bigK]
      omega
    refine ⟨⟨⟨MemoOK.set hi2.frame.1 (fun hb => hfo hb), by simpa using hi2.frame.2.1, ?_⟩, ?_, ?_,
      (by show ∀ k ∈ ekeys (((s.pt.pos.off, MemoKey.rule r.name), _) :: s2.memo), _
          rw [ekeys_cons_rule]; exact hi2.bounded)⟩, fun hb => ?_, fun hb => ?_, ?_⟩
    · intro ent hent
      simp only [setMemoized, List.mem_cons] at hent
      rcases hent with rfl | hent
      · exact hi2.frame.2.1
      · exact hi2.frame.2.2 ent hent
    · intro ent hent
      simp only [setMemoized, List.mem_cons] at hent
      rcases hent with rfl | hent
      · simp only [EntOK]
        intro hb
        obtain ⟨a1, a2⟩ := hadv hb
        exact ⟨a1, fun heq => by rw [hname]; exact h.closed name r hfr (a2 heq)⟩
      · exact hi2.ents ent hent
    · show (ekeys (((s.pt.pos.off, MemoKey.rule r.name), _) :: s2.memo)).Nodup
      rw [ekeys_cons_rule]; exact hi2.nodup
    · obtain ⟨a1, a2⟩ := hadv hb
      exact ⟨by simpa using a1, fun heq => h.closed name r hfr (a2 (by simpa using heq))⟩
    · simpa using hfo hb
    · refine ⟨((s.pt.pos.off, MemoKey.rule r.name), { v := v, b := ok, «end» := s2.pt }) :: new, by simp [setMemoized, hm], ?_, ?_⟩
      · rw [ekeys_cons_rule]; simp [hc]
      · intro k hk
        rw [ekeys_cons_rule] at hk
        exact (hp k hk).trans_lt hlt

omit h in
/-- a piece of the evaluation that does not touch the memo table or the counter -/
theorem of_quiet {P : Expr} {off0 : Nat} {s s' : PState} (hi : MI E node rn s) (h1 : s'.memo = s.memo)
    (h2 : s'.exprCnt = s.exprCnt) (h3 : Reach E.input s'.pt) :
    MI E node rn s' ∧ PG E node rn rank P off0 s s' :=
  ⟨hi.congr h1 h3, Grow.of_eq h1 h2⟩


omit h in
theorem runCodeBlock_quiet {E' : Env} (blk : Nat) (s : PState) (k : BlockResult → PState → Outcome)
    (Q : Val → Bool → PState → Prop)
    (hk : ∀ r s2, s2.pt = s.pt → s2.memo = s.memo → s2.exprCnt = s.exprCnt → (k r s2).Sat Q (fun _ => True)) :
    (runCodeBlock E' blk s k).Sat Q (fun _ => True) := by
  unfold runCodeBlock
  simp only []
  split
  · trivial
  · exact hk _ _ (by simp) (by simp) (by simp)

omit h in
theorem lit_quiet {E' : Env} (hE : E'.input = E.input) (start : Savepoint) (hst : Reach E.input start) (want : String) (ic : Bool) :
    ∀ (rs : List Rune) (s : PState), Reach E.input s.pt →
      (parseLit E' start want ic rs s).Sat
        (fun _ ok s' => s'.memo = s.memo ∧ s'.exprCnt = s.exprCnt ∧ Reach E.input s'.pt ∧
          (ok = false → s'.pt.pos.off = start.pos.off))
        (fun _ => True)
  | [], s, hr => by unfold parseLit; simp only [Outcome.Sat]; exact ⟨by simp, by simp, by simpa using hr, fun hb => by cases hb⟩
  | r :: rs, s, hr => by
    rw [parseLit]
    by_cases hc : (decide (litCur E' ic s ≠ r) || decide (s.pt.w = 0)) = true
    · rw [if_pos hc]
      simp only [Outcome.Sat]
      exact ⟨by simp, by simp, restore_pt_reach _ _ (by simpa using hr) hst, fun _ => by simp⟩
    · rw [if_neg hc]
      have hw : s.pt.w ≠ 0 := by intro h0; apply hc; simp [h0]
      have hr' : Reach E.input (read E' s).pt := by rw [read_pt, hE]; exact hr.next hw
      apply Outcome.sat_mono (lit_quiet hE start hst want ic rs (read E' s) hr')
      · intro v ok s' ⟨a, b, c, d⟩
        exact ⟨by rw [a]; simp, by rw [b]; simp, c, d⟩
      · intro _ _; trivial

theorem body_cnt (hrec : RecC E own node rn rank rec) (k : Nat) (e : Expr) (s : PState) (rnm : String)
    (hi : MI E node rn s) (he : e.Ok own node (fun _ => true) rnm) :
    (parseExprBody (setMemo E true) rec k e s).Sat
      (fun _ ok s' => MI E node rn s' ∧ Adv rn e s ok s' ∧ (ok = false → s'.pt.pos.off = s.pt.pos.off) ∧
        PG E node rn rank e s.pt.pos.off s s')
      (fun _ => True) := by
  have hreach := hi.reach
  have hip : MI E node rn (pushV s) := hi.congr rfl hi.reach
  have quiet : ∀ s' : PState, s'.memo = s.memo → s'.exprCnt = s.exprCnt → Reach E.input s'.pt →
      MI E node rn s' ∧ PG E node rn rank e s.pt.pos.off s s' := fun s' a b c => of_quiet hi a b c
  have same : ∀ (e1 : Expr), bigK rank (e1.first rn) ≤ bigK rank (e.first rn) → e1.size < e.size →
      Lt3 (mu E rn rank e1 s.pt.pos.off) (mu E rn rank e s.pt.pos.off) :=
    fun e1 a b => child_lt (Nat.le_refl _) hi.off_le (fun _ => Or.inr ⟨a, b⟩)
  have hmatch : ∀ (want : String), s.pt.w ≠ 0 →
      (matchOne (setMemo E true) s want).Sat (fun _ ok s' => ok = true ∧ MI E node rn s' ∧ (s.pt.pos.off < s'.pt.pos.off) ∧
        PG E node rn rank e s.pt.pos.off s s') (fun _ => True) := by
    intro want hw
    unfold matchOne
    simp only [Outcome.Sat]
    have hr : Reach E.input (failAt (read (setMemo E true) s) true s.pt.pos want).pt := by
      simp only [failAt.pt]; rw [read_pt]; exact hreach.next hw
    obtain ⟨a, b⟩ := quiet (failAt (read (setMemo E true) s) true s.pt.pos want) (by simp) (by simp) hr
    refine ⟨trivial, a, ?_, b⟩
    simp only [failAt.pt]; rw [read_pt]; simp; omega
  cases e with
  | recovery id e1 r1 labels => exact he.elim
  | throw id label => exact he.elim
  | andCode id blk =>
    simp only [parseExprBody, parseAndCode]
    apply runCodeBlock_quiet
    intro r s2 h1 h2 h3
    simp only [Outcome.Sat]
    obtain ⟨a, b⟩ := quiet (restoreState (setMemo E true) s2 s.state) (by simp [h2]) (by simp [h3]) (by simp [h1]; exact hreach)
    exact ⟨a, fun _ => ⟨by simp [h1], fun _ => rfl⟩, (fun _ => by simp [h1]), b⟩
  | notCode id blk =>
    simp only [parseExprBody, parseNotCode]
    apply runCodeBlock_quiet
    intro r s2 h1 h2 h3
    simp only [Outcome.Sat]
    obtain ⟨a, b⟩ := quiet (restoreState (setMemo E true) s2 s.state) (by simp [h2]) (by simp [h3]) (by simp [h1]; exact hreach)
    exact ⟨a, fun _ => ⟨by simp [h1], fun _ => rfl⟩, (fun _ => by simp [h1]), b⟩
  | stateCode id blk =>
    simp only [parseExprBody, parseStateCode]
    split
    · trivial
    · apply runCodeBlock_quiet
      intro r s2 h1 h2 h3
      simp only [Outcome.Sat]
      obtain ⟨a, b⟩ := quiet s2 h2 h3 (by rw [h1]; exact hreach)
      exact ⟨a, fun _ => ⟨by simp [h1], fun _ => rfl⟩, (fun _ => by simp [h1]), b⟩
  | any id =>
    simp only [parseExprBody, parseAny]
    split
    · simp only [Outcome.Sat]
      obtain ⟨a, b⟩ := quiet (failAt s false s.pt.pos ".") (by simp) (by simp) (by simpa using hreach)
      exact ⟨a, (fun hb => by cases hb), (fun _ => by simp), b⟩
    · rename_i hne
      have hw : s.pt.w ≠ 0 := fun h0 => hne (by simp [hreach.w0 h0, h0])
      apply Outcome.sat_mono (hmatch "." hw)
      · intro v ok s' ⟨hok, a, b, c⟩
        exact ⟨a, fun _ => ⟨by omega, fun heq => by omega⟩, (fun hb => by rw [hok] at hb; cases hb), c⟩
      · intro _ _; trivial
  | cls id c =>
    simp only [parseExprBody, parseCharClass]
    have hfail : (Outcome.done .nil false (failAt s false s.pt.pos c.val)).Sat
        (fun _ ok s' => MI E node rn s' ∧ Adv rn (.cls id c) s ok s' ∧ (ok = false → s'.pt.pos.off = s.pt.pos.off) ∧
          PG E node rn rank (.cls id c) s.pt.pos.off s s') (fun _ => True) := by
      simp only [Outcome.Sat]
      obtain ⟨a, b⟩ := quiet (failAt s false s.pt.pos c.val) (by simp) (by simp) (by simpa using hreach)
      exact ⟨a, (fun hb => by cases hb), (fun _ => by simp), b⟩
    have hm : s.pt.w ≠ 0 → (matchOne (setMemo E true) s c.val).Sat
        (fun _ ok s' => MI E node rn s' ∧ Adv rn (.cls id c) s ok s' ∧ (ok = false → s'.pt.pos.off = s.pt.pos.off) ∧
          PG E node rn rank (.cls id c) s.pt.pos.off s s') (fun _ => True) := by
      intro hw
      apply Outcome.sat_mono (hmatch c.val hw)
      · intro v ok s' ⟨hok, a, b, c'⟩
        exact ⟨a, fun _ => ⟨by omega, fun heq => by omega⟩, (fun hb => by rw [hok] at hb; cases hb), c'⟩
      · intro _ _; trivial
    split
    · rename_i hbl
      have hlt : s.pt.rn < 128 := by
        simp only [Bool.and_eq_true, decide_eq_true_eq] at hbl; exact hbl.2
      have hw : s.pt.w ≠ 0 := by
        intro h0; have := hreach.w0 h0; rw [this] at hlt; simp [runeError] at hlt
      split
      · exact hm hw
      · exact hfail
    · split
      · exact hfail
      · rename_i hne
        have hw : s.pt.w ≠ 0 := fun h0 => hne (by simp [hreach.w0 h0, h0])
        split
        · exact hm hw
        · exact hfail
  | lit id val ic want =>
    simp only [parseExprBody]
    have h1 := lit_quiet (E := E) (E' := setMemo E true) rfl s.pt hreach want ic val s hreach
    have h2 := lit_adv (E := setMemo E true) s.pt want ic val s
    revert h1 h2
    generalize parseLit (setMemo E true) s.pt want ic val s = o
    cases o with
    | oof => intros; trivial
    | panic p s' => intros; trivial
    | done v ok s' =>
      intro ⟨a, b, c, d⟩ h2
      simp only [Outcome.Sat] at h2 ⊢
      obtain ⟨m, g⟩ := quiet s' a b c
      refine ⟨m, fun hok => ?_, d, g⟩
      obtain ⟨x, y⟩ := h2.2 hok
      exact ⟨x, fun heq => by simp [Expr.nul, y heq]⟩
  | action id blk e1 =>
    simp only [Expr.Ok] at he
    simp only [parseExprBody, parseAction]
    apply Outcome.sat_bind (call_cnt h hrec e1 s rnm hi he.2)
    intro v ok s1 hw
    obtain ⟨hi1, hadv, hfo, _⟩ := (fun x => x) hw
    have g1 := PG.of_call hw (same e1 (by simp [Expr.first]) (by simp [Expr.size]))
    cases ok with
    | false =>
      simp only [Bool.false_eq_true, if_false, Outcome.Sat]
      exact ⟨hi1, (fun hb => by cases hb), (fun _ => hfo rfl), g1⟩
    | true =>
      simp only [if_true]
      split
      · trivial
      · simp only [Outcome.Sat]
        obtain ⟨a1, a2⟩ := hadv rfl
        refine ⟨hi1.congr (by simp) (by simpa using hi1.reach), fun _ => ⟨by simpa using a1, fun heq => a2 (by simpa using heq)⟩,
          (fun hb => by cases hb), g1.congr (by simp) (by simp)⟩
  | and id e1 =>
    simp only [Expr.Ok] at he
    simp only [parseExprBody, parseAnd]
    apply Outcome.sat_bind (call_cnt h hrec e1 (pushV s) rnm hip he.2)
    intro v ok s1 hw
    obtain ⟨hi1, _, _, _⟩ := (fun x => x) hw
    have g1 : PG E node rn rank (.and id e1) s.pt.pos.off s s1 :=
      (PG.of_call hw (same e1 (by simp [Expr.first]) (by simp [Expr.size]))).congr_left rfl rfl
    simp only [Outcome.Sat]
    have hoff : (restore (restoreState (setMemo E true) (popV s1) s.state) s.pt).pt.pos.off = s.pt.pos.off := by simp
    refine ⟨hi1.congr (by simp) (restore_pt_reach _ _ (by simpa using hi1.reach) hreach),
      fun _ => ⟨by omega, fun _ => rfl⟩, fun _ => hoff, g1.congr (by simp) (by simp)⟩
  | not id e1 =>
    simp only [Expr.Ok] at he
    simp only [parseExprBody, parseNot]
    have hip' : MI E node rn { pushV s with maxFailInvert := !s.maxFailInvert } := hi.congr rfl hi.reach
    apply Outcome.sat_bind (call_cnt h hrec e1 _ rnm hip' he.2)
    intro v ok s1 hw
    obtain ⟨hi1, _, _, _⟩ := (fun x => x) hw
    have g1 : PG E node rn rank (.not id e1) s.pt.pos.off s s1 :=
      (PG.of_call hw (same e1 (by simp [Expr.first]) (by simp [Expr.size]))).congr_left rfl rfl
    simp only [Outcome.Sat]
    have hoff : (restore (restoreState (setMemo E true) (popV { s1 with maxFailInvert := !s1.maxFailInvert }) s.state) s.pt).pt.pos.off = s.pt.pos.off := by simp
    refine ⟨hi1.congr (by simp [popV]) (restore_pt_reach _ _ (by simpa [popV] using hi1.reach) hreach),
      fun _ => ⟨by omega, fun _ => rfl⟩, fun _ => hoff, g1.congr (by simp [popV]) (by simp [popV])⟩
  | labeled id l e1 =>
    simp only [Expr.Ok] at he
    simp only [parseExprBody, parseLabeled]
    apply Outcome.sat_bind (call_cnt h hrec e1 (pushV s) rnm hip he.2)
    intro v ok s1 hw
    obtain ⟨hi1, hadv, hfo, _⟩ := (fun x => x) hw
    have g1 : PG E node rn rank (.labeled id l e1) s.pt.pos.off s s1 :=
      (PG.of_call hw (same e1 (by simp [Expr.first]) (by simp [Expr.size]))).congr_left rfl rfl
    simp only [Outcome.Sat]
    have hst : ∀ s2 : PState, s2 = (if (ok && decide (l ≠ "")) = true then setLabel (popV s1) l v else popV s1) →
        s2.pt = s1.pt ∧ s2.memo = s1.memo ∧ s2.exprCnt = s1.exprCnt := by
      intro s2 hs2; subst hs2; split <;> simp
    obtain ⟨p1, p2, p3⟩ := hst _ rfl
    refine ⟨hi1.congr p2 (by rw [p1]; exact hi1.reach), fun hok => ?_, fun hb => by rw [p1]; simpa using hfo hb, g1.congr p2 p3⟩
    obtain ⟨a1, a2⟩ := hadv hok
    rw [p1]
    exact ⟨by simpa using a1, fun heq => a2 (by simpa using heq)⟩
  | zeroOrOne id e1 =>
    simp only [Expr.Ok] at he
    simp only [parseExprBody, parseZeroOrOne]
    apply Outcome.sat_bind (call_cnt h hrec e1 (pushV s) rnm hip he.2)
    intro v ok s1 hw
    obtain ⟨hi1, hadv, hfo, _⟩ := (fun x => x) hw
    have g1 : PG E node rn rank (.zeroOrOne id e1) s.pt.pos.off s s1 :=
      (PG.of_call hw (same e1 (by simp [Expr.first]) (by simp [Expr.size]))).congr_left rfl rfl
    simp only [Outcome.Sat]
    refine ⟨hi1.congr (by simp) (by simpa using hi1.reach), fun _ => ⟨?_, fun _ => rfl⟩, (fun hb => by cases hb), g1.congr (by simp) (by simp)⟩
    cases ok with
    | true => simpa using (hadv rfl).1
    | false => have := hfo rfl; simp at this; simp [this]
  | choice id line col alts =>
    simp only [Expr.Ok] at he
    simp only [parseExprBody]
    apply Outcome.sat_mono (choice_cnt h hrec (.choice id line col alts) s.pt.pos.off rnm line col alts 0 s hi he.2 (Nat.le_refl _)
      (fun e' he' => by have := size_mem he'; simp [Expr.size]; omega) (fun _ => by simp [Expr.first]))
    · intro v ok s' ⟨a, b, c, d⟩
      exact ⟨a, fun hok => by obtain ⟨x, y⟩ := b hok; exact ⟨x, fun heq => by simp [Expr.nul, y heq]⟩, c, d⟩
    · intro _ _; trivial
  | seq id es =>
    simp only [Expr.Ok] at he
    simp only [parseExprBody]
    apply Outcome.sat_mono (seq_cnt h hrec (.seq id es) s.pt.pos.off rnm s.pt hreach s.state es s [] hi he.2 (Nat.le_refl _)
      (fun e' he' => by have := size_mem he'; simp [Expr.size]; omega) (fun _ => by simp [Expr.first]))
    · intro v ok s' ⟨a, b, c, d⟩
      exact ⟨a, fun hok => by obtain ⟨x, y⟩ := b hok; exact ⟨x, fun heq => by simp [Expr.nul, y heq]⟩, c, d⟩
    · intro _ _; trivial
  | oneOrMore id e1 =>
    simp only [Expr.Ok] at he
    simp only [parseExprBody]
    apply Outcome.sat_mono (loop_cnt h hrec (.oneOrMore id e1) s.pt.pos.off rnm e1 he.2 (by simp [Expr.first]) (by simp [Expr.size]) k s [] hi (Nat.le_refl _))
    · intro v ok s' ⟨a, b, c, d, g⟩
      exact ⟨a, fun hok => ⟨b, fun heq => by simp [Expr.nul, c hok rfl heq]⟩, fun hb => (d hb).1, g⟩
    · intro _ _; trivial
  | zeroOrMore id e1 =>
    simp only [Expr.Ok] at he
    simp only [parseExprBody, parseZeroOrMore]
    apply Outcome.sat_bind (loop_cnt h hrec (.zeroOrMore id e1) s.pt.pos.off rnm e1 he.2 (by simp [Expr.first]) (by simp [Expr.size]) k s [] hi (Nat.le_refl _))
    intro v ok s1 ⟨a, b, _, _, g⟩
    cases ok <;> simp only [Bool.false_eq_true, if_false, if_true, Outcome.Sat] <;>
      exact ⟨a, fun _ => ⟨b, fun _ => rfl⟩, (fun hb => by cases hb), g⟩
  | ruleRef id name =>
    simp only [parseExprBody, parseRuleRef]
    split
    · trivial
    · have hfind : (setMemo E true).findRule name = E.findRule name := rfl
      rw [hfind]
      cases hfr : E.findRule name with
      | none =>
        simp only [Outcome.Sat]
        obtain ⟨a, b⟩ := quiet (addErr (setMemo E true) s ("undefined rule: " ++ name)) (by simp) (by simp) (by simpa using hreach)
        exact ⟨a, (fun hb => by cases hb), (fun _ => by simp), b⟩
      | some r =>
        simp only []
        rw [ruleWrap_memo h.cfg]
        apply Outcome.sat_mono (rule_cnt h hrec (.ruleRef id name) hfr (by simp [Expr.first]) s hi)
        · intro v ok s' ⟨a, b, c, d⟩
          exact ⟨a, fun hok => by obtain ⟨x, y⟩ := b hok; exact ⟨x, fun heq => by simp [Expr.nul, y heq]⟩, c, d⟩
        · intro _ _; trivial


/-- **Counting.** Every evaluation adds its own key and keys of smaller measure, and counts exactly the keys it adds. -/
theorem parseExpr_cnt : ∀ f, RecC E own node rn rank (parseExpr (setMemo E true) f)
  | 0 => fun _ _ _ _ _ => trivial
  | f + 1 => by
    intro e s rnm hi he
    show (parseExprStep (setMemo E true) (parseExpr (setMemo E true) f) f e s).Sat _ _
    unfold parseExprStep
    have ho : overBudget (setMemo E true) (bump s) = false := by
      unfold overBudget; rw [show (setMemo E true).opts.maxExpr = E.opts.maxExpr from rfl, h.cfg.nobudget]
    rw [ho]
    simp only [Bool.false_eq_true, if_false]
    have hib : MI E node rn (bump s) := hi.congr rfl hi.reach
    apply Outcome.sat_mono (body_cnt h (parseExpr_cnt f) f e (bump s) rnm hib he)
    · intro v ok s' ⟨a, b, c, new, hm, hc, hp⟩
      exact ⟨a, b, c, new, hm, by rw [hc]; simp [bump], hp⟩
    · intro _ _; trivial

end core

/-! ### the bound -/

theorem nodup_length_le {α : Type} [DecidableEq α] : ∀ (l u : List α), l.Nodup → (∀ x ∈ l, x ∈ u) → l.length ≤ u.length
  | [], _, _, _ => Nat.zero_le _
  | x :: l, u, hn, hs => by
    rw [List.nodup_cons] at hn
    have hx : x ∈ u := hs x List.mem_cons_self
    have := nodup_length_le l (u.erase x) hn.2 (fun y hy => by
      have hne : y ≠ x := fun e => hn.1 (e ▸ hy)
      exact (List.mem_erase_of_ne hne).mpr (hs y (List.mem_cons_of_mem _ hy)))
    rw [List.length_erase_of_mem hx] at this
    have hpos : 0 < u.length := List.length_pos_of_mem hx
    simp only [List.length_cons]
    omega

/-- all pairs (offset ≤ n, identifier in `ids`) -/
def keyUniverse (n : Nat) (ids : List Nat) : List (Nat × Nat) :=
  (List.range (n + 1)).flatMap (fun o => ids.map (fun i => (o, i)))

theorem keyUniverse_length (n : Nat) (ids : List Nat) : (keyUniverse n ids).length = (n + 1) * ids.length := by
  unfold keyUniverse
  induction n with
  | zero => simp
  | succ n ih =>
    rw [List.range_succ, List.flatMap_append, List.length_append, ih]
    simp only [List.flatMap_cons, List.flatMap_nil, List.append_nil, List.length_map]
    rw [Nat.add_mul (n + 1) 1, Nat.one_mul]

theorem mem_keyUniverse {n : Nat} {ids : List Nat} {k : Nat × Nat} (h1 : k.1 ≤ n) (h2 : k.2 ∈ ids) : k ∈ keyUniverse n ids := by
  unfold keyUniverse
  simp only [List.mem_flatMap, List.mem_range, List.mem_map]
  exact ⟨k.1, by omega, k.2, h2, rfl⟩

section bound
variable {E : Env} {own : Nat → Option String} {node : Nat → Option Expr} {rn : String → Bool} {rank : String → Nat}

/-- **The packrat bound** for the start rule: a memoized parse that returns has evaluated at most
    (number of expression nodes) × (input length + 1) expressions. `ids` lists the node identifiers of the grammar. -/
theorem packrat_bound (h : CountHyp E own node rn rank) (ids : List Nat) (hids : ∀ id e, node id = some e → id ∈ ids)
    (f : Nat) {n : String} {r : Rule} (hfr : E.findRule n = some r) (v : Val) (ok : Bool) (s' : PState)
    (hres : parseRuleWrap (setMemo E true) (parseExpr (setMemo E true) f) f r (startState (setMemo E true)) = .done v ok s') :
    s'.exprCnt ≤ ids.length * (E.input.length + 1) := by
  have hstart : MI E node rn (startState (setMemo E true)) := by
    have hm : (startState (setMemo E true)).memo = [] := by
      show (read (setMemo E true) (initState (setMemo E true))).memo = []
      simp [initState]
    refine ⟨start_inv (setMemo E true), ?_, ?_, ?_⟩
    · intro ent hent; rw [hm] at hent; cases hent
    · rw [hm]; simp [ekeys]
    · intro k hk; rw [hm] at hk; simp [ekeys] at hk
  have hc0 : (startState (setMemo E true)).exprCnt = 0 := by
    show ({ read (setMemo E true) (initState (setMemo E true)) with maxFailPos := _ } : PState).exprCnt = 0
    simp [initState]
  have hm0 : (startState (setMemo E true)).memo = [] := by
    show (read (setMemo E true) (initState (setMemo E true))).memo = []
    simp [initState]
  rw [ruleWrap_memo h.cfg] at hres
  have := rule_cnt h (parseExpr_cnt h f) (.ruleRef 0 n) hfr (by simp [Expr.first]) _ hstart
  rw [hres] at this
  obtain ⟨hi, _, _, new, hm, hc, _⟩ := this
  rw [hm0, List.append_nil] at hm
  rw [hc0] at hc
  have hlen : s'.exprCnt = (ekeys s'.memo).length := by rw [hc, hm]; omega
  rw [hlen]
  have := nodup_length_le (ekeys s'.memo) (keyUniverse E.input.length ids) hi.nodup (fun k hk => by
    obtain ⟨b1, b2⟩ := hi.bounded k hk
    cases hn : node k.2 with
    | none => rw [hn] at b2; cases b2
    | some e => exact mem_keyUniverse b1 (hids k.2 e hn))
  rw [keyUniverse_length] at this
  rw [Nat.mul_comm]; exact this

end bound

end RT
end PV
