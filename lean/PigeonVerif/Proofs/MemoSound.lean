/-
  Soundness of the memo table (packrat correctness) for the runtime model.

  Configuration (`MemoCfg`): the standard template without left-recursion support, no expression budget.
  Grammars (`Expr.Ok`, `PureCode`): node identifiers are unique and name their rule, no throw/recover, code blocks
  are pure functions of text and pos and take no labels (with labels the statement is FALSE: finding D7).

  `sim`: a run with Memoize(true) and a run with Memoize(false), started in related states, end — whenever both end —
  with the same value, the same success flag, at the same position, with the same code-block errors up to
  repetitions of an error already reported (`ErrEq`: equal after `dedupe`, which is what `parse` returns).

  The proof: `Sim2` (two runs side by side) is instantiated twice.
    * `loc` (both runs un-memoized): what an evaluation returns, where it ends and which errors it appends depend only
      on the position and the innermost rule of the state it starts in.
    * `sim` (memoized / un-memoized) with the invariant `MV`: every entry of the memo table is what the un-memoized
      parser computes for that expression (or rule) at that offset, from any state, and the errors it would append
      are already in the error list. On a miss the new entry is valid by `loc` and fuel monotonicity; on a hit the
      un-memoized run re-evaluates and, by validity, arrives where the entry says.
-/
import PigeonVerif.Proofs.Sim2

namespace PV

/-! ### `dedupe` -/

theorem mem_dedupeAux (x : String) : ∀ (l seen : List String), x ∈ dedupeAux seen l ↔ x ∈ l ∧ x ∉ seen
  | [], seen => by simp [dedupeAux]
  | m :: rest, seen => by
    unfold dedupeAux
    by_cases hc : seen.contains m = true
    · rw [if_pos hc, mem_dedupeAux x rest seen]
      have hm : m ∈ seen := by simpa using hc
      constructor
      · intro h; exact ⟨List.mem_cons_of_mem _ h.1, h.2⟩
      · intro h
        refine ⟨?_, h.2⟩
        rcases List.mem_cons.mp h.1 with rfl | h1
        · exact absurd hm h.2
        · exact h1
    · rw [if_neg hc, List.mem_cons, mem_dedupeAux x rest (m :: seen)]
      have hm : m ∉ seen := by simpa using hc
      constructor
      · rintro (rfl | h)
        · exact ⟨List.mem_cons_self, hm⟩
        · exact ⟨List.mem_cons_of_mem _ h.1, fun hs => h.2 (List.mem_cons_of_mem _ hs)⟩
      · intro h
        by_cases hx : x = m
        · exact Or.inl hx
        · right
          rcases List.mem_cons.mp h.1 with rfl | h1
          · exact absurd rfl hx
          · exact ⟨h1, fun hs => by rcases List.mem_cons.mp hs with rfl | hs; exact hx rfl; exact h.2 hs⟩

theorem dedupeAux_snoc (m : String) : ∀ (l seen : List String),
    dedupeAux seen (l ++ [m]) = dedupeAux seen l ++ (if m ∈ seen ∨ m ∈ l then [] else [m])
  | [], seen => by
    simp only [List.nil_append, dedupeAux, List.not_mem_nil, or_false]
    by_cases hc : seen.contains m = true
    · have hm : m ∈ seen := by simpa using hc
      rw [if_pos hc, if_pos hm]
    · have hm : m ∉ seen := by simpa using hc
      rw [if_neg hc, if_neg hm]
  | y :: ys, seen => by
    simp only [List.cons_append]
    unfold dedupeAux
    by_cases hc : seen.contains y = true
    · rw [if_pos hc, if_pos hc, dedupeAux_snoc m ys seen]
      have hy : y ∈ seen := by simpa using hc
      have : (m ∈ seen ∨ m ∈ y :: ys) ↔ (m ∈ seen ∨ m ∈ ys) := by
        constructor
        · rintro (h | h)
          · exact Or.inl h
          · rcases List.mem_cons.mp h with rfl | h
            · exact Or.inl hy
            · exact Or.inr h
        · rintro (h | h)
          · exact Or.inl h
          · exact Or.inr (List.mem_cons_of_mem _ h)
      simp only [this]
    · rw [if_neg hc, if_neg hc, dedupeAux_snoc m ys (y :: seen)]
      have : (m ∈ y :: seen ∨ m ∈ ys) ↔ (m ∈ seen ∨ m ∈ y :: ys) := by
        simp only [List.mem_cons]
        constructor
        · rintro ((h | h) | h)
          · exact Or.inr (Or.inl h)
          · exact Or.inl h
          · exact Or.inr (Or.inr h)
        · rintro (h | h | h)
          · exact Or.inl (Or.inr h)
          · exact Or.inl (Or.inl h)
          · exact Or.inr h
      simp only [this, List.cons_append]

/-- the two error lists are reported as the same list (`parse` returns `dedupe errs`) -/
def ErrEq (a b : List String) : Prop := dedupe a = dedupe b

theorem ErrEq.refl (a : List String) : ErrEq a a := rfl

theorem mem_dedupe (x : String) (l : List String) : x ∈ dedupe l ↔ x ∈ l := by
  unfold dedupe; rw [mem_dedupeAux]; simp

theorem ErrEq.mem {a b : List String} (h : ErrEq a b) (x : String) : x ∈ a ↔ x ∈ b := by
  rw [← mem_dedupe x a, ← mem_dedupe x b, h]

theorem dedupe_snoc (l : List String) (m : String) : dedupe (l ++ [m]) = dedupe l ++ (if m ∈ l then [] else [m]) := by
  unfold dedupe; rw [dedupeAux_snoc]; simp

theorem ErrEq.snoc {a b : List String} (h : ErrEq a b) (m : String) : ErrEq (a ++ [m]) (b ++ [m]) := by
  unfold ErrEq
  rw [dedupe_snoc, dedupe_snoc, h]
  by_cases hm : m ∈ a
  · rw [if_pos hm, if_pos ((h.mem m).mp hm)]
  · rw [if_neg hm, if_neg (fun hb => hm ((h.mem m).mpr hb))]

theorem ErrEq.absorb {a : List String} : ∀ (A b : List String), ErrEq a b → (∀ x ∈ A, x ∈ b) → ErrEq a (b ++ A)
  | [], b, h, _ => by simpa using h
  | x :: A, b, h, hA => by
    have hx : x ∈ b := hA x List.mem_cons_self
    have h1 : ErrEq a (b ++ [x]) := by
      unfold ErrEq; rw [dedupe_snoc, if_pos hx, List.append_nil]; exact h
    have := ErrEq.absorb A (b ++ [x]) h1 (fun y hy => List.mem_append_left _ (hA y (List.mem_cons_of_mem _ hy)))
    simpa using this

theorem ErrEq.isEmpty {a b : List String} (h : ErrEq a b) : a.isEmpty = b.isEmpty := by
  cases a with
  | nil =>
    cases b with
    | nil => rfl
    | cons y ys => exact absurd ((h.mem y).mpr List.mem_cons_self) (by simp)
  | cons x xs =>
    cases b with
    | nil => exact absurd ((h.mem x).mp List.mem_cons_self) (by simp)
    | cons y ys => rfl

namespace RT

/-! ### locality of the un-memoized parser -/

/-- same position, same innermost rule; the error lists are `e1`, `e2` followed by the same errors -/
def LRel (E : Env) (e1 e2 : List String) : SRel E where
  rel a b := a.pt = b.pt ∧ a.rstack.head? = b.rstack.head? ∧ Reach E.input a.pt ∧
    ∃ A, a.errs = e1 ++ A ∧ b.errs = e2 ++ A
  pt h := h.1
  hd h := h.2.1
  reach h := h.2.2.1
  junk := by
    intro a b a' b' h h1 h2 h3 _ h5 h6 h7
    rw [h1, h2, h3, h5, h6, h7]; exact h
  setPt := by
    intro a b p h hp
    exact ⟨rfl, h.2.1, hp, h.2.2.2⟩
  setRs := by
    intro a b l1 l2 h hl
    exact ⟨h.1, hl, h.2.2.1, h.2.2.2⟩
  addErr := by
    intro a b m h
    obtain ⟨A, h1, h2⟩ := h.2.2.2
    exact ⟨h.1, h.2.1, h.2.2.1, A ++ [m], by simp [h1], by simp [h2]⟩

theorem ORel.cases {E : Env} {R : SRel E} {s1 s2 : PState} {o1 o2 : Outcome} (h : ORel R s1 s2 o1 o2) :
    o2 = .oof ∨
    (∃ v ok a b, o1 = .done v ok a ∧ o2 = .done v ok b ∧ R.rel a b ∧ a.rstack = s1.rstack ∧ b.rstack = s2.rstack) ∨
    (∃ p a b, o1 = .panic p a ∧ o2 = .panic p b ∧ R.rel a b) := by
  rcases h with h | h
  · exact Or.inl h
  · cases o1 with
    | oof => cases o2 <;> first | exact Or.inl rfl | exact h.elim
    | panic p a =>
      cases o2 with
      | oof => exact Or.inl rfl
      | panic p' b => obtain ⟨rfl, hr⟩ := h; exact Or.inr (Or.inr ⟨p, a, b, rfl, rfl, hr⟩)
      | done v' ok' b => exact h.elim
    | done v ok a =>
      cases o2 with
      | oof => exact Or.inl rfl
      | panic p' b => exact h.elim
      | done v' ok' b =>
        obtain ⟨rfl, rfl, hr, h1, h2⟩ := h
        exact Or.inr (Or.inl ⟨v, ok, a, b, rfl, rfl, hr, h1, h2⟩)

theorem LRel_iff {E : Env} {e1 e2 : List String} {a b : PState} :
    (LRel E e1 e2).rel a b ↔ (a.pt = b.pt ∧ a.rstack.head? = b.rstack.head? ∧ Reach E.input a.pt ∧
      ∃ A, a.errs = e1 ++ A ∧ b.errs = e2 ++ A) := Iff.rfl

section
variable {E : Env} {own : Nat → Option String} {node : Nat → Option Expr} {isPred : Nat → Bool}

theorem ruleWrap_nomemo (hc : MemoCfg E) (rec : Expr → PState → Outcome) (k : Nat) (r : Rule) (s : PState) :
    parseRuleWrap (setMemo E false) rec k r s = parseRule (setMemo E false) rec r s := by
  unfold parseRuleWrap
  simp [setMemo, hc.noopt, hc.nolr]

theorem ruleWrap_memo (hc : MemoCfg E) (rec : Expr → PState → Outcome) (k : Nat) (r : Rule) (s : PState) :
    parseRuleWrap (setMemo E true) rec k r s = parseRuleMemoize (setMemo E true) rec r s := by
  unfold parseRuleWrap
  simp [setMemo, hc.noopt, hc.nolr]

theorem wrap_nomemo (rec : Expr → PState → Outcome) (e : Expr) (s : PState) :
    parseExprWrap (setMemo E false) rec e s = rec e s := wrap_eq (E := setMemo E false) rfl e s

variable (hc : MemoCfg E) (hp : PureCode E isPred)
  (hG : ∀ n r, E.findRule n = some r → r.expr.Ok own node isPred n)
include hc hp hG

/-- **Locality.** Two un-memoized evaluations of the same expression from states with the same position and the
    same innermost rule return the same value and success flag, end at the same position and append the same errors. -/
theorem loc (e1 e2 : List String) : ∀ f,
    WrapRel (LRel E e1 e2) own node isPred (parseExpr (setMemo E false) f) (parseExpr (setMemo E false) f)
  | 0 => fun _ _ _ _ _ _ _ _ _ => Or.inl rfl
  | f + 1 => by
    intro e a b rn r h he hf hh
    show ORel _ a b (parseExprStep (setMemo E false) (parseExpr (setMemo E false) f) f e a)
      (parseExprStep (setMemo E false) (parseExpr (setMemo E false) f) f e b)
    have hw : WrapRel (LRel E e1 e2) own node isPred (parseExprWrap (setMemo E false) (parseExpr (setMemo E false) f))
        (parseExprWrap (setMemo E false) (parseExpr (setMemo E false) f)) := by
      intro e a b rn r h he hf hh
      rw [wrap_nomemo, wrap_nomemo]
      exact loc e1 e2 f e a b rn r h he hf hh
    have hrw : RuleRel (LRel E e1 e2) (parseRuleWrap (setMemo E false) (parseExpr (setMemo E false) f) f)
        (parseRuleWrap (setMemo E false) (parseExpr (setMemo E false) f) f) := by
      intro n r a b h hfr
      rw [ruleWrap_nomemo hc, ruleWrap_nomemo hc]
      exact rule_rel hw hG n r a b h hfr
    exact step_rel hc hp hw f f (Nat.le_refl f) hrw hf e a b he h hh

/-- locality for a whole rule invocation (the callers may differ: the rule pushes itself) -/
theorem loc_rule (f : Nat) {n : String} {r : Rule} (hfr : E.findRule n = some r) (t1 t2 : PState)
    (hpt : t1.pt = t2.pt) (hr : Reach E.input t1.pt) :
    parseRule (setMemo E false) (parseExpr (setMemo E false) f) r t2 = .oof ∨
    (∃ v ok a b, parseRule (setMemo E false) (parseExpr (setMemo E false) f) r t1 = .done v ok a ∧
      parseRule (setMemo E false) (parseExpr (setMemo E false) f) r t2 = .done v ok b ∧
      a.pt = b.pt ∧ a.rstack = t1.rstack ∧ b.rstack = t2.rstack ∧ Reach E.input a.pt ∧
      ∃ A, a.errs = t1.errs ++ A ∧ b.errs = t2.errs ++ A) ∨
    (∃ p a b, parseRule (setMemo E false) (parseExpr (setMemo E false) f) r t1 = .panic p a ∧
      parseRule (setMemo E false) (parseExpr (setMemo E false) f) r t2 = .panic p b) := by
  unfold parseRule
  simp only []
  rw [wrap_nomemo, wrap_nomemo]
  have hl := loc hc hp hG t1.errs t2.errs f r.expr (pushV { t1 with rstack := r :: t1.rstack })
    (pushV { t2 with rstack := r :: t2.rstack }) n r
    (LRel_iff.mpr ⟨hpt, by simp [pushV], hr, [], by simp [pushV], by simp [pushV]⟩) (hG n r hfr) hfr (by simp [pushV])
  rcases hl.cases with hl | ⟨v, ok, a, b, h1, h2, hrel, ha, hb⟩ | ⟨p, a, b, h1, h2, _⟩
  · rw [hl]; exact Or.inl rfl
  · rw [h1, h2]
    obtain ⟨l1, _, l3, A, hA1, hA2⟩ := LRel_iff.mp hrel
    simp only [Outcome.bind]
    refine Or.inr (Or.inl ⟨v, ok, _, _, rfl, rfl, ?_, ?_, ?_, ?_, A, ?_, ?_⟩)
    · simpa using l1
    · simp [ha, pushV]
    · simp [hb, pushV]
    · simpa using l3
    · simpa using hA1
    · simpa using hA2
  · rw [h1, h2]
    exact Or.inr (Or.inr ⟨p, _, _, rfl, rfl⟩)

end

/-! ### validity of the memo table -/

section valid
variable (E : Env) (own : Nat → Option String) (node : Nat → Option Expr)

/-- what the un-memoized parser does where the memoized one answers `res` from the table -/
def NOut (errs : List String) (res : MemoVal) (t : PState) (o : Outcome) : Prop :=
  o = .oof ∨ ∃ t', o = .done res.v res.b t' ∧ t'.pt = res.end ∧ t'.rstack = t.rstack ∧ Reach E.input t'.pt ∧
    ∃ A, t'.errs = t.errs ++ A ∧ ∀ x ∈ A, x ∈ errs

/-- a memo entry is what the un-memoized parser computes, from any state at that offset (in that rule) and at any
    depth, and the errors that evaluation appends are all in `errs` already -/
def Valid (errs : List String) (ent : (Nat × MemoKey) × MemoVal) : Prop :=
  match ent.1.2 with
  | .expr id => ∀ e rn r, node id = some e → own id = some rn → E.findRule rn = some r →
      ∀ f t, Reach E.input t.pt → t.pt.pos.off = ent.1.1 → t.rstack.head? = some r →
        NOut E errs ent.2 t (parseExpr (setMemo E false) f e t)
  | .rule name => ∀ r, E.findRule name = some r →
      ∀ f t, Reach E.input t.pt → t.pt.pos.off = ent.1.1 →
        NOut E errs ent.2 t (parseRule (setMemo E false) (parseExpr (setMemo E false) f) r t)

def MV (s : PState) : Prop := ∀ ent ∈ s.memo, Valid E own node s.errs ent

variable {E own node}

theorem NOut.mono {errs errs' : List String} {res : MemoVal} {t : PState} {o : Outcome}
    (h : NOut E errs res t o) (hs : ∀ x ∈ errs, x ∈ errs') : NOut E errs' res t o := by
  rcases h with h | ⟨t', h1, h2, h3, h4, A, h5, h6⟩
  · exact Or.inl h
  · exact Or.inr ⟨t', h1, h2, h3, h4, A, h5, fun x hx => hs x (h6 x hx)⟩

theorem Valid.mono {errs errs' : List String} {ent : (Nat × MemoKey) × MemoVal}
    (h : Valid E own node errs ent) (hs : ∀ x ∈ errs, x ∈ errs') : Valid E own node errs' ent := by
  unfold Valid at h ⊢
  split
  · rename_i id hk
    rw [hk] at h
    intro e rn r h1 h2 h3 f t h4 h5 h6
    exact (h e rn r h1 h2 h3 f t h4 h5 h6).mono hs
  · rename_i name hk
    rw [hk] at h
    intro r h1 f t h4 h5
    exact (h r h1 f t h4 h5).mono hs

theorem MV.congr {s s' : PState} (h : MV E own node s) (h1 : s'.memo = s.memo) (h2 : s'.errs = s.errs) : MV E own node s' := by
  unfold MV at h ⊢; rw [h1, h2]; exact h

end valid

/-- memoized run on the left, un-memoized run on the right -/
def MRel (E : Env) (own : Nat → Option String) (node : Nat → Option Expr) : SRel E where
  rel a b := a.pt = b.pt ∧ a.rstack.head? = b.rstack.head? ∧ Reach E.input a.pt ∧ ErrEq a.errs b.errs ∧ MV E own node a
  pt h := h.1
  hd h := h.2.1
  reach h := h.2.2.1
  junk := by
    intro a b a' b' h h1 h2 h3 h4 h5 h6 h7
    refine ⟨by rw [h1, h5]; exact h.1, by rw [h2, h6]; exact h.2.1, by rw [h1]; exact h.2.2.1,
      by rw [h3, h7]; exact h.2.2.2.1, h.2.2.2.2.congr h4 h3⟩
  setPt := by
    intro a b p h hp
    exact ⟨rfl, h.2.1, hp, h.2.2.2.1, h.2.2.2.2⟩
  setRs := by
    intro a b l1 l2 h hl
    exact ⟨h.1, hl, h.2.2.1, h.2.2.2.1, h.2.2.2.2⟩
  addErr := by
    intro a b m h
    refine ⟨h.1, h.2.1, h.2.2.1, h.2.2.2.1.snoc m, ?_⟩
    intro ent hent
    exact (h.2.2.2.2 ent hent).mono (fun x hx => List.mem_append_left _ hx)


theorem MRel_iff {E : Env} {own : Nat → Option String} {node : Nat → Option Expr} {a b : PState} :
    (MRel E own node).rel a b ↔ (a.pt = b.pt ∧ a.rstack.head? = b.rstack.head? ∧ Reach E.input a.pt ∧
      ErrEq a.errs b.errs ∧ MV E own node a) := Iff.rfl

theorem findRule_name {E : Env} {n : String} {r : Rule} (h : E.findRule n = some r) : r.name = n := by
  unfold Env.findRule at h
  have := List.find?_some h
  simpa using this

/-! ### the simulation -/

section sim
variable {E : Env} {own : Nat → Option String} {node : Nat → Option Expr} {isPred : Nat → Bool}

theorem wrapM_eq (hc : MemoCfg E) (recM : Expr → PState → Outcome) (e : Expr) (a : PState) :
    parseExprWrap (setMemo E true) recM e a =
      match getMemoized a (.expr e.id) with
      | some res => .done res.v res.b (restore (hit a) res.end)
      | none => (recM e a).bind fun v ok s1 =>
          .done v ok (setMemoized s1 a.pt (.expr e.id) { v := v, b := ok, «end» := s1.pt }) := by
  unfold parseExprWrap
  simp [setMemo, hc.noopt, hc.nolr, topIsLR, hitsOverBudget, hc.nobudget]
  cases getMemoized a (.expr e.id) <;> rfl

variable (hc : MemoCfg E) (hp : PureCode E isPred)
  (hG : ∀ n r, E.findRule n = some r → r.expr.Ok own node isPred n)
include hc hp hG

omit hc hp hG in
/-- a hit: the un-memoized run re-evaluates and, the entry being valid, arrives where the entry says -/
theorem hit_sim {a b t' : PState} {res : MemoVal} {A : List String} (h : (MRel E own node).rel a b)
    (hpt' : t'.pt = res.end) (hrs : t'.rstack = b.rstack) (hreach' : Reach E.input t'.pt)
    (hA : t'.errs = b.errs ++ A) (hsub : ∀ x ∈ A, x ∈ a.errs) (a1 : PState) (ha1 : a1.pt = a.pt)
    (hr1 : a1.rstack = a.rstack) (he1 : a1.errs = a.errs) (hm1 : a1.memo = a.memo) :
    ORel (MRel E own node) a b (.done res.v res.b (restore a1 res.end)) (.done res.v res.b t') := by
  obtain ⟨h1, h2, h3, h4, h5⟩ := MRel_iff.mp h
  have hend : Reach E.input res.end := hpt' ▸ hreach'
  have hpt : (restore a1 res.end).pt = res.end := restore_pt (E := E) a1 res.end (by rw [ha1]; exact h3) hend
  refine ORel.done _ _ (MRel_iff.mpr ⟨hpt.trans hpt'.symm, ?_, by rw [hpt]; exact hend, ?_, ?_⟩) (by simp [hr1]) hrs
  · rw [show (restore a1 res.end).rstack = a.rstack by simp [hr1], hrs]; exact h2
  · rw [show (restore a1 res.end).errs = a.errs by simp [he1], hA]
    exact h4.absorb A b.errs (fun x hx => (h4.mem x).mp (hsub x hx))
  · exact h5.congr (by simp [hm1]) (by simp [he1])

theorem wrap_sim {recM : Expr → PState → Outcome} (f : Nat)
    (hrec : WrapRel (MRel E own node) own node isPred recM (parseExpr (setMemo E false) f)) :
    WrapRel (MRel E own node) own node isPred (parseExprWrap (setMemo E true) recM)
      (parseExprWrap (setMemo E false) (parseExpr (setMemo E false) f)) := by
  intro e a b rn r h he hf hh
  rw [wrap_nomemo, wrapM_eq hc]
  obtain ⟨hown, hnode⟩ := he.keyed
  obtain ⟨h1, h2, h3, h4, h5⟩ := MRel_iff.mp h
  have hbr : Reach E.input b.pt := by rw [← h1]; exact h3
  have hbh : b.rstack.head? = some r := by rw [← h2]; exact hh
  cases hg : getMemoized a (.expr e.id) with
  | some res =>
    simp only []
    have hv := h5 _ (getMemoized_mem hg)
    simp only [Valid] at hv
    rcases hv e rn r hnode hown hf f b hbr (by rw [← h1]) hbh with ho | ⟨t', ho, hpt', hrs, hreach', A, hA, hsub⟩
    · exact Or.inl ho
    · rw [ho]
      exact hit_sim h hpt' hrs hreach' hA hsub (hit a) (by simp) (by simp) (by simp) (by simp)
  | none =>
    simp only []
    rcases (hrec e a b rn r h he hf hh).cases with h0 | ⟨v, ok, a', b', hM, hN, hr, ha, hb⟩ | ⟨p, a', b', hM, hN, hr⟩
    · exact Or.inl h0
    · rw [hM, hN]
      obtain ⟨r1, r2, r3, r4, r5⟩ := MRel_iff.mp hr
      simp only [Outcome.bind]
      refine ORel.done _ _ (MRel_iff.mpr ⟨r1, r2, r3, r4, ?_⟩) ha hb
      intro ent hent
      simp only [setMemoized, List.mem_cons] at hent
      rcases hent with rfl | hent
      · simp only [Valid]
        intro e' rn' r' hn' ho' hf' f' t hrt hoff hhd
        have e1 : e' = e := by rw [hnode] at hn'; exact (Option.some.inj hn').symm
        have e2 : rn' = rn := by rw [hown] at ho'; exact (Option.some.inj ho').symm
        have e3 : r' = r := by rw [e2, hf] at hf'; exact (Option.some.inj hf').symm
        rw [e1]; rw [e3] at hhd
        by_cases hoof : parseExpr (setMemo E false) f' e t = .oof
        · exact Or.inl hoof
        · have m1 : parseExpr (setMemo E false) (max f f') e b = .done v ok b' := by
            rw [parseExpr_mono (setMemo E false) (Nat.le_max_left f f') e b (by rw [hN]; simp), hN]
          have m2 : parseExpr (setMemo E false) (max f f') e t = parseExpr (setMemo E false) f' e t :=
            parseExpr_mono (setMemo E false) (Nat.le_max_right f f') e t hoof
          have hbt : b.pt = t.pt := Reach.unique hbr hrt (by rw [hoff, h1])
          have hl := loc hc hp hG b.errs t.errs (max f f') e b t rn r
            (LRel_iff.mpr ⟨hbt, by rw [hbh, hhd], hbr, [], by simp, by simp⟩) he hf hbh
          rw [m1, m2] at hl
          rcases hl.cases with hl | ⟨v2, ok2, b2, t', hl1, hl2, hlr, _, htr⟩ | ⟨p, b2, t', hl1, _, _⟩
          · exact absurd hl hoof
          · cases hl1
            obtain ⟨l1, _, l3, A, hA1, hA2⟩ := LRel_iff.mp hlr
            refine Or.inr ⟨t', hl2, l1.symm.trans r1.symm, htr, by rw [← l1]; exact l3, A, hA2, ?_⟩
            intro x hx
            exact (r4.mem x).mpr (by rw [hA1]; exact List.mem_append_right _ hx)
          · cases hl1
      · exact r5 ent hent
    · rw [hM, hN]
      exact ORel.panic p hr

theorem rule_sim {recM : Expr → PState → Outcome} (f k1 k2 : Nat)
    (hw : WrapRel (MRel E own node) own node isPred (parseExprWrap (setMemo E true) recM)
      (parseExprWrap (setMemo E false) (parseExpr (setMemo E false) f))) :
    RuleRel (MRel E own node) (parseRuleWrap (setMemo E true) recM k1)
      (parseRuleWrap (setMemo E false) (parseExpr (setMemo E false) f) k2) := by
  intro n r a b h hfr
  rw [ruleWrap_memo hc, ruleWrap_nomemo hc]
  unfold parseRuleMemoize
  have hname : r.name = n := findRule_name hfr
  obtain ⟨h1, h2, h3, h4, h5⟩ := MRel_iff.mp h
  have hbr : Reach E.input b.pt := by rw [← h1]; exact h3
  cases hg : getMemoized a (.rule r.name) with
  | some res =>
    simp only []
    have hv := h5 _ (getMemoized_mem hg)
    simp only [Valid] at hv
    rcases hv r (by rw [hname]; exact hfr) f b hbr (by rw [← h1]) with ho | ⟨t', ho, hpt', hrs, hreach', A, hA, hsub⟩
    · exact Or.inl ho
    · rw [ho]
      exact hit_sim h hpt' hrs hreach' hA hsub a rfl rfl rfl rfl
  | none =>
    simp only []
    rcases (rule_rel hw hG n r a b h hfr).cases with h0 | ⟨v, ok, a', b', hM, hN, hr, ha, hb⟩ | ⟨p, a', b', hM, hN, hr⟩
    · exact Or.inl h0
    · rw [hM, hN]
      obtain ⟨r1, r2, r3, r4, r5⟩ := MRel_iff.mp hr
      simp only [Outcome.bind]
      refine ORel.done _ _ (MRel_iff.mpr ⟨r1, r2, r3, r4, ?_⟩) ha hb
      intro ent hent
      simp only [setMemoized, List.mem_cons] at hent
      rcases hent with rfl | hent
      · simp only [Valid]
        intro r' hf' f' t hrt hoff
        have e3 : r' = r := by rw [hname, hfr] at hf'; exact (Option.some.inj hf').symm
        rw [e3]
        by_cases hoof : parseRule (setMemo E false) (parseExpr (setMemo E false) f') r t = .oof
        · exact Or.inl hoof
        · have m1 : parseRule (setMemo E false) (parseExpr (setMemo E false) (max f f')) r b = .done v ok b' := by
            rw [rule_ext (parseExpr_mono (setMemo E false) (Nat.le_max_left f f')) r b (by rw [hN]; simp), hN]
          have m2 : parseRule (setMemo E false) (parseExpr (setMemo E false) (max f f')) r t =
              parseRule (setMemo E false) (parseExpr (setMemo E false) f') r t :=
            rule_ext (parseExpr_mono (setMemo E false) (Nat.le_max_right f f')) r t hoof
          have hbt : b.pt = t.pt := Reach.unique hbr hrt (by rw [hoff, h1])
          have hl := loc_rule hc hp hG (max f f') hfr b t hbt hbr
          rw [m1, m2] at hl
          rcases hl with hl | ⟨v2, ok2, b2, t', hl1, hl2, l1, _, htr, l3, A, hA1, hA2⟩ | ⟨p, b2, t', hl1, _⟩
          · exact absurd hl hoof
          · cases hl1
            refine Or.inr ⟨t', hl2, l1.symm.trans r1.symm, htr, by rw [← l1]; exact l3, A, hA2, ?_⟩
            intro x hx
            exact (r4.mem x).mpr (by rw [hA1]; exact List.mem_append_right _ hx)
          · cases hl1
      · exact r5 ent hent
    · rw [hM, hN]
      exact ORel.panic p hr


/-- **The simulation.** Memoized evaluation on the left, un-memoized on the right: whenever the un-memoized run ends
    at depth `fN`, the memoized run ends at every depth `fM ≥ fN`, and alike. -/
theorem sim : ∀ fM fN, fN ≤ fM → WrapRel (MRel E own node) own node isPred (parseExpr (setMemo E true) fM)
    (parseExpr (setMemo E false) fN)
  | _, 0, _ => fun _ _ _ _ _ _ _ _ _ => Or.inl rfl
  | 0, _ + 1, hle => absurd hle (by omega)
  | fM + 1, fN + 1, hle => by
    have hle' : fN ≤ fM := by omega
    intro e a b rn r h he hf hh
    show ORel _ a b (parseExprStep (setMemo E true) (parseExpr (setMemo E true) fM) fM e a)
      (parseExprStep (setMemo E false) (parseExpr (setMemo E false) fN) fN e b)
    have hw := wrap_sim hc hp hG fN (sim fM fN hle')
    have hrw := rule_sim hc hp hG fN fM fN hw
    exact step_rel hc hp hw fM fN hle' hrw hf e a b he h hh

omit hc hp hG in
theorem start_rel : (MRel E own node).rel (startState (setMemo E true)) (startState (setMemo E false)) := by
  refine MRel_iff.mpr ⟨rfl, rfl, ?_, ErrEq.refl _, ?_⟩
  · show Reach E.input (read (setMemo E true) (initState (setMemo E true))).pt
    rw [read_pt]
    exact Reach.first E.input
  · intro ent hent
    have : (startState (setMemo E true)).memo = [] := by
      show (read (setMemo E true) (initState (setMemo E true))).memo = []
      simp [initState]
    rw [this] at hent
    cases hent

/-- the start rule, memoized and not, from the start state -/
theorem sim_start (fM fN : Nat) (hle : fN ≤ fM) {n : String} {r : Rule} (hfr : E.findRule n = some r) :
    ORel (MRel E own node) (startState (setMemo E true)) (startState (setMemo E false))
      (parseRuleWrap (setMemo E true) (parseExpr (setMemo E true) fM) fM r (startState (setMemo E true)))
      (parseRuleWrap (setMemo E false) (parseExpr (setMemo E false) fN) fN r (startState (setMemo E false))) :=
  rule_sim hc hp hG fN fM fN (wrap_sim hc hp hG fN (sim hc hp hG fM fN hle)) n r _ _ start_rel hfr

end sim

/-- what `Parse` returns, compared: the same value and the same errors — except that when both parses fail without
    any code-block error, each reports its own synthesized farthest-failure message (those may differ: the
    memoized parser does not re-visit the failures behind a memo hit; C06 does not claim them equal) -/
def FinalRel : Final → Final → Prop
  | .ret v1 errs1 _, .ret v2 errs2 _ => v1 = v2 ∧ (errs1 = errs2 ∨ ∃ m1 m2, errs1 = [m1] ∧ errs2 = [m2] ∧ v1 = .nil)
  | .panic p1 _, .panic p2 _ => p1 = p2
  | _, _ => False

theorem dedupe_addErrAt_nil (E : Env) {a : PState} (ha : a.errs = []) (m : String) (p : Pos) :
    dedupe (addErrAt E a m p).errs = [errPrefix E a p ++ ": " ++ m] := by
  simp [addErrAt, ha, dedupe, dedupeAux]

section top
variable {E : Env} {own : Nat → Option String} {node : Nat → Option Expr} {isPred : Nat → Bool}

theorem finish_rel {s1 s2 : PState} {o1 o2 : Outcome} (h : ORel (MRel E own node) s1 s2 o1 o2) :
    finish (setMemo E false) o2 = .oof ∨
      FinalRel (finish (setMemo E true) o1) (finish (setMemo E false) o2) := by
  rcases h.cases with h | ⟨v, ok, a, b, h1, h2, hr, _, _⟩ | ⟨p, a, b, h1, h2, hr⟩
  · rw [h]; exact Or.inl rfl
  · rw [h1, h2]
    obtain ⟨_, _, _, r4, _⟩ := MRel_iff.mp hr
    refine Or.inr ?_
    unfold finish
    cases ok with
    | true => exact ⟨rfl, Or.inl r4⟩
    | false =>
      simp only [Bool.not_false, if_true]
      rw [← r4.isEmpty]
      cases hem : a.errs.isEmpty with
      | true =>
        simp only [if_true]
        have ha : a.errs = [] := by simpa using hem
        have hb : b.errs = [] := by
          have := r4.isEmpty; rw [hem] at this; simpa using this.symm
        exact ⟨rfl, Or.inr ⟨_, _, dedupe_addErrAt_nil _ ha _ _, dedupe_addErrAt_nil _ hb _ _, rfl⟩⟩
      | false => exact ⟨rfl, Or.inl r4⟩
  · rw [h1, h2]
    obtain ⟨r1, r2, _, r4, _⟩ := MRel_iff.mp hr
    refine Or.inr ?_
    unfold finish
    have hrec1 : (setMemo E true).opts.recover = E.opts.recover := rfl
    have hrec2 : (setMemo E false).opts.recover = E.opts.recover := rfl
    rw [hrec1, hrec2]
    cases E.opts.recover with
    | false => exact rfl
    | true =>
      simp only [if_true]
      refine ⟨rfl, Or.inl ?_⟩
      unfold addErr addErrAt
      rw [errPrefix_hd (setMemo E true) (setMemo E false) rfl r2, r1]
      exact r4.snoc _

variable (hc : MemoCfg E) (hp : PureCode E isPred)
  (hG : ∀ n r, E.findRule n = some r → r.expr.Ok own node isPred n)
include hc hp hG

/-- **Memoize does not change what `Parse` returns** (for the grammars and configuration described at the top): whenever
    the un-memoized parse ends at depth `fN`, the memoized parse ends at every depth `fM ≥ fN` and returns the same. -/
theorem memo_sound (fM fN : Nat) (hle : fN ≤ fM) :
    parse (setMemo E false) fN = .oof ∨ FinalRel (parse (setMemo E true) fM) (parse (setMemo E false) fN) := by
  unfold parse
  simp only []
  have hr1 : (setMemo E true).rules = E.rules := rfl
  have hr2 : (setMemo E false).rules = E.rules := rfl
  rw [hr1, hr2]
  cases hrules : E.rules with
  | nil => exact Or.inr ⟨rfl, Or.inl rfl⟩
  | cons first rest =>
    simp only []
    have hf1 : (setMemo E true).findRule (entryName (setMemo E true) first) = E.findRule (entryName E first) := rfl
    have hf2 : (setMemo E false).findRule (entryName (setMemo E false) first) = E.findRule (entryName E first) := rfl
    rw [hf1, hf2]
    cases hfr : E.findRule (entryName E first) with
    | none => exact Or.inr ⟨rfl, Or.inl rfl⟩
    | some r => exact finish_rel (sim_start hc hp hG fM fN hle hfr)

end top

end RT
end PV
