/-
  Lemmas on the list helpers of the analysis model (`Model/Mid.lean`).
-/
import PigeonVerif.Model.Mid

namespace PV
namespace Mid

theorem mem_addName (x n : String) (l : List String) : x ∈ addName n l ↔ x = n ∨ x ∈ l := by
  unfold addName
  split
  · next h =>
    have hn : n ∈ l := by simpa using h
    constructor
    · intro hx; exact Or.inr hx
    · rintro (rfl | hx)
      · exact hn
      · exact hx
  · simp [or_comm]

theorem mem_union (x : String) (a b : List String) : x ∈ union a b ↔ x ∈ a ∨ x ∈ b := by
  unfold union
  induction b generalizing a with
  | nil => simp
  | cons n ns ih =>
    simp only [List.foldl_cons]
    rw [ih, mem_addName]
    simp only [List.mem_cons]
    constructor
    · rintro ((rfl | h) | h)
      · exact Or.inr (Or.inl rfl)
      · exact Or.inl h
      · exact Or.inr (Or.inr h)
    · rintro (h | rfl | h)
      · exact Or.inl (Or.inr h)
      · exact Or.inl (Or.inl rfl)
      · exact Or.inr h


end Mid
end PV
