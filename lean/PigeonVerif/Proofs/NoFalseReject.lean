/-
  NoFalseReject — the analysis never reports a left recursion that is not there (C07, "a grammar with no such cycle is
  accepted"), for grammars without recovery operators.

  The nullable flags that `NullableVisit` leaves on the nodes can be WRONG in one direction only: a rule that is on the
  visiting stack counts as non-nullable, `e+` counts as non-nullable, a choice stops at its first nullable alternative
  (finding D17) - all of them under-approximations.  A flag that says "nullable" is always right.  Hence the first graph
  built from the flags (`InitialNames` continues past an item only when its flag says nullable) is a SUBGRAPH of the
  specification's graph, and a cycle in it is a cycle of the specification.

  Recovery operators are excluded: there the analysis over-approximates (`e //{l} r` is flagged nullable when only `r` is,
  and `r`'s initial names are edges of the rule) - findings D18 / D9.
-/
import PigeonVerif.Proofs.LROrder
import PigeonVerif.Proofs.Bridge

namespace PV
namespace Mid
open Spec

def cfgTree : Cfg := { visitOperands := true, predNames := true, emptyClassNotNullable := true }

/-! ### flags off: the shape of an expression -/

def erase : AExpr → AExpr
  | .action _ e => .action false (erase e)
  | .andCode => .andCode | .notCode => .notCode | .stateCode => .stateCode
  | .and e => .and (erase e) | .not e => .not (erase e)
  | .any => .any
  | .cls m => .cls m
  | .choice _ es => .choice false (eraseL es)
  | .labeled e => .labeled (erase e)
  | .lit b => .lit b
  | .plus e => .plus (erase e) | .star e => .star (erase e) | .opt e => .opt (erase e)
  | .recovery _ e r => .recovery false (erase e) (erase r)
  | .ref _ name => .ref false name
  | .seq _ es => .seq false (eraseL es)
  | .throw => .throw
where
  eraseL : List AExpr → List AExpr
    | [] => []
    | e :: es => erase e :: eraseL es

/-- no recovery operator anywhere -/
def noRec : AExpr → Bool
  | .action _ e | .and e | .not e | .labeled e | .plus e | .star e | .opt e => noRec e
  | .choice _ es | .seq _ es => noRecL es
  | .recovery _ _ _ => false
  | _ => true
where
  noRecL : List AExpr → Bool
    | [] => true
    | e :: es => noRec e && noRecL es

/-- every stored flag that says "nullable" is right, relative to the oracle `N` for rule references -/
def fsE (N : List String) : AExpr → Bool
  | .action n e => (!n || nullE N e) && fsE N e
  | .choice n es => (!n || nullE.nullAny N es) && fsL N es
  | .seq n es => (!n || nullE.nullAll N es) && fsL N es
  | .recovery n e r => (!n || nullE N e) && fsE N e && fsE N r
  | .ref n name => !n || N.contains name
  | .and e | .not e | .labeled e | .plus e | .star e | .opt e => fsE N e
  | _ => true
where
  fsL (N : List String) : List AExpr → Bool
    | [] => true
    | e :: es => fsE N e && fsL N es

/-! ### the specification does not look at flags -/

mutual
theorem nullE_erase (N : List String) : (e : AExpr) → nullE N (erase e) = nullE N e
  | .action _ e | .labeled e | .plus e => by simp only [erase, nullE]; exact nullE_erase N e
  | .andCode | .notCode | .stateCode | .and _ | .not _ | .star _ | .opt _ | .throw | .any | .cls _ | .lit _
  | .ref _ _ => by simp [erase, nullE]
  | .choice _ es => by simp only [erase, nullE]; exact nullAny_erase N es
  | .seq _ es => by simp only [erase, nullE]; exact nullAll_erase N es
  | .recovery _ e _ => by simp only [erase, nullE]; exact nullE_erase N e
theorem nullAny_erase (N : List String) : (es : List AExpr) → nullE.nullAny N (erase.eraseL es) = nullE.nullAny N es
  | [] => rfl
  | e :: es => by simp only [erase.eraseL, nullE.nullAny, nullE_erase N e, nullAny_erase N es]
theorem nullAll_erase (N : List String) : (es : List AExpr) → nullE.nullAll N (erase.eraseL es) = nullE.nullAll N es
  | [] => rfl
  | e :: es => by simp only [erase.eraseL, nullE.nullAll, nullE_erase N e, nullAll_erase N es]
end

mutual
theorem calls_erase (N : List String) : (e : AExpr) → firstCalls N (erase e) = firstCalls N e
  | .action _ e | .labeled e | .and e | .not e | .plus e | .star e | .opt e => by
    simp only [erase, firstCalls]; exact calls_erase N e
  | .andCode | .notCode | .stateCode | .any | .cls _ | .lit _ | .throw | .ref _ _ => by simp [erase, firstCalls]
  | .choice _ es => by simp only [erase, firstCalls]; exact callsAny_erase N es
  | .seq _ es => by simp only [erase, firstCalls]; exact callsSeq_erase N es
  | .recovery _ e _ => by simp only [erase, firstCalls]; exact calls_erase N e
theorem callsAny_erase (N : List String) : (es : List AExpr) →
    firstCalls.callsAny N (erase.eraseL es) = firstCalls.callsAny N es
  | [] => rfl
  | e :: es => by simp only [erase.eraseL, firstCalls.callsAny, calls_erase N e, callsAny_erase N es]
theorem callsSeq_erase (N : List String) : (es : List AExpr) →
    firstCalls.callsSeq N (erase.eraseL es) = firstCalls.callsSeq N es
  | [] => rfl
  | e :: es => by
    simp only [erase.eraseL, firstCalls.callsSeq, calls_erase N e, callsSeq_erase N es, nullE_erase N e]
end

mutual
theorem noRec_erase : (e : AExpr) → noRec (erase e) = noRec e
  | .action _ e | .and e | .not e | .labeled e | .plus e | .star e | .opt e => by
    simp only [erase, noRec]; exact noRec_erase e
  | .andCode | .notCode | .stateCode | .any | .cls _ | .lit _ | .throw | .ref _ _ | .recovery _ _ _ => by
    simp [erase, noRec]
  | .choice _ es | .seq _ es => by simp only [erase, noRec]; exact noRecL_erase es
theorem noRecL_erase : (es : List AExpr) → noRec.noRecL (erase.eraseL es) = noRec.noRecL es
  | [] => rfl
  | e :: es => by simp only [erase.eraseL, noRec.noRecL, noRec_erase e, noRecL_erase es]
end

-- an expression without flags (a freshly parsed grammar: Go's zero values) has no wrong flag
mutual
theorem fsE_erase (N : List String) : (e : AExpr) → fsE N (erase e) = true
  | .action _ e => by simp only [erase, fsE, Bool.not_false, Bool.true_or, Bool.true_and]; exact fsE_erase N e
  | .and e | .not e | .labeled e | .plus e | .star e | .opt e => by simp only [erase, fsE]; exact fsE_erase N e
  | .andCode | .notCode | .stateCode | .any | .cls _ | .lit _ | .throw | .ref _ _ => by simp [erase, fsE]
  | .choice _ es | .seq _ es => by
    simp only [erase, fsE, Bool.not_false, Bool.true_or, Bool.true_and]; exact fsL_erase N es
  | .recovery _ e r => by
    simp only [erase, fsE, Bool.not_false, Bool.true_or, Bool.true_and, Bool.and_eq_true]
    exact ⟨fsE_erase N e, fsE_erase N r⟩
theorem fsL_erase (N : List String) : (es : List AExpr) → fsE.fsL N (erase.eraseL es) = true
  | [] => rfl
  | e :: es => by simp only [erase.eraseL, fsE.fsL, fsE_erase N e, fsL_erase N es, Bool.and_self]
end

theorem nullE_congr {N : List String} {e e' : AExpr} (h : erase e' = erase e) : nullE N e' = nullE N e := by
  rw [← nullE_erase N e', ← nullE_erase N e, h]
theorem nullAny_congr {N : List String} {es es' : List AExpr} (h : erase.eraseL es' = erase.eraseL es) :
    nullE.nullAny N es' = nullE.nullAny N es := by
  rw [← nullAny_erase N es', ← nullAny_erase N es, h]
theorem nullAll_congr {N : List String} {es es' : List AExpr} (h : erase.eraseL es' = erase.eraseL es) :
    nullE.nullAll N es' = nullE.nullAll N es := by
  rw [← nullAll_erase N es', ← nullAll_erase N es, h]
theorem noRec_congr {e e' : AExpr} (h : erase e' = erase e) : noRec e' = noRec e := by
  rw [← noRec_erase e', ← noRec_erase e, h]

/-! ### a flag that says "nullable" is right ⇒ `InitialNames` stays inside the specification's first calls -/

theorem isNullable_sound (N : List String) : (e : AExpr) → fsE N e = true → isNullable cfgTree e = true → nullE N e = true
  | .action n e, hf, hn => by
    simp only [isNullable] at hn; subst hn
    simp only [fsE, Bool.not_true, Bool.false_or, Bool.and_eq_true] at hf
    simpa [nullE] using hf.1
  | .andCode, _, _ | .notCode, _, _ | .stateCode, _, _ | .and _, _, _ | .not _, _, _ | .star _, _, _ | .opt _, _, _
  | .throw, _, _ => by simp [nullE]
  | .any, _, hn => by simp [isNullable] at hn
  | .cls _, _, hn => by simp [isNullable, cfgTree] at hn
  | .choice n es, hf, hn => by
    simp only [isNullable] at hn; subst hn
    simp only [fsE, Bool.not_true, Bool.false_or, Bool.and_eq_true] at hf
    simpa [nullE] using hf.1
  | .labeled e, hf, hn => by
    simp only [isNullable] at hn
    simp only [fsE] at hf
    simp only [nullE]
    exact isNullable_sound N e hf hn
  | .lit b, _, hn => by simpa [isNullable, nullE] using hn
  | .plus _, _, hn => by simp [isNullable, cfgTree] at hn
  | .recovery n e r, hf, hn => by
    simp only [isNullable] at hn; subst hn
    simp only [fsE, Bool.not_true, Bool.false_or, Bool.and_eq_true] at hf
    simpa [nullE] using hf.1.1
  | .ref n name, hf, hn => by
    simp only [isNullable] at hn; subst hn
    simpa [fsE, nullE] using hf
  | .seq n es, hf, hn => by
    simp only [isNullable] at hn; subst hn
    simp only [fsE, Bool.not_true, Bool.false_or, Bool.and_eq_true] at hf
    simpa [nullE] using hf.1

mutual
theorem names_sub_calls (N : List String) : (e : AExpr) → fsE N e = true → noRec e = true →
    ∀ n, n ∈ initialNames cfgTree e → n ∈ firstCalls N e
  | .action _ e, hf, hr, n, hn => by
    simp only [fsE, Bool.and_eq_true] at hf
    simp only [initialNames] at hn; simp only [firstCalls]
    exact names_sub_calls N e hf.2 (by simpa [noRec] using hr) n hn
  | .andCode, _, _, n, hn | .notCode, _, _, n, hn | .stateCode, _, _, n, hn | .any, _, _, n, hn | .cls _, _, _, n, hn
  | .lit _, _, _, n, hn | .throw, _, _, n, hn => by simp [initialNames] at hn
  | .and e, hf, hr, n, hn | .not e, hf, hr, n, hn => by
    simp only [initialNames, cfgTree, if_true] at hn; simp only [firstCalls]
    exact names_sub_calls N e (by simpa [fsE] using hf) (by simpa [noRec] using hr) n hn
  | .labeled e, hf, hr, n, hn | .plus e, hf, hr, n, hn | .star e, hf, hr, n, hn | .opt e, hf, hr, n, hn => by
    simp only [initialNames] at hn; simp only [firstCalls]
    exact names_sub_calls N e (by simpa [fsE] using hf) (by simpa [noRec] using hr) n hn
  | .choice _ es, hf, hr, n, hn => by
    simp only [fsE, Bool.and_eq_true] at hf
    simp only [initialNames] at hn; simp only [firstCalls]
    exact namesChoice_sub N es hf.2 (by simpa [noRec] using hr) n hn
  | .seq _ es, hf, hr, n, hn => by
    simp only [fsE, Bool.and_eq_true] at hf
    simp only [initialNames] at hn; simp only [firstCalls]
    exact namesSeq_sub N es hf.2 (by simpa [noRec] using hr) n hn
  | .recovery _ _ _, _, hr, _, _ => by simp [noRec] at hr
  | .ref _ name, _, _, n, hn => by simpa [initialNames, firstCalls] using hn
theorem namesChoice_sub (N : List String) : (es : List AExpr) → fsE.fsL N es = true → noRec.noRecL es = true →
    ∀ n, n ∈ namesChoice cfgTree es → n ∈ firstCalls.callsAny N es
  | [], _, _, n, hn => by simp [namesChoice] at hn
  | e :: es, hf, hr, n, hn => by
    simp only [fsE.fsL, Bool.and_eq_true] at hf
    simp only [noRec.noRecL, Bool.and_eq_true] at hr
    simp only [namesChoice, mem_union] at hn
    simp only [firstCalls.callsAny, mem_union]
    rcases hn with hn | hn
    · exact Or.inl (names_sub_calls N e hf.1 hr.1 n hn)
    · exact Or.inr (namesChoice_sub N es hf.2 hr.2 n hn)
theorem namesSeq_sub (N : List String) : (es : List AExpr) → fsE.fsL N es = true → noRec.noRecL es = true →
    ∀ n, n ∈ namesSeq cfgTree es → n ∈ firstCalls.callsSeq N es
  | [], _, _, n, hn => by simp [namesSeq] at hn
  | e :: es, hf, hr, n, hn => by
    simp only [fsE.fsL, Bool.and_eq_true] at hf
    simp only [noRec.noRecL, Bool.and_eq_true] at hr
    simp only [namesSeq] at hn
    simp only [firstCalls.callsSeq]
    by_cases hfl : isNullable cfgTree e = true
    · rw [if_pos hfl, mem_union] at hn
      rw [if_pos (isNullable_sound N e hf.1 hfl), mem_union]
      rcases hn with hn | hn
      · exact Or.inl (names_sub_calls N e hf.1 hr.1 n hn)
      · exact Or.inr (namesSeq_sub N es hf.2 hr.2 n hn)
    · rw [if_neg hfl] at hn
      have := names_sub_calls N e hf.1 hr.1 n hn
      split
      · exact (mem_union _ _ _).mpr (Or.inl this)
      · exact this
end


/-! ### the specification's nullable rules form a closed oracle (the grammar-level twin of `nullIter_closed`) -/

mutual
theorem nullE_mono {N M : List String} (h : ∀ n, n ∈ N → n ∈ M) : (e : AExpr) → nullE N e = true → nullE M e = true
  | .action _ e, hh => by simp only [nullE] at hh ⊢; exact nullE_mono h e hh
  | .labeled e, hh => by simp only [nullE] at hh ⊢; exact nullE_mono h e hh
  | .andCode, _ | .notCode, _ | .stateCode, _ | .and _, _ | .not _, _ | .star _, _ | .opt _, _ | .throw, _ => by simp [nullE]
  | .any, hh | .cls _, hh => by simp [nullE] at hh
  | .lit _, hh => by simpa [nullE] using hh
  | .plus e, hh => by simp only [nullE] at hh ⊢; exact nullE_mono h e hh
  | .choice _ es, hh => by simp only [nullE] at hh ⊢; exact nullAny_mono h es hh
  | .seq _ es, hh => by simp only [nullE] at hh ⊢; exact nullAll_mono h es hh
  | .recovery _ e _, hh => by simp only [nullE] at hh ⊢; exact nullE_mono h e hh
  | .ref _ name, hh => by
    simp only [nullE, List.contains_iff_mem] at hh ⊢
    exact h _ hh
theorem nullAny_mono {N M : List String} (h : ∀ n, n ∈ N → n ∈ M) : (es : List AExpr) →
    nullE.nullAny N es = true → nullE.nullAny M es = true
  | [], hh => by simp [nullE.nullAny] at hh
  | e :: es, hh => by
    simp only [nullE.nullAny, Bool.or_eq_true] at hh ⊢
    rcases hh with hh | hh
    · exact Or.inl (nullE_mono h e hh)
    · exact Or.inr (nullAny_mono h es hh)
theorem nullAll_mono {N M : List String} (h : ∀ n, n ∈ N → n ∈ M) : (es : List AExpr) →
    nullE.nullAll N es = true → nullE.nullAll M es = true
  | [], _ => by simp [nullE.nullAll]
  | e :: es, hh => by
    simp only [nullE.nullAll, Bool.and_eq_true] at hh ⊢
    exact ⟨nullE_mono h e hh.1, nullAll_mono h es hh.2⟩
end

def nstep (G : AGrammar) (N : List String) : List String := (G.filter (fun r => nullE N r.expr)).map (·.name)

theorem nstep_mono (G : AGrammar) {N M : List String} (h : ∀ n, n ∈ N → n ∈ M) : (nstep G N).Sublist (nstep G M) := by
  unfold nstep
  apply List.Sublist.map
  apply PV.filter_sublist_of_imp
  intro r _ hr
  exact nullE_mono h _ hr

theorem nstep_len (G : AGrammar) (N : List String) : (nstep G N).length ≤ G.length := by
  unfold nstep; rw [List.length_map]; exact List.length_filter_le _ _

theorem iter_closed (G : AGrammar) : ∀ (k : Nat) (N : List String), N.Sublist (nstep G N) → G.length + 1 ≤ N.length + k →
    ∀ r ∈ G, nullE (nullRules.iter G k N) r.expr = true → r.name ∈ nullRules.iter G k N
  | 0, N, hs, hk => by
    have := hs.length_le
    have := nstep_len G N
    omega
  | k + 1, N, hs, hk => by
    intro r hr hn
    unfold nullRules.iter at hn ⊢
    simp only [] at hn ⊢
    have hst : (List.map (fun x => x.name) (List.filter (fun r => nullE N r.expr) G)) = nstep G N := rfl
    rw [hst] at hn ⊢
    by_cases hl : (nstep G N).length = N.length
    · rw [if_pos hl] at hn ⊢
      have heq : N = nstep G N := hs.eq_of_length hl.symm
      rw [heq]
      simp only [nstep, List.mem_map, List.mem_filter]
      exact ⟨r, ⟨hr, hn⟩, rfl⟩
    · rw [if_neg hl] at hn ⊢
      have hlt : N.length < (nstep G N).length := by
        have := hs.length_le; omega
      exact iter_closed G k (nstep G N) (nstep_mono G (fun n hn => hs.subset hn)) (by omega) r hr hn

/-- a rule whose body is nullable relative to the specification's set of nullable rules is in that set -/
theorem nullRules_closed (G : AGrammar) : ∀ r ∈ G, nullE (nullRules G) r.expr = true → r.name ∈ nullRules G := by
  intro r hr hn
  exact iter_closed G (G.length + 1) [] (List.nil_sublist _) (by simp) r hr hn


/-! ### the invariant of the nullable analysis: no flag says "nullable" wrongly -/

/-- state of the grammar between two visits, relative to the grammar `G0` the analysis started from -/
structure GI (N : List String) (G0 G : AGrammar) : Prop where
  names : G.map (·.name) = G0.map (·.name)
  rules : ∀ r ∈ G, (nullE N r.expr = true → r.name ∈ N) ∧ fsE N r.expr = true ∧ noRec r.expr = true ∧
            ∃ r0 ∈ G0, r0.name = r.name ∧ erase r0.expr = erase r.expr

/-- what the rule visitor handed to `visitExpr` has to guarantee -/
def VR (N : List String) (G0 : AGrammar) (vr : AGrammar → String → Option (Bool × AGrammar)) : Prop :=
  ∀ G name b G', GI N G0 G → vr G name = some (b, G') → (b = true → name ∈ N) ∧ GI N G0 G'

theorem bind_some' {α β : Type} {x : Option α} {f : α → Option β} {r : β} (h : (x >>= f) = some r) :
    ∃ a, x = some a ∧ f a = some r := by
  cases x with
  | none => simp at h
  | some a => exact ⟨a, rfl, by simpa using h⟩

section
variable {N : List String} {G0 : AGrammar} {vr : AGrammar → String → Option (Bool × AGrammar)}

/-- the shape shared by the one-operand constructs whose own result is the constant `true` -/
theorem wrap_true (hvr : VR N G0 vr) (mk : AExpr → AExpr) (e : AExpr)
    (ih : ∀ G b e' G', GI N G0 G → fsE N e = true → noRec e = true → visitExpr cfgTree vr G e = some (b, e', G') →
      (b = true → nullE N e = true) ∧ fsE N e' = true ∧ erase e' = erase e ∧ GI N G0 G')
    (hnull : nullE N (mk e) = true) (hfs : ∀ x, fsE N (mk x) = fsE N x) (her : ∀ x, erase (mk x) = mk (erase x))
    (hnr : noRec (mk e) = noRec e)
    (G : AGrammar) (b : Bool) (e' : AExpr) (G' : AGrammar) (hgi : GI N G0 G) (hf : fsE N (mk e) = true)
    (hr : noRec (mk e) = true)
    (h : (do let x ← visitExpr cfgTree vr G e; pure (true, mk x.2.1, x.2.2) : Option _) = some (b, e', G')) :
    (b = true → nullE N (mk e) = true) ∧ fsE N e' = true ∧ erase e' = erase (mk e) ∧ GI N G0 G' := by
  obtain ⟨⟨b1, e1, G1⟩, hx, hres⟩ := bind_some' h
  simp only [pure, Option.some.injEq, Prod.mk.injEq] at hres
  obtain ⟨rfl, rfl, rfl⟩ := hres
  obtain ⟨_, hf1, he1, hg1⟩ := ih G b1 e1 G1 hgi (by rw [← hfs]; exact hf) (by rw [← hnr]; exact hr) hx
  exact ⟨fun _ => hnull, by rw [hfs]; exact hf1, by rw [her, her, he1], hg1⟩

mutual
theorem visit_sound (hvr : VR N G0 vr) : (e : AExpr) → ∀ G b e' G', GI N G0 G → fsE N e = true → noRec e = true →
    visitExpr cfgTree vr G e = some (b, e', G') →
    (b = true → nullE N e = true) ∧ fsE N e' = true ∧ erase e' = erase e ∧ GI N G0 G'
  | .action n e, G, b, e', G', hgi, hf, hr, h => by
    simp only [visitExpr] at h
    obtain ⟨⟨b1, e1, G1⟩, hx, hres⟩ := bind_some' h
    simp only [pure, Option.some.injEq, Prod.mk.injEq] at hres
    obtain ⟨rfl, rfl, rfl⟩ := hres
    simp only [fsE, Bool.and_eq_true] at hf
    obtain ⟨hb, hf1, he1, hg1⟩ := visit_sound hvr e G b1 e1 G1 hgi hf.2 (by simpa [noRec] using hr) hx
    refine ⟨fun hb1 => by simpa [nullE] using hb hb1, ?_, by simp [erase, he1], hg1⟩
    simp only [fsE, Bool.and_eq_true, hf1, and_true, Bool.or_eq_true, Bool.not_eq_true']
    cases b1 with
    | false => exact Or.inl rfl
    | true => exact Or.inr (by rw [nullE_congr he1]; exact hb rfl)
  | .andCode, G, b, e', G', hgi, _, _, h | .notCode, G, b, e', G', hgi, _, _, h | .stateCode, G, b, e', G', hgi, _, _, h
  | .throw, G, b, e', G', hgi, _, _, h => by
    simp only [visitExpr, pure, Option.some.injEq, Prod.mk.injEq] at h
    obtain ⟨rfl, rfl, rfl⟩ := h
    exact ⟨fun _ => by simp [nullE], by simp [fsE], rfl, hgi⟩
  | .any, G, b, e', G', hgi, _, _, h => by
    simp only [visitExpr, pure, Option.some.injEq, Prod.mk.injEq] at h
    obtain ⟨rfl, rfl, rfl⟩ := h
    exact ⟨fun hb => (by cases hb), by simp [fsE], rfl, hgi⟩
  | .cls m, G, b, e', G', hgi, _, _, h => by
    simp only [visitExpr, pure, Option.some.injEq, Prod.mk.injEq, isNullable, cfgTree, if_true] at h
    obtain ⟨rfl, rfl, rfl⟩ := h
    exact ⟨fun hb => (by cases hb), by simp [fsE], rfl, hgi⟩
  | .lit m, G, b, e', G', hgi, _, _, h => by
    simp only [visitExpr, pure, Option.some.injEq, Prod.mk.injEq] at h
    obtain ⟨rfl, rfl, rfl⟩ := h
    exact ⟨fun hb => by simpa [nullE] using hb, by simp [fsE], rfl, hgi⟩
  | .and e, G, b, e', G', hgi, hf, hr, h => by
    simp only [visitExpr, cfgTree, if_true] at h
    exact wrap_true hvr .and e (visit_sound hvr e) (by simp [nullE]) (fun _ => by simp [fsE]) (fun _ => by simp [erase])
      (by simp [noRec]) G b e' G' hgi hf hr h
  | .not e, G, b, e', G', hgi, hf, hr, h => by
    simp only [visitExpr, cfgTree, if_true] at h
    exact wrap_true hvr .not e (visit_sound hvr e) (by simp [nullE]) (fun _ => by simp [fsE]) (fun _ => by simp [erase])
      (by simp [noRec]) G b e' G' hgi hf hr h
  | .star e, G, b, e', G', hgi, hf, hr, h => by
    simp only [visitExpr, cfgTree, if_true] at h
    exact wrap_true hvr .star e (visit_sound hvr e) (by simp [nullE]) (fun _ => by simp [fsE]) (fun _ => by simp [erase])
      (by simp [noRec]) G b e' G' hgi hf hr h
  | .opt e, G, b, e', G', hgi, hf, hr, h => by
    simp only [visitExpr, cfgTree, if_true] at h
    exact wrap_true hvr .opt e (visit_sound hvr e) (by simp [nullE]) (fun _ => by simp [fsE]) (fun _ => by simp [erase])
      (by simp [noRec]) G b e' G' hgi hf hr h
  | .labeled e, G, b, e', G', hgi, hf, hr, h => by
    simp only [visitExpr] at h
    obtain ⟨⟨b1, e1, G1⟩, hx, hres⟩ := bind_some' h
    simp only [pure, Option.some.injEq, Prod.mk.injEq] at hres
    obtain ⟨rfl, rfl, rfl⟩ := hres
    obtain ⟨hb, hf1, he1, hg1⟩ := visit_sound hvr e G b1 e1 G1 hgi (by simpa [fsE] using hf) (by simpa [noRec] using hr) hx
    exact ⟨fun hb1 => by simpa [nullE] using hb hb1, by simpa [fsE] using hf1, by simp [erase, he1], hg1⟩
  | .plus e, G, b, e', G', hgi, hf, hr, h => by
    simp only [visitExpr, cfgTree, if_true] at h
    obtain ⟨⟨b1, e1, G1⟩, hx, hres⟩ := bind_some' h
    simp only [pure, Option.some.injEq, Prod.mk.injEq, Bool.false_and] at hres
    obtain ⟨rfl, rfl, rfl⟩ := hres
    obtain ⟨_, hf1, he1, hg1⟩ := visit_sound hvr e G b1 e1 G1 hgi (by simpa [fsE] using hf) (by simpa [noRec] using hr) hx
    exact ⟨fun hb => (by cases hb), by simpa [fsE] using hf1, by simp [erase, he1], hg1⟩
  | .recovery _ _ _, _, _, _, _, _, _, hr, _ => by simp [noRec] at hr
  | .ref n name, G, b, e', G', hgi, _, _, h => by
    simp only [visitExpr] at h
    cases hfr : findRule G name with
    | none =>
      rw [hfr] at h
      simp only [pure, Option.some.injEq, Prod.mk.injEq] at h
      obtain ⟨rfl, rfl, rfl⟩ := h
      exact ⟨fun hb => (by cases hb), by simp [fsE], by simp [erase], hgi⟩
    | some r =>
      rw [hfr] at h
      obtain ⟨⟨b1, G1⟩, hx, hres⟩ := bind_some' h
      simp only [pure, Option.some.injEq, Prod.mk.injEq] at hres
      obtain ⟨rfl, rfl, rfl⟩ := hres
      obtain ⟨hb, hg1⟩ := hvr G name b1 G1 hgi hx
      refine ⟨fun hb1 => by simpa [nullE] using hb hb1, ?_, by simp [erase], hg1⟩
      cases b1 with
      | false => simp [fsE]
      | true => simpa [fsE] using hb rfl
  | .choice n es, G, b, e', G', hgi, hf, hr, h => by
    simp only [visitExpr] at h
    obtain ⟨⟨b1, es1, G1⟩, hx, hres⟩ := bind_some' h
    simp only [pure, Option.some.injEq, Prod.mk.injEq] at hres
    obtain ⟨rfl, rfl, rfl⟩ := hres
    simp only [fsE, Bool.and_eq_true] at hf
    obtain ⟨hb, hf1, he1, hg1⟩ := visitChoice_sound hvr es G b1 es1 G1 hgi hf.2 (by simpa [noRec] using hr) hx
    refine ⟨fun hb1 => by simpa [nullE] using hb hb1, ?_, by simp [erase, he1], hg1⟩
    simp only [fsE, Bool.and_eq_true, hf1, and_true, Bool.or_eq_true, Bool.not_eq_true']
    cases b1 with
    | false => exact Or.inl rfl
    | true => exact Or.inr (by rw [nullAny_congr he1]; exact hb rfl)
  | .seq n es, G, b, e', G', hgi, hf, hr, h => by
    simp only [visitExpr] at h
    obtain ⟨⟨b1, es1, G1⟩, hx, hres⟩ := bind_some' h
    simp only [pure, Option.some.injEq, Prod.mk.injEq] at hres
    obtain ⟨rfl, rfl, rfl⟩ := hres
    simp only [fsE, Bool.and_eq_true] at hf
    obtain ⟨hb, hf1, he1, hg1⟩ := visitSeq_sound hvr es G b1 es1 G1 hgi hf.2 (by simpa [noRec] using hr) hx
    refine ⟨fun hb1 => by simpa [nullE] using hb hb1, ?_, by simp [erase, he1], hg1⟩
    simp only [fsE, Bool.and_eq_true, hf1, and_true, Bool.or_eq_true, Bool.not_eq_true']
    cases b1 with
    | false => exact Or.inl rfl
    | true => exact Or.inr (by rw [nullAll_congr he1]; exact hb rfl)
theorem visitChoice_sound (hvr : VR N G0 vr) : (es : List AExpr) → ∀ G b es' G', GI N G0 G → fsE.fsL N es = true →
    noRec.noRecL es = true → visitChoice cfgTree vr G es = some (b, es', G') →
    (b = true → nullE.nullAny N es = true) ∧ fsE.fsL N es' = true ∧ erase.eraseL es' = erase.eraseL es ∧ GI N G0 G'
  | [], G, b, es', G', hgi, _, _, h => by
    simp only [visitChoice, pure, Option.some.injEq, Prod.mk.injEq] at h
    obtain ⟨rfl, rfl, rfl⟩ := h
    exact ⟨fun hb => (by cases hb), rfl, rfl, hgi⟩
  | e :: es, G, b, es', G', hgi, hf, hr, h => by
    simp only [visitChoice] at h
    obtain ⟨⟨b1, e1, G1⟩, hx, hres⟩ := bind_some' h
    simp only [fsE.fsL, Bool.and_eq_true] at hf
    simp only [noRec.noRecL, Bool.and_eq_true] at hr
    obtain ⟨hb, hf1, he1, hg1⟩ := visit_sound hvr e G b1 e1 G1 hgi hf.1 hr.1 hx
    simp only [cfgTree, Bool.not_false, Bool.and_true] at hres
    cases b1 with
    | true =>
      simp only [if_true, pure, Option.some.injEq, Prod.mk.injEq] at hres
      obtain ⟨rfl, rfl, rfl⟩ := hres
      exact ⟨fun _ => by simp [nullE.nullAny, hb rfl], by simp [fsE.fsL, hf1, hf.2], by simp [erase.eraseL, he1], hg1⟩
    | false =>
      simp only [Bool.false_eq_true, if_false] at hres
      obtain ⟨⟨b2, es2, G2⟩, hx2, hres2⟩ := bind_some' hres
      simp only [pure, Option.some.injEq, Prod.mk.injEq, Bool.false_or] at hres2
      obtain ⟨rfl, rfl, rfl⟩ := hres2
      obtain ⟨hb2, hf2, he2, hg2⟩ := visitChoice_sound hvr es G1 b2 es2 G2 hg1 hf.2 hr.2 hx2
      exact ⟨fun hbb => by simp [nullE.nullAny, hb2 hbb], by simp [fsE.fsL, hf1, hf2], by simp [erase.eraseL, he1, he2], hg2⟩
theorem visitSeq_sound (hvr : VR N G0 vr) : (es : List AExpr) → ∀ G b es' G', GI N G0 G → fsE.fsL N es = true →
    noRec.noRecL es = true → visitSeq cfgTree vr G es = some (b, es', G') →
    (b = true → nullE.nullAll N es = true) ∧ fsE.fsL N es' = true ∧ erase.eraseL es' = erase.eraseL es ∧ GI N G0 G'
  | [], G, b, es', G', hgi, _, _, h => by
    simp only [visitSeq, pure, Option.some.injEq, Prod.mk.injEq] at h
    obtain ⟨rfl, rfl, rfl⟩ := h
    exact ⟨fun _ => rfl, rfl, rfl, hgi⟩
  | e :: es, G, b, es', G', hgi, hf, hr, h => by
    simp only [visitSeq] at h
    obtain ⟨⟨b1, e1, G1⟩, hx, hres⟩ := bind_some' h
    simp only [fsE.fsL, Bool.and_eq_true] at hf
    simp only [noRec.noRecL, Bool.and_eq_true] at hr
    obtain ⟨hb, hf1, he1, hg1⟩ := visit_sound hvr e G b1 e1 G1 hgi hf.1 hr.1 hx
    cases b1 with
    | false =>
      simp only [Bool.not_false, if_true, pure, Option.some.injEq, Prod.mk.injEq] at hres
      obtain ⟨rfl, rfl, rfl⟩ := hres
      exact ⟨fun hbb => (by cases hbb), by simp [fsE.fsL, hf1, hf.2], by simp [erase.eraseL, he1], hg1⟩
    | true =>
      simp only [Bool.not_true, Bool.false_eq_true, if_false] at hres
      obtain ⟨⟨b2, es2, G2⟩, hx2, hres2⟩ := bind_some' hres
      simp only [pure, Option.some.injEq, Prod.mk.injEq] at hres2
      obtain ⟨rfl, rfl, rfl⟩ := hres2
      obtain ⟨hb2, hf2, he2, hg2⟩ := visitSeq_sound hvr es G1 b2 es2 G2 hg1 hf.2 hr.2 hx2
      exact ⟨fun hbb => by simp [nullE.nullAll, hb rfl, hb2 hbb], by simp [fsE.fsL, hf1, hf2],
        by simp [erase.eraseL, he1, he2], hg2⟩
end
end


/-! ### the rule visitor and `ComputeNullables` keep the invariant -/

theorem findRule_some {G : AGrammar} {name : String} {r : ARule} (h : findRule G name = some r) :
    r ∈ G ∧ r.name = name := by
  unfold findRule at h
  exact ⟨List.mem_of_find?_eq_some h, by simpa using List.find?_some h⟩

theorem updateRule_names (G : AGrammar) (name : String) (fn : ARule → ARule) (hn : ∀ r, (fn r).name = r.name) :
    (updateRule G name fn).map (·.name) = G.map (·.name) := by
  unfold updateRule
  rw [List.map_map]
  apply List.map_congr_left
  intro r _
  simp only [Function.comp]
  split
  · exact hn r
  · rfl

theorem GI_update {N : List String} {G0 G : AGrammar} (hgi : GI N G0 G) (name : String) (fn : ARule → ARule)
    (hn : ∀ r, (fn r).name = r.name)
    (hp : ∀ r ∈ G, r.name = name → (nullE N (fn r).expr = true → r.name ∈ N) ∧ fsE N (fn r).expr = true ∧
      noRec (fn r).expr = true ∧ ∃ r0 ∈ G0, r0.name = r.name ∧ erase r0.expr = erase (fn r).expr) :
    GI N G0 (updateRule G name fn) := by
  refine ⟨by rw [updateRule_names G name fn hn, hgi.names], ?_⟩
  intro r hr
  unfold updateRule at hr
  obtain ⟨r1, hr1, rfl⟩ := List.mem_map.mp hr
  split
  · rename_i heq
    rw [hn]
    exact hp r1 hr1 heq
  · exact hgi.rules r1 hr1

theorem visitRule_sound {N : List String} {G0 : AGrammar} : ∀ f : Nat, VR N G0 (visitRule cfgTree f)
  | 0 => by intro G name b G' _ h; simp [visitRule] at h
  | f + 1 => by
    intro G name b G' hgi h
    unfold visitRule at h
    cases hfr : findRule G name with
    | none =>
      rw [hfr] at h
      simp only [Option.some.injEq, Prod.mk.injEq] at h
      obtain ⟨rfl, rfl⟩ := h
      exact ⟨fun hb => (by cases hb), hgi⟩
    | some r =>
      rw [hfr] at h
      simp only at h
      obtain ⟨hrG, hrn⟩ := findRule_some hfr
      obtain ⟨hcl, hfs, hnr, r0, hr0, hr0n, hr0e⟩ := hgi.rules r hrG
      by_cases hv : r.visited = true
      · rw [if_pos hv] at h
        simp only [Option.some.injEq, Prod.mk.injEq] at h
        obtain ⟨rfl, rfl⟩ := h
        exact ⟨fun hb => (by cases hb), hgi⟩
      · rw [if_neg hv] at h
        have hg1 : GI N G0 (updateRule G name (fun r => { r with visited := true })) :=
          GI_update hgi name _ (fun _ => rfl) (fun r1 hr1 _ => hgi.rules r1 hr1)
        cases hx : visitExpr cfgTree (visitRule cfgTree f) (updateRule G name (fun r => { r with visited := true })) r.expr with
        | none => rw [hx] at h; cases h
        | some x =>
          obtain ⟨b1, e1, G2⟩ := x
          rw [hx] at h
          simp only [Option.some.injEq, Prod.mk.injEq] at h
          obtain ⟨rfl, rfl⟩ := h
          obtain ⟨hb, hf1, he1, hg2⟩ := visit_sound (visitRule_sound f) r.expr _ b1 e1 G2 hg1 hfs hnr hx
          refine ⟨fun hb1 => by rw [← hrn]; exact hcl (hb hb1), ?_⟩
          apply GI_update hg2 name (fun r => { r with visited := false, nullable := b1, expr := e1 }) (fun _ => rfl)
          intro r2 _ hr2n
          refine ⟨fun hn => ?_, hf1, by rw [noRec_congr he1]; exact hnr, r0, hr0, by rw [hr0n, hrn, hr2n], by rw [hr0e, he1]⟩
          have : nullE N r.expr = true := by rw [← nullE_congr he1]; exact hn
          rw [hr2n, ← hrn]
          exact hcl this

theorem computeNullables_GI {N : List String} {G0 : AGrammar} : ∀ (order : List String) (G G' : AGrammar), GI N G0 G →
    computeNullables cfgTree G order = some G' → GI N G0 G'
  | [], G, G', hgi, h => by
    simp only [computeNullables, List.foldlM_nil, pure, Option.some.injEq] at h
    rw [← h]; exact hgi
  | name :: order, G, G', hgi, h => by
    simp only [computeNullables, List.foldlM_cons] at h
    obtain ⟨G1, hx, hrest⟩ := bind_some' h
    cases hv : visitRule cfgTree (G.length + 1) G name with
    | none => rw [hv] at hx; simp at hx
    | some x =>
      obtain ⟨b, G1'⟩ := x
      rw [hv] at hx
      simp only [Option.map_some, Option.some.injEq] at hx
      subst hx
      exact computeNullables_GI order _ G' (visitRule_sound (G.length + 1) G name b _ hgi hv).2 hrest


/-! ### the first graph built from sound flags is a subgraph of the specification's graph -/

theorem specGraph_ok (G : AGrammar) : GraphOK (specGraph G) := by
  intro v t ht
  unfold succs at ht
  cases hl : lookup v (specGraph G) with
  | none => rw [hl] at ht; simp at ht
  | some l =>
    rw [hl] at ht
    simp only [Option.getD_some] at ht
    unfold specGraph at hl ⊢
    simp only [] at hl ⊢
    obtain ⟨r, _, _, rfl⟩ := lookup_map_mem (fun r : ARule => r.name) _ G v l hl
    have hany := (List.mem_filter.mp ht).2
    obtain ⟨r2, hr2, hn2⟩ := List.any_eq_true.mp hany
    rw [List.map_map]
    exact List.mem_map.mpr ⟨r2, hr2, by simpa using hn2⟩

/-- an edge of the first graph comes from a rule -/
theorem firstGraph_edge {G : AGrammar} {a b : String} (h : b ∈ succs (firstGraph cfgTree G) a) :
    ∃ r ∈ G, r.name = a ∧ b ∈ initialNames cfgTree r.expr := by
  unfold succs at h
  cases hl : lookup a (firstGraph cfgTree G) with
  | none => rw [hl] at h; simp at h
  | some ns =>
    rw [hl] at h
    simp only [Option.getD_some] at h
    have hm := lookup_mem a _ ns hl
    unfold firstGraph at hm
    simp only [List.mem_append, List.mem_map, List.mem_filter] at hm
    rcases hm with ⟨r, hr, heq⟩ | ⟨t, _, heq⟩
    · simp only [Prod.mk.injEq] at heq
      exact ⟨r, hr, heq.1, by rw [heq.2]; exact h⟩
    · simp only [Prod.mk.injEq] at heq
      rw [← heq.2] at h; cases h

theorem edge_sub {G0 G1 : AGrammar} (hgi : GI (nullRules G0) G0 G1) (hnd : (G0.map (·.name)).Nodup) {a b : String}
    (hb : b ∈ succs (firstGraph cfgTree G1) a) (hdef : b ∈ G0.map (·.name)) : b ∈ succs (specGraph G0) a := by
  obtain ⟨r', hr', hra, hbn⟩ := firstGraph_edge hb
  obtain ⟨_, hfs, hnr, r0, hr0, hr0n, hr0e⟩ := hgi.rules r' hr'
  have hcalls : b ∈ firstCalls (nullRules G0) r0.expr := by
    rw [← calls_erase, hr0e, calls_erase]
    exact names_sub_calls _ r'.expr hfs hnr b hbn
  unfold succs specGraph
  simp only []
  have hl := lookup_map_nodup (fun r : ARule => r.name)
    (fun r : ARule => (firstCalls (nullRules G0) r.expr).filter (fun n => G0.any (·.name = n))) G0 hnd r0 hr0
  rw [← hra, ← hr0n, hl]
  simp only [Option.getD_some, List.mem_filter]
  refine ⟨hcalls, ?_⟩
  obtain ⟨r2, hr2, hn2⟩ := List.mem_map.mp hdef
  exact List.any_eq_true.mpr ⟨r2, hr2, by simpa using hn2⟩

theorem out_edge_rule {G0 G1 : AGrammar} (hgi : GI (nullRules G0) G0 G1) {c d : String}
    (h : d ∈ succs (firstGraph cfgTree G1) c) : c ∈ G0.map (·.name) := by
  obtain ⟨r, hr, hrn, _⟩ := firstGraph_edge h
  rw [← hgi.names, ← hrn]
  exact List.mem_map_of_mem hr

theorem path_first {g : Graph} {a c : String} (h : Path g a c) : ∃ d, d ∈ succs g a := by
  cases h with
  | edge he => exact ⟨_, he⟩
  | step he _ => exact ⟨_, he⟩

theorem path_sub {G0 G1 : AGrammar} (hgi : GI (nullRules G0) G0 G1) (hnd : (G0.map (·.name)).Nodup) {a c : String}
    (h : Path (firstGraph cfgTree G1) a c) : (∃ d, d ∈ succs (firstGraph cfgTree G1) c) → Path (specGraph G0) a c := by
  induction h with
  | edge he =>
    rintro ⟨d, hd⟩
    exact .edge (edge_sub hgi hnd he (out_edge_rule hgi hd))
  | step he hp ih =>
    intro hc
    obtain ⟨d, hd⟩ := path_first hp
    exact .step (edge_sub hgi hnd he (out_edge_rule hgi hd)) (ih hc)

/-- a reported left recursion is a cycle of the first graph -/
theorem lr_vertex_cycle (g : Graph) (hg : GraphOK g) (x : String)
    (h : (sccOf g x).length > 1 ∨ hasSelfLoop g x = true) : Path g x x := by
  rcases h with h | h
  · unfold sccOf at h
    cases hf : (reachFrom g x).filter (fun u => u ≠ x && (reachFrom g u).contains x) with
    | nil => rw [hf] at h; simp at h
    | cons y l =>
      have hy : y ∈ (reachFrom g x).filter (fun u => u ≠ x && (reachFrom g u).contains x) := by
        rw [hf]; exact List.mem_cons_self
      obtain ⟨hy1, hy2⟩ := List.mem_filter.mp hy
      simp only [Bool.and_eq_true, List.contains_iff_mem] at hy2
      exact ((mem_reachFrom_iff g hg x y).mp hy1).trans ((mem_reachFrom_iff g hg y x).mp hy2.2)
  · unfold hasSelfLoop at h
    exact .edge (by simpa using h)

/-- **The analysis never reports a left recursion that the specification does not see** (grammars without recovery
    operators, distinct rule names, any visiting order): if `PrepareGrammar` answers anything but "no left recursion" -
    left recursion, or a component without a leader - then some rule can reach itself at the same input position in the
    sense of the independent specification `Spec.leftRec`. -/
theorem no_false_rejection (G0 : AGrammar) (order : List String) (hnd : (G0.map (·.name)).Nodup)
    (hflags : ∀ r ∈ G0, fsE (nullRules G0) r.expr = true) (hnr : ∀ r ∈ G0, noRec r.expr = true)
    (G' : AGrammar) (v : Verdict) (h : prepare cfgTree G0 order = some (G', v)) (hv : v ≠ .ok false) :
    Spec.leftRec G0 = true := by
  unfold prepare at h
  cases hc : computeNullables cfgTree G0 order with
  | none => rw [hc] at h; simp at h
  | some G1 =>
    rw [hc] at h
    simp only [Option.map_some, Option.some.injEq] at h
    have hgi0 : GI (nullRules G0) G0 G0 :=
      ⟨rfl, fun r hr => ⟨nullRules_closed G0 r hr, hflags r hr, hnr r hr, r, hr, rfl, rfl⟩⟩
    have hgi : GI (nullRules G0) G0 G1 := computeNullables_GI order G0 G1 hgi0 hc
    have hg := firstGraph_ok cfgTree G1
    obtain ⟨done, _, hcf⟩ := computeLRWith_closed_form (firstGraph cfgTree G1) hg ((firstGraph cfgTree G1).map (·.1)) G1
    unfold computeLeftRecursives at h
    simp only [] at h
    rw [hcf] at h
    simp only [Prod.mk.injEq] at h
    have hvd : verdictFor (firstGraph cfgTree G1) done ≠ .ok false := by rw [h.2]; exact hv
    -- some handled vertex is left-recursive
    have hx : ∃ x, (sccOf (firstGraph cfgTree G1) x).length > 1 ∨ hasSelfLoop (firstGraph cfgTree G1) x = true := by
      unfold verdictFor at hvd
      by_cases hb : done.any (bigNoLeader (firstGraph cfgTree G1)) = true
      · obtain ⟨x, _, hx⟩ := List.any_eq_true.mp hb
        simp only [bigNoLeader, Bool.and_eq_true, decide_eq_true_eq] at hx
        exact ⟨x, Or.inl hx.1⟩
      · rw [if_neg hb] at hvd
        have hl : done.any (isLR (firstGraph cfgTree G1)) = true := by
          cases hh : done.any (isLR (firstGraph cfgTree G1)) with
          | true => rfl
          | false => rw [hh] at hvd; exact absurd rfl hvd
        obtain ⟨x, _, hx⟩ := List.any_eq_true.mp hl
        simp only [isLR, Bool.or_eq_true, decide_eq_true_eq] at hx
        exact ⟨x, hx⟩
    obtain ⟨x, hx⟩ := hx
    have hcyc := lr_vertex_cycle _ hg x hx
    have hsp : Path (specGraph G0) x x := path_sub hgi hnd hcyc (path_first hcyc)
    have hin : x ∈ reachFrom (specGraph G0) x := reachFrom_complete _ (specGraph_ok G0) hsp
    obtain ⟨d, hd⟩ := path_first hcyc
    obtain ⟨r, hr, hrn⟩ := List.mem_map.mp (out_edge_rule hgi hd)
    unfold Spec.leftRec
    simp only []
    exact List.any_eq_true.mpr ⟨r, hr, by rw [hrn]; simpa using hin⟩

/-- the same for a freshly parsed grammar: all flags still have Go's zero value -/
theorem no_false_rejection_fresh (G0 : AGrammar) (order : List String) (hnd : (G0.map (·.name)).Nodup)
    (hfresh : ∀ r ∈ G0, erase r.expr = r.expr) (hnr : ∀ r ∈ G0, noRec r.expr = true)
    (G' : AGrammar) (v : Verdict) (h : prepare cfgTree G0 order = some (G', v)) (hv : v ≠ .ok false) :
    Spec.leftRec G0 = true :=
  no_false_rejection G0 order hnd (fun r hr => by rw [← hfresh r hr]; exact fsE_erase _ _) hnr G' v h hv

end Mid
end PV
