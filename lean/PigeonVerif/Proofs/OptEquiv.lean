/-
  -optimize-parser: the optimized and the standard template compute the same function when
  `Memoize` is off (the default) and the grammar has state-change blocks (GlobalState template).
-/
import PigeonVerif.Model.Runtime

namespace PV
namespace RT

/-- the same environment with the `Optimize` template switch set to `b` -/
def withOptimize (E : Env) (b : Bool) : Env := { E with flags := { E.flags with optimize := b } }

section
variable (E : Env) (b : Bool) (hmz : E.opts.memoize = false) (hg : E.flags.globalState = true)

theorem useState_opt (hg : E.flags.globalState = true) : (withOptimize E b).useState = E.useState := by
  simp [Env.useState, withOptimize, hg]

theorem restoreState_opt (hg : E.flags.globalState = true) (s : PState) (st : Store) :
    restoreState (withOptimize E b) s st = restoreState E s st := by
  simp [restoreState, useState_opt E b hg]

theorem callBlock_opt (hg : E.flags.globalState = true) (blk : Nat) (s : PState) :
    callBlock (withOptimize E b) blk s = callBlock E blk s := by
  have h := useState_opt E b hg
  simp only [callBlock, h]
  rfl

theorem wrap_opt (hmz : E.opts.memoize = false) (rec : Expr → PState → Outcome) (e : Expr) (s : PState) :
    parseExprWrap (withOptimize E b) rec e s = parseExprWrap E rec e s := by
  have h1 : ∀ E' : Env, E'.opts.memoize = false → parseExprWrap E' rec e s = rec e s := by
    intro E' h; unfold parseExprWrap; split
    · rfl
    · simp [h]
  rw [h1 _ (by simpa [withOptimize] using hmz), h1 _ hmz]

variable (rec : Expr → PState → Outcome)

theorem seq_opt (hmz : E.opts.memoize = false) (hg : E.flags.globalState = true) (pt : Savepoint) (st : Store) :
    ∀ (es : List Expr) (s : PState) (acc : List Val),
      parseSeq (withOptimize E b) rec pt st es s acc = parseSeq E rec pt st es s acc
  | [], _, _ => rfl
  | e :: es, s, acc => by
    simp only [parseSeq, wrap_opt E b hmz, restoreState_opt E b hg]
    congr 1; funext v ok s1
    split
    · exact seq_opt hmz hg pt st es s1 _
    · rfl

theorem choice_opt (hmz : E.opts.memoize = false) (hg : E.flags.globalState = true) (line col : Nat) :
    ∀ (alts : List Expr) (i : Nat) (s : PState),
      parseChoice (withOptimize E b) rec line col alts i s = parseChoice E rec line col alts i s
  | [], _, _ => rfl
  | a :: alts, i, s => by
    simp only [parseChoice, wrap_opt E b hmz, restoreState_opt E b hg]
    congr 1; funext v ok s1
    split
    · rfl
    · exact choice_opt hmz hg line col alts (i + 1) _

theorem loop_opt (hmz : E.opts.memoize = false) (e : Expr) :
    ∀ (k : Nat) (s : PState) (acc : List Val),
      parseLoop (withOptimize E b) rec e k s acc = parseLoop E rec e k s acc
  | 0, _, _ => rfl
  | k + 1, s, acc => by
    simp only [parseLoop, wrap_opt E b hmz]
    congr 1; funext v ok s1
    split
    · exact loop_opt hmz e k _ _
    · rfl

theorem lit_opt (start : Savepoint) (want : String) (ic : Bool) :
    ∀ (rs : List Rune) (s : PState),
      parseLit (withOptimize E b) start want ic rs s = parseLit E start want ic rs s
  | [], _ => rfl
  | r :: rs, s => by
    simp only [parseLit]
    have : litCur (withOptimize E b) ic s = litCur E ic s := rfl
    rw [this]
    split
    · rfl
    · exact lit_opt start want ic rs _

theorem throw_opt (hmz : E.opts.memoize = false) (label : String) :
    ∀ (frames : List (List (String × Expr))) (s : PState),
      parseThrow (withOptimize E b) rec label frames s = parseThrow E rec label frames s
  | [], _ => rfl
  | fr :: frs, s => by
    simp only [parseThrow]
    split
    · simp only [wrap_opt E b hmz]
      congr 1; funext v ok s1
      split
      · rfl
      · exact throw_opt hmz label frs s1
    · exact throw_opt hmz label frs s

theorem rule_opt (hmz : E.opts.memoize = false) (r : Rule) (s : PState) :
    parseRule (withOptimize E b) rec r s = parseRule E rec r s := by
  simp only [parseRule, wrap_opt E b hmz]

theorem leader_opt (hmz : E.opts.memoize = false) (hg : E.flags.globalState = true) (r : Rule)
    (startMark : Savepoint) :
    ∀ (k depth : Nat) (last : MemoVal) (lastErrs : List String) (s : PState),
      leaderLoop (withOptimize E b) rec r startMark k depth last lastErrs s =
        leaderLoop E rec r startMark k depth last lastErrs s
  | 0, _, _, _, _ => rfl
  | k + 1, depth, last, lastErrs, s => by
    simp only [leaderLoop, rule_opt E b rec hmz, restoreState_opt E b hg]
    congr 1; funext v ok s2
    split
    · rfl
    · exact leader_opt hmz hg r startMark k _ _ _ _

theorem ruleWrap_opt (hmz : E.opts.memoize = false) (hg : E.flags.globalState = true) (k : Nat)
    (r : Rule) (s : PState) :
    parseRuleWrap (withOptimize E b) rec k r s = parseRuleWrap E rec k r s := by
  have hl : parseRuleLeader (withOptimize E b) rec k r s = parseRuleLeader E rec k r s := by
    simp only [parseRuleLeader, leader_opt E b rec hmz hg]
  have hr := rule_opt E b rec hmz r s
  have hm' : (withOptimize E b).opts.memoize = false := hmz
  have hlr : (withOptimize E b).flags.leftRec = E.flags.leftRec := rfl
  unfold parseRuleWrap
  simp only [hm', hmz, hlr, hl, hr]
  cases E.flags.leftRec <;> cases b <;> cases ho : E.flags.optimize <;> cases r.leftRecursive <;>
    cases r.leader <;> simp [withOptimize, ho]

theorem body_opt (hmz : E.opts.memoize = false) (hg : E.flags.globalState = true) (k : Nat) (e : Expr)
    (s : PState) :
    parseExprBody (withOptimize E b) rec k e s = parseExprBody E rec k e s := by
  have hus := useState_opt E b hg
  cases e with
  | action id blk e1 =>
    simp only [parseExprBody, parseAction, wrap_opt E b hmz, callBlock_opt E b hg, restoreState_opt E b hg]
    rfl
  | andCode id blk =>
    simp only [parseExprBody, parseAndCode, runCodeBlock, callBlock_opt E b hg, restoreState_opt E b hg]; rfl
  | notCode id blk =>
    simp only [parseExprBody, parseNotCode, runCodeBlock, callBlock_opt E b hg, restoreState_opt E b hg]; rfl
  | stateCode id blk =>
    simp only [parseExprBody, parseStateCode, runCodeBlock, callBlock_opt E b hg, hus]; rfl
  | and id e1 => simp only [parseExprBody, parseAnd, wrap_opt E b hmz, restoreState_opt E b hg]
  | not id e1 => simp only [parseExprBody, parseNot, wrap_opt E b hmz, restoreState_opt E b hg]
  | any id => rfl
  | cls id c => rfl
  | choice id line col alts => exact choice_opt E b rec hmz hg line col alts 0 s
  | labeled id label e1 => simp only [parseExprBody, parseLabeled, wrap_opt E b hmz]
  | lit id val ic want => exact lit_opt E b _ _ _ _ _
  | oneOrMore id e1 => exact loop_opt E b rec hmz e1 k s []
  | zeroOrMore id e1 => simp only [parseExprBody, parseZeroOrMore, loop_opt E b rec hmz]
  | zeroOrOne id e1 => simp only [parseExprBody, parseZeroOrOne, wrap_opt E b hmz]
  | recovery id e1 r labels => simp only [parseExprBody, parseRecovery, wrap_opt E b hmz]
  | ruleRef id name =>
    simp only [parseExprBody, parseRuleRef, ruleWrap_opt E b rec hmz hg]
    rfl
  | seq id es => exact seq_opt E b rec hmz hg _ _ es s []
  | throw id label => exact throw_opt E b rec hmz label _ s

end

theorem parseExpr_opt (E : Env) (b : Bool) (hmz : E.opts.memoize = false)
    (hg : E.flags.globalState = true) :
    ∀ f : Nat, parseExpr (withOptimize E b) f = parseExpr E f
  | 0 => rfl
  | f + 1 => by
    funext e s
    simp only [parseExpr, parseExprStep]
    rw [parseExpr_opt E b hmz hg f, body_opt E b (parseExpr E f) hmz hg]
    rfl

end RT
end PV
