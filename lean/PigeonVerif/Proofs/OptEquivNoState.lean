/-
  -optimize-parser for grammars WITHOUT state-change blocks: the optimized parser has no state store
  at all (`{{ if or .GlobalState (not .Optimize) }}`), the standard one has. The two are the same
  parser up to that store: erasing the store (and the store columns of the block trace) from a run of
  the standard parser gives exactly the run of the optimized parser, provided the code blocks do not
  look at the store (in the optimized parser they cannot: `c.state` does not exist there).
-/
import PigeonVerif.Proofs.OptEquiv
import PigeonVerif.Proofs.FrameProof
import PigeonVerif.Proofs.Refine

namespace PV

mutual
/-- no state-change block anywhere in the expression -/
def Expr.noState : Expr → Bool
  | .stateCode _ _ => false
  | .action _ _ e | .and _ e | .not _ e | .labeled _ _ e | .oneOrMore _ e | .zeroOrMore _ e | .zeroOrOne _ e => e.noState
  | .recovery _ e r _ => e.noState && r.noState
  | .choice _ _ _ es | .seq _ es => noStateL es
  | .andCode _ _ | .notCode _ _ | .any _ | .cls _ _ | .lit _ _ _ _ | .ruleRef _ _ | .throw _ _ => true
def noStateL : List Expr → Bool
  | [] => true
  | e :: es => e.noState && noStateL es
end

namespace RT


/-- the code blocks neither read nor write the state store -/
structure StateBlind (E : Env) : Prop where
  indep : ∀ blk (ctx : Ctx) (st : Store),
    (E.code.run blk { ctx with state := st }).ret = (E.code.run blk ctx).ret ∧
    (E.code.run blk { ctx with state := st }).retB = (E.code.run blk ctx).retB ∧
    (E.code.run blk { ctx with state := st }).err = (E.code.run blk ctx).err ∧
    (E.code.run blk { ctx with state := st }).panic = (E.code.run blk ctx).panic ∧
    (E.code.run blk { ctx with state := st }).global = (E.code.run blk ctx).global
  keeps : ∀ blk (ctx : Ctx), (E.code.run blk ctx).state = ctx.state

def erEv (ev : Event) : Event := { ev with state := [], sout := [] }
/-- forget the state store -/
def er (s : PState) : PState := { s with state := [], trace := s.trace.map erEv }

def _root_.PV.Outcome.mapS (f : PState → PState) : Outcome → Outcome
  | .oof => .oof
  | .panic p s => .panic p (f s)
  | .done v ok s => .done v ok (f s)

/-- handler expressions in force contain no state block -/
def NS (s : PState) : Prop := ∀ fr ∈ s.recoveryStack, ∀ p ∈ fr, p.2.noState = true

structure Inv (s : PState) : Prop where
  ns : NS s
  memo : MemoOK s

theorem Inv.congr {s s' : PState} (h : Inv s) (h1 : s'.recoveryStack = s.recoveryStack) (h2 : s'.memo = s.memo) : Inv s' :=
  ⟨by unfold NS; rw [h1]; exact h.ns, h.memo.congr h2⟩

/-! ### the helpers commute with the erasure -/

@[simp] theorem er_pushV (s : PState) : er (pushV s) = pushV (er s) := rfl
@[simp] theorem er_popV (s : PState) : er (popV s) = popV (er s) := rfl
@[simp] theorem er_bump (s : PState) : er (bump s) = bump (er s) := rfl
@[simp] theorem er_hit (s : PState) : er (hit s) = hit (er s) := rfl
@[simp] theorem er_pushRecovery (s : PState) (l : List String) (r : Expr) : er (pushRecovery s l r) = pushRecovery (er s) l r := rfl
@[simp] theorem er_popRecovery (s : PState) : er (popRecovery s) = popRecovery (er s) := rfl
@[simp] theorem er_setMemoized (s : PState) (p : Savepoint) (k : MemoKey) (t : MemoVal) :
    er (setMemoized s p k t) = setMemoized (er s) p k t := rfl
@[simp] theorem er_incChoiceAlt (s : PState) (l c : Nat) (a : Option Nat) : er (incChoiceAlt s l c a) = incChoiceAlt (er s) l c a := rfl
@[simp] theorem er_setLabel (s : PState) (l : String) (v : Val) : er (setLabel s l v) = setLabel (er s) l v := by
  unfold setLabel er; simp only []; split <;> rfl
@[simp] theorem er_restore (s : PState) (pt : Savepoint) : er (restore s pt) = restore (er s) pt := by
  unfold restore; show er (if _ then _ else _) = if pt.pos.off = (er s).pt.pos.off then _ else _
  have : (er s).pt = s.pt := rfl
  rw [this]; split <;> rfl
@[simp] theorem er_failAt (s : PState) (b : Bool) (p : Pos) (w : String) : er (failAt s b p w) = failAt (er s) b p w := by
  unfold failAt failAtCore
  have h1 : (er s).maxFailPos = s.maxFailPos := rfl
  have h2 : (er s).maxFailInvert = s.maxFailInvert := rfl
  simp only [h1, h2]
  repeat' split
  all_goals rfl
@[simp] theorem er_pt (s : PState) : (er s).pt = s.pt := rfl
@[simp] theorem er_errs (s : PState) : (er s).errs = s.errs := rfl
@[simp] theorem er_vstack (s : PState) : (er s).vstack = s.vstack := rfl
@[simp] theorem er_rstack (s : PState) : (er s).rstack = s.rstack := rfl
@[simp] theorem er_recoveryStack (s : PState) : (er s).recoveryStack = s.recoveryStack := rfl
@[simp] theorem er_state (s : PState) : (er s).state = [] := rfl
@[simp] theorem er_maxFailInvert (s : PState) : (er s).maxFailInvert = s.maxFailInvert := rfl

section
variable (E : Env)

theorem er_addErrAt (E1 E2 : Env) (h : E2.opts = E1.opts) (s : PState) (m : String) (p : Pos) :
    er (addErrAt E1 s m p) = addErrAt E2 (er s) m p := by
  unfold addErrAt errPrefix
  simp only [h, er_rstack]
  rfl

end


/-! ### primitives that depend on the environment -/

abbrev E1 (E : Env) : Env := withOptimize E false
abbrev E2 (E : Env) : Env := withOptimize E true

section
variable {E : Env}

theorem useState1 : (E1 E).useState = true := by simp [Env.useState, withOptimize]
theorem useState2 (hg : E.flags.globalState = false) : (E2 E).useState = false := by
  simp [Env.useState, withOptimize, hg]

theorem er_restoreState (hg : E.flags.globalState = false) (s : PState) (st st' : Store) :
    er (restoreState (E1 E) s st) = restoreState (E2 E) (er s) st' := by
  simp only [restoreState, useState1, useState2 hg, if_true, Bool.false_eq_true, if_false]
  rfl

theorem er_addErr (s : PState) (m : String) : er (addErr (E1 E) s m) = addErr (E2 E) (er s) m := by
  unfold addErr; exact er_addErrAt _ _ rfl s m _
theorem er_addErrAtOpt (s : PState) (o : Option String) (p : Pos) :
    er (addErrAtOpt (E1 E) s o p) = addErrAtOpt (E2 E) (er s) o p := by
  unfold addErrAtOpt; cases o with
  | none => rfl
  | some m => exact er_addErrAt _ _ rfl s m p
theorem er_addErrOpt (s : PState) (o : Option String) :
    er (addErrOpt (E1 E) s o) = addErrOpt (E2 E) (er s) o := by
  unfold addErrOpt; exact er_addErrAtOpt s o _

theorem er_read (s : PState) : er (read (E1 E) s) = read (E2 E) (er s) := by
  rw [read_eq, read_eq]
  have hi : (E2 E).input = (E1 E).input := rfl
  have ha : (E2 E).opts = (E1 E).opts := rfl
  simp only [er_pt, hi, ha]
  split
  · exact er_addErr _ _
  · rfl

theorem sliceFrom_er (s : PState) (start : Savepoint) : sliceFrom (E2 E) (er s) start = sliceFrom (E1 E) s start := rfl

/-- one code-block invocation -/
theorem callBlock_er (hg : E.flags.globalState = false) (hb : StateBlind E) (blk : Nat) (s : PState) :
    (callBlock (E2 E) blk (er s)).1.ret = (callBlock (E1 E) blk s).1.ret ∧
    (callBlock (E2 E) blk (er s)).1.retB = (callBlock (E1 E) blk s).1.retB ∧
    (callBlock (E2 E) blk (er s)).1.err = (callBlock (E1 E) blk s).1.err ∧
    (callBlock (E2 E) blk (er s)).1.panic = (callBlock (E1 E) blk s).1.panic ∧
    (callBlock (E2 E) blk (er s)).2 = er (callBlock (E1 E) blk s).2 := by
  have h0 := hb.indep blk
    { pos := s.curPos, text := s.curText,
      args := (E.code.args blk).map (fun n => (lookup n (s.vstack.headD [])).getD Val.nil),
      state := s.state, global := s.global, calli := s.nCalls } []
  have hk := hb.keeps blk
    { pos := s.curPos, text := s.curText,
      args := (E.code.args blk).map (fun n => (lookup n (s.vstack.headD [])).getD Val.nil),
      state := [], global := s.global, calli := s.nCalls }
  obtain ⟨a1, a2, a3, a4, a5⟩ := h0
  unfold callBlock
  simp only [useState1, useState2 hg, if_true, Bool.false_eq_true, if_false, er_vstack]
  refine ⟨a1, a2, a3, a4, ?_⟩
  show _ = er _
  simp only [er, erEv, List.map_cons]
  have a5' := a5
  have hk' := hk
  simp only [] at a5' hk'
  show PState.mk .. = PState.mk ..
  congr 1
  all_goals first
    | exact a5'
    | (congr 1
       show Event.mk .. = Event.mk ..
       congr 1 <;> first | exact hk' | exact a5' | rfl)

end


theorem matchOne_er {E : Env} (s : PState) (w : String) :
    (matchOne (E1 E) s w).mapS er = matchOne (E2 E) (er s) w := by
  unfold matchOne
  simp only [Outcome.mapS, er_failAt]
  rw [← er_read]
  rfl

theorem lookup_noState {label : String} : ∀ {fr : List (String × Expr)} {r : Expr},
    lookup label fr = some r → (∀ p ∈ fr, p.2.noState = true) → r.noState = true
  | [], _, h, _ => by simp [lookup] at h
  | (k, v) :: rest, r, h, hall => by
    unfold lookup at h
    split at h
    · cases h; exact hall (k, v) (by simp)
    · exact lookup_noState h (fun p hp => hall p (by simp [hp]))

theorem mapS_bind {o : Outcome} {k1 k2 : Val → Bool → PState → Outcome}
    {Q : Val → Bool → PState → Prop} {P : PState → Prop} (hs : o.Sat Q P)
    (hk : ∀ v ok s1, Q v ok s1 → (k1 v ok s1).mapS er = k2 v ok (er s1)) :
    (o.bind k1).mapS er = (o.mapS er).bind k2 := by
  cases o with
  | oof => rfl
  | panic p s => rfl
  | done v ok s => exact hk v ok s hs

section main
variable {E : Env} {rec1 rec2 : Expr → PState → Outcome}
variable (hg : E.flags.globalState = false) (hmz : E.opts.memoize = false) (hb : StateBlind E)
  (hG : ∀ n r, E.findRule n = some r → r.expr.noState = true)
  (hrec : ∀ e s, e.noState = true → Inv s → (rec1 e s).mapS er = rec2 e (er s))
  (hfr : ∀ e s, FrameInv (E1 E) s (rec1 e s))
include hmz hrec hfr

/-- one recursive call: the erased result, and what the frame theorem says about the state after it -/
theorem call_er (e : Expr) (s : PState) (he : e.noState = true) (hi : Inv s) :
    (parseExprWrap (E1 E) rec1 e s).mapS er = parseExprWrap (E2 E) rec2 e (er s) ∧
    (parseExprWrap (E1 E) rec1 e s).Sat (fun _ ok s1 => Framed (E1 E) s ok s1 ∧ Inv s1) (fun _ => True) := by
  have h1 : parseExprWrap (E1 E) rec1 e s = rec1 e s := wrap_eq (E := E1 E) hmz e s
  have h2 : parseExprWrap (E2 E) rec2 e (er s) = rec2 e (er s) := by
    unfold parseExprWrap; simp [withOptimize]
  rw [h1, h2]
  refine ⟨hrec e s he hi, ?_⟩
  have := hfr e s hi.memo
  revert this
  generalize rec1 e s = o
  cases o with
  | oof => intro _; trivial
  | panic p s1 => intro _; trivial
  | done v ok s1 =>
    intro h
    exact ⟨h, ⟨by unfold NS; rw [h.stk.recov]; exact hi.ns, h.memo⟩⟩

include hg

theorem seq_er (pt : Savepoint) (st st' : Store) : ∀ (es : List Expr) (s : PState) (acc : List Val),
    noStateL es = true → Inv s →
    (parseSeq (E1 E) rec1 pt st es s acc).mapS er = parseSeq (E2 E) rec2 pt st' es (er s) acc
  | [], s, acc, _, _ => rfl
  | e :: es, s, acc, hes, hi => by
    simp only [noStateL, Bool.and_eq_true] at hes
    obtain ⟨hc, hs⟩ := call_er hmz hrec hfr e s hes.1 hi
    unfold parseSeq
    rw [← hc]
    refine mapS_bind hs (fun v ok s1 ⟨_, hi1⟩ => ?_)
    cases ok with
    | true => simp only [if_true]; exact seq_er pt st st' es s1 _ hes.2 hi1
    | false =>
      simp only [Bool.false_eq_true, if_false, Outcome.mapS, er_restore, er_restoreState hg s1 st st']

theorem choice_er (line col : Nat) : ∀ (alts : List Expr) (i : Nat) (s : PState), noStateL alts = true → Inv s →
    (parseChoice (E1 E) rec1 line col alts i s).mapS er = parseChoice (E2 E) rec2 line col alts i (er s)
  | [], _, s, _, _ => rfl
  | a :: alts, i, s, hes, hi => by
    simp only [noStateL, Bool.and_eq_true] at hes
    obtain ⟨hc, hs⟩ := call_er hmz hrec hfr a (pushV s) hes.1 (hi.congr rfl rfl)
    unfold parseChoice
    simp only [er_pushV] at hc
    simp only []
    rw [← hc]
    refine mapS_bind hs (fun v ok s1 ⟨hf, hi1⟩ => ?_)
    cases ok with
    | true => simp only [if_true, Outcome.mapS, er_incChoiceAlt, er_popV]
    | false =>
      simp only [Bool.false_eq_true, if_false]
      have := choice_er line col alts (i + 1) (restoreState (E1 E) (popV s1) s.state) hes.2
        (hi1.congr (by simp) (by simp))
      rw [this, er_restoreState hg (popV s1) s.state (er s).state, er_popV]

theorem loop_er (e : Expr) (he : e.noState = true) : ∀ (k : Nat) (s : PState) (acc : List Val), Inv s →
    (parseLoop (E1 E) rec1 e k s acc).mapS er = parseLoop (E2 E) rec2 e k (er s) acc
  | 0, _, _, _ => rfl
  | k + 1, s, acc, hi => by
    obtain ⟨hc, hs⟩ := call_er hmz hrec hfr e (pushV s) he (hi.congr rfl rfl)
    unfold parseLoop
    simp only [er_pushV] at hc
    simp only []
    rw [← hc]
    refine mapS_bind hs (fun v ok s1 ⟨hf, hi1⟩ => ?_)
    cases ok with
    | true =>
      simp only [if_true]
      have := loop_er e he k (popV s1) (v :: acc) (hi1.congr (by simp) (by simp))
      rw [this, er_popV]
    | false =>
      simp only [Bool.false_eq_true, if_false]
      split <;> simp [Outcome.mapS]

omit hmz hrec hfr hg in
theorem lit_er (start : Savepoint) (want : String) (ic : Bool) : ∀ (rs : List Rune) (s : PState),
    (parseLit (E1 E) start want ic rs s).mapS er = parseLit (E2 E) start want ic rs (er s)
  | [], s => by
    unfold parseLit
    simp only [Outcome.mapS, er_failAt, sliceFrom_er]
  | r :: rs, s => by
    rw [parseLit, parseLit]
    have hcond : (decide (litCur (E2 E) ic (er s) ≠ r) || decide ((er s).pt.w = 0)) =
        (decide (litCur (E1 E) ic s ≠ r) || decide (s.pt.w = 0)) := rfl
    by_cases hc : (decide (litCur (E1 E) ic s ≠ r) || decide (s.pt.w = 0)) = true
    · rw [if_pos hc, if_pos (hcond.trans hc)]; simp only [Outcome.mapS, er_restore, er_failAt]
    · have hc2 : ¬ (decide (litCur (E2 E) ic (er s) ≠ r) || decide ((er s).pt.w = 0)) = true := by rw [hcond]; exact hc
      rw [if_neg hc, if_neg hc2, lit_er start want ic rs (read (E1 E) s), er_read]

omit hg in
theorem throw_er (label : String) : ∀ (frames : List (List (String × Expr))) (s : PState),
    (∀ fr ∈ frames, ∀ p ∈ fr, p.2.noState = true) → Inv s →
    (parseThrow (E1 E) rec1 label frames s).mapS er = parseThrow (E2 E) rec2 label frames (er s)
  | [], _, _, _ => rfl
  | fr :: frs, s, hall, hi => by
    unfold parseThrow
    cases hl : lookup label fr with
    | none => simp only []; exact throw_er label frs s (fun f hf => hall f (by simp [hf])) hi
    | some r =>
      simp only []
      have hr : r.noState = true := lookup_noState hl (hall fr (by simp))
      obtain ⟨hc, hs⟩ := call_er hmz hrec hfr r s hr hi
      rw [← hc]
      refine mapS_bind hs (fun v ok s1 ⟨hf, hi1⟩ => ?_)
      cases ok with
      | true => rfl
      | false =>
        simp only [Bool.false_eq_true, if_false]
        exact throw_er label frs s1 (fun f hf => hall f (by simp [hf])) hi1

omit hg in
theorem rule_er (r : Rule) (s : PState) (hr : r.expr.noState = true) (hi : Inv s) :
    (parseRule (E1 E) rec1 r s).mapS er = parseRule (E2 E) rec2 r (er s) ∧
    (parseRule (E1 E) rec1 r s).Sat (fun _ ok s1 => Framed (E1 E) s ok s1 ∧ Inv s1) (fun _ => True) := by
  have hfrr := rule_frame hfr r s hi.memo
  refine ⟨?_, ?_⟩
  · obtain ⟨hc, hs⟩ := call_er hmz hrec hfr r.expr (pushV { s with rstack := r :: s.rstack }) hr (hi.congr rfl rfl)
    unfold parseRule
    simp only []
    have : er (pushV { s with rstack := r :: s.rstack }) = pushV { er s with rstack := r :: (er s).rstack } := rfl
    rw [this] at hc
    rw [← hc]
    exact mapS_bind hs (fun v ok s1 _ => rfl)
  · revert hfrr
    generalize parseRule (E1 E) rec1 r s = o
    cases o with
    | oof => intro _; trivial
    | panic p s1 => intro _; trivial
    | done v ok s1 =>
      intro h
      exact ⟨h, ⟨by unfold NS; rw [h.stk.recov]; exact hi.ns, h.memo⟩⟩

theorem leaderLoop_er (r : Rule) (hr : r.expr.noState = true) (startMark : Savepoint) :
    ∀ (k depth : Nat) (last : MemoVal) (lastErrs : List String) (s : PState), Inv s →
      (last.b = false → last.end.pos.off = startMark.pos.off) →
      (leaderLoop (E1 E) rec1 r startMark k depth last lastErrs s).mapS er =
        leaderLoop (E2 E) rec2 r startMark k depth last lastErrs (er s)
  | 0, _, _, _, _, _, _ => rfl
  | k + 1, depth, last, lastErrs, s, hi, hl => by
    unfold leaderLoop
    simp only []
    have hi1 : Inv (setMemoized s startMark (.rule r.name) last) := ⟨by unfold NS; rw [show (setMemoized s startMark (.rule r.name) last).recoveryStack = s.recoveryStack from by simp]; exact hi.ns,
       hi.memo.set hl⟩
    obtain ⟨hc, hs⟩ := rule_er hmz hrec hfr r (setMemoized s startMark (.rule r.name) last) hr hi1
    rw [er_setMemoized] at hc
    rw [← hc]
    refine mapS_bind hs (fun v ok s2 ⟨hf, hi2⟩ => ?_)
    have hpt : (er s2).pt = s2.pt := rfl
    simp only [hpt]
    split
    · simp only [Outcome.mapS, er_setMemoized, er_restore]
      rw [show er ({ restoreState (E1 E) s2 s.state with errs := lastErrs }) =
            { restoreState (E2 E) (er s2) (er s).state with errs := lastErrs } from by
          rw [← er_restoreState hg s2 s.state (er s).state]; rfl]
    · have := leaderLoop_er r hr startMark k (depth + 1) { v := v, b := ok, «end» := s2.pt } s2.errs (restore s2 startMark)
        (hi2.congr (by simp) (by simp)) (fun hb => by
          rename_i hcnd
          cases ok with
          | true => cases hb
          | false => simp at hcnd)
      rw [this, er_restore]
      rfl

theorem ruleWrap_er (k : Nat) (r : Rule) (s : PState) (hr : r.expr.noState = true) (hi : Inv s) :
    (parseRuleWrap (E1 E) rec1 k r s).mapS er = parseRuleWrap (E2 E) rec2 k r (er s) := by
  have hl : (parseRuleLeader (E1 E) rec1 k r s).mapS er = parseRuleLeader (E2 E) rec2 k r (er s) := by
    unfold parseRuleLeader
    have hgm : getMemoized (er s) (.rule r.name) = getMemoized s (.rule r.name) := rfl
    rw [hgm]
    cases getMemoized s (.rule r.name) with
    | some res => simp only [Outcome.mapS, er_restore]
    | none =>
      simp only []
      exact leaderLoop_er hg hmz hrec hfr r hr s.pt k 0 _ s.errs s hi (fun _ => rfl)
  have hrl := (rule_er hmz hrec hfr r s hr hi).1
  have f1 : (E1 E).flags.leftRec = E.flags.leftRec := rfl
  have f2 : (E2 E).flags.leftRec = E.flags.leftRec := rfl
  have f3 : (E1 E).flags.optimize = false := rfl
  have f4 : (E2 E).flags.optimize = true := rfl
  have f5 : (E1 E).opts.memoize = false := hmz
  have f6 : (E2 E).opts.memoize = false := hmz
  unfold parseRuleWrap
  cases h1 : E.flags.leftRec <;> cases h4 : r.leftRecursive <;> cases h5 : r.leader <;>
    simp only [f1, f2, f3, f4, f5, f6, h1, h4, h5, Bool.and_true, Bool.and_false, Bool.true_and, Bool.false_and, Bool.or_true,
      Bool.or_false, Bool.true_or, Bool.false_or, Bool.not_true, Bool.not_false, if_true, if_false, Bool.false_eq_true] <;>
    first | exact hl | exact hrl

include hb hG in
theorem body_er (k : Nat) (e : Expr) (s : PState) (he : e.noState = true) (hi : Inv s) :
    (parseExprBody (E1 E) rec1 k e s).mapS er = parseExprBody (E2 E) rec2 k e (er s) := by
  have call := call_er hmz hrec hfr
  have hrun : ∀ (blk : Nat) (k1 k2 : BlockResult → PState → Outcome),
      (∀ r r' s2, r'.ret = r.ret → r'.retB = r.retB → (k1 r s2).mapS er = k2 r' (er s2)) →
      (runCodeBlock (E1 E) blk s k1).mapS er = runCodeBlock (E2 E) blk (er s) k2 := by
    intro blk k1 k2 hk
    obtain ⟨c1, c2, c3, c4, c5⟩ := callBlock_er hg hb blk s
    unfold runCodeBlock
    simp only []
    rw [c4, c5, c3]
    cases (callBlock (E1 E) blk s).1.panic with
    | some p => rfl
    | none =>
      simp only []
      rw [← er_addErrOpt]
      exact hk _ _ _ c1 c2
  have hact : ∀ (blk0 : Nat) (s2 : PState) (pos : Pos) (saved saved' : Store),
      (match (callBlock (E1 E) blk0 s2).1.panic with
        | some p => Outcome.panic p (callBlock (E1 E) blk0 s2).2
        | none => Outcome.done (callBlock (E1 E) blk0 s2).1.ret true
            (restoreState (E1 E) (addErrAtOpt (E1 E) (callBlock (E1 E) blk0 s2).2 (callBlock (E1 E) blk0 s2).1.err pos) saved)).mapS er =
      (match (callBlock (E2 E) blk0 (er s2)).1.panic with
        | some p => Outcome.panic p (callBlock (E2 E) blk0 (er s2)).2
        | none => Outcome.done (callBlock (E2 E) blk0 (er s2)).1.ret true
            (restoreState (E2 E) (addErrAtOpt (E2 E) (callBlock (E2 E) blk0 (er s2)).2 (callBlock (E2 E) blk0 (er s2)).1.err pos) saved')) := by
    intro blk0 s2 pos saved saved'
    obtain ⟨c1, c2, c3, c4, c5⟩ := callBlock_er hg hb blk0 s2
    rw [c4, c5, c3, c1]
    cases (callBlock (E1 E) blk0 s2).1.panic with
    | some p => rfl
    | none =>
      simp only [Outcome.mapS]
      rw [← er_addErrAtOpt, ← er_restoreState hg _ saved saved']
  cases e with
  | stateCode id blk => simp [Expr.noState] at he
  | andCode id blk =>
    simp only [parseExprBody, parseAndCode]
    apply hrun
    intro r r' s2 _ h2
    simp only [Outcome.mapS, h2, er_restoreState hg s2 s.state (er s).state]
  | notCode id blk =>
    simp only [parseExprBody, parseNotCode]
    apply hrun
    intro r r' s2 _ h2
    simp only [Outcome.mapS, h2, er_restoreState hg s2 s.state (er s).state]
  | any id =>
    have h2 : parseAny (E2 E) (er s) =
        (if s.pt.rn = runeError && s.pt.w = 0 then .done .nil false (failAt (er s) false s.pt.pos ".")
         else matchOne (E2 E) (er s) ".") := rfl
    simp only [parseExprBody]
    rw [h2, parseAny]
    split
    · simp only [Outcome.mapS, er_failAt]
    · exact matchOne_er s "."
  | cls id c =>
    have h2 : parseCharClass (E2 E) c (er s) =
        (if (E1 E).flags.basicLatin && s.pt.rn < 128 then
          (if c.basicLatin.getD s.pt.rn false != c.inverted then matchOne (E2 E) (er s) c.val
           else .done .nil false (failAt (er s) false s.pt.pos c.val))
         else if s.pt.rn = runeError && s.pt.w = 0 then .done .nil false (failAt (er s) false s.pt.pos c.val)
         else if classContains (E1 E) c s.pt.rn != c.inverted then matchOne (E2 E) (er s) c.val
         else .done .nil false (failAt (er s) false s.pt.pos c.val)) := rfl
    simp only [parseExprBody]
    rw [h2, parseCharClass]
    repeat' split
    all_goals first
      | exact matchOne_er s c.val
      | simp only [Outcome.mapS, er_failAt]
  | lit id val ic want => exact lit_er _ _ _ _ _
  | action id blk e1 =>
    simp only [Expr.noState] at he
    obtain ⟨hc, hs⟩ := call e1 s he hi
    simp only [parseExprBody, parseAction]
    rw [← hc]
    refine mapS_bind hs (fun v ok s1 ⟨hf, hi1⟩ => ?_)
    cases ok with
    | false => rfl
    | true =>
      simp only [if_true]
      exact hact blk { s1 with curPos := s.pt.pos, curText := sliceFrom (E1 E) s1 s.pt } s.pt.pos s1.state (er s1).state
  | and id e1 =>
    simp only [Expr.noState] at he
    obtain ⟨hc, hs⟩ := call e1 (pushV s) he (hi.congr rfl rfl)
    simp only [parseExprBody, parseAnd]
    rw [er_pushV] at hc
    rw [← hc]
    refine mapS_bind hs (fun v ok s1 _ => ?_)
    simp only [Outcome.mapS, er_restore, er_restoreState hg (popV s1) s.state (er s).state, er_popV, er_pt]
  | not id e1 =>
    simp only [Expr.noState] at he
    obtain ⟨hc, hs⟩ := call e1 { pushV s with maxFailInvert := !s.maxFailInvert } he (hi.congr rfl rfl)
    simp only [parseExprBody, parseNot]
    have h0 : er { pushV s with maxFailInvert := !s.maxFailInvert } =
        { pushV (er s) with maxFailInvert := !(er s).maxFailInvert } := rfl
    rw [h0] at hc
    rw [← hc]
    refine mapS_bind hs (fun v ok s1 _ => ?_)
    simp only [Outcome.mapS, er_restore, er_pt]
    rw [er_restoreState hg (popV { s1 with maxFailInvert := !s1.maxFailInvert }) s.state (er s).state]
    rfl
  | labeled id l e1 =>
    simp only [Expr.noState] at he
    obtain ⟨hc, hs⟩ := call e1 (pushV s) he (hi.congr rfl rfl)
    simp only [parseExprBody, parseLabeled]
    rw [er_pushV] at hc
    rw [← hc]
    refine mapS_bind hs (fun v ok s1 _ => ?_)
    simp only [Outcome.mapS]
    split <;> simp only [er_setLabel, er_popV]
  | zeroOrOne id e1 =>
    simp only [Expr.noState] at he
    obtain ⟨hc, hs⟩ := call e1 (pushV s) he (hi.congr rfl rfl)
    simp only [parseExprBody, parseZeroOrOne]
    rw [er_pushV] at hc
    rw [← hc]
    exact mapS_bind hs (fun v ok s1 _ => rfl)
  | recovery id e1 r labels =>
    simp only [Expr.noState, Bool.and_eq_true] at he
    have hi' : Inv (pushRecovery s labels r) := by
      refine ⟨?_, hi.memo.congr (by simp)⟩
      intro fr hfr p hp
      simp only [pushRecovery, List.mem_cons] at hfr
      rcases hfr with rfl | hfr
      · simp only [List.mem_reverse, List.mem_map] at hp
        obtain ⟨l, _, rfl⟩ := hp
        exact he.2
      · exact hi.ns fr hfr p hp
    obtain ⟨hc, hs⟩ := call e1 (pushRecovery s labels r) he.1 hi'
    simp only [parseExprBody, parseRecovery]
    rw [er_pushRecovery] at hc
    rw [← hc]
    exact mapS_bind hs (fun v ok s1 _ => rfl)
  | choice id line col alts =>
    simp only [Expr.noState] at he
    exact choice_er hg hmz hrec hfr line col alts 0 s he hi
  | seq id es =>
    simp only [Expr.noState] at he
    exact seq_er hg hmz hrec hfr s.pt s.state (er s).state es s [] he hi
  | oneOrMore id e1 =>
    simp only [Expr.noState] at he
    exact loop_er hg hmz hrec hfr e1 he k s [] hi
  | zeroOrMore id e1 =>
    simp only [Expr.noState] at he
    simp only [parseExprBody, parseZeroOrMore]
    rw [← loop_er hg hmz hrec hfr e1 he k s [] hi]
    cases parseLoop (E1 E) rec1 e1 k s [] with
    | oof => rfl
    | panic p s1 => rfl
    | done v ok s1 => cases ok <;> rfl
  | throw id label =>
    simp only [parseExprBody]
    exact throw_er hmz hrec hfr label s.recoveryStack s hi.ns hi
  | ruleRef id name =>
    simp only [parseExprBody, parseRuleRef]
    split
    · rfl
    · have hfind : (E2 E).findRule name = (E1 E).findRule name := rfl
      rw [hfind]
      cases hf : (E1 E).findRule name with
      | none => simp only [Outcome.mapS, er_addErr]
      | some r => exact ruleWrap_er hg hmz hrec hfr k r s (hG name r hf) hi

end main

/-- the erased run of the standard parser IS the run of the optimized parser, at every depth -/
theorem parseExpr_er (E : Env) (hg : E.flags.globalState = false) (hmz : E.opts.memoize = false) (hb : StateBlind E)
    (hG : ∀ n r, E.findRule n = some r → r.expr.noState = true) :
    ∀ (f : Nat) (e : Expr) (s : PState), e.noState = true → Inv s →
      (parseExpr (E1 E) f e s).mapS er = parseExpr (E2 E) f e (er s)
  | 0, _, _, _, _ => rfl
  | f + 1, e, s, he, hi => by
    show (parseExprStep (E1 E) (parseExpr (E1 E) f) f e s).mapS er = parseExprStep (E2 E) (parseExpr (E2 E) f) f e (er s)
    unfold parseExprStep
    have hob : overBudget (E2 E) (bump (er s)) = overBudget (E1 E) (bump s) := rfl
    rw [hob]
    split
    · rfl
    · exact body_er hg hmz hb hG (parseExpr_er E hg hmz hb hG f) (parseExpr_frame (E1 E) f) f e (bump s) he
        (hi.congr rfl rfl)

end RT
end PV
