/-
  Positions are a pure function of the input and the byte offset.

  `Reach inp pt`: `pt` is one of the savepoints the reader passes through when it reads the input
  from the start (the k-th one, every earlier rune having positive width). Two reachable
  savepoints with the same offset are equal (`Reach.unique`): line, column, current rune and its
  width are determined by the offset alone.
-/
import PigeonVerif.Properties.C17

namespace PV
namespace RT

/-- the savepoint `read` moves to (the part of `read` that does not touch the error list) -/
def nextPt (inp : List Nat) (pt : Savepoint) : Savepoint :=
  let off := pt.pos.off + pt.w
  let d := decodeRune (inp.drop off)
  if d.1 = 10 then { pos := { line := pt.pos.line + 1, col := 0, off := off }, rn := d.1, w := d.2 }
  else { pos := { line := pt.pos.line, col := pt.pos.col + 1, off := off }, rn := d.1, w := d.2 }

theorem read_pt (E : Env) (s : PState) : (read E s).pt = nextPt E.input s.pt := by
  unfold read nextPt
  rcases hd : decodeRune (E.input.drop (s.pt.pos.off + s.pt.w)) with ⟨rn, n⟩
  simp only []
  split <;> split <;> simp_all [addErr, addErrAt]

@[simp] theorem nextPt_off (inp : List Nat) (pt : Savepoint) : (nextPt inp pt).pos.off = pt.pos.off + pt.w := by
  unfold nextPt; simp only []; split <;> rfl

/-- the parser's savepoint before the first `read` -/
def pt0 : Savepoint := { pos := { line := 1, col := 0, off := 0 }, rn := 0, w := 0 }

/-- the savepoint after `k+1` reads -/
def ptIter (inp : List Nat) : Nat → Savepoint
  | 0 => nextPt inp pt0
  | k + 1 => nextPt inp (ptIter inp k)

def Reach (inp : List Nat) (pt : Savepoint) : Prop :=
  ∃ k, pt = ptIter inp k ∧ ∀ j, j < k → (ptIter inp j).w ≠ 0

theorem Reach.first (inp : List Nat) : Reach inp (nextPt inp pt0) := ⟨0, rfl, fun _ h => absurd h (Nat.not_lt_zero _)⟩

theorem Reach.next {inp : List Nat} {pt : Savepoint} (h : Reach inp pt) (hw : pt.w ≠ 0) : Reach inp (nextPt inp pt) := by
  obtain ⟨k, rfl, hk⟩ := h
  refine ⟨k + 1, rfl, fun j hj => ?_⟩
  by_cases hjk : j = k
  · subst hjk; exact hw
  · exact hk j (by omega)

theorem ptIter_off_lt (inp : List Nat) (k : Nat) (hk : ∀ j, j < k → (ptIter inp j).w ≠ 0) :
    ∀ j, j < k → (ptIter inp j).pos.off < (ptIter inp k).pos.off := by
  induction k with
  | zero => intro j hj; omega
  | succ k ih =>
    intro j hj
    have hstep : (ptIter inp (k + 1)).pos.off = (ptIter inp k).pos.off + (ptIter inp k).w := by
      simp [ptIter]
    have hwk := hk k (Nat.lt_succ_self k)
    by_cases hjk : j = k
    · subst hjk; omega
    · have := ih (fun j hj => hk j (by omega)) j (by omega)
      omega

/-- **Position purity**: a reachable savepoint is determined by its offset. -/
theorem Reach.unique {inp : List Nat} {a b : Savepoint} (ha : Reach inp a) (hb : Reach inp b)
    (h : a.pos.off = b.pos.off) : a = b := by
  obtain ⟨k1, rfl, h1⟩ := ha
  obtain ⟨k2, rfl, h2⟩ := hb
  rcases Nat.lt_trichotomy k1 k2 with hlt | heq | hgt
  · have := ptIter_off_lt inp k2 h2 k1 hlt; omega
  · subst heq; rfl
  · have := ptIter_off_lt inp k1 h1 k2 hgt; omega

theorem dec2_w (p0 : Nat) (l : List Nat) : 1 ≤ (dec2 p0 l).2 := by
  unfold dec2; split
  · split <;> simp
  · simp

theorem dec3_w (p0 lo hi : Nat) (l : List Nat) : 1 ≤ (dec3 p0 lo hi l).2 := by
  unfold dec3; split
  · split <;> simp
  · simp

theorem dec4_w (p0 lo hi : Nat) (l : List Nat) : 1 ≤ (dec4 p0 lo hi l).2 := by
  unfold dec4; split
  · split <;> simp
  · simp

theorem decode_width_pos (b : Nat) (bs : List Nat) : 1 ≤ (decodeRune (b :: bs)).2 := by
  simp only [decodeRune]
  repeat' split
  all_goals first | simp | exact dec2_w _ _ | exact dec3_w _ _ _ _ | exact dec4_w _ _ _ _

theorem decode_w0 (bs : List Nat) (h : (decodeRune bs).2 = 0) : (decodeRune bs).1 = runeError := by
  cases bs with
  | nil => rfl
  | cons b bs => have := decode_width_pos b bs; omega

theorem nextPt_w0 (inp : List Nat) (pt : Savepoint) (h : (nextPt inp pt).w = 0) : (nextPt inp pt).rn = runeError := by
  unfold nextPt at h ⊢
  simp only [] at h ⊢
  split at h <;> simp_all [decode_w0]
  all_goals (first | exact decode_w0 _ h | skip)

/-- at a reachable savepoint width 0 means end of input: the current rune is the error rune -/
theorem Reach.w0 {inp : List Nat} {pt : Savepoint} (h : Reach inp pt) (hw : pt.w = 0) : pt.rn = runeError := by
  obtain ⟨k, rfl, _⟩ := h
  cases k with
  | zero => exact nextPt_w0 _ _ hw
  | succ k => exact nextPt_w0 _ _ hw

end RT
end PV
