/-
  `Mid.reachFrom` (the breadth-first closure used by the left-recursion specification and the SCC model) computes the
  set of vertices reachable in at least one step, on graphs whose edges stay inside the vertex list. Consequence: a
  graph in which no vertex reaches itself has a ranking that strictly decreases along every edge (the number of
  reachable vertices).
-/
import PigeonVerif.Proofs.MidLemmas

namespace PV
namespace Mid

theorem nodup_addName (n : String) (l : List String) (h : l.Nodup) : (addName n l).Nodup := by
  unfold addName
  split
  · exact h
  · rename_i hc
    have hn : n ∉ l := by simpa using hc
    rw [List.nodup_append]
    exact ⟨h, by simp, fun a ha b hb => by simp at hb; subst hb; exact fun e => hn (e ▸ ha)⟩

theorem nodup_union (a b : List String) (h : a.Nodup) : (union a b).Nodup := by
  unfold union
  induction b generalizing a with
  | nil => simpa using h
  | cons n ns ih => simp only [List.foldl_cons]; exact ih _ (nodup_addName n a h)

theorem nodup_len_le {α : Type} [DecidableEq α] : ∀ (l u : List α), l.Nodup → (∀ x ∈ l, x ∈ u) → l.length ≤ u.length
  | [], _, _, _ => Nat.zero_le _
  | x :: l, u, hn, hs => by
    rw [List.nodup_cons] at hn
    have hx : x ∈ u := hs x List.mem_cons_self
    have := nodup_len_le l (u.erase x) hn.2 (fun y hy => by
      have hne : y ≠ x := fun e => hn.1 (e ▸ hy)
      exact (List.mem_erase_of_ne hne).mpr (hs y (List.mem_cons_of_mem _ hy)))
    rw [List.length_erase_of_mem hx] at this
    have hpos : 0 < u.length := List.length_pos_of_mem hx
    simp only [List.length_cons]
    omega

/-- a path with at least one edge -/
inductive Path (g : Graph) : String → String → Prop
  | edge {a b : String} : b ∈ succs g a → Path g a b
  | step {a b c : String} : b ∈ succs g a → Path g b c → Path g a c

theorem Path.trans {g : Graph} {a b c : String} (h1 : Path g a b) (h2 : Path g b c) : Path g a c := by
  induction h1 with
  | edge h => exact .step h h2
  | step h _ ih => exact .step h (ih h2)

theorem Path.snoc {g : Graph} {a b c : String} (h1 : Path g a b) (h2 : c ∈ succs g b) : Path g a c :=
  h1.trans (.edge h2)

/-- edges stay inside the vertex list -/
def GraphOK (g : Graph) : Prop := ∀ v, ∀ t ∈ succs g v, t ∈ g.map (·.1)

/-- the successors of a list of vertices -/
def nextOf (g : Graph) (frontier : List String) : List String :=
  frontier.foldl (fun acc u => union acc (succs g u)) []

theorem mem_nextOf_aux (g : Graph) (x : String) : ∀ (fr acc : List String),
    x ∈ fr.foldl (fun acc u => union acc (succs g u)) acc ↔ x ∈ acc ∨ ∃ u ∈ fr, x ∈ succs g u
  | [], acc => by simp
  | u :: us, acc => by
    simp only [List.foldl_cons]
    rw [mem_nextOf_aux g x us (union acc (succs g u)), mem_union]
    constructor
    · rintro ((h | h) | ⟨w, hw, hx⟩)
      · exact Or.inl h
      · exact Or.inr ⟨u, List.mem_cons_self, h⟩
      · exact Or.inr ⟨w, List.mem_cons_of_mem _ hw, hx⟩
    · rintro (h | ⟨w, hw, hx⟩)
      · exact Or.inl (Or.inl h)
      · rcases List.mem_cons.mp hw with rfl | hw'
        · exact Or.inl (Or.inr hx)
        · exact Or.inr ⟨w, hw', hx⟩

theorem mem_nextOf (g : Graph) (x : String) (fr : List String) : x ∈ nextOf g fr ↔ ∃ u ∈ fr, x ∈ succs g u := by
  unfold nextOf; rw [mem_nextOf_aux]; simp

/-- the invariant of the breadth-first search from `v0` -/
structure BInv (g : Graph) (v0 : String) (frontier seen : List String) : Prop where
  nodup : seen.Nodup
  inside : ∀ x ∈ seen, x ∈ g.map (·.1)
  sound : ∀ x ∈ seen, Path g v0 x
  fsound : ∀ x ∈ frontier, x = v0 ∨ Path g v0 x
  /-- whatever has been expanded has its successors in `seen` -/
  closed : ∀ x, (x = v0 ∨ x ∈ seen) → x ∉ frontier → ∀ y ∈ succs g x, y ∈ seen

theorem go_spec (g : Graph) (hg : GraphOK g) (v0 : String) : ∀ (k : Nat) (frontier seen : List String),
    BInv g v0 frontier seen → g.length + 1 ≤ seen.length + k →
    let R := reachFrom.go g k frontier seen
    R.Nodup ∧ (∀ x ∈ R, Path g v0 x) ∧ (∀ x, (x = v0 ∨ x ∈ R) → ∀ y ∈ succs g x, y ∈ R) ∧ (∀ x ∈ seen, x ∈ R)
  | 0, frontier, seen, hi, hk => by
    have := nodup_len_le seen (g.map (·.1)) hi.nodup hi.inside
    rw [List.length_map] at this
    omega
  | k + 1, frontier, seen, hi, hk => by
    simp only []
    unfold reachFrom.go
    simp only []
    have hnext : ∀ x, x ∈ frontier.foldl (fun acc u => union acc (succs g u)) [] ↔ ∃ u ∈ frontier, x ∈ succs g u :=
      fun x => mem_nextOf g x frontier
    by_cases hf : ((frontier.foldl (fun acc u => union acc (succs g u)) []).filter (fun x => !seen.contains x)).isEmpty = true
    · rw [if_pos hf]
      refine ⟨hi.nodup, hi.sound, ?_, fun x hx => hx⟩
      intro x hx y hy
      by_cases hxf : x ∈ frontier
      · -- a successor of the frontier that is not fresh is in `seen`
        have hyn : y ∈ frontier.foldl (fun acc u => union acc (succs g u)) [] := (hnext y).mpr ⟨x, hxf, hy⟩
        have hempty : (frontier.foldl (fun acc u => union acc (succs g u)) []).filter (fun x => !seen.contains x) = [] := by
          simpa using hf
        by_cases hys : y ∈ seen
        · exact hys
        · have : y ∈ (frontier.foldl (fun acc u => union acc (succs g u)) []).filter (fun x => !seen.contains x) :=
            List.mem_filter.mpr ⟨hyn, by simpa using hys⟩
          rw [hempty] at this; cases this
      · exact hi.closed x hx hxf y hy
    · rw [if_neg hf]
      -- one more round
      have hfreshmem : ∀ x, x ∈ (frontier.foldl (fun acc u => union acc (succs g u)) []).filter (fun x => !seen.contains x) ↔
          (∃ u ∈ frontier, x ∈ succs g u) ∧ x ∉ seen := by
        intro x; rw [List.mem_filter, hnext]; simp
      have hne : (frontier.foldl (fun acc u => union acc (succs g u)) []).filter (fun x => !seen.contains x) ≠ [] := by
        intro h0; apply hf; rw [h0]; rfl
      obtain ⟨w, hw⟩ := List.exists_mem_of_ne_nil _ hne
      have hi' : BInv g v0 ((frontier.foldl (fun acc u => union acc (succs g u)) []).filter (fun x => !seen.contains x))
          (union seen ((frontier.foldl (fun acc u => union acc (succs g u)) []).filter (fun x => !seen.contains x))) := by
        refine ⟨nodup_union _ _ hi.nodup, ?_, ?_, ?_, ?_⟩
        · intro x hx
          rw [mem_union] at hx
          rcases hx with hx | hx
          · exact hi.inside x hx
          · obtain ⟨⟨u, _, hxu⟩, _⟩ := (hfreshmem x).mp hx
            exact hg u x hxu
        · intro x hx
          rw [mem_union] at hx
          rcases hx with hx | hx
          · exact hi.sound x hx
          · obtain ⟨⟨u, hu, hxu⟩, _⟩ := (hfreshmem x).mp hx
            rcases hi.fsound u hu with rfl | hp
            · exact .edge hxu
            · exact hp.snoc hxu
        · intro x hx
          obtain ⟨⟨u, hu, hxu⟩, _⟩ := (hfreshmem x).mp hx
          rcases hi.fsound u hu with rfl | hp
          · exact Or.inr (.edge hxu)
          · exact Or.inr (hp.snoc hxu)
        · intro x hx hxnf y hy
          rw [mem_union]
          -- x is v0 or old-seen or fresh; it is not fresh (not in the new frontier)
          have hxold : x = v0 ∨ x ∈ seen := by
            rcases hx with hx | hx
            · exact Or.inl hx
            · rw [mem_union] at hx
              rcases hx with hx | hx
              · exact Or.inr hx
              · exact absurd hx hxnf
          by_cases hxf : x ∈ frontier
          · by_cases hys : y ∈ seen
            · exact Or.inl hys
            · exact Or.inr ((hfreshmem y).mpr ⟨⟨x, hxf, hy⟩, hys⟩)
          · exact Or.inl (hi.closed x hxold hxf y hy)
      have hlen : seen.length < (union seen ((frontier.foldl (fun acc u => union acc (succs g u)) []).filter (fun x => !seen.contains x))).length := by
        have hw' := (hfreshmem w).mp hw
        have hsub : ∀ x ∈ w :: seen, x ∈ union seen ((frontier.foldl (fun acc u => union acc (succs g u)) []).filter (fun x => !seen.contains x)) := by
          intro x hx
          rw [mem_union]
          rcases List.mem_cons.mp hx with rfl | hx
          · exact Or.inr hw
          · exact Or.inl hx
        have := nodup_len_le (w :: seen) _ (List.nodup_cons.mpr ⟨hw'.2, hi.nodup⟩) hsub
        simp only [List.length_cons] at this
        omega
      have := go_spec g hg v0 k _ _ hi' (by omega)
      simp only [] at this
      obtain ⟨a, b, c, d⟩ := this
      exact ⟨a, b, c, fun x hx => d x ((mem_union x _ _).mpr (Or.inl hx))⟩

/-- **`reachFrom` is the set of vertices reachable in at least one step** -/
theorem reachFrom_spec (g : Graph) (hg : GraphOK g) (v : String) :
    (reachFrom g v).Nodup ∧ (∀ x ∈ reachFrom g v, Path g v x) ∧
      (∀ x, (x = v ∨ x ∈ reachFrom g v) → ∀ y ∈ succs g x, y ∈ reachFrom g v) := by
  have hi : BInv g v [v] [] := by
    refine ⟨List.nodup_nil, ?_, ?_, ?_, ?_⟩
    · intro x hx; cases hx
    · intro x hx; cases hx
    · intro x hx; exact Or.inl (by simpa using hx)
    · intro x hx hnf y _
      rcases hx with rfl | hx
      · exact absurd List.mem_cons_self hnf
      · cases hx
  have := go_spec g hg v (g.length + 1) [v] [] hi (by simp)
  simp only [] at this
  exact ⟨this.1, this.2.1, this.2.2.1⟩

theorem path_in_closed {g : Graph} {S : List String} (hS : ∀ x ∈ S, ∀ y ∈ succs g x, y ∈ S) {p q : String}
    (h : Path g p q) : p ∈ S → q ∈ S := by
  induction h with
  | edge h1 => intro hp; exact hS _ hp _ h1
  | step h1 _ ih => intro hp; exact ih (hS _ hp _ h1)

theorem reachFrom_complete (g : Graph) (hg : GraphOK g) {v x : String} (h : Path g v x) : x ∈ reachFrom g v := by
  obtain ⟨_, _, hc⟩ := reachFrom_spec g hg v
  cases h with
  | edge he => exact hc _ (Or.inl rfl) _ he
  | step he hp => exact path_in_closed (fun x hx => hc x (Or.inr hx)) hp (hc _ (Or.inl rfl) _ he)

/-- **ranking**: in a graph where no vertex reaches itself, the number of reachable vertices strictly decreases along
    every edge -/
theorem acyclic_rank (g : Graph) (hg : GraphOK g) (hac : ∀ v ∈ g.map (·.1), v ∉ reachFrom g v) {v u : String} (he : u ∈ succs g v) :
    (reachFrom g u).length < (reachFrom g v).length := by
  obtain ⟨hnu, hsu, _⟩ := reachFrom_spec g hg u
  have huv : u ∈ reachFrom g v := reachFrom_complete g hg (.edge he)
  have hsub : ∀ x ∈ u :: reachFrom g u, x ∈ reachFrom g v := by
    intro x hx
    rcases List.mem_cons.mp hx with rfl | hx
    · exact huv
    · exact reachFrom_complete g hg (Path.step he (hsu x hx))
  have := nodup_len_le (u :: reachFrom g u) (reachFrom g v) (List.nodup_cons.mpr ⟨hac u (hg v u he), hnu⟩) hsub
  simp only [List.length_cons] at this
  omega

end Mid
end PV
