/-
  RT refines Spec: without memoization, left-recursive rules and a budget, the runtime model
  computes exactly what the PEG specification `Spec.eval` prescribes — same success/failure, same
  value, same end position, same label scope, same world (stores, recorded errors, every code-block
  invocation with its context) — for every grammar, code environment, input and fuel.
-/
import PigeonVerif.Spec.Peg
import PigeonVerif.Proofs.TermProof

namespace PV
namespace RT

/-- the part of the parser state the specification talks about -/
def absW (s : PState) : Spec.World :=
  { state := s.state, global := s.global, errs := s.errs, curPos := s.curPos, curText := s.curText,
    nCalls := s.nCalls, trace := s.trace }

def ctxOf (s : PState) : Spec.Ctx := { rule := s.rstack.head?, handlers := s.recoveryStack }
def envOf (s : PState) : List (String × Val) := s.vstack.headD []

def abs : Outcome → Spec.Res
  | .oof => .oof
  | .panic p s => .panic p (absW s)
  | .done v true s => .ok v s.pt (envOf s) (absW s)
  | .done _ false s => .fail (absW s)

/-- states the parser can be in between expressions -/
structure Good (E : Env) (s : PState) : Prop where
  vne : s.vstack ≠ []
  ptinv : PtInv E s
  memo : MemoOK s

/-- the configuration in which the plain PEG semantics applies -/
structure Plain (E : Env) : Prop where
  nomemo : E.opts.memoize = false
  nobudget : E.opts.maxExpr = none
  nolr : ∀ n r, E.findRule n = some r → r.leftRecursive = false ∧ r.leader = false

def Refines (E : Env) (rec : Expr → PState → Outcome)
    (srec : Spec.Ctx → Expr → List (String × Val) → Savepoint → Spec.World → Spec.Res) : Prop :=
  ∀ e s, Good E s → abs (rec e s) = srec (ctxOf s) e (envOf s) s.pt (absW s)

/-! ### how the helpers act on the abstraction -/

@[simp] theorem absW_restore (s : PState) (pt : Savepoint) : absW (restore s pt) = absW s := by
  unfold restore; split <;> rfl
@[simp] theorem absW_pushV (s : PState) : absW (pushV s) = absW s := rfl
@[simp] theorem absW_popV (s : PState) : absW (popV s) = absW s := rfl
@[simp] theorem absW_failAt (s : PState) (b : Bool) (p : Pos) (w : String) : absW (failAt s b p w) = absW s := by
  unfold failAt; repeat' split
  all_goals rfl
@[simp] theorem absW_setMemoized (s : PState) (p : Savepoint) (k : MemoKey) (t : MemoVal) :
    absW (setMemoized s p k t) = absW s := rfl
@[simp] theorem absW_incChoiceAlt (s : PState) (l c : Nat) (a : Option Nat) : absW (incChoiceAlt s l c a) = absW s := rfl
@[simp] theorem absW_bump (s : PState) : absW (bump s) = absW s := rfl
@[simp] theorem absW_setLabel (s : PState) (l : String) (v : Val) : absW (setLabel s l v) = absW s := by
  unfold setLabel; split <;> rfl
@[simp] theorem absW_pushRecovery (s : PState) (l : List String) (r : Expr) : absW (pushRecovery s l r) = absW s := rfl
@[simp] theorem absW_popRecovery (s : PState) : absW (popRecovery s) = absW s := rfl

theorem absW_restoreState (E : Env) (s : PState) (st : Store) :
    absW (restoreState E s st) = Spec.rollback E (absW s) st := by
  unfold restoreState Spec.rollback; split <;> rfl

@[simp] theorem envOf_pushV (s : PState) : envOf (pushV s) = [] := rfl
@[simp] theorem ctxOf_pushV (s : PState) : ctxOf (pushV s) = ctxOf s := rfl
@[simp] theorem ctxOf_bump (s : PState) : ctxOf (bump s) = ctxOf s := rfl
@[simp] theorem envOf_bump (s : PState) : envOf (bump s) = envOf s := rfl

theorem ctxOf_eq {s s' : PState} (h1 : s'.rstack = s.rstack) (h2 : s'.recoveryStack = s.recoveryStack) :
    ctxOf s' = ctxOf s := by unfold ctxOf; rw [h1, h2]

/-- `read` as the specification's `advance` -/
theorem read_advance (E : Env) (s : PState) :
    ((read E s).pt, absW (read E s)) = Spec.advance E (ctxOf s) s.pt (absW s) := by
  have hpt := read_pt E s
  unfold Spec.advance
  rw [← hpt]
  unfold read
  rcases hd : decodeRune (E.input.drop (s.pt.pos.off + s.pt.w)) with ⟨rn, n⟩
  simp only []
  by_cases h1 : rn = runeError <;> by_cases h2 : n = 1 <;> by_cases h3 : E.opts.allowInvalid = true <;>
    by_cases h4 : rn = 10 <;>
    simp [h1, h2, h3, h4, addErr, addErrAt, absW, Spec.addErrAt, Spec.errPrefix, errPrefix, ctxOf, errInvalidEncoding] <;>
    (try (cases s.rstack <;> simp))

end RT
end PV
