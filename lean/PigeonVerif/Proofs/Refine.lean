/-
  RT refines Spec: without memoization, left-recursive rules and a budget, the runtime model
  computes exactly what the PEG specification `Spec.eval` prescribes — same success/failure, same
  value, same end position, same label scope, same world (stores, recorded errors, every code-block
  invocation with its context) — for every grammar, code environment, input and fuel.
-/
import PigeonVerif.Spec.Peg
import PigeonVerif.Proofs.TermProof

namespace PV
namespace RT

/-- the part of the parser state the specification talks about -/
def absW (s : PState) : Spec.World :=
  { state := s.state, global := s.global, errs := s.errs, curPos := s.curPos, curText := s.curText,
    nCalls := s.nCalls, trace := s.trace }

def ctxOf (s : PState) : Spec.Ctx := { rule := s.rstack.head?, handlers := s.recoveryStack }
def envOf (s : PState) : List (String × Val) := s.vstack.headD []

def abs : Outcome → Spec.Res
  | .oof => .oof
  | .panic p s => .panic p (absW s)
  | .done v true s => .ok v s.pt (envOf s) (absW s)
  | .done _ false s => .fail (envOf s) (absW s)

/-- states the parser can be in between expressions -/
structure Good (E : Env) (s : PState) : Prop where
  vne : s.vstack ≠ []
  ptinv : PtInv E s
  memo : MemoOK s

/-- the configuration in which the plain PEG semantics applies -/
structure Plain (E : Env) : Prop where
  nomemo : E.opts.memoize = false
  nobudget : E.opts.maxExpr = none
  nolr : ∀ n r, E.findRule n = some r → r.leftRecursive = false ∧ r.leader = false

def Refines (E : Env) (rec : Expr → PState → Outcome)
    (srec : Spec.Ctx → Expr → List (String × Val) → Savepoint → Spec.World → Spec.Res) : Prop :=
  ∀ e s, Good E s → abs (rec e s) = srec (ctxOf s) e (envOf s) s.pt (absW s)

/-! ### how the helpers act on the abstraction -/

@[simp] theorem absW_restore (s : PState) (pt : Savepoint) : absW (restore s pt) = absW s := by
  unfold restore; split <;> rfl
@[simp] theorem absW_pushV (s : PState) : absW (pushV s) = absW s := rfl
@[simp] theorem absW_popV (s : PState) : absW (popV s) = absW s := rfl
@[simp] theorem absW_failAt (s : PState) (b : Bool) (p : Pos) (w : String) : absW (failAt s b p w) = absW s := by
  unfold failAt; repeat' split
  all_goals rfl
@[simp] theorem absW_setMemoized (s : PState) (p : Savepoint) (k : MemoKey) (t : MemoVal) :
    absW (setMemoized s p k t) = absW s := rfl
@[simp] theorem absW_incChoiceAlt (s : PState) (l c : Nat) (a : Option Nat) : absW (incChoiceAlt s l c a) = absW s := rfl
@[simp] theorem absW_bump (s : PState) : absW (bump s) = absW s := rfl
@[simp] theorem absW_setLabel (s : PState) (l : String) (v : Val) : absW (setLabel s l v) = absW s := by
  unfold setLabel; split <;> rfl
@[simp] theorem absW_pushRecovery (s : PState) (l : List String) (r : Expr) : absW (pushRecovery s l r) = absW s := rfl
@[simp] theorem absW_popRecovery (s : PState) : absW (popRecovery s) = absW s := rfl

theorem absW_restoreState (E : Env) (s : PState) (st : Store) :
    absW (restoreState E s st) = Spec.rollback E (absW s) st := by
  unfold restoreState Spec.rollback; split <;> rfl

@[simp] theorem envOf_pushV (s : PState) : envOf (pushV s) = [] := rfl
@[simp] theorem ctxOf_pushV (s : PState) : ctxOf (pushV s) = ctxOf s := rfl
@[simp] theorem ctxOf_bump (s : PState) : ctxOf (bump s) = ctxOf s := rfl
@[simp] theorem envOf_bump (s : PState) : envOf (bump s) = envOf s := rfl

@[simp] theorem envOf_restore (s : PState) (pt : Savepoint) : envOf (restore s pt) = envOf s := by simp [envOf]
@[simp] theorem envOf_restoreState (E : Env) (s : PState) (st : Store) : envOf (restoreState E s st) = envOf s := by simp [envOf]
@[simp] theorem envOf_incChoiceAlt (s : PState) (l c : Nat) (a : Option Nat) : envOf (incChoiceAlt s l c a) = envOf s := by simp [envOf]
@[simp] theorem envOf_failAt (s : PState) (b : Bool) (p : Pos) (w : String) : envOf (failAt s b p w) = envOf s := by simp [envOf]
@[simp] theorem envOf_setMemoized (s : PState) (p : Savepoint) (k : MemoKey) (t : MemoVal) : envOf (setMemoized s p k t) = envOf s := by simp [envOf]
@[simp] theorem envOf_read (E : Env) (s : PState) : envOf (read E s) = envOf s := by simp [envOf]
@[simp] theorem envOf_addErr (E : Env) (s : PState) (m : String) : envOf (addErr E s m) = envOf s := by simp [envOf]
@[simp] theorem envOf_addErrOpt (E : Env) (s : PState) (o : Option String) : envOf (addErrOpt E s o) = envOf s := by simp [envOf]
@[simp] theorem envOf_addErrAtOpt (E : Env) (s : PState) (o : Option String) (p : Pos) : envOf (addErrAtOpt E s o p) = envOf s := by simp [envOf]
@[simp] theorem envOf_pushRecovery (s : PState) (l : List String) (r : Expr) : envOf (pushRecovery s l r) = envOf s := by simp [envOf]
@[simp] theorem envOf_popRecovery (s : PState) : envOf (popRecovery s) = envOf s := by simp [envOf]

theorem ctxOf_eq {s s' : PState} (h1 : s'.rstack = s.rstack) (h2 : s'.recoveryStack = s.recoveryStack) :
    ctxOf s' = ctxOf s := by unfold ctxOf; rw [h1, h2]

theorem nextPt_rn_w (inp : List Nat) (pt : Savepoint) :
    (nextPt inp pt).rn = (decodeRune (inp.drop (pt.pos.off + pt.w))).1 ∧
    (nextPt inp pt).w = (decodeRune (inp.drop (pt.pos.off + pt.w))).2 := by
  unfold nextPt; simp only []; split <;> exact ⟨rfl, rfl⟩

/-- `read` in terms of the pure position function -/
theorem read_eq (E : Env) (s : PState) :
    read E s =
      (if (nextPt E.input s.pt).rn = runeError ∧ (nextPt E.input s.pt).w = 1 ∧ E.opts.allowInvalid = false
       then addErr E { s with pt := nextPt E.input s.pt } errInvalidEncoding
       else { s with pt := nextPt E.input s.pt }) := by
  obtain ⟨hr, hw⟩ := nextPt_rn_w E.input s.pt
  rcases hd : decodeRune (E.input.drop (s.pt.pos.off + s.pt.w)) with ⟨rn, n⟩
  rw [hd] at hr hw
  simp only [] at hr hw
  have hpt : ({ pos := { line := (if rn = 10 then (s.pt.pos.line + 1, 0) else (s.pt.pos.line, s.pt.pos.col + 1)).1,
                         col := (if rn = 10 then (s.pt.pos.line + 1, 0) else (s.pt.pos.line, s.pt.pos.col + 1)).2,
                         off := s.pt.pos.off + s.pt.w }, rn := rn, w := n } : Savepoint) = nextPt E.input s.pt := by
    unfold nextPt; simp only [hd]; split <;> rfl
  unfold read
  simp only [hd, hpt, hr, hw]
  by_cases h1 : rn = runeError <;> by_cases h2 : n = 1 <;> by_cases h3 : E.opts.allowInvalid = true <;> simp [h1, h2, h3]

/-- `read` as the specification's `advance` -/
theorem read_advance (E : Env) (s : PState) :
    ((read E s).pt, absW (read E s)) = Spec.advance E (ctxOf s) s.pt (absW s) := by
  rw [read_eq]
  unfold Spec.advance
  simp only []
  by_cases h1 : (nextPt E.input s.pt).rn = runeError <;> by_cases h2 : (nextPt E.input s.pt).w = 1 <;>
    by_cases h3 : E.opts.allowInvalid = true <;>
    simp [h1, h2, h3, addErr, addErrAt, absW, Spec.addErrAt, Spec.errPrefix, errPrefix, ctxOf, errInvalidEncoding] <;>
    (cases s.rstack <;> simp)


section
variable {E : Env} {rec : Expr → PState → Outcome}
variable {srec : Spec.Ctx → Expr → List (String × Val) → Savepoint → Spec.World → Spec.Res}

theorem Good.of_framed {s s1 : PState} {ok : Bool} (hg : Good E s) (h : Framed E s ok s1) : Good E s1 := by
  refine ⟨?_, h.stk.ptinv hg.ptinv, h.memo⟩
  intro hnil
  have := h.stk.vlen
  rw [hnil] at this
  exact hg.vne (List.length_eq_zero_iff.mp this.symm)

theorem Framed.fail_pt {s s1 : PState} (hg : Good E s) (h : Framed E s false s1) : s1.pt = s.pt :=
  Reach.unique (h.stk.ptinv hg.ptinv).1 hg.ptinv.1 (h.failOff rfl)

theorem Framed.ctx {s s1 : PState} {ok : Bool} (h : Framed E s ok s1) : ctxOf s1 = ctxOf s :=
  ctxOf_eq h.stk.rstack h.stk.recov

/-- everything that is known about one recursive call -/
def CallFacts (E : Env) (srec : Spec.Ctx → Expr → List (String × Val) → Savepoint → Spec.World → Spec.Res)
    (e : Expr) (s : PState) (o : Outcome) : Prop :=
  match o with
  | .oof => srec (ctxOf s) e (envOf s) s.pt (absW s) = .oof
  | .panic p s1 => srec (ctxOf s) e (envOf s) s.pt (absW s) = .panic p (absW s1)
  | .done v true s1 =>
    srec (ctxOf s) e (envOf s) s.pt (absW s) = .ok v s1.pt (envOf s1) (absW s1) ∧ Framed E s true s1 ∧ Good E s1
  | .done v false s1 =>
    srec (ctxOf s) e (envOf s) s.pt (absW s) = .fail (envOf s1) (absW s1) ∧ Framed E s false s1 ∧ Good E s1 ∧ s1.pt = s.pt

theorem call_facts (hp : Plain E) (hfr : ∀ e s, FrameInv E s (rec e s)) (href : Refines E rec srec)
    (e : Expr) (s : PState) (hg : Good E s) : CallFacts E srec e s (parseExprWrap E rec e s) := by
  rw [wrap_eq hp.nomemo]
  have h1 := href e s hg
  have h2 := hfr e s hg.memo
  revert h1 h2
  generalize rec e s = o
  cases o with
  | oof => intro h1 _; exact h1.symm
  | panic p s1 => intro h1 _; exact h1.symm
  | done v ok s1 =>
    cases ok with
    | true => intro h1 h2; exact ⟨h1.symm, h2, hg.of_framed h2⟩
    | false => intro h1 h2; exact ⟨h1.symm, h2, hg.of_framed h2, h2.fail_pt hg⟩

theorem ref_seq (hp : Plain E) (hfr : ∀ e s, FrameInv E s (rec e s)) (href : Refines E rec srec)
    (c : Spec.Ctx) (pt0 : Savepoint) (st0 : Store) :
    ∀ (es : List Expr) (s : PState) (acc : List Val), Good E s → ctxOf s = c →
      abs (parseSeq E rec pt0 st0 es s acc) = Spec.evalSeq E srec c st0 es (envOf s) s.pt (absW s) acc
  | [], s, acc, _, _ => by simp [parseSeq, Spec.evalSeq, abs]
  | e :: es, s, acc, hg, hc => by
    unfold parseSeq Spec.evalSeq
    have hcf := call_facts hp hfr href e s hg
    revert hcf
    generalize parseExprWrap E rec e s = o
    cases o with
    | oof => intro h; simp only [CallFacts, hc] at h; simp [Outcome.bind, abs, h]
    | panic p s1 => intro h; simp only [CallFacts, hc] at h; simp [Outcome.bind, abs, h]
    | done v ok s1 =>
      cases ok with
      | true =>
        intro ⟨h1, h2, h3⟩
        rw [hc] at h1
        simp only [Outcome.bind, h1, if_true]
        exact ref_seq hp hfr href c pt0 st0 es s1 (v :: acc) h3 (h2.ctx.trans hc)
      | false =>
        intro ⟨h1, _, _, _⟩
        rw [hc] at h1
        simp [Outcome.bind, h1, abs, absW_restoreState]


theorem Good.congr {s s' : PState} (hg : Good E s) (hv : s'.vstack = s.vstack) (hpt : s'.pt = s.pt)
    (hm : s'.memo = s.memo) : Good E s' :=
  ⟨hv ▸ hg.vne, hg.ptinv.congr hpt hm, hg.memo.congr hm⟩

theorem Good.pushV {s : PState} (hg : Good E s) : Good E (pushV s) :=
  ⟨by simp, hg.ptinv.congr (by simp) (by simp), hg.memo.congr (by simp)⟩

theorem popV_vstack_of_framed {s s1 : PState} {ok : Bool} (h : Framed E (RT.pushV s) ok s1) :
    (popV s1).vstack = s.vstack := by
  have := h.stk.vtail
  simpa using this

theorem Good.pop {s s1 : PState} {ok : Bool} (hg : Good E s) (h : Framed E (RT.pushV s) ok s1) : Good E (popV s1) :=
  ⟨by rw [popV_vstack_of_framed h]; exact hg.vne,
   (h.stk.ptinv (hg.ptinv.congr (by simp) (by simp))).congr (by simp) (by simp), h.memo.congr (by simp)⟩

theorem envOf_pop {s s1 : PState} {ok : Bool} (h : Framed E (RT.pushV s) ok s1) : envOf (popV s1) = envOf s := by
  unfold envOf; rw [popV_vstack_of_framed h]

theorem ctxOf_pop {s s1 : PState} {ok : Bool} (h : Framed E (RT.pushV s) ok s1) : ctxOf (popV s1) = ctxOf s := by
  have h1 := h.stk.rstack; have h2 := h.stk.recov
  simp at h1 h2
  exact ctxOf_eq (by simpa using h1) (by simpa using h2)

theorem ref_choice (hp : Plain E) (hfr : ∀ e s, FrameInv E s (rec e s)) (href : Refines E rec srec)
    (c : Spec.Ctx) (line col : Nat) :
    ∀ (alts : List Expr) (i : Nat) (s : PState), Good E s → ctxOf s = c →
      abs (parseChoice E rec line col alts i s) = Spec.evalChoice E srec c alts (envOf s) s.pt (absW s)
  | [], i, s, _, _ => by simp [parseChoice, Spec.evalChoice, abs]
  | alt :: alts, i, s, hg, hc => by
    unfold parseChoice Spec.evalChoice
    simp only []
    have hcf := call_facts hp hfr href alt (pushV s) hg.pushV
    revert hcf
    generalize parseExprWrap E rec alt (pushV s) = o
    cases o with
    | oof => intro h; simp only [CallFacts, ctxOf_pushV, envOf_pushV, absW_pushV, pushV.pt, hc] at h; simp [Outcome.bind, abs, h]
    | panic p s1 => intro h; simp only [CallFacts, ctxOf_pushV, envOf_pushV, absW_pushV, pushV.pt, hc] at h; simp [Outcome.bind, abs, h]
    | done v ok s1 =>
      cases ok with
      | true =>
        intro ⟨h1, h2, _⟩
        simp only [ctxOf_pushV, envOf_pushV, absW_pushV, pushV.pt, hc] at h1
        simp only [Outcome.bind, h1, if_true, abs]
        have he : envOf (incChoiceAlt (popV s1) line col (some i)) = envOf s := by
          rw [← envOf_pop h2]; simp [envOf]
        simp [he]
      | false =>
        intro ⟨h1, h2, _, h4⟩
        simp only [ctxOf_pushV, envOf_pushV, absW_pushV, pushV.pt, hc] at h1 h4
        simp only [Outcome.bind, h1, Bool.false_eq_true, if_false]
        have hg' : Good E (RT.restoreState E (popV s1) s.state) :=
          (hg.pop h2).congr (by simp) (by simp) (by simp)
        have := ref_choice hp hfr href c line col alts (i + 1) _ hg'
          ((ctxOf_eq (by simp) (by simp)).trans ((ctxOf_pop h2).trans hc))
        rw [this]
        have he : envOf (RT.restoreState E (popV s1) s.state) = envOf s := by
          rw [← envOf_pop h2]; unfold envOf; simp
        have hpt2 : (RT.restoreState E (popV s1) s.state).pt = s.pt := by simp [h4]
        rw [he, hpt2, absW_restoreState, absW_popV]
        rfl


theorem ref_loop (hp : Plain E) (hfr : ∀ e s, FrameInv E s (rec e s)) (href : Refines E rec srec)
    (c : Spec.Ctx) (e : Expr) :
    ∀ (k : Nat) (s : PState) (acc : List Val), Good E s → ctxOf s = c →
      abs (parseLoop E rec e k s acc) = Spec.evalLoop srec c e k (envOf s) s.pt (absW s) acc
  | 0, _, _, _, _ => by simp [parseLoop, Spec.evalLoop, abs]
  | k + 1, s, acc, hg, hc => by
    unfold parseLoop Spec.evalLoop
    simp only []
    have hcf := call_facts hp hfr href e (pushV s) hg.pushV
    revert hcf
    generalize parseExprWrap E rec e (pushV s) = o
    cases o with
    | oof => intro h; simp only [CallFacts, ctxOf_pushV, envOf_pushV, absW_pushV, pushV.pt, hc] at h; simp [Outcome.bind, abs, h]
    | panic p s1 => intro h; simp only [CallFacts, ctxOf_pushV, envOf_pushV, absW_pushV, pushV.pt, hc] at h; simp [Outcome.bind, abs, h]
    | done v ok s1 =>
      cases ok with
      | true =>
        intro ⟨h1, h2, _⟩
        simp only [ctxOf_pushV, envOf_pushV, absW_pushV, pushV.pt, hc] at h1
        simp only [Outcome.bind, h1, if_true]
        have := ref_loop hp hfr href c e k (popV s1) (v :: acc) (hg.pop h2) ((ctxOf_pop h2).trans hc)
        rw [this, envOf_pop h2]
        rfl
      | false =>
        intro ⟨h1, h2, _, h4⟩
        simp only [ctxOf_pushV, envOf_pushV, absW_pushV, pushV.pt, hc] at h1 h4
        simp only [Outcome.bind, h1, Bool.false_eq_true, if_false]
        split
        · simp [abs, envOf_pop h2]
        · simp only [abs, envOf_pop h2, absW_popV]
          have : (popV s1).pt = s.pt := by simp [h4]
          rw [this]

/-- the literal loop: position and world after the literal, or a mismatch -/
theorem ref_lit (c : Spec.Ctx) (start : Savepoint) (want : String) (ic : Bool) :
    ∀ (rs : List Rune) (s : PState), ctxOf s = c →
      match parseLit E start want ic rs s with
      | .done v true s' => Spec.evalLit E c ic rs s.pt (absW s) = (some s'.pt, absW s') ∧
          v = .bytes (Spec.slice E start s'.pt) ∧ envOf s' = envOf s
      | .done _ false s' => Spec.evalLit E c ic rs s.pt (absW s) = (none, absW s') ∧ envOf s' = envOf s
      | _ => False
  | [], s, _ => by simp [parseLit, Spec.evalLit, sliceFrom, Spec.slice]
  | r :: rs, s, hc => by
    by_cases hcond : (decide (litCur E ic s ≠ r) || decide (s.pt.w = 0)) = true
    · have h1 : parseLit E start want ic (r :: rs) s =
          .done .nil false (restore (failAt s false start.pos want) start) := by
        rw [parseLit]; simp only [hcond, if_true]
      have h2 : Spec.evalLit E c ic (r :: rs) s.pt (absW s) = (none, absW s) := by
        rw [Spec.evalLit]; simp only [litCur] at hcond; exact if_pos hcond
      rw [h1]; simp [h2]
    · have h1 : parseLit E start want ic (r :: rs) s = parseLit E start want ic rs (read E s) := by
        rw [parseLit]; simp only [hcond, if_false, Bool.false_eq_true]
      have hadv := read_advance E s
      rw [hc] at hadv
      have h2 : Spec.evalLit E c ic (r :: rs) s.pt (absW s) =
          Spec.evalLit E c ic rs (read E s).pt (absW (read E s)) := by
        rw [Spec.evalLit]; simp only [litCur] at hcond
        simp only [← hadv]
        exact if_neg hcond
      rw [h1, h2]
      have := ref_lit c start want ic rs (read E s) ((ctxOf_eq (by simp) (by simp)).trans hc)
      revert this
      generalize parseLit E start want ic rs (read E s) = o
      cases o with
      | oof => simp
      | panic p s1 => simp
      | done v ok s1 =>
        cases ok <;> simp only [] <;> intro h1 <;> simp_all

theorem ref_throw (hp : Plain E) (hfr : ∀ e s, FrameInv E s (rec e s)) (href : Refines E rec srec)
    (c : Spec.Ctx) (label : String) :
    ∀ (frames : List (List (String × Expr))) (s : PState), Good E s → ctxOf s = c →
      abs (parseThrow E rec label frames s) = Spec.evalThrow srec c label frames (envOf s) s.pt (absW s)
  | [], s, _, _ => by simp [parseThrow, Spec.evalThrow, abs]
  | fr :: frs, s, hg, hc => by
    unfold parseThrow Spec.evalThrow
    cases hl : lookup label fr with
    | none => simp only []; exact ref_throw hp hfr href c label frs s hg hc
    | some r =>
      simp only []
      have hcf := call_facts hp hfr href r s hg
      revert hcf
      generalize parseExprWrap E rec r s = o
      cases o with
      | oof => intro h; simp only [CallFacts, hc] at h; simp [Outcome.bind, abs, h]
      | panic p s1 => intro h; simp only [CallFacts, hc] at h; simp [Outcome.bind, abs, h]
      | done v ok s1 =>
        cases ok with
        | true =>
          intro ⟨h1, _, _⟩
          rw [hc] at h1
          simp [Outcome.bind, h1, abs]
        | false =>
          intro ⟨h1, h2, h3, h4⟩
          rw [hc] at h1
          simp only [Outcome.bind, h1, Bool.false_eq_true, if_false]
          have := ref_throw hp hfr href c label frs s1 h3 (h2.ctx.trans hc)
          rw [this, h4]


/-! ### primitives -/

theorem errPrefix_spec (s : PState) (pos : Pos) : errPrefix E s pos = Spec.errPrefix E (ctxOf s) pos := by
  unfold errPrefix Spec.errPrefix ctxOf
  cases s.rstack <;> rfl

theorem absW_addErrAtOpt (s : PState) (o : Option String) (pos : Pos) :
    absW (addErrAtOpt E s o pos) = Spec.addErrAt E (ctxOf s) (absW s) o pos := by
  unfold addErrAtOpt Spec.addErrAt
  cases o with
  | none => rfl
  | some m => simp [addErrAt, absW, errPrefix_spec]

theorem absW_addErrOpt (s : PState) (o : Option String) :
    absW (addErrOpt E s o) = Spec.addErrAt E (ctxOf s) (absW s) o s.pt.pos := by
  unfold addErrOpt; exact absW_addErrAtOpt s o _

theorem absW_addErr (s : PState) (m : String) :
    absW (addErr E s m) = Spec.addErrAt E (ctxOf s) (absW s) (some m) s.pt.pos := by
  simp [addErr, addErrAt, absW, Spec.addErrAt, errPrefix_spec]

theorem callBlock_spec (blk : Nat) (s : PState) :
    (callBlock E blk s).1 = (Spec.call E blk (envOf s) s.pt (absW s)).1 ∧
    absW (callBlock E blk s).2 = (Spec.call E blk (envOf s) s.pt (absW s)).2 := by
  unfold callBlock Spec.call envOf absW
  simp only []
  constructor <;> trivial

@[simp] theorem ctxOf_callBlock (blk : Nat) (s : PState) : ctxOf (callBlock E blk s).2 = ctxOf s :=
  ctxOf_eq (by simp) (by simp)
@[simp] theorem envOf_callBlock (blk : Nat) (s : PState) : envOf (callBlock E blk s).2 = envOf s := by simp [envOf]
@[simp] theorem ctxOf_read (s : PState) : ctxOf (read E s) = ctxOf s := ctxOf_eq (by simp) (by simp)
@[simp] theorem ctxOf_failAt (s : PState) (b : Bool) (p : Pos) (w : String) : ctxOf (failAt s b p w) = ctxOf s :=
  ctxOf_eq (by simp) (by simp)

theorem matchOne_spec (s : PState) (want : String) :
    abs (matchOne E s want) =
      (let a := Spec.advance E (ctxOf s) s.pt (absW s)
       .ok (.bytes (Spec.slice E s.pt a.1)) a.1 (envOf s) a.2) := by
  have h := read_advance E s
  unfold matchOne
  simp only [abs, ← h, absW_failAt, envOf_failAt, envOf_read, sliceFrom, Spec.slice, failAt.pt]

end
end RT
end PV
