/-
  RT refines Spec: without memoization, left-recursive rules and a budget, the runtime model
  computes exactly what the PEG specification `Spec.eval` prescribes — same success/failure, same
  value, same end position, same label scope, same world (stores, recorded errors, every code-block
  invocation with its context) — for every grammar, code environment, input and fuel.
-/
import PigeonVerif.Spec.Peg
import PigeonVerif.Proofs.TermProof

namespace PV
namespace RT

/-- the part of the parser state the specification talks about -/
def absW (s : PState) : Spec.World :=
  { state := s.state, global := s.global, errs := s.errs, curPos := s.curPos, curText := s.curText,
    nCalls := s.nCalls, trace := s.trace, attempts := s.attempts }

def ctxOf (s : PState) : Spec.Ctx := { rule := s.rstack.head?, handlers := s.recoveryStack, neg := s.maxFailInvert }
def envOf (s : PState) : List (String × Val) := s.vstack.headD []

/-- the world of a panic: the state in which it was raised, and where -/
def absP (s : PState) : Spec.World := { absW s with site := some (s.rstack.head?, s.pt.pos) }

def abs : Outcome → Spec.Res
  | .oof => .oof
  | .panic p s => .panic p (absP s)
  | .done v true s => .ok v s.pt (envOf s) (absW s)
  | .done _ false s => .fail (envOf s) (absW s)

/-- states the parser can be in between expressions -/
structure Good (E : Env) (s : PState) : Prop where
  vne : s.vstack ≠ []
  ptinv : PtInv E s
  memo : MemoOK s

/-- the configuration in which the plain PEG semantics applies -/
structure Plain (E : Env) : Prop where
  nomemo : E.opts.memoize = false
  nobudget : E.opts.maxExpr = none
  nolr : ∀ n r, E.findRule n = some r → r.leftRecursive = false ∧ r.leader = false

theorem absP_eq (s : PState) : absP s = Spec.panicAt (ctxOf s) s.pt (absW s) := rfl

def Refines (E : Env) (rec : Expr → PState → Outcome)
    (srec : Spec.Ctx → Expr → List (String × Val) → Savepoint → Spec.World → Spec.Res) : Prop :=
  ∀ e s, Good E s → abs (rec e s) = srec (ctxOf s) e (envOf s) s.pt (absW s)

/-! ### how the helpers act on the abstraction -/

@[simp] theorem absW_restore (s : PState) (pt : Savepoint) : absW (restore s pt) = absW s := by
  unfold restore; split <;> rfl
@[simp] theorem absW_pushV (s : PState) : absW (pushV s) = absW s := rfl
@[simp] theorem absW_popV (s : PState) : absW (popV s) = absW s := rfl
theorem absW_failAt (s : PState) (b : Bool) (p : Pos) (w : String) :
    absW (failAt s b p w) = Spec.note (ctxOf s) p w b (absW s) := by
  unfold failAt failAtCore Spec.note ctxOf; repeat' split
  all_goals rfl
@[simp] theorem absW_setMemoized (s : PState) (p : Savepoint) (k : MemoKey) (t : MemoVal) :
    absW (setMemoized s p k t) = absW s := rfl
@[simp] theorem absW_incChoiceAlt (s : PState) (l c : Nat) (a : Option Nat) : absW (incChoiceAlt s l c a) = absW s := rfl
@[simp] theorem absW_bump (s : PState) : absW (bump s) = absW s := rfl
@[simp] theorem absW_setLabel (s : PState) (l : String) (v : Val) : absW (setLabel s l v) = absW s := by
  unfold setLabel; split <;> rfl
@[simp] theorem absW_pushRecovery (s : PState) (l : List String) (r : Expr) : absW (pushRecovery s l r) = absW s := rfl
@[simp] theorem absW_popRecovery (s : PState) : absW (popRecovery s) = absW s := rfl

theorem absW_restoreState (E : Env) (s : PState) (st : Store) :
    absW (restoreState E s st) = Spec.rollback E (absW s) st := by
  unfold restoreState Spec.rollback; split <;> rfl

@[simp] theorem envOf_pushV (s : PState) : envOf (pushV s) = [] := rfl
@[simp] theorem ctxOf_pushV (s : PState) : ctxOf (pushV s) = ctxOf s := rfl
@[simp] theorem ctxOf_bump (s : PState) : ctxOf (bump s) = ctxOf s := rfl
@[simp] theorem envOf_bump (s : PState) : envOf (bump s) = envOf s := rfl

@[simp] theorem envOf_restore (s : PState) (pt : Savepoint) : envOf (restore s pt) = envOf s := by simp [envOf]
@[simp] theorem envOf_restoreState (E : Env) (s : PState) (st : Store) : envOf (restoreState E s st) = envOf s := by simp [envOf]
@[simp] theorem envOf_incChoiceAlt (s : PState) (l c : Nat) (a : Option Nat) : envOf (incChoiceAlt s l c a) = envOf s := by simp [envOf]
@[simp] theorem envOf_failAt (s : PState) (b : Bool) (p : Pos) (w : String) : envOf (failAt s b p w) = envOf s := by simp [envOf]
@[simp] theorem envOf_setMemoized (s : PState) (p : Savepoint) (k : MemoKey) (t : MemoVal) : envOf (setMemoized s p k t) = envOf s := by simp [envOf]
@[simp] theorem envOf_read (E : Env) (s : PState) : envOf (read E s) = envOf s := by simp [envOf]
@[simp] theorem envOf_addErr (E : Env) (s : PState) (m : String) : envOf (addErr E s m) = envOf s := by simp [envOf]
@[simp] theorem envOf_addErrOpt (E : Env) (s : PState) (o : Option String) : envOf (addErrOpt E s o) = envOf s := by simp [envOf]
@[simp] theorem envOf_addErrAtOpt (E : Env) (s : PState) (o : Option String) (p : Pos) : envOf (addErrAtOpt E s o p) = envOf s := by simp [envOf]
@[simp] theorem envOf_pushRecovery (s : PState) (l : List String) (r : Expr) : envOf (pushRecovery s l r) = envOf s := by simp [envOf]
@[simp] theorem envOf_popRecovery (s : PState) : envOf (popRecovery s) = envOf s := by simp [envOf]

theorem ctxOf_eq {s s' : PState} (h1 : s'.rstack = s.rstack) (h2 : s'.recoveryStack = s.recoveryStack)
    (h3 : s'.maxFailInvert = s.maxFailInvert) : ctxOf s' = ctxOf s := by unfold ctxOf; rw [h1, h2, h3]

theorem nextPt_rn_w (inp : List Nat) (pt : Savepoint) :
    (nextPt inp pt).rn = (decodeRune (inp.drop (pt.pos.off + pt.w))).1 ∧
    (nextPt inp pt).w = (decodeRune (inp.drop (pt.pos.off + pt.w))).2 := by
  unfold nextPt; simp only []; split <;> exact ⟨rfl, rfl⟩

/-- `read` in terms of the pure position function -/
theorem read_eq (E : Env) (s : PState) :
    read E s =
      (if (nextPt E.input s.pt).rn = runeError ∧ (nextPt E.input s.pt).w = 1 ∧ E.opts.allowInvalid = false
       then addErr E { s with pt := nextPt E.input s.pt } errInvalidEncoding
       else { s with pt := nextPt E.input s.pt }) := by
  obtain ⟨hr, hw⟩ := nextPt_rn_w E.input s.pt
  rcases hd : decodeRune (E.input.drop (s.pt.pos.off + s.pt.w)) with ⟨rn, n⟩
  rw [hd] at hr hw
  simp only [] at hr hw
  have hpt : ({ pos := { line := (if rn = 10 then (s.pt.pos.line + 1, 0) else (s.pt.pos.line, s.pt.pos.col + 1)).1,
                         col := (if rn = 10 then (s.pt.pos.line + 1, 0) else (s.pt.pos.line, s.pt.pos.col + 1)).2,
                         off := s.pt.pos.off + s.pt.w }, rn := rn, w := n } : Savepoint) = nextPt E.input s.pt := by
    unfold nextPt; simp only [hd]; split <;> rfl
  unfold read
  simp only [hd, hpt, hr, hw]
  by_cases h1 : rn = runeError <;> by_cases h2 : n = 1 <;> by_cases h3 : E.opts.allowInvalid = true <;> simp [h1, h2, h3]

/-- `read` as the specification's `advance` -/
theorem read_advance (E : Env) (s : PState) :
    ((read E s).pt, absW (read E s)) = Spec.advance E (ctxOf s) s.pt (absW s) := by
  rw [read_eq]
  unfold Spec.advance
  simp only []
  by_cases h1 : (nextPt E.input s.pt).rn = runeError <;> by_cases h2 : (nextPt E.input s.pt).w = 1 <;>
    by_cases h3 : E.opts.allowInvalid = true <;>
    simp [h1, h2, h3, addErr, addErrAt, absW, Spec.addErrAt, Spec.errPrefix, errPrefix, ctxOf, errInvalidEncoding] <;>
    (cases s.rstack <;> simp)


section
variable {E : Env} {rec : Expr → PState → Outcome}
variable {srec : Spec.Ctx → Expr → List (String × Val) → Savepoint → Spec.World → Spec.Res}

theorem Good.of_framed {s s1 : PState} {ok : Bool} (hg : Good E s) (h : Framed E s ok s1) : Good E s1 := by
  refine ⟨?_, h.stk.ptinv hg.ptinv, h.memo⟩
  intro hnil
  have := h.stk.vlen
  rw [hnil] at this
  exact hg.vne (List.length_eq_zero_iff.mp this.symm)

theorem Framed.fail_pt {s s1 : PState} (hg : Good E s) (h : Framed E s false s1) : s1.pt = s.pt :=
  Reach.unique (h.stk.ptinv hg.ptinv).1 hg.ptinv.1 (h.failOff rfl)

theorem Framed.ctx {s s1 : PState} {ok : Bool} (h : Framed E s ok s1) : ctxOf s1 = ctxOf s :=
  ctxOf_eq h.stk.rstack h.stk.recov h.stk.invert

/-- everything that is known about one recursive call -/
def CallFacts (E : Env) (srec : Spec.Ctx → Expr → List (String × Val) → Savepoint → Spec.World → Spec.Res)
    (e : Expr) (s : PState) (o : Outcome) : Prop :=
  match o with
  | .oof => srec (ctxOf s) e (envOf s) s.pt (absW s) = .oof
  | .panic p s1 => srec (ctxOf s) e (envOf s) s.pt (absW s) = .panic p (absP s1)
  | .done v true s1 =>
    srec (ctxOf s) e (envOf s) s.pt (absW s) = .ok v s1.pt (envOf s1) (absW s1) ∧ Framed E s true s1 ∧ Good E s1
  | .done v false s1 =>
    srec (ctxOf s) e (envOf s) s.pt (absW s) = .fail (envOf s1) (absW s1) ∧ Framed E s false s1 ∧ Good E s1 ∧ s1.pt = s.pt

theorem call_facts (hp : Plain E) (hfr : ∀ e s, FrameInv E s (rec e s)) (href : Refines E rec srec)
    (e : Expr) (s : PState) (hg : Good E s) : CallFacts E srec e s (parseExprWrap E rec e s) := by
  rw [wrap_eq hp.nomemo]
  have h1 := href e s hg
  have h2 := hfr e s hg.memo
  revert h1 h2
  generalize rec e s = o
  cases o with
  | oof => intro h1 _; exact h1.symm
  | panic p s1 => intro h1 _; exact h1.symm
  | done v ok s1 =>
    cases ok with
    | true => intro h1 h2; exact ⟨h1.symm, h2, hg.of_framed h2⟩
    | false => intro h1 h2; exact ⟨h1.symm, h2, hg.of_framed h2, h2.fail_pt hg⟩

theorem ref_seq (hp : Plain E) (hfr : ∀ e s, FrameInv E s (rec e s)) (href : Refines E rec srec)
    (c : Spec.Ctx) (pt0 : Savepoint) (st0 : Store) :
    ∀ (es : List Expr) (s : PState) (acc : List Val), Good E s → ctxOf s = c →
      abs (parseSeq E rec pt0 st0 es s acc) = Spec.evalSeq E srec c st0 es (envOf s) s.pt (absW s) acc
  | [], s, acc, _, _ => by simp [parseSeq, Spec.evalSeq, abs]
  | e :: es, s, acc, hg, hc => by
    unfold parseSeq Spec.evalSeq
    have hcf := call_facts hp hfr href e s hg
    revert hcf
    generalize parseExprWrap E rec e s = o
    cases o with
    | oof => intro h; simp only [CallFacts, hc] at h; simp [Outcome.bind, abs, h]
    | panic p s1 => intro h; simp only [CallFacts, hc] at h; simp [Outcome.bind, abs, h]
    | done v ok s1 =>
      cases ok with
      | true =>
        intro ⟨h1, h2, h3⟩
        rw [hc] at h1
        simp only [Outcome.bind, h1, if_true]
        exact ref_seq hp hfr href c pt0 st0 es s1 (v :: acc) h3 (h2.ctx.trans hc)
      | false =>
        intro ⟨h1, _, _, _⟩
        rw [hc] at h1
        simp [Outcome.bind, h1, abs, absW_restoreState]


theorem Good.congr {s s' : PState} (hg : Good E s) (hv : s'.vstack = s.vstack) (hpt : s'.pt = s.pt)
    (hm : s'.memo = s.memo) : Good E s' :=
  ⟨hv ▸ hg.vne, hg.ptinv.congr hpt hm, hg.memo.congr hm⟩

theorem Good.pushV {s : PState} (hg : Good E s) : Good E (pushV s) :=
  ⟨by simp, hg.ptinv.congr (by simp) (by simp), hg.memo.congr (by simp)⟩

theorem popV_vstack_of_framed {s s1 : PState} {ok : Bool} (h : Framed E (RT.pushV s) ok s1) :
    (popV s1).vstack = s.vstack := by
  have := h.stk.vtail
  simpa using this

theorem Good.pop {s s1 : PState} {ok : Bool} (hg : Good E s) (h : Framed E (RT.pushV s) ok s1) : Good E (popV s1) :=
  ⟨by rw [popV_vstack_of_framed h]; exact hg.vne,
   (h.stk.ptinv (hg.ptinv.congr (by simp) (by simp))).congr (by simp) (by simp), h.memo.congr (by simp)⟩

theorem envOf_pop {s s1 : PState} {ok : Bool} (h : Framed E (RT.pushV s) ok s1) : envOf (popV s1) = envOf s := by
  unfold envOf; rw [popV_vstack_of_framed h]

theorem ctxOf_pop {s s1 : PState} {ok : Bool} (h : Framed E (RT.pushV s) ok s1) : ctxOf (popV s1) = ctxOf s := by
  have h1 := h.stk.rstack; have h2 := h.stk.recov; have h3 := h.stk.invert
  simp at h1 h2 h3
  exact ctxOf_eq (by simpa using h1) (by simpa using h2) (by simpa using h3)

theorem ref_choice (hp : Plain E) (hfr : ∀ e s, FrameInv E s (rec e s)) (href : Refines E rec srec)
    (c : Spec.Ctx) (line col : Nat) :
    ∀ (alts : List Expr) (i : Nat) (s : PState), Good E s → ctxOf s = c →
      abs (parseChoice E rec line col alts i s) = Spec.evalChoice E srec c alts (envOf s) s.pt (absW s)
  | [], i, s, _, _ => by simp [parseChoice, Spec.evalChoice, abs]
  | alt :: alts, i, s, hg, hc => by
    unfold parseChoice Spec.evalChoice
    simp only []
    have hcf := call_facts hp hfr href alt (pushV s) hg.pushV
    revert hcf
    generalize parseExprWrap E rec alt (pushV s) = o
    cases o with
    | oof => intro h; simp only [CallFacts, ctxOf_pushV, envOf_pushV, absW_pushV, pushV.pt, hc] at h; simp [Outcome.bind, abs, h]
    | panic p s1 => intro h; simp only [CallFacts, ctxOf_pushV, envOf_pushV, absW_pushV, pushV.pt, hc] at h; simp [Outcome.bind, abs, h]
    | done v ok s1 =>
      cases ok with
      | true =>
        intro ⟨h1, h2, _⟩
        simp only [ctxOf_pushV, envOf_pushV, absW_pushV, pushV.pt, hc] at h1
        simp only [Outcome.bind, h1, if_true, abs]
        have he : envOf (incChoiceAlt (popV s1) line col (some i)) = envOf s := by
          rw [← envOf_pop h2]; simp [envOf]
        simp [he]
      | false =>
        intro ⟨h1, h2, _, h4⟩
        simp only [ctxOf_pushV, envOf_pushV, absW_pushV, pushV.pt, hc] at h1 h4
        simp only [Outcome.bind, h1, Bool.false_eq_true, if_false]
        have hg' : Good E (RT.restoreState E (popV s1) s.state) :=
          (hg.pop h2).congr (by simp) (by simp) (by simp)
        have := ref_choice hp hfr href c line col alts (i + 1) _ hg'
          ((ctxOf_eq (by simp) (by simp) (by simp)).trans ((ctxOf_pop h2).trans hc))
        rw [this]
        have he : envOf (RT.restoreState E (popV s1) s.state) = envOf s := by
          rw [← envOf_pop h2]; unfold envOf; simp
        have hpt2 : (RT.restoreState E (popV s1) s.state).pt = s.pt := by simp [h4]
        rw [he, hpt2, absW_restoreState, absW_popV]
        rfl


theorem ref_loop (hp : Plain E) (hfr : ∀ e s, FrameInv E s (rec e s)) (href : Refines E rec srec)
    (c : Spec.Ctx) (e : Expr) :
    ∀ (k : Nat) (s : PState) (acc : List Val), Good E s → ctxOf s = c →
      abs (parseLoop E rec e k s acc) = Spec.evalLoop srec c e k (envOf s) s.pt (absW s) acc
  | 0, _, _, _, _ => by simp [parseLoop, Spec.evalLoop, abs]
  | k + 1, s, acc, hg, hc => by
    unfold parseLoop Spec.evalLoop
    simp only []
    have hcf := call_facts hp hfr href e (pushV s) hg.pushV
    revert hcf
    generalize parseExprWrap E rec e (pushV s) = o
    cases o with
    | oof => intro h; simp only [CallFacts, ctxOf_pushV, envOf_pushV, absW_pushV, pushV.pt, hc] at h; simp [Outcome.bind, abs, h]
    | panic p s1 => intro h; simp only [CallFacts, ctxOf_pushV, envOf_pushV, absW_pushV, pushV.pt, hc] at h; simp [Outcome.bind, abs, h]
    | done v ok s1 =>
      cases ok with
      | true =>
        intro ⟨h1, h2, _⟩
        simp only [ctxOf_pushV, envOf_pushV, absW_pushV, pushV.pt, hc] at h1
        simp only [Outcome.bind, h1, if_true]
        have := ref_loop hp hfr href c e k (popV s1) (v :: acc) (hg.pop h2) ((ctxOf_pop h2).trans hc)
        rw [this, envOf_pop h2]
        rfl
      | false =>
        intro ⟨h1, h2, _, h4⟩
        simp only [ctxOf_pushV, envOf_pushV, absW_pushV, pushV.pt, hc] at h1 h4
        simp only [Outcome.bind, h1, Bool.false_eq_true, if_false]
        split
        · simp [abs, envOf_pop h2]
        · simp only [abs, envOf_pop h2, absW_popV]
          have : (popV s1).pt = s.pt := by simp [h4]
          rw [this]

/-- the literal loop: position and world after the literal, or a mismatch; in both cases the attempt is logged -/
theorem ref_lit (c : Spec.Ctx) (start : Savepoint) (want : String) (ic : Bool) :
    ∀ (rs : List Rune) (s : PState), ctxOf s = c →
      match parseLit E start want ic rs s with
      | .done v true s' => (Spec.evalLit E c ic rs s.pt (absW s)).1 = some s'.pt ∧
          absW s' = Spec.note c start.pos want true (Spec.evalLit E c ic rs s.pt (absW s)).2 ∧
          v = .bytes (Spec.slice E start s'.pt) ∧ envOf s' = envOf s
      | .done _ false s' => (Spec.evalLit E c ic rs s.pt (absW s)).1 = none ∧
          absW s' = Spec.note c start.pos want false (Spec.evalLit E c ic rs s.pt (absW s)).2 ∧ envOf s' = envOf s
      | _ => False
  | [], s, hc => by simp [parseLit, Spec.evalLit, sliceFrom, Spec.slice, absW_failAt, hc]
  | r :: rs, s, hc => by
    by_cases hcond : (decide (litCur E ic s ≠ r) || decide (s.pt.w = 0)) = true
    · have h1 : parseLit E start want ic (r :: rs) s =
          .done .nil false (restore (failAt s false start.pos want) start) := by
        rw [parseLit]; simp only [hcond, if_true]
      have h2 : Spec.evalLit E c ic (r :: rs) s.pt (absW s) = (none, absW s) := by
        rw [Spec.evalLit]; simp only [litCur] at hcond; exact if_pos hcond
      rw [h1]; simp [h2, absW_failAt, hc]
    · have h1 : parseLit E start want ic (r :: rs) s = parseLit E start want ic rs (read E s) := by
        rw [parseLit]; simp only [hcond, if_false, Bool.false_eq_true]
      have hadv := read_advance E s
      rw [hc] at hadv
      have h2 : Spec.evalLit E c ic (r :: rs) s.pt (absW s) =
          Spec.evalLit E c ic rs (read E s).pt (absW (read E s)) := by
        rw [Spec.evalLit]; simp only [litCur] at hcond
        simp only [← hadv]
        exact if_neg hcond
      rw [h1, h2]
      have := ref_lit c start want ic rs (read E s) ((ctxOf_eq (by simp) (by simp) (by simp)).trans hc)
      revert this
      generalize parseLit E start want ic rs (read E s) = o
      cases o with
      | oof => simp
      | panic p s1 => simp
      | done v ok s1 =>
        cases ok <;> simp only [] <;> intro h1 <;> simp_all

theorem ref_throw (hp : Plain E) (hfr : ∀ e s, FrameInv E s (rec e s)) (href : Refines E rec srec)
    (c : Spec.Ctx) (label : String) :
    ∀ (frames : List (List (String × Expr))) (s : PState), Good E s → ctxOf s = c →
      abs (parseThrow E rec label frames s) = Spec.evalThrow srec c label frames (envOf s) s.pt (absW s)
  | [], s, _, _ => by simp [parseThrow, Spec.evalThrow, abs]
  | fr :: frs, s, hg, hc => by
    unfold parseThrow Spec.evalThrow
    cases hl : lookup label fr with
    | none => simp only []; exact ref_throw hp hfr href c label frs s hg hc
    | some r =>
      simp only []
      have hcf := call_facts hp hfr href r s hg
      revert hcf
      generalize parseExprWrap E rec r s = o
      cases o with
      | oof => intro h; simp only [CallFacts, hc] at h; simp [Outcome.bind, abs, h]
      | panic p s1 => intro h; simp only [CallFacts, hc] at h; simp [Outcome.bind, abs, h]
      | done v ok s1 =>
        cases ok with
        | true =>
          intro ⟨h1, _, _⟩
          rw [hc] at h1
          simp [Outcome.bind, h1, abs]
        | false =>
          intro ⟨h1, h2, h3, h4⟩
          rw [hc] at h1
          simp only [Outcome.bind, h1, Bool.false_eq_true, if_false]
          have := ref_throw hp hfr href c label frs s1 h3 (h2.ctx.trans hc)
          rw [this, h4]


/-! ### primitives -/

theorem errPrefix_spec (s : PState) (pos : Pos) : errPrefix E s pos = Spec.errPrefix E (ctxOf s) pos := by
  unfold errPrefix Spec.errPrefix ctxOf
  cases s.rstack <;> rfl

theorem absW_addErrAtOpt (s : PState) (o : Option String) (pos : Pos) :
    absW (addErrAtOpt E s o pos) = Spec.addErrAt E (ctxOf s) (absW s) o pos := by
  unfold addErrAtOpt Spec.addErrAt
  cases o with
  | none => rfl
  | some m => simp [addErrAt, absW, errPrefix_spec]

theorem absW_addErrOpt (s : PState) (o : Option String) :
    absW (addErrOpt E s o) = Spec.addErrAt E (ctxOf s) (absW s) o s.pt.pos := by
  unfold addErrOpt; exact absW_addErrAtOpt s o _

theorem absW_addErr (s : PState) (m : String) :
    absW (addErr E s m) = Spec.addErrAt E (ctxOf s) (absW s) (some m) s.pt.pos := by
  simp [addErr, addErrAt, absW, Spec.addErrAt, errPrefix_spec]

theorem callBlock_spec (blk : Nat) (s : PState) :
    (callBlock E blk s).1 = (Spec.call E blk (envOf s) s.pt (absW s)).1 ∧
    absW (callBlock E blk s).2 = (Spec.call E blk (envOf s) s.pt (absW s)).2 := by
  unfold callBlock Spec.call envOf absW
  simp only []
  constructor <;> trivial

@[simp] theorem ctxOf_callBlock (blk : Nat) (s : PState) : ctxOf (callBlock E blk s).2 = ctxOf s :=
  ctxOf_eq (by simp) (by simp) (by simp)
@[simp] theorem envOf_callBlock (blk : Nat) (s : PState) : envOf (callBlock E blk s).2 = envOf s := by simp [envOf]
@[simp] theorem ctxOf_read (s : PState) : ctxOf (read E s) = ctxOf s := ctxOf_eq (by simp) (by simp) (by simp)
@[simp] theorem ctxOf_failAt (s : PState) (b : Bool) (p : Pos) (w : String) : ctxOf (failAt s b p w) = ctxOf s :=
  ctxOf_eq (by simp) (by simp) (by simp)

theorem matchOne_spec (s : PState) (want : String) :
    abs (matchOne E s want) =
      (let a := Spec.advance E (ctxOf s) s.pt (absW s)
       .ok (.bytes (Spec.slice E s.pt a.1)) a.1 (envOf s) (Spec.note (ctxOf s) s.pt.pos want true a.2)) := by
  have h := read_advance E s
  unfold matchOne
  simp only [abs, ← h, absW_failAt, envOf_failAt, envOf_read, sliceFrom, Spec.slice, failAt.pt, ctxOf_read]


theorem ref_runCodeBlock (blk : Nat) (s : PState) (k : BlockResult → PState → Outcome)
    (sk : BlockResult → Spec.World → Spec.Res)
    (hk : ∀ r s2, ctxOf s2 = ctxOf s → envOf s2 = envOf s → s2.pt = s.pt → abs (k r s2) = sk r (absW s2)) :
    abs (runCodeBlock E blk s k) =
      (match (Spec.call E blk (envOf s) s.pt (absW s)).1.panic with
       | some p => .panic p (Spec.panicAt (ctxOf s) s.pt (Spec.call E blk (envOf s) s.pt (absW s)).2)
       | none => sk (Spec.call E blk (envOf s) s.pt (absW s)).1
          (Spec.addErrAt E (ctxOf s) (Spec.call E blk (envOf s) s.pt (absW s)).2
            (Spec.call E blk (envOf s) s.pt (absW s)).1.err s.pt.pos)) := by
  unfold runCodeBlock
  simp only []
  obtain ⟨hr, hw⟩ := callBlock_spec (E := E) blk s
  rw [← hr, ← hw]
  cases (callBlock E blk s).1.panic with
  | some p =>
    simp only [abs, absP_eq, ctxOf_callBlock, callBlock.pt]
  | none =>
    simp only []
    rw [hk _ _ ((ctxOf_eq (by simp) (by simp) (by simp)).trans (ctxOf_callBlock (E := E) blk s)) (by simp) (by simp), absW_addErrOpt]
    simp

theorem ref_andCode (k id blk : Nat) (s : PState) :
    abs (parseAndCode E blk s) = Spec.evalStep E srec k (ctxOf s) (.andCode id blk) (envOf s) s.pt (absW s) := by
  unfold parseAndCode
  rw [ref_runCodeBlock blk s _
    (fun r w => if r.retB then .ok .nil s.pt (envOf s) (Spec.rollback E w s.state) else .fail (envOf s) (Spec.rollback E w s.state))]
  · simp only [Spec.evalStep]; rfl
  · intro r s2 _ he hpt
    cases r.retB <;> simp [abs, absW_restoreState, he, hpt]

theorem ref_notCode (k id blk : Nat) (s : PState) :
    abs (parseNotCode E blk s) = Spec.evalStep E srec k (ctxOf s) (.notCode id blk) (envOf s) s.pt (absW s) := by
  unfold parseNotCode
  rw [ref_runCodeBlock blk s _
    (fun r w => if !r.retB then .ok .nil s.pt (envOf s) (Spec.rollback E w s.state) else .fail (envOf s) (Spec.rollback E w s.state))]
  · simp only [Spec.evalStep]; rfl
  · intro r s2 _ he hpt
    cases r.retB <;> simp [abs, absW_restoreState, he, hpt]

theorem ref_stateCode (k id blk : Nat) (s : PState) :
    abs (parseStateCode E blk s) = Spec.evalStep E srec k (ctxOf s) (.stateCode id blk) (envOf s) s.pt (absW s) := by
  unfold parseStateCode
  simp only [Spec.evalStep]
  by_cases hu : E.useState = true
  · simp only [hu, Bool.not_true, Bool.false_eq_true, if_false]
    rw [ref_runCodeBlock blk s _ (fun r w => .ok .nil s.pt (envOf s) w)]
    · rfl
    · intro r s2 _ he hpt; simp [abs, he, hpt]
  · simp [hu, abs, absP_eq]


theorem ref_any (k id : Nat) (s : PState) :
    abs (parseAny E s) = Spec.evalStep E srec k (ctxOf s) (.any id) (envOf s) s.pt (absW s) := by
  unfold parseAny
  simp only [Spec.evalStep, Spec.atEOF]
  by_cases h : (s.pt.rn = runeError && s.pt.w = 0) = true
  · simp only [h, if_true]; simp [abs, absW_failAt]
  · simp only [h, if_false, Bool.false_eq_true]
    rw [matchOne_spec]

theorem ref_cls (k id : Nat) (cd : ClassDesc) (s : PState) :
    abs (parseCharClass E cd s) = Spec.evalStep E srec k (ctxOf s) (.cls id cd) (envOf s) s.pt (absW s) := by
  unfold parseCharClass
  simp only [Spec.evalStep, Spec.atEOF]
  by_cases hb : (E.flags.basicLatin && decide (s.pt.rn < 128)) = true
  · simp only [hb, if_true]
    by_cases hm : (cd.basicLatin.getD s.pt.rn false != cd.inverted) = true
    · simp only [hm, if_true]; rw [matchOne_spec]
    · simp only [hm, if_false, Bool.false_eq_true]; simp [abs, absW_failAt]
  · simp only [hb, if_false, Bool.false_eq_true]
    by_cases he : (s.pt.rn = runeError && s.pt.w = 0) = true
    · simp only [he, if_true]; simp [abs, absW_failAt]
    · simp only [he, if_false, Bool.false_eq_true, Bool.not_false, Bool.true_and]
      by_cases hm : (classContains E cd s.pt.rn != cd.inverted) = true
      · simp only [hm, if_true]; rw [matchOne_spec]
      · simp only [hm, if_false, Bool.false_eq_true]; simp [abs, absW_failAt]


theorem restore_pt (s' : PState) (pt : Savepoint) (h1 : Reach E.input s'.pt) (h2 : Reach E.input pt) :
    (restore s' pt).pt = pt := by
  unfold restore; split
  · rename_i h; exact Reach.unique h1 h2 h.symm
  · rfl

theorem ref_and (hp : Plain E) (hfr : ∀ e s, FrameInv E s (rec e s)) (href : Refines E rec srec)
    (k id : Nat) (e1 : Expr) (s : PState) (hg : Good E s) :
    abs (parseAnd E rec e1 s) = Spec.evalStep E srec k (ctxOf s) (.and id e1) (envOf s) s.pt (absW s) := by
  unfold parseAnd
  simp only [Spec.evalStep]
  have hcf := call_facts hp hfr href e1 (pushV s) hg.pushV
  revert hcf
  generalize parseExprWrap E rec e1 (pushV s) = o
  cases o with
  | oof => intro h; simp only [CallFacts, ctxOf_pushV, envOf_pushV, absW_pushV, pushV.pt] at h; simp [Outcome.bind, abs, h]
  | panic p s1 => intro h; simp only [CallFacts, ctxOf_pushV, envOf_pushV, absW_pushV, pushV.pt] at h; simp [Outcome.bind, abs, h]
  | done v ok s1 =>
    have he : ∀ (h2 : Framed E (RT.pushV s) ok s1),
        envOf (restore (RT.restoreState E (popV s1) s.state) s.pt) = envOf s := by
      intro h2; rw [← envOf_pop h2]; simp [envOf]
    have hpt : Good E s1 → (restore (RT.restoreState E (popV s1) s.state) s.pt).pt = s.pt :=
      fun h3 => restore_pt _ _ (by simpa using h3.ptinv.1) hg.ptinv.1
    cases ok with
    | true =>
      intro ⟨h1, h2, h3⟩
      simp only [ctxOf_pushV, envOf_pushV, absW_pushV, pushV.pt] at h1
      simp only [Outcome.bind, h1, abs, he h2, hpt h3, absW_restore, absW_restoreState, absW_popV]
      rfl
    | false =>
      intro ⟨h1, h2, _, _⟩
      simp only [ctxOf_pushV, envOf_pushV, absW_pushV, pushV.pt] at h1
      simp only [Outcome.bind, h1, abs, he h2, absW_restore, absW_restoreState, absW_popV]
      rfl

theorem ref_not (hp : Plain E) (hfr : ∀ e s, FrameInv E s (rec e s)) (href : Refines E rec srec)
    (k id : Nat) (e1 : Expr) (s : PState) (hg : Good E s) :
    abs (parseNot E rec e1 s) = Spec.evalStep E srec k (ctxOf s) (.not id e1) (envOf s) s.pt (absW s) := by
  unfold parseNot
  simp only [Spec.evalStep]
  have hg' : Good E { pushV s with maxFailInvert := !s.maxFailInvert } := hg.pushV.congr rfl rfl rfl
  have hcf := call_facts hp hfr href e1 _ hg'
  revert hcf
  generalize hs0 : ({ pushV s with maxFailInvert := !s.maxFailInvert } : PState) = s0
  have e1' : ctxOf s0 = { ctxOf s with neg := !(ctxOf s).neg } := by subst hs0; rfl
  have e2' : envOf s0 = [] := by subst hs0; rfl
  have e3' : absW s0 = absW s := by subst hs0; rfl
  have e4' : s0.pt = s.pt := by subst hs0; rfl
  have e5' : s0.vstack = (pushV s).vstack := by subst hs0; rfl
  generalize parseExprWrap E rec e1 s0 = o
  cases o with
  | oof => intro h; simp only [CallFacts, e1', e2', e3', e4'] at h; simp [Outcome.bind, abs, h]
  | panic p s1 => intro h; simp only [CallFacts, e1', e2', e3', e4'] at h; simp [Outcome.bind, abs, h]
  | done v ok s1 =>
    have he : ∀ (h2 : Framed E s0 ok s1),
        envOf (restore (RT.restoreState E (popV { s1 with maxFailInvert := !s1.maxFailInvert }) s.state) s.pt) = envOf s := by
      intro h2
      have hv : s1.vstack.tail = s.vstack := by
        have := h2.stk.vtail; rw [e5'] at this; simpa [pushV] using this
      rw [envOf_restore, envOf_restoreState]
      show (s1.vstack.tail).headD [] = _
      rw [hv]; rfl
    have hpt : Good E s1 → (restore (RT.restoreState E (popV { s1 with maxFailInvert := !s1.maxFailInvert }) s.state) s.pt).pt = s.pt :=
      fun h3 => restore_pt _ _ (by simpa using h3.ptinv.1) hg.ptinv.1
    cases ok with
    | true =>
      intro ⟨h1, h2, _⟩
      simp only [e1', e2', e3', e4'] at h1
      simp only [Outcome.bind, h1, abs, he h2, absW_restore, absW_restoreState, absW_popV, Bool.not_true]
      rfl
    | false =>
      intro ⟨h1, h2, h3, _⟩
      simp only [e1', e2', e3', e4'] at h1
      simp only [Outcome.bind, h1, abs, he h2, hpt h3, absW_restore, absW_restoreState, absW_popV, Bool.not_false]
      rfl


theorem envOf_setLabel {s : PState} (l : String) (v : Val) (h : s.vstack ≠ []) :
    envOf (setLabel s l v) = (l, v) :: envOf s := by
  unfold setLabel envOf
  cases hv : s.vstack with
  | nil => exact absurd hv h
  | cons m rest => simp

theorem ref_labeled (hp : Plain E) (hfr : ∀ e s, FrameInv E s (rec e s)) (href : Refines E rec srec)
    (k id : Nat) (l : String) (e1 : Expr) (s : PState) (hg : Good E s) :
    abs (parseLabeled E rec l e1 s) = Spec.evalStep E srec k (ctxOf s) (.labeled id l e1) (envOf s) s.pt (absW s) := by
  unfold parseLabeled
  simp only [Spec.evalStep]
  have hcf := call_facts hp hfr href e1 (pushV s) hg.pushV
  revert hcf
  generalize parseExprWrap E rec e1 (pushV s) = o
  cases o with
  | oof => intro h; simp only [CallFacts, ctxOf_pushV, envOf_pushV, absW_pushV, pushV.pt] at h; simp [Outcome.bind, abs, h]
  | panic p s1 => intro h; simp only [CallFacts, ctxOf_pushV, envOf_pushV, absW_pushV, pushV.pt] at h; simp [Outcome.bind, abs, h]
  | done v ok s1 =>
    cases ok with
    | true =>
      intro ⟨h1, h2, _⟩
      simp only [ctxOf_pushV, envOf_pushV, absW_pushV, pushV.pt] at h1
      simp only [Outcome.bind, h1, Bool.true_and]
      by_cases hl : l = ""
      · simp [hl, abs, envOf_pop h2]
      · simp only [hl, ne_eq, not_false_eq_true, decide_true, if_true, abs,
          envOf_setLabel l v (hg.pop h2).vne, envOf_pop h2]
        simp
    | false =>
      intro ⟨h1, h2, _, _⟩
      simp only [ctxOf_pushV, envOf_pushV, absW_pushV, pushV.pt] at h1
      simp [Outcome.bind, h1, abs, envOf_pop h2]

/-! ### a failed expression yields the nil value (plain configuration) -/

def _root_.PV.Outcome.NilFail : Outcome → Prop
  | .done v false _ => v = .nil
  | _ => True

theorem NilFail.bind {o : Outcome} {f : Val → Bool → PState → Outcome} (ho : o.NilFail)
    (hf : ∀ v ok s, (ok = false → v = .nil) → (f v ok s).NilFail) : (o.bind f).NilFail := by
  cases o with
  | oof => trivial
  | panic p s => trivial
  | done v ok s =>
    cases ok with
    | true => exact hf v true s (fun h => by cases h)
    | false => exact hf v false s (fun _ => ho)

section nilfail
variable (hmz : E.opts.memoize = false) (hnf : ∀ e s, (rec e s).NilFail)
include hmz hnf

theorem wrap_nilfail (e : Expr) (s : PState) : (parseExprWrap E rec e s).NilFail := by
  rw [wrap_eq hmz]; exact hnf e s

theorem seq_nilfail (pt : Savepoint) (st : Store) : ∀ (es : List Expr) (s : PState) (acc : List Val),
    (parseSeq E rec pt st es s acc).NilFail
  | [], _, _ => by simp [parseSeq, Outcome.NilFail]
  | e :: es, s, acc => by
    unfold parseSeq
    apply NilFail.bind (wrap_nilfail hmz hnf e s)
    intro v ok s1 _
    cases ok with
    | true => simp only [if_true]; exact seq_nilfail pt st es s1 _
    | false => simp [Outcome.NilFail]

theorem choice_nilfail (line col : Nat) : ∀ (alts : List Expr) (i : Nat) (s : PState),
    (parseChoice E rec line col alts i s).NilFail
  | [], _, _ => by simp [parseChoice, Outcome.NilFail]
  | a :: alts, i, s => by
    unfold parseChoice
    apply NilFail.bind (wrap_nilfail hmz hnf a _)
    intro v ok s1 _
    cases ok with
    | true => simp [Outcome.NilFail]
    | false => simp only [Bool.false_eq_true, if_false]; exact choice_nilfail line col alts _ _

theorem loop_nilfail (e : Expr) : ∀ (k : Nat) (s : PState) (acc : List Val), (parseLoop E rec e k s acc).NilFail
  | 0, _, _ => by simp [parseLoop, Outcome.NilFail]
  | k + 1, s, acc => by
    unfold parseLoop
    apply NilFail.bind (wrap_nilfail hmz hnf e _)
    intro v ok s1 _
    cases ok with
    | true => simp only [if_true]; exact loop_nilfail e k _ _
    | false => simp only [Bool.false_eq_true, if_false]; split <;> simp [Outcome.NilFail]

theorem throw_nilfail (label : String) : ∀ (frames : List (List (String × Expr))) (s : PState),
    (parseThrow E rec label frames s).NilFail
  | [], _ => by simp [parseThrow, Outcome.NilFail]
  | fr :: frs, s => by
    unfold parseThrow
    split
    · apply NilFail.bind (wrap_nilfail hmz hnf _ _)
      intro v ok s1 _
      cases ok with
      | true => simp [Outcome.NilFail]
      | false => simp only [Bool.false_eq_true, if_false]; exact throw_nilfail label frs _
    · exact throw_nilfail label frs _

omit hmz hnf in
theorem lit_nilfail (start : Savepoint) (want : String) (ic : Bool) : ∀ (rs : List Rune) (s : PState),
    (parseLit E start want ic rs s).NilFail
  | [], _ => by simp [parseLit, Outcome.NilFail]
  | r :: rs, s => by
    unfold parseLit
    split
    · simp [Outcome.NilFail]
    · exact lit_nilfail start want ic rs _

omit hmz hnf in
theorem runCodeBlock_nilfail (blk : Nat) (s : PState) (k : BlockResult → PState → Outcome)
    (hk : ∀ r s2, (k r s2).NilFail) : (runCodeBlock E blk s k).NilFail := by
  unfold runCodeBlock
  simp only []
  split
  · trivial
  · exact hk _ _

theorem rule_nilfail (r : Rule) (s : PState) : (parseRule E rec r s).NilFail := by
  unfold parseRule
  apply NilFail.bind (wrap_nilfail hmz hnf _ _)
  intro v ok s1 h
  cases ok with
  | true => trivial
  | false => exact h rfl

end nilfail

theorem ref_zeroOrOne (hp : Plain E) (hfr : ∀ e s, FrameInv E s (rec e s)) (href : Refines E rec srec)
    (hnf : ∀ e s, (rec e s).NilFail)
    (k id : Nat) (e1 : Expr) (s : PState) (hg : Good E s) :
    abs (parseZeroOrOne E rec e1 s) = Spec.evalStep E srec k (ctxOf s) (.zeroOrOne id e1) (envOf s) s.pt (absW s) := by
  unfold parseZeroOrOne
  simp only [Spec.evalStep]
  have hcf := call_facts hp hfr href e1 (pushV s) hg.pushV
  have hn := wrap_nilfail hp.nomemo hnf e1 (pushV s)
  revert hcf hn
  generalize parseExprWrap E rec e1 (pushV s) = o
  cases o with
  | oof => intro h _; simp only [CallFacts, ctxOf_pushV, envOf_pushV, absW_pushV, pushV.pt] at h; simp [Outcome.bind, abs, h]
  | panic p s1 => intro h _; simp only [CallFacts, ctxOf_pushV, envOf_pushV, absW_pushV, pushV.pt] at h; simp [Outcome.bind, abs, h]
  | done v ok s1 =>
    cases ok with
    | true =>
      intro ⟨h1, h2, _⟩ _
      simp only [ctxOf_pushV, envOf_pushV, absW_pushV, pushV.pt] at h1
      simp [Outcome.bind, h1, abs, envOf_pop h2]
    | false =>
      intro ⟨h1, h2, _, h4⟩ hn
      simp only [ctxOf_pushV, envOf_pushV, absW_pushV, pushV.pt] at h1 h4
      simp only [Outcome.NilFail] at hn
      simp [Outcome.bind, h1, abs, envOf_pop h2, h4, hn]

theorem ref_recovery (hp : Plain E) (hfr : ∀ e s, FrameInv E s (rec e s)) (href : Refines E rec srec)
    (k id : Nat) (e1 r : Expr) (labels : List String) (s : PState) (hg : Good E s) :
    abs (parseRecovery E rec e1 r labels s) =
      Spec.evalStep E srec k (ctxOf s) (.recovery id e1 r labels) (envOf s) s.pt (absW s) := by
  unfold parseRecovery
  simp only [Spec.evalStep]
  have hcf := call_facts hp hfr href e1 (pushRecovery s labels r) (hg.congr rfl rfl rfl)
  revert hcf
  generalize parseExprWrap E rec e1 (pushRecovery s labels r) = o
  have hc : ctxOf (pushRecovery s labels r) =
      { ctxOf s with handlers := (labels.map (fun l => (l, r))).reverse :: (ctxOf s).handlers } := rfl
  cases o with
  | oof => intro h; simp only [CallFacts, hc, envOf_pushRecovery, absW_pushRecovery, pushRecovery.pt] at h; simp [Outcome.bind, abs, h]
  | panic p s1 => intro h; simp only [CallFacts, hc, envOf_pushRecovery, absW_pushRecovery, pushRecovery.pt] at h; simp [Outcome.bind, abs, h]
  | done v ok s1 =>
    cases ok with
    | true =>
      intro ⟨h1, _, _⟩
      simp only [hc, envOf_pushRecovery, absW_pushRecovery, pushRecovery.pt] at h1
      simp [Outcome.bind, h1, abs]
    | false =>
      intro ⟨h1, _, _, _⟩
      simp only [hc, envOf_pushRecovery, absW_pushRecovery, pushRecovery.pt] at h1
      simp [Outcome.bind, h1, abs]


theorem ref_action (hp : Plain E) (hfr : ∀ e s, FrameInv E s (rec e s)) (href : Refines E rec srec)
    (k id blk : Nat) (e1 : Expr) (s : PState) (hg : Good E s) :
    abs (parseAction E rec blk e1 s) = Spec.evalStep E srec k (ctxOf s) (.action id blk e1) (envOf s) s.pt (absW s) := by
  unfold parseAction
  simp only [Spec.evalStep]
  have hcf := call_facts hp hfr href e1 s hg
  revert hcf
  generalize parseExprWrap E rec e1 s = o
  cases o with
  | oof => intro h; simp only [CallFacts] at h; simp [Outcome.bind, abs, h]
  | panic p s1 => intro h; simp only [CallFacts] at h; simp [Outcome.bind, abs, h]
  | done v ok s1 =>
    cases ok with
    | false =>
      intro ⟨h1, _, _, _⟩
      simp [Outcome.bind, h1, abs]
    | true =>
      intro ⟨h1, h2, _⟩
      simp only [Outcome.bind, h1, if_true]
      generalize hs2 : ({ s1 with curPos := s.pt.pos, curText := sliceFrom E s1 s.pt } : PState) = s2
      have a1 : envOf s2 = envOf s1 := by subst hs2; rfl
      have a2 : s2.pt = s1.pt := by subst hs2; rfl
      have a3 : absW s2 = { absW s1 with curPos := s.pt.pos, curText := Spec.slice E s.pt s1.pt } := by
        subst hs2; rfl
      have a4 : ctxOf s2 = ctxOf s := by subst hs2; exact h2.ctx
      have a5 : s2.state = s1.state := by subst hs2; rfl
      obtain ⟨hr, hw⟩ := callBlock_spec (E := E) blk s2
      rw [a1, a2, a3] at hr hw
      rw [← hr, ← hw]
      cases (callBlock E blk s2).1.panic with
      | some p => simp only [abs, absP_eq, ctxOf_callBlock, callBlock.pt, a2, a4]
      | none =>
        simp only [abs, absW_restoreState, absW_addErrAtOpt, envOf_restoreState, envOf_addErrAtOpt, envOf_callBlock,
          ctxOf_callBlock, a1, a2, a4, a5]
        simp [a2]
        try rfl

theorem ruleWrap_eq (hp : Plain E) (k : Nat) (name : String) (r : Rule) (hf : E.findRule name = some r) (s : PState) :
    parseRuleWrap E rec k r s = parseRule E rec r s := by
  obtain ⟨h1, h2⟩ := hp.nolr name r hf
  unfold parseRuleWrap
  simp [hp.nomemo, h1]

theorem ref_ruleRef (hp : Plain E) (hfr : ∀ e s, FrameInv E s (rec e s)) (href : Refines E rec srec)
    (k id : Nat) (name : String) (s : PState) (hg : Good E s) :
    abs (parseRuleRef E rec k name s) = Spec.evalStep E srec k (ctxOf s) (.ruleRef id name) (envOf s) s.pt (absW s) := by
  unfold parseRuleRef
  simp only [Spec.evalStep]
  by_cases hn : name = ""
  · simp [hn, abs, absP_eq]
  · simp only [hn, if_false]
    cases hf : E.findRule name with
    | none => simp [abs, absW_addErr]
    | some r =>
      simp only []
      rw [ruleWrap_eq hp k name r hf]
      unfold parseRule
      simp only []
      generalize hs0 : ({ s with rstack := r :: s.rstack } : PState) = s0
      have b1 : Good E s0 := by subst hs0; exact hg.congr rfl rfl rfl
      have b2 : ctxOf (pushV s0) = { ctxOf s with rule := some r } := by subst hs0; rfl
      have b3 : absW s0 = absW s := by subst hs0; rfl
      have b4 : s0.pt = s.pt := by subst hs0; rfl
      have b5 : s0.vstack = s.vstack := by subst hs0; rfl
      have hcf := call_facts hp hfr href r.expr (pushV s0) b1.pushV
      revert hcf
      generalize parseExprWrap E rec r.expr (pushV s0) = o
      cases o with
      | oof => intro h; simp only [CallFacts, b2, envOf_pushV, absW_pushV, pushV.pt, b3, b4] at h; simp [Outcome.bind, abs, h]
      | panic p s1 => intro h; simp only [CallFacts, b2, envOf_pushV, absW_pushV, pushV.pt, b3, b4] at h; simp [Outcome.bind, abs, h]
      | done v ok s1 =>
        have he : ∀ (h2 : Framed E (RT.pushV s0) ok s1), (popV s1).vstack.headD [] = envOf s := by
          intro h2; rw [popV_vstack_of_framed h2, b5]; rfl
        cases ok with
        | true =>
          intro ⟨h1, h2, _⟩
          simp only [b2, envOf_pushV, absW_pushV, pushV.pt, b3, b4] at h1
          simp only [Outcome.bind, h1, abs]
          have := he h2
          simp [envOf] at this ⊢
          exact ⟨this, rfl⟩
        | false =>
          intro ⟨h1, h2, _, _⟩
          simp only [b2, envOf_pushV, absW_pushV, pushV.pt, b3, b4] at h1
          simp only [Outcome.bind, h1, abs]
          have := he h2
          simp [envOf] at this ⊢
          exact ⟨this, rfl⟩


theorem loop_fail_facts (hp : Plain E) (hfr : ∀ e s, FrameInv E s (rec e s)) (href : Refines E rec srec) (e : Expr) :
    ∀ (k : Nat) (s : PState) (acc : List Val) (v : Val) (s' : PState), Good E s →
      parseLoop E rec e k s acc = .done v false s' → acc = [] ∧ s'.pt = s.pt ∧ envOf s' = envOf s
  | 0, _, _, _, _, _ => by simp [parseLoop]
  | k + 1, s, acc, v, s', hg => by
    unfold parseLoop
    simp only []
    have hcf := call_facts hp hfr href e (pushV s) hg.pushV
    revert hcf
    generalize parseExprWrap E rec e (pushV s) = o
    cases o with
    | oof => intro _ h; simp [Outcome.bind] at h
    | panic p s1 => intro _ h; simp [Outcome.bind] at h
    | done v1 ok s1 =>
      cases ok with
      | true =>
        intro ⟨_, h2, _⟩ h
        simp only [Outcome.bind, if_true] at h
        have := (loop_fail_facts hp hfr href e k (popV s1) (v1 :: acc) v s' (hg.pop h2) h).1
        cases this
      | false =>
        intro ⟨_, h2, _, h4⟩ h
        simp only [Outcome.bind, Bool.false_eq_true, if_false] at h
        split at h
        · rename_i hemp
          simp only [Outcome.done.injEq] at h
          obtain ⟨_, _, rfl⟩ := h
          refine ⟨by simpa using hemp, by simpa using h4, envOf_pop h2⟩
        · simp at h

theorem ref_zeroOrMore (hp : Plain E) (hfr : ∀ e s, FrameInv E s (rec e s)) (href : Refines E rec srec)
    (k id : Nat) (e1 : Expr) (s : PState) (hg : Good E s) :
    abs (parseZeroOrMore E rec k e1 s) = Spec.evalStep E srec k (ctxOf s) (.zeroOrMore id e1) (envOf s) s.pt (absW s) := by
  unfold parseZeroOrMore
  simp only [Spec.evalStep]
  have h := ref_loop hp hfr href (ctxOf s) e1 k s [] hg rfl
  have hf := loop_fail_facts hp hfr href e1 k s []
  rw [← h]
  revert hf
  generalize parseLoop E rec e1 k s [] = o
  cases o with
  | oof => intro _; simp [Outcome.bind, abs]
  | panic p s1 => intro _; simp [Outcome.bind, abs]
  | done v ok s1 =>
    cases ok with
    | true => intro _; simp [Outcome.bind, abs]
    | false =>
      intro hf
      obtain ⟨_, h1, h2⟩ := hf v s1 hg rfl
      simp [Outcome.bind, abs, h1, h2]

theorem ref_litE (k id : Nat) (val : List Rune) (ic : Bool) (want : String) (s : PState) :
    abs (parseLit E s.pt want ic val s) = Spec.evalStep E srec k (ctxOf s) (.lit id val ic want) (envOf s) s.pt (absW s) := by
  simp only [Spec.evalStep]
  have h := ref_lit (E := E) (ctxOf s) s.pt want ic val s rfl
  revert h
  generalize parseLit E s.pt want ic val s = o
  cases o with
  | oof => simp
  | panic p s1 => simp
  | done v ok s1 =>
    cases ok with
    | true =>
      simp only []; intro ⟨h1, h2, h3, h4⟩
      rcases hev : Spec.evalLit E (ctxOf s) ic val s.pt (absW s) with ⟨a, b⟩
      rw [hev] at h1 h2; simp only [] at h1 h2
      subst h1; simp [h2, h3, h4, abs]
    | false =>
      simp only []; intro ⟨h1, h2, h3⟩
      rcases hev : Spec.evalLit E (ctxOf s) ic val s.pt (absW s) with ⟨a, b⟩
      rw [hev] at h1 h2; simp only [] at h1 h2
      subst h1; simp [h2, h3, abs]

/-- one level: the runtime's type switch computes the specification's `evalStep` -/
theorem ref_body (hp : Plain E) (hfr : ∀ e s, FrameInv E s (rec e s)) (href : Refines E rec srec)
    (hnf : ∀ e s, (rec e s).NilFail) (k : Nat) (e : Expr) (s : PState) (hg : Good E s) :
    abs (parseExprBody E rec k e s) = Spec.evalStep E srec k (ctxOf s) e (envOf s) s.pt (absW s) := by
  cases e with
  | action id blk e1 => exact ref_action hp hfr href k id blk e1 s hg
  | andCode id blk => exact ref_andCode k id blk s
  | notCode id blk => exact ref_notCode k id blk s
  | stateCode id blk => exact ref_stateCode k id blk s
  | and id e1 => exact ref_and hp hfr href k id e1 s hg
  | not id e1 => exact ref_not hp hfr href k id e1 s hg
  | any id => exact ref_any k id s
  | cls id c => exact ref_cls k id c s
  | choice id line col alts =>
    simp only [parseExprBody, Spec.evalStep]
    exact ref_choice hp hfr href (ctxOf s) line col alts 0 s hg rfl
  | labeled id l e1 => exact ref_labeled hp hfr href k id l e1 s hg
  | lit id val ic want => exact ref_litE k id val ic want s
  | oneOrMore id e1 =>
    simp only [parseExprBody, Spec.evalStep]
    exact ref_loop hp hfr href (ctxOf s) e1 k s [] hg rfl
  | zeroOrMore id e1 => exact ref_zeroOrMore hp hfr href k id e1 s hg
  | zeroOrOne id e1 => exact ref_zeroOrOne hp hfr href hnf k id e1 s hg
  | recovery id e1 r labels => exact ref_recovery hp hfr href k id e1 r labels s hg
  | ruleRef id name => exact ref_ruleRef hp hfr href k id name s hg
  | seq id es =>
    simp only [parseExprBody, Spec.evalStep]
    exact ref_seq hp hfr href (ctxOf s) s.pt s.state es s [] hg rfl
  | throw id label =>
    simp only [parseExprBody, Spec.evalStep]
    exact ref_throw hp hfr href (ctxOf s) label s.recoveryStack s hg rfl


theorem body_nilfail (hp : Plain E) (hnf : ∀ e s, (rec e s).NilFail) (k : Nat) (e : Expr) (s : PState) :
    (parseExprBody E rec k e s).NilFail := by
  have hw := wrap_nilfail hp.nomemo hnf
  cases e with
  | action id blk e1 =>
    simp only [parseExprBody, parseAction]
    apply NilFail.bind (hw _ _)
    intro v ok s1 h
    cases ok with
    | true => simp only [if_true]; split <;> trivial
    | false => exact h rfl
  | andCode id blk =>
    simp only [parseExprBody, parseAndCode]
    apply runCodeBlock_nilfail
    intro r s2; cases r.retB <;> simp [Outcome.NilFail]
  | notCode id blk =>
    simp only [parseExprBody, parseNotCode]
    apply runCodeBlock_nilfail
    intro r s2; cases r.retB <;> simp [Outcome.NilFail]
  | stateCode id blk =>
    simp only [parseExprBody, parseStateCode]
    split
    · trivial
    · exact runCodeBlock_nilfail blk s _ (fun _ _ => trivial)
  | and id e1 =>
    simp only [parseExprBody, parseAnd]
    exact NilFail.bind (hw _ _) (fun v ok s1 _ => by cases ok <;> simp [Outcome.NilFail])
  | not id e1 =>
    simp only [parseExprBody, parseNot]
    exact NilFail.bind (hw _ _) (fun v ok s1 _ => by cases ok <;> simp [Outcome.NilFail])
  | any id =>
    simp only [parseExprBody, parseAny, matchOne]
    split <;> simp [Outcome.NilFail]
  | cls id c =>
    simp only [parseExprBody, parseCharClass, matchOne]
    repeat' split
    all_goals simp [Outcome.NilFail]
  | choice id line col alts => exact choice_nilfail hp.nomemo hnf line col alts 0 s
  | labeled id l e1 =>
    simp only [parseExprBody, parseLabeled]
    exact NilFail.bind (hw _ _) (fun v ok s1 h => by cases ok <;> simp [Outcome.NilFail]; exact h rfl)
  | lit id val ic want => exact lit_nilfail _ _ _ _ _
  | oneOrMore id e1 => exact loop_nilfail hp.nomemo hnf e1 k s []
  | zeroOrMore id e1 =>
    simp only [parseExprBody, parseZeroOrMore]
    exact NilFail.bind (loop_nilfail hp.nomemo hnf e1 k s []) (fun v ok s1 _ => by cases ok <;> simp [Outcome.NilFail])
  | zeroOrOne id e1 =>
    simp only [parseExprBody, parseZeroOrOne]
    exact NilFail.bind (hw _ _) (fun v ok s1 _ => by simp [Outcome.NilFail])
  | recovery id e1 r labels =>
    simp only [parseExprBody, parseRecovery]
    exact NilFail.bind (hw _ _) (fun v ok s1 h => by cases ok <;> simp [Outcome.NilFail]; exact h rfl)
  | ruleRef id name =>
    simp only [parseExprBody, parseRuleRef]
    split
    · trivial
    · split
      · simp [Outcome.NilFail]
      · rename_i r hf
        rw [ruleWrap_eq hp k name r hf]
        exact rule_nilfail hp.nomemo hnf r s
  | seq id es => exact seq_nilfail hp.nomemo hnf _ _ es s []
  | throw id label => exact throw_nilfail hp.nomemo hnf label _ s

end

theorem step_plain {E : Env} (hp : Plain E) (rec : Expr → PState → Outcome) (k : Nat) (e : Expr) (s : PState) :
    parseExprStep E rec k e s = parseExprBody E rec k e (bump s) := by
  unfold parseExprStep overBudget
  simp [hp.nobudget]

theorem parseExpr_nilfail {E : Env} (hp : Plain E) : ∀ (f : Nat) (e : Expr) (s : PState), (parseExpr E f e s).NilFail
  | 0, _, _ => trivial
  | f + 1, e, s => by
    show (parseExprStep E (parseExpr E f) f e s).NilFail
    rw [step_plain hp]
    exact body_nilfail hp (parseExpr_nilfail hp f) f e (bump s)

/-- **Refinement theorem.** In the plain configuration (no memoization, no budget, no left-recursive
    rules) the runtime model IS the PEG specification: for every grammar, code environment, input,
    fuel, expression and reachable state, the outcome of `parseExpr` — success or failure, value,
    end position, labels in scope, stores, recorded errors and the complete trace of code-block
    invocations with the context each one saw — is the one `Spec.eval` prescribes. -/
theorem parseExpr_refines {E : Env} (hp : Plain E) : ∀ (f : Nat), Refines E (parseExpr E f) (Spec.eval E f)
  | 0 => fun _ _ _ => rfl
  | f + 1 => by
    intro e s hg
    show abs (parseExprStep E (parseExpr E f) f e s) = Spec.evalStep E (Spec.eval E f) f (ctxOf s) e (envOf s) s.pt (absW s)
    rw [step_plain hp]
    have hg' : Good E (bump s) := hg.congr rfl rfl rfl
    have := ref_body hp (parseExpr_frame E f) (parseExpr_refines hp f) (parseExpr_nilfail hp f) f e (bump s) hg'
    simpa using this

end RT
end PV
