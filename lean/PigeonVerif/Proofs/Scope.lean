/-
  The labels the generator hands to a code block (`Back.walk`, the model of `writeExprCode`'s stack of label lists) are the
  labels that are bound at run time when the block is called — in the independent PEG semantics `Spec.eval`, which the
  runtime model is proved to refine (Proofs/Refine.lean).

  `env_binds`: a successful match of `e` extends the scope it was started in by exactly `Back.binds e` (most recent first),
  whatever happened inside the scopes `e` opened and closed on the way. With `Back.walk_cur` (the generator's list after
  visiting `e` is `cur ++ binds e`) this makes the static list and the dynamic scope the same list at every point of a
  sequence — in particular where an action is called (after its operand) and where a predicate / state block is called
  (between two items).

  Fragment: no throw and no recovery operator ON THE SPINE of the scope (the operand chain action → sequence → items);
  they may occur anywhere below a scope boundary. On the spine they are not covered: a recovery operator gets ONE list for the
  guarded and the recovery expression in the generator but shares the enclosing scope at run time, and a recovery
  expression runs in the scope of the THROW site.
-/
import PigeonVerif.Model.Back
import PigeonVerif.Spec.Peg

namespace PV
namespace Back

mutual
/-- no throw / recovery operator among the nodes that share the scope of `e` -/
def spine : Expr → Bool
  | .action _ _ e => spine e
  | .seq _ es => spineSeq es
  | .recovery .. | .throw .. => false
  | _ => true
def spineSeq : List Expr → Bool
  | [] => true
  | e :: es => spine e && spineSeq es
end

abbrev keys (env : List (String × Val)) : List String := env.map (·.1)

section
variable (E : Env) (rec : Spec.Ctx → Expr → List (String × Val) → Savepoint → Spec.World → Spec.Res)

/-- the induction hypothesis on the recursive evaluator -/
def RecOK : Prop :=
  ∀ c e env pt w v pt' env' w', spine e = true → rec c e env pt w = .ok v pt' env' w' →
    keys env' = (binds e).reverse ++ keys env

theorem seq_binds (hrec : RecOK rec) (c : Spec.Ctx) (st0 : Store) :
    ∀ (es : List Expr) env pt w acc v pt' env' w', spineSeq es = true →
      Spec.evalSeq E rec c st0 es env pt w acc = .ok v pt' env' w' →
      keys env' = (bindsSeq es).reverse ++ keys env
  | [], env, pt, w, acc, v, pt', env', w', _, h => by
    simp only [Spec.evalSeq, Spec.Res.ok.injEq] at h
    obtain ⟨_, _, rfl, _⟩ := h
    simp [bindsSeq]
  | e :: es, env, pt, w, acc, v, pt', env', w', hs, h => by
    simp only [spineSeq, Bool.and_eq_true] at hs
    unfold Spec.evalSeq at h
    cases hr : rec c e env pt w with
    | oof => rw [hr] at h; cases h
    | panic p w1 => rw [hr] at h; cases h
    | fail e1 w1 => rw [hr] at h; cases h
    | ok v1 pt1 env1 w1 =>
      rw [hr] at h
      have h1 := hrec c e env pt w v1 pt1 env1 w1 hs.1 hr
      have h2 := seq_binds hrec c st0 es env1 pt1 w1 (v1 :: acc) v pt' env' w' hs.2 h
      rw [h2, h1]
      simp [bindsSeq, List.reverse_append, List.append_assoc]

theorem choice_env (c : Spec.Ctx) :
    ∀ (es : List Expr) env pt w v pt' env' w',
      Spec.evalChoice E rec c es env pt w = .ok v pt' env' w' → env' = env
  | [], env, pt, w, v, pt', env', w', h => by simp [Spec.evalChoice] at h
  | e :: es, env, pt, w, v, pt', env', w', h => by
    unfold Spec.evalChoice at h
    cases hr : rec c e [] pt w with
    | oof => rw [hr] at h; cases h
    | panic p w1 => rw [hr] at h; cases h
    | fail e1 w1 => rw [hr] at h; exact choice_env c es env pt _ v pt' env' w' h
    | ok v1 pt1 env1 w1 =>
      rw [hr] at h
      simp only [Spec.Res.ok.injEq] at h
      exact h.2.2.1.symm

theorem loop_env (c : Spec.Ctx) (e : Expr) :
    ∀ (k : Nat) env pt w acc v pt' env' w',
      Spec.evalLoop rec c e k env pt w acc = .ok v pt' env' w' → env' = env
  | 0, env, pt, w, acc, v, pt', env', w', h => by simp [Spec.evalLoop] at h
  | k + 1, env, pt, w, acc, v, pt', env', w', h => by
    unfold Spec.evalLoop at h
    cases hr : rec c e [] pt w with
    | oof => rw [hr] at h; cases h
    | panic p w1 => rw [hr] at h; cases h
    | fail e1 w1 =>
      rw [hr] at h
      simp only [] at h
      split at h
      · cases h
      · simp only [Spec.Res.ok.injEq] at h; exact h.2.2.1.symm
    | ok v1 pt1 env1 w1 => rw [hr] at h; exact loop_env c e k env pt1 w1 (v1 :: acc) v pt' env' w' h

/-- one level of the semantics -/
theorem step_binds (hrec : RecOK rec) (lf : Nat) (c : Spec.Ctx) (e : Expr) (env : List (String × Val)) (pt : Savepoint)
    (w : Spec.World) (v : Val) (pt' : Savepoint) (env' : List (String × Val)) (w' : Spec.World)
    (hs : spine e = true) (h : Spec.evalStep E rec lf c e env pt w = .ok v pt' env' w') :
    keys env' = (binds e).reverse ++ keys env := by
  cases e with
  | lit id val ic want =>
    simp only [Spec.evalStep] at h
    split at h
    · simp only [Spec.Res.ok.injEq] at h; obtain ⟨_, _, rfl, _⟩ := h; simp [binds]
    · cases h
  | any id =>
    simp only [Spec.evalStep] at h
    split at h
    · cases h
    · simp only [Spec.Res.ok.injEq] at h; obtain ⟨_, _, rfl, _⟩ := h; simp [binds]
  | cls id cd =>
    simp only [Spec.evalStep] at h
    repeat' split at h
    all_goals first
      | (simp only [Spec.Res.ok.injEq] at h; obtain ⟨_, _, rfl, _⟩ := h; simp [binds])
      | cases h
  | seq id es =>
    simp only [Spec.evalStep] at h
    simp only [spine] at hs
    simpa [binds] using seq_binds E rec hrec c w.state es env pt w [] v pt' env' w' hs h
  | choice id l cl es =>
    simp only [Spec.evalStep] at h
    have := choice_env E rec c es env pt w v pt' env' w' h
    subst this; simp [binds]
  | zeroOrOne id e1 =>
    simp only [Spec.evalStep] at h
    split at h
    · simp only [Spec.Res.ok.injEq] at h; obtain ⟨_, _, rfl, _⟩ := h; simp [binds]
    · simp only [Spec.Res.ok.injEq] at h; obtain ⟨_, _, rfl, _⟩ := h; simp [binds]
    · next hne1 hne2 =>
      cases hr : rec c e1 [] pt w with
      | ok a b c' d => exact absurd hr (hne1 a b c' d)
      | fail a b => exact absurd hr (hne2 a b)
      | oof => rw [hr] at h; cases h
      | panic a b => rw [hr] at h; cases h
  | zeroOrMore id e1 =>
    simp only [Spec.evalStep] at h
    split at h
    · simp only [Spec.Res.ok.injEq] at h; obtain ⟨_, _, rfl, _⟩ := h; simp [binds]
    · have := loop_env rec c e1 lf env pt w [] v pt' env' w' h
      subst this; simp [binds]
  | oneOrMore id e1 =>
    simp only [Spec.evalStep] at h
    have := loop_env rec c e1 lf env pt w [] v pt' env' w' h
    subst this; simp [binds]
  | and id e1 =>
    simp only [Spec.evalStep] at h
    split at h
    · simp only [Spec.Res.ok.injEq] at h; obtain ⟨_, _, rfl, _⟩ := h; simp [binds]
    · cases h
    · next hne1 hne2 =>
      cases hr : rec c e1 [] pt w with
      | ok a b c' d => exact absurd hr (hne1 a b c' d)
      | fail a b => exact absurd hr (hne2 a b)
      | oof => rw [hr] at h; cases h
      | panic a b => rw [hr] at h; cases h
  | not id e1 =>
    simp only [Spec.evalStep] at h
    split at h
    · cases h
    · simp only [Spec.Res.ok.injEq] at h; obtain ⟨_, _, rfl, _⟩ := h; simp [binds]
    · next hne1 hne2 =>
      cases hr : rec { c with neg := !c.neg } e1 [] pt w with
      | ok a b c' d => exact absurd hr (hne1 a b c' d)
      | fail a b => exact absurd hr (hne2 a b)
      | oof => rw [hr] at h; cases h
      | panic a b => rw [hr] at h; cases h
  | labeled id l e1 =>
    simp only [Spec.evalStep] at h
    split at h
    · simp only [Spec.Res.ok.injEq] at h
      obtain ⟨_, _, rfl, _⟩ := h
      by_cases hl : l = "" <;> simp [binds, hl]
    · cases h
    · next hne1 hne2 =>
      cases hr : rec c e1 [] pt w with
      | ok a b c' d => exact absurd hr (hne1 a b c' d)
      | fail a b => exact absurd hr (hne2 a b)
      | oof => rw [hr] at h; cases h
      | panic a b => rw [hr] at h; cases h
  | action id blk e1 =>
    simp only [Spec.evalStep] at h
    simp only [spine] at hs
    cases hr : rec c e1 env pt w with
    | oof => rw [hr] at h; cases h
    | panic a b => rw [hr] at h; cases h
    | fail a b => rw [hr] at h; cases h
    | ok v1 pt1 env1 w1 =>
      rw [hr] at h
      simp only [] at h
      split at h
      · cases h
      · simp only [Spec.Res.ok.injEq] at h
        obtain ⟨_, _, rfl, _⟩ := h
        simpa [binds] using hrec c e1 env pt w v1 pt1 env1 w1 hs hr
  | andCode id blk =>
    simp only [Spec.evalStep] at h
    split at h
    · cases h
    · split at h
      · simp only [Spec.Res.ok.injEq] at h; obtain ⟨_, _, rfl, _⟩ := h; simp [binds]
      · cases h
  | notCode id blk =>
    simp only [Spec.evalStep] at h
    split at h
    · cases h
    · split at h
      · simp only [Spec.Res.ok.injEq] at h; obtain ⟨_, _, rfl, _⟩ := h; simp [binds]
      · cases h
  | stateCode id blk =>
    simp only [Spec.evalStep] at h
    split at h
    · cases h
    · split at h
      · cases h
      · simp only [Spec.Res.ok.injEq] at h; obtain ⟨_, _, rfl, _⟩ := h; simp [binds]
  | ruleRef id name =>
    simp only [Spec.evalStep] at h
    by_cases hn : name = ""
    · simp [hn] at h
    · simp only [hn, if_false] at h
      cases hf : E.findRule name with
      | none => rw [hf] at h; cases h
      | some r =>
        rw [hf] at h
        simp only [] at h
        cases hr : rec { c with rule := some r } r.expr [] pt w with
        | oof => rw [hr] at h; cases h
        | panic a b => rw [hr] at h; cases h
        | fail a b => rw [hr] at h; cases h
        | ok a b c' d =>
          rw [hr] at h
          simp only [Spec.Res.ok.injEq] at h; obtain ⟨_, _, rfl, _⟩ := h; simp [binds]
  | recovery id e1 r ls => simp [spine] at hs
  | throw id l => simp [spine] at hs

end

/-- **The scope theorem.** In the PEG semantics, a successful match of `e` leaves the scope it was started in extended by
    exactly the labels `Back.binds e`, most recent first — for every grammar, code environment, input, depth. -/
theorem env_binds (E : Env) : ∀ (f : Nat), RecOK (Spec.eval E f)
  | 0 => by intro c e env pt w v pt' env' w' _ h; simp [Spec.eval] at h
  | f + 1 => by
    intro c e env pt w v pt' env' w' hs h
    simp only [Spec.eval] at h
    exact step_binds E (Spec.eval E f) (env_binds E f) f c e env pt w v pt' env' w' hs h

end Back
end PV
