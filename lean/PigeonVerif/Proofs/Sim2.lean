/-
  Two runs of the runtime model side by side.

  A *state relation* (`SRel`) is a relation between parser states that implies "same position, same
  innermost rule" and looks at nothing but position, rule stack, error list (and, on the left, the
  memo table). For grammars whose code blocks are pure functions of text and pos, take no labels, and
  which do not use throw/recover (`Ok`, `PureCode`), every construct of the runtime maps related states to
  related outcomes — provided the two wrappers (`parseExprWrap`, `parseRuleWrap`) do. The two wrappers
  are where memoization lives; they are supplied by the user of this file:

    * `Proofs/MemoSound.lean` instantiates it once with both runs un-memoized (locality: the result of an
      evaluation depends only on the position and the innermost rule) and once with a memoized run on the
      left and an un-memoized run on the right (soundness of the memo table).

  Outcomes are related up to the fuel of the RIGHT run: `ORel` holds when the right run ran out of fuel; otherwise
  the left run has ended too, and alike (so termination transfers from right to left).
-/
import PigeonVerif.Proofs.FuelMono
import PigeonVerif.Proofs.FrameProof
import PigeonVerif.Proofs.Refine

namespace PV

/-! ### the static side conditions -/

section static
variable (own : Nat → Option String) (node : Nat → Option Expr) (isPred : Nat → Bool)

/-- node identifiers are keys: `node id` is THE expression with that identifier, `own id` the rule it occurs in -/
def Keyed (rn : String) (e : Expr) : Prop := own e.id = some rn ∧ node e.id = some e

mutual
/-- every node of the expression is keyed (so identifiers are unique across the grammar and name their
    rule), there is no throw / recover, and predicate / state blocks are marked `isPred` -/
def Expr.Ok (rn : String) : Expr → Prop
  | .action id blk e => Keyed own node rn (.action id blk e) ∧ e.Ok rn
  | .andCode id blk => Keyed own node rn (.andCode id blk) ∧ isPred blk = true
  | .notCode id blk => Keyed own node rn (.notCode id blk) ∧ isPred blk = true
  | .stateCode id blk => Keyed own node rn (.stateCode id blk) ∧ isPred blk = true
  | .and id e => Keyed own node rn (.and id e) ∧ e.Ok rn
  | .not id e => Keyed own node rn (.not id e) ∧ e.Ok rn
  | .any id => Keyed own node rn (.any id)
  | .cls id c => Keyed own node rn (.cls id c)
  | .choice id l c es => Keyed own node rn (.choice id l c es) ∧ OkL rn es
  | .labeled id l e => Keyed own node rn (.labeled id l e) ∧ e.Ok rn
  | .lit id v ic w => Keyed own node rn (.lit id v ic w)
  | .oneOrMore id e => Keyed own node rn (.oneOrMore id e) ∧ e.Ok rn
  | .zeroOrMore id e => Keyed own node rn (.zeroOrMore id e) ∧ e.Ok rn
  | .zeroOrOne id e => Keyed own node rn (.zeroOrOne id e) ∧ e.Ok rn
  | .recovery _ _ _ _ => False
  | .ruleRef id n => Keyed own node rn (.ruleRef id n)
  | .seq id es => Keyed own node rn (.seq id es) ∧ OkL rn es
  | .throw _ _ => False
def OkL (rn : String) : List Expr → Prop
  | [] => True
  | e :: es => e.Ok rn ∧ OkL rn es
end

theorem Expr.Ok.keyed {rn : String} {e : Expr} (h : e.Ok own node isPred rn) : Keyed own node rn e := by
  cases e <;> simp only [Expr.Ok] at h <;> first | exact h.1 | exact h | exact h.elim

end static

namespace RT

/-- the same parser with the Memoize option set to `m` -/
def setMemo (E : Env) (m : Bool) : Env := { E with opts := { E.opts with memoize := m } }

/-- the code blocks are pure functions of `c.text` and `c.pos`, take no label arguments, and the predicate and
    state blocks (which see the text and pos of the most recent action, finding D2) do not even look at those -/
structure PureCode (E : Env) (isPred : Nat → Bool) : Prop where
  noargs : ∀ blk, E.code.args blk = []
  act : ∀ blk (c c' : Ctx), c.pos = c'.pos → c.text = c'.text →
    (E.code.run blk c).ret = (E.code.run blk c').ret ∧ (E.code.run blk c).retB = (E.code.run blk c').retB ∧
    (E.code.run blk c).err = (E.code.run blk c').err ∧ (E.code.run blk c).panic = (E.code.run blk c').panic
  pred : ∀ blk, isPred blk = true → ∀ (c c' : Ctx),
    (E.code.run blk c).ret = (E.code.run blk c').ret ∧ (E.code.run blk c).retB = (E.code.run blk c').retB ∧
    (E.code.run blk c).err = (E.code.run blk c').err ∧ (E.code.run blk c).panic = (E.code.run blk c').panic

/-- the configuration: standard template without left-recursion support, no budget -/
structure MemoCfg (E : Env) : Prop where
  noopt : E.flags.optimize = false
  nolr : E.flags.leftRec = false
  nobudget : E.opts.maxExpr = none

/-! ### state relations -/

structure SRel (E : Env) where
  rel : PState → PState → Prop
  pt : ∀ {a b}, rel a b → a.pt = b.pt
  hd : ∀ {a b}, rel a b → a.rstack.head? = b.rstack.head?
  reach : ∀ {a b}, rel a b → Reach E.input a.pt
  junk : ∀ {a b a' b'}, rel a b → a'.pt = a.pt → a'.rstack = a.rstack → a'.errs = a.errs → a'.memo = a.memo →
      b'.pt = b.pt → b'.rstack = b.rstack → b'.errs = b.errs → rel a' b'
  setPt : ∀ {a b} (p : Savepoint), rel a b → Reach E.input p → rel { a with pt := p } { b with pt := p }
  setRs : ∀ {a b} (l1 l2 : List Rule), rel a b → l1.head? = l2.head? →
      rel { a with rstack := l1 } { b with rstack := l2 }
  addErr : ∀ {a b} (m : String), rel a b → rel { a with errs := a.errs ++ [m] } { b with errs := b.errs ++ [m] }

/-- outcomes related up to the fuel of the RIGHT run: if the right run ended, so did the left one, and alike; a normal
    return also leaves both rule stacks as they were in `s1`, `s2` -/
def ORel {E : Env} (R : SRel E) (s1 s2 : PState) (o1 o2 : Outcome) : Prop :=
  o2 = .oof ∨
  match o1, o2 with
  | .done v ok a, .done v' ok' b => v = v' ∧ ok = ok' ∧ R.rel a b ∧ a.rstack = s1.rstack ∧ b.rstack = s2.rstack
  | .panic p a, .panic p' b => p = p' ∧ R.rel a b
  | _, _ => False

section
variable {E : Env} {R : SRel E}

theorem ORel.done {s1 s2 a b : PState} (v : Val) (ok : Bool) (h : R.rel a b) (h1 : a.rstack = s1.rstack)
    (h2 : b.rstack = s2.rstack) : ORel R s1 s2 (.done v ok a) (.done v ok b) :=
  Or.inr ⟨rfl, rfl, h, h1, h2⟩

theorem ORel.panic {s1 s2 a b : PState} (p : PanicVal) (h : R.rel a b) : ORel R s1 s2 (.panic p a) (.panic p b) :=
  Or.inr ⟨rfl, h⟩

theorem ORel.bind {o1 o2 : Outcome} {k1 k2 : Val → Bool → PState → Outcome} {s1 s2 t1 t2 : PState}
    (h : ORel R t1 t2 o1 o2)
    (hk : ∀ v ok a b, R.rel a b → a.rstack = t1.rstack → b.rstack = t2.rstack → ORel R s1 s2 (k1 v ok a) (k2 v ok b)) :
    ORel R s1 s2 (o1.bind k1) (o2.bind k2) := by
  rcases h with h | h
  · subst h; exact Or.inl rfl
  · cases o1 with
    | oof => cases o2 <;> first | exact Or.inl rfl | exact h.elim
    | panic p a =>
      cases o2 with
      | oof => exact Or.inl rfl
      | panic p' b => exact Or.inr h
      | done v' ok' b => exact h.elim
    | done v ok a =>
      cases o2 with
      | oof => exact Or.inl rfl
      | panic p' b => exact h.elim
      | done v' ok' b =>
        obtain ⟨rfl, rfl, hr, h1, h2⟩ := h
        exact hk v ok a b hr h1 h2

/-- re-index a related pair of outcomes to other start states with the same rule stacks -/
theorem ORel.reindex {o1 o2 : Outcome} {s1 s2 t1 t2 : PState} (h : ORel R t1 t2 o1 o2)
    (h1 : t1.rstack = s1.rstack) (h2 : t2.rstack = s2.rstack) : ORel R s1 s2 o1 o2 := by
  have := ORel.bind (k1 := fun v ok s => .done v ok s) (k2 := fun v ok s => .done v ok s) (s1 := s1) (s2 := s2) h
    (fun v ok a b hr ha hb => ORel.done v ok hr (ha.trans h1) (hb.trans h2))
  cases o1 <;> cases o2 <;> exact this

/-! ### the helpers preserve a state relation -/

theorem rel_junk {a b a' b' : PState} (h : R.rel a b) (h1 : a'.pt = a.pt := by simp) (h2 : a'.rstack = a.rstack := by simp)
    (h3 : a'.errs = a.errs := by simp) (h4 : a'.memo = a.memo := by simp) (h5 : b'.pt = b.pt := by simp)
    (h6 : b'.rstack = b.rstack := by simp) (h7 : b'.errs = b.errs := by simp) : R.rel a' b' :=
  R.junk h h1 h2 h3 h4 h5 h6 h7

theorem rel_restore {a b : PState} (h : R.rel a b) (p : Savepoint) (hp : Reach E.input p) :
    R.rel (restore a p) (restore b p) := by
  unfold restore
  rw [← R.pt h]
  split
  · exact h
  · exact R.setPt p h hp

theorem errPrefix_hd (E1 E2 : Env) (hf : E2.opts.filename = E1.opts.filename) {a b : PState}
    (h : a.rstack.head? = b.rstack.head?) (p : Pos) : errPrefix E1 a p = errPrefix E2 b p := by
  unfold errPrefix
  rw [hf]
  cases ha : a.rstack with
  | nil =>
    cases hb : b.rstack with
    | nil => rfl
    | cons r rs => rw [ha, hb] at h; simp at h
  | cons r rs =>
    cases hb : b.rstack with
    | nil => rw [ha, hb] at h; simp at h
    | cons r' rs' => rw [ha, hb] at h; simp at h; subst h; rfl

end


/-! ### the helpers that read the environment -/

section env
variable {E : Env} {R : SRel E} {m1 m2 : Bool}

theorem rel_addErrAt {a b : PState} (h : R.rel a b) (m : String) (p : Pos) :
    R.rel (addErrAt (setMemo E m1) a m p) (addErrAt (setMemo E m2) b m p) := by
  unfold addErrAt
  rw [errPrefix_hd (setMemo E m1) (setMemo E m2) rfl (R.hd h) p]
  exact R.addErr _ h

theorem rel_addErr {a b : PState} (h : R.rel a b) (m : String) :
    R.rel (addErr (setMemo E m1) a m) (addErr (setMemo E m2) b m) := by
  unfold addErr; rw [← R.pt h]; exact rel_addErrAt h m _

theorem rel_addErrAtOpt {a b : PState} (h : R.rel a b) (o : Option String) (p : Pos) :
    R.rel (addErrAtOpt (setMemo E m1) a o p) (addErrAtOpt (setMemo E m2) b o p) := by
  unfold addErrAtOpt; cases o with
  | none => exact h
  | some m => exact rel_addErrAt h m p

theorem rel_addErrOpt {a b : PState} (h : R.rel a b) (o : Option String) :
    R.rel (addErrOpt (setMemo E m1) a o) (addErrOpt (setMemo E m2) b o) := by
  unfold addErrOpt; rw [← R.pt h]; exact rel_addErrAtOpt h o _

theorem rel_restoreState {a b : PState} (h : R.rel a b) (st1 st2 : Store) :
    R.rel (restoreState (setMemo E m1) a st1) (restoreState (setMemo E m2) b st2) := rel_junk h

/-- `read` on a position that is not the end of the input -/
theorem rel_read {a b : PState} (h : R.rel a b) (hne : ¬ (a.pt.rn = runeError ∧ a.pt.w = 0)) :
    R.rel (read (setMemo E m1) a) (read (setMemo E m2) b) := by
  have hw : a.pt.w ≠ 0 := fun hw => hne ⟨(R.reach h).w0 hw, hw⟩
  have hnext : Reach E.input (nextPt E.input a.pt) := (R.reach h).next hw
  rw [read_eq, read_eq]
  have hi1 : (setMemo E m1).input = E.input := rfl
  have hi2 : (setMemo E m2).input = E.input := rfl
  have ha1 : (setMemo E m1).opts.allowInvalid = E.opts.allowInvalid := rfl
  have ha2 : (setMemo E m2).opts.allowInvalid = E.opts.allowInvalid := rfl
  rw [hi1, hi2, ha1, ha2, ← R.pt h]
  have hset := R.setPt (nextPt E.input a.pt) h hnext
  split
  · exact rel_addErr hset _
  · exact hset

theorem sliceFrom_rel {a b : PState} (h : R.rel a b) (start : Savepoint) :
    sliceFrom (setMemo E m1) a start = sliceFrom (setMemo E m2) b start := by
  unfold sliceFrom; rw [R.pt h]; rfl

end env


theorem ORel.ite {E : Env} {R : SRel E} {s1 s2 : PState} {c : Prop} [Decidable c] {x1 y1 x2 y2 : Outcome}
    (hx : c → ORel R s1 s2 x1 x2) (hy : ¬ c → ORel R s1 s2 y1 y2) :
    ORel R s1 s2 (if c then x1 else y1) (if c then x2 else y2) := by
  by_cases hc : c
  · rw [if_pos hc, if_pos hc]; exact hx hc
  · rw [if_neg hc, if_neg hc]; exact hy hc

/-! ### the constructs -/

/-- the expression wrappers of the two runs are related -/
def WrapRel {E : Env} (R : SRel E) (own : Nat → Option String) (node : Nat → Option Expr) (isPred : Nat → Bool)
    (w1 w2 : Expr → PState → Outcome) : Prop :=
  ∀ e a b rn r, R.rel a b → e.Ok own node isPred rn → E.findRule rn = some r → a.rstack.head? = some r →
    ORel R a b (w1 e a) (w2 e b)

/-- the rule wrappers of the two runs are related -/
def RuleRel {E : Env} (R : SRel E) (w1 w2 : Rule → PState → Outcome) : Prop :=
  ∀ n r a b, R.rel a b → E.findRule n = some r → ORel R a b (w1 r a) (w2 r b)

section main
variable {E : Env} {R : SRel E} {m1 m2 : Bool} {own : Nat → Option String} {node : Nat → Option Expr} {isPred : Nat → Bool}
variable {rec1 rec2 : Expr → PState → Outcome}
variable (hw : WrapRel R own node isPred (parseExprWrap (setMemo E m1) rec1) (parseExprWrap (setMemo E m2) rec2))
variable {rn : String} {r : Rule} (hf : E.findRule rn = some r)
include hw hf

theorem seq_rel (s01 s02 : PState) (pt : Savepoint) (hpt : Reach E.input pt) (st1 st2 : Store) :
    ∀ (es : List Expr) (a b : PState) (acc : List Val), OkL own node isPred rn es → R.rel a b →
      a.rstack = s01.rstack → b.rstack = s02.rstack → a.rstack.head? = some r →
      ORel R s01 s02 (parseSeq (setMemo E m1) rec1 pt st1 es a acc) (parseSeq (setMemo E m2) rec2 pt st2 es b acc)
  | [], a, b, acc, _, h, h1, h2, _ => by unfold parseSeq; exact ORel.done _ _ h h1 h2
  | e :: es, a, b, acc, hes, h, h1, h2, hh => by
    simp only [OkL] at hes
    unfold parseSeq
    refine ORel.bind (hw e a b rn r h hes.1 hf hh) (fun v ok a' b' hr ha hb => ?_)
    cases ok with
    | true =>
      simp only [if_true]
      exact seq_rel s01 s02 pt hpt st1 st2 es a' b' _ hes.2 hr (ha.trans h1) (hb.trans h2) (by rw [ha]; exact hh)
    | false =>
      simp only [Bool.false_eq_true, if_false]
      refine ORel.done _ _ (rel_restore (rel_restoreState hr st1 st2) pt hpt) ?_ ?_
      · simp [ha, h1]
      · simp [hb, h2]

theorem choice_rel (s01 s02 : PState) (line col : Nat) :
    ∀ (alts : List Expr) (i : Nat) (a b : PState), OkL own node isPred rn alts → R.rel a b →
      a.rstack = s01.rstack → b.rstack = s02.rstack → a.rstack.head? = some r →
      ORel R s01 s02 (parseChoice (setMemo E m1) rec1 line col alts i a) (parseChoice (setMemo E m2) rec2 line col alts i b)
  | [], i, a, b, _, h, h1, h2, _ => by
    unfold parseChoice; exact ORel.done _ _ (rel_junk h) (by simp [h1]) (by simp [h2])
  | alt :: alts, i, a, b, hes, h, h1, h2, hh => by
    simp only [OkL] at hes
    unfold parseChoice
    simp only []
    refine ORel.bind (hw alt (pushV a) (pushV b) rn r (rel_junk h) hes.1 hf (by simpa using hh)) (fun v ok a' b' hr ha hb => ?_)
    have ha' : a'.rstack = a.rstack := by simpa using ha
    have hb' : b'.rstack = b.rstack := by simpa using hb
    cases ok with
    | true =>
      simp only [if_true]
      exact ORel.done _ _ (rel_junk hr) (by simp [ha', h1]) (by simp [hb', h2])
    | false =>
      simp only [Bool.false_eq_true, if_false]
      exact choice_rel s01 s02 line col alts (i + 1) _ _ hes.2 (rel_restoreState (rel_junk hr) _ _)
        (by simp [ha', h1]) (by simp [hb', h2]) (by simp [ha', hh])

theorem loop_rel (s01 s02 : PState) (e : Expr) (he : e.Ok own node isPred rn) :
    ∀ (k1 k2 : Nat) (a b : PState) (acc : List Val), k2 ≤ k1 → R.rel a b →
      a.rstack = s01.rstack → b.rstack = s02.rstack → a.rstack.head? = some r →
      ORel R s01 s02 (parseLoop (setMemo E m1) rec1 e k1 a acc) (parseLoop (setMemo E m2) rec2 e k2 b acc)
  | _, 0, _, _, _, _, _, _, _, _ => Or.inl rfl
  | 0, _ + 1, _, _, _, hk, _, _, _, _ => absurd hk (by omega)
  | k1 + 1, k2 + 1, a, b, acc, hk, h, h1, h2, hh => by
    unfold parseLoop
    simp only []
    refine ORel.bind (hw e (pushV a) (pushV b) rn r (rel_junk h) he hf (by simpa using hh)) (fun v ok a' b' hr ha hb => ?_)
    have ha' : a'.rstack = a.rstack := by simpa using ha
    have hb' : b'.rstack = b.rstack := by simpa using hb
    cases ok with
    | true =>
      simp only [if_true]
      exact loop_rel s01 s02 e he k1 k2 _ _ _ (by omega) (rel_junk hr) (by simp [ha', h1]) (by simp [hb', h2]) (by simp [ha', hh])
    | false =>
      simp only [Bool.false_eq_true, if_false]
      split
      · exact ORel.done _ _ (rel_junk hr) (by simp [ha', h1]) (by simp [hb', h2])
      · exact ORel.done _ _ (rel_junk hr) (by simp [ha', h1]) (by simp [hb', h2])

omit hw hf in
theorem lit_rel (s01 s02 : PState) (start : Savepoint) (hst : Reach E.input start) (want : String) (ic : Bool) :
    ∀ (rs : List Rune) (a b : PState), R.rel a b → a.rstack = s01.rstack → b.rstack = s02.rstack →
      ORel R s01 s02 (parseLit (setMemo E m1) start want ic rs a) (parseLit (setMemo E m2) start want ic rs b)
  | [], a, b, h, h1, h2 => by
    unfold parseLit
    rw [sliceFrom_rel (m1 := m1) (m2 := m2) h start]
    exact ORel.done _ _ (rel_junk h) (by simp [h1]) (by simp [h2])
  | c :: rs, a, b, h, h1, h2 => by
    rw [parseLit, parseLit]
    have hcond : (decide (litCur (setMemo E m2) ic b ≠ c) || decide (b.pt.w = 0)) =
        (decide (litCur (setMemo E m1) ic a ≠ c) || decide (a.pt.w = 0)) := by
      unfold litCur; rw [← R.pt h]; rfl
    by_cases hc : (decide (litCur (setMemo E m1) ic a ≠ c) || decide (a.pt.w = 0)) = true
    · rw [if_pos hc, if_pos (hcond.trans hc)]
      exact ORel.done _ _ (rel_restore (rel_junk h) start hst) (by simp [h1]) (by simp [h2])
    · have hc2 : ¬ (decide (litCur (setMemo E m2) ic b ≠ c) || decide (b.pt.w = 0)) = true := by rw [hcond]; exact hc
      rw [if_neg hc, if_neg hc2]
      have hw0 : a.pt.w ≠ 0 := by
        intro h0; apply hc; simp [h0]
      exact lit_rel s01 s02 start hst want ic rs _ _ (rel_read h (fun hh => hw0 hh.2)) (by simp [h1]) (by simp [h2])

omit hf in
theorem rule_rel (hG : ∀ n r, E.findRule n = some r → r.expr.Ok own node isPred n) :
    RuleRel R (parseRule (setMemo E m1) rec1) (parseRule (setMemo E m2) rec2) := by
  intro n r' a b h hfr
  unfold parseRule
  simp only []
  have hpush : R.rel (pushV { a with rstack := r' :: a.rstack }) (pushV { b with rstack := r' :: b.rstack }) :=
    rel_junk (R.setRs (r' :: a.rstack) (r' :: b.rstack) h rfl)
  refine ORel.bind (hw r'.expr _ _ n r' hpush (hG n r' hfr) hfr (by simp [pushV])) (fun v ok a' b' hr ha hb => ?_)
  have ha' : (popV a').rstack.tail = a.rstack := by simp [ha, pushV]
  have hb' : (popV b').rstack.tail = b.rstack := by simp [hb, pushV]
  rw [ha', hb']
  exact ORel.done _ _ (R.setRs a.rstack b.rstack (rel_junk hr (a' := popV a') (b' := popV b')) (R.hd h)) rfl rfl

end main


section terminals
variable {E : Env} {R : SRel E} {m1 m2 : Bool}

theorem matchOne_rel (s01 s02 : PState) {a b : PState} (h : R.rel a b) (h1 : a.rstack = s01.rstack)
    (h2 : b.rstack = s02.rstack) (hne : ¬ (a.pt.rn = runeError ∧ a.pt.w = 0)) (want : String) :
    ORel R s01 s02 (matchOne (setMemo E m1) a want) (matchOne (setMemo E m2) b want) := by
  have hr := rel_read (m1 := m1) (m2 := m2) h hne
  unfold matchOne
  simp only []
  rw [show b.pt = a.pt from (R.pt h).symm, sliceFrom_rel (m1 := m1) (m2 := m2) hr a.pt]
  exact ORel.done _ _ (rel_junk hr) (by simp [h1]) (by simp [h2])

theorem any_rel (s01 s02 : PState) {a b : PState} (h : R.rel a b) (h1 : a.rstack = s01.rstack)
    (h2 : b.rstack = s02.rstack) :
    ORel R s01 s02 (parseAny (setMemo E m1) a) (parseAny (setMemo E m2) b) := by
  unfold parseAny
  rw [show b.pt = a.pt from (R.pt h).symm]
  refine ORel.ite (fun _ => ?_) (fun hc => ?_)
  · exact ORel.done _ _ (rel_junk h) (by simp [h1]) (by simp [h2])
  · exact matchOne_rel s01 s02 h h1 h2 (by simpa using hc) "."

theorem cls_rel (s01 s02 : PState) {a b : PState} (h : R.rel a b) (h1 : a.rstack = s01.rstack)
    (h2 : b.rstack = s02.rstack) (c : ClassDesc) :
    ORel R s01 s02 (parseCharClass (setMemo E m1) c a) (parseCharClass (setMemo E m2) c b) := by
  have hfail : ORel R s01 s02 (.done .nil false (failAt a false a.pt.pos c.val)) (.done .nil false (failAt b false a.pt.pos c.val)) :=
    ORel.done _ _ (rel_junk h) (by simp [h1]) (by simp [h2])
  unfold parseCharClass
  simp only []
  rw [show b.pt = a.pt from (R.pt h).symm]
  refine ORel.ite (fun hc => ?_) (fun _ => ?_)
  · have hlt : a.pt.rn < 128 := by
      simp only [Bool.and_eq_true, decide_eq_true_eq] at hc; exact hc.2
    refine ORel.ite (fun _ => ?_) (fun _ => hfail)
    refine matchOne_rel s01 s02 h h1 h2 (fun hh => ?_) c.val
    rw [hh.1] at hlt; simp [runeError] at hlt
  · refine ORel.ite (fun _ => hfail) (fun hne => ?_)
    refine ORel.ite (fun _ => ?_) (fun _ => hfail)
    exact matchOne_rel s01 s02 h h1 h2 (by simpa using hne) c.val

variable {isPred : Nat → Bool}

/-- one code-block invocation: same results, related states -/
theorem callBlock_rel (hp : PureCode E isPred) {a b : PState} (h : R.rel a b) (blk : Nat)
    (hsame : (a.curPos = b.curPos ∧ a.curText = b.curText) ∨ isPred blk = true) :
    ((callBlock (setMemo E m1) blk a).1.ret = (callBlock (setMemo E m2) blk b).1.ret ∧
     (callBlock (setMemo E m1) blk a).1.retB = (callBlock (setMemo E m2) blk b).1.retB ∧
     (callBlock (setMemo E m1) blk a).1.err = (callBlock (setMemo E m2) blk b).1.err ∧
     (callBlock (setMemo E m1) blk a).1.panic = (callBlock (setMemo E m2) blk b).1.panic) ∧
    R.rel (callBlock (setMemo E m1) blk a).2 (callBlock (setMemo E m2) blk b).2 := by
  refine ⟨?_, rel_junk h⟩
  unfold callBlock
  simp only []
  rcases hsame with ⟨e1, e2⟩ | hpred
  · exact hp.act blk _ _ e1 e2
  · exact hp.pred blk hpred _ _

theorem runCodeBlock_rel (hp : PureCode E isPred) (s01 s02 : PState) {a b : PState} (h : R.rel a b) (blk : Nat)
    (hpred : isPred blk = true) (k1 k2 : BlockResult → PState → Outcome)
    (hk : ∀ r r' a' b', r.retB = r'.retB → R.rel a' b' → a'.rstack = a.rstack → b'.rstack = b.rstack →
      ORel R s01 s02 (k1 r a') (k2 r' b')) :
    ORel R s01 s02 (runCodeBlock (setMemo E m1) blk a k1) (runCodeBlock (setMemo E m2) blk b k2) := by
  obtain ⟨⟨_, c2, c3, c4⟩, c5⟩ := callBlock_rel (m1 := m1) (m2 := m2) hp h blk (Or.inr hpred)
  unfold runCodeBlock
  simp only []
  rw [c4, c3]
  cases (callBlock (setMemo E m2) blk b).1.panic with
  | some p => exact ORel.panic p c5
  | none => exact hk _ _ _ _ c2 (rel_addErrOpt c5 _) (by simp) (by simp)

end terminals


section body
variable {E : Env} {R : SRel E} {m1 m2 : Bool} {own : Nat → Option String} {node : Nat → Option Expr} {isPred : Nat → Bool}
variable {rec1 rec2 : Expr → PState → Outcome}

theorem body_rel (hp : PureCode E isPred)
    (hw : WrapRel R own node isPred (parseExprWrap (setMemo E m1) rec1) (parseExprWrap (setMemo E m2) rec2))
    (k1 k2 : Nat) (hk : k2 ≤ k1)
    (hrw : RuleRel R (parseRuleWrap (setMemo E m1) rec1 k1) (parseRuleWrap (setMemo E m2) rec2 k2))
    {rn : String} {r : Rule} (hf : E.findRule rn = some r)
    (e : Expr) (a b : PState) (he : e.Ok own node isPred rn) (h : R.rel a b) (hh : a.rstack.head? = some r) :
    ORel R a b (parseExprBody (setMemo E m1) rec1 k1 e a) (parseExprBody (setMemo E m2) rec2 k2 e b) := by
  have hpt : b.pt = a.pt := (R.pt h).symm
  have hreach := R.reach h
  have hhp : (pushV a).rstack.head? = some r := by simpa using hh
  cases e with
  | recovery id e1 r1 labels => exact he.elim
  | throw id label => exact he.elim
  | stateCode id blk =>
    simp only [Expr.Ok] at he
    simp only [parseExprBody, parseStateCode]
    refine ORel.ite (fun _ => ORel.panic _ h) (fun _ => ?_)
    exact runCodeBlock_rel hp a b h blk he.2 _ _ (fun _ _ a' b' _ hr ha hb => ORel.done _ _ hr ha hb)
  | andCode id blk =>
    simp only [Expr.Ok] at he
    simp only [parseExprBody, parseAndCode]
    refine runCodeBlock_rel hp a b h blk he.2 _ _ (fun r r' a' b' hb' hr ha hb => ?_)
    rw [hb']
    exact ORel.done _ _ (rel_restoreState hr _ _) (by simp [ha]) (by simp [hb])
  | notCode id blk =>
    simp only [Expr.Ok] at he
    simp only [parseExprBody, parseNotCode]
    refine runCodeBlock_rel hp a b h blk he.2 _ _ (fun r r' a' b' hb' hr ha hb => ?_)
    rw [hb']
    exact ORel.done _ _ (rel_restoreState hr _ _) (by simp [ha]) (by simp [hb])
  | any id => exact any_rel a b h rfl rfl
  | cls id c => exact cls_rel a b h rfl rfl c
  | lit id val ic want =>
    simp only [parseExprBody]
    rw [hpt]
    exact lit_rel a b a.pt hreach want ic val a b h rfl rfl
  | action id blk e1 =>
    simp only [Expr.Ok] at he
    simp only [parseExprBody, parseAction]
    refine ORel.bind (hw e1 a b rn r h he.2 hf hh) (fun v ok a' b' hr ha hb => ?_)
    cases ok with
    | false => exact ORel.done _ _ hr ha hb
    | true =>
      simp only [if_true]
      rw [hpt, sliceFrom_rel (m1 := m1) (m2 := m2) hr a.pt]
      have hr2 : R.rel { a' with curPos := a.pt.pos, curText := sliceFrom (setMemo E m2) b' a.pt }
          { b' with curPos := a.pt.pos, curText := sliceFrom (setMemo E m2) b' a.pt } := rel_junk hr
      obtain ⟨⟨c1, _, c3, c4⟩, c5⟩ := callBlock_rel (m1 := m1) (m2 := m2) hp hr2 blk (Or.inl ⟨rfl, rfl⟩)
      rw [c4, c3, c1]
      cases (callBlock (setMemo E m2) blk { b' with curPos := a.pt.pos, curText := sliceFrom (setMemo E m2) b' a.pt }).1.panic with
      | some p => exact ORel.panic p c5
      | none =>
        exact ORel.done _ _ (rel_restoreState (rel_addErrAtOpt c5 _ _) _ _) (by simp [ha]) (by simp [hb])
  | and id e1 =>
    simp only [Expr.Ok] at he
    simp only [parseExprBody, parseAnd]
    refine ORel.bind (hw e1 (pushV a) (pushV b) rn r (rel_junk h) he.2 hf hhp) (fun v ok a' b' hr ha hb => ?_)
    rw [hpt]
    exact ORel.done _ _ (rel_restore (rel_restoreState (rel_junk hr (a' := popV a') (b' := popV b')) _ _) a.pt hreach)
      (by simpa using ha) (by simpa using hb)
  | not id e1 =>
    simp only [Expr.Ok] at he
    simp only [parseExprBody, parseNot]
    have h0 : R.rel { pushV a with maxFailInvert := !a.maxFailInvert } { pushV b with maxFailInvert := !b.maxFailInvert } :=
      rel_junk h
    refine ORel.bind (hw e1 _ _ rn r h0 he.2 hf hhp) (fun v ok a' b' hr ha hb => ?_)
    rw [hpt]
    refine ORel.done _ _ (rel_restore (rel_restoreState
      (rel_junk hr (a' := popV { a' with maxFailInvert := !a'.maxFailInvert })
        (b' := popV { b' with maxFailInvert := !b'.maxFailInvert })) _ _) a.pt hreach) ?_ ?_
    · simpa [popV] using ha
    · simpa [popV] using hb
  | labeled id l e1 =>
    simp only [Expr.Ok] at he
    simp only [parseExprBody, parseLabeled]
    refine ORel.bind (hw e1 (pushV a) (pushV b) rn r (rel_junk h) he.2 hf hhp) (fun v ok a' b' hr ha hb => ?_)
    have ha' : a'.rstack = a.rstack := by simpa using ha
    have hb' : b'.rstack = b.rstack := by simpa using hb
    split
    · exact ORel.done _ _ (rel_junk hr) (by simp [ha']) (by simp [hb'])
    · exact ORel.done _ _ (rel_junk hr) (by simp [ha']) (by simp [hb'])
  | zeroOrOne id e1 =>
    simp only [Expr.Ok] at he
    simp only [parseExprBody, parseZeroOrOne]
    refine ORel.bind (hw e1 (pushV a) (pushV b) rn r (rel_junk h) he.2 hf hhp) (fun v ok a' b' hr ha hb => ?_)
    exact ORel.done _ _ (rel_junk hr) (by simpa using ha) (by simpa using hb)
  | choice id line col alts =>
    simp only [Expr.Ok] at he
    exact choice_rel hw hf a b line col alts 0 a b he.2 h rfl rfl hh
  | seq id es =>
    simp only [Expr.Ok] at he
    simp only [parseExprBody]
    rw [hpt]
    exact seq_rel hw hf a b a.pt hreach _ _ es a b [] he.2 h rfl rfl hh
  | oneOrMore id e1 =>
    simp only [Expr.Ok] at he
    exact loop_rel hw hf a b e1 he.2 k1 k2 a b [] hk h rfl rfl hh
  | zeroOrMore id e1 =>
    simp only [Expr.Ok] at he
    simp only [parseExprBody, parseZeroOrMore]
    refine ORel.bind (loop_rel hw hf a b e1 he.2 k1 k2 a b [] hk h rfl rfl hh) (fun v ok a' b' hr ha hb => ?_)
    cases ok with
    | true => exact ORel.done _ _ hr ha hb
    | false => exact ORel.done _ _ hr ha hb
  | ruleRef id name =>
    simp only [parseExprBody, parseRuleRef]
    refine ORel.ite (fun _ => ORel.panic _ h) (fun _ => ?_)
    have hfind1 : (setMemo E m1).findRule name = E.findRule name := rfl
    have hfind2 : (setMemo E m2).findRule name = E.findRule name := rfl
    rw [hfind1, hfind2]
    cases hfr : E.findRule name with
    | none => exact ORel.done _ _ (rel_addErr h _) (by simp) (by simp)
    | some r' => exact hrw name r' a b h hfr

theorem step_rel (hc : MemoCfg E) (hp : PureCode E isPred)
    (hw : WrapRel R own node isPred (parseExprWrap (setMemo E m1) rec1) (parseExprWrap (setMemo E m2) rec2))
    (k1 k2 : Nat) (hk : k2 ≤ k1)
    (hrw : RuleRel R (parseRuleWrap (setMemo E m1) rec1 k1) (parseRuleWrap (setMemo E m2) rec2 k2))
    {rn : String} {r : Rule} (hf : E.findRule rn = some r)
    (e : Expr) (a b : PState) (he : e.Ok own node isPred rn) (h : R.rel a b) (hh : a.rstack.head? = some r) :
    ORel R a b (parseExprStep (setMemo E m1) rec1 k1 e a) (parseExprStep (setMemo E m2) rec2 k2 e b) := by
  have ho1 : overBudget (setMemo E m1) (bump a) = false := by
    unfold overBudget; rw [show (setMemo E m1).opts.maxExpr = E.opts.maxExpr from rfl, hc.nobudget]
  have ho2 : overBudget (setMemo E m2) (bump b) = false := by
    unfold overBudget; rw [show (setMemo E m2).opts.maxExpr = E.opts.maxExpr from rfl, hc.nobudget]
  unfold parseExprStep
  rw [ho1, ho2]
  simp only [Bool.false_eq_true, if_false]
  exact (body_rel hp hw k1 k2 hk hrw hf e (bump a) (bump b) he (rel_junk h (by rfl) (by rfl) (by rfl) (by rfl) (by rfl) (by rfl) (by rfl)) hh).reindex rfl rfl

end body

end RT
end PV
