/-
  In the PEG specification recorded errors are never taken back: whatever an expression evaluates to - a match, a failure, a
  panic - the error list of the resulting world EXTENDS the list it was started with (`w.errs <+: w'.errs`). Backtracking
  restores the position (an argument) and the state store (`rollback`), never the errors.

  With the whole-parse contract (`C11_parse_contract`) this is the whole-run form of "every error returned by a code block
  is recorded … and parsing continues": an error recorded at any point of the run is in the list `Parse` returns
  (`C11_recorded_errors_are_returned`), and by C17 so is every `invalid encoding` error of a byte the reader advanced onto.
  (The plain configuration only: the seed-growing loop of a left-recursive rule DOES drop the errors of its discarded last
  attempt, as C08 demands.)
-/
import PigeonVerif.Spec.Peg

namespace PV
namespace Spec

abbrev Rec' := Ctx → Expr → List (String × Val) → Savepoint → World → Res

/-- the world a result carries -/
def Res.world? : Res → Option World
  | .oof => none
  | .panic _ w => some w
  | .fail _ w => some w
  | .ok _ _ _ w => some w

/-- errors only grow -/
def Grows (w : World) (r : Res) : Prop := ∀ w', r.world? = some w' → w.errs <+: w'.errs

theorem Grows.of_world {w w0 : World} {r : Res} (h0 : w.errs <+: w0.errs) (h : Grows w0 r) : Grows w r :=
  fun w' hw => List.IsPrefix.trans h0 (h w' hw)

@[simp] theorem rollback_errs (E : Env) (w : World) (st : Store) : (rollback E w st).errs = w.errs := by
  unfold rollback; split <;> rfl
@[simp] theorem note_errs (c : Ctx) (p : Pos) (s : String) (b : Bool) (w : World) : (note c p s b w).errs = w.errs := rfl
@[simp] theorem panicAt_errs (c : Ctx) (pt : Savepoint) (w : World) : (panicAt c pt w).errs = w.errs := rfl

theorem addErrAt_prefix (E : Env) (c : Ctx) (w : World) (m : Option String) (pos : Pos) :
    w.errs <+: (addErrAt E c w m pos).errs := by
  unfold addErrAt; cases m with
  | none => exact List.prefix_refl _
  | some m => exact List.prefix_append _ _

theorem advance_prefix (E : Env) (c : Ctx) (pt : Savepoint) (w : World) : w.errs <+: (advance E c pt w).2.errs := by
  unfold advance; simp only []; split
  · exact addErrAt_prefix E c w _ _
  · exact List.prefix_refl _

@[simp] theorem call_errs (E : Env) (blk : Nat) (env : List (String × Val)) (pt : Savepoint) (w : World) :
    (call E blk env pt w).2.errs = w.errs := rfl

def RecGrows (rec : Rec') : Prop := ∀ c e env pt w, Grows w (rec c e env pt w)

section
variable {E : Env} {rec : Rec'}

theorem evalLit_prefix (c : Ctx) (ic : Bool) : ∀ (rs : List Rune) (pt : Savepoint) (w : World),
    w.errs <+: (evalLit E c ic rs pt w).2.errs
  | [], _, w => List.prefix_refl _
  | r :: rs, pt, w => by
    have ih := evalLit_prefix c ic rs (advance E c pt w).1 (advance E c pt w).2
    have ha := advance_prefix E c pt w
    rw [evalLit]
    simp only []
    repeat' split
    all_goals first
      | exact List.prefix_refl _
      | exact List.IsPrefix.trans ha ih

theorem evalSeq_grows (h : RecGrows rec) (c : Ctx) (st0 : Store) :
    ∀ (es : List Expr) (env : List (String × Val)) (pt : Savepoint) (w : World) (acc : List Val),
      Grows w (evalSeq E rec c st0 es env pt w acc)
  | [], _, _, w, _ => by intro w' hw; simp [evalSeq, Res.world?] at hw; subst hw; exact List.prefix_refl _
  | e :: es, env, pt, w, acc => by
    unfold evalSeq
    have h1 := h c e env pt w
    revert h1
    generalize rec c e env pt w = r
    cases r with
    | oof => intro _ w' hw; simp [Res.world?] at hw
    | panic p w1 => intro h1; exact h1
    | fail env1 w1 =>
      intro h1 w' hw
      simp [Res.world?] at hw; subst hw
      simpa using h1 w1 rfl
    | ok v pt1 env1 w1 =>
      intro h1
      exact Grows.of_world (h1 w1 rfl) (evalSeq_grows h c st0 es env1 pt1 w1 _)

theorem evalChoice_grows (h : RecGrows rec) (c : Ctx) :
    ∀ (es : List Expr) (env : List (String × Val)) (pt : Savepoint) (w : World),
      Grows w (evalChoice E rec c es env pt w)
  | [], _, _, w => by intro w' hw; simp [evalChoice, Res.world?] at hw; subst hw; exact List.prefix_refl _
  | e :: es, env, pt, w => by
    unfold evalChoice
    have h1 := h c e [] pt w
    revert h1
    generalize rec c e [] pt w = r
    cases r with
    | oof => intro _ w' hw; simp [Res.world?] at hw
    | panic p w1 => intro h1; exact h1
    | ok v pt1 env1 w1 =>
      intro h1 w' hw
      simp [Res.world?] at hw; subst hw
      exact h1 w1 rfl
    | fail env1 w1 =>
      intro h1
      exact Grows.of_world (w0 := rollback E w1 w.state) (by simpa using h1 w1 rfl) (evalChoice_grows h c es env pt _)

theorem evalLoop_grows (h : RecGrows rec) (c : Ctx) (e : Expr) :
    ∀ (k : Nat) (env : List (String × Val)) (pt : Savepoint) (w : World) (acc : List Val),
      Grows w (evalLoop rec c e k env pt w acc)
  | 0, _, _, _, _ => by intro w' hw; simp [evalLoop, Res.world?] at hw
  | k + 1, env, pt, w, acc => by
    unfold evalLoop
    have h1 := h c e [] pt w
    revert h1
    generalize rec c e [] pt w = r
    cases r with
    | oof => intro _ w' hw; simp [Res.world?] at hw
    | panic p w1 => intro h1; exact h1
    | fail env1 w1 =>
      intro h1 w' hw
      simp only [] at hw
      split at hw <;> (simp [Res.world?] at hw; subst hw; exact h1 w1 rfl)
    | ok v pt1 env1 w1 =>
      intro h1
      exact Grows.of_world (h1 w1 rfl) (evalLoop_grows h c e k env pt1 w1 _)

theorem evalThrow_grows (h : RecGrows rec) (c : Ctx) (label : String) :
    ∀ (hs : List (List (String × Expr))) (env : List (String × Val)) (pt : Savepoint) (w : World),
      Grows w (evalThrow rec c label hs env pt w)
  | [], _, _, w => by intro w' hw; simp [evalThrow, Res.world?] at hw; subst hw; exact List.prefix_refl _
  | hd :: hs, env, pt, w => by
    unfold evalThrow
    cases hl : lookup label hd with
    | none => simp only []; exact evalThrow_grows h c label hs env pt w
    | some r0 =>
      simp only []
      have h1 := h c r0 env pt w
      revert h1
      generalize rec c r0 env pt w = r
      cases r with
      | oof => intro _ w' hw; simp [Res.world?] at hw
      | panic p w1 => intro h1; exact h1
      | ok v pt1 env1 w1 => intro h1; exact h1
      | fail env1 w1 =>
        intro h1
        exact Grows.of_world (h1 w1 rfl) (evalThrow_grows h c label hs env1 pt w1)

/-- a single recursive call whose result world is passed on, possibly through `rollback` / `addErrAt` -/
theorem grows_of_call {w : World} {r : Res} (h1 : Grows w r) (k : Res → Res)
    (hk : ∀ w', (k r).world? = some w' → ∃ w1, r.world? = some w1 ∧ w1.errs <+: w'.errs) : Grows w (k r) := by
  intro w' hw
  obtain ⟨w1, hr, hp⟩ := hk w' hw
  exact List.IsPrefix.trans (h1 w1 hr) hp

theorem evalStep_grows (h : RecGrows rec) (lf : Nat) (c : Ctx) (e : Expr) (env : List (String × Val)) (pt : Savepoint)
    (w : World) : Grows w (evalStep E rec lf c e env pt w) := by
  have pre := List.prefix_refl w.errs
  cases e with
  | lit id val ic want =>
    intro w' hw
    simp only [evalStep] at hw
    have := evalLit_prefix (E := E) c ic val pt w
    split at hw <;> (simp [Res.world?] at hw; subst hw; simp_all)
  | any id =>
    intro w' hw
    simp only [evalStep] at hw
    split at hw
    · simp [Res.world?] at hw; subst hw; simpa using pre
    · simp [Res.world?] at hw; subst hw; simpa using advance_prefix E c pt w
  | cls id cd =>
    intro w' hw
    simp only [evalStep] at hw
    repeat' split at hw
    all_goals (simp [Res.world?] at hw; subst hw)
    all_goals first
      | simpa using advance_prefix E c pt w
      | simpa using pre
  | seq id es => simp only [evalStep]; exact evalSeq_grows h c _ es env pt w []
  | choice id l cl es => simp only [evalStep]; exact evalChoice_grows h c es env pt w
  | oneOrMore id e1 => simp only [evalStep]; exact evalLoop_grows h c e1 lf env pt w []
  | zeroOrMore id e1 =>
    simp only [evalStep]
    have h1 := evalLoop_grows h c e1 lf env pt w []
    revert h1
    generalize evalLoop rec c e1 lf env pt w [] = r
    cases r with
    | oof => intro _ w' hw; simp [Res.world?] at hw
    | panic p w1 => intro h1; exact h1
    | ok v pt1 env1 w1 => intro h1; exact h1
    | fail env1 w1 => intro h1 w' hw; simp [Res.world?] at hw; subst hw; exact h1 w1 rfl
  | throw id label => simp only [evalStep]; exact evalThrow_grows h c label _ env pt w
  | zeroOrOne id e1 =>
    simp only [evalStep]
    have h1 := h c e1 [] pt w
    revert h1
    generalize rec c e1 [] pt w = r
    cases r <;> intro h1 w' hw <;> simp [Res.world?] at hw <;> (try subst hw) <;> exact h1 _ rfl
  | and id e1 =>
    simp only [evalStep]
    have h1 := h c e1 [] pt w
    revert h1
    generalize rec c e1 [] pt w = r
    cases r <;> intro h1 w' hw <;> simp [Res.world?] at hw <;> (try subst hw) <;> simpa using h1 _ rfl
  | not id e1 =>
    simp only [evalStep]
    have h1 := h { c with neg := !c.neg } e1 [] pt w
    revert h1
    generalize rec { c with neg := !c.neg } e1 [] pt w = r
    cases r <;> intro h1 w' hw <;> simp [Res.world?] at hw <;> (try subst hw) <;> simpa using h1 _ rfl
  | labeled id l e1 =>
    simp only [evalStep]
    have h1 := h c e1 [] pt w
    revert h1
    generalize rec c e1 [] pt w = r
    cases r <;> intro h1 w' hw <;> simp [Res.world?] at hw <;> (try subst hw) <;> exact h1 _ rfl
  | action id blk e1 =>
    simp only [evalStep]
    have h1 := h c e1 env pt w
    revert h1
    generalize rec c e1 env pt w = r
    cases r with
    | oof => intro _ w' hw; simp [Res.world?] at hw
    | panic p w1 => intro h1; exact h1
    | fail env1 w1 => intro h1; exact h1
    | ok v pt1 env1 w1 =>
      intro h1 w' hw
      have hb := h1 w1 rfl
      simp only [] at hw
      split at hw
      · simp [Res.world?] at hw; subst hw; simpa using hb
      · simp [Res.world?] at hw; subst hw
        simp only [rollback_errs]
        have hx := addErrAt_prefix E c (call E blk env1 pt1 { w1 with curPos := pt.pos, curText := slice E pt pt1 }).2
          (call E blk env1 pt1 { w1 with curPos := pt.pos, curText := slice E pt pt1 }).1.err pt.pos
        exact List.IsPrefix.trans hb (by simpa using hx)
  | andCode id blk =>
    intro w' hw
    simp only [evalStep] at hw
    split at hw
    · simp [Res.world?] at hw; subst hw; simpa using pre
    · split at hw <;> (simp [Res.world?] at hw; subst hw; simp only [rollback_errs];
                       simpa using addErrAt_prefix E c (call E blk env pt w).2 _ _)
  | notCode id blk =>
    intro w' hw
    simp only [evalStep] at hw
    split at hw
    · simp [Res.world?] at hw; subst hw; simpa using pre
    · split at hw <;> (simp [Res.world?] at hw; subst hw; simp only [rollback_errs];
                       simpa using addErrAt_prefix E c (call E blk env pt w).2 _ _)
  | stateCode id blk =>
    intro w' hw
    simp only [evalStep] at hw
    split at hw
    · simp [Res.world?] at hw; subst hw; simpa using pre
    · split at hw
      · simp [Res.world?] at hw; subst hw; simpa using pre
      · simp [Res.world?] at hw; subst hw; simpa using addErrAt_prefix E c (call E blk env pt w).2 _ _
  | recovery id e1 r labels => simp only [evalStep]; exact h _ e1 env pt w
  | ruleRef id name =>
    simp only [evalStep]
    by_cases hn : name = ""
    · intro w' hw; simp [hn, Res.world?] at hw; subst hw; simpa using pre
    · simp only [hn, if_false]
      cases hf : E.findRule name with
      | none => intro w' hw; simp [Res.world?] at hw; subst hw; exact addErrAt_prefix E c w _ _
      | some r =>
        simp only []
        have h1 := h { c with rule := some r } r.expr [] pt w
        revert h1
        generalize rec { c with rule := some r } r.expr [] pt w = rr
        cases rr <;> intro h1 w' hw <;> simp [Res.world?] at hw <;> (try subst hw) <;> exact h1 _ rfl

end

/-- **errors are never taken back**, at every depth -/
theorem eval_grows (E : Env) : ∀ f, RecGrows (eval E f)
  | 0 => fun _ _ _ _ _ w' hw => by simp [eval, Res.world?] at hw
  | f + 1 => fun c e env pt w => evalStep_grows (eval_grows E f) f c e env pt w

end Spec
end PV
