/-
  The specification is monotone in its fuel: once `Spec.eval` returns a result other than "out of
  fuel", every larger fuel returns the same result. So "the" result of an expression is well defined
  (`Spec.Evaluates`), and statements quantified over all fuels are statements about that result.
-/
import PigeonVerif.Spec.Peg

namespace PV
namespace Spec

abbrev Rec := Ctx → Expr → List (String × Val) → Savepoint → World → Res

/-- `rec'` extends `rec`: wherever `rec` has an answer, `rec'` has the same one -/
def Ext (rec rec' : Rec) : Prop :=
  ∀ c e env pt w, rec c e env pt w ≠ .oof → rec' c e env pt w = rec c e env pt w

theorem Ext.refl (rec : Rec) : Ext rec rec := fun _ _ _ _ _ _ => rfl

section
variable {E : Env} {rec rec' : Rec}

theorem evalSeq_ext (h : Ext rec rec') (c : Ctx) (st0 : Store) :
    ∀ (es : List Expr) (env : List (String × Val)) (pt : Savepoint) (w : World) (acc : List Val),
      evalSeq E rec c st0 es env pt w acc ≠ .oof →
      evalSeq E rec' c st0 es env pt w acc = evalSeq E rec c st0 es env pt w acc
  | [], _, _, _, _, _ => by simp [evalSeq]
  | e :: es, env, pt, w, acc, hne => by
    unfold evalSeq at hne ⊢
    have h1 := h c e env pt w
    revert h1 hne
    generalize rec c e env pt w = r
    cases r with
    | oof => intro hne; exact absurd rfl hne
    | panic p w1 => intro _ h1; rw [h1 (by simp)]
    | fail env1 w1 => intro _ h1; rw [h1 (by simp)]
    | ok v pt1 env1 w1 =>
      intro hne h1
      rw [h1 (by simp)]
      exact evalSeq_ext h c st0 es env1 pt1 w1 _ hne

theorem evalChoice_ext (h : Ext rec rec') (c : Ctx) :
    ∀ (es : List Expr) (env : List (String × Val)) (pt : Savepoint) (w : World),
      evalChoice E rec c es env pt w ≠ .oof →
      evalChoice E rec' c es env pt w = evalChoice E rec c es env pt w
  | [], _, _, _, _ => by simp [evalChoice]
  | e :: es, env, pt, w, hne => by
    unfold evalChoice at hne ⊢
    have h1 := h c e [] pt w
    revert h1 hne
    generalize rec c e [] pt w = r
    cases r with
    | oof => intro hne; exact absurd rfl hne
    | panic p w1 => intro _ h1; rw [h1 (by simp)]
    | ok v pt1 env1 w1 => intro _ h1; rw [h1 (by simp)]
    | fail env1 w1 =>
      intro hne h1
      rw [h1 (by simp)]
      exact evalChoice_ext h c es env pt _ hne

theorem evalLoop_ext (h : Ext rec rec') (c : Ctx) (e : Expr) :
    ∀ (k k' : Nat) (env : List (String × Val)) (pt : Savepoint) (w : World) (acc : List Val), k ≤ k' →
      evalLoop rec c e k env pt w acc ≠ .oof →
      evalLoop rec' c e k' env pt w acc = evalLoop rec c e k env pt w acc
  | 0, _, _, _, _, _, _, hne => by simp [evalLoop] at hne
  | k + 1, 0, _, _, _, _, hk, _ => by omega
  | k + 1, k' + 1, env, pt, w, acc, hk, hne => by
    unfold evalLoop at hne ⊢
    have h1 := h c e [] pt w
    revert h1 hne
    generalize rec c e [] pt w = r
    cases r with
    | oof => intro hne; exact absurd rfl hne
    | panic p w1 => intro _ h1; rw [h1 (by simp)]
    | fail env1 w1 => intro _ h1; rw [h1 (by simp)]
    | ok v pt1 env1 w1 =>
      intro hne h1
      rw [h1 (by simp)]
      exact evalLoop_ext h c e k k' env pt1 w1 _ (by omega) hne

theorem evalThrow_ext (h : Ext rec rec') (c : Ctx) (label : String) :
    ∀ (hs : List (List (String × Expr))) (env : List (String × Val)) (pt : Savepoint) (w : World),
      evalThrow rec c label hs env pt w ≠ .oof →
      evalThrow rec' c label hs env pt w = evalThrow rec c label hs env pt w
  | [], _, _, _, _ => by simp [evalThrow]
  | hd :: hs, env, pt, w, hne => by
    unfold evalThrow at hne ⊢
    cases hl : lookup label hd with
    | none => simp only [hl] at hne ⊢; exact evalThrow_ext h c label hs env pt w hne
    | some r0 =>
      simp only [hl] at hne ⊢
      have h1 := h c r0 env pt w
      revert h1 hne
      generalize rec c r0 env pt w = r
      cases r with
      | oof => intro hne; exact absurd rfl hne
      | panic p w1 => intro _ h1; rw [h1 (by simp)]
      | ok v pt1 env1 w1 => intro _ h1; rw [h1 (by simp)]
      | fail env1 w1 =>
        intro hne h1
        rw [h1 (by simp)]
        exact evalThrow_ext h c label hs env1 pt w1 hne

/-- a single recursive call in head position: the rest of the computation is a function of its result -/
theorem call_ext (h : Ext rec rec') (c : Ctx) (e : Expr) (env : List (String × Val)) (pt : Savepoint) (w : World)
    (k : Res → Res) (hk : k .oof = .oof) (hne : k (rec c e env pt w) ≠ .oof) :
    k (rec' c e env pt w) = k (rec c e env pt w) := by
  have h1 := h c e env pt w
  by_cases ho : rec c e env pt w = .oof
  · rw [ho, hk] at hne; exact absurd rfl hne
  · rw [h1 ho]

theorem evalStep_ext (h : Ext rec rec') (k k' : Nat) (hk : k ≤ k') (c : Ctx) (e : Expr)
    (env : List (String × Val)) (pt : Savepoint) (w : World)
    (hne : evalStep E rec k c e env pt w ≠ .oof) :
    evalStep E rec' k' c e env pt w = evalStep E rec k c e env pt w := by
  cases e with
  | lit id val ic want => rfl
  | any id => rfl
  | cls id cd => rfl
  | andCode id blk => rfl
  | notCode id blk => rfl
  | stateCode id blk => rfl
  | seq id es => simp only [evalStep] at hne ⊢; exact evalSeq_ext h c _ es env pt w [] hne
  | choice id l cl es => simp only [evalStep] at hne ⊢; exact evalChoice_ext h c es env pt w hne
  | oneOrMore id e1 => simp only [evalStep] at hne ⊢; exact evalLoop_ext h c e1 k k' env pt w [] hk hne
  | zeroOrMore id e1 =>
    simp only [evalStep] at hne ⊢
    have : evalLoop rec c e1 k env pt w [] ≠ .oof := by
      intro ho; rw [ho] at hne; exact hne rfl
    rw [evalLoop_ext h c e1 k k' env pt w [] hk this]
  | throw id label => simp only [evalStep] at hne ⊢; exact evalThrow_ext h c label _ env pt w hne
  | zeroOrOne id e1 =>
    simp only [evalStep] at hne ⊢
    exact call_ext h c e1 [] pt w
      (fun r => match r with | .ok v pt' _ w' => .ok v pt' env w' | .fail _ w' => .ok .nil pt env w' | r => r) rfl hne
  | and id e1 =>
    simp only [evalStep] at hne ⊢
    exact call_ext h c e1 [] pt w
      (fun r => match r with
        | .ok _ _ _ w' => .ok .nil pt env (rollback E w' w.state)
        | .fail _ w' => .fail env (rollback E w' w.state)
        | r => r) rfl hne
  | not id e1 =>
    simp only [evalStep] at hne ⊢
    exact call_ext h { c with neg := !c.neg } e1 [] pt w
      (fun r => match r with
        | .ok _ _ _ w' => .fail env (rollback E w' w.state)
        | .fail _ w' => .ok .nil pt env (rollback E w' w.state)
        | r => r) rfl hne
  | labeled id l e1 =>
    simp only [evalStep] at hne ⊢
    exact call_ext h c e1 [] pt w
      (fun r => match r with
        | .ok v pt' _ w' => .ok v pt' (if l ≠ "" then (l, v) :: env else env) w'
        | .fail _ w' => .fail env w'
        | r => r) rfl hne
  | action id blk e1 =>
    simp only [evalStep] at hne ⊢
    exact call_ext h c e1 env pt w
      (fun r => match r with
        | .ok _ pt' env' w1 =>
          match (call E blk env' pt' { w1 with curPos := pt.pos, curText := slice E pt pt' }).1.panic with
          | some p => .panic p (panicAt c pt' (call E blk env' pt' { w1 with curPos := pt.pos, curText := slice E pt pt' }).2)
          | none => .ok (call E blk env' pt' { w1 with curPos := pt.pos, curText := slice E pt pt' }).1.ret pt' env'
              (rollback E (addErrAt E c (call E blk env' pt' { w1 with curPos := pt.pos, curText := slice E pt pt' }).2
                (call E blk env' pt' { w1 with curPos := pt.pos, curText := slice E pt pt' }).1.err pt.pos) w1.state)
        | r => r) rfl hne
  | recovery id e1 r labels =>
    simp only [evalStep] at hne ⊢
    exact h _ e1 env pt w hne
  | ruleRef id name =>
    simp only [evalStep] at hne ⊢
    by_cases hn : name = ""
    · simp [hn]
    · simp only [hn, if_false] at hne ⊢
      cases hf : E.findRule name with
      | none => rfl
      | some r =>
        simp only [hf] at hne ⊢
        exact call_ext h { c with rule := some r } r.expr [] pt w
          (fun res => match res with
            | .ok v pt' _ w' => .ok v pt' env w'
            | .fail _ w' => .fail env w'
            | res => res) rfl hne

end

/-- **Fuel monotonicity**: one more unit of fuel never changes an answer. -/
theorem eval_succ (E : Env) : ∀ f, Ext (eval E f) (eval E (f + 1))
  | 0 => fun _ _ _ _ _ h => absurd rfl h
  | f + 1 => fun c e env pt w hne =>
    evalStep_ext (eval_succ E f) f (f + 1) (Nat.le_succ f) c e env pt w hne

theorem eval_mono (E : Env) {f f' : Nat} (hf : f ≤ f') : Ext (eval E f) (eval E f') := by
  induction hf with
  | refl => exact Ext.refl _
  | step _ ih =>
    intro c e env pt w hne
    rw [eval_succ E _ c e env pt w (by rw [ih c e env pt w hne]; exact hne), ih c e env pt w hne]

/-- the result of an expression: what `eval` returns with enough fuel -/
def Evaluates (E : Env) (c : Ctx) (e : Expr) (env : List (String × Val)) (pt : Savepoint) (w : World) (r : Res) : Prop :=
  r ≠ .oof ∧ ∃ f, eval E f c e env pt w = r

/-- ... and it is unique: the semantics is a partial FUNCTION of (context, expression, scope, position, world) -/
theorem Evaluates.unique {E : Env} {c : Ctx} {e : Expr} {env : List (String × Val)} {pt : Savepoint} {w : World}
    {r1 r2 : Res} (h1 : Evaluates E c e env pt w r1) (h2 : Evaluates E c e env pt w r2) : r1 = r2 := by
  obtain ⟨n1, f1, e1⟩ := h1
  obtain ⟨n2, f2, e2⟩ := h2
  rcases Nat.le_total f1 f2 with hle | hle
  · have := eval_mono E hle c e env pt w (by rw [e1]; exact n1)
    rw [e1, e2] at this; exact this.symm
  · have := eval_mono E hle c e env pt w (by rw [e2]; exact n2)
    rw [e1, e2] at this; exact this

end Spec
end PV
