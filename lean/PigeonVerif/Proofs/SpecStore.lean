/-
  In the PEG specification an expression that FAILS leaves the state store as it found it (C05, declaratively).

  `Spec.eval` threads the store through the evaluation and rolls it back explicitly where PEG backtracks (`rollback` in
  sequences, choices, predicates, code blocks). This file proves that those are the right places: whatever happened inside -
  state-change blocks, nested backtracking, recovered throws - the world a FAILURE carries has the store of the world the
  evaluation started with; the same for the world after a predicate, matched or not. Grammars with state-change blocks
  (`E.useState`; otherwise no store exists). With `C01_runtime_is_peg` these are facts about the runtime in the plain
  configuration; `C05_fail_restores` states the same for the runtime directly, in every configuration.
-/
import PigeonVerif.Spec.Peg

namespace PV
namespace Spec

abbrev RecS := Ctx → Expr → List (String × Val) → Savepoint → World → Res

/-- a failure carries the store the evaluation started with -/
def FailKeeps (rec : RecS) : Prop :=
  ∀ c e env pt w env' w', rec c e env pt w = .fail env' w' → w'.state = w.state

@[simp] theorem note_state (c : Ctx) (p : Pos) (s : String) (b : Bool) (w : World) : (note c p s b w).state = w.state := rfl

theorem addErrAt_state (E : Env) (c : Ctx) (w : World) (m : Option String) (pos : Pos) : (addErrAt E c w m pos).state = w.state := by
  unfold addErrAt; cases m <;> rfl

theorem advance_state (E : Env) (c : Ctx) (pt : Savepoint) (w : World) : (advance E c pt w).2.state = w.state := by
  unfold advance; simp only []; split
  · exact addErrAt_state E c w _ _
  · rfl

theorem rollback_state (E : Env) (hu : E.useState = true) (w : World) (st : Store) : (rollback E w st).state = st := by
  unfold rollback; simp [hu]

theorem ite_split {α : Type} {C : Prop} [Decidable C] {a b r : α} (h : (if C then a else b) = r) : (C ∧ a = r) ∨ (¬C ∧ b = r) := by
  split at h
  · exact Or.inl ⟨‹C›, h⟩
  · exact Or.inr ⟨‹¬C›, h⟩

theorem ite_prop {α : Type} {C : Prop} [Decidable C] {a b : α} (P : α → Prop) (ha : P a) (hb : P b) : P (if C then a else b) := by
  split <;> assumption

section
variable {E : Env} {rec : RecS}

theorem evalLit_state (c : Ctx) (ic : Bool) : ∀ (rs : List Rune) (pt : Savepoint) (w : World),
    (evalLit E c ic rs pt w).2.state = w.state
  | [], _, _ => rfl
  | r :: rs, pt, w => by
    simp only [evalLit]
    refine ite_prop (fun x : Option Savepoint × World => x.2.state = w.state) rfl ?_
    show (evalLit E c ic rs (advance E c pt w).1 (advance E c pt w).2).2.state = w.state
    rw [evalLit_state c ic rs, advance_state]

theorem evalSeq_fail (hu : E.useState = true) (c : Ctx) (st0 : Store) : ∀ (es : List Expr) (env : List (String × Val)) (pt : Savepoint)
    (w : World) (acc : List Val) (env' : List (String × Val)) (w' : World),
    evalSeq E rec c st0 es env pt w acc = .fail env' w' → w'.state = st0
  | [], _, _, _, _, _, _, h => by simp [evalSeq] at h
  | e :: es, env, pt, w, acc, env', w', h => by
    simp only [evalSeq] at h
    cases hr : rec c e env pt w with
    | ok v1 pt1 env1 w1 => rw [hr] at h; exact evalSeq_fail hu c st0 es env1 pt1 w1 _ env' w' h
    | fail env1 w1 =>
      rw [hr] at h
      simp only [Res.fail.injEq] at h
      rw [← h.2, rollback_state E hu]
    | oof => rw [hr] at h; cases h
    | panic p w1 => rw [hr] at h; cases h

theorem evalChoice_fail (hu : E.useState = true) (c : Ctx) : ∀ (es : List Expr) (env : List (String × Val)) (pt : Savepoint)
    (w : World) (env' : List (String × Val)) (w' : World),
    evalChoice E rec c es env pt w = .fail env' w' → w'.state = w.state
  | [], _, _, _, _, _, h => by simp only [evalChoice, Res.fail.injEq] at h; rw [← h.2]
  | e :: es, env, pt, w, env', w', h => by
    simp only [evalChoice] at h
    cases hr : rec c e [] pt w with
    | ok v1 pt1 env1 w1 => rw [hr] at h; cases h
    | fail env1 w1 =>
      rw [hr] at h
      have := evalChoice_fail hu c es env pt _ env' w' h
      rw [this, rollback_state E hu]
    | oof => rw [hr] at h; cases h
    | panic p w1 => rw [hr] at h; cases h

/-- once an iteration has matched, a repetition cannot fail any more -/
theorem evalLoop_nofail (c : Ctx) (e : Expr) : ∀ (k : Nat) (env : List (String × Val)) (pt : Savepoint) (w : World) (acc : List Val),
    acc ≠ [] → ∀ env1 w1, evalLoop rec c e k env pt w acc ≠ .fail env1 w1
  | 0, _, _, _, _, _, _, _, hh => by simp [evalLoop] at hh
  | k + 1, env, pt, w, acc, hne, env1, w1, hh => by
    simp only [evalLoop] at hh
    cases hr : rec c e [] pt w with
    | ok v2 pt2 env3 w3 => rw [hr] at hh; exact evalLoop_nofail c e k env pt2 w3 _ (by simp) _ _ hh
    | fail env3 w3 =>
      rw [hr] at hh
      rcases ite_split hh with ⟨he, _⟩ | ⟨_, hh⟩
      · simp at he; exact hne he
      · cases hh
    | oof => rw [hr] at hh; cases hh
    | panic p w3 => rw [hr] at hh; cases hh

theorem evalLoop_fail (hrec : FailKeeps rec) (c : Ctx) (e : Expr) (k : Nat) (env : List (String × Val)) (pt : Savepoint) (w : World)
    (env' : List (String × Val)) (w' : World) (h : evalLoop rec c e k env pt w [] = .fail env' w') : w'.state = w.state := by
  cases k with
  | zero => simp [evalLoop] at h
  | succ k =>
    simp only [evalLoop] at h
    cases hr : rec c e [] pt w with
    | ok v1 pt1 env1 w1 => rw [hr] at h; exact absurd h (evalLoop_nofail c e k env pt1 w1 [v1] (by simp) env' w')
    | fail env1 w1 =>
      rw [hr] at h
      simp only [List.isEmpty_nil, if_true, Res.fail.injEq] at h
      rw [← h.2]; exact hrec c e [] pt w env1 w1 hr
    | oof => rw [hr] at h; cases h
    | panic p w1 => rw [hr] at h; cases h

theorem evalThrow_fail (hrec : FailKeeps rec) (c : Ctx) (label : String) : ∀ (hs : List (List (String × Expr))) (env : List (String × Val))
    (pt : Savepoint) (w : World) (env' : List (String × Val)) (w' : World),
    evalThrow rec c label hs env pt w = .fail env' w' → w'.state = w.state
  | [], _, _, _, _, _, h => by simp only [evalThrow, Res.fail.injEq] at h; rw [← h.2]
  | hd :: hs, env, pt, w, env', w', h => by
    simp only [evalThrow] at h
    cases hl : lookup label hd with
    | none => rw [hl] at h; exact evalThrow_fail hrec c label hs env pt w env' w' h
    | some r =>
      rw [hl] at h
      simp only [] at h
      cases hr : rec c r env pt w with
      | ok v1 pt1 env1 w1 => rw [hr] at h; cases h
      | fail env1 w1 =>
        rw [hr] at h
        rw [evalThrow_fail hrec c label hs env1 pt w1 env' w' h, hrec c r env pt w env1 w1 hr]
      | oof => rw [hr] at h; cases h
      | panic p w1 => rw [hr] at h; cases h

/-- one level of the semantics keeps the law -/
theorem evalStep_failKeeps (hu : E.useState = true) (hrec : FailKeeps rec) (k : Nat) (c : Ctx) (e : Expr) (env : List (String × Val))
    (pt : Savepoint) (w : World) (env' : List (String × Val)) (w' : World)
    (h : evalStep E rec k c e env pt w = .fail env' w') : w'.state = w.state := by
  cases e with
  | lit id val ic want =>
    simp only [evalStep] at h
    cases hl : evalLit E c ic val pt w with
    | mk o w1 =>
      have hs := evalLit_state (E := E) c ic val pt w
      rw [hl] at h hs
      cases o with
      | some pt1 => cases h
      | none => simp only [Res.fail.injEq] at h; rw [← h.2]; simpa using hs
  | any id =>
    simp only [evalStep] at h
    rcases ite_split h with ⟨_, h⟩ | ⟨_, h⟩
    · simp only [Res.fail.injEq] at h; rw [← h.2]; rfl
    · cases h
  | cls id cd =>
    simp only [evalStep] at h
    rcases ite_split h with ⟨_, h⟩ | ⟨_, h⟩
    · cases h
    · simp only [Res.fail.injEq] at h; rw [← h.2]; rfl
  | seq id es => simp only [evalStep] at h; exact evalSeq_fail hu c w.state es env pt w [] env' w' h
  | choice id a b es => simp only [evalStep] at h; exact evalChoice_fail hu c es env pt w env' w' h
  | zeroOrOne id e1 =>
    simp only [evalStep] at h
    cases hr : rec c e1 [] pt w <;> rw [hr] at h <;> cases h
  | zeroOrMore id e1 =>
    simp only [evalStep] at h
    cases hr : evalLoop rec c e1 k env pt w [] <;> rw [hr] at h <;> cases h
  | oneOrMore id e1 => simp only [evalStep] at h; exact evalLoop_fail hrec c e1 k env pt w env' w' h
  | and id e1 =>
    simp only [evalStep] at h
    cases hr : rec c e1 [] pt w with
    | ok v1 pt1 env1 w1 => rw [hr] at h; cases h
    | fail env1 w1 => rw [hr] at h; simp only [Res.fail.injEq] at h; rw [← h.2, rollback_state E hu]
    | oof => rw [hr] at h; cases h
    | panic p w1 => rw [hr] at h; cases h
  | not id e1 =>
    simp only [evalStep] at h
    cases hr : rec { c with neg := !c.neg } e1 [] pt w with
    | ok v1 pt1 env1 w1 => rw [hr] at h; simp only [Res.fail.injEq] at h; rw [← h.2, rollback_state E hu]
    | fail env1 w1 => rw [hr] at h; cases h
    | oof => rw [hr] at h; cases h
    | panic p w1 => rw [hr] at h; cases h
  | labeled id l e1 =>
    simp only [evalStep] at h
    cases hr : rec c e1 [] pt w with
    | ok v1 pt1 env1 w1 => rw [hr] at h; cases h
    | fail env1 w1 => rw [hr] at h; simp only [Res.fail.injEq] at h; rw [← h.2]; exact hrec _ _ _ _ _ _ _ hr
    | oof => rw [hr] at h; cases h
    | panic p w1 => rw [hr] at h; cases h
  | action id blk e1 =>
    simp only [evalStep] at h
    cases hr : rec c e1 env pt w with
    | ok v1 pt1 env1 w1 =>
      rw [hr] at h
      simp only [] at h
      split at h <;> cases h
    | fail env1 w1 => rw [hr] at h; simp only [Res.fail.injEq] at h; rw [← h.2]; exact hrec _ _ _ _ _ _ _ hr
    | oof => rw [hr] at h; cases h
    | panic p w1 => rw [hr] at h; cases h
  | andCode id blk =>
    simp only [evalStep] at h
    split at h
    · cases h
    · split at h
      · cases h
      · simp only [Res.fail.injEq] at h; rw [← h.2, rollback_state E hu]
  | notCode id blk =>
    simp only [evalStep] at h
    split at h
    · cases h
    · split at h
      · cases h
      · simp only [Res.fail.injEq] at h; rw [← h.2, rollback_state E hu]
  | stateCode id blk =>
    simp only [evalStep, hu, Bool.not_true, Bool.false_eq_true, if_false] at h
    split at h <;> cases h
  | ruleRef id name =>
    simp only [evalStep] at h
    split at h
    · cases h
    · cases hf : E.findRule name with
      | none => rw [hf] at h; simp only [Res.fail.injEq] at h; rw [← h.2, addErrAt_state]
      | some r =>
        rw [hf] at h
        simp only [] at h
        cases hr : rec { c with rule := some r } r.expr [] pt w with
        | ok v1 pt1 env1 w1 => rw [hr] at h; cases h
        | fail env1 w1 => rw [hr] at h; simp only [Res.fail.injEq] at h; rw [← h.2]; exact hrec _ _ _ _ _ _ _ hr
        | oof => rw [hr] at h; cases h
        | panic p w1 => rw [hr] at h; cases h
  | recovery id e1 r labels => simp only [evalStep] at h; exact hrec _ _ _ _ _ _ _ h
  | throw id label => simp only [evalStep] at h; exact evalThrow_fail hrec c label c.handlers env pt w env' w' h

end

/-- **In the PEG specification a failure leaves the store untouched**, at every depth -/
theorem eval_failKeeps (E : Env) (hu : E.useState = true) : ∀ f : Nat, FailKeeps (eval E f)
  | 0 => by intro c e env pt w env' w' h; simp [eval] at h
  | f + 1 => by
    intro c e env pt w env' w' h
    simp only [eval] at h
    exact evalStep_failKeeps hu (eval_failKeeps E hu f) f c e env pt w env' w' h

/-- … and so does a predicate, matched or not: after `&e` / `!e` the store is the store from before it -/
theorem pred_keeps_store (E : Env) (hu : E.useState = true) (rec : RecS) (k : Nat) (c : Ctx) (e : Expr) (env env' : List (String × Val))
    (pt pt' : Savepoint) (w w' : World) (v : Val)
    (hk : (∃ id e1, e = .and id e1) ∨ (∃ id e1, e = .not id e1))
    (h : evalStep E rec k c e env pt w = .ok v pt' env' w') : w'.state = w.state := by
  rcases hk with ⟨id, e1, rfl⟩ | ⟨id, e1, rfl⟩
  · simp only [evalStep] at h
    cases hr : rec c e1 [] pt w with
    | ok v1 pt1 env1 w1 => rw [hr] at h; simp only [Res.ok.injEq] at h; rw [← h.2.2.2, rollback_state E hu]
    | fail env1 w1 => rw [hr] at h; cases h
    | oof => rw [hr] at h; cases h
    | panic p w1 => rw [hr] at h; cases h
  · simp only [evalStep] at h
    cases hr : rec { c with neg := !c.neg } e1 [] pt w with
    | ok v1 pt1 env1 w1 => rw [hr] at h; cases h
    | fail env1 w1 => rw [hr] at h; simp only [Res.ok.injEq] at h; rw [← h.2.2.2, rollback_state E hu]
    | oof => rw [hr] at h; cases h
    | panic p w1 => rw [hr] at h; cases h

end Spec
end PV
