import PigeonVerif.Proofs.FrameProof

namespace PV
namespace RT

theorem parseExpr_succ {E : Env} {f : Nat} {e : Expr} {s s' : PState} {v : Val} {ok : Bool}
    (h : parseExpr E (f + 1) e s = .done v ok s') :
    overBudget E (bump s) = false ∧
      parseExprBody E (parseExpr E f) f e (bump s) = .done v ok s' := by
  rw [parseExpr, parseExprStep] at h
  split at h
  · simp at h
  · next hb => exact ⟨by simpa using hb, h⟩

@[simp] theorem bump_state (s : PState) : (bump s).state = s.state := rfl
@[simp] theorem bump_memo (s : PState) : (bump s).memo = s.memo := rfl
@[simp] theorem bump_pt (s : PState) : (bump s).pt = s.pt := rfl
@[simp] theorem bump_global (s : PState) : (bump s).global = s.global := rfl
@[simp] theorem bump_trace (s : PState) : (bump s).trace = s.trace := rfl
@[simp] theorem bump_recov (s : PState) : (bump s).recoveryStack = s.recoveryStack := rfl
@[simp] theorem bump_vstack (s : PState) : (bump s).vstack = s.vstack := rfl
@[simp] theorem bump_rstack (s : PState) : (bump s).rstack = s.rstack := rfl

section
variable {E : Env} {rec : Expr → PState → Outcome}

/-- whatever a `&e` returns, the store is the one from before -/
theorem and_restores (hrec : ∀ e s, FrameInv E s (rec e s)) (e1 : Expr) (s : PState) (hm : MemoOK s) :
    (parseAnd E rec e1 s).Sat (fun _ _ s' => s'.state = s.state) (fun _ => True) := by
  unfold parseAnd
  apply Outcome.sat_bind' (wrap_frame hrec e1 (pushV s) (hm.congr (by simp))) (fun _ _ => trivial)
  intro v ok s1 h
  simp only [Outcome.Sat]
  simpa using restoreState_state h.stk.pushpop

theorem not_restores (hrec : ∀ e s, FrameInv E s (rec e s)) (e1 : Expr) (s : PState) (hm : MemoOK s) :
    (parseNot E rec e1 s).Sat (fun _ _ s' => s'.state = s.state) (fun _ => True) := by
  unfold parseNot
  have hm' : MemoOK ({ pushV s with maxFailInvert := !s.maxFailInvert } : PState) := hm.congr rfl
  apply Outcome.sat_bind' (wrap_frame hrec e1 _ hm') (fun _ _ => trivial)
  intro v ok s1 h
  simp only [Outcome.Sat, restore.state, RT.restoreState]
  cases hu : E.useState with
  | true => simp
  | false => simpa [popV, pushV] using h.stk.noState hu

theorem codePred_restores (blk : Nat) (s : PState) (f : BlockResult → Bool) :
    (runCodeBlock E blk s fun r s2 => .done .nil (f r) (RT.restoreState E s2 s.state)).Sat
      (fun _ _ s' => s'.state = s.state) (fun _ => True) := by
  unfold runCodeBlock
  simp only []
  have hcb := Stk.callBlock (E := E) blk s
  split
  · trivial
  · simp only [Outcome.Sat, RT.restoreState]
    cases hu : E.useState with
    | true => simp
    | false => simpa using hcb.noState hu

/-- an action's own writes to the store are discarded when it returns -/
theorem action_discards (blk : Nat) (e1 : Expr) (s : PState) :
    (parseAction E rec blk e1 s).Sat
      (fun _ ok s' => ok = true →
        ∃ v1 s1, parseExprWrap E rec e1 s = .done v1 true s1 ∧ s'.state = s1.state)
      (fun _ => True) := by
  unfold parseAction
  simp only []
  generalize parseExprWrap E rec e1 s = o
  cases o with
  | oof => trivial
  | panic p s1 => trivial
  | done v1 ok1 s1 =>
    simp only [Outcome.bind]
    cases ok1 with
    | false => simp [Outcome.Sat]
    | true =>
      simp only [if_true]
      split
      · trivial
      · simp only [Outcome.Sat]
        intro _
        refine ⟨v1, s1, rfl, ?_⟩
        simp only [RT.restoreState]
        cases hu : E.useState with
        | true => simp
        | false =>
          simpa using (Stk.callBlock (E := E) blk
            { s1 with curPos := s.pt.pos, curText := sliceFrom E s1 s.pt }).noState hu

/-- the effect of a state-change block persists: the store after it is what the block left -/
theorem stateCode_persists (blk : Nat) (s : PState) (hu : E.useState = true) :
    (parseStateCode E blk s).Sat
      (fun _ ok s' => ok = true ∧ s'.state = (E.code.run blk
          { pos := s.curPos, text := s.curText,
            args := (E.code.args blk).map (fun n => (lookup n (s.vstack.headD [])).getD .nil),
            state := s.state, global := s.global, calli := s.nCalls }).state)
      (fun _ => True) := by
  unfold parseStateCode runCodeBlock
  simp only [hu, Bool.not_true, Bool.false_eq_true, if_false]
  split
  · trivial
  · simp only [Outcome.Sat]
    simp [RT.callBlock, hu]

end
end RT
end PV
