/-
  Termination under a budget, EVERY option combination (Memoize on or off, all template
  switches, left recursion): with `MaxExpressions(n)`, `parseExpr` never runs out of fuel once
  `fuel + exprCnt + memoHits ≥ 2n + 2`.

  Measure: `exprCnt + memoHits`. Every nested call and every loop iteration passes through
  `parseExprWrap`, which either evaluates the expression (`exprCnt` grows, and the call panics beyond
  `n`) or answers from the memo table (`memoHits` grows, and the hit panics once
  `exprCnt + memoHits > n`). Both counters are bounded by `n` on every normal return.
  (Before the repair of finding D15 memo hits were not charged and this theorem was false.)
-/
import PigeonVerif.Proofs.TermProof
import PigeonVerif.Proofs.Hits

namespace PV
namespace RT

theorem Outcome.sat_and {o : Outcome} {Q1 Q2 : Val → Bool → PState → Prop} {P1 P2 : PState → Prop}
    (h1 : o.Sat Q1 P1) (h2 : o.Sat Q2 P2) :
    o.Sat (fun v ok s => Q1 v ok s ∧ Q2 v ok s) (fun s => P1 s ∧ P2 s) := by
  cases o with
  | oof => trivial
  | panic p s => exact ⟨h1, h2⟩
  | done v ok s => exact ⟨h1, h2⟩

theorem Outcome.sat_weaken {o : Outcome} {Q Q' : Val → Bool → PState → Prop} {P P' : PState → Prop}
    (h : o.Sat Q P) (hq : ∀ v ok s, Q v ok s → Q' v ok s) (hp : ∀ s, P s → P' s) : o.Sat Q' P' := by
  cases o with
  | oof => trivial
  | panic p s => exact hp _ h
  | done v ok s => exact hq _ _ _ h

section
variable {E : Env} {rec : Expr → PState → Outcome} {n c0 : Nat}

/-- what is assumed of the recursive calls -/
structure RecOK2 (E : Env) (rec : Expr → PState → Outcome) (n c0 : Nat) : Prop where
  frame : ∀ e s, FrameInv E s (rec e s)
  strict : ∀ e s v ok s', MemoOK s → rec e s = .done v ok s' → s.exprCnt + 1 ≤ s'.exprCnt
  hits : ∀ e s, (rec e s).HitsOK n s
  term : ∀ e s, MemoOK s → c0 ≤ s.exprCnt + s.memoHits → s.exprCnt ≤ n → s.memoHits ≤ n → (rec e s).Term

/-- the counters after a normal return -/
def Cnt (n : Nat) (s s' : PState) : Prop :=
  s.exprCnt + s.memoHits + 1 ≤ s'.exprCnt + s'.memoHits ∧ s'.exprCnt ≤ n ∧ s'.memoHits ≤ n

theorem rec_cnt (hn : E.opts.maxExpr = some n) (h : RecOK2 E rec n c0) (e : Expr) (s : PState) (hm : MemoOK s)
    (hc : c0 ≤ s.exprCnt + s.memoHits) (hb : s.exprCnt ≤ n) (hh : s.memoHits ≤ n) :
    (rec e s).Term ∧ (rec e s).Sat (fun _ _ s' => Cnt n s s') (fun _ => True) := by
  refine ⟨h.term e s hm hc hb hh, ?_⟩
  have hf := h.frame e s hm
  have hst := fun v ok s' => h.strict e s v ok s' hm
  have hhi := h.hits e s
  revert hf hst hhi
  generalize rec e s = o
  cases o with
  | oof => intros; trivial
  | panic p s' => intros; trivial
  | done v ok s' =>
    intro hf hst hhi
    have h1 := hst v ok s' rfl
    have h2 := hf.stk.bnd n hn hb
    exact ⟨by have := hhi.1; omega, h2, hhi.2 hh⟩

/-- facts about one sub-call, packaged (any Memoize setting) -/
theorem wrap_facts2 (hn : E.opts.maxExpr = some n) (h : RecOK2 E rec n c0) (e : Expr) (s : PState) (hm : MemoOK s)
    (hc : c0 ≤ s.exprCnt + s.memoHits) (hb : s.exprCnt ≤ n) (hh : s.memoHits ≤ n) :
    (parseExprWrap E rec e s).Term ∧
    (parseExprWrap E rec e s).Sat (fun _ ok s' => Framed E s ok s' ∧ Cnt n s s') (fun _ => True) := by
  have hfr := wrap_frame h.frame e s hm
  suffices hx : (parseExprWrap E rec e s).Term ∧ (parseExprWrap E rec e s).Sat (fun _ _ s' => Cnt n s s') (fun _ => True) from
    ⟨hx.1, Outcome.sat_weaken (Outcome.sat_and hfr hx.2) (fun _ _ _ h => h) (fun _ _ => trivial)⟩
  have hr := rec_cnt hn h e s hm hc hb hh
  unfold parseExprWrap
  split
  · exact hr
  · split
    · split
      · simp only []
        split
        · exact ⟨by simp [Outcome.Term], trivial⟩
        · rename_i hob
          have hob' : ¬ ((hit s).exprCnt + (hit s).memoHits > n) := by
            simpa [hitsOverBudget, hn] using hob
          simp at hob'
          refine ⟨by simp [Outcome.Term], ?_⟩
          simp only [Outcome.Sat, Cnt]
          simp
          omega
      · obtain ⟨ht, hs⟩ := hr
        revert ht hs
        generalize rec e s = o
        cases o with
        | oof => intro ht; exact absurd rfl ht
        | panic p s' => intros; exact ⟨by simp [Outcome.bind, Outcome.Term], trivial⟩
        | done v ok s' =>
          intro _ hs
          refine ⟨by simp [Outcome.bind, Outcome.Term], ?_⟩
          simp only [Outcome.bind, Outcome.Sat, Cnt] at hs ⊢
          simpa using hs
    · exact hr

theorem seq_term2 (hn : E.opts.maxExpr = some n) (h : RecOK2 E rec n c0) (pt : Savepoint) (st : Store) :
    ∀ (es : List Expr) (s : PState) (acc : List Val), MemoOK s → c0 ≤ s.exprCnt + s.memoHits → s.exprCnt ≤ n →
      s.memoHits ≤ n → (parseSeq E rec pt st es s acc).Term
  | [], _, _, _, _, _, _ => by simp [parseSeq, Outcome.Term]
  | e :: es, s, acc, hm, hc, hb, hh => by
    unfold parseSeq
    obtain ⟨ht, hs⟩ := wrap_facts2 hn h e s hm hc hb hh
    apply Outcome.term_bind ht hs
    intro v ok s1 ⟨hf, h1, h2, h3⟩
    cases ok with
    | true => exact seq_term2 hn h pt st es s1 _ hf.memo (by omega) h2 h3
    | false => simp [Outcome.Term]

theorem choice_term2 (hn : E.opts.maxExpr = some n) (h : RecOK2 E rec n c0) (line col : Nat) :
    ∀ (alts : List Expr) (i : Nat) (s : PState), MemoOK s → c0 ≤ s.exprCnt + s.memoHits → s.exprCnt ≤ n →
      s.memoHits ≤ n → (parseChoice E rec line col alts i s).Term
  | [], _, _, _, _, _, _ => by simp [parseChoice, Outcome.Term]
  | alt :: alts, i, s, hm, hc, hb, hh => by
    unfold parseChoice
    simp only []
    obtain ⟨ht, hs⟩ := wrap_facts2 hn h alt (pushV s) (hm.congr (by simp)) (by simpa using hc)
      (by simpa using hb) (by simpa using hh)
    apply Outcome.term_bind ht hs
    intro v ok s1 ⟨hf, h1, h2, h3⟩
    cases ok with
    | true => simp [Outcome.Term]
    | false =>
      simp only [Bool.false_eq_true, if_false]
      simp at h1
      exact choice_term2 hn h line col alts (i + 1) _ (hf.memo.congr (by simp))
        (by simp; omega) (by simpa using h2) (by simpa using h3)

theorem loop_term2 (hn : E.opts.maxExpr = some n) (h : RecOK2 E rec n c0) (e : Expr) :
    ∀ (k : Nat) (s : PState) (acc : List Val), MemoOK s → c0 ≤ s.exprCnt + s.memoHits → s.exprCnt ≤ n →
      s.memoHits ≤ n → 2 * n + 2 ≤ k + (s.exprCnt + s.memoHits) → (parseLoop E rec e k s acc).Term
  | 0, s, _, _, _, hb, hh, hk => by omega
  | k + 1, s, acc, hm, hc, hb, hh, hk => by
    unfold parseLoop
    simp only []
    obtain ⟨ht, hs⟩ := wrap_facts2 hn h e (pushV s) (hm.congr (by simp)) (by simpa using hc)
      (by simpa using hb) (by simpa using hh)
    apply Outcome.term_bind ht hs
    intro v ok s1 ⟨hf, h1, h2, h3⟩
    simp at h1
    cases ok with
    | true =>
      simp only [if_true]
      exact loop_term2 hn h e k (popV s1) _ (hf.memo.congr (by simp)) (by simp; omega)
        (by simpa using h2) (by simpa using h3) (by simp; omega)
    | false =>
      simp only [Bool.false_eq_true, if_false]
      split <;> simp [Outcome.Term]

theorem throw_term2 (hn : E.opts.maxExpr = some n) (h : RecOK2 E rec n c0) (label : String) :
    ∀ (frames : List (List (String × Expr))) (s : PState), MemoOK s → c0 ≤ s.exprCnt + s.memoHits →
      s.exprCnt ≤ n → s.memoHits ≤ n → (parseThrow E rec label frames s).Term
  | [], _, _, _, _, _ => by simp [parseThrow, Outcome.Term]
  | fr :: frs, s, hm, hc, hb, hh => by
    unfold parseThrow
    split
    · next r _ =>
      obtain ⟨ht, hs⟩ := wrap_facts2 hn h r s hm hc hb hh
      apply Outcome.term_bind ht hs
      intro v ok s1 ⟨hf, h1, h2, h3⟩
      cases ok with
      | true => simp [Outcome.Term]
      | false =>
        simp only [Bool.false_eq_true, if_false]
        exact throw_term2 hn h label frs s1 hf.memo (by omega) h2 h3
    · exact throw_term2 hn h label frs s hm hc hb hh

/-- `parseRule`: terminates, and strictly advances the measure -/
theorem rule_facts2 (hn : E.opts.maxExpr = some n) (h : RecOK2 E rec n c0) (r : Rule) (s : PState) (hm : MemoOK s)
    (hc : c0 ≤ s.exprCnt + s.memoHits) (hb : s.exprCnt ≤ n) (hh : s.memoHits ≤ n) :
    (parseRule E rec r s).Term ∧
    (parseRule E rec r s).Sat (fun _ ok s' => Framed E s ok s' ∧ Cnt n s s') (fun _ => True) := by
  have hfr := rule_frame h.frame r s hm
  unfold parseRule at hfr ⊢
  simp only [] at hfr ⊢
  obtain ⟨ht, hs⟩ := wrap_facts2 hn h r.expr (pushV { s with rstack := r :: s.rstack })
    (hm.congr (by simp [pushV])) (by simpa [pushV] using hc) (by simpa [pushV] using hb) (by simpa [pushV] using hh)
  revert hfr; revert hs; revert ht
  generalize parseExprWrap E rec r.expr (pushV { s with rstack := r :: s.rstack }) = o
  cases o with
  | oof => intro ht; exact absurd rfl ht
  | panic p s' => intros; simp [Outcome.bind, Outcome.Term, Outcome.Sat]
  | done v ok s' =>
    intro _ hs hfr
    simp only [Outcome.bind, Outcome.Sat] at hfr ⊢
    obtain ⟨_, h1, h2, h3⟩ := hs
    simp [pushV] at h1
    refine ⟨by simp [Outcome.Term], hfr, by simpa [popV] using h1, by simpa [popV] using h2, by simpa [popV] using h3⟩

theorem leader_term2 (hn : E.opts.maxExpr = some n) (h : RecOK2 E rec n c0) (r : Rule) (startMark : Savepoint) :
    ∀ (k depth : Nat) (last : MemoVal) (lastErrs : List String) (s : PState), MemoOK s →
      (last.b = false → last.end.pos.off = startMark.pos.off) →
      c0 ≤ s.exprCnt + s.memoHits → s.exprCnt ≤ n → s.memoHits ≤ n → 2 * n + 2 ≤ k + (s.exprCnt + s.memoHits) →
      (leaderLoop E rec r startMark k depth last lastErrs s).Term
  | 0, _, _, _, s, _, _, _, hb, hh, hk => by omega
  | k + 1, depth, last, lastErrs, s, hm, hl, hc, hb, hh, hk => by
    unfold leaderLoop
    simp only []
    have hm1 : MemoOK (setMemoized s startMark (.rule r.name) last) := hm.set hl
    obtain ⟨ht, hs⟩ := rule_facts2 hn h r _ hm1 (by simpa using hc) (by simpa using hb) (by simpa using hh)
    apply Outcome.term_bind ht hs
    intro v ok s2 ⟨hf, h1, h2, h3⟩
    simp at h1
    split
    · simp [Outcome.Term]
    · next hcnd =>
      have hok : ok = true := by
        cases ok with
        | true => rfl
        | false => simp at hcnd
      subst hok
      exact leader_term2 hn h r startMark k (depth + 1) _ s2.errs _ (hf.memo.congr (by simp))
        (fun hb => by simp at hb) (by simp; omega) (by simpa using h2) (by simpa using h3) (by simp; omega)

theorem ruleWrap_term2 (hn : E.opts.maxExpr = some n) (h : RecOK2 E rec n c0) (k : Nat) (r : Rule) (s : PState)
    (hm : MemoOK s) (hc : c0 ≤ s.exprCnt + s.memoHits) (hb : s.exprCnt ≤ n) (hh : s.memoHits ≤ n)
    (hk : 2 * n + 2 ≤ k + (s.exprCnt + s.memoHits)) : (parseRuleWrap E rec k r s).Term := by
  obtain ⟨hrule, hrs⟩ := rule_facts2 hn h r s hm hc hb hh
  have hleader : (parseRuleLeader E rec k r s).Term := by
    unfold parseRuleLeader
    split
    · simp [Outcome.Term]
    · exact leader_term2 hn h r s.pt k 0 _ s.errs s hm (fun _ => rfl) hc hb hh hk
  have hmemo : (parseRuleMemoize E rec r s).Term := by
    unfold parseRuleMemoize
    split
    · simp [Outcome.Term]
    · exact Outcome.term_bind hrule hrs (fun _ _ _ _ => by simp [Outcome.Term])
  unfold parseRuleWrap
  repeat' split
  all_goals first
    | exact hleader
    | exact hmemo
    | exact hrule

theorem body_term2 (hn : E.opts.maxExpr = some n) (h : RecOK2 E rec n c0) (k : Nat) (e : Expr) (s : PState)
    (hm : MemoOK s) (hc : c0 ≤ s.exprCnt + s.memoHits) (hb : s.exprCnt ≤ n) (hh : s.memoHits ≤ n)
    (hk : 2 * n + 2 ≤ k + (s.exprCnt + s.memoHits)) : (parseExprBody E rec k e s).Term := by
  have wf := fun e' s' hm' hc' hb' hh' => wrap_facts2 hn h e' s' hm' hc' hb' hh'
  unfold parseExprBody
  cases e with
  | action id blk e1 =>
    simp only [parseAction]
    obtain ⟨ht, hs⟩ := wf e1 s hm hc hb hh
    apply Outcome.term_bind ht hs
    intro v ok s1 _
    split
    · split <;> simp [Outcome.Term]
    · simp [Outcome.Term]
  | andCode id blk => exact runCodeBlock_term blk s _ (fun _ _ => by simp [Outcome.Term])
  | notCode id blk => exact runCodeBlock_term blk s _ (fun _ _ => by simp [Outcome.Term])
  | stateCode id blk =>
    simp only [parseStateCode]
    split
    · simp [Outcome.Term]
    · exact runCodeBlock_term blk s _ (fun _ _ => by simp [Outcome.Term])
  | and id e1 =>
    simp only [parseAnd]
    obtain ⟨ht, hs⟩ := wf e1 (pushV s) (hm.congr (by simp)) (by simpa using hc) (by simpa using hb) (by simpa using hh)
    exact Outcome.term_bind ht hs (fun _ _ _ _ => by simp [Outcome.Term])
  | not id e1 =>
    simp only [parseNot]
    obtain ⟨ht, hs⟩ := wf e1 ({ pushV s with maxFailInvert := !s.maxFailInvert })
      (hm.congr rfl) (by simpa [pushV] using hc) (by simpa [pushV] using hb) (by simpa [pushV] using hh)
    exact Outcome.term_bind ht hs (fun _ _ _ _ => by simp [Outcome.Term])
  | any id => simp only [parseAny]; split <;> simp [Outcome.Term, matchOne]
  | cls id c =>
    simp only [parseCharClass]
    repeat' split
    all_goals simp [Outcome.Term, matchOne]
  | choice id line col alts => exact choice_term2 hn h line col alts 0 s hm hc hb hh
  | labeled id label e1 =>
    simp only [parseLabeled]
    obtain ⟨ht, hs⟩ := wf e1 (pushV s) (hm.congr (by simp)) (by simpa using hc) (by simpa using hb) (by simpa using hh)
    exact Outcome.term_bind ht hs (fun _ _ _ _ => by simp [Outcome.Term])
  | lit id val ic want => exact lit_term _ _ _ _ _
  | oneOrMore id e1 => exact loop_term2 hn h e1 k s [] hm hc hb hh hk
  | zeroOrMore id e1 =>
    simp only [parseZeroOrMore]
    have ht := loop_term2 hn h e1 k s [] hm hc hb hh hk
    revert ht
    generalize parseLoop E rec e1 k s [] = o
    cases o with
    | oof => intro ht; exact absurd rfl ht
    | panic p s' => intro _; simp [Outcome.bind, Outcome.Term]
    | done v ok s' => intro _; simp only [Outcome.bind]; split <;> simp [Outcome.Term]
  | zeroOrOne id e1 =>
    simp only [parseZeroOrOne]
    obtain ⟨ht, hs⟩ := wf e1 (pushV s) (hm.congr (by simp)) (by simpa using hc) (by simpa using hb) (by simpa using hh)
    exact Outcome.term_bind ht hs (fun _ _ _ _ => by simp [Outcome.Term])
  | recovery id e1 r labels =>
    simp only [parseRecovery]
    obtain ⟨ht, hs⟩ := wf e1 (pushRecovery s labels r) (hm.congr (by simp)) (by simpa using hc)
      (by simpa using hb) (by simpa using hh)
    exact Outcome.term_bind ht hs (fun _ _ _ _ => by simp [Outcome.Term])
  | ruleRef id name =>
    simp only [parseRuleRef]
    split
    · simp [Outcome.Term]
    · split
      · simp [Outcome.Term]
      · exact ruleWrap_term2 hn h k _ s hm hc hb hh hk
  | seq id es => exact seq_term2 hn h _ _ es s [] hm hc hb hh
  | throw id label => exact throw_term2 hn h label _ s hm hc hb hh

end

/-- **Termination under a budget, any Memoize setting** (model level): with `MaxExpressions(n)`,
    `parseExpr` with fuel `f` does not run out of fuel from any state with
    `2n + 2 ≤ f + exprCnt + memoHits` whose counters are within the budget. -/
theorem parseExpr_term2 (E : Env) (n : Nat) (hn : E.opts.maxExpr = some n) :
    ∀ (f : Nat) (e : Expr) (s : PState), MemoOK s → 2 * n + 2 ≤ f + (s.exprCnt + s.memoHits) → s.exprCnt ≤ n →
      s.memoHits ≤ n → (parseExpr E f e s).Term
  | 0, _, s, _, h1, h2, h3 => by omega
  | f + 1, e, s, hm, h1, h2, h3 => by
    rw [parseExpr, parseExprStep]
    split
    · simp [Outcome.Term]
    · next hob =>
      have hle : s.exprCnt + 1 ≤ n := by
        simp [overBudget, hn, bump] at hob
        exact hob
      have hrec : RecOK2 E (parseExpr E f) n (2 * n + 2 - f) :=
        ⟨parseExpr_frame E f, fun e s v ok s' hm h => parseExpr_strict E f e s s' v ok hm h,
         parseExpr_hits E n hn f,
         fun e s hm hc hb hh => parseExpr_term2 E n hn f e s hm (by omega) hb hh⟩
      exact body_term2 hn hrec f e (bump s) (hm.congr rfl) (by simp [bump]; omega)
        (by simpa [bump] using hle) (by simpa using h3) (by simp [bump]; omega)

end RT
end PV
