/-
  Termination under a budget: with `MaxExpressions(n)` and `Memoize(false)`,
  `parseExpr` never runs out of fuel once `fuel + exprCnt ≥ n + 2`:
  every nested call and every loop iteration passes through `parseExpr`,
  which charges the budget.
-/
import PigeonVerif.Proofs.StoreLemmas

namespace PV

def Outcome.Term (o : Outcome) : Prop := o ≠ .oof

namespace RT

theorem Outcome.term_bind {o : Outcome} {k : Val → Bool → PState → Outcome}
    {Q : Val → Bool → PState → Prop} {Qp : PState → Prop}
    (ht : o.Term) (hs : o.Sat Q Qp) (hk : ∀ v ok s', Q v ok s' → (k v ok s').Term) :
    (o.bind k).Term := by
  cases o with
  | oof => exact absurd rfl ht
  | panic p s' => simp [Outcome.bind, Outcome.Term]
  | done v ok s' => exact hk v ok s' hs

section
variable {E : Env} {rec : Expr → PState → Outcome} {n c0 : Nat}

/-- what is assumed of the recursive calls -/
structure RecOK (E : Env) (rec : Expr → PState → Outcome) (n c0 : Nat) : Prop where
  frame : ∀ e s, FrameInv E s (rec e s)
  strict : ∀ e s v ok s', MemoOK s → rec e s = .done v ok s' → s.exprCnt + 1 ≤ s'.exprCnt
  term : ∀ e s, MemoOK s → c0 ≤ s.exprCnt → s.exprCnt ≤ n → (rec e s).Term

theorem wrap_eq (hmz : E.opts.memoize = false) (e : Expr) (s : PState) :
    parseExprWrap E rec e s = rec e s := by
  unfold parseExprWrap
  split
  · rfl
  · simp [hmz]

/-- facts about one sub-call, packaged -/
theorem wrap_facts (hn : E.opts.maxExpr = some n) (hmz : E.opts.memoize = false)
    (h : RecOK E rec n c0) (e : Expr) (s : PState) (hm : MemoOK s) (hc : c0 ≤ s.exprCnt)
    (hb : s.exprCnt ≤ n) :
    (parseExprWrap E rec e s).Term ∧
    (parseExprWrap E rec e s).Sat
      (fun _ ok s' => Framed E s ok s' ∧ s.exprCnt + 1 ≤ s'.exprCnt ∧ s'.exprCnt ≤ n) (fun _ => True) := by
  rw [wrap_eq hmz]
  refine ⟨h.term e s hm hc hb, ?_⟩
  have hf := h.frame e s hm
  have hst := fun v ok s' => h.strict e s v ok s' hm
  revert hf hst
  generalize rec e s = o
  cases o with
  | oof => intros; trivial
  | panic p s' => intros; trivial
  | done v ok s' =>
    intro hf hst
    exact ⟨hf, hst v ok s' rfl, hf.stk.bnd n hn hb⟩

theorem seq_term (hn : E.opts.maxExpr = some n) (hmz : E.opts.memoize = false)
    (h : RecOK E rec n c0) (pt : Savepoint) (st : Store) :
    ∀ (es : List Expr) (s : PState) (acc : List Val), MemoOK s → c0 ≤ s.exprCnt → s.exprCnt ≤ n →
      (parseSeq E rec pt st es s acc).Term
  | [], _, _, _, _, _ => by simp [parseSeq, Outcome.Term]
  | e :: es, s, acc, hm, hc, hb => by
    unfold parseSeq
    obtain ⟨ht, hs⟩ := wrap_facts hn hmz h e s hm hc hb
    apply Outcome.term_bind ht hs
    intro v ok s1 ⟨hf, h1, h2⟩
    cases ok with
    | true => exact seq_term hn hmz h pt st es s1 _ hf.memo (by omega) h2
    | false => simp [Outcome.Term]

theorem choice_term (hn : E.opts.maxExpr = some n) (hmz : E.opts.memoize = false)
    (h : RecOK E rec n c0) (line col : Nat) :
    ∀ (alts : List Expr) (i : Nat) (s : PState), MemoOK s → c0 ≤ s.exprCnt → s.exprCnt ≤ n →
      (parseChoice E rec line col alts i s).Term
  | [], _, _, _, _, _ => by simp [parseChoice, Outcome.Term]
  | alt :: alts, i, s, hm, hc, hb => by
    unfold parseChoice
    simp only []
    obtain ⟨ht, hs⟩ := wrap_facts hn hmz h alt (pushV s) (hm.congr (by simp)) (by simpa using hc)
      (by simpa using hb)
    apply Outcome.term_bind ht hs
    intro v ok s1 ⟨hf, h1, h2⟩
    cases ok with
    | true => simp [Outcome.Term]
    | false =>
      simp only [Bool.false_eq_true, if_false]
      simp at h1
      exact choice_term hn hmz h line col alts (i + 1) _ (hf.memo.congr (by simp))
        (by simp; omega) (by simpa using h2)

theorem loop_term (hn : E.opts.maxExpr = some n) (hmz : E.opts.memoize = false)
    (h : RecOK E rec n c0) (e : Expr) :
    ∀ (k : Nat) (s : PState) (acc : List Val), MemoOK s → c0 ≤ s.exprCnt → s.exprCnt ≤ n →
      n + 2 ≤ k + s.exprCnt → (parseLoop E rec e k s acc).Term
  | 0, s, _, _, _, hb, hk => by omega
  | k + 1, s, acc, hm, hc, hb, hk => by
    unfold parseLoop
    simp only []
    obtain ⟨ht, hs⟩ := wrap_facts hn hmz h e (pushV s) (hm.congr (by simp)) (by simpa using hc)
      (by simpa using hb)
    apply Outcome.term_bind ht hs
    intro v ok s1 ⟨hf, h1, h2⟩
    simp at h1
    cases ok with
    | true =>
      simp only [if_true]
      exact loop_term hn hmz h e k (popV s1) _ (hf.memo.congr (by simp)) (by simp; omega)
        (by simpa using h2) (by simp; omega)
    | false =>
      simp only [Bool.false_eq_true, if_false]
      split <;> simp [Outcome.Term]

theorem lit_term (start : Savepoint) (want : String) (ic : Bool) :
    ∀ (rs : List Rune) (s : PState), (parseLit E start want ic rs s).Term
  | [], _ => by simp [parseLit, Outcome.Term]
  | r :: rs, s => by
    unfold parseLit
    split
    · simp [Outcome.Term]
    · exact lit_term start want ic rs _

theorem throw_term (hn : E.opts.maxExpr = some n) (hmz : E.opts.memoize = false)
    (h : RecOK E rec n c0) (label : String) :
    ∀ (frames : List (List (String × Expr))) (s : PState), MemoOK s → c0 ≤ s.exprCnt →
      s.exprCnt ≤ n → (parseThrow E rec label frames s).Term
  | [], _, _, _, _ => by simp [parseThrow, Outcome.Term]
  | fr :: frs, s, hm, hc, hb => by
    unfold parseThrow
    split
    · next r _ =>
      obtain ⟨ht, hs⟩ := wrap_facts hn hmz h r s hm hc hb
      apply Outcome.term_bind ht hs
      intro v ok s1 ⟨hf, h1, h2⟩
      cases ok with
      | true => simp [Outcome.Term]
      | false =>
        simp only [Bool.false_eq_true, if_false]
        exact throw_term hn hmz h label frs s1 hf.memo (by omega) h2
    · exact throw_term hn hmz h label frs s hm hc hb

/-- `parseRule`: terminates, and (like `rec`) strictly advances the counter -/
theorem rule_facts (hn : E.opts.maxExpr = some n) (hmz : E.opts.memoize = false)
    (h : RecOK E rec n c0) (r : Rule) (s : PState) (hm : MemoOK s) (hc : c0 ≤ s.exprCnt)
    (hb : s.exprCnt ≤ n) :
    (parseRule E rec r s).Term ∧
    (parseRule E rec r s).Sat
      (fun _ ok s' => Framed E s ok s' ∧ s.exprCnt + 1 ≤ s'.exprCnt ∧ s'.exprCnt ≤ n) (fun _ => True) := by
  have hfr := rule_frame h.frame r s hm
  unfold parseRule at hfr ⊢
  simp only [] at hfr ⊢
  obtain ⟨ht, hs⟩ := wrap_facts hn hmz h r.expr (pushV { s with rstack := r :: s.rstack })
    (hm.congr (by simp [pushV])) (by simpa [pushV] using hc) (by simpa [pushV] using hb)
  revert hfr; revert hs; revert ht
  generalize parseExprWrap E rec r.expr (pushV { s with rstack := r :: s.rstack }) = o
  cases o with
  | oof => intro ht; exact absurd rfl ht
  | panic p s' => intros; simp [Outcome.bind, Outcome.Term, Outcome.Sat]
  | done v ok s' =>
    intro _ hs hfr
    simp only [Outcome.bind, Outcome.Sat] at hfr ⊢
    obtain ⟨_, h1, h2⟩ := hs
    simp [pushV] at h1
    refine ⟨by simp [Outcome.Term], hfr, by simpa [popV] using h1, by simpa [popV] using h2⟩

theorem leader_term (hn : E.opts.maxExpr = some n) (hmz : E.opts.memoize = false)
    (h : RecOK E rec n c0) (r : Rule) (startMark : Savepoint) :
    ∀ (k depth : Nat) (last : MemoVal) (lastErrs : List String) (s : PState), MemoOK s →
      (last.b = false → last.end.pos.off = startMark.pos.off) →
      c0 ≤ s.exprCnt → s.exprCnt ≤ n → n + 2 ≤ k + s.exprCnt →
      (leaderLoop E rec r startMark k depth last lastErrs s).Term
  | 0, _, _, _, s, _, _, _, hb, hk => by omega
  | k + 1, depth, last, lastErrs, s, hm, hl, hc, hb, hk => by
    unfold leaderLoop
    simp only []
    have hm1 : MemoOK (setMemoized s startMark (.rule r.name) last) := hm.set hl
    obtain ⟨ht, hs⟩ := rule_facts hn hmz h r _ hm1 (by simpa using hc) (by simpa using hb)
    apply Outcome.term_bind ht hs
    intro v ok s2 ⟨hf, h1, h2⟩
    simp at h1
    split
    · simp [Outcome.Term]
    · next hcnd =>
      have hok : ok = true := by
        cases ok with
        | true => rfl
        | false => simp at hcnd
      subst hok
      exact leader_term hn hmz h r startMark k (depth + 1) _ s2.errs _ (hf.memo.congr (by simp))
        (fun hb => by simp at hb) (by simp; omega) (by simpa using h2) (by simp; omega)

theorem ruleWrap_term (hn : E.opts.maxExpr = some n) (hmz : E.opts.memoize = false)
    (h : RecOK E rec n c0) (k : Nat) (r : Rule) (s : PState) (hm : MemoOK s) (hc : c0 ≤ s.exprCnt)
    (hb : s.exprCnt ≤ n) (hk : n + 2 ≤ k + s.exprCnt) : (parseRuleWrap E rec k r s).Term := by
  have hrule := (rule_facts hn hmz h r s hm hc hb).1
  have hleader : (parseRuleLeader E rec k r s).Term := by
    unfold parseRuleLeader
    split
    · simp [Outcome.Term]
    · exact leader_term hn hmz h r s.pt k 0 _ s.errs s hm (fun _ => rfl) hc hb hk
  unfold parseRuleWrap
  simp only [hmz]
  repeat' split
  all_goals first
    | exact hleader
    | exact hrule
    | simp_all

theorem runCodeBlock_term (blk : Nat) (s : PState) (k : BlockResult → PState → Outcome)
    (hk : ∀ r s2, (k r s2).Term) : (runCodeBlock E blk s k).Term := by
  unfold runCodeBlock
  simp only []
  split
  · simp [Outcome.Term]
  · exact hk _ _

theorem body_term (hn : E.opts.maxExpr = some n) (hmz : E.opts.memoize = false)
    (h : RecOK E rec n c0) (k : Nat) (e : Expr) (s : PState) (hm : MemoOK s) (hc : c0 ≤ s.exprCnt)
    (hb : s.exprCnt ≤ n) (hk : n + 2 ≤ k + s.exprCnt) : (parseExprBody E rec k e s).Term := by
  have wf := fun e' s' hm' hc' hb' => wrap_facts hn hmz h e' s' hm' hc' hb'
  unfold parseExprBody
  cases e with
  | action id blk e1 =>
    simp only [parseAction]
    obtain ⟨ht, hs⟩ := wf e1 s hm hc hb
    apply Outcome.term_bind ht hs
    intro v ok s1 _
    split
    · split <;> simp [Outcome.Term]
    · simp [Outcome.Term]
  | andCode id blk => exact runCodeBlock_term blk s _ (fun _ _ => by simp [Outcome.Term])
  | notCode id blk => exact runCodeBlock_term blk s _ (fun _ _ => by simp [Outcome.Term])
  | stateCode id blk =>
    simp only [parseStateCode]
    split
    · simp [Outcome.Term]
    · exact runCodeBlock_term blk s _ (fun _ _ => by simp [Outcome.Term])
  | and id e1 =>
    simp only [parseAnd]
    obtain ⟨ht, hs⟩ := wf e1 (pushV s) (hm.congr (by simp)) (by simpa using hc) (by simpa using hb)
    exact Outcome.term_bind ht hs (fun _ _ _ _ => by simp [Outcome.Term])
  | not id e1 =>
    simp only [parseNot]
    obtain ⟨ht, hs⟩ := wf e1 ({ pushV s with maxFailInvert := !s.maxFailInvert })
      (hm.congr rfl) (by simpa [pushV] using hc) (by simpa [pushV] using hb)
    exact Outcome.term_bind ht hs (fun _ _ _ _ => by simp [Outcome.Term])
  | any id => simp only [parseAny]; split <;> simp [Outcome.Term, matchOne]
  | cls id c =>
    simp only [parseCharClass]
    repeat' split
    all_goals simp [Outcome.Term, matchOne]
  | choice id line col alts => exact choice_term hn hmz h line col alts 0 s hm hc hb
  | labeled id label e1 =>
    simp only [parseLabeled]
    obtain ⟨ht, hs⟩ := wf e1 (pushV s) (hm.congr (by simp)) (by simpa using hc) (by simpa using hb)
    exact Outcome.term_bind ht hs (fun _ _ _ _ => by simp [Outcome.Term])
  | lit id val ic want => exact lit_term _ _ _ _ _
  | oneOrMore id e1 => exact loop_term hn hmz h e1 k s [] hm hc hb hk
  | zeroOrMore id e1 =>
    simp only [parseZeroOrMore]
    have ht := loop_term hn hmz h e1 k s [] hm hc hb hk
    revert ht
    generalize parseLoop E rec e1 k s [] = o
    cases o with
    | oof => intro ht; exact absurd rfl ht
    | panic p s' => intro _; simp [Outcome.bind, Outcome.Term]
    | done v ok s' => intro _; simp only [Outcome.bind]; split <;> simp [Outcome.Term]
  | zeroOrOne id e1 =>
    simp only [parseZeroOrOne]
    obtain ⟨ht, hs⟩ := wf e1 (pushV s) (hm.congr (by simp)) (by simpa using hc) (by simpa using hb)
    exact Outcome.term_bind ht hs (fun _ _ _ _ => by simp [Outcome.Term])
  | recovery id e1 r labels =>
    simp only [parseRecovery]
    obtain ⟨ht, hs⟩ := wf e1 (pushRecovery s labels r) (hm.congr (by simp)) (by simpa using hc)
      (by simpa using hb)
    exact Outcome.term_bind ht hs (fun _ _ _ _ => by simp [Outcome.Term])
  | ruleRef id name =>
    simp only [parseRuleRef]
    split
    · simp [Outcome.Term]
    · split
      · simp [Outcome.Term]
      · exact ruleWrap_term hn hmz h k _ s hm hc hb hk
  | seq id es => exact seq_term hn hmz h _ _ es s [] hm hc hb
  | throw id label => exact throw_term hn hmz h label _ s hm hc hb

end

/-- `parseExpr` strictly advances the counter whenever it returns normally -/
theorem parseExpr_strict (E : Env) (f : Nat) (e : Expr) (s s' : PState) (v : Val) (ok : Bool)
    (hm : MemoOK s) (h : parseExpr E f e s = .done v ok s') : s.exprCnt + 1 ≤ s'.exprCnt := by
  cases f with
  | zero => simp [parseExpr] at h
  | succ f =>
    obtain ⟨_, hb⟩ := parseExpr_succ h
    have := body_frame (parseExpr_frame E f) f e (bump s) (bump s) (Stk.refl E _) rfl rfl (hm.congr rfl)
    rw [hb] at this
    have := this.stk.cnt
    simpa [bump] using this


/-- **Termination under a budget** (model level): with `MaxExpressions(n)` and `Memoize(false)`,
    `parseExpr` with fuel `f` does not run out of fuel from any state with `n + 2 ≤ f + exprCnt`. -/
theorem parseExpr_term (E : Env) (n : Nat) (hn : E.opts.maxExpr = some n)
    (hmz : E.opts.memoize = false) :
    ∀ (f : Nat) (e : Expr) (s : PState), MemoOK s → n + 2 ≤ f + s.exprCnt → s.exprCnt ≤ n →
      (parseExpr E f e s).Term
  | 0, _, s, _, h1, h2 => by omega
  | f + 1, e, s, hm, h1, h2 => by
    rw [parseExpr, parseExprStep]
    split
    · simp [Outcome.Term]
    · next hob =>
      have hle : s.exprCnt + 1 ≤ n := by
        simp [overBudget, hn, bump] at hob
        exact hob
      have hrec : RecOK E (parseExpr E f) n (n + 2 - f) :=
        ⟨parseExpr_frame E f, fun e s v ok s' hm h => parseExpr_strict E f e s s' v ok hm h,
         fun e s hm hc hb => parseExpr_term E n hn hmz f e s hm (by omega) hb⟩
      exact body_term hn hmz hrec f e (bump s) (hm.congr rfl) (by simp [bump]; omega)
        (by simpa [bump] using hle) (by simp [bump]; omega)

end RT
end PV
