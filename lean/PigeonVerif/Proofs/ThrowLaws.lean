/-
  The labelled-failure semantics, read off the independent specification `Spec.eval` (Spec/Peg.lean) - the declarative
  form of C14 - and transferred to the runtime model by the refinement theorem (Proofs/Refine.lean).

  In `Spec` the handlers in force are an ARGUMENT of the evaluation (`Ctx.handlers`, innermost first): there is no
  handler stack to keep balanced, so "handlers are in force only while their guarded expression is being evaluated" is
  true by construction - `e //{L…} r` evaluates `e` with one more frame and passes nothing on.
-/
import PigeonVerif.Proofs.Refine

namespace PV
namespace Spec

/-- `e //{L…} r` IS `e` evaluated with one more handler frame (each listed label ↦ `r`); the frame is not part of the
    result: whatever follows is evaluated with the handlers that were in force before -/
theorem recovery_is_guarded_eval (E : Env) (f : Nat) (c : Ctx) (id : Nat) (e1 r : Expr) (labels : List String)
    (env : List (String × Val)) (pt : Savepoint) (w : World) :
    eval E (f + 1) c (.recovery id e1 r labels) env pt w =
      eval E f { c with handlers := (labels.map (fun l => (l, r))).reverse :: c.handlers } e1 env pt w := rfl

/-- a throw evaluates to the handler search over the frames in force, innermost first, AT THE THROW POSITION -/
theorem throw_is_handler_search (E : Env) (f : Nat) (c : Ctx) (id : Nat) (label : String)
    (env : List (String × Val)) (pt : Savepoint) (w : World) :
    eval E (f + 1) c (.throw id label) env pt w = evalThrow (eval E f) c label c.handlers env pt w := rfl

section
variable (rec : Ctx → Expr → List (String × Val) → Savepoint → World → Res)

/-- no operator listing the label is being evaluated: the throw fails like an ordinary mismatch - nothing consumed, the
    scope and the world untouched -/
theorem throw_unhandled (c : Ctx) (label : String) (hs : List (List (String × Expr))) (env : List (String × Val))
    (pt : Savepoint) (w : World) (h : ∀ fr ∈ hs, lookup label fr = none) :
    evalThrow rec c label hs env pt w = .fail env w := by
  induction hs with
  | nil => rfl
  | cons fr frs ih =>
    simp only [evalThrow, h fr List.mem_cons_self]
    exact ih (fun fr' hf => h fr' (List.mem_cons_of_mem _ hf))

/-- frames that do not list the label are skipped -/
theorem throw_skips (c : Ctx) (label : String) (fr : List (String × Expr)) (hs : List (List (String × Expr)))
    (env : List (String × Val)) (pt : Savepoint) (w : World) (h : lookup label fr = none) :
    evalThrow rec c label (fr :: hs) env pt w = evalThrow rec c label hs env pt w := by
  simp only [evalThrow, h]

/-- the innermost operator listing the label: its recovery expression runs at the throw position, in the scope of the throw
    site; if it matches, parsing continues after it with its value in place of the throw -/
theorem throw_recovered (c : Ctx) (label : String) (fr : List (String × Expr)) (hs : List (List (String × Expr)))
    (r : Expr) (env : List (String × Val)) (pt : Savepoint) (w : World) (v : Val) (pt' : Savepoint)
    (env' : List (String × Val)) (w' : World)
    (hl : lookup label fr = some r) (hr : rec c r env pt w = .ok v pt' env' w') :
    evalThrow rec c label (fr :: hs) env pt w = .ok v pt' env' w' := by
  simp only [evalThrow, hl, hr]

/-- if it fails, the next enclosing operator listing the label is tried - at the SAME position (the failed recovery expression
    consumed nothing), with whatever the failed attempt left in the world (errors, globalStore) -/
theorem throw_next_handler (c : Ctx) (label : String) (fr : List (String × Expr)) (hs : List (List (String × Expr)))
    (r : Expr) (env : List (String × Val)) (pt : Savepoint) (w : World) (env' : List (String × Val)) (w' : World)
    (hl : lookup label fr = some r) (hr : rec c r env pt w = .fail env' w') :
    evalThrow rec c label (fr :: hs) env pt w = evalThrow rec c label hs env' pt w' := by
  simp only [evalThrow, hl, hr]

end
end Spec

namespace RT

/-- **C14 for the runtime model, in the declarative form**: in the plain configuration (no Memoize, no budget, no
    left-recursive rules) what the runtime computes for ANY expression - throw and recovery operators included, at any
    nesting, from any state the parser can be in - is what the labelled-failure semantics above prescribes: the runtime's
    handler stack is the specification's handler argument (`ctxOf`), its result the specification's result. -/
theorem throw_recover_is_spec (E : Env) (hp : Plain E) (f : Nat) (e : Expr) (s : PState) (hg : Good E s) :
    abs (parseExpr E f e s) = Spec.eval E f (ctxOf s) e (envOf s) s.pt (absW s) :=
  parseExpr_refines hp f e s hg

end RT
end PV
