/-
  Well-formed grammars terminate (Ford's well-formedness, for the runtime model).

  `WFG E rn rank`: plain configuration; `rn` is a closed nullability oracle for the rules; every repetition has a
  non-nullable body, there is no throw/recover (`Expr.wfs`); and `rank` is a witness that the FIRST graph — rule `n` →
  every rule that `n`'s body can reach without consuming input (`Expr.first`) — has no cycle: every such edge goes to a
  rule of smaller rank. That is exactly "no rule can reach itself at the same input position" (C07).

  `wf_terminates`: then for every code environment, every input and every state, every expression evaluates at some finite
  depth — the parser cannot recurse without bound, and cannot loop, without any budget.

  Measure: (input left, rank bound of the rules reachable at this position, size of the expression).
-/
import PigeonVerif.Proofs.Advance
import PigeonVerif.Proofs.FuelMono

namespace PV

mutual
/-- the rules an expression can invoke at the position where it starts -/
def Expr.first (rn : String → Bool) : Expr → List String
  | .action _ _ e | .labeled _ _ e | .oneOrMore _ e | .zeroOrMore _ e | .zeroOrOne _ e | .and _ e | .not _ e => e.first rn
  | .choice _ _ _ es => firstAny rn es
  | .seq _ es => firstSeq rn es
  | .ruleRef _ n => [n]
  | .recovery _ e r _ => e.first rn ++ r.first rn
  | .andCode _ _ | .notCode _ _ | .stateCode _ _ | .any _ | .cls _ _ | .lit _ _ _ _ | .throw _ _ => []
def firstAny (rn : String → Bool) : List Expr → List String
  | [] => []
  | e :: es => e.first rn ++ firstAny rn es
def firstSeq (rn : String → Bool) : List Expr → List String
  | [] => []
  | e :: es => e.first rn ++ (if e.nul rn then firstSeq rn es else [])
end

mutual
/-- shape: repetitions over non-nullable bodies only, no throw / recover -/
def Expr.wfs (rn : String → Bool) : Expr → Bool
  | .action _ _ e | .labeled _ _ e | .zeroOrOne _ e | .and _ e | .not _ e => e.wfs rn
  | .oneOrMore _ e | .zeroOrMore _ e => !e.nul rn && e.wfs rn
  | .choice _ _ _ es | .seq _ es => wfsL rn es
  | .recovery _ _ _ _ | .throw _ _ => false
  | .andCode _ _ | .notCode _ _ | .stateCode _ _ | .any _ | .cls _ _ | .lit _ _ _ _ | .ruleRef _ _ => true
def wfsL (rn : String → Bool) : List Expr → Bool
  | [] => true
  | e :: es => e.wfs rn && wfsL rn es
end

mutual
def Expr.size : Expr → Nat
  | .action _ _ e | .labeled _ _ e | .zeroOrOne _ e | .and _ e | .not _ e | .oneOrMore _ e | .zeroOrMore _ e => e.size + 1
  | .choice _ _ _ es | .seq _ es => sizeL es + 1
  | .recovery _ e r _ => e.size + r.size + 1
  | .andCode _ _ | .notCode _ _ | .stateCode _ _ | .any _ | .cls _ _ | .lit _ _ _ _ | .ruleRef _ _ | .throw _ _ => 1
def sizeL : List Expr → Nat
  | [] => 0
  | e :: es => e.size + sizeL es + 1
end

theorem size_mem {e : Expr} : ∀ {es : List Expr}, e ∈ es → e.size < sizeL es + 1
  | [], h => by cases h
  | x :: xs, h => by
    rcases List.mem_cons.mp h with rfl | h
    · simp [sizeL]; omega
    · have := size_mem h; simp [sizeL]; omega

theorem wfs_mem {rn : String → Bool} {e : Expr} : ∀ {es : List Expr}, wfsL rn es = true → e ∈ es → e.wfs rn = true
  | [], _, h => by cases h
  | x :: xs, hw, h => by
    simp only [wfsL, Bool.and_eq_true] at hw
    rcases List.mem_cons.mp h with rfl | h
    · exact hw.1
    · exact wfs_mem hw.2 h

theorem firstAny_mem {rn : String → Bool} {e : Expr} {m : String} : ∀ {es : List Expr}, e ∈ es → m ∈ e.first rn →
    m ∈ firstAny rn es
  | [], h, _ => by cases h
  | x :: xs, h, hm => by
    simp only [firstAny, List.mem_append]
    rcases List.mem_cons.mp h with rfl | h
    · exact Or.inl hm
    · exact Or.inr (firstAny_mem h hm)

namespace RT

/-! ### positions stay inside the input -/

theorem ptIter_le (inp : List Nat) : ∀ k, (ptIter inp k).pos.off + (ptIter inp k).w ≤ inp.length := by
  have step : ∀ pt : Savepoint, pt.pos.off + pt.w ≤ inp.length →
      (nextPt inp pt).pos.off + (nextPt inp pt).w ≤ inp.length := by
    intro pt h
    have hw : (nextPt inp pt).w = (decodeRune (inp.drop (pt.pos.off + pt.w))).2 := by
      unfold nextPt; simp only []; split <;> rfl
    rw [nextPt_off, hw]
    rcases hd : decodeRune (inp.drop (pt.pos.off + pt.w)) with ⟨r, n⟩
    have := C17_decode_sound _ r n hd
    have hl : (inp.drop (pt.pos.off + pt.w)).length = inp.length - (pt.pos.off + pt.w) := List.length_drop
    simp only []
    rcases this with ⟨h0, _⟩ | ⟨_, h1, hne⟩ | ⟨_, hle⟩
    · omega
    · have : (inp.drop (pt.pos.off + pt.w)).length ≠ 0 := fun h => hne (List.eq_nil_of_length_eq_zero h)
      omega
    · omega
  intro k
  induction k with
  | zero => exact step pt0 (by simp [pt0])
  | succ k ih => exact step _ ih

theorem Reach.le {inp : List Nat} {pt : Savepoint} (h : Reach inp pt) : pt.pos.off + pt.w ≤ inp.length := by
  obtain ⟨k, rfl, _⟩ := h; exact ptIter_le inp k

/-- input left -/
def rem (E : Env) (s : PState) : Nat := E.input.length - s.pt.pos.off

theorem rem_lt {E : Env} {s s' : PState} (hi : FInv E s') (h : s.pt.pos.off < s'.pt.pos.off) : rem E s' < rem E s := by
  have := hi.2.1.le
  unfold rem; omega

theorem rem_le {E : Env} {s s' : PState} (h : s.pt.pos.off ≤ s'.pt.pos.off) : rem E s' ≤ rem E s := by
  unfold rem; omega

theorem off_eq_of_rem {E : Env} {s s' : PState} (hi : FInv E s') (h : s.pt.pos.off ≤ s'.pt.pos.off)
    (hr : rem E s' = rem E s) : s'.pt.pos.off = s.pt.pos.off := by
  have := hi.2.1.le
  unfold rem at hr; omega

/-! ### convergence -/

/-- the expression evaluates at some finite depth -/
def T (E : Env) (e : Expr) (s : PState) : Prop := ∃ f, parseExpr E f e s ≠ .oof

theorem bind_ne_oof {o : Outcome} {k : Val → Bool → PState → Outcome} (ho : o ≠ .oof)
    (hk : ∀ v ok s, o = .done v ok s → k v ok s ≠ .oof) : o.bind k ≠ .oof := by
  cases o with
  | oof => exact absurd rfl ho
  | panic p s => simp [Outcome.bind]
  | done v ok s => exact hk v ok s rfl

section
variable {E : Env} {rn : String → Bool} {rank : String → Nat}

/-- the grammar has no rule that can reach itself at the same position (ranking witness), no repetition over a
    nullable body, no throw/recover; plain configuration -/
structure WFG (E : Env) (rn : String → Bool) (rank : String → Nat) : Prop where
  plain : Plain E
  closed : ∀ n r, E.findRule n = some r → r.expr.nul rn = true → rn n = true
  shape : ∀ n r, E.findRule n = some r → r.expr.wfs rn = true
  ranked : ∀ n r, E.findRule n = some r → ∀ m ∈ r.expr.first rn, rank m < rank n

variable (h : WFG E rn rank)
include h

/-- what is known after a call that returned -/
theorem call_done {f : Nat} {e : Expr} {s s1 : PState} {v : Val} {ok : Bool} (hi : FInv E s)
    (ho : parseExpr E f e s = .done v ok s1) :
    FInv E s1 ∧ (ok = true → s.pt.pos.off ≤ s1.pt.pos.off ∧ (s1.pt.pos.off = s.pt.pos.off → e.nul rn = true)) ∧
      (ok = false → s1.pt.pos.off = s.pt.pos.off) := by
  have h1 := adv h.plain h.closed f e s hi
  have h2 := parseExpr_frame E f e s hi.1
  rw [ho] at h1 h2
  exact ⟨hi.of_framed h2, h1, h2.failOff⟩

theorem wrapE (f : Nat) (e : Expr) (s : PState) : parseExprWrap E (parseExpr E f) e s = parseExpr E f e s :=
  wrap_eq h.plain.nomemo e s

omit h in
/-- raise the depth of a converged call -/
theorem lift {f F : Nat} {e : Expr} {s : PState} {o : Outcome} (hle : f ≤ F) (ho : parseExpr E f e s = o)
    (hne : o ≠ .oof) : parseExpr E F e s = o := by
  rw [parseExpr_mono E hle e s (by rw [ho]; exact hne), ho]

theorem seq_conv (n k : Nat) (pt : Savepoint) (st : Store) : ∀ (es : List Expr),
    (∀ e ∈ es, ∀ s', FInv E s' → rem E s' ≤ n → (rem E s' = n → ∀ m ∈ e.first rn, rank m < k) → T E e s') →
    ∀ (s : PState) (acc : List Val), FInv E s → rem E s ≤ n → (rem E s = n → ∀ m ∈ firstSeq rn es, rank m < k) →
      ∃ F, parseSeq E (parseExpr E F) pt st es s acc ≠ .oof
  | [], _, s, acc, _, _, _ => ⟨0, by simp [parseSeq]⟩
  | e :: es, hT, s, acc, hi, hrem, hfirst => by
    obtain ⟨f1, h1⟩ := hT e List.mem_cons_self s hi hrem
      (fun hn m hm => hfirst hn m (by simp only [firstSeq, List.mem_append]; exact Or.inl hm))
    cases ho : parseExpr E f1 e s with
    | oof => exact absurd ho h1
    | panic p s1 => exact ⟨f1, by unfold parseSeq; rw [wrapE h, ho]; simp [Outcome.bind]⟩
    | done v ok s1 =>
      cases ok with
      | false => exact ⟨f1, by unfold parseSeq; rw [wrapE h, ho]; simp [Outcome.bind]⟩
      | true =>
        obtain ⟨hi1, hadv, _⟩ := call_done h hi ho
        obtain ⟨a1, a2⟩ := hadv rfl
        have hrem1 : rem E s1 ≤ n := Nat.le_trans (rem_le a1) hrem
        obtain ⟨F2, h2⟩ := seq_conv n k pt st es (fun e' he' => hT e' (List.mem_cons_of_mem _ he')) s1 (v :: acc) hi1 hrem1
          (fun hn m hm => by
            have hs : rem E s = n := Nat.le_antisymm hrem (by rw [← hn]; exact rem_le a1)
            have hoff := off_eq_of_rem hi1 a1 (by rw [hn, hs])
            have hnul := a2 hoff
            exact hfirst hs m (by simp only [firstSeq, List.mem_append, hnul, if_true]; exact Or.inr hm))
        refine ⟨max f1 F2, ?_⟩
        unfold parseSeq
        rw [wrapE h, lift (Nat.le_max_left f1 F2) ho (by simp)]
        simp only [Outcome.bind, if_true]
        rw [seq_ext (parseExpr_mono E (Nat.le_max_right f1 F2)) pt st es s1 (v :: acc) h2]
        exact h2


theorem choice_conv (n k : Nat) (line col : Nat) : ∀ (alts : List Expr),
    (∀ e ∈ alts, ∀ s', FInv E s' → rem E s' ≤ n → (rem E s' = n → ∀ m ∈ e.first rn, rank m < k) → T E e s') →
    ∀ (i : Nat) (s : PState), FInv E s → rem E s ≤ n → (rem E s = n → ∀ m ∈ firstAny rn alts, rank m < k) →
      ∃ F, parseChoice E (parseExpr E F) line col alts i s ≠ .oof
  | [], _, i, s, _, _, _ => ⟨0, by simp [parseChoice]⟩
  | a :: alts, hT, i, s, hi, hrem, hfirst => by
    have hip : FInv E (pushV s) := hi.congr rfl rfl
    obtain ⟨f1, h1⟩ := hT a List.mem_cons_self (pushV s) hip hrem
      (fun hn m hm => hfirst hn m (by simp only [firstAny, List.mem_append]; exact Or.inl hm))
    cases ho : parseExpr E f1 a (pushV s) with
    | oof => exact absurd ho h1
    | panic p s1 => exact ⟨f1, by unfold parseChoice; simp only []; rw [wrapE h, ho]; simp [Outcome.bind]⟩
    | done v ok s1 =>
      cases ok with
      | true => exact ⟨f1, by unfold parseChoice; simp only []; rw [wrapE h, ho]; simp [Outcome.bind]⟩
      | false =>
        obtain ⟨hi1, _, hfail⟩ := call_done h hip ho
        have hoff : (restoreState E (popV s1) s.state).pt.pos.off = s.pt.pos.off := by simpa using hfail rfl
        have hrem1 : rem E (restoreState E (popV s1) s.state) = rem E s := by unfold rem; rw [hoff]
        obtain ⟨F2, h2⟩ := choice_conv n k line col alts (fun e' he' => hT e' (List.mem_cons_of_mem _ he')) (i + 1)
          (restoreState E (popV s1) s.state) (hi1.congr (by simp) (by simp)) (by rw [hrem1]; exact hrem)
          (fun hn m hm => hfirst (by rw [← hrem1]; exact hn) m
            (by simp only [firstAny, List.mem_append]; exact Or.inr hm))
        refine ⟨max f1 F2, ?_⟩
        unfold parseChoice
        simp only []
        rw [wrapE h, lift (Nat.le_max_left f1 F2) ho (by simp)]
        simp only [Outcome.bind, Bool.false_eq_true, if_false]
        rw [choice_ext (parseExpr_mono E (Nat.le_max_right f1 F2)) line col alts (i + 1) _ h2]
        exact h2

/-- a repetition over a non-nullable body: every round consumes input -/
theorem loop_conv (e : Expr) (hnn : e.nul rn = false) (n0 : Nat) (hT : ∀ s', FInv E s' → rem E s' ≤ n0 → T E e s') :
    ∀ (r : Nat) (s : PState) (acc : List Val), FInv E s → rem E s ≤ r → r ≤ n0 →
      ∃ F, parseLoop E (parseExpr E F) e F s acc ≠ .oof := by
  intro r
  induction r using Nat.strongRecOn with
  | _ r ih =>
    intro s acc hi hrem hr0
    have hip : FInv E (pushV s) := hi.congr rfl rfl
    obtain ⟨f1, h1⟩ := hT (pushV s) hip (by show rem E s ≤ n0; omega)
    cases ho : parseExpr E f1 e (pushV s) with
    | oof => exact absurd ho h1
    | panic p s1 =>
      refine ⟨f1 + 1, ?_⟩
      unfold parseLoop; simp only []
      rw [wrapE h, lift (Nat.le_succ f1) ho (by simp)]; simp [Outcome.bind]
    | done v ok s1 =>
      cases ok with
      | false =>
        refine ⟨f1 + 1, ?_⟩
        unfold parseLoop; simp only []
        rw [wrapE h, lift (Nat.le_succ f1) ho (by simp)]
        simp only [Outcome.bind, Bool.false_eq_true, if_false]
        split <;> simp
      | true =>
        obtain ⟨hi1, hadv, _⟩ := call_done h hip ho
        obtain ⟨a1, a2⟩ := hadv rfl
        have hlt : s.pt.pos.off < s1.pt.pos.off := by
          rcases Nat.lt_or_ge s.pt.pos.off s1.pt.pos.off with hl | hg
          · exact hl
          · have : s1.pt.pos.off = (pushV s).pt.pos.off := by
              have : (pushV s).pt.pos.off = s.pt.pos.off := rfl
              omega
            have := a2 this
            rw [hnn] at this; cases this
        have hi2 : FInv E (popV s1) := hi1.congr (by simp) (by simp)
        have hrem2 : rem E (popV s1) < rem E s := rem_lt (s := s) hi2 (by simpa using hlt)
        obtain ⟨F2, h2⟩ := ih (rem E (popV s1)) (Nat.lt_of_lt_of_le hrem2 hrem) (popV s1) (v :: acc) hi2 (Nat.le_refl _)
          (by omega)
        refine ⟨max f1 F2 + 1, ?_⟩
        unfold parseLoop; simp only []
        rw [wrapE h, lift (Nat.le_trans (Nat.le_max_left f1 F2) (Nat.le_succ _)) ho (by simp)]
        simp only [Outcome.bind, if_true]
        rw [loop_ext (parseExpr_mono E (Nat.le_trans (Nat.le_max_right f1 F2) (Nat.le_succ _))) e F2 (max f1 F2)
          (popV s1) (v :: acc) (Nat.le_max_right f1 F2) h2]
        exact h2

/-- one sub-call followed by a continuation that never runs out of fuel -/
theorem one_conv {e1 : Expr} {s1 : PState} (hT : T E e1 s1) (k : Val → Bool → PState → Outcome)
    (hk : ∀ v ok s2, k v ok s2 ≠ .oof) :
    ∃ F, (parseExprWrap E (parseExpr E F) e1 s1).bind k ≠ .oof := by
  obtain ⟨f1, h1⟩ := hT
  exact ⟨f1, by rw [wrapE h]; exact bind_ne_oof h1 (fun v ok s _ => hk v ok s)⟩


theorem T_of_body {e : Expr} {s : PState} (hB : ∃ F, parseExprBody E (parseExpr E F) F e (bump s) ≠ .oof) : T E e s := by
  obtain ⟨F, hF⟩ := hB
  refine ⟨F + 1, ?_⟩
  show parseExprStep E (parseExpr E F) F e s ≠ .oof
  unfold parseExprStep
  have : overBudget E (bump s) = false := by unfold overBudget; rw [h.plain.nobudget]
  rw [this]
  simpa using hF

omit h in
theorem size_pos (e : Expr) : 1 ≤ e.size := by
  cases e <;> simp [Expr.size]

/-- a bound above the ranks of a list of names -/
def bigK (rank : String → Nat) (l : List String) : Nat := l.foldr (fun m acc => max (rank m + 1) acc) 0

omit h in
theorem lt_bigK {m : String} : ∀ {l : List String}, m ∈ l → rank m < bigK rank l
  | [], hm => by cases hm
  | x :: xs, hm => by
    simp only [bigK, List.foldr]
    rcases List.mem_cons.mp hm with rfl | hm
    · omega
    · have := lt_bigK hm
      simp only [bigK] at this
      omega

/-- the triple induction: input left, rank bound at this position, size of the expression -/
theorem term_main : ∀ (n k sz : Nat) (e : Expr) (s : PState), FInv E s → rem E s ≤ n → e.wfs rn = true → e.size ≤ sz →
    (rem E s = n → ∀ m ∈ e.first rn, rank m < k) → T E e s := by
  intro n
  induction n using Nat.strongRecOn with
  | _ n ihn =>
  intro k
  induction k using Nat.strongRecOn with
  | _ k ihk =>
  intro sz
  induction sz with
  | zero => intro e s _ _ _ hsz _; have := size_pos e; omega
  | succ sz ihsz =>
    intro e s hi hrem hwf hsz hfirst
    have anyT : ∀ e' s', FInv E s' → rem E s' < n → e'.wfs rn = true → T E e' s' := fun e' s' hi' hlt hw' =>
      ihn (rem E s') hlt (bigK rank (e'.first rn)) e'.size e' s' hi' (Nat.le_refl _) hw' (Nat.le_refl _)
        (fun _ m hm => lt_bigK hm)
    by_cases hlt : rem E s < n
    · exact anyT e s hi hlt hwf
    have hn : rem E s = n := by omega
    -- sub-expressions, wherever they are evaluated with at most `n` left
    have sub : ∀ e' s', FInv E s' → rem E s' ≤ n → e'.wfs rn = true → e'.size ≤ sz →
        (rem E s' = n → ∀ m ∈ e'.first rn, rank m < k) → T E e' s' := ihsz
    apply T_of_body h
    have hib : FInv E (bump s) := hi.congr rfl rfl
    have hremb : rem E (bump s) = n := hn
    have noofk : ∀ (k' : Val → Bool → PState → Outcome), (∀ v ok s2, k' v ok s2 ≠ .oof) → ∀ (e1 : Expr) (s1 : PState),
        T E e1 s1 → ∃ F, (parseExprWrap E (parseExpr E F) e1 s1).bind k' ≠ .oof :=
      fun k' hk e1 s1 hT => one_conv h hT k' hk
    cases e with
    | recovery id e1 r1 labels => simp [Expr.wfs] at hwf
    | throw id label => simp [Expr.wfs] at hwf
    | andCode id blk =>
      refine ⟨0, ?_⟩
      simp only [parseExprBody, parseAndCode]
      exact runCodeBlock_term blk _ _ (fun _ _ => by simp [Outcome.Term])
    | notCode id blk =>
      refine ⟨0, ?_⟩
      simp only [parseExprBody, parseNotCode]
      exact runCodeBlock_term blk _ _ (fun _ _ => by simp [Outcome.Term])
    | stateCode id blk =>
      refine ⟨0, ?_⟩
      simp only [parseExprBody, parseStateCode]
      split
      · simp
      · exact runCodeBlock_term blk _ _ (fun _ _ => by simp [Outcome.Term])
    | any id => exact ⟨0, by simp only [parseExprBody, parseAny]; split <;> simp [matchOne]⟩
    | cls id c =>
      refine ⟨0, ?_⟩
      simp only [parseExprBody, parseCharClass]
      repeat' split
      all_goals simp [matchOne]
    | lit id val ic want => exact ⟨0, lit_term _ _ _ _ _⟩
    | action id blk e1 =>
      simp only [Expr.wfs] at hwf
      simp only [Expr.size] at hsz
      simp only [parseExprBody, parseAction]
      apply noofk _ _ e1 (bump s) (sub e1 (bump s) hib (by omega) hwf (by omega) (fun _ m hm => hfirst hn m (by simpa [Expr.first] using hm)))
      intro v ok s2
      split
      · split <;> simp
      · simp
    | and id e1 =>
      simp only [Expr.wfs] at hwf
      simp only [Expr.size] at hsz
      simp only [parseExprBody, parseAnd]
      exact noofk _ (fun _ _ _ => by simp) e1 (pushV (bump s))
        (sub e1 _ (hib.congr rfl rfl) (by show rem E (bump s) ≤ n; omega) hwf (by omega)
          (fun _ m hm => hfirst hn m (by simpa [Expr.first] using hm)))
    | not id e1 =>
      simp only [Expr.wfs] at hwf
      simp only [Expr.size] at hsz
      simp only [parseExprBody, parseNot]
      exact noofk _ (fun _ _ _ => by simp) e1 { pushV (bump s) with maxFailInvert := !(bump s).maxFailInvert }
        (sub e1 _ (hib.congr rfl rfl) (by show rem E (bump s) ≤ n; omega) hwf (by omega)
          (fun _ m hm => hfirst hn m (by simpa [Expr.first] using hm)))
    | labeled id l e1 =>
      simp only [Expr.wfs] at hwf
      simp only [Expr.size] at hsz
      simp only [parseExprBody, parseLabeled]
      exact noofk _ (fun _ _ _ => by simp) e1 (pushV (bump s))
        (sub e1 _ (hib.congr rfl rfl) (by show rem E (bump s) ≤ n; omega) hwf (by omega)
          (fun _ m hm => hfirst hn m (by simpa [Expr.first] using hm)))
    | zeroOrOne id e1 =>
      simp only [Expr.wfs] at hwf
      simp only [Expr.size] at hsz
      simp only [parseExprBody, parseZeroOrOne]
      exact noofk _ (fun _ _ _ => by simp) e1 (pushV (bump s))
        (sub e1 _ (hib.congr rfl rfl) (by show rem E (bump s) ≤ n; omega) hwf (by omega)
          (fun _ m hm => hfirst hn m (by simpa [Expr.first] using hm)))
    | choice id line col alts =>
      simp only [Expr.wfs] at hwf
      simp only [Expr.size] at hsz
      simp only [parseExprBody]
      exact choice_conv h n k line col alts
        (fun e' he' s' hi' hr' hf' => sub e' s' hi' hr' (wfs_mem hwf he') (by have := size_mem he'; omega) hf')
        0 (bump s) hib (by omega) (fun _ m hm => hfirst hn m (by simpa [Expr.first] using hm))
    | seq id es =>
      simp only [Expr.wfs] at hwf
      simp only [Expr.size] at hsz
      simp only [parseExprBody]
      exact seq_conv h n k _ _ es
        (fun e' he' s' hi' hr' hf' => sub e' s' hi' hr' (wfs_mem hwf he') (by have := size_mem he'; omega) hf')
        (bump s) [] hib (by omega) (fun _ m hm => hfirst hn m (by simpa [Expr.first] using hm))
    | oneOrMore id e1 =>
      simp only [Expr.wfs, Bool.and_eq_true, Bool.not_eq_true'] at hwf
      simp only [Expr.size] at hsz
      simp only [parseExprBody]
      have hTl : ∀ s', FInv E s' → rem E s' ≤ n → T E e1 s' := fun s' hi' hr' => by
        by_cases hl : rem E s' < n
        · exact anyT e1 s' hi' hl hwf.2
        · exact sub e1 s' hi' hr' hwf.2 (by omega) (fun _ m hm => hfirst hn m (by simpa [Expr.first] using hm))
      exact loop_conv h e1 hwf.1 n hTl n (bump s) [] hib (by omega) (Nat.le_refl _)
    | zeroOrMore id e1 =>
      simp only [Expr.wfs, Bool.and_eq_true, Bool.not_eq_true'] at hwf
      simp only [Expr.size] at hsz
      simp only [parseExprBody, parseZeroOrMore]
      have hTl : ∀ s', FInv E s' → rem E s' ≤ n → T E e1 s' := fun s' hi' hr' => by
        by_cases hl : rem E s' < n
        · exact anyT e1 s' hi' hl hwf.2
        · exact sub e1 s' hi' hr' hwf.2 (by omega) (fun _ m hm => hfirst hn m (by simpa [Expr.first] using hm))
      obtain ⟨F, hF⟩ := loop_conv h e1 hwf.1 n hTl n (bump s) [] hib (by omega) (Nat.le_refl _)
      exact ⟨F, bind_ne_oof hF (fun v ok s2 _ => by split <;> simp)⟩
    | ruleRef id name =>
      simp only [parseExprBody, parseRuleRef]
      by_cases hne : name = ""
      · exact ⟨0, by simp [hne]⟩
      · simp only [hne, if_false]
        cases hfr : E.findRule name with
        | none => exact ⟨0, by simp⟩
        | some r =>
          simp only []
          have hrk : rank name < k := hfirst hn name (by simp [Expr.first])
          have hT : T E r.expr (pushV { bump s with rstack := r :: (bump s).rstack }) :=
            ihk (rank name) hrk r.expr.size r.expr _ (hib.congr rfl rfl) (by show rem E (bump s) ≤ n; omega)
              (h.shape name r hfr) (Nat.le_refl _) (fun _ m hm => h.ranked name r hfr m hm)
          obtain ⟨F, hF⟩ := hT
          refine ⟨F, ?_⟩
          rw [ruleWrap_eq h.plain F name r hfr]
          unfold parseRule
          simp only []
          rw [wrapE h]
          exact bind_ne_oof hF (fun _ _ _ _ => by simp)


/-- **Well-formed grammars terminate**: every well-shaped expression, from every state, at some finite depth. -/
theorem wf_terminates (e : Expr) (s : PState) (hi : FInv E s) (hwf : e.wfs rn = true) : ∃ f, parseExpr E f e s ≠ .oof :=
  term_main h (rem E s) (bigK rank (e.first rn)) e.size e s hi (Nat.le_refl _) hwf (Nat.le_refl _)
    (fun _ _ hm => lt_bigK hm)

omit h in
theorem start_inv (E : Env) : FInv E (startState E) := by
  refine ⟨fun e he => by simp [startState, initState] at he, ?_, fun e he => by simp [startState, initState] at he⟩
  show Reach E.input (read E (initState E)).pt
  rw [read_pt]
  exact Reach.first E.input

/-- ... and so does `Parse`: at some finite depth the model returns (a value, errors, or a panic) -/
theorem wf_parse_terminates : ∃ f, parse E f ≠ .oof := by
  unfold parse
  simp only []
  cases hr : E.rules with
  | nil => exact ⟨0, by simp⟩
  | cons first rest =>
    simp only []
    cases hfr : E.findRule (entryName E first) with
    | none => exact ⟨0, by simp⟩
    | some r =>
      simp only []
      obtain ⟨F, hF⟩ := wf_terminates h r.expr (pushV { startState E with rstack := r :: (startState E).rstack })
        ((start_inv E).congr rfl rfl) (h.shape _ r hfr)
      refine ⟨F, ?_⟩
      rw [ruleWrap_eq h.plain F _ r hfr]
      unfold parseRule
      simp only []
      rw [wrapE h]
      have : ∀ o : Outcome, o ≠ .oof → finish E o ≠ .oof := by
        intro o ho
        cases o with
        | oof => exact absurd rfl ho
        | panic p s => simp only [finish]; split <;> simp
        | done v ok s =>
          simp only [finish]
          repeat' split
          all_goals simp
      exact this _ (bind_ne_oof hF (fun _ _ _ _ => by simp))

end


/-! ### a checker for the hypotheses (executable; its verdict `true` is proved sound) -/

/-- the oracle given by a list of nullable rule names -/
def rnOf (l : List String) : String → Bool := fun n => l.contains n
/-- the ranking given by an association list (absent = 0) -/
def rankOf (l : List (String × Nat)) : String → Nat := fun n => (lookup n l).getD 0

/-- does the candidate (nullable rules, ranking) witness that the grammar is well-formed? (every rule definition is
    checked, shadowed ones too: stronger than needed) -/
def checkWFG (E : Env) (nl : List String) (rk : List (String × Nat)) : Bool :=
  !E.opts.memoize && E.opts.maxExpr.isNone &&
  E.rules.all (fun r =>
    !r.leftRecursive && !r.leader &&
    (!r.expr.nul (rnOf nl) || rnOf nl r.name) &&
    r.expr.wfs (rnOf nl) &&
    (r.expr.first (rnOf nl)).all (fun m => decide (rankOf rk m < rankOf rk r.name)))

theorem findRule_mem {E : Env} {n : String} {r : Rule} (hf : E.findRule n = some r) : r ∈ E.rules ∧ r.name = n := by
  unfold Env.findRule at hf
  have h1 := List.mem_of_find?_eq_some hf
  have h2 := List.find?_some hf
  exact ⟨List.mem_reverse.mp h1, by simpa using h2⟩

theorem checkWFG_sound {E : Env} {nl : List String} {rk : List (String × Nat)} (hc : checkWFG E nl rk = true) :
    WFG E (rnOf nl) (rankOf rk) := by
  unfold checkWFG at hc
  simp only [Bool.and_eq_true, Bool.not_eq_true', List.all_eq_true, Bool.or_eq_true, decide_eq_true_eq,
    Option.isNone_iff_eq_none] at hc
  obtain ⟨⟨hm, hb⟩, hall⟩ := hc
  have key : ∀ n r, E.findRule n = some r → _ := fun n r hf => hall r (findRule_mem hf).1
  refine ⟨⟨hm, hb, fun n r hf => ?_⟩, fun n r hf hn => ?_, fun n r hf => ?_, fun n r hf m hm' => ?_⟩
  · obtain ⟨⟨⟨⟨h1, h2⟩, _⟩, _⟩, _⟩ := key n r hf
    exact ⟨h1, h2⟩
  · obtain ⟨⟨⟨_, h3⟩, _⟩, _⟩ := key n r hf
    rw [← (findRule_mem hf).2]
    rcases h3 with h3 | h3
    · rw [hn] at h3; cases h3
    · exact h3
  · exact (key n r hf).1.2
  · have := (key n r hf).2 m hm'
    rw [← (findRule_mem hf).2]; exact this

end RT
end PV
