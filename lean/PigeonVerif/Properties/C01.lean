/-
  C01 — generated parsers implement PEG matching (part proved so far on the full runtime model:
  "an expression that fails consumes nothing") and, for the plain configuration, the refinement
  theorem: the runtime model computes exactly the PEG specification `Spec.eval` (Spec/Peg.lean).
-/
import PigeonVerif.Proofs.StoreLemmas
import PigeonVerif.Proofs.Refine
import PigeonVerif.Properties.C02
import PigeonVerif.Proofs.SpecMono
import PigeonVerif.Proofs.FuelMono

namespace PV
namespace RT

/-- **C01 (a)** An expression that fails consumes nothing: the input offset after a failed
    expression is the offset before it — for every expression kind, with memoization and
    left recursion. -/
theorem C01_fail_consumes_nothing (E : Env) (f : Nat) (e : Expr) (s s' : PState) (v : Val)
    (hm : MemoOK s) (h : parseExpr E f e s = .done v false s') : s'.pt.pos.off = s.pt.pos.off := by
  have := parseExpr_frame E f e s hm
  rw [h] at this
  exact this.failOff rfl

/-- the same with the whole savepoint (line, column, current rune): the parser is exactly where it was -/
theorem C01_fail_restores_position (E : Env) (f : Nat) (e : Expr) (s s' : PState) (v : Val)
    (hm : MemoOK s) (hp : PtInv E s) (h : parseExpr E f e s = .done v false s') : s'.pt = s.pt := by
  have hfr := parseExpr_frame E f e s hm
  rw [h] at hfr
  exact Reach.unique (hfr.stk.ptinv hp).1 hp.1 (hfr.failOff rfl)

/-- **C01 (b)** `&e` and `!e` consume nothing whether they match or not. -/
theorem C01_predicates_consume_nothing (E : Env) (f : Nat) (id : Nat) (e1 : Expr) (s s' : PState)
    (v : Val) (ok : Bool)
    (h : parseExpr E (f + 1) (.and id e1) s = .done v ok s' ∨
         parseExpr E (f + 1) (.not id e1) s = .done v ok s') :
    s'.pt.pos.off = s.pt.pos.off ∧ v = .nil := by
  rcases h with h | h
  · obtain ⟨_, hb⟩ := parseExpr_succ h
    simp only [parseExprBody, parseAnd] at hb
    revert hb
    generalize parseExprWrap E (parseExpr E f) e1 (pushV (bump s)) = o
    cases o with
    | oof => simp [Outcome.bind]
    | panic p s1 => simp [Outcome.bind]
    | done v1 ok1 s1 =>
      simp only [Outcome.bind]
      intro hb; injection hb with h1 h2 h3
      subst h1 h3; simp
  · obtain ⟨_, hb⟩ := parseExpr_succ h
    simp only [parseExprBody, parseNot] at hb
    revert hb
    generalize parseExprWrap E (parseExpr E f) e1 _ = o
    cases o with
    | oof => simp [Outcome.bind]
    | panic p s1 => simp [Outcome.bind]
    | done v1 ok1 s1 =>
      simp only [Outcome.bind]
      intro hb; injection hb with h1 h2 h3
      subst h1 h3; simp

/-! ### the runtime is the PEG specification -/

/-- **C01 (c) — refinement.** With default options apart from the ones the specification does not
    describe (no `Memoize`, no `MaxExpressions`, no left-recursive rules), for EVERY grammar, code
    environment, input, depth, expression and reachable parser state, `parseExpr` returns what the
    PEG specification `Spec.eval` prescribes: success or failure; on success the value, the end
    position and the labels in scope; in both cases the world — state store, global store, recorded
    errors, and the complete sequence of code-block invocations with the position, text, arguments
    and stores each of them saw. All PEG laws (ordered choice, greedy repetition without
    backtracking into it, predicates consuming nothing, failure restoring position and state,
    literal and class matching rune by rune, recovery through the innermost handler) are read off
    the 150-line specification instead of the 700-line runtime model. -/
theorem C01_runtime_is_peg (E : Env) (hp : Plain E) (f : Nat) (e : Expr) (s : PState) (hg : Good E s) :
    abs (parseExpr E f e s) = Spec.eval E f (ctxOf s) e (envOf s) s.pt (absW s) :=
  parseExpr_refines hp f e s hg

/-- the state in which `parse` evaluates the start rule is one the theorem applies to (its
    hypotheses are met by every run, not by no run) -/
theorem C01_start_is_good (E : Env) (r : Rule) : Good E (pushV { startState E with rstack := [r] }) :=
  ⟨by simp [pushV], (startState_ptinv E).congr rfl rfl,
   fun e he => by simp [pushV, startState, initState] at he⟩

/-- **C01 (d) — whole parse.** The outcome `parse` hands to its result contract is the start rule
    evaluated by the specification: `Spec.parse` (first read, then `Spec.eval` of the entry rule's
    expression in an empty label scope) is the abstraction of what the runtime computed. -/
theorem C01_parse_is_peg (E : Env) (hp : Plain E) (fuel : Nat) (first : Rule) (rest : List Rule)
    (hr : E.rules = first :: rest) (r : Rule) (hf : E.findRule (entryName E first) = some r) :
    Spec.parse E fuel = some (abs (parseExpr E fuel r.expr (pushV { startState E with rstack := [r] }))) ∧
    parse E fuel = finish E (parseRule E (parseExpr E fuel) r (startState E)) := by
  constructor
  · unfold Spec.parse
    simp only [hr, hf]
    rw [C01_runtime_is_peg E hp fuel r.expr _ (C01_start_is_good E r)]
    have h := read_advance E (initState E)
    have h1 : Spec.advance E { rule := none, handlers := [] } pt0
        { state := if E.useState then E.opts.initState else [], global := E.opts.initGlobal, errs := [],
          curPos := { line := 0, col := 0, off := 0 }, curText := [], nCalls := 0, trace := [] } =
        ((read E (initState E)).pt, absW (read E (initState E))) := h.symm
    rw [h1]
    have c1 : ctxOf (pushV { startState E with rstack := [r] }) = { rule := some r, handlers := [] } := by
      simp [ctxOf, pushV, startState, initState]
    have c2 : envOf (pushV { startState E with rstack := [r] }) = [] := rfl
    have c3 : (pushV { startState E with rstack := [r] }).pt = (read E (initState E)).pt := rfl
    have c4 : absW (pushV { startState E with rstack := [r] }) = absW (read E (initState E)) := rfl
    rw [c1, c2, c3, c4]
  · unfold parse
    simp only [hr, hf]
    rw [ruleWrap_eq hp fuel _ r hf]

/-- **C01 (e)** the specification is a partial FUNCTION: whatever fuel makes `Spec.eval` answer, the
    answer is the same (`Spec.eval_mono`), so an expression has at most one result -/
theorem C01_spec_result_unique (E : Env) (c : Spec.Ctx) (e : Expr) (env : List (String × Val)) (pt : Savepoint)
    (w : Spec.World) (r1 r2 : Spec.Res) (h1 : Spec.Evaluates E c e env pt w r1) (h2 : Spec.Evaluates E c e env pt w r2) :
    r1 = r2 := h1.unique h2

/-- ... and so is the runtime, in every configuration (memoization, left recursion, budget) -/
theorem C01_runtime_result_unique (E : Env) (e : Expr) (s : PState) (o1 o2 : Outcome)
    (h1 : Parses E e s o1) (h2 : Parses E e s o2) : o1 = o2 := h1.unique h2

/-- `Plain` is satisfiable (the theorem is not vacuous): any environment without memoization, budget
    and left-recursion flags -/
example (E : Env) (h1 : E.opts.memoize = false) (h2 : E.opts.maxExpr = none)
    (h3 : ∀ n r, E.findRule n = some r → r.leftRecursive = false ∧ r.leader = false) : Plain E := ⟨h1, h2, h3⟩

end RT
end PV

/-! ### the laws of PEG matching, read off the specification

  `Spec.eval` is short enough to read, and these are the laws a PEG user relies on, stated for an
  arbitrary semantics `rec` of the sub-expressions (so at every depth). By `C01_runtime_is_peg` they
  are laws of the runtime in the plain configuration. -/

namespace PV
namespace Spec

variable (E : Env) (rec : Ctx → Expr → List (String × Val) → Savepoint → World → Res)

/-- **ordered choice commits to the first alternative that matches**: later alternatives are not
    looked at, the value and the end position are that alternative's, labels bound inside it are
    not visible outside -/
theorem C01_law_choice_first_match (c : Ctx) (e : Expr) (es : List Expr) (env : List (String × Val)) (pt : Savepoint)
    (w : World) (v : Val) (pt' : Savepoint) (env' : List (String × Val)) (w' : World)
    (h : rec c e [] pt w = .ok v pt' env' w') :
    evalChoice E rec c (e :: es) env pt w = .ok v pt' env w' := by
  simp [evalChoice, h]

/-- ... and when the first alternative fails the choice is the choice of the rest, evaluated at the
    SAME position with the state store rolled back (errors recorded meanwhile stay) -/
theorem C01_law_choice_skip_failed (c : Ctx) (e : Expr) (es : List Expr) (env : List (String × Val)) (pt : Savepoint)
    (w : World) (env' : List (String × Val)) (w' : World) (h : rec c e [] pt w = .fail env' w') :
    evalChoice E rec c (e :: es) env pt w = evalChoice E rec c es env pt (rollback E w' w.state) := by
  simp [evalChoice, h]

theorem C01_law_choice_empty_fails (c : Ctx) (env : List (String × Val)) (pt : Savepoint) (w : World) :
    evalChoice E rec c [] env pt w = .fail env w := rfl

/-- **sequence**: the first failing item fails the whole sequence; the state store is the one from
    before the sequence -/
theorem C01_law_seq_fails_at_first_failure (c : Ctx) (st0 : Store) (e : Expr) (es : List Expr) (env : List (String × Val))
    (pt : Savepoint) (w : World) (acc : List Val) (env' : List (String × Val)) (w' : World)
    (h : rec c e env pt w = .fail env' w') :
    evalSeq E rec c st0 (e :: es) env pt w acc = .fail env' (rollback E w' st0) := by
  simp [evalSeq, h]

/-- ... a matching item hands its end position, its label bindings and its world to the next one,
    and contributes one element to the value -/
theorem C01_law_seq_continues (c : Ctx) (st0 : Store) (e : Expr) (es : List Expr) (env : List (String × Val))
    (pt : Savepoint) (w : World) (acc : List Val) (v : Val) (pt' : Savepoint) (env' : List (String × Val)) (w' : World)
    (h : rec c e env pt w = .ok v pt' env' w') :
    evalSeq E rec c st0 (e :: es) env pt w acc = evalSeq E rec c st0 es env' pt' w' (v :: acc) := by
  simp [evalSeq, h]

theorem C01_law_seq_empty_matches (c : Ctx) (st0 : Store) (env : List (String × Val)) (pt : Savepoint) (w : World) (acc : List Val) :
    evalSeq E rec c st0 [] env pt w acc = .ok (.list acc.reverse) pt env w := rfl

/-- **greedy repetition**: an iteration that matches is always taken (no backtracking into `*`/`+`) -/
theorem C01_law_loop_takes_every_match (c : Ctx) (e : Expr) (k : Nat) (env : List (String × Val)) (pt : Savepoint) (w : World)
    (acc : List Val) (v : Val) (pt' : Savepoint) (env' : List (String × Val)) (w' : World)
    (h : rec c e [] pt w = .ok v pt' env' w') :
    evalLoop rec c e (k + 1) env pt w acc = evalLoop rec c e k env pt' w' (v :: acc) := by
  simp [evalLoop, h]

/-- ... and it stops at the first iteration that fails, at the position before that iteration -/
theorem C01_law_loop_stops_at_failure (c : Ctx) (e : Expr) (k : Nat) (env : List (String × Val)) (pt : Savepoint) (w : World)
    (acc : List Val) (env' : List (String × Val)) (w' : World) (h : rec c e [] pt w = .fail env' w') :
    evalLoop rec c e (k + 1) env pt w acc =
      (if acc.isEmpty then .fail env w' else .ok (.list acc.reverse) pt env w') := by
  simp [evalLoop, h]

/-- `e*` never fails: zero iterations give the empty list at the same position -/
theorem C01_law_star_of_failing_body (k id : Nat) (c : Ctx) (e : Expr) (env : List (String × Val)) (pt : Savepoint) (w : World)
    (env' : List (String × Val)) (w' : World) (h : rec c e [] pt w = .fail env' w') :
    evalStep E rec (k + 1) c (.zeroOrMore id e) env pt w = .ok (.list []) pt env w' := by
  simp [evalStep, evalLoop, h]

/-- `e?` never fails: `nil` at the same position when `e` does not match -/
theorem C01_law_opt_of_failing_body (k id : Nat) (c : Ctx) (e : Expr) (env : List (String × Val)) (pt : Savepoint) (w : World)
    (env' : List (String × Val)) (w' : World) (h : rec c e [] pt w = .fail env' w') :
    evalStep E rec k c (.zeroOrOne id e) env pt w = .ok .nil pt env w' := by
  simp [evalStep, h]

/-- `&e` matches exactly when `e` does, `!e` exactly when it does not; both consume nothing, yield
    nil, bind nothing, and leave the state store as it was before. (The operand of `!` is evaluated with
    the negation parity flipped: the parity only labels the terminal attempts in the ghost log used by C12,
    nothing in the semantics reads it.) -/
theorem C01_law_and_pred (k id : Nat) (c : Ctx) (e : Expr) (env : List (String × Val)) (pt : Savepoint) (w : World)
    (v : Val) (pt' : Savepoint) (env' : List (String × Val)) (w' : World) (h : rec c e [] pt w = .ok v pt' env' w') :
    evalStep E rec k c (.and id e) env pt w = .ok .nil pt env (rollback E w' w.state) := by
  simp [evalStep, h]

theorem C01_law_and_pred_fails (k id : Nat) (c : Ctx) (e : Expr) (env : List (String × Val)) (pt : Savepoint) (w : World)
    (env' : List (String × Val)) (w' : World) (h : rec c e [] pt w = .fail env' w') :
    evalStep E rec k c (.and id e) env pt w = .fail env (rollback E w' w.state) := by
  simp [evalStep, h]

theorem C01_law_not_pred (k id : Nat) (c : Ctx) (e : Expr) (env : List (String × Val)) (pt : Savepoint) (w : World)
    (env' : List (String × Val)) (w' : World) (h : rec { c with neg := !c.neg } e [] pt w = .fail env' w') :
    evalStep E rec k c (.not id e) env pt w = .ok .nil pt env (rollback E w' w.state) := by
  simp [evalStep, h]

theorem C01_law_not_pred_fails (k id : Nat) (c : Ctx) (e : Expr) (env : List (String × Val)) (pt : Savepoint) (w : World)
    (v : Val) (pt' : Savepoint) (env' : List (String × Val)) (w' : World)
    (h : rec { c with neg := !c.neg } e [] pt w = .ok v pt' env' w') :
    evalStep E rec k c (.not id e) env pt w = .fail env (rollback E w' w.state) := by
  simp [evalStep, h]

/-- a labelled expression yields the labelled value and adds exactly one binding to the scope -/
theorem C01_law_labeled_binds (k id : Nat) (l : String) (hl : l ≠ "") (c : Ctx) (e : Expr) (env : List (String × Val))
    (pt : Savepoint) (w : World) (v : Val) (pt' : Savepoint) (env' : List (String × Val)) (w' : World)
    (h : rec c e [] pt w = .ok v pt' env' w') :
    evalStep E rec k c (.labeled id l e) env pt w = .ok v pt' ((l, v) :: env) w' := by
  simp [evalStep, h, hl]

/-- the any matcher and classes never match at end of input -/
theorem C01_law_any_fails_at_eof (k id : Nat) (c : Ctx) (env : List (String × Val)) (pt : Savepoint) (w : World)
    (h : atEOF pt = true) : evalStep E rec k c (.any id) env pt w = .fail env (note c pt.pos "." false w) := by
  simp [evalStep, h]


/-! ### the documented value shapes, read off the specification

  What `Parse` returns for each kind of expression (doc.go, "Returned values"): the exact matched input bytes for a terminal, nil for
  a predicate, one element per item for a sequence and per iteration for `*` / `+`, nil or the operand's value for `?`, the chosen
  alternative's value for a choice (laws above), the block's return value for an action. Stated for an arbitrary semantics `rec` of the
  sub-expressions; by `C01_runtime_is_peg` they are facts about the runtime in the plain configuration. -/

theorem ite_res {C : Prop} [Decidable C] {a b r : Res} (h : (if C then a else b) = r) : (C ∧ a = r) ∨ (¬C ∧ b = r) := by
  split at h
  · exact Or.inl ⟨‹C›, h⟩
  · exact Or.inr ⟨‹¬C›, h⟩

/-- **terminals return the exact matched input bytes**: a literal, a class or `.` that matches from `pt` to `pt'` has the value
    `input[pt.off, pt'.off)` - the bytes of the input, not the bytes of the grammar (`"K"i` on `k` returns `k`; a stray byte matched
    by U+FFFD is returned as that byte) - and binds nothing -/
theorem C01_shape_terminal (k : Nat) (c : Ctx) (e : Expr) (env env' : List (String × Val)) (pt pt' : Savepoint) (w w' : World) (v : Val)
    (hk : (∃ id val ic want, e = .lit id val ic want) ∨ (∃ id, e = .any id) ∨ (∃ id cd, e = .cls id cd))
    (h : evalStep E rec k c e env pt w = .ok v pt' env' w') : v = .bytes (slice E pt pt') ∧ env' = env := by
  rcases hk with ⟨id, val, ic, want, rfl⟩ | ⟨id, rfl⟩ | ⟨id, cd, rfl⟩
  · simp only [evalStep] at h
    cases hl : evalLit E c ic val pt w with
    | mk o w1 =>
      rw [hl] at h
      cases o with
      | none => cases h
      | some pt1 => simp only [Res.ok.injEq] at h; exact ⟨by rw [← h.1, h.2.1], h.2.2.1.symm⟩
  · simp only [evalStep] at h
    rcases ite_res h with ⟨_, h⟩ | ⟨_, h⟩
    · cases h
    · simp only [Res.ok.injEq] at h; exact ⟨by rw [← h.1, h.2.1], h.2.2.1.symm⟩
  · simp only [evalStep] at h
    rcases ite_res h with ⟨_, h⟩ | ⟨_, h⟩
    · simp only [Res.ok.injEq] at h; exact ⟨by rw [← h.1, h.2.1], h.2.2.1.symm⟩
    · cases h

/-- **predicates return nil and consume nothing** (`&e`, `!e`, `&{…}`, `!{…}`) and bind nothing -/
theorem C01_shape_predicate (k : Nat) (c : Ctx) (e : Expr) (env env' : List (String × Val)) (pt pt' : Savepoint) (w w' : World) (v : Val)
    (hk : (∃ id e1, e = .and id e1) ∨ (∃ id e1, e = .not id e1) ∨ (∃ id b, e = .andCode id b) ∨ (∃ id b, e = .notCode id b))
    (h : evalStep E rec k c e env pt w = .ok v pt' env' w') : v = .nil ∧ pt' = pt ∧ env' = env := by
  rcases hk with ⟨id, e1, rfl⟩ | ⟨id, e1, rfl⟩ | ⟨id, b, rfl⟩ | ⟨id, b, rfl⟩
  · simp only [evalStep] at h
    cases hr : rec c e1 [] pt w with
    | ok v1 pt1 env1 w1 => rw [hr] at h; simp only [Res.ok.injEq] at h; exact ⟨h.1.symm, h.2.1.symm, h.2.2.1.symm⟩
    | fail env1 w1 => rw [hr] at h; cases h
    | oof => rw [hr] at h; cases h
    | panic p w1 => rw [hr] at h; cases h
  · simp only [evalStep] at h
    cases hr : rec { c with neg := !c.neg } e1 [] pt w with
    | ok v1 pt1 env1 w1 => rw [hr] at h; cases h
    | fail env1 w1 => rw [hr] at h; simp only [Res.ok.injEq] at h; exact ⟨h.1.symm, h.2.1.symm, h.2.2.1.symm⟩
    | oof => rw [hr] at h; cases h
    | panic p w1 => rw [hr] at h; cases h
  · simp only [evalStep] at h
    cases hp : (call E b env pt w).1.panic with
    | some p => rw [hp] at h; cases h
    | none =>
      rw [hp] at h
      rcases ite_res h with ⟨_, h⟩ | ⟨_, h⟩
      · simp only [Res.ok.injEq] at h; exact ⟨h.1.symm, h.2.1.symm, h.2.2.1.symm⟩
      · cases h
  · simp only [evalStep] at h
    cases hp : (call E b env pt w).1.panic with
    | some p => rw [hp] at h; cases h
    | none =>
      rw [hp] at h
      rcases ite_res h with ⟨_, h⟩ | ⟨_, h⟩
      · simp only [Res.ok.injEq] at h; exact ⟨h.1.symm, h.2.1.symm, h.2.2.1.symm⟩
      · cases h

/-- the values a sequence collects: one per item, in order, after what was collected before -/
theorem evalSeq_shape (c : Ctx) (st0 : Store) : ∀ (es : List Expr) (env : List (String × Val)) (pt : Savepoint) (w : World) (acc : List Val)
    (v : Val) (pt' : Savepoint) (env' : List (String × Val)) (w' : World),
    evalSeq E rec c st0 es env pt w acc = .ok v pt' env' w' → ∃ vs, v = .list (acc.reverse ++ vs) ∧ vs.length = es.length
  | [], env, pt, w, acc, v, pt', env', w', h => by
    simp only [evalSeq, Res.ok.injEq] at h
    exact ⟨[], by simp [h.1.symm], rfl⟩
  | e :: es, env, pt, w, acc, v, pt', env', w', h => by
    simp only [evalSeq] at h
    cases hr : rec c e env pt w with
    | ok v1 pt1 env1 w1 =>
      rw [hr] at h
      obtain ⟨vs, hv, hl⟩ := evalSeq_shape c st0 es env1 pt1 w1 (v1 :: acc) v pt' env' w' h
      exact ⟨v1 :: vs, by simp [hv], by simp [hl]⟩
    | fail env1 w1 => rw [hr] at h; cases h
    | oof => rw [hr] at h; cases h
    | panic p w1 => rw [hr] at h; cases h

/-- **a sequence returns one element per item** -/
theorem C01_shape_sequence (k : Nat) (c : Ctx) (id : Nat) (es : List Expr) (env env' : List (String × Val)) (pt pt' : Savepoint)
    (w w' : World) (v : Val) (h : evalStep E rec k c (.seq id es) env pt w = .ok v pt' env' w') :
    ∃ vs, v = .list vs ∧ vs.length = es.length := by
  simp only [evalStep] at h
  obtain ⟨vs, hv, hl⟩ := evalSeq_shape E rec c w.state es env pt w [] v pt' env' w' h
  exact ⟨vs, by simpa using hv, hl⟩

/-- the iterations of a greedy repetition from `pt`: each is one successful evaluation of the body in a fresh scope, starting where
    the previous one ended; the list ends at the first evaluation that fails -/
inductive Iterations (c : Ctx) (e : Expr) : Savepoint → World → List Val → Savepoint → Prop
  | stop {pt : Savepoint} {w : World} {env' : List (String × Val)} {w' : World} :
      rec c e [] pt w = .fail env' w' → Iterations c e pt w [] pt
  | more {pt pt1 pt' : Savepoint} {w w1 : World} {v1 : Val} {env1 : List (String × Val)} {vs : List Val} :
      rec c e [] pt w = .ok v1 pt1 env1 w1 → Iterations c e pt1 w1 vs pt' → Iterations c e pt w (v1 :: vs) pt'

theorem evalLoop_shape (c : Ctx) (e : Expr) : ∀ (k : Nat) (env : List (String × Val)) (pt : Savepoint) (w : World) (acc : List Val)
    (v : Val) (pt' : Savepoint) (env' : List (String × Val)) (w' : World),
    evalLoop rec c e k env pt w acc = .ok v pt' env' w' →
      ∃ vs, v = .list (acc.reverse ++ vs) ∧ Iterations rec c e pt w vs pt'
  | 0, _, _, _, _, _, _, _, _, h => by simp [evalLoop] at h
  | k + 1, env, pt, w, acc, v, pt', env', w', h => by
    simp only [evalLoop] at h
    cases hr : rec c e [] pt w with
    | ok v1 pt1 env1 w1 =>
      rw [hr] at h
      obtain ⟨vs, hv, hi⟩ := evalLoop_shape c e k env pt1 w1 (v1 :: acc) v pt' env' w' h
      exact ⟨v1 :: vs, by simp [hv], .more hr hi⟩
    | fail env1 w1 =>
      rw [hr] at h
      rcases ite_res h with ⟨_, h⟩ | ⟨_, h⟩
      · cases h
      · simp only [Res.ok.injEq] at h
        exact ⟨[], by simp [h.1.symm], h.2.1 ▸ .stop hr⟩
    | oof => rw [hr] at h; cases h
    | panic p w1 => rw [hr] at h; cases h

/-- **`e+` returns one element per iteration**: the list of the values of the successive matches of `e`, each starting where the
    previous one ended, up to the first position where `e` fails (where the repetition ends) -/
theorem C01_shape_one_or_more (k : Nat) (c : Ctx) (id : Nat) (e : Expr) (env env' : List (String × Val)) (pt pt' : Savepoint)
    (w w' : World) (v : Val) (h : evalStep E rec k c (.oneOrMore id e) env pt w = .ok v pt' env' w') :
    ∃ vs, v = .list vs ∧ vs ≠ [] ∧ Iterations rec c e pt w vs pt' := by
  simp only [evalStep] at h
  obtain ⟨vs, hv, hi⟩ := evalLoop_shape rec c e k env pt w [] v pt' env' w' h
  refine ⟨vs, by simpa using hv, ?_, hi⟩
  rintro rfl
  cases hi with
  | stop hr =>
    cases k with
    | zero => simp [evalLoop] at h
    | succ k => simp [evalLoop, hr] at h

/-- **`e*` returns one element per iteration** (the empty list when `e` does not match at all) -/
theorem C01_shape_zero_or_more (k : Nat) (c : Ctx) (id : Nat) (e : Expr) (env env' : List (String × Val)) (pt pt' : Savepoint)
    (w w' : World) (v : Val) (h : evalStep E rec k c (.zeroOrMore id e) env pt w = .ok v pt' env' w') :
    ∃ vs, v = .list vs ∧ Iterations rec c e pt w vs pt' := by
  simp only [evalStep] at h
  cases hl : evalLoop rec c e k env pt w [] with
  | ok v1 pt1 env1 w1 =>
    rw [hl] at h
    simp only [Res.ok.injEq] at h
    obtain ⟨vs, hv, hi⟩ := evalLoop_shape rec c e k env pt w [] v1 pt1 env1 w1 hl
    exact ⟨vs, by rw [← h.1]; simpa using hv, h.2.1 ▸ hi⟩
  | fail env1 w1 =>
    rw [hl] at h
    simp only [Res.ok.injEq] at h
    -- the loop fails only when the FIRST evaluation of the body fails
    cases k with
    | zero => simp [evalLoop] at hl
    | succ k =>
      simp only [evalLoop] at hl
      cases hr : rec c e [] pt w with
      | ok v1 pt1 env2 w2 =>
        rw [hr] at hl
        exfalso
        have : ∀ (k : Nat) (pt : Savepoint) (w : World) (acc : List Val), acc ≠ [] →
            ∀ env1 w1, evalLoop rec c e k env pt w acc ≠ .fail env1 w1 := by
          intro k
          induction k with
          | zero => intro _ _ _ _ _ _ hh; simp [evalLoop] at hh
          | succ k ih =>
            intro pt w acc hne env1 w1 hh
            simp only [evalLoop] at hh
            cases hr2 : rec c e [] pt w with
            | ok v2 pt2 env3 w3 => rw [hr2] at hh; exact ih _ _ _ (by simp) _ _ hh
            | fail env3 w3 =>
              rw [hr2] at hh
              rcases ite_res hh with ⟨he, _⟩ | ⟨_, hh⟩
              · simp at he; exact hne he
              · cases hh
            | oof => rw [hr2] at hh; cases hh
            | panic p w3 => rw [hr2] at hh; cases hh
        exact this k pt1 w2 [v1] (by simp) env1 w1 hl
      | fail env2 w2 => exact ⟨[], h.1.symm, h.2.1 ▸ .stop hr⟩
      | oof => rw [hr] at hl; cases hl
      | panic p w2 => rw [hr] at hl; cases hl
  | oof => rw [hl] at h; cases h
  | panic p w1 => rw [hl] at h; cases h

/-- **`e?` returns nil or the operand's value**: the operand's value and end position when it matches, nil at the same position
    when it does not -/
theorem C01_shape_optional (k : Nat) (c : Ctx) (id : Nat) (e : Expr) (env env' : List (String × Val)) (pt pt' : Savepoint)
    (w w' : World) (v : Val) (h : evalStep E rec k c (.zeroOrOne id e) env pt w = .ok v pt' env' w') :
    (∃ env1, rec c e [] pt w = .ok v pt' env1 w') ∨ (v = .nil ∧ pt' = pt ∧ ∃ env1, rec c e [] pt w = .fail env1 w') := by
  simp only [evalStep] at h
  cases hr : rec c e [] pt w with
  | ok v1 pt1 env1 w1 =>
    rw [hr] at h
    simp only [Res.ok.injEq] at h
    exact Or.inl ⟨env1, by rw [h.1, h.2.1, h.2.2.2]⟩
  | fail env1 w1 =>
    rw [hr] at h
    simp only [Res.ok.injEq] at h
    exact Or.inr ⟨h.1.symm, h.2.1.symm, env1, by rw [h.2.2.2]⟩
  | oof => rw [hr] at h; cases h
  | panic p w1 => rw [hr] at h; cases h

/-- **an action returns what its code block returns**: when `e { code }` matches, its value is the return value of the call of the
    block in the scope `e` left, with `text` = the bytes `e` matched and `pos` = where it started -/
theorem C01_shape_action (k : Nat) (c : Ctx) (id blk : Nat) (e : Expr) (env env' : List (String × Val)) (pt pt' : Savepoint)
    (w w' : World) (v : Val) (h : evalStep E rec k c (.action id blk e) env pt w = .ok v pt' env' w') :
    ∃ v1 w1, rec c e env pt w = .ok v1 pt' env' w1 ∧
      v = (call E blk env' pt' { w1 with curPos := pt.pos, curText := slice E pt pt' }).1.ret := by
  simp only [evalStep] at h
  cases hr : rec c e env pt w with
  | ok v1 pt1 env1 w1 =>
    rw [hr] at h
    simp only [] at h
    cases hp : (call E blk env1 pt1 { w1 with curPos := pt.pos, curText := slice E pt pt1 }).1.panic with
    | some p => rw [hp] at h; cases h
    | none =>
      rw [hp] at h
      simp only [Res.ok.injEq] at h
      obtain ⟨h1, h2, h3, _⟩ := h
      subst h2 h3
      exact ⟨v1, w1, rfl, h1.symm⟩
  | fail env1 w1 => rw [hr] at h; cases h
  | oof => rw [hr] at h; cases h
  | panic p w1 => rw [hr] at h; cases h

end Spec
end PV
