/-
  C01 — generated parsers implement PEG matching (part proved so far on the full runtime model:
  "an expression that fails consumes nothing") and, for the plain configuration, the refinement
  theorem: the runtime model computes exactly the PEG specification `Spec.eval` (Spec/Peg.lean).
-/
import PigeonVerif.Proofs.StoreLemmas
import PigeonVerif.Proofs.Refine
import PigeonVerif.Properties.C02
import PigeonVerif.Proofs.SpecMono
import PigeonVerif.Proofs.FuelMono

namespace PV
namespace RT

/-- **C01 (a)** An expression that fails consumes nothing: the input offset after a failed
    expression is the offset before it — for every expression kind, with memoization and
    left recursion. -/
theorem C01_fail_consumes_nothing (E : Env) (f : Nat) (e : Expr) (s s' : PState) (v : Val)
    (hm : MemoOK s) (h : parseExpr E f e s = .done v false s') : s'.pt.pos.off = s.pt.pos.off := by
  have := parseExpr_frame E f e s hm
  rw [h] at this
  exact this.failOff rfl

/-- the same with the whole savepoint (line, column, current rune): the parser is exactly where it was -/
theorem C01_fail_restores_position (E : Env) (f : Nat) (e : Expr) (s s' : PState) (v : Val)
    (hm : MemoOK s) (hp : PtInv E s) (h : parseExpr E f e s = .done v false s') : s'.pt = s.pt := by
  have hfr := parseExpr_frame E f e s hm
  rw [h] at hfr
  exact Reach.unique (hfr.stk.ptinv hp).1 hp.1 (hfr.failOff rfl)

/-- **C01 (b)** `&e` and `!e` consume nothing whether they match or not. -/
theorem C01_predicates_consume_nothing (E : Env) (f : Nat) (id : Nat) (e1 : Expr) (s s' : PState)
    (v : Val) (ok : Bool)
    (h : parseExpr E (f + 1) (.and id e1) s = .done v ok s' ∨
         parseExpr E (f + 1) (.not id e1) s = .done v ok s') :
    s'.pt.pos.off = s.pt.pos.off ∧ v = .nil := by
  rcases h with h | h
  · obtain ⟨_, hb⟩ := parseExpr_succ h
    simp only [parseExprBody, parseAnd] at hb
    revert hb
    generalize parseExprWrap E (parseExpr E f) e1 (pushV (bump s)) = o
    cases o with
    | oof => simp [Outcome.bind]
    | panic p s1 => simp [Outcome.bind]
    | done v1 ok1 s1 =>
      simp only [Outcome.bind]
      intro hb; injection hb with h1 h2 h3
      subst h1 h3; simp
  · obtain ⟨_, hb⟩ := parseExpr_succ h
    simp only [parseExprBody, parseNot] at hb
    revert hb
    generalize parseExprWrap E (parseExpr E f) e1 _ = o
    cases o with
    | oof => simp [Outcome.bind]
    | panic p s1 => simp [Outcome.bind]
    | done v1 ok1 s1 =>
      simp only [Outcome.bind]
      intro hb; injection hb with h1 h2 h3
      subst h1 h3; simp

/-! ### the runtime is the PEG specification -/

/-- **C01 (c) — refinement.** With default options apart from the ones the specification does not
    describe (no `Memoize`, no `MaxExpressions`, no left-recursive rules), for EVERY grammar, code
    environment, input, depth, expression and reachable parser state, `parseExpr` returns what the
    PEG specification `Spec.eval` prescribes: success or failure; on success the value, the end
    position and the labels in scope; in both cases the world — state store, global store, recorded
    errors, and the complete sequence of code-block invocations with the position, text, arguments
    and stores each of them saw. All PEG laws (ordered choice, greedy repetition without
    backtracking into it, predicates consuming nothing, failure restoring position and state,
    literal and class matching rune by rune, recovery through the innermost handler) are read off
    the 150-line specification instead of the 700-line runtime model. -/
theorem C01_runtime_is_peg (E : Env) (hp : Plain E) (f : Nat) (e : Expr) (s : PState) (hg : Good E s) :
    abs (parseExpr E f e s) = Spec.eval E f (ctxOf s) e (envOf s) s.pt (absW s) :=
  parseExpr_refines hp f e s hg

/-- the state in which `parse` evaluates the start rule is one the theorem applies to (its
    hypotheses are met by every run, not by no run) -/
theorem C01_start_is_good (E : Env) (r : Rule) : Good E (pushV { startState E with rstack := [r] }) :=
  ⟨by simp [pushV], (startState_ptinv E).congr rfl rfl,
   fun e he => by simp [pushV, startState, initState] at he⟩

/-- **C01 (d) — whole parse.** The outcome `parse` hands to its result contract is the start rule
    evaluated by the specification: `Spec.parse` (first read, then `Spec.eval` of the entry rule's
    expression in an empty label scope) is the abstraction of what the runtime computed. -/
theorem C01_parse_is_peg (E : Env) (hp : Plain E) (fuel : Nat) (first : Rule) (rest : List Rule)
    (hr : E.rules = first :: rest) (r : Rule) (hf : E.findRule (entryName E first) = some r) :
    Spec.parse E fuel = some (abs (parseExpr E fuel r.expr (pushV { startState E with rstack := [r] }))) ∧
    parse E fuel = finish E (parseRule E (parseExpr E fuel) r (startState E)) := by
  constructor
  · unfold Spec.parse
    simp only [hr, hf]
    rw [C01_runtime_is_peg E hp fuel r.expr _ (C01_start_is_good E r)]
    have h := read_advance E (initState E)
    have h1 : Spec.advance E { rule := none, handlers := [] } pt0
        { state := if E.useState then E.opts.initState else [], global := E.opts.initGlobal, errs := [],
          curPos := { line := 0, col := 0, off := 0 }, curText := [], nCalls := 0, trace := [] } =
        ((read E (initState E)).pt, absW (read E (initState E))) := h.symm
    rw [h1]
    have c1 : ctxOf (pushV { startState E with rstack := [r] }) = { rule := some r, handlers := [] } := by
      simp [ctxOf, pushV, startState, initState]
    have c2 : envOf (pushV { startState E with rstack := [r] }) = [] := rfl
    have c3 : (pushV { startState E with rstack := [r] }).pt = (read E (initState E)).pt := rfl
    have c4 : absW (pushV { startState E with rstack := [r] }) = absW (read E (initState E)) := rfl
    rw [c1, c2, c3, c4]
  · unfold parse
    simp only [hr, hf]
    rw [ruleWrap_eq hp fuel _ r hf]

/-- **C01 (e)** the specification is a partial FUNCTION: whatever fuel makes `Spec.eval` answer, the
    answer is the same (`Spec.eval_mono`), so an expression has at most one result -/
theorem C01_spec_result_unique (E : Env) (c : Spec.Ctx) (e : Expr) (env : List (String × Val)) (pt : Savepoint)
    (w : Spec.World) (r1 r2 : Spec.Res) (h1 : Spec.Evaluates E c e env pt w r1) (h2 : Spec.Evaluates E c e env pt w r2) :
    r1 = r2 := h1.unique h2

/-- ... and so is the runtime, in every configuration (memoization, left recursion, budget) -/
theorem C01_runtime_result_unique (E : Env) (e : Expr) (s : PState) (o1 o2 : Outcome)
    (h1 : Parses E e s o1) (h2 : Parses E e s o2) : o1 = o2 := h1.unique h2

/-- `Plain` is satisfiable (the theorem is not vacuous): any environment without memoization, budget
    and left-recursion flags -/
example (E : Env) (h1 : E.opts.memoize = false) (h2 : E.opts.maxExpr = none)
    (h3 : ∀ n r, E.findRule n = some r → r.leftRecursive = false ∧ r.leader = false) : Plain E := ⟨h1, h2, h3⟩

end RT
end PV

/-! ### the laws of PEG matching, read off the specification

  `Spec.eval` is short enough to read, and these are the laws a PEG user relies on, stated for an
  arbitrary semantics `rec` of the sub-expressions (so at every depth). By `C01_runtime_is_peg` they
  are laws of the runtime in the plain configuration. -/

namespace PV
namespace Spec

variable (E : Env) (rec : Ctx → Expr → List (String × Val) → Savepoint → World → Res)

/-- **ordered choice commits to the first alternative that matches**: later alternatives are not
    looked at, the value and the end position are that alternative's, labels bound inside it are
    not visible outside -/
theorem C01_law_choice_first_match (c : Ctx) (e : Expr) (es : List Expr) (env : List (String × Val)) (pt : Savepoint)
    (w : World) (v : Val) (pt' : Savepoint) (env' : List (String × Val)) (w' : World)
    (h : rec c e [] pt w = .ok v pt' env' w') :
    evalChoice E rec c (e :: es) env pt w = .ok v pt' env w' := by
  simp [evalChoice, h]

/-- ... and when the first alternative fails the choice is the choice of the rest, evaluated at the
    SAME position with the state store rolled back (errors recorded meanwhile stay) -/
theorem C01_law_choice_skip_failed (c : Ctx) (e : Expr) (es : List Expr) (env : List (String × Val)) (pt : Savepoint)
    (w : World) (env' : List (String × Val)) (w' : World) (h : rec c e [] pt w = .fail env' w') :
    evalChoice E rec c (e :: es) env pt w = evalChoice E rec c es env pt (rollback E w' w.state) := by
  simp [evalChoice, h]

theorem C01_law_choice_empty_fails (c : Ctx) (env : List (String × Val)) (pt : Savepoint) (w : World) :
    evalChoice E rec c [] env pt w = .fail env w := rfl

/-- **sequence**: the first failing item fails the whole sequence; the state store is the one from
    before the sequence -/
theorem C01_law_seq_fails_at_first_failure (c : Ctx) (st0 : Store) (e : Expr) (es : List Expr) (env : List (String × Val))
    (pt : Savepoint) (w : World) (acc : List Val) (env' : List (String × Val)) (w' : World)
    (h : rec c e env pt w = .fail env' w') :
    evalSeq E rec c st0 (e :: es) env pt w acc = .fail env' (rollback E w' st0) := by
  simp [evalSeq, h]

/-- ... a matching item hands its end position, its label bindings and its world to the next one,
    and contributes one element to the value -/
theorem C01_law_seq_continues (c : Ctx) (st0 : Store) (e : Expr) (es : List Expr) (env : List (String × Val))
    (pt : Savepoint) (w : World) (acc : List Val) (v : Val) (pt' : Savepoint) (env' : List (String × Val)) (w' : World)
    (h : rec c e env pt w = .ok v pt' env' w') :
    evalSeq E rec c st0 (e :: es) env pt w acc = evalSeq E rec c st0 es env' pt' w' (v :: acc) := by
  simp [evalSeq, h]

theorem C01_law_seq_empty_matches (c : Ctx) (st0 : Store) (env : List (String × Val)) (pt : Savepoint) (w : World) (acc : List Val) :
    evalSeq E rec c st0 [] env pt w acc = .ok (.list acc.reverse) pt env w := rfl

/-- **greedy repetition**: an iteration that matches is always taken (no backtracking into `*`/`+`) -/
theorem C01_law_loop_takes_every_match (c : Ctx) (e : Expr) (k : Nat) (env : List (String × Val)) (pt : Savepoint) (w : World)
    (acc : List Val) (v : Val) (pt' : Savepoint) (env' : List (String × Val)) (w' : World)
    (h : rec c e [] pt w = .ok v pt' env' w') :
    evalLoop rec c e (k + 1) env pt w acc = evalLoop rec c e k env pt' w' (v :: acc) := by
  simp [evalLoop, h]

/-- ... and it stops at the first iteration that fails, at the position before that iteration -/
theorem C01_law_loop_stops_at_failure (c : Ctx) (e : Expr) (k : Nat) (env : List (String × Val)) (pt : Savepoint) (w : World)
    (acc : List Val) (env' : List (String × Val)) (w' : World) (h : rec c e [] pt w = .fail env' w') :
    evalLoop rec c e (k + 1) env pt w acc =
      (if acc.isEmpty then .fail env w' else .ok (.list acc.reverse) pt env w') := by
  simp [evalLoop, h]

/-- `e*` never fails: zero iterations give the empty list at the same position -/
theorem C01_law_star_of_failing_body (k id : Nat) (c : Ctx) (e : Expr) (env : List (String × Val)) (pt : Savepoint) (w : World)
    (env' : List (String × Val)) (w' : World) (h : rec c e [] pt w = .fail env' w') :
    evalStep E rec (k + 1) c (.zeroOrMore id e) env pt w = .ok (.list []) pt env w' := by
  simp [evalStep, evalLoop, h]

/-- `e?` never fails: `nil` at the same position when `e` does not match -/
theorem C01_law_opt_of_failing_body (k id : Nat) (c : Ctx) (e : Expr) (env : List (String × Val)) (pt : Savepoint) (w : World)
    (env' : List (String × Val)) (w' : World) (h : rec c e [] pt w = .fail env' w') :
    evalStep E rec k c (.zeroOrOne id e) env pt w = .ok .nil pt env w' := by
  simp [evalStep, h]

/-- `&e` matches exactly when `e` does, `!e` exactly when it does not; both consume nothing, yield
    nil, bind nothing, and leave the state store as it was before. (The operand of `!` is evaluated with
    the negation parity flipped: the parity only labels the terminal attempts in the ghost log used by C12,
    nothing in the semantics reads it.) -/
theorem C01_law_and_pred (k id : Nat) (c : Ctx) (e : Expr) (env : List (String × Val)) (pt : Savepoint) (w : World)
    (v : Val) (pt' : Savepoint) (env' : List (String × Val)) (w' : World) (h : rec c e [] pt w = .ok v pt' env' w') :
    evalStep E rec k c (.and id e) env pt w = .ok .nil pt env (rollback E w' w.state) := by
  simp [evalStep, h]

theorem C01_law_and_pred_fails (k id : Nat) (c : Ctx) (e : Expr) (env : List (String × Val)) (pt : Savepoint) (w : World)
    (env' : List (String × Val)) (w' : World) (h : rec c e [] pt w = .fail env' w') :
    evalStep E rec k c (.and id e) env pt w = .fail env (rollback E w' w.state) := by
  simp [evalStep, h]

theorem C01_law_not_pred (k id : Nat) (c : Ctx) (e : Expr) (env : List (String × Val)) (pt : Savepoint) (w : World)
    (env' : List (String × Val)) (w' : World) (h : rec { c with neg := !c.neg } e [] pt w = .fail env' w') :
    evalStep E rec k c (.not id e) env pt w = .ok .nil pt env (rollback E w' w.state) := by
  simp [evalStep, h]

theorem C01_law_not_pred_fails (k id : Nat) (c : Ctx) (e : Expr) (env : List (String × Val)) (pt : Savepoint) (w : World)
    (v : Val) (pt' : Savepoint) (env' : List (String × Val)) (w' : World)
    (h : rec { c with neg := !c.neg } e [] pt w = .ok v pt' env' w') :
    evalStep E rec k c (.not id e) env pt w = .fail env (rollback E w' w.state) := by
  simp [evalStep, h]

/-- a labelled expression yields the labelled value and adds exactly one binding to the scope -/
theorem C01_law_labeled_binds (k id : Nat) (l : String) (hl : l ≠ "") (c : Ctx) (e : Expr) (env : List (String × Val))
    (pt : Savepoint) (w : World) (v : Val) (pt' : Savepoint) (env' : List (String × Val)) (w' : World)
    (h : rec c e [] pt w = .ok v pt' env' w') :
    evalStep E rec k c (.labeled id l e) env pt w = .ok v pt' ((l, v) :: env) w' := by
  simp [evalStep, h, hl]

/-- the any matcher and classes never match at end of input -/
theorem C01_law_any_fails_at_eof (k id : Nat) (c : Ctx) (env : List (String × Val)) (pt : Savepoint) (w : World)
    (h : atEOF pt = true) : evalStep E rec k c (.any id) env pt w = .fail env (note c pt.pos "." false w) := by
  simp [evalStep, h]

end Spec
end PV
