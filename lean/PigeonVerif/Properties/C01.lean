/-
  C01 — generated parsers implement PEG matching (part proved so far on the full runtime model:
  "an expression that fails consumes nothing"; the refinement to the PEG specification is in
  Properties/C01Spec.lean).
-/
import PigeonVerif.Proofs.StoreLemmas

namespace PV
namespace RT

/-- **C01 (a)** An expression that fails consumes nothing: the input offset after a failed
    expression is the offset before it — for every expression kind, with memoization and
    left recursion. -/
theorem C01_fail_consumes_nothing (E : Env) (f : Nat) (e : Expr) (s s' : PState) (v : Val)
    (hm : MemoOK s) (h : parseExpr E f e s = .done v false s') : s'.pt.pos.off = s.pt.pos.off := by
  have := parseExpr_frame E f e s hm
  rw [h] at this
  exact this.failOff rfl

/-- the same with the whole savepoint (line, column, current rune): the parser is exactly where it was -/
theorem C01_fail_restores_position (E : Env) (f : Nat) (e : Expr) (s s' : PState) (v : Val)
    (hm : MemoOK s) (hp : PtInv E s) (h : parseExpr E f e s = .done v false s') : s'.pt = s.pt := by
  have hfr := parseExpr_frame E f e s hm
  rw [h] at hfr
  exact Reach.unique (hfr.stk.ptinv hp).1 hp.1 (hfr.failOff rfl)

/-- **C01 (b)** `&e` and `!e` consume nothing whether they match or not. -/
theorem C01_predicates_consume_nothing (E : Env) (f : Nat) (id : Nat) (e1 : Expr) (s s' : PState)
    (v : Val) (ok : Bool)
    (h : parseExpr E (f + 1) (.and id e1) s = .done v ok s' ∨
         parseExpr E (f + 1) (.not id e1) s = .done v ok s') :
    s'.pt.pos.off = s.pt.pos.off ∧ v = .nil := by
  rcases h with h | h
  · obtain ⟨_, hb⟩ := parseExpr_succ h
    simp only [parseExprBody, parseAnd] at hb
    revert hb
    generalize parseExprWrap E (parseExpr E f) e1 (pushV (bump s)) = o
    cases o with
    | oof => simp [Outcome.bind]
    | panic p s1 => simp [Outcome.bind]
    | done v1 ok1 s1 =>
      simp only [Outcome.bind]
      intro hb; injection hb with h1 h2 h3
      subst h1 h3; simp
  · obtain ⟨_, hb⟩ := parseExpr_succ h
    simp only [parseExprBody, parseNot] at hb
    revert hb
    generalize parseExprWrap E (parseExpr E f) e1 _ = o
    cases o with
    | oof => simp [Outcome.bind]
    | panic p s1 => simp [Outcome.bind]
    | done v1 ok1 s1 =>
      simp only [Outcome.bind]
      intro hb; injection hb with h1 h2 h3
      subst h1 h3; simp

end RT
end PV
