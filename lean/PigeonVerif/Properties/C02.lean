/-
  C02 — code blocks observe the true match context (text, pos, labels).
-/
import PigeonVerif.Proofs.StoreLemmas
import PigeonVerif.Proofs.CtxLog

namespace PV
namespace RT

/-- the context a block invocation receives, as recorded in the trace -/
theorem callBlock_event (E : Env) (blk : Nat) (s : PState) :
    ∃ ev, (callBlock E blk s).2.trace = ev :: s.trace ∧ ev.blk = blk ∧ ev.pos = s.curPos ∧
      ev.text = s.curText ∧ ev.pt = s.pt.pos ∧
      ev.args = (E.code.args blk).map (fun n => (lookup n (s.vstack.headD [])).getD .nil) := by
  exact ⟨_, rfl, rfl, rfl, rfl, rfl, rfl⟩

/-- **C02 (a)** An action block runs exactly when its expression has matched, and then it sees
    `pos` = the position at which the match started, `text` = the input bytes from the match start to
    the current offset, and as arguments the values bound to its labels in the innermost scope. -/
theorem C02_action_ctx (E : Env) (rec : Expr → PState → Outcome) (blk : Nat) (e1 : Expr) (s : PState) :
    match parseExprWrap E rec e1 s with
    | .done v false s1 => parseAction E rec blk e1 s = .done v false s1
    | .done _ true s1 =>
      ∃ ev rest, (callBlock E blk { s1 with curPos := s.pt.pos, curText := sliceFrom E s1 s.pt }).2.trace = ev :: rest ∧
        ev.pos = s.pt.pos ∧
        ev.text = (E.input.drop s.pt.pos.off).take (s1.pt.pos.off - s.pt.pos.off) ∧
        ev.args = (E.code.args blk).map (fun n => (lookup n (s1.vstack.headD [])).getD .nil)
    | _ => True := by
  cases h : parseExprWrap E rec e1 s with
  | oof => trivial
  | panic p s1 => trivial
  | done v ok s1 =>
    cases ok with
    | false => simp [parseAction, h, Outcome.bind]
    | true => exact ⟨_, _, rfl, rfl, rfl, rfl⟩

/-- an action whose expression fails is not run (the trace is the expression's) -/
theorem C02_action_not_run_on_failure (E : Env) (rec : Expr → PState → Outcome) (blk : Nat) (e1 : Expr)
    (s s1 : PState) (v : Val) (h : parseExprWrap E rec e1 s = .done v false s1) :
    parseAction E rec blk e1 s = .done v false s1 := by
  simp [parseAction, h, Outcome.bind]

/-- **C02 (c)** A code predicate's boolean alone decides: `&{…}` matches iff the block returns
    true, `!{…}` iff it returns false; the value is nil and nothing is consumed. -/
theorem C02_pred_bool_decides (E : Env) (blk : Nat) (s : PState)
    (hp : (callBlock E blk s).1.panic = none) :
    (∃ s', parseAndCode E blk s = .done .nil (callBlock E blk s).1.retB s' ∧ s'.pt = s.pt) ∧
    (∃ s', parseNotCode E blk s = .done .nil (!(callBlock E blk s).1.retB) s' ∧ s'.pt = s.pt) := by
  constructor
  · refine ⟨_, by simp [parseAndCode, runCodeBlock, hp]; rfl, by simp⟩
  · refine ⟨_, by simp [parseNotCode, runCodeBlock, hp]; rfl, by simp⟩

/-- **C02 (d)** a labelled expression binds its value in the enclosing scope when it matches -/
theorem C02_label_bound (E : Env) (rec : Expr → PState → Outcome) (label : String) (e1 : Expr)
    (s s1 : PState) (v : Val) (hl : label ≠ "") (hv : s.vstack ≠ [])
    (h : parseExprWrap E rec e1 (pushV s) = .done v true s1) (hs1 : s1.vstack.tail = s.vstack) :
    ∃ s', parseLabeled E rec label e1 s = .done v true s' ∧ lookup label (s'.vstack.headD []) = some v := by
  simp only [parseLabeled, h, Outcome.bind, hl, ne_eq, not_false_eq_true, decide_true, Bool.and_self, if_true]
  refine ⟨_, rfl, ?_⟩
  unfold setLabel
  simp only [popV_vstack, hs1]
  cases hvs : s.vstack with
  | nil => exact absurd hvs hv
  | cons m rest => simp [lookup]

/-- What predicate and state blocks see in the unchanged code (finding D2): NOT the current parser
    position and an empty text, but whatever `cur.pos` / `cur.text` the most recently executed
    action left (zero values before any action). The model reproduces the code here. -/
theorem C02_pred_ctx_is_stale (E : Env) (blk : Nat) (s : PState) :
    ∃ ev, (callBlock E blk s).2.trace = ev :: s.trace ∧ ev.pos = s.curPos ∧ ev.text = s.curText :=
  ⟨_, rfl, rfl, rfl⟩


/-- the state `parse` starts the start rule in satisfies the position invariant -/
theorem startState_ptinv (E : Env) : PtInv E (startState E) := by
  refine ⟨?_, fun e he => by simp [startState, initState] at he⟩
  show Reach E.input (read E (initState E)).pt
  rw [read_pt]
  exact Reach.first E.input

/-- **C02 (b)** line, col and offset are a pure function of the input and the byte offset, however
    much backtracking, memoised skipping or seed growing preceded: after evaluating any expression
    the parser's savepoint (and every memoized end position) is one of the positions the reader
    passes through when reading the input from the start … -/
theorem C02_position_reachable (E : Env) (f : Nat) (e : Expr) (s s' : PState) (v : Val) (ok : Bool)
    (hm : MemoOK s) (hp : PtInv E s) (h : parseExpr E f e s = .done v ok s') : PtInv E s' := by
  have := parseExpr_frame E f e s hm
  rw [h] at this
  exact this.stk.ptinv hp

/-- … and such a position is determined by its offset alone (offset counts bytes; line and column
    are what reading the bytes before it produces). In particular every action block that starts a
    match at a given offset sees the same `pos`, on every path that leads there. -/
theorem C02_pos_pure (E : Env) (a b : Savepoint) (ha : Reach E.input a) (hb : Reach E.input b)
    (h : a.pos.off = b.pos.off) : a.pos = b.pos ∧ a.rn = b.rn ∧ a.w = b.w := by
  have := Reach.unique ha hb h
  subst this; exact ⟨rfl, rfl, rfl⟩

/-! ### whole run: every block call sees the input at its position -/

/-- **C02 (e) — whole run, every configuration.** Whatever the grammar, code, template variant and options (Memoize, left
    recursion, a budget), input and depth: in the state the start rule returns (or panics in), EVERY block invocation
    recorded in the trace - action, predicate or state block, however much backtracking, memoised skipping or seed growing
    preceded it - was given a `text` that is the input at the byte offset of the `pos` it was given:
    `text = input[pos.offset, pos.offset + len(text))`. For actions `pos` is the match start and `text` the match
    (`C02_action_ctx`); predicate and state blocks get what the last action left (finding D2), still a piece of the input at
    that place. Proof: `Proofs/CtxLog.lean`, one induction over all node kinds and wrappers. -/
theorem C02_every_block_sees_the_input_at_its_position (E : Env) (fuel : Nat) (r : Rule) :
    match parseRuleWrap E (parseExpr E fuel) fuel r (startState E) with
    | .done _ _ s' => ∀ ev ∈ s'.trace, ev.text = (E.input.drop ev.pos.off).take ev.text.length
    | .panic _ s' => ∀ ev ∈ s'.trace, ev.text = (E.input.drop ev.pos.off).take ev.text.length
    | .oof => True := by
  have h := ruleWrap_ci (parseExpr_ci E fuel) fuel r (startState E) (startState_ci E)
  revert h
  generalize parseRuleWrap E (parseExpr E fuel) fuel r (startState E) = o
  cases o with
  | oof => intro _; trivial
  | done v ok s' => intro h; exact h.2
  | panic p s' => intro h; exact h.2

end RT
end PV
