/-
  C03 — the grammar front-end accepts the documented syntax and builds the denoted AST.

  What of C03 is a theorem, and about which code:

  * `Model/ClassParse.lean` is a model of `(*ast.CharClassMatcher).parse` (ast/ast.go), the function that turns the text of
    a character class into the descriptor every later stage uses (flags, characters, ranges, Unicode class names): one Lean
    function per phase, byte-faithful (UTF-8 decoding as `strings.Reader.ReadRune`, `strconv.UnquoteChar` with its error
    cases). It is tied to the code by execution: `harness/cmd/pvclass` runs the real `ast.NewCharClassMatcher` and
    `pvdriver` the model on the same generated class texts (every escape form, ranges and dashes in every position, `\p`
    classes, `^`, `i`, stray bytes, truncations) and the descriptors are compared field by field on every run.
  * `C03_class_parse_roundtrip` (proof in `Proofs/ClassRoundTrip.lean`): PRINTING A CLASS BACK TO TEXT AND RE-PARSING YIELDS
    THE SAME CLASS, for every descriptor - any number of characters, ranges and class names, both flags, `-` anywhere.
    (Finding D3 - an escaped `-` read as the range operator - made this false; it was repaired with a `fix:` commit, after
    which the hypothesis "no single `-`" disappeared from the theorem: `C03_D3_escaped_dash_is_a_character`.)
  * `C03_class_extraction_roundtrip` (C03Base.lean): the same for the extraction phase alone, on decoded runes.

  The universal round trip over all ASTs and layouts is decided by execution (`harness/cmd/pvfront`: generated ASTs printed
  in random spellings, parsed by the real front-end through the verif hook, compared node by node incl. positions), and the
  acceptance / diagnostics of the real tool are predicted by the runtime model run on the regenerated tables of
  `grammar/pigeon.peg` (`pv/front_model.py`).
-/
import PigeonVerif.Proofs.ClassRoundTrip
import PigeonVerif.Proofs.ClassRoundTrip2

namespace PV
namespace ClassParse

/-- **C03 — class round trip, whole function.** For every class descriptor - ignore-case flag, inverted flag, any list of
    Unicode class names, of single characters and of ranges - whose characters and range bounds are valid code points and
    whose class names are ASCII without `}`: the model of `(*ast.CharClassMatcher).parse` reads the canonical spelling
    `spell` (every code point as `\UXXXXXXXX`, the range operator plain) back as exactly that descriptor. No hypothesis
    about `-`: a `-` among the characters or as a range bound is read back as what it was (repair of finding D3). -/
theorem C03_class_parse_roundtrip (ic inv : Bool) (ns : List (List Rune)) (cs : List Rune) (rs : List (Rune × Rune))
    (hn : ∀ n ∈ ns, NameOK n) (hc : ∀ c ∈ cs, validRune c = true)
    (hr : ∀ p ∈ rs, validRune p.1 = true ∧ validRune p.2 = true) :
    parse (spell ic inv ns cs rs) =
      some { ignoreCase := ic, inverted := inv, chars := cs, ranges := flat rs, classes := ns } :=
  parse_spell ic inv ns cs rs hn hc hr

/-- **C03 — class round trip, members in any order.** For every SEQUENCE of members — Unicode class names, single characters,
    ranges, interleaved in any way, as a user writes a class and as a printer of the AST writes it — with valid code points and
    well-formed names, and both flags: the model of `(*ast.CharClassMatcher).parse` reads the spelling `spell2` (characters and
    range bounds as `\UXXXXXXXX`, the range operator plain, classes as `\p{Name}`) back as the characters in their order, the ranges
    in their order and the class names in their order. Needs the repairs of D3 (a `-` among the members) and of D36 (a class
    between two members no longer turns the `-` behind it into the range operator). -/
theorem C03_class_parse_roundtrip_any_order (ic inv : Bool) (its : List Item) (hok : ∀ it ∈ its, it.ok) :
    parse (spell2 ic inv its) =
      some { ignoreCase := ic, inverted := inv, chars := itemChars its, ranges := itemRanges its, classes := itemNames its } :=
  parse_spell2 ic inv its hok

/-- an instance evaluated by the kernel: `[0\p{L}-9a-c\p{Nd}_]i` as a member sequence (`0`, L, `-`, `9`, a-c, Nd, `_`) -/
example : parse (spell2 true false [.chr 48, .cls [76], .chr 45, .chr 57, .rng 97 99, .cls [78, 100], .chr 95]) =
    some { ignoreCase := true, inverted := false, chars := [48, 45, 57, 95], ranges := [97, 99], classes := [[76], [78, 100]] } := by
  decide

/-- finding D3, repaired (`fix:` commit in /repo): the class `a`, `-`, `c` - three single characters - spelled with every
    character escaped is read back as three characters. Before the repair it was read as the RANGE a-c: the decoded `-` was
    taken for the range operator whether or not it had been written as an escape (`[a\x2dc]`). -/
theorem C03_D3_escaped_dash_is_a_character :
    parse (spell false false [] [97, 45, 99] []) =
      some { ignoreCase := false, inverted := false, chars := [97, 45, 99], ranges := [], classes := [] } := by
  decide

/-- ... while a plain `-` between two characters is the range operator, as documented: the text `[a-c]` -/
theorem C03_plain_dash_is_the_range_operator :
    parse [91, 97, 45, 99, 93] = some { ignoreCase := false, inverted := false, chars := [], ranges := [97, 99], classes := [] } := by
  decide

/-- finding D36, repaired (`fix:` commit in /repo): a Unicode class is no range bound. The text `[0\pL-9]` is, by the
    front-end grammar (`ClassCharRange ← ClassChar '-' ClassChar`; `\pL` is no `ClassChar`), the character `0`, the class
    `L`, the character `-` and the character `9`. Before the repair `parse` dropped the class from the rune sequence before
    looking for ranges and read the RANGE 0-9 (so the class matched `5` and did not match `-`). -/
theorem C03_D36_dash_after_a_class_is_a_character :
    parse [91, 48, 92, 112, 76, 45, 57, 93] =    -- `[0\pL-9]`
      some { ignoreCase := false, inverted := false, chars := [48, 45, 57], ranges := [], classes := [[76]] } := by
  decide

/-- … the same for a `-` BEFORE a class: `[a-\pLz]` is `a`, `-`, the class `L`, `z` (before the repair: the range a-z) -/
theorem C03_D36_dash_before_a_class_is_a_character :
    parse [91, 97, 45, 92, 112, 76, 122, 93] =
      some { ignoreCase := false, inverted := false, chars := [97, 45, 122], ranges := [], classes := [[76]] } := by
  decide

/-- … while a complete range next to a class stays a range: `[a-c\p{Lu}x-z]` -/
theorem C03_range_next_to_a_class_is_a_range :
    parse [91, 97, 45, 99, 92, 112, 123, 76, 117, 125, 120, 45, 122, 93] =
      some { ignoreCase := false, inverted := false, chars := [], ranges := [97, 99, 120, 122], classes := [[76, 117]] } := by
  decide

/-- a bracketed text is never rejected by `parse` (the slicing cannot go out of bounds on what the grammar hands over) -/
theorem C03_class_parse_total_on_bracketed (ic inv : Bool) (body : List Nat)
    (hhead : ∀ x rest, body = x :: rest → x = 92) :
    (parse (91 :: ((if inv then [94] else []) ++ body ++ 93 :: (if ic then [105] else [])))).isSome = true := by
  rw [parse_shape ic inv body hhead]; rfl

/-- octal escapes above `\377` and the escapes `\'` / `\"` silently become the character 0 (`strconv.UnquoteChar` reports an
    error that `parse` ignores); the front-end grammar does not let `\'` / `\"` through, `\400`…`\777` it does -/
theorem C03_big_octal_becomes_nul : parse [91, 92, 55, 55, 55, 93] =   -- the text `[\777]`
    some { ignoreCase := false, inverted := false, chars := [0], ranges := [], classes := [] } := by
  decide

end ClassParse
end PV
