/-
  C03 — the grammar front-end accepts the documented syntax and builds the denoted AST.

  The universal round trip over all ASTs and layouts is decided by execution (harness/cmd/pvfront:
  generated ASTs printed in random spellings, parsed by the real front-end through the verif hook,
  compared node by node incl. positions). Kernel-checked here: the second phase of
  `CharClassMatcher.parse` (ast.go: "extract ranges and chars"), which turns the decoded rune
  sequence of a class into single characters and ranges, inverts the printer for every class whose
  single characters contain no `-` and whose ranges do not start with `-`.
-/
import PigeonVerif.Model.ClassParse

namespace PV
namespace ClassParse

/-- the printer: single characters first, then each range as `lo - hi` -/
def printRanges : List (Rune × Rune) → List Rune
  | [] => []
  | (lo, hi) :: rest => lo :: dash :: hi :: printRanges rest

def flat : List (Rune × Rune) → List Rune
  | [] => []
  | (lo, hi) :: rest => lo :: hi :: flat rest

theorem run_append_nonlast (s : St) (r : Rune) (rest : List Rune) (h : rest ≠ []) :
    run s (r :: rest) = run (step s r false) rest := by
  cases rest with
  | nil => exact absurd rfl h
  | cons r' rest' => rfl

/-- single characters without `-` are all kept as characters -/
theorem run_chars (cs : List Rune) (hcs : ∀ c ∈ cs, c ≠ dash) (s : St) (hin : s.inRange = false)
    (tail : List Rune) (ht : tail ≠ []) :
    run s (cs ++ tail) = run { s with chars := s.chars ++ cs, wasRange := if cs.isEmpty then s.wasRange else false } tail := by
  induction cs generalizing s with
  | nil => simp
  | cons c cs ih =>
    have hc : c ≠ dash := hcs c List.mem_cons_self
    have hne : cs ++ tail ≠ [] := by simp [ht]
    rw [List.cons_append, run_append_nonlast _ _ _ hne]
    have hstep : step s c false = { s with chars := s.chars ++ [c], wasRange := false } := by
      unfold step; simp [hin, hc]
    rw [hstep]
    have := ih (fun x hx => hcs x (List.mem_cons_of_mem _ hx)) { s with chars := s.chars ++ [c], wasRange := false } hin
    rw [this]
    cases cs <;> simp

/-- a printed range is read back as a range, whatever its bounds, when the previous item was a
    range or a character and the lower bound is not `-` -/
theorem run_range (s : St) (lo hi : Rune) (rest : List Rune) (hin : s.inRange = false) (hlo : lo ≠ dash) :
    run s (lo :: dash :: hi :: rest) =
      run { chars := s.chars, ranges := s.ranges ++ [lo, hi], inRange := false, wasRange := true } rest := by
  have h1 : step s lo false = { s with chars := s.chars ++ [lo], wasRange := false } := by
    unfold step; simp [hin, hlo]
  rw [run_append_nonlast _ _ _ (by simp), h1, run_append_nonlast _ _ _ (by simp)]
  have h2 : step { s with chars := s.chars ++ [lo], wasRange := false } dash false =
      { chars := s.chars, ranges := s.ranges ++ [lo], inRange := true, wasRange := false } := by
    unfold step; simp [hin]
  rw [h2]
  cases rest with
  | nil => simp [run, step]
  | cons r rest => simp [run, step]

theorem run_ranges (rs : List (Rune × Rune)) (hrs : ∀ p ∈ rs, p.1 ≠ dash) (s : St) (hin : s.inRange = false) :
    run s (printRanges rs) =
      { s with ranges := s.ranges ++ flat rs, wasRange := if rs.isEmpty then s.wasRange else true } := by
  induction rs generalizing s with
  | nil => simp [printRanges, flat, run]
  | cons p rs ih =>
    obtain ⟨lo, hi⟩ := p
    simp only [printRanges]
    rw [run_range s lo hi _ hin (hrs (lo, hi) List.mem_cons_self)]
    rw [ih (fun q hq => hrs q (List.mem_cons_of_mem _ hq)) _ rfl]
    cases rs <;> simp [flat, hin]

/-- **C03 (class round trip)** for every list of single characters without `-` and every list
    of ranges whose lower bounds are not `-` (upper bounds arbitrary), extracting from the printed
    class gives back exactly those characters and ranges. (The unrestricted statement is false:
    finding D3 — an escaped `-` between two characters is read as a range operator.) -/
theorem C03_class_roundtrip_partial (cs : List Rune) (rs : List (Rune × Rune))
    (hcs : ∀ c ∈ cs, c ≠ dash) (hrs : ∀ p ∈ rs, p.1 ≠ dash) :
    extract (cs ++ printRanges rs) = (cs, flat rs) := by
  unfold extract
  cases rs with
  | nil =>
    simp only [printRanges, List.append_nil, flat]
    -- only characters: no `-` at all, every rune is kept
    have : ∀ (s : St), s.inRange = false → (run s cs).chars = s.chars ++ cs ∧ (run s cs).ranges = s.ranges := by
      induction cs with
      | nil => intro s _; simp [run]
      | cons c cs ih =>
        intro s hin
        have hc : c ≠ dash := hcs c List.mem_cons_self
        cases cs with
        | nil => simp [run, step, hin, hc]
        | cons c' cs' =>
          have hstep : step s c false = { s with chars := s.chars ++ [c], wasRange := false } := by
            unfold step; simp [hin, hc]
          have := ih (fun x hx => hcs x (List.mem_cons_of_mem _ hx)) (step s c false) (by rw [hstep]; exact hin)
          rw [run_append_nonlast _ _ _ (by simp)]
          rw [hstep] at this ⊢
          simpa using this
    have h := this { chars := [], ranges := [], inRange := false, wasRange := false } rfl
    simp at h
    exact Prod.ext h.1 h.2
  | cons p rs =>
    have hne : printRanges (p :: rs) ≠ [] := by obtain ⟨lo, hi⟩ := p; simp [printRanges]
    rw [run_chars cs hcs _ rfl _ hne, run_ranges (p :: rs) hrs _ rfl]
    simp

/-- D3 witness at this level: the decoded sequence `a - c` is a range even when the `-` was written
    escaped (`[a\\x2dc]`): the extraction cannot tell, the information is lost in the decoding phase -/
example : extract [97, 45, 99] = ([], [97, 99]) := by decide

end ClassParse
end PV
