/-
  C03 — ingredient: the last phase of `CharClassMatcher.parse` (ast.go: "extract ranges and chars") on the decoded runes.

  Each decoded rune carries the mark "was written as an escape sequence". Since the repair of finding D3 an escaped `-` is a
  character and never the range operator, so the extraction inverts the printer for EVERY list of characters and ranges when
  characters are written escaped and the operator plain: no hypothesis on `-` is left (before the repair the decoded sequence
  `a`, `-`, `c` was a range whether or not the `-` had been escaped, and the statement needed "no single `-`").
-/
import PigeonVerif.Model.ClassParse

namespace PV
namespace ClassParse

/-- escaped single characters -/
def markChars (cs : List Rune) : List (Rune × Bool) := cs.map (fun c => (c, true))

/-- the printer of ranges on the decoded level: `lo` (escaped) `-` (plain) `hi` (escaped) -/
def printRanges : List (Rune × Rune) → List (Rune × Bool)
  | [] => []
  | (lo, hi) :: rest => (lo, true) :: (dash, false) :: (hi, true) :: printRanges rest

def flat : List (Rune × Rune) → List Rune
  | [] => []
  | (lo, hi) :: rest => lo :: hi :: flat rest

theorem run_append_nonlast (s : St) (r : Rune × Bool) (rest : List (Rune × Bool)) (h : rest ≠ []) :
    run s (r :: rest) = run (step s r.1 r.2 false) rest := by
  cases rest with
  | nil => exact absurd rfl h
  | cons r' rest' => rfl

/-- an escaped rune outside a range is a character, whatever it is -/
theorem step_escaped (s : St) (c : Rune) (last : Bool) (hin : s.inRange = false) :
    step s c true last = { s with chars := s.chars ++ [c], wasRange := false } := by
  unfold step; simp [hin]

/-- escaped single characters are all kept as characters -/
theorem run_chars (cs : List Rune) (s : St) (hin : s.inRange = false) (tail : List (Rune × Bool)) (ht : tail ≠ []) :
    run s (markChars cs ++ tail) =
      run { s with chars := s.chars ++ cs, wasRange := if cs.isEmpty then s.wasRange else false } tail := by
  induction cs generalizing s with
  | nil => simp [markChars]
  | cons c cs ih =>
    have hne : markChars cs ++ tail ≠ [] := by simp [ht]
    have hcons : markChars (c :: cs) ++ tail = (c, true) :: (markChars cs ++ tail) := rfl
    rw [hcons, run_append_nonlast _ _ _ hne, step_escaped s c false hin]
    have := ih { s with chars := s.chars ++ [c], wasRange := false } hin
    rw [this]
    cases cs <;> simp

/-- a printed range is read back as a range, whatever its bounds -/
theorem run_range (s : St) (lo hi : Rune) (rest : List (Rune × Bool)) (hin : s.inRange = false) :
    run s ((lo, true) :: (dash, false) :: (hi, true) :: rest) =
      run { chars := s.chars, ranges := s.ranges ++ [lo, hi], inRange := false, wasRange := true } rest := by
  rw [run_append_nonlast _ _ _ (by simp), step_escaped s lo false hin, run_append_nonlast _ _ _ (by simp)]
  have h2 : step { s with chars := s.chars ++ [lo], wasRange := false } dash false false =
      { chars := s.chars, ranges := s.ranges ++ [lo], inRange := true, wasRange := false } := by
    unfold step; simp [hin]
  simp only [] at h2 ⊢
  rw [h2]
  cases rest with
  | nil => simp [run, step]
  | cons r rest => simp [run, step]

theorem run_ranges (rs : List (Rune × Rune)) (s : St) (hin : s.inRange = false) :
    run s (printRanges rs) =
      { s with ranges := s.ranges ++ flat rs, wasRange := if rs.isEmpty then s.wasRange else true } := by
  induction rs generalizing s with
  | nil => simp [printRanges, flat, run]
  | cons p rs ih =>
    obtain ⟨lo, hi⟩ := p
    simp only [printRanges]
    rw [run_range s lo hi _ hin]
    rw [ih _ rfl]
    cases rs <;> simp [flat, hin]

/-- **C03 (class extraction round trip)** for EVERY list of single characters and EVERY list of ranges: extracting from the
    decoded form of the canonical spelling (characters and range bounds escaped, the range operator plain) gives back exactly
    those characters and ranges - a `-` among the characters or as a range bound included. -/
theorem C03_class_extraction_roundtrip (cs : List Rune) (rs : List (Rune × Rune)) :
    extract (markChars cs ++ printRanges rs) = (cs, flat rs) := by
  unfold extract
  cases rs with
  | nil =>
    simp only [printRanges, List.append_nil, flat]
    have : ∀ (s : St), s.inRange = false → (run s (markChars cs)).chars = s.chars ++ cs ∧ (run s (markChars cs)).ranges = s.ranges := by
      induction cs with
      | nil => intro s _; simp [run, markChars]
      | cons c cs ih =>
        intro s hin
        cases cs with
        | nil => simp [run, markChars, step_escaped s c true hin]
        | cons c' cs' =>
          have := ih (step s c true false) (by rw [step_escaped s c false hin]; exact hin)
          have hcons : markChars (c :: c' :: cs') = (c, true) :: markChars (c' :: cs') := rfl
          rw [hcons, run_append_nonlast _ _ _ (by simp [markChars])]
          rw [step_escaped s c false hin] at this ⊢
          simpa using this
    have h := this { chars := [], ranges := [], inRange := false, wasRange := false } rfl
    simp at h
    exact Prod.ext h.1 h.2
  | cons p rs =>
    have hne : printRanges (p :: rs) ≠ [] := by obtain ⟨lo, hi⟩ := p; simp [printRanges]
    rw [run_chars cs _ rfl _ hne, run_ranges (p :: rs) _ rfl]
    simp

/-- what finding D3 was: on the decoded level `a`, `-`, `c` with a PLAIN `-` is the range a-c (as it must be) ... -/
example : extract [(97, false), (45, false), (99, false)] = ([], [97, 99]) := by decide
/-- ... and with an ESCAPED `-` (`[a\x2dc]`) it is three characters; before the repair it was the same range -/
example : extract [(97, false), (45, true), (99, false)] = ([97, 45, 99], []) := by decide

end ClassParse
end PV
