import Std.Data.String.ToNat
import PigeonVerif.Proofs.Scope
/-
  C04 — every accepted grammar yields Go code that compiles, vets and initialises.
  "Compiles and vets" is a statement about the Go toolchain and is decided by execution
  (harness/cmd/pve2e). Kernel-checked here: the naming scheme of the generated methods, and the last sentence of the
  property - "each code block becomes exactly one method that receives exactly the labels in its scope" - for the model
  `Back.walk` of the generator's label stack (Model/Back.lean), which is tied to the real generator by the REGENERATED
  obligations of `PigeonVerif/Generated/*` (the parameter lists the working tree's pigeon writes for every grammar of the
  repository are read back from the emitted `callon…` methods and must equal `Back.assign`, by `decide`) and by `pve2e`.
-/

namespace PV
namespace Back

/-- `builder.funcName`: "on" + rule name + expression index -/
def funcName (rule : String) (ix : Nat) : String := "on" ++ rule ++ toString ix

/-- finding D4 (known): the scheme is not injective on (rule, index) — rule `A` with a code block at
    expression index 11 and rule `A1` with one at index 1 both get `onA11`, and the generated file
    declares the method twice -/
theorem C04_funcName_not_injective : funcName "A" 11 = funcName "A1" 1 ∧ ("A", 11) ≠ ("A1", 1) := by decide

/-- within one rule the index alone distinguishes the methods -/
theorem C04_funcName_injective_in_rule (rule : String) (i j : Nat) (h : funcName rule i = funcName rule j) :
    i = j := by
  unfold funcName at h
  have h1 : (toString i : String) = toString j := by
    have := congrArg String.toList h
    simp only [String.toList_append] at this
    exact String.ext (List.append_cancel_left this)
  exact Nat.repr_injective h1

/-! ### each code block receives exactly the labels in its scope -/

mutual
/-- the code blocks of an expression, in the order the generator renders them -/
def codeBlocks : Expr → List Nat
  | .action _ blk e => codeBlocks e ++ [blk]
  | .andCode _ blk | .notCode _ blk | .stateCode _ blk => [blk]
  | .labeled _ _ e | .and _ e | .not _ e | .oneOrMore _ e | .zeroOrMore _ e | .zeroOrOne _ e => codeBlocks e
  | .choice _ _ _ es | .seq _ es => codeBlocksL es
  | .recovery _ e r _ => codeBlocks e ++ codeBlocks r
  | .any _ | .cls _ _ | .lit _ _ _ _ | .ruleRef _ _ | .throw _ _ => []
def codeBlocksL : List Expr → List Nat
  | [] => []
  | e :: es => codeBlocks e ++ codeBlocksL es
end

mutual
theorem walk_blocks (cur : List String) : ∀ e : Expr, (walk cur e).2.map (·.1) = codeBlocks e
  | .action _ _ e => by simp [walk, codeBlocks, walk_blocks cur e]
  | .andCode .. | .notCode .. | .stateCode .. => by simp [walk, codeBlocks]
  | .labeled _ _ e | .and _ e | .not _ e | .oneOrMore _ e | .zeroOrMore _ e | .zeroOrOne _ e => by
    simp [walk, codeBlocks, walk_blocks [] e]
  | .choice _ _ _ es => by simp [walk, codeBlocks, walkAlts_blocks es]
  | .recovery _ e r _ => by simp [walk, codeBlocks, walk_blocks [] e, walk_blocks _ r]
  | .seq _ es => by simp [walk, codeBlocks, walkSeq_blocks cur es]
  | .any _ | .cls .. | .lit .. | .ruleRef .. | .throw .. => by simp [walk, codeBlocks]
theorem walkSeq_blocks (cur : List String) : ∀ es : List Expr, (walkSeq cur es).2.map (·.1) = codeBlocksL es
  | [] => by simp [walkSeq, codeBlocksL]
  | e :: es => by simp [walkSeq, codeBlocksL, walk_blocks cur e, walkSeq_blocks _ es]
theorem walkAlts_blocks : ∀ es : List Expr, (walkAlts es).map (·.1) = codeBlocksL es
  | [] => by simp [walkAlts, codeBlocksL]
  | e :: es => by simp [walkAlts, codeBlocksL, walk_blocks [] e, walkAlts_blocks es]
end

/-- **C04 (one method per code block).** The generator renders one (block, parameter list) pair per code-bearing node of the
    grammar, in visiting order - nothing is rendered twice, nothing is skipped (whatever the label stack holds). -/
theorem C04_one_method_per_code_block (rules : List Rule) :
    (assign rules).map (·.1) = rules.flatMap (fun r => codeBlocks r.expr) := by
  unfold assign
  induction rules with
  | nil => rfl
  | cons r rs ih => simp only [List.flatMap_cons, List.map_append, ih, walk_blocks]

/-- **C04 (the labels in scope, dynamically).** In the PEG semantics (`Spec.eval`, which the runtime model refines), a
    successful match of `e` extends the scope it was started in by exactly `binds e`: the labels of the labelled items on the
    spine of `e`, in order - for every grammar, code environment, input and depth. Labels bound inside the scopes that `e`
    opens (alternatives, repetitions, predicates, labelled operands, rules) never escape. -/
theorem C04_scope_after_match (E : Env) (f : Nat) (c : Spec.Ctx) (e : Expr) (env : List (String × Val)) (pt : Savepoint)
    (w : Spec.World) (v : Val) (pt' : Savepoint) (env' : List (String × Val)) (w' : Spec.World)
    (hs : spine e = true) (h : Spec.eval E f c e env pt w = .ok v pt' env' w') :
    keys env' = (binds e).reverse ++ keys env := env_binds E f c e env pt w v pt' env' w' hs h

/-- **C04 (an action receives exactly the labels in its scope).** Let the generator's current label list `cur` be the scope
    `env` in which the action `e1 {blk}` is started (as lists: the generator appends, the runtime conses). Then the parameter
    list the generator renders for `blk` is exactly the list of labels that are bound when the block is called, i.e. the
    scope after the operand has matched. -/
theorem C04_action_receives_its_scope (E : Env) (f : Nat) (c : Spec.Ctx) (id blk : Nat) (e1 : Expr)
    (env : List (String × Val)) (pt : Savepoint) (w : Spec.World) (v1 : Val) (pt1 : Savepoint)
    (env1 : List (String × Val)) (w1 : Spec.World) (cur : List String)
    (hs : spine e1 = true) (hcur : keys env = cur.reverse)
    (h : Spec.eval E f c e1 env pt w = .ok v1 pt1 env1 w1) :
    (blk, (keys env1).reverse) ∈ (walk cur (.action id blk e1)).2 := by
  have h1 := env_binds E f c e1 env pt w v1 pt1 env1 w1 hs h
  have h2 := walk_cur cur e1
  simp only [walk, List.mem_append, List.mem_singleton]
  right
  rw [h1, hcur, h2]
  simp

/-- **C04 (a predicate / state block receives the labels bound so far).** In a sequence `es1 ++ [code block] ++ es2` the
    generator renders the block with the labels of `es1` appended to the current list ... -/
theorem C04_block_in_sequence_static (cur : List String) (es1 es2 : List Expr) (b : Expr) :
    (walkSeq cur (es1 ++ b :: es2)).2 =
      (walkSeq cur es1).2 ++ (walk (cur ++ bindsSeq es1) b).2 ++ (walkSeq ((walk (cur ++ bindsSeq es1) b).1) es2).2 := by
  induction es1 generalizing cur with
  | nil => simp [walkSeq, bindsSeq]
  | cons e es ih =>
    simp only [List.cons_append, walkSeq, bindsSeq]
    rw [ih, walk_cur]
    simp [List.append_assoc]

/-- ... and these are exactly the labels bound when `es1` has matched (the point at which the block is called) -/
theorem C04_block_in_sequence_dynamic (E : Env) (f : Nat) (c : Spec.Ctx) (st0 : Store) (es1 : List Expr)
    (env : List (String × Val)) (pt : Savepoint) (w : Spec.World) (acc : List Val) (v : Val) (pt' : Savepoint)
    (env' : List (String × Val)) (w' : Spec.World) (cur : List String)
    (hs : spineSeq es1 = true) (hcur : keys env = cur.reverse)
    (h : Spec.evalSeq E (Spec.eval E f) c st0 es1 env pt w acc = .ok v pt' env' w') :
    (keys env').reverse = cur ++ bindsSeq es1 := by
  have := seq_binds E (Spec.eval E f) (env_binds E f) c st0 es1 env pt w acc v pt' env' w' hs h
  rw [this, hcur]; simp

/-- the hypotheses are satisfiable and the statement is not vacuous: `a:"x" b:("y" c:"z") {0}` - the action receives
    `a, b`; the label `c` of the nested scope does not escape -/
example :
    (walk [] (.action 1 0 (.seq 2 [.labeled 3 "a" (.lit 4 [120] false "x"),
        .labeled 5 "b" (.seq 6 [.lit 7 [121] false "y", .labeled 8 "c" (.lit 9 [122] false "z")])]))).2 = [(0, ["a", "b"])] := by
  decide

/-- comparison of the generator model with the parameter lists read back from an emitted parser (used by the regenerated
    obligations `PigeonVerif/Generated/*`) -/
def checkArgs (rules : List Rule) (args : List (Nat × List String)) : Bool :=
  args.all (fun p => (assign rules).lookup p.1 == some p.2) && (assign rules).length == args.length

end Back
end PV
