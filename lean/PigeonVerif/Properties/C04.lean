import Std.Data.String.ToNat
/-
  C04 — every accepted grammar yields Go code that compiles, vets and initialises.
  "Compiles and vets" is a statement about the Go toolchain and is decided by execution
  (harness/cmd/pve2e). Kernel-checked here: the naming scheme of the generated methods.
-/

namespace PV
namespace Back

/-- `builder.funcName`: "on" + rule name + expression index -/
def funcName (rule : String) (ix : Nat) : String := "on" ++ rule ++ toString ix

/-- finding D4 (known): the scheme is not injective on (rule, index) — rule `A` with a code block at
    expression index 11 and rule `A1` with one at index 1 both get `onA11`, and the generated file
    declares the method twice -/
theorem C04_funcName_not_injective : funcName "A" 11 = funcName "A1" 1 ∧ ("A", 11) ≠ ("A1", 1) := by decide

/-- within one rule the index alone distinguishes the methods -/
theorem C04_funcName_injective_in_rule (rule : String) (i j : Nat) (h : funcName rule i = funcName rule j) :
    i = j := by
  unfold funcName at h
  have h1 : (toString i : String) = toString j := by
    have := congrArg String.toList h
    simp only [String.toList_append] at this
    exact String.ext (List.append_cancel_left this)
  exact Nat.repr_injective h1

end Back
end PV
