/-
  C05 — backtracking rolls back the state store; globalStore is never rolled back.
  Theorems about the runtime model `RT` (all grammars, code blocks, flags, options,
  inputs, fuel; memoization and left recursion included).
-/
import PigeonVerif.Proofs.SpecStore
import PigeonVerif.Proofs.StoreLemmas

namespace PV
namespace RT

/-- every state the parser starts from satisfies the side conditions of the theorems -/
theorem initState_ok (E : Env) : MemoOK (initState E) ∧ GInv E (initState E) :=
  ⟨fun _ h => by simp [initState] at h, rfl⟩

/-- **C05 (a)** An expression that fails leaves the state store exactly as it was before it
    started — whatever happened inside (state blocks, in-place mutations, nested backtracking). -/
theorem C05_fail_restores (E : Env) (f : Nat) (e : Expr) (s s' : PState) (v : Val)
    (hm : MemoOK s) (h : parseExpr E f e s = .done v false s') : s'.state = s.state := by
  have := parseExpr_frame E f e s hm
  rw [h] at this
  exact this.failState rfl

/-- **C05 (b)** After a `&`/`!` predicate (syntactic or code), matched or not, the store is the
    store from before the predicate. -/
theorem C05_pred_restores (E : Env) (f : Nat) (e : Expr) (s s' : PState) (v : Val) (ok : Bool)
    (hm : MemoOK s)
    (hk : (∃ id e1, e = .and id e1) ∨ (∃ id e1, e = .not id e1) ∨
          (∃ id b, e = .andCode id b) ∨ (∃ id b, e = .notCode id b))
    (h : parseExpr E f e s = .done v ok s') : s'.state = s.state := by
  cases f with
  | zero => simp [parseExpr] at h
  | succ f =>
    have hfr : ∀ e s, FrameInv E s (parseExpr E f e s) := parseExpr_frame E f
    obtain ⟨_, hb⟩ := parseExpr_succ h
    have hmb : MemoOK (bump s) := hm.congr rfl
    rcases hk with ⟨id, e1, rfl⟩ | ⟨id, e1, rfl⟩ | ⟨id, b, rfl⟩ | ⟨id, b, rfl⟩
    · have := and_restores hfr e1 (bump s) hmb
      simp only [parseExprBody] at hb
      rw [hb] at this; exact this
    · have := not_restores hfr e1 (bump s) hmb
      simp only [parseExprBody] at hb
      rw [hb] at this; exact this
    · have := codePred_restores (E := E) b (bump s) (fun r => r.retB)
      simp only [parseExprBody, parseAndCode] at hb
      rw [hb] at this; exact this
    · have := codePred_restores (E := E) b (bump s) (fun r => !r.retB)
      simp only [parseExprBody, parseNotCode] at hb
      rw [hb] at this; exact this

/-- **C05 (c)** What an action block writes to the store is discarded when it returns: after a
    successful action the store is the one its expression left. -/
theorem C05_action_discards (E : Env) (f : Nat) (id blk : Nat) (e1 : Expr) (s s' : PState) (v : Val)
    (h : parseExpr E (f + 1) (.action id blk e1) s = .done v true s') :
    ∃ v1 s1, parseExprWrap E (parseExpr E f) e1 (bump s) = .done v1 true s1 ∧ s'.state = s1.state := by
  obtain ⟨_, hb⟩ := parseExpr_succ h
  have := action_discards (E := E) (rec := parseExpr E f) blk e1 (bump s)
  simp only [parseExprBody] at hb
  rw [hb] at this
  exact this rfl

/-- **C05 (d)** The effect of a state-change block persists: the store after `#{…}` is exactly
    the store the block left (so successive blocks compose in execution order). -/
theorem C05_state_block_persists (E : Env) (f : Nat) (id blk : Nat) (s s' : PState) (v : Val) (ok : Bool)
    (hu : E.useState = true)
    (h : parseExpr E (f + 1) (.stateCode id blk) s = .done v ok s') :
    ok = true ∧ s'.state = (E.code.run blk
        { pos := s.curPos, text := s.curText,
          args := (E.code.args blk).map (fun n => (lookup n (s.vstack.headD [])).getD .nil),
          state := s.state, global := s.global, calli := s.nCalls }).state := by
  obtain ⟨_, hb⟩ := parseExpr_succ h
  have := stateCode_persists (E := E) blk (bump s) hu
  simp only [parseExprBody] at hb
  rw [hb] at this
  exact this

/-- **C05 (e)** `globalStore` is never touched by the parser: at every normal return it is what the
    most recent code block left (or the initial one) — no backtracking, predicate, memo hit or
    seed-growing iteration ever reverts it. -/
theorem C05_global_never_reverted (E : Env) (f : Nat) (e : Expr) (s s' : PState) (v : Val) (ok : Bool)
    (hm : MemoOK s) (hg : GInv E s) (h : parseExpr E f e s = .done v ok s') : GInv E s' := by
  have := parseExpr_frame E f e s hm
  rw [h] at this
  exact this.stk.ginv hg

/-- non-vacuity: the hypotheses hold of the initial state of every parse -/
example (E : Env) : MemoOK (initState E) ∧ GInv E (initState E) := initState_ok E

/-! ### kernel-evaluated witness of finding D6 (the model reproduces the code) -/

namespace WitnessC05

def lit (id : Nat) (s : String) : Expr := .lit id (s.toList.map (·.toNat)) false ("\"" ++ s ++ "\"")

/-- `S <- E "!" / E "?"` ; `E <- E "+" N #{ n++ } / N` (leader) ; `N <- "1" / "2"` -/
def rulesD6 : List Rule :=
  [ { name := "S", displayName := "", leader := false, leftRecursive := false,
      expr := .choice 1 1 6 [.seq 2 [.ruleRef 3 "E", lit 4 "!"], .seq 5 [.ruleRef 6 "E", lit 7 "?"]] },
    { name := "E", displayName := "", leader := true, leftRecursive := true,
      expr := .choice 8 2 6 [.seq 9 [.ruleRef 10 "E", lit 11 "+", .ruleRef 12 "N", .stateCode 13 1], .ruleRef 14 "N"] },
    { name := "N", displayName := "", leader := false, leftRecursive := false,
      expr := .choice 15 3 6 [lit 16 "1", lit 17 "2"] } ]

/-- the iteration the grammar denotes: `E <- N ("+" N #{ n++ })*` -/
def rulesD6iter : List Rule :=
  [ { name := "S", displayName := "", leader := false, leftRecursive := false,
      expr := .choice 1 1 6 [.seq 2 [.ruleRef 3 "E", lit 4 "!"], .seq 5 [.ruleRef 6 "E", lit 7 "?"]] },
    { name := "E", displayName := "", leader := false, leftRecursive := false,
      expr := .seq 8 [.ruleRef 9 "N", .zeroOrMore 10 (.seq 11 [lit 12 "+", .ruleRef 13 "N", .stateCode 14 1])] },
    { name := "N", displayName := "", leader := false, leftRecursive := false,
      expr := .choice 15 3 6 [lit 16 "1", lit 17 "2"] } ]

def counter (st : Store) : Int := match st.get "n" with | some (.int k) => k | _ => 0

def envD6 (rules : List Rule) (lr : Bool) : Env :=
  { flags := { optimize := false, globalState := true, leftRec := lr, basicLatin := false },
    opts := {}, rules := rules,
    code := { args := fun _ => [],
              run := fun _ ctx => { state := ctx.state.set "n" (.int (counter ctx.state + 1)), global := ctx.global } },
    toLower := id, input := "1+2?".toList.map (·.toNat) }

def finalCount : Final → Option Int
  | .ret _ [] s => some (counter s.state)
  | _ => none

/-- **Finding D6 on the model**: `1+2?` is matched by the second alternative of `S`, whose `E` contains
    one `#{ n++ }`; the iterative grammar ends with `n = 1`, the left-recursive one with `n = 0`: the second
    `E` is answered from the leader's memo entry (written while the first alternative was tried), and the
    state effects of the memoised parse — rolled back when the first alternative failed — are not replayed. -/
theorem C05_D6_leader_memo_hit_drops_state_effects :
    finalCount (parse (envD6 rulesD6iter false) 40) = some 1 ∧ finalCount (parse (envD6 rulesD6 true) 40) = some 0 := by
  decide

end WitnessC05

end RT
end PV

/-! ### the same, declaratively: the PEG specification

  `Spec.eval` (Spec/Peg.lean) threads the store through the evaluation and rolls it back explicitly where PEG backtracks. These two
  theorems say that those are the right places; with `C01_runtime_is_peg` they hold of the runtime in the plain configuration (the
  theorems above state the same for the runtime directly, in every configuration). -/

namespace PV
namespace Spec

/-- **C05, declaratively: an expression that fails leaves the store as it found it.** For every grammar with state-change blocks, code
    environment, input, depth, context and start world: if the evaluation of `e` FAILS, the world the failure carries has the store of the
    world the evaluation started with - whatever happened inside: state-change blocks, nested backtracking, recovered throws, rule calls. -/
theorem C05_spec_failure_keeps_store (E : Env) (hu : E.useState = true) (f : Nat) (c : Ctx) (e : Expr) (env env' : List (String × Val))
    (pt : Savepoint) (w w' : World) (h : eval E f c e env pt w = .fail env' w') : w'.state = w.state :=
  eval_failKeeps E hu f c e env pt w env' w' h

/-- **… and after a `&e` / `!e` predicate, matched or not, the store is the store from before it.** -/
theorem C05_spec_predicate_keeps_store (E : Env) (hu : E.useState = true) (f : Nat) (c : Ctx) (e : Expr) (env env' : List (String × Val))
    (pt pt' : Savepoint) (w w' : World) (v : Val) (hk : (∃ id e1, e = .and id e1) ∨ (∃ id e1, e = .not id e1))
    (h : eval E (f + 1) c e env pt w = .ok v pt' env' w') : w'.state = w.state :=
  pred_keeps_store E hu (eval E f) f c e env env' pt pt' w w' v hk h

end Spec
end PV
