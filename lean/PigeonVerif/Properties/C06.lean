/-
  C06 — Memoize, Debug and Statistics never change results; Memoize bounds the work.

  Debug and Statistics: the runtime model `RT` has no input for them at all (`Opts` has no such
  field; `debug` only guards printing in the Go code, `Statistics` only redirects the write-only
  counters and names the no-match key) — the correspondence stream runs every case with the options
  flipped against the same model result. What is proved here is the memoization table discipline.
  The full statement (same results with and without Memoize) is FALSE for the unchanged code
  (finding D7: a memo hit skips the label binding) and is decided on the partial domain by the twin
  stream.
-/
import PigeonVerif.Proofs.StoreLemmas

namespace PV
namespace RT

/-- the memo table is a map from (offset, node) -/
theorem C06_memo_get_set (s : PState) (pt : Savepoint) (k : MemoKey) (t : MemoVal) (h : pt.pos.off = s.pt.pos.off) :
    getMemoized (setMemoized s pt k t) k = some t := by
  simp [getMemoized, setMemoized, h]

theorem C06_memo_get_set_other (s : PState) (pt : Savepoint) (k k' : MemoKey) (t : MemoVal)
    (h : k' ≠ k ∨ pt.pos.off ≠ s.pt.pos.off) :
    getMemoized (setMemoized s pt k t) k' = getMemoized s k' := by
  simp only [getMemoized, setMemoized, List.find?]
  rcases h with h | h
  · have : ¬ (k = k') := fun e => h e.symm
    simp [this]; rfl
  · simp [h]; rfl

/-- **C06 (a)** With Memoize off nothing is ever looked up or recorded by `parseExprWrap`. -/
theorem C06_off_is_plain (E : Env) (h : E.opts.memoize = false) (rec : Expr → PState → Outcome)
    (e : Expr) (s : PState) : parseExprWrap E rec e s = rec e s := by
  unfold parseExprWrap; split
  · rfl
  · simp [h]

/-- **C06 (b)** On a miss the expression is evaluated once and exactly its result (value, success,
    end position) is recorded under (start offset, node). -/
theorem C06_miss_records (E : Env) (rec : Expr → PState → Outcome) (e : Expr) (s s1 : PState)
    (v : Val) (ok : Bool) (ho : E.flags.optimize = false) (hm : E.opts.memoize = true)
    (hlr : topIsLR E s = false) (hmiss : getMemoized s (.expr e.id) = none)
    (hr : rec e s = .done v ok s1) :
    parseExprWrap E rec e s =
      .done v ok (setMemoized s1 s.pt (.expr e.id) { v := v, b := ok, «end» := s1.pt }) := by
  simp [parseExprWrap, ho, hm, hlr, hmiss, hr, Outcome.bind]

/-- **C06 (c)** On a hit the expression is NOT evaluated again: the recorded value and success are
    returned and the parser moves to the recorded end (each (expression, offset) pair is evaluated
    at most once while its entry is in the table). -/
theorem C06_hit_no_eval (E : Env) (rec : Expr → PState → Outcome) (e : Expr) (s : PState) (res : MemoVal)
    (ho : E.flags.optimize = false) (hm : E.opts.memoize = true) (hlr : topIsLR E s = false)
    (hhit : getMemoized s (.expr e.id) = some res) (hb : hitsOverBudget E (hit s) = false) :
    parseExprWrap E rec e s = .done res.v res.b (restore (hit s) res.end) := by
  simp [parseExprWrap, ho, hm, hlr, hhit, hb]

/-- a hit does not evaluate anything: `exprCnt` is unchanged -/
theorem C06_hit_exprCnt (E : Env) (rec : Expr → PState → Outcome) (e : Expr) (s s' : PState) (res : MemoVal)
    (v : Val) (ok : Bool) (ho : E.flags.optimize = false) (hm : E.opts.memoize = true)
    (hlr : topIsLR E s = false) (hhit : getMemoized s (.expr e.id) = some res)
    (h : parseExprWrap E rec e s = .done v ok s') : s'.exprCnt = s.exprCnt := by
  simp only [parseExprWrap, ho, hm, hlr, hhit] at h
  by_cases hb : hitsOverBudget E (hit s) = true
  · simp [hb] at h
  · simp [hb] at h; obtain ⟨_, _, rfl⟩ := h; simp

/-! ### kernel-evaluated witness of finding D7 (the model reproduces the code) -/

namespace WitnessC06

def lit (id : Nat) (s : String) : Expr := .lit id (s.toList.map (·.toNat)) false ("\"" ++ s ++ "\"")

/-- `R <- S "!" / "a" S` ; `S <- x:"a"* l:"b" { return l, nil }` -/
def rulesD7 : List Rule :=
  [ { name := "R", displayName := "", leader := false, leftRecursive := false,
      expr := .choice 1 1 6 [.seq 2 [.ruleRef 3 "S", lit 4 "!"], .seq 5 [lit 6 "a", .ruleRef 7 "S"]] },
    { name := "S", displayName := "", leader := false, leftRecursive := false,
      expr := .action 8 1 (.seq 9 [.labeled 10 "x" (.zeroOrMore 11 (lit 12 "a")), .labeled 13 "l" (lit 14 "b")]) } ]

def envD7 (memo : Bool) : Env :=
  { flags := { optimize := false, globalState := false, leftRec := false, basicLatin := false },
    opts := { memoize := memo }, rules := rulesD7,
    code := { args := fun _ => ["l"], run := fun _ ctx => { ret := ctx.args.headD .nil, state := ctx.state, global := ctx.global } },
    toLower := id, input := "aab".toList.map (·.toNat) }

/-- the second element of the result sequence of an error-free parse: `some (some b)` = the bytes `b`,
    `some none` = nil; `none` = anything else -/
def second : Final → Option (Option (List Nat))
  | .ret (.list [_, .bytes b]) [] _ => some (some b)
  | .ret (.list [_, .nil]) [] _ => some none
  | _ => none

/-- **Finding D7 on the model**: on `aab` the second alternative returns `["a", "b"]`; with
    `Memoize(true)` the labelled expression `l:"b"` at offset 2 is answered from the memo table (it was
    evaluated there by the first alternative), the label is not bound, and the action returns nil. -/
theorem C06_D7_memo_hit_skips_label_binding :
    second (parse (envD7 false) 40) = some (some [98]) ∧ second (parse (envD7 true) 40) = some none := by
  decide

end WitnessC06

end RT
end PV
