/-
  C06 — Memoize, Debug, Statistics never change results; Memoize bounds work.

  The theorems about the table itself are in `C06Base.lean` (audited with this file): memo-table soundness
  `C06_memoize_same_result_partial` (two-run simulation), the packrat bound `C06_packrat_bound_partial`, the discipline lemmas,
  the kernel witnesses of the findings D7 and D27. This file adds the composition with the whole-parse contract:

  C06 ∘ C11: a memoized parse computes the PEG specification's result.

  `C06_memoize_same_result_partial` ties Memoize(true) to Memoize(false); `C11_parse_contract` ties Memoize(false) to the
  independent PEG semantics `Spec.run`. Composed: on the domain of the C06 theorem (pure code without label arguments, unique
  node identifiers, no throw / recover, no left recursion, no budget) the MEMOIZED parser returns what the specification
  prescribes - the table, its keys, the hits and their savepoints have no observable effect at all.
-/
import PigeonVerif.Properties.C06Base
import PigeonVerif.Properties.C11

namespace PV
namespace RT

theorem findRule_setMemo (E : Env) (m : Bool) (n : String) : (setMemo E m).findRule n = E.findRule n := rfl

/-- **C06 (d'), partial — the memoized parser implements the PEG specification.** -/
theorem C06_memoized_parse_is_peg_partial (E : Env) (own : Nat → Option String) (node : Nat → Option Expr)
    (isPred : Nat → Bool) (hc : MemoCfg E) (hp : PureCode E isPred)
    (hG : ∀ n r, E.findRule n = some r → r.expr.Ok own node isPred n)
    (hnolr : ∀ n r, E.findRule n = some r → r.leftRecursive = false ∧ r.leader = false)
    (fM fN : Nat) (hle : fN ≤ fM) (v : Val) (errs : List String)
    (hspec : Spec.run (setMemo E false) fN = .ret v errs) :
    ∃ errs1 s1, parse (setMemo E true) fM = .ret v errs1 s1 ∧
      (errs1 = errs ∨ ∃ m1 m2, errs1 = [m1] ∧ errs = [m2] ∧ v = .nil) := by
  have hplain : Plain (setMemo E false) := ⟨rfl, hc.nobudget, fun n r h => hnolr n r h⟩
  have hcon := C11_parse_contract (setMemo E false) hplain fN
  rw [hspec] at hcon
  cases hp2 : parse (setMemo E false) fN with
  | oof => rw [hp2] at hcon; cases hcon
  | panic p s => rw [hp2] at hcon; cases hcon
  | ret v2 errs2 s2 =>
    rw [hp2] at hcon
    simp only [Final.view, Spec.Final.ret.injEq] at hcon
    obtain ⟨rfl, rfl⟩ := hcon
    exact C06_memoize_same_result_partial E own node isPred hc hp hG fM fN hle v2 errs2 s2 hp2

end RT
end PV
