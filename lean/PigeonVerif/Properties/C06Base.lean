/-
  C06 — Memoize, Debug and Statistics never change results; Memoize bounds the work.

  Debug and Statistics: the runtime model `RT` has no input for them at all (`Opts` has no such
  field; `debug` only guards printing in the Go code, `Statistics` only redirects the write-only
  counters and names the no-match key) — the correspondence stream runs every case with the options
  flipped against the same model result. What is proved here is the memoization table discipline.
  The full statement (same results with and without Memoize) is FALSE for the unchanged code
  (finding D7: a memo hit skips the label binding; kernel-evaluated witness at the end of this file).
  What IS proved, for every grammar, input and depth (`C06_memoize_same_result_partial`, from
  `Proofs/MemoSound.lean`): when the code blocks take no label arguments, Memoize(true) and Memoize(false)
  return the same value and the same errors. The label-taking grammars are decided by the twin stream.
-/
import PigeonVerif.Proofs.StoreLemmas
import PigeonVerif.Proofs.MemoSound
import PigeonVerif.Proofs.MemoCount

namespace PV
namespace RT

/-- the memo table is a map from (offset, node) -/
theorem C06_memo_get_set (s : PState) (pt : Savepoint) (k : MemoKey) (t : MemoVal) (h : pt.pos.off = s.pt.pos.off) :
    getMemoized (setMemoized s pt k t) k = some t := by
  simp [getMemoized, setMemoized, h]

theorem C06_memo_get_set_other (s : PState) (pt : Savepoint) (k k' : MemoKey) (t : MemoVal)
    (h : k' ≠ k ∨ pt.pos.off ≠ s.pt.pos.off) :
    getMemoized (setMemoized s pt k t) k' = getMemoized s k' := by
  simp only [getMemoized, setMemoized, List.find?]
  rcases h with h | h
  · have : ¬ (k = k') := fun e => h e.symm
    simp [this]; rfl
  · simp [h]; rfl

/-- **C06 (a)** With Memoize off nothing is ever looked up or recorded by `parseExprWrap`. -/
theorem C06_off_is_plain (E : Env) (h : E.opts.memoize = false) (rec : Expr → PState → Outcome)
    (e : Expr) (s : PState) : parseExprWrap E rec e s = rec e s := by
  unfold parseExprWrap; split
  · rfl
  · simp [h]

/-- **C06 (b)** On a miss the expression is evaluated once and exactly its result (value, success,
    end position) is recorded under (start offset, node). -/
theorem C06_miss_records (E : Env) (rec : Expr → PState → Outcome) (e : Expr) (s s1 : PState)
    (v : Val) (ok : Bool) (ho : E.flags.optimize = false) (hm : E.opts.memoize = true)
    (hlr : topIsLR E s = false) (hmiss : getMemoized s (.expr e.id) = none)
    (hr : rec e s = .done v ok s1) :
    parseExprWrap E rec e s =
      .done v ok (setMemoized s1 s.pt (.expr e.id) { v := v, b := ok, «end» := s1.pt }) := by
  simp [parseExprWrap, ho, hm, hlr, hmiss, hr, Outcome.bind]

/-- **C06 (c)** On a hit the expression is NOT evaluated again: the recorded value and success are
    returned and the parser moves to the recorded end (each (expression, offset) pair is evaluated
    at most once while its entry is in the table). -/
theorem C06_hit_no_eval (E : Env) (rec : Expr → PState → Outcome) (e : Expr) (s : PState) (res : MemoVal)
    (ho : E.flags.optimize = false) (hm : E.opts.memoize = true) (hlr : topIsLR E s = false)
    (hhit : getMemoized s (.expr e.id) = some res) (hb : hitsOverBudget E (hit s) = false) :
    parseExprWrap E rec e s = .done res.v res.b (restore (hit s) res.end) := by
  simp [parseExprWrap, ho, hm, hlr, hhit, hb]

/-- a hit does not evaluate anything: `exprCnt` is unchanged -/
theorem C06_hit_exprCnt (E : Env) (rec : Expr → PState → Outcome) (e : Expr) (s s' : PState) (res : MemoVal)
    (v : Val) (ok : Bool) (ho : E.flags.optimize = false) (hm : E.opts.memoize = true)
    (hlr : topIsLR E s = false) (hhit : getMemoized s (.expr e.id) = some res)
    (h : parseExprWrap E rec e s = .done v ok s') : s'.exprCnt = s.exprCnt := by
  simp only [parseExprWrap, ho, hm, hlr, hhit] at h
  by_cases hb : hitsOverBudget E (hit s) = true
  · simp [hb] at h
  · simp [hb] at h; obtain ⟨_, _, rfl⟩ := h; simp

/-! ### Memoize does not change results (grammars whose blocks take no labels) -/

/-- **C06 (d), partial: Memoize never changes the result.** Standard template without left-recursion support
    (`MemoCfg`), no expression budget; node identifiers unique, no throw/recover (`Expr.Ok`, as C06 requires); code
    blocks pure functions of text and pos that take NO label arguments, predicate blocks not looking at pos/text
    (`PureCode`; with labels the statement is false — finding D7 —, with predicates reading pos/text too — finding D27).
    Then, for every input: if `Parse` with Memoize(false) returns at depth `fN`, `Parse` with Memoize(true) returns at
    every depth `fM ≥ fN` (it never needs more), with the same value and the same error list — except that when both
    fail without any code-block error each reports one synthesized farthest-failure message, and those two messages need
    not be equal (C06 compares success, value and code-block errors only). -/
theorem C06_memoize_same_result_partial (E : Env) (own : Nat → Option String) (node : Nat → Option Expr)
    (isPred : Nat → Bool) (hc : MemoCfg E) (hp : PureCode E isPred)
    (hG : ∀ n r, E.findRule n = some r → r.expr.Ok own node isPred n)
    (fM fN : Nat) (hle : fN ≤ fM) (v2 : Val) (errs2 : List String) (s2 : PState)
    (h2 : parse (setMemo E false) fN = .ret v2 errs2 s2) :
    ∃ errs1 s1, parse (setMemo E true) fM = .ret v2 errs1 s1 ∧
      (errs1 = errs2 ∨ ∃ m1 m2, errs1 = [m1] ∧ errs2 = [m2] ∧ v2 = .nil) := by
  have h := memo_sound hc hp hG fM fN hle
  rw [h2] at h
  rcases h with h | h
  · cases h
  · cases h1 : parse (setMemo E true) fM with
    | oof => rw [h1] at h; exact h.elim
    | panic p s => rw [h1] at h; exact h.elim
    | ret v1 errs1 s1 =>
      rw [h1] at h
      obtain ⟨rfl, h'⟩ := h
      exact ⟨errs1, s1, rfl, h'⟩

/-- the same, for any two depths at which both parses have returned -/
theorem C06_memoize_same_result_any_depth_partial (E : Env) (own : Nat → Option String) (node : Nat → Option Expr)
    (isPred : Nat → Bool) (hc : MemoCfg E) (hp : PureCode E isPred)
    (hG : ∀ n r, E.findRule n = some r → r.expr.Ok own node isPred n)
    (fM fN : Nat) (v1 v2 : Val) (errs1 errs2 : List String) (s1 s2 : PState)
    (h1 : parse (setMemo E true) fM = .ret v1 errs1 s1) (h2 : parse (setMemo E false) fN = .ret v2 errs2 s2) :
    v1 = v2 ∧ (errs1 = errs2 ∨ ∃ m1 m2, errs1 = [m1] ∧ errs2 = [m2] ∧ v1 = .nil) := by
  obtain ⟨e1, t1, h3, h4⟩ := C06_memoize_same_result_partial E own node isPred hc hp hG (max fM fN) fN
    (Nat.le_max_right _ _) v2 errs2 s2 h2
  have := parse_mono (setMemo E true) (Nat.le_max_left fM fN) (by rw [h1]; simp)
  rw [h1, h3] at this
  cases this
  exact ⟨rfl, h4⟩

/-- success and failure agree: one parse reports no error iff the other reports none -/
theorem C06_memoize_same_success_partial (E : Env) (own : Nat → Option String) (node : Nat → Option Expr)
    (isPred : Nat → Bool) (hc : MemoCfg E) (hp : PureCode E isPred)
    (hG : ∀ n r, E.findRule n = some r → r.expr.Ok own node isPred n)
    (fM fN : Nat) (v1 v2 : Val) (errs1 errs2 : List String) (s1 s2 : PState)
    (h1 : parse (setMemo E true) fM = .ret v1 errs1 s1) (h2 : parse (setMemo E false) fN = .ret v2 errs2 s2) :
    (errs1 = [] ↔ errs2 = []) := by
  obtain ⟨_, h | ⟨m1, m2, e1, e2, _⟩⟩ := C06_memoize_same_result_any_depth_partial E own node isPred hc hp hG fM fN v1 v2 errs1 errs2 s1 s2 h1 h2
  · rw [h]
  · rw [e1, e2]; simp

/-- a panic that escapes (`Recover(false)`) is the same panic; and the memoized parser never needs more depth -/
theorem C06_memoize_same_panic_partial (E : Env) (own : Nat → Option String) (node : Nat → Option Expr)
    (isPred : Nat → Bool) (hc : MemoCfg E) (hp : PureCode E isPred)
    (hG : ∀ n r, E.findRule n = some r → r.expr.Ok own node isPred n)
    (fM fN : Nat) (hle : fN ≤ fM) (p2 : PanicVal) (s2 : PState) (h2 : parse (setMemo E false) fN = .panic p2 s2) :
    ∃ s1, parse (setMemo E true) fM = .panic p2 s1 := by
  have h := memo_sound hc hp hG fM fN hle
  rw [h2] at h
  rcases h with h | h
  · cases h
  · cases h1 : parse (setMemo E true) fM with
    | oof => rw [h1] at h; exact h.elim
    | ret v errs s => rw [h1] at h; exact h.elim
    | panic p1 s1 => rw [h1] at h; exact ⟨s1, by rw [show p1 = p2 from h]⟩

/-- **the memoized parser terminates whenever the plain one does** (same hypotheses) -/
theorem C06_memoized_terminates_if_plain_does_partial (E : Env) (own : Nat → Option String) (node : Nat → Option Expr)
    (isPred : Nat → Bool) (hc : MemoCfg E) (hp : PureCode E isPred)
    (hG : ∀ n r, E.findRule n = some r → r.expr.Ok own node isPred n)
    (fN : Nat) (hN : parse (setMemo E false) fN ≠ .oof) : parse (setMemo E true) fN ≠ .oof := by
  have h := memo_sound hc hp hG fN fN (Nat.le_refl _)
  rcases h with h | h
  · exact absurd h hN
  · intro h1
    rw [h1] at h
    cases h2 : parse (setMemo E false) fN <;> rw [h2] at h <;> first | exact h.elim | exact hN h2

/-- **Locality** (the lemma behind it, of independent interest): without Memoize, what an expression returns, where
    it ends and which errors it appends depend only on the position and the innermost rule — not on the label
    scopes, the stores, the farthest-failure record, the counters or the caller. -/
theorem C06_evaluation_is_local_partial (E : Env) (own : Nat → Option String) (node : Nat → Option Expr)
    (isPred : Nat → Bool) (hc : MemoCfg E) (hp : PureCode E isPred)
    (hG : ∀ n r, E.findRule n = some r → r.expr.Ok own node isPred n)
    (f : Nat) (e : Expr) (rn : String) (r : Rule) (he : e.Ok own node isPred rn) (hf : E.findRule rn = some r)
    (t1 t2 : PState) (hpt : t1.pt = t2.pt) (hreach : Reach E.input t1.pt)
    (h1 : t1.rstack.head? = some r) (h2 : t2.rstack.head? = some r)
    (v : Val) (ok : Bool) (t1' : PState) (hr : parseExpr (setMemo E false) f e t1 = .done v ok t1')
    (hne : parseExpr (setMemo E false) f e t2 ≠ .oof) :
    ∃ t2' A, parseExpr (setMemo E false) f e t2 = .done v ok t2' ∧ t2'.pt = t1'.pt ∧
      t1'.errs = t1.errs ++ A ∧ t2'.errs = t2.errs ++ A := by
  have hl := loc hc hp hG t1.errs t2.errs f e t1 t2 rn r
    (LRel_iff.mpr ⟨hpt, by rw [h1, h2], hreach, [], by simp, by simp⟩) he hf h1
  rw [hr] at hl
  rcases hl.cases with hl | ⟨v', ok', a, b, e1, e2, hrel, _, _⟩ | ⟨p, a, b, e1, _, _⟩
  · exact absurd hl hne
  · cases e1
    obtain ⟨l1, _, _, A, hA1, hA2⟩ := LRel_iff.mp hrel
    exact ⟨b, A, e2, l1.symm, hA1, hA2⟩
  · cases e1

/-! ### Memoize bounds the work -/

/-- **C06 (e), partial: the packrat bound.** Standard template without left-recursion support, no budget, Memoize(true);
    node identifiers unique, no throw/recover (`Expr.Ok`); the grammar has no same-position cycle: `rn` is a closed
    nullability oracle and `rank` strictly decreases along every first-graph edge (`CountHyp`, the hypothesis of
    `C07_no_same_position_cycle_terminates`). No assumption on the code blocks. Then a parse that returns has evaluated at
    most (number of expression nodes) × (input length + 1) expressions: each (expression, offset) pair at most once.
    (`ids` lists the node identifiers; the invariant behind it: the `.expr` keys of the memo table are pairwise
    distinct and `ExprCnt` equals their number — `Proofs/MemoCount.lean`.) -/
theorem C06_packrat_bound_partial (E : Env) (own : Nat → Option String) (node : Nat → Option Expr)
    (rn : String → Bool) (rank : String → Nat) (h : CountHyp E own node rn rank)
    (ids : List Nat) (hids : ∀ id e, node id = some e → id ∈ ids)
    (f : Nat) (n : String) (r : Rule) (hfr : E.findRule n = some r) (v : Val) (ok : Bool) (s' : PState)
    (hres : parseRuleWrap (setMemo E true) (parseExpr (setMemo E true) f) f r (startState (setMemo E true)) = .done v ok s') :
    s'.exprCnt ≤ ids.length * (E.input.length + 1) :=
  packrat_bound h ids hids f hfr v ok s' hres

/-- the same read off `Parse` (with `Recover(false)`, so that a returned value is never a recovered panic) -/
theorem C06_packrat_bound_parse_partial (E : Env) (own : Nat → Option String) (node : Nat → Option Expr)
    (rn : String → Bool) (rank : String → Nat) (h : CountHyp E own node rn rank)
    (ids : List Nat) (hids : ∀ id e, node id = some e → id ∈ ids) (hrec : E.opts.recover = false)
    (f : Nat) (v : Val) (errs : List String) (s' : PState) (first : Rule) (rest : List Rule) (hr : E.rules = first :: rest)
    (r : Rule) (hfr : E.findRule (entryName E first) = some r)
    (hres : parse (setMemo E true) f = .ret v errs s') :
    s'.exprCnt ≤ ids.length * (E.input.length + 1) := by
  unfold parse at hres
  simp only [] at hres
  rw [show (setMemo E true).rules = E.rules from rfl, hr] at hres
  simp only [] at hres
  rw [show (setMemo E true).findRule (entryName (setMemo E true) first) = E.findRule (entryName E first) from rfl, hfr] at hres
  simp only [] at hres
  cases ho : parseRuleWrap (setMemo E true) (parseExpr (setMemo E true) f) f r (startState (setMemo E true)) with
  | oof => rw [ho] at hres; simp [finish] at hres
  | panic p s =>
    rw [ho] at hres
    simp only [finish, show (setMemo E true).opts.recover = E.opts.recover from rfl, hrec] at hres
    simp at hres
  | done v0 ok s0 =>
    have hb := packrat_bound h ids hids f hfr v0 ok s0 ho
    rw [ho] at hres
    simp only [finish] at hres
    split at hres
    · split at hres
      · cases hres; simpa [addErrAt] using hb
      · cases hres; exact hb
    · cases hres; exact hb

/-! ### the hypotheses are satisfiable, and the theorem is not about a parser that never hits the table -/

namespace ExampleC06

def lit (id : Nat) (s : String) : Expr := .lit id (s.toList.map (·.toNat)) false ("\"" ++ s ++ "\"")

-- `R <- S "!" / S "?"` ; `S <- "a" S / "b" { return string(c.text), errIfAtOffset3 }`
def e3 : Expr := .ruleRef 3 "S"
def e4 : Expr := lit 4 "!"
def e2 : Expr := .seq 2 [e3, e4]
def e6 : Expr := .ruleRef 6 "S"
def e7 : Expr := lit 7 "?"
def e5 : Expr := .seq 5 [e6, e7]
def e1 : Expr := .choice 1 1 6 [e2, e5]
def e10 : Expr := lit 10 "a"
def e11 : Expr := .ruleRef 11 "S"
def e9 : Expr := .seq 9 [e10, e11]
def e13 : Expr := lit 13 "b"
def e12 : Expr := .action 12 1 e13
def e8 : Expr := .choice 8 2 6 [e9, e12]

def rules : List Rule :=
  [ { name := "R", displayName := "", leader := false, leftRecursive := false, expr := e1 },
    { name := "S", displayName := "", leader := false, leftRecursive := false, expr := e8 } ]

def own (id : Nat) : Option String := if id = 0 then none else if id ≤ 7 then some "R" else if id ≤ 13 then some "S" else none
def node : Nat → Option Expr
  | 1 => some e1 | 2 => some e2 | 3 => some e3 | 4 => some e4 | 5 => some e5 | 6 => some e6 | 7 => some e7
  | 8 => some e8 | 9 => some e9 | 10 => some e10 | 11 => some e11 | 12 => some e12 | 13 => some e13
  | _ => none

/-- the action returns the matched text and reports an error (so that the error clause is exercised) -/
def env (memo : Bool) (inp : String) : Env :=
  { flags := { optimize := false, globalState := false, leftRec := false, basicLatin := false },
    opts := { memoize := memo }, rules := rules,
    code := { args := fun _ => [], run := fun _ ctx => { ret := .bytes ctx.text, err := some "seen", state := ctx.state, global := ctx.global } },
    toLower := id, input := inp.toList.map (·.toNat) }

theorem cfg (inp : String) : MemoCfg (env false inp) := ⟨rfl, rfl, rfl⟩

theorem pure (inp : String) : PureCode (env false inp) (fun _ => false) where
  noargs := fun _ => rfl
  act := fun _ c c' _ h => by simp [env, h]
  pred := fun _ h => by cases h

theorem wf (inp : String) : ∀ n r, (env false inp).findRule n = some r → r.expr.Ok own node (fun _ => false) n := by
  intro n r h
  simp only [Env.findRule, env, rules, List.reverse_cons, List.reverse_nil, List.nil_append, List.cons_append,
    List.find?] at h
  by_cases hS : "S" = n
  · subst hS
    simp at h
    subst h
    simp [e8, e9, e10, e11, e12, e13, lit, Expr.Ok, OkL, Keyed, own, node, Expr.id]
  · by_cases hR : "R" = n
    · subst hR
      simp at h
      subst h
      simp [e1, e2, e3, e4, e5, e6, e7, lit, Expr.Ok, OkL, Keyed, own, node, Expr.id]
    · simp [hS, hR] at h

theorem wfT (inp : String) : ∀ n r, (env false inp).findRule n = some r → r.expr.Ok own node (fun _ => true) n := by
  intro n r h
  simp only [Env.findRule, env, rules, List.reverse_cons, List.reverse_nil, List.nil_append, List.cons_append,
    List.find?] at h
  by_cases hS : "S" = n
  · subst hS
    simp at h
    subst h
    simp [e8, e9, e10, e11, e12, e13, lit, Expr.Ok, OkL, Keyed, own, node, Expr.id]
  · by_cases hR : "R" = n
    · subst hR
      simp at h
      subst h
      simp [e1, e2, e3, e4, e5, e6, e7, lit, Expr.Ok, OkL, Keyed, own, node, Expr.id]
    · simp [hS, hR] at h

def rank (n : String) : Nat := if n = "R" then 1 else 0

/-- the example grammar has no same-position cycle: `R` can start with `S`, `S` with nothing -/
theorem countHyp (inp : String) : CountHyp (env false inp) own node (fun _ => false) rank where
  cfg := cfg inp
  ok := wfT inp
  closed := by
    intro n r h hn
    simp only [Env.findRule, env, rules, List.reverse_cons, List.reverse_nil, List.nil_append, List.cons_append,
      List.find?] at h
    by_cases hS : "S" = n
    · subst hS; simp at h; subst h
      simp [e8, e9, e10, e11, e12, e13, lit, Expr.nul, nulAny, nulAll] at hn
    · by_cases hR : "R" = n
      · subst hR; simp at h; subst h
        simp [e1, e2, e3, e4, e5, e6, e7, lit, Expr.nul, nulAny, nulAll] at hn
      · simp [hS, hR] at h
  ranked := by
    intro n r h m hm
    simp only [Env.findRule, env, rules, List.reverse_cons, List.reverse_nil, List.nil_append, List.cons_append,
      List.find?] at h
    by_cases hS : "S" = n
    · subst hS; simp at h; subst h
      simp [e8, e9, e10, e11, e12, e13, lit, Expr.first, firstAny, firstSeq, Expr.nul] at hm
    · by_cases hR : "R" = n
      · subst hR; simp at h; subst h
        simp [e1, e2, e3, e4, e5, e6, e7, lit, Expr.first, firstAny, firstSeq, Expr.nul] at hm
        subst hm; simp [rank]
      · simp [hS, hR] at h

/-- `setMemo (env false inp) m` is `env m inp` -/
theorem setMemo_env (m : Bool) (inp : String) : setMemo (env false inp) m = env m inp := rfl

def cntOf : Final → Option (Nat × List String)
  | .ret _ errs s => some (s.exprCnt, errs)
  | _ => none

/-- on `aab?` the memoized parser answers from the table (the second alternative finds `S` at offset 0 there:
    20 expressions evaluated instead of 33), and the action's error is reported once by both … -/
theorem memo_is_used :
    cntOf (parse (env true "aab?") 40) = some (20, ["1:3 (2): rule S: seen"]) ∧
    cntOf (parse (env false "aab?") 40) = some (33, ["1:3 (2): rule S: seen"]) := by decide

/-- … and the theorem applies to it: both parsers return the text of `b` and the error of the action once -/
example (v1 v2 : Val) (errs1 errs2 : List String) (s1 s2 : PState)
    (h1 : parse (env true "aab?") 40 = .ret v1 errs1 s1) (h2 : parse (env false "aab?") 40 = .ret v2 errs2 s2) :
    v1 = v2 :=
  (C06_memoize_same_result_any_depth_partial (env false "aab?") own node (fun _ => false) (cfg _) (pure _) (wf _) 40 40
    v1 v2 errs1 errs2 s1 s2 h1 h2).1

theorem ids_cover : ∀ id e, node id = some e → id ∈ [1, 2, 3, 4, 5, 6, 7, 8, 9, 10, 11, 12, 13] := by
  intro id e h
  unfold node at h
  split at h <;> first | (cases h; done) | simp

/-- the bound applies to the example: at most 13 × (4 + 1) = 65 evaluations on `aab?` (it takes 20, `memo_is_used`) -/
example (f : Nat) (r : Rule) (hfr : (env false "aab?").findRule "R" = some r) (v : Val) (ok : Bool) (s' : PState)
    (hres : parseRuleWrap (setMemo (env false "aab?") true) (parseExpr (setMemo (env false "aab?") true) f) f r
      (startState (setMemo (env false "aab?") true)) = .done v ok s') : s'.exprCnt ≤ 13 * (4 + 1) :=
  C06_packrat_bound_partial _ own node (fun _ => false) rank (countHyp _) _ ids_cover f "R" r hfr v ok s' hres

end ExampleC06

/-! ### kernel-evaluated witness of finding D7 (the model reproduces the code) -/

namespace WitnessC06

def lit (id : Nat) (s : String) : Expr := .lit id (s.toList.map (·.toNat)) false ("\"" ++ s ++ "\"")

/-- `R <- S "!" / "a" S` ; `S <- x:"a"* l:"b" { return l, nil }` -/
def rulesD7 : List Rule :=
  [ { name := "R", displayName := "", leader := false, leftRecursive := false,
      expr := .choice 1 1 6 [.seq 2 [.ruleRef 3 "S", lit 4 "!"], .seq 5 [lit 6 "a", .ruleRef 7 "S"]] },
    { name := "S", displayName := "", leader := false, leftRecursive := false,
      expr := .action 8 1 (.seq 9 [.labeled 10 "x" (.zeroOrMore 11 (lit 12 "a")), .labeled 13 "l" (lit 14 "b")]) } ]

def envD7 (memo : Bool) : Env :=
  { flags := { optimize := false, globalState := false, leftRec := false, basicLatin := false },
    opts := { memoize := memo }, rules := rulesD7,
    code := { args := fun _ => ["l"], run := fun _ ctx => { ret := ctx.args.headD .nil, state := ctx.state, global := ctx.global } },
    toLower := id, input := "aab".toList.map (·.toNat) }

/-- the second element of the result sequence of an error-free parse: `some (some b)` = the bytes `b`,
    `some none` = nil; `none` = anything else -/
def second : Final → Option (Option (List Nat))
  | .ret (.list [_, .bytes b]) [] _ => some (some b)
  | .ret (.list [_, .nil]) [] _ => some none
  | _ => none

/-- **Finding D7 on the model**: on `aab` the second alternative returns `["a", "b"]`; with
    `Memoize(true)` the labelled expression `l:"b"` at offset 2 is answered from the memo table (it was
    evaluated there by the first alternative), the label is not bound, and the action returns nil. -/
theorem C06_D7_memo_hit_skips_label_binding :
    second (parse (envD7 false) 40) = some (some [98]) ∧ second (parse (envD7 true) 40) = some none := by
  decide

/-- `S <- A B "x" / A &{ c.pos.offset == 0 } B "y"` ; `A <- "a" {..}` ; `B <- "b" {..}` -/
def rulesD27 : List Rule :=
  [ { name := "S", displayName := "", leader := false, leftRecursive := false,
      expr := .choice 1 1 6 [.seq 2 [.ruleRef 3 "A", .ruleRef 4 "B", lit 5 "x"],
                             .seq 6 [.ruleRef 7 "A", .andCode 8 3, .ruleRef 9 "B", lit 10 "y"]] },
    { name := "A", displayName := "", leader := false, leftRecursive := false, expr := .action 11 1 (lit 12 "a") },
    { name := "B", displayName := "", leader := false, leftRecursive := false, expr := .action 13 2 (lit 14 "b") } ]

def envD27 (memo : Bool) : Env :=
  { flags := { optimize := false, globalState := false, leftRec := false, basicLatin := false },
    opts := { memoize := memo }, rules := rulesD27,
    code := { args := fun _ => [],
              run := fun blk ctx =>
                if blk = 3 then { retB := decide (ctx.pos.off = 0), state := ctx.state, global := ctx.global }
                else { ret := .bytes ctx.text, state := ctx.state, global := ctx.global } },
    toLower := id, input := "aby".toList.map (·.toNat) }

def succeeded : Final → Option Bool
  | .ret _ errs _ => some errs.isEmpty
  | _ => none

/-- **Finding D27 on the model**: no labels, no state, every block a function of `c.pos` / `c.text` only — and
    Memoize still changes the result. The predicate sees the pos of the most recently executed action (D2): without
    Memoize that is `A`'s action (offset 0), re-run by the second alternative; with Memoize `A` is a memo hit, the
    most recent action is `B`'s from the abandoned first alternative (offset 1), the predicate fails. This is why
    `C06_memoize_same_result_partial` asks predicate blocks not to look at pos / text (`PureCode.pred`). -/
theorem C06_D27_memo_hit_changes_stale_pos :
    succeeded (parse (envD27 false) 40) = some true ∧ succeeded (parse (envD27 true) 40) = some false := by
  decide

end WitnessC06

end RT
end PV
