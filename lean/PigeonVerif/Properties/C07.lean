/-
  C07 — left recursion is detected: rejected by default, never silently accepted.

  `Mid` models the analysis as it is in the tree (flags on nodes, visited-rule cut, early returns);
  `Mid.Spec.leftRec` is the independent Ford-style static definition (throw-free fragment).
  The general theorem `detect = Spec.leftRec` is NOT proved (and is false for the unchanged
  analysis: findings D17, D9, D18); what is kernel-checked here are the repaired defects' witnesses
  (before: accepted / falsely rejected; now: decided like the specification) and structural facts.
  The correspondence stream compares the real analysis with `Mid` node by node and with the
  specification on generated and enumerated grammars.
-/
import PigeonVerif.Properties.C19

namespace PV
namespace Mid

def verdictOf (cfg : Cfg) (G : AGrammar) (order : List String) : Option Verdict :=
  (prepare cfg G order).map (·.2)

/-- A <- (B A)* "x"; B <- "b"?  (finding D22, fixed) -/
def gD22 : AGrammar := [
  { name := "A", expr := .seq false [.star (.seq false [.ref false "B", .ref false "A"]), .lit false] },
  { name := "B", expr := .opt (.lit false) }]

theorem C07_D22_was_accepted : verdictOf cfgBeforeFixes gD22 ["A", "B"] = some (.ok false) ∧ Spec.leftRec gD22 = true := by
  decide
theorem C07_D22_now_rejected : verdictOf cfgNow gD22 ["A", "B"] = some (.ok true) := by decide

/-- A <- &A "x" / "y"  (finding D8, fixed) -/
def gD8 : AGrammar := [
  { name := "A", expr := .choice false [.seq false [.and (.ref false "A"), .lit false], .lit false] }]

theorem C07_D8_was_accepted : verdictOf cfgBeforeFixes gD8 ["A"] = some (.ok false) ∧ Spec.leftRec gD8 = true := by
  decide
theorem C07_D8_now_rejected : verdictOf cfgNow gD8 ["A"] = some (.ok true) := by decide

/-- A <- [^] A / "x"  (finding D19, fixed: false rejection) -/
def gD19 : AGrammar := [
  { name := "A", expr := .choice false [.seq false [.cls true, .ref false "A"], .lit false] }]

theorem C07_D19_was_rejected : verdictOf cfgBeforeFixes gD19 ["A"] = some (.ok true) ∧ Spec.leftRec gD19 = false := by
  decide
theorem C07_D19_now_accepted : verdictOf cfgNow gD19 ["A"] = some (.ok false) := by decide

/-- A <- &"q" / B A; B <- "x"?  — finding D17 (KNOWN, not repaired: the repair breaks the suite):
    the early return of the choice leaves the later alternatives' flags at their default. -/
def gD17 : AGrammar := [
  { name := "A", expr := .choice false [.and (.lit false), .seq false [.ref false "B", .ref false "A"]] },
  { name := "B", expr := .opt (.lit false) }]

theorem C07_D17_accepted_although_left_recursive :
    verdictOf cfgNow gD17 ["A", "B"] = some (.ok false) ∧ Spec.leftRec gD17 = true := by decide

/-- with the (uncommitted) repair "visit every alternative" the witness is decided correctly -/
theorem C07_D17_repair_would_reject :
    verdictOf { cfgNow with choiceVisitAll := true } gD17 ["A", "B"] = some (.ok true) := by decide

theorem mem_addName (x n : String) (l : List String) : x ∈ addName n l ↔ x = n ∨ x ∈ l := by
  unfold addName
  split
  · next h =>
    have hn : n ∈ l := by simpa using h
    constructor
    · intro hx; exact Or.inr hx
    · rintro (rfl | hx)
      · exact hn
      · exact hx
  · simp [or_comm]

theorem mem_union (x : String) (a b : List String) : x ∈ union a b ↔ x ∈ a ∨ x ∈ b := by
  unfold union
  induction b generalizing a with
  | nil => simp
  | cons n ns ih =>
    simp only [List.foldl_cons]
    rw [ih, mem_addName]
    simp only [List.mem_cons]
    constructor
    · rintro ((rfl | h) | h)
      · exact Or.inr (Or.inl rfl)
      · exact Or.inl h
      · exact Or.inr (Or.inr h)
    · rintro (h | rfl | h)
      · exact Or.inl (Or.inr h)
      · exact Or.inl (Or.inl rfl)
      · exact Or.inr h

/-- direct left recursion is detected whatever follows: for `A <- A e / f` the rule's initial names
    contain `A` (a self-loop in the first graph), for every `e`, `f`, every flag assignment and
    every configuration of the analysis -/
theorem C07_direct_detected (cfg : Cfg) (e f : AExpr) (n1 n2 n3 : Bool) :
    "A" ∈ initialNames cfg (.choice n1 [.seq n2 [.ref n3 "A", e], f]) := by
  simp only [initialNames, namesChoice, mem_union]
  left
  simp only [namesSeq]
  split
  · rw [mem_union]; left; simp [initialNames]
  · simp [initialNames]

end Mid
end PV
