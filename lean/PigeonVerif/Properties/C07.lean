/-
  C07 — left recursion is detected: rejected by default, never silently accepted.

  `Mid` models the analysis as it is in the tree (flags on nodes, visited-rule cut, early returns);
  `Mid.Spec.leftRec` is the independent Ford-style static definition (throw-free fragment).
  The general theorem `detect = Spec.leftRec` is NOT proved (and is false for the unchanged
  analysis: findings D17, D9, D18). ONE DIRECTION is: `C07_no_false_rejection_partial` - without recovery operators the
  analysis never reports a left recursion the specification does not see ("a grammar with no such cycle is accepted").
  Also kernel-checked here are the repaired defects' witnesses
  (before: accepted / falsely rejected; now: decided like the specification) and structural facts.
  The correspondence stream compares the real analysis with `Mid` node by node and with the
  specification on generated and enumerated grammars.

  The CONSEQUENCE clause ("a parser generated without the flag ... cannot recurse without bound") is proved for the
  runtime model at the end of this file: `C07_no_same_position_cycle_terminates` — a grammar whose first graph has no
  cycle (witnessed by a ranking), with repetitions over non-nullable bodies and no throw/recover, terminates on
  every input, from every state, for every code environment, without any budget (`Proofs/Advance.lean`,
  `Proofs/WFTerm.lean`). `C07_nullable_sound` is the semantic soundness of the nullable analysis it rests on.
-/
import PigeonVerif.Properties.C19
import PigeonVerif.Proofs.MidLemmas
import PigeonVerif.Proofs.WFTerm
import PigeonVerif.Proofs.Bridge
import PigeonVerif.Properties.C06
import PigeonVerif.Proofs.NoFalseReject

namespace PV
namespace Mid

def verdictOf (cfg : Cfg) (G : AGrammar) (order : List String) : Option Verdict :=
  (prepare cfg G order).map (·.2)

/-- A <- (B A)* "x"; B <- "b"?  (finding D22, fixed) -/
def gD22 : AGrammar := [
  { name := "A", expr := .seq false [.star (.seq false [.ref false "B", .ref false "A"]), .lit false] },
  { name := "B", expr := .opt (.lit false) }]

theorem C07_D22_was_accepted : verdictOf cfgBeforeFixes gD22 ["A", "B"] = some (.ok false) ∧ Spec.leftRec gD22 = true := by
  decide
theorem C07_D22_now_rejected : verdictOf cfgNow gD22 ["A", "B"] = some (.ok true) := by decide

/-- A <- &A "x" / "y"  (finding D8, fixed) -/
def gD8 : AGrammar := [
  { name := "A", expr := .choice false [.seq false [.and (.ref false "A"), .lit false], .lit false] }]

theorem C07_D8_was_accepted : verdictOf cfgBeforeFixes gD8 ["A"] = some (.ok false) ∧ Spec.leftRec gD8 = true := by
  decide
theorem C07_D8_now_rejected : verdictOf cfgNow gD8 ["A"] = some (.ok true) := by decide

/-- A <- [^] A / "x"  (finding D19, fixed: false rejection) -/
def gD19 : AGrammar := [
  { name := "A", expr := .choice false [.seq false [.cls true, .ref false "A"], .lit false] }]

theorem C07_D19_was_rejected : verdictOf cfgBeforeFixes gD19 ["A"] = some (.ok true) ∧ Spec.leftRec gD19 = false := by
  decide
theorem C07_D19_now_accepted : verdictOf cfgNow gD19 ["A"] = some (.ok false) := by decide

/-- A <- &"q" / B A; B <- "x"?  — finding D17 (KNOWN, not repaired: the repair breaks the suite):
    the early return of the choice leaves the later alternatives' flags at their default. -/
def gD17 : AGrammar := [
  { name := "A", expr := .choice false [.and (.lit false), .seq false [.ref false "B", .ref false "A"]] },
  { name := "B", expr := .opt (.lit false) }]

theorem C07_D17_accepted_although_left_recursive :
    verdictOf cfgNow gD17 ["A", "B"] = some (.ok false) ∧ Spec.leftRec gD17 = true := by decide

/-- with the (uncommitted) repair "visit every alternative" the witness is decided correctly -/
theorem C07_D17_repair_would_reject :
    verdictOf { cfgNow with choiceVisitAll := true } gD17 ["A", "B"] = some (.ok true) := by decide

/-- **C07, acceptance clause ("a grammar with no such cycle is accepted"), every grammar without recovery operators.**
    For every grammar with distinct rule names, freshly parsed (all `Nullable` flags at Go's zero value) and without `//{…}`
    operators, every order in which `ComputeNullables` visits the rules, and the analysis as it is in the tree: if
    `PrepareGrammar` answers anything but "no left recursion" - left recursion found, or a component without a leader -
    then the independent specification agrees: some rule can reach itself at the same input position (`Spec.leftRec`).
    Contrapositive: a grammar with no such cycle is accepted. Proof (`Proofs/NoFalseReject.lean`): the flags
    `NullableVisit` leaves on the nodes err in one direction only (a rule on the visiting stack, `e+`, the alternatives
    after the first nullable one count as non-nullable), so a flag that says "nullable" is right (`visit_sound`, an
    invariant of the whole stateful traversal incl. the visited-rule cut and the re-visits); `InitialNames` continues past
    an item only on such a flag, hence the first graph is a subgraph of the specification's (`names_sub_calls`,
    `edge_sub`); a reported component is a cycle of it (`computeLRWith_closed_form`, `lr_vertex_cycle`).
    `_partial`: recovery operators are excluded - there the analysis over-approximates (findings D18 / D9; witness below).
    The OTHER direction (a cycle of the specification is reported) is false for the tree: finding D17 (witness above). -/
theorem C07_no_false_rejection_partial (G0 : AGrammar) (order : List String) (hnd : (G0.map (·.name)).Nodup)
    (hfresh : ∀ r ∈ G0, erase r.expr = r.expr) (hnr : ∀ r ∈ G0, noRec r.expr = true)
    (G' : AGrammar) (v : Verdict) (h : prepare cfgNow G0 order = some (G', v)) (hv : v ≠ .ok false) :
    Spec.leftRec G0 = true :=
  no_false_rejection_fresh G0 order hnd hfresh hnr G' v h hv

/-- the hypotheses are met by an ordinary left-recursive grammar (`E <- E "+" T / T; T <- "n"`), which the analysis reports -/
def gLR : AGrammar := [
  { name := "E", expr := .choice false [.seq false [.ref false "E", .lit false, .ref false "T"], .ref false "T"] },
  { name := "T", expr := .lit false }]
example : (gLR.map (·.name)).Nodup ∧ verdictOf cfgNow gLR ["E", "T"] = some (.ok true) := by decide
example : ∀ r ∈ gLR, erase r.expr = r.expr ∧ noRec r.expr = true := by
  intro r hr
  simp only [gLR, List.mem_cons, List.not_mem_nil, or_false] at hr
  rcases hr with rfl | rfl <;> exact ⟨rfl, rfl⟩

/-- why recovery operators are excluded (finding D18): `A <- ("x" //{l} "") A / "y"` has no same-position cycle - the
    guarded `"x"` consumes - but the recovery expression `""` makes the analysis flag the operator nullable: rejected -/
def gD18 : AGrammar := [
  { name := "A", expr := .choice false [.seq false [.recovery false (.lit false) (.lit true), .ref false "A"], .lit false] }]
theorem C07_D18_false_rejection_through_recovery :
    verdictOf cfgNow gD18 ["A"] = some (.ok true) ∧ Spec.leftRec gD18 = false := by decide

/-- **finding D37** (round 21 side observation, reproduced with the real tool): the marks can be INCOMPLETE without the verdict being wrong.
    `A <- Z C 'a' / 'q'; Z <- A 'y' / ""; C <- A 'z' / 'c'` - `Z` is nullable, so `A` can reach `C` at its own start position and
    `C` reaches `A`: all three rules lie on same-position cycles. The last traversal that reaches the reference to `Z` in `A`'s body is
    the top-level visit of `Z` (sorted order A, C, Z), during which `Z` is on the visiting stack and counts as non-nullable: the flag is
    overwritten with `false`, `InitialNames` stops at `Z`, the edge `A -> C` is lost and `C` is NOT marked left-recursive. The verdict
    (left recursion, leader `A`) is right; but a parser generated with `-support-left-recursion` memoizes the unmarked `C` under
    `Memoize(true)` and returns another result than without (C08 / C06; the runtime witness is the listed twin pair). -/
def gD37 : AGrammar := [
  { name := "A", expr := .choice false [.seq false [.ref false "Z", .ref false "C", .lit false], .lit false] },
  { name := "Z", expr := .choice false [.seq false [.ref false "A", .lit false], .lit true] },
  { name := "C", expr := .choice false [.seq false [.ref false "A", .lit false], .lit false] }]
theorem C07_D37_rule_on_a_cycle_is_not_marked :
    (prepare cfgNow gD37 ["A", "C", "Z"]).map (fun r => (r.1.map (fun x => (x.name, x.leftRecursive, x.leader)), r.2)) =
      some ([("A", true, true), ("Z", true, false), ("C", false, false)], .ok true) ∧
    (reachFrom (Spec.specGraph gD37) "C").contains "C" = true := by decide

/-- **finding D38** (same root as D37, but fatal): a same-position cycle through NO leader. `A <- D 'a' / 'q'; D <- Z E 'd' / 'p';
    E <- D 'x' / 'e'; Z <- A 'y' / ""`: the flag of the reference to the nullable `Z` in `D`'s body is overwritten with `false` during
    the top-level visit of `Z`; the analysis sees the one cycle A-D-Z, makes `A` the leader and leaves `E` unmarked - while in the
    specification's graph `D` reaches `E` and `E` reaches `D`, a cycle that contains neither `A` nor any other leader. The parser
    generated with `-support-left-recursion` recurses without bound on it (real binary: fatal stack overflow; listed witness). -/
def gD38 : AGrammar := [
  { name := "A", expr := .choice false [.seq false [.ref false "D", .lit false], .lit false] },
  { name := "D", expr := .choice false [.seq false [.ref false "Z", .ref false "E", .lit false], .lit false] },
  { name := "E", expr := .choice false [.seq false [.ref false "D", .lit false], .lit false] },
  { name := "Z", expr := .choice false [.seq false [.ref false "A", .lit false], .lit true] }]
theorem C07_D38_cycle_through_no_leader :
    (prepare cfgNow gD38 ["A", "D", "E", "Z"]).map (fun r => (r.1.map (fun x => (x.name, x.leftRecursive, x.leader)), r.2)) =
      some ([("A", true, true), ("D", true, false), ("E", false, false), ("Z", true, false)], .ok true) ∧
    (succs (Spec.specGraph gD38) "D").contains "E" = true ∧ (succs (Spec.specGraph gD38) "E").contains "D" = true := by decide

/-- direct left recursion is detected whatever follows: for `A <- A e / f` the rule's initial names
    contain `A` (a self-loop in the first graph), for every `e`, `f`, every flag assignment and
    every configuration of the analysis -/
theorem C07_direct_detected (cfg : Cfg) (e f : AExpr) (n1 n2 n3 : Bool) :
    "A" ∈ initialNames cfg (.choice n1 [.seq n2 [.ref n3 "A", e], f]) := by
  simp only [initialNames, namesChoice, mem_union]
  left
  simp only [namesSeq]
  split
  · rw [mem_union]; left; simp [initialNames]
  · simp [initialNames]

end Mid
end PV

namespace PV
namespace RT

/-- **C07 (nullable is sound).** Plain configuration, ANY grammar (throw/recover included), any code environment, input,
    state and depth: a successful evaluation never ends before the position it started at, and if it ends AT that
    position then the expression is nullable in the sense of the static analysis (`Expr.nul`, relative to any
    closed oracle for the rules). Non-nullable expressions consume input. -/
theorem C07_nullable_sound (E : Env) (hp : Plain E) (rn : String → Bool)
    (hrn : ∀ n r, E.findRule n = some r → r.expr.nul rn = true → rn n = true)
    (f : Nat) (e : Expr) (s s' : PState) (v : Val) (hi : FInv E s) (h : parseExpr E f e s = .done v true s') :
    s.pt.pos.off ≤ s'.pt.pos.off ∧ (s'.pt.pos.off = s.pt.pos.off → e.nul rn = true) := by
  have := adv hp hrn f e s hi
  rw [h] at this
  exact this rfl

/-- **C07 (consequence).** A grammar in which no rule can reach itself at the same input position — there is a ranking
    of the rules that strictly decreases along every edge "rule → rule its body can invoke before consuming anything"
    (`Expr.first`) — whose repetitions have non-nullable bodies and which does not use throw/recover, terminates:
    for every code environment and every input `Parse` returns at some finite depth, with no budget. The parser cannot
    recurse without bound (nor loop). -/
theorem C07_no_same_position_cycle_terminates (E : Env) (rn : String → Bool) (rank : String → Nat)
    (h : WFG E rn rank) : ∃ f, parse E f ≠ .oof := wf_parse_terminates h

/-- the same for every expression of such a grammar, from every state the parser can be in -/
theorem C07_every_expression_terminates (E : Env) (rn : String → Bool) (rank : String → Nat) (h : WFG E rn rank)
    (e : Expr) (s : PState) (hi : FInv E s) (hwf : e.wfs rn = true) : ∃ f, parseExpr E f e s ≠ .oof :=
  wf_terminates h e s hi hwf

/-- **C07 (consequence, stated with the specification the check uses).** `Mid.Spec.leftRec` is the independent, Ford-style
    definition of "some rule can reach itself at the same input position" that the C07 check compares the builder's verdict
    with; `lowerG` forgets what the analysis does not look at. If the specification finds NO such rule — and the rule
    names are distinct, every repetition has a non-nullable body, there is no throw/recover (plain configuration) — then
    `Parse` terminates on every input, for every code environment. (`Proofs/Bridge.lean`: the two nullability / first-set
    definitions agree, the specification's fixpoint is a closed oracle; `Proofs/Reach.lean`: its breadth-first closure IS
    reachability, and an acyclic graph has a ranking.) -/
theorem C07_spec_not_left_recursive_terminates (E : Env) (hp : Plain E) (hnd : (E.rules.map (·.name)).Nodup)
    (hshape : ∀ r ∈ E.rules, r.expr.wfs (inList (Mid.Spec.nullRules (lowerG E.rules))) = true)
    (hspec : Mid.Spec.leftRec (lowerG E.rules) = false) : ∃ f, parse E f ≠ .oof := by
  obtain ⟨rank, h⟩ := spec_acyclic_wfg E hp hnd hshape hspec
  exact wf_parse_terminates h

/-- the hypothesis is decidable given a candidate witness: `checkWFG` is executable (the correspondence stream runs it
    on the generated grammars) and its `true` is sound -/
theorem C07_checked_grammars_terminate (E : Env) (nl : List String) (rk : List (String × Nat))
    (hc : checkWFG E nl rk = true) : ∃ f, parse E f ≠ .oof :=
  wf_parse_terminates (checkWFG_sound hc)

/-- ... and with `Memoize(true)` as well, for the grammars the memo-soundness theorem covers (label-free pure blocks, unique
    node identifiers): the memoized parser returns wherever the plain one does (`C06_memoized_terminates_if_plain_does_partial`) -/
theorem C07_terminates_with_memoize_partial (E : Env) (own : Nat → Option String) (node : Nat → Option Expr)
    (isPred : Nat → Bool) (hc : MemoCfg E) (hp : PureCode E isPred)
    (hG : ∀ n r, E.findRule n = some r → r.expr.Ok own node isPred n)
    (rn : String → Bool) (rank : String → Nat) (h : WFG (setMemo E false) rn rank) :
    ∃ f, parse (setMemo E true) f ≠ .oof := by
  obtain ⟨f, hf⟩ := wf_parse_terminates h
  exact ⟨f, C06_memoized_terminates_if_plain_does_partial E own node isPred hc hp hG f hf⟩

/-- a rule that can reach ITSELF at the same position has no ranking: the hypothesis excludes exactly the grammars C07
    wants rejected -/
theorem C07_left_recursive_rule_has_no_ranking (E : Env) (rn : String → Bool) (rank : String → Nat) (n : String) (r : Rule)
    (hf : E.findRule n = some r) (hself : n ∈ r.expr.first rn) : ¬ WFG E rn rank := fun h =>
  Nat.lt_irrefl _ (h.ranked n r hf n hself)

namespace ExampleC07

def lit (id : Nat) (s : String) : Expr := .lit id (s.toList.map (·.toNat)) false ("\"" ++ s ++ "\"")

/-- `R <- W S "!" / S "?"` ; `S <- "a" S / "b"` ; `W <- " "*`  — `W` is nullable, so `R` reaches `S` at its own start -/
def rules : List Rule :=
  [ { name := "R", displayName := "", leader := false, leftRecursive := false,
      expr := .choice 1 1 6 [.seq 2 [.ruleRef 3 "W", .ruleRef 4 "S", lit 5 "!"], .seq 6 [.ruleRef 7 "S", lit 8 "?"]] },
    { name := "S", displayName := "", leader := false, leftRecursive := false,
      expr := .choice 9 2 6 [.seq 10 [lit 11 "a", .ruleRef 12 "S"], lit 13 "b"] },
    { name := "W", displayName := "", leader := false, leftRecursive := false,
      expr := .zeroOrMore 14 (lit 15 " ") } ]

def env (inp : String) : Env :=
  { flags := { optimize := false, globalState := false, leftRec := false, basicLatin := false },
    opts := {}, rules := rules,
    code := { args := fun _ => [], run := fun _ ctx => { state := ctx.state, global := ctx.global } },
    toLower := id, input := inp.toList.map (·.toNat) }

/-- the witness: `W` is the only nullable rule; `R` ranks above `S` and `W` -/
theorem wellformed (inp : String) : checkWFG (env inp) ["W"] [("R", 1)] = true := by
  have : checkWFG (env inp) ["W"] [("R", 1)] = checkWFG (env "") ["W"] [("R", 1)] := rfl
  rw [this]; decide

example (inp : String) : ∃ f, parse (env inp) f ≠ .oof := C07_checked_grammars_terminate _ _ _ (wellformed inp)

/-- the same through the specification: it finds no left recursion in the example grammar (kernel-evaluated), so ... -/
theorem spec_says_no : Mid.Spec.leftRec (lowerG rules) = false := by decide

example (inp : String) : ∃ f, parse (env inp) f ≠ .oof :=
  C07_spec_not_left_recursive_terminates (env inp) ⟨rfl, rfl, fun n r h => by
      have := (findRule_mem h).1
      simp only [env, rules, List.mem_cons, List.not_mem_nil, or_false] at this
      rcases this with rfl | rfl | rfl <;> exact ⟨rfl, rfl⟩⟩
    (show (rules.map (·.name)).Nodup by decide)
    (show ∀ r ∈ rules, r.expr.wfs (inList (Mid.Spec.nullRules (lowerG rules))) = true by decide) spec_says_no

/-- `A <- A "x" / "y"`: left recursive, and indeed no witness passes the checker's ranking test -/
def lrRule : Rule :=
  { name := "A", displayName := "", leader := false, leftRecursive := false,
    expr := .choice 1 1 6 [.seq 2 [.ruleRef 3 "A", lit 4 "x"], lit 5 "y"] }

example (rn : String → Bool) (rank : String → Nat) (E : Env) (hf : E.findRule "A" = some lrRule) : ¬ WFG E rn rank :=
  C07_left_recursive_rule_has_no_ranking E rn rank "A" lrRule hf (by simp [lrRule, Expr.first, firstAny, firstSeq])

end ExampleC07

end RT
end PV
