/-
  C08 — left-recursive rules parse as the left-associative iteration they denote.

  The equality "seed growing = iteration" is NOT proved. Kernel-checked here: the structural facts of
  the seed-growing loop (`parseRuleRecursiveLeader`) on the full runtime model.
-/
import PigeonVerif.Proofs.TermProof

namespace PV
namespace RT

/-- **C08 (a)** The loop keeps a result only if it is strictly longer than the previous one (after
    the first), and what it returns is the last kept result: a growth attempt that fails or does not
    extend is dropped, with the error list and the state store it found restored. -/
theorem C08_last_attempt_dropped (E : Env) (rec : Expr → PState → Outcome) (r : Rule) (startMark : Savepoint)
    (k depth : Nat) (last : MemoVal) (lastErrs : List String) (s s2 : PState) (v : Val) (ok : Bool)
    (hrule : parseRule E rec r (setMemoized s startMark (.rule r.name) last) = .done v ok s2)
    (hstop : (!ok || (s2.pt.pos.off ≤ last.end.pos.off && depth ≠ 0)) = true) :
    ∃ s', leaderLoop E rec r startMark (k + 1) depth last lastErrs s = .done last.v last.b s' ∧
      s'.errs = lastErrs ∧ s'.pt.pos.off = last.end.pos.off ∧
      (E.useState = true → s'.state = s.state) := by
  simp only [leaderLoop, hrule, Outcome.bind]
  rw [if_pos hstop]
  refine ⟨_, rfl, by simp, by simp, fun hu => by simp [restoreState, hu]⟩

/-- **C08 (b)** a growth attempt that extends the match is adopted as the new seed: the next
    iteration starts again at the rule's start position with the longer result memoized. -/
theorem C08_growth_adopted (E : Env) (rec : Expr → PState → Outcome) (r : Rule) (startMark : Savepoint)
    (k depth : Nat) (last : MemoVal) (lastErrs : List String) (s s2 : PState) (v : Val)
    (hrule : parseRule E rec r (setMemoized s startMark (.rule r.name) last) = .done v true s2)
    (hgrow : (s2.pt.pos.off ≤ last.end.pos.off && depth ≠ 0) = false) :
    leaderLoop E rec r startMark (k + 1) depth last lastErrs s =
      leaderLoop E rec r startMark k (depth + 1) { v := v, b := true, «end» := s2.pt } s2.errs
        (restore s2 startMark) := by
  simp only [leaderLoop, hrule, Outcome.bind]
  have : ¬ ((!true || (s2.pt.pos.off ≤ last.end.pos.off && depth ≠ 0)) = true) := by
    simp only [Bool.not_true, Bool.false_or, hgrow]; simp
  rw [if_neg this]

/-- **C08 (c)** the recursive reference sees the previous seed: while the loop runs, a reference to
    the leader at the rule's start offset is answered from the memo table with the last kept result. -/
theorem C08_recursive_reference_sees_seed (E : Env) (rec : Expr → PState → Outcome) (r : Rule) (k : Nat)
    (s : PState) (last : MemoVal) (hk : getMemoized s (.rule r.name) = some last) :
    parseRuleLeader E rec k r s = .done last.v last.b (restore s last.end) := by
  simp [parseRuleLeader, hk]

/-- **C08 (d)** Termination: with a budget the seed-growing loop (like every other loop) always
    returns — `C16_terminates` covers left-recursive grammars. Without a budget each adopted growth
    strictly increases the end offset, which is bounded by the input length. -/
theorem C08_growth_strictly_extends (last : MemoVal) (s2 : PState) (depth : Nat)
    (hgrow : (s2.pt.pos.off ≤ last.end.pos.off && depth ≠ 0) = false) (hd : depth ≠ 0) :
    last.end.pos.off < s2.pt.pos.off := by
  simp [hd] at hgrow
  omega

/-! ### kernel-evaluated witnesses of two listed findings (the model reproduces the code; the same inputs are
    replayed against the real generated parser by the check) -/

namespace Witness

def lit (id : Nat) (s : String) : Expr := .lit id (s.toList.map (·.toNat)) false ("\"" ++ s ++ "\"")

/-- `S <- E ("+" X)* !.` ; `E <- E "+" X ";" / X` (leader) ; `X <- "-" { return text, errors.New("dup") }` -/
def rulesD26 : List Rule :=
  [ { name := "S", displayName := "", leader := false, leftRecursive := false,
      expr := .seq 1 [.ruleRef 2 "E", .zeroOrMore 3 (.seq 4 [lit 5 "+", .ruleRef 6 "X"]), .not 7 (.any 8)] },
    { name := "E", displayName := "", leader := true, leftRecursive := true,
      expr := .choice 9 2 7 [.seq 10 [.ruleRef 11 "E", lit 12 "+", .ruleRef 13 "X", lit 14 ";"], .ruleRef 15 "X"] },
    { name := "X", displayName := "", leader := false, leftRecursive := false,
      expr := .action 16 1 (lit 17 "-") } ]

def codeD26 : CodeEnv :=
  { args := fun _ => [],
    run := fun _ ctx => { ret := .bytes ctx.text, state := ctx.state, global := ctx.global, err := some "dup" } }

def envD26 (memo : Bool) : Env :=
  { flags := { optimize := false, globalState := false, leftRec := true, basicLatin := false },
    opts := { memoize := memo }, rules := rulesD26, code := codeD26, toLower := id,
    input := "-+-;+-".toList.map (·.toNat) }

def errsOf : Final → List String
  | .ret _ errs _ => errs
  | _ => []

/-- **Finding D26 on the model**: the plain parser reports the error of every `X` (offsets 0, 2, 5);
    with `Memoize(true)` the error at offset 5 — raised inside the discarded growth attempt, rolled
    back with it, and answered from the memo table afterwards — is missing. -/
theorem C08_D26_memo_loses_rolled_back_error :
    errsOf (parse (envD26 false) 40) = ["1:1 (0): rule X: dup", "1:3 (2): rule X: dup", "1:6 (5): rule X: dup"] ∧
    errsOf (parse (envD26 true) 40) = ["1:1 (0): rule X: dup", "1:3 (2): rule X: dup"] := by
  decide

/-- `Expr <- Add "x" / "a"` ; `Add <- Expr "y" / "b"` (leader: `Add`, the smaller name); start rule `Expr` -/
def rulesD25 : List Rule :=
  [ { name := "Expr", displayName := "", leader := false, leftRecursive := true,
      expr := .choice 1 1 9 [.seq 2 [.ruleRef 3 "Add", lit 4 "x"], lit 5 "a"] },
    { name := "Add", displayName := "", leader := true, leftRecursive := true,
      expr := .choice 6 2 8 [.seq 7 [.ruleRef 8 "Expr", lit 9 "y"], lit 10 "b"] } ]

/-- the iteration the grammar denotes: `Expr <- ("b" "x" / "a") ("y" "x")*` -/
def rulesD25iter : List Rule :=
  [ { name := "Expr", displayName := "", leader := false, leftRecursive := false,
      expr := .seq 1 [.choice 2 1 9 [.seq 3 [lit 4 "b", lit 5 "x"], lit 6 "a"], .zeroOrMore 7 (.seq 8 [lit 9 "y", lit 10 "x"])] } ]

def envD25 (rules : List Rule) (lr : Bool) (inp : String) : Env :=
  { flags := { optimize := false, globalState := false, leftRec := lr, basicLatin := false },
    opts := {}, rules := rules, code := { args := fun _ => [], run := fun _ ctx => { state := ctx.state, global := ctx.global } },
    toLower := id, input := inp.toList.map (·.toNat) }

def consumed : Final → Option Nat
  | .ret _ [] s => some s.pt.pos.off
  | _ => none

/-- **Finding D25 on the model**: entered through the rule that is not the leader, the left-recursive
    pair matches only `a` of `ayxy` (the iteration it denotes matches `ayx`), and rejects `bxy`
    (the iteration matches `bx`). -/
theorem C08_D25_nonleader_entry_is_not_greedy :
    consumed (parse (envD25 rulesD25 true "ayxy") 40) = some 1 ∧
    consumed (parse (envD25 rulesD25iter false "ayxy") 40) = some 3 ∧
    consumed (parse (envD25 rulesD25 true "bxy") 40) = none ∧
    consumed (parse (envD25 rulesD25iter false "bxy") 40) = some 2 := by
  decide

end Witness

end RT
end PV
