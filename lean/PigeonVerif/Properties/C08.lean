/-
  C08 — left-recursive rules parse as the left-associative iteration they denote.

  The equality "seed growing = iteration" is NOT proved. Kernel-checked here: the structural facts of
  the seed-growing loop (`parseRuleRecursiveLeader`) on the full runtime model.
-/
import PigeonVerif.Proofs.TermProof

namespace PV
namespace RT

/-- **C08 (a)** The loop keeps a result only if it is strictly longer than the previous one (after
    the first), and what it returns is the last kept result: a growth attempt that fails or does not
    extend is dropped, with the error list and the state store it found restored. -/
theorem C08_last_attempt_dropped (E : Env) (rec : Expr → PState → Outcome) (r : Rule) (startMark : Savepoint)
    (k depth : Nat) (last : MemoVal) (lastErrs : List String) (s s2 : PState) (v : Val) (ok : Bool)
    (hrule : parseRule E rec r (setMemoized s startMark (.rule r.name) last) = .done v ok s2)
    (hstop : (!ok || (s2.pt.pos.off ≤ last.end.pos.off && depth ≠ 0)) = true) :
    ∃ s', leaderLoop E rec r startMark (k + 1) depth last lastErrs s = .done last.v last.b s' ∧
      s'.errs = lastErrs ∧ s'.pt.pos.off = last.end.pos.off ∧
      (E.useState = true → s'.state = s.state) := by
  simp only [leaderLoop, hrule, Outcome.bind]
  rw [if_pos hstop]
  refine ⟨_, rfl, by simp, by simp, fun hu => by simp [restoreState, hu]⟩

/-- **C08 (b)** a growth attempt that extends the match is adopted as the new seed: the next
    iteration starts again at the rule's start position with the longer result memoized. -/
theorem C08_growth_adopted (E : Env) (rec : Expr → PState → Outcome) (r : Rule) (startMark : Savepoint)
    (k depth : Nat) (last : MemoVal) (lastErrs : List String) (s s2 : PState) (v : Val)
    (hrule : parseRule E rec r (setMemoized s startMark (.rule r.name) last) = .done v true s2)
    (hgrow : (s2.pt.pos.off ≤ last.end.pos.off && depth ≠ 0) = false) :
    leaderLoop E rec r startMark (k + 1) depth last lastErrs s =
      leaderLoop E rec r startMark k (depth + 1) { v := v, b := true, «end» := s2.pt } s2.errs
        (restore s2 startMark) := by
  simp only [leaderLoop, hrule, Outcome.bind]
  have : ¬ ((!true || (s2.pt.pos.off ≤ last.end.pos.off && depth ≠ 0)) = true) := by
    simp only [Bool.not_true, Bool.false_or, hgrow]; simp
  rw [if_neg this]

/-- **C08 (c)** the recursive reference sees the previous seed: while the loop runs, a reference to
    the leader at the rule's start offset is answered from the memo table with the last kept result. -/
theorem C08_recursive_reference_sees_seed (E : Env) (rec : Expr → PState → Outcome) (r : Rule) (k : Nat)
    (s : PState) (last : MemoVal) (hk : getMemoized s (.rule r.name) = some last) :
    parseRuleLeader E rec k r s = .done last.v last.b (restore s last.end) := by
  simp [parseRuleLeader, hk]

/-- **C08 (d)** Termination: with a budget the seed-growing loop (like every other loop) always
    returns — `C16_terminates` covers left-recursive grammars. Without a budget each adopted growth
    strictly increases the end offset, which is bounded by the input length. -/
theorem C08_growth_strictly_extends (last : MemoVal) (s2 : PState) (depth : Nat)
    (hgrow : (s2.pt.pos.off ≤ last.end.pos.off && depth ≠ 0) = false) (hd : depth ≠ 0) :
    last.end.pos.off < s2.pt.pos.off := by
  simp [hd] at hgrow
  omega

end RT
end PV
