/-
  C08 — left-recursive rules parse as the left-associative iteration they denote.

  Kernel-checked here: the structural facts of the seed-growing loop (`parseRuleRecursiveLeader`) on the full runtime
  model; "seed growing = the iteration" for DIRECTLY left-recursive rules whose operands reach no leader rule and whose
  code is pure (`C08_direct_left_recursion_is_iteration_partial`, `Proofs/LFree.lean`, `Proofs/LRIter.lean`; operands that
  recurse back into a leader, e.g. `"(" Expr ")"`, are NOT covered by the theorem — the iterative-twin streams are what
  checks them); and the TERMINATION clause: with `-support-left-recursion`, a grammar in which every same-position cycle passes through a
  leader rule terminates on every input, without a budget (`C08_left_recursive_parse_terminates`,
  `Proofs/AdvanceLR.lean`, `Proofs/Conv.lean`, `Proofs/LRTerm.lean`).
-/
import PigeonVerif.Proofs.TermProof
import PigeonVerif.Proofs.LRTerm
import PigeonVerif.Proofs.LRIter
import PigeonVerif.Proofs.LRIterExpr

namespace PV
namespace RT

/-- **C08 (a)** The loop keeps a result only if it is strictly longer than the previous one (after
    the first), and what it returns is the last kept result: a growth attempt that fails or does not
    extend is dropped, with the error list and the state store it found restored. -/
theorem C08_last_attempt_dropped (E : Env) (rec : Expr → PState → Outcome) (r : Rule) (startMark : Savepoint)
    (k depth : Nat) (last : MemoVal) (lastErrs : List String) (s s2 : PState) (v : Val) (ok : Bool)
    (hrule : parseRule E rec r (setMemoized s startMark (.rule r.name) last) = .done v ok s2)
    (hstop : (!ok || (s2.pt.pos.off ≤ last.end.pos.off && depth ≠ 0)) = true) :
    ∃ s', leaderLoop E rec r startMark (k + 1) depth last lastErrs s = .done last.v last.b s' ∧
      s'.errs = lastErrs ∧ s'.pt.pos.off = last.end.pos.off ∧
      (E.useState = true → s'.state = s.state) := by
  simp only [leaderLoop, hrule, Outcome.bind]
  rw [if_pos hstop]
  refine ⟨_, rfl, by simp, by simp, fun hu => by simp [restoreState, hu]⟩

/-- **C08 (b)** a growth attempt that extends the match is adopted as the new seed: the next
    iteration starts again at the rule's start position with the longer result memoized. -/
theorem C08_growth_adopted (E : Env) (rec : Expr → PState → Outcome) (r : Rule) (startMark : Savepoint)
    (k depth : Nat) (last : MemoVal) (lastErrs : List String) (s s2 : PState) (v : Val)
    (hrule : parseRule E rec r (setMemoized s startMark (.rule r.name) last) = .done v true s2)
    (hgrow : (s2.pt.pos.off ≤ last.end.pos.off && depth ≠ 0) = false) :
    leaderLoop E rec r startMark (k + 1) depth last lastErrs s =
      leaderLoop E rec r startMark k (depth + 1) { v := v, b := true, «end» := s2.pt } s2.errs
        (restore s2 startMark) := by
  simp only [leaderLoop, hrule, Outcome.bind]
  have : ¬ ((!true || (s2.pt.pos.off ≤ last.end.pos.off && depth ≠ 0)) = true) := by
    simp only [Bool.not_true, Bool.false_or, hgrow]; simp
  rw [if_neg this]

/-- **C08 (c)** the recursive reference sees the previous seed: while the loop runs, a reference to
    the leader at the rule's start offset is answered from the memo table with the last kept result. -/
theorem C08_recursive_reference_sees_seed (E : Env) (rec : Expr → PState → Outcome) (r : Rule) (k : Nat)
    (s : PState) (last : MemoVal) (hk : getMemoized s (.rule r.name) = some last) :
    parseRuleLeader E rec k r s = .done last.v last.b (restore s last.end) := by
  simp [parseRuleLeader, hk]

/-- **C08 (d)** Termination: with a budget the seed-growing loop (like every other loop) always
    returns — `C16_terminates` covers left-recursive grammars. Without a budget each adopted growth
    strictly increases the end offset, which is bounded by the input length. -/
theorem C08_growth_strictly_extends (last : MemoVal) (s2 : PState) (depth : Nat)
    (hgrow : (s2.pt.pos.off ≤ last.end.pos.off && depth ≠ 0) = false) (hd : depth ≠ 0) :
    last.end.pos.off < s2.pt.pos.off := by
  simp [hd] at hgrow
  omega

/-! ### termination -/

/-- **C08 (parsing terminates).** Left-recursion template, Memoize off, no budget. `LRWF`: a closed nullability oracle,
    repetitions over non-nullable bodies, no throw/recover, and a ranking of the rules that strictly decreases along every
    first-graph edge EXCEPT those into leader rules — every cycle "rule → rule reachable before consuming anything" passes
    through a leader (what `builder.ComputeLeftRecursives` has to provide). Then for every code environment and every input
    `Parse` returns at some finite depth: a leader without a seed runs the growing loop, inside which it has one; the
    loop ends because each round after the first must end strictly later than the seed. -/
theorem C08_left_recursive_parse_terminates (E : Env) (rn : String → Bool) (rank : String → Nat) (h : LRWF E rn rank) :
    ∃ f, parse E f ≠ .oof := lr_parse_terminates h

/-- every expression of such a grammar, from every state the parser can be in (any seeds in the table) -/
theorem C08_every_expression_terminates (E : Env) (rn : String → Bool) (rank : String → Nat) (h : LRWF E rn rank)
    (e : Expr) (s : PState) (hi : LI E rn s) (hwf : e.wfs rn = true) : ∃ f, parseExpr E f e s ≠ .oof :=
  lr_terminates h e s hi hwf

/-- progress with seeds: a successful evaluation never moves backwards, an expression that succeeds without consuming is
    nullable, every seed in the table respects the same, and the table only grows -/
theorem C08_progress_with_seeds (E : Env) (hc : LRCfg E) (rn : String → Bool)
    (hrn : ∀ n r, E.findRule n = some r → r.expr.nul rn = true → rn n = true)
    (f : Nat) (e : Expr) (s s' : PState) (v : Val) (hi : FInv E s) (hm : MA rn s) (h : parseExpr E f e s = .done v true s') :
    s.pt.pos.off ≤ s'.pt.pos.off ∧ (s'.pt.pos.off = s.pt.pos.off → e.nul rn = true) ∧ MA rn s' ∧
      ∃ new, s'.memo = new ++ s.memo := by
  have := advLR hc hrn s.memo f e s hi ⟨hm, [], by simp⟩
  rw [h] at this
  obtain ⟨⟨a, b⟩, c⟩ := this
  exact ⟨(c rfl).1, (c rfl).2, a, b⟩

/-- the hypothesis is decidable given a candidate witness; `true` is sound -/
theorem C08_checked_grammars_terminate (E : Env) (nl : List String) (rk : List (String × Nat))
    (hc : checkLRWF E nl rk = true) : ∃ f, parse E f ≠ .oof :=
  lr_parse_terminates (checkLRWF_sound hc)

/-- a leader is needed: a same-position self-loop on a rule that is NOT a leader has no ranking -/
theorem C08_cycle_without_leader_has_no_ranking (E : Env) (rn : String → Bool) (rank : String → Nat) (n : String) (r : Rule)
    (hf : E.findRule n = some r) (hself : n ∈ r.expr.first rn) (hnl : isLd r = false) : ¬ LRWF E rn rank := fun h => by
  rcases h.ranked n r hf n hself with hx | hx
  · simp [ldName, hf, hnl] at hx
  · exact Nat.lt_irrefl _ hx

namespace ExampleC08

def lit (id : Nat) (s : String) : Expr := .lit id (s.toList.map (·.toNat)) false ("\"" ++ s ++ "\"")

/-- `S <- E !.` ; `E <- E "+" T / T` (leader) ; `T <- T "*" N / N` (leader) ; `N <- "1" / "(" E ")"` -/
def rules : List Rule :=
  [ { name := "S", displayName := "", leader := false, leftRecursive := false,
      expr := .seq 1 [.ruleRef 2 "E", .not 3 (.any 4)] },
    { name := "E", displayName := "", leader := true, leftRecursive := true,
      expr := .choice 5 2 6 [.seq 6 [.ruleRef 7 "E", lit 8 "+", .ruleRef 9 "T"], .ruleRef 10 "T"] },
    { name := "T", displayName := "", leader := true, leftRecursive := true,
      expr := .choice 11 3 6 [.seq 12 [.ruleRef 13 "T", lit 14 "*", .ruleRef 15 "N"], .ruleRef 16 "N"] },
    { name := "N", displayName := "", leader := false, leftRecursive := false,
      expr := .choice 17 4 6 [lit 18 "1", .seq 19 [lit 20 "(", .ruleRef 21 "E", lit 22 ")"]] } ]

def env (inp : String) : Env :=
  { flags := { optimize := false, globalState := false, leftRec := true, basicLatin := false },
    opts := {}, rules := rules,
    code := { args := fun _ => [], run := fun _ ctx => { state := ctx.state, global := ctx.global } },
    toLower := id, input := inp.toList.map (·.toNat) }

/-- no rule is nullable; `T` ranks above `N` (its only edge to a non-leader); edges into the leaders `E`, `T` need nothing -/
theorem wellformed (inp : String) : checkLRWF (env inp) [] [("T", 1)] = true := by
  have : checkLRWF (env inp) [] [("T", 1)] = checkLRWF (env "") [] [("T", 1)] := rfl
  rw [this]; decide

example (inp : String) : ∃ f, parse (env inp) f ≠ .oof := C08_checked_grammars_terminate _ _ _ (wellformed inp)

/-- ... and it does what a left-associative grammar should on `1+1*1` (kernel-evaluated) -/
theorem parses : (match parse (env "1+1*1") 60 with | .ret _ errs _ => some errs.isEmpty | _ => none) = some true := by
  decide

/-- the same grammar with `E` NOT marked as leader fails the check (and overflows in reality) -/
def rulesBad : List Rule := rules.map (fun r => if r.name = "E" then { r with leader := false } else r)

theorem not_wellformed : checkLRWF { env "" with rules := rulesBad } [] [("T", 1)] = false := by decide

end ExampleC08

/-! ### seed growing = the iteration (directly left-recursive rules, leader-free pure operands) -/

/-- **C08 (the main clause), partial.** `A <- A t1 / … / A tn / b1 / … / bm` generated with `-support-left-recursion`
    (Memoize off, no budget). Hypotheses (`DirectLR`): `A` is a leader of exactly that shape; no rule that runs the
    seed-growing loop can be reached from the operands `ti`, `bj` (`LFSet`, `callsInL`); every `ti` is non-nullable; node
    identifiers are unique, there is no throw/recover and the code blocks are pure functions of `c.text` / `c.pos`
    (`Expr.Ok`, `PureCode`). Then for every input, depth and state in which the table holds no entry for `A` at the
    current position: if the leader returns, it returns what the ITERATION returns (`Iter`, `Proofs/LRIter.lean`) —
    the first base alternative that the ORDINARY parser matches at the start position (`AltAt`), extended greedily by
    the first tail that the ordinary parser matches at the end of the match so far (`TailsAt`, `Reps`), the value being
    the left-nested `[[[b, t…], t…], t…]`; and it fails iff no base alternative matches. "What the ordinary parser
    matches" (`Loc`) is the result of the parser generated WITHOUT left-recursion support on that operand at that
    position, from every state, so nothing of the seed-growing machinery is left in the statement.
    NOT covered: operands that recurse into a leader (`"(" Expr ")"`), indirect left recursion, labels/actions around the
    recursive alternatives, Memoize — the check's iterative-twin streams compare those by execution. -/
theorem C08_direct_left_recursion_is_iteration_partial {E : Env} {A : Rule} {cid line col : Nat}
    {ra : List (Nat × Nat × List Expr)} {bases : List Expr} {S rn : String → Bool} {own : Nat → Option String}
    {node : Nat → Option Expr} {isPred : Nat → Bool} (H : DirectLR E A cid line col ra bases S rn own node isPred)
    (f k : Nat) (s s' : PState) (v : Val) (ok : Bool) (hi : FInv E s) (hnone : getMemoized s (.rule A.name) = none)
    (hrun : parseRuleLeader E (parseExpr E f) k A s = .done v ok s') :
    Iter E A (ra.map (·.2.2)) bases s.pt ok v s'.pt := by
  have h := leader_iter H f k s hi hnone
  rw [hrun] at h
  exact h

/-- **... and the iteration is what the ORDINARY parser does with the iterative rule body.** Same hypotheses. Whatever the
    leader `A <- A t1 / … / A tn / b1 / … / bm` returns from `s` — success or failure, and the end position — the parser
    generated WITHOUT left-recursion support returns for the expression `(b1 / … / bm) ((t1) / … / (tn))*`
    (`iterExpr`), from every state at the same position inside `A`. (The VALUE of the iterative body is the pair
    `[b, [t…, t…, …]]`; that the left-recursive rule returns the left-nested `[[[b, t…], t…], …]` is the statement of
    `C08_direct_left_recursion_is_iteration_partial`.) -/
theorem C08_direct_left_recursion_matches_what_the_iterative_rule_matches_partial {E : Env} {A : Rule} {cid line col : Nat}
    {ra : List (Nat × Nat × List Expr)} {bases : List Expr} {S rn : String → Bool} {own : Nat → Option String}
    {node : Nat → Option Expr} {isPred : Nat → Bool} (H : DirectLR E A cid line col ra bases S rn own node isPred)
    (f k : Nat) (s s' : PState) (v : Val) (ok : Bool) (hi : FInv E s) (hnone : getMemoized s (.rule A.name) = none)
    (hrun : parseRuleLeader E (parseExpr E f) k A s = .done v ok s')
    (t : PState) (hpt : t.pt = s.pt) (hhd : t.rstack.head? = some A) :
    ∃ F w t', parseExpr (noLR E) F (iterExpr (ra.map (·.2.2)) bases) t = .done w ok t' ∧ t'.pt = s'.pt :=
  iter_replay H.cfg.nobudget (C08_direct_left_recursion_is_iteration_partial H f k s s' v ok hi hnone hrun) t ⟨hpt, hhd⟩
    (by rw [hpt]; exact hi.2.1)

/-- what the ordinary parser does with an operand at a position is a function of the operand and the position -/
theorem C08_operand_result_is_determined (E : Env) (A : Rule) (x : Expr) (p q q' : Savepoint) (ok ok' : Bool) (v v' : Val)
    (h1 : Loc E A x p ok v q) (h2 : Loc E A x p ok' v' q') : ok = ok' ∧ v = v' ∧ q = q' := h1.det h2

/-- leader-free expressions are evaluated by the left-recursion parser exactly as by the ordinary parser (same
    outcome, same state, at every depth): the memo table plays no part -/
theorem C08_leader_free_is_ordinary (E : Env) (hc : LRCfg E) (S : String → Bool) (hS : LFSet E S) (f : Nat) (e : Expr)
    (he : e.callsIn S = true) (s : PState) : parseExpr (noLR E) f e s = parseExpr E f e s :=
  parseExpr_noLR hc hS f e he s

namespace ExampleIter

def lit (id : Nat) (s : String) : Expr := .lit id (s.toList.map (·.toNat)) false ("\"" ++ s ++ "\"")

/-- `S <- E !.` ; `E <- E "+" N / E "-" N / N` (leader) ; `N <- "1" / "2"` -/
def e2 : Expr := .ruleRef 2 "E"
def e4 : Expr := .any 4
def e3 : Expr := .not 3 e4
def e1 : Expr := .seq 1 [e2, e3]
def e7 : Expr := .ruleRef 7 "E"
def e8 : Expr := lit 8 "+"
def e9 : Expr := .ruleRef 9 "N"
def e6 : Expr := .seq 6 [e7, e8, e9]
def e11 : Expr := .ruleRef 11 "E"
def e12 : Expr := lit 12 "-"
def e13 : Expr := .ruleRef 13 "N"
def e10 : Expr := .seq 10 [e11, e12, e13]
def e14 : Expr := .ruleRef 14 "N"
def e5 : Expr := .choice 5 2 6 [e6, e10, e14]
def e16 : Expr := lit 16 "1"
def e17 : Expr := lit 17 "2"
def e15 : Expr := .choice 15 3 6 [e16, e17]

def ruleE : Rule := { name := "E", displayName := "", leader := true, leftRecursive := true, expr := e5 }

def rules : List Rule :=
  [ { name := "S", displayName := "", leader := false, leftRecursive := false, expr := e1 },
    ruleE,
    { name := "N", displayName := "", leader := false, leftRecursive := false, expr := e15 } ]

def own (id : Nat) : Option String :=
  if id = 0 then none else if id ≤ 4 then some "S" else if id ≤ 14 then some "E" else if id ≤ 17 then some "N" else none
def node : Nat → Option Expr
  | 1 => some e1 | 2 => some e2 | 3 => some e3 | 4 => some e4 | 5 => some e5 | 6 => some e6 | 7 => some e7
  | 8 => some e8 | 9 => some e9 | 10 => some e10 | 11 => some e11 | 12 => some e12 | 13 => some e13 | 14 => some e14
  | 15 => some e15 | 16 => some e16 | 17 => some e17
  | _ => none

def env (inp : String) : Env :=
  { flags := { optimize := false, globalState := false, leftRec := true, basicLatin := false },
    opts := {}, rules := rules,
    code := { args := fun _ => [], run := fun _ ctx => { state := ctx.state, global := ctx.global } },
    toLower := id, input := inp.toList.map (·.toNat) }

def ra : List (Nat × Nat × List Expr) := [(6, 7, [e8, e9]), (10, 11, [e12, e13])]

theorem find_cases (inp : String) (n : String) (r : Rule) (h : (env inp).findRule n = some r) :
    (n = "N" ∧ r = { name := "N", displayName := "", leader := false, leftRecursive := false, expr := e15 }) ∨
    (n = "E" ∧ r = ruleE) ∨
    (n = "S" ∧ r = { name := "S", displayName := "", leader := false, leftRecursive := false, expr := e1 }) := by
  simp only [Env.findRule, env, rules, List.reverse_cons, List.reverse_nil, List.nil_append, List.cons_append,
    List.find?] at h
  by_cases hN : "N" = n
  · subst hN; simp at h; exact Or.inl ⟨rfl, h.symm⟩
  · by_cases hE : "E" = n
    · subst hE; simp [ruleE] at h; exact Or.inr (Or.inl ⟨rfl, by rw [← h]; rfl⟩)
    · by_cases hS : "S" = n
      · subst hS; simp [ruleE] at h; exact Or.inr (Or.inr ⟨rfl, h.symm⟩)
      · simp [hN, hE, hS, ruleE] at h

/-- the hypotheses of the theorem hold of this grammar, for every input -/
theorem direct (inp : String) :
    DirectLR (env inp) ruleE 5 2 6 ra [e14] (fun n => n == "N") (fun _ => false) own node (fun _ => false) where
  cfg := ⟨rfl, rfl, rfl⟩
  noopt := rfl
  pure := { noargs := fun _ => rfl, act := fun _ _ _ _ _ => ⟨rfl, rfl, rfl, rfl⟩, pred := fun _ h => by cases h }
  okG := by
    intro n r h
    rcases find_cases inp n r h with ⟨rfl, rfl⟩ | ⟨rfl, rfl⟩ | ⟨rfl, rfl⟩
    · simp [e15, e16, e17, lit, Expr.Ok, OkL, Keyed, own, node, Expr.id]
    · simp [ruleE, e5, e6, e7, e8, e9, e10, e11, e12, e13, e14, lit, Expr.Ok, OkL, Keyed, own, node, Expr.id]
    · simp [e1, e2, e3, e4, Expr.Ok, OkL, Keyed, own, node, Expr.id]
  find := by simp [Env.findRule, env, rules, ruleE]
  ld := rfl
  shape := rfl
  lf := by
    constructor
    · intro n r hS h
      rcases find_cases inp n r h with ⟨rfl, rfl⟩ | ⟨rfl, rfl⟩ | ⟨rfl, rfl⟩
      · simp [e15, e16, e17, lit, Expr.callsIn, callsInL]
      · simp at hS
      · simp at hS
    · intro n r hS h
      rcases find_cases inp n r h with ⟨rfl, rfl⟩ | ⟨rfl, rfl⟩ | ⟨rfl, rfl⟩
      · rfl
      · simp at hS
      · simp at hS
  tails_lf := by
    intro a ha
    simp only [ra, List.mem_cons, List.not_mem_nil, or_false] at ha
    rcases ha with rfl | rfl <;> simp [e8, e9, e12, e13, lit, Expr.callsIn, callsInL]
  bases_lf := by simp [e14, Expr.callsIn, callsInL]
  rnc := by
    intro n r h hn
    rcases find_cases inp n r h with ⟨rfl, rfl⟩ | ⟨rfl, rfl⟩ | ⟨rfl, rfl⟩
    · simp [e15, e16, e17, lit, Expr.nul, nulAny] at hn
    · simp [ruleE, e5, e6, e7, e8, e9, e10, e11, e12, e13, e14, lit, Expr.nul, nulAny, nulAll] at hn
    · simp [e1, e2, e3, e4, Expr.nul, nulAll] at hn
  tails_nn := by
    intro a ha
    simp only [ra, List.mem_cons, List.not_mem_nil, or_false] at ha
    rcases ha with rfl | rfl <;> simp [e8, e9, e12, e13, lit, Expr.nul, nulAll]

/-- so, on every input: whatever the leader `E` returns at the start of the input is what the iteration returns -/
example (inp : String) (f k : Nat) (s' : PState) (v : Val) (ok : Bool)
    (h : parseRuleLeader (env inp) (parseExpr (env inp) f) k ruleE (startState (env inp)) = .done v ok s') :
    Iter (env inp) ruleE [[e8, e9], [e12, e13]] [e14] (startState (env inp)).pt ok v s'.pt :=
  C08_direct_left_recursion_is_iteration_partial (direct inp) f k _ s' v ok (start_inv _)
    (by simp [getMemoized, startState, initState]) h

/-- the shape `[[[a, p, c], m, d], nil]` of a value (the outer pair is the start rule's `E !.`) -/
def nested : Final → Option (List Nat × List Nat × List Nat × List Nat × List Nat)
  | .ret (.list [.list [.list [.bytes a, .bytes p, .bytes c], .bytes m, .bytes d], .nil]) _ _ => some (a, p, c, m, d)
  | _ => none

/-- and the value really is left-nested (kernel-evaluated): `1+2-1` gives `[[[1, +, 2], -, 1], nil]`, i.e. `(1+2)-1` -/
theorem left_nested : nested (parse (env "1+2-1") 40) = some ([49], [43], [50], [45], [49]) := by decide

end ExampleIter

/-! ### kernel-evaluated witnesses of two listed findings (the model reproduces the code; the same inputs are
    replayed against the real generated parser by the check) -/

namespace Witness

def lit (id : Nat) (s : String) : Expr := .lit id (s.toList.map (·.toNat)) false ("\"" ++ s ++ "\"")

/-- `S <- E ("+" X)* !.` ; `E <- E "+" X ";" / X` (leader) ; `X <- "-" { return text, errors.New("dup") }` -/
def rulesD26 : List Rule :=
  [ { name := "S", displayName := "", leader := false, leftRecursive := false,
      expr := .seq 1 [.ruleRef 2 "E", .zeroOrMore 3 (.seq 4 [lit 5 "+", .ruleRef 6 "X"]), .not 7 (.any 8)] },
    { name := "E", displayName := "", leader := true, leftRecursive := true,
      expr := .choice 9 2 7 [.seq 10 [.ruleRef 11 "E", lit 12 "+", .ruleRef 13 "X", lit 14 ";"], .ruleRef 15 "X"] },
    { name := "X", displayName := "", leader := false, leftRecursive := false,
      expr := .action 16 1 (lit 17 "-") } ]

def codeD26 : CodeEnv :=
  { args := fun _ => [],
    run := fun _ ctx => { ret := .bytes ctx.text, state := ctx.state, global := ctx.global, err := some "dup" } }

def envD26 (memo : Bool) : Env :=
  { flags := { optimize := false, globalState := false, leftRec := true, basicLatin := false },
    opts := { memoize := memo }, rules := rulesD26, code := codeD26, toLower := id,
    input := "-+-;+-".toList.map (·.toNat) }

def errsOf : Final → List String
  | .ret _ errs _ => errs
  | _ => []

/-- **Finding D26 on the model**: the plain parser reports the error of every `X` (offsets 0, 2, 5);
    with `Memoize(true)` the error at offset 5 — raised inside the discarded growth attempt, rolled
    back with it, and answered from the memo table afterwards — is missing. -/
theorem C08_D26_memo_loses_rolled_back_error :
    errsOf (parse (envD26 false) 40) = ["1:1 (0): rule X: dup", "1:3 (2): rule X: dup", "1:6 (5): rule X: dup"] ∧
    errsOf (parse (envD26 true) 40) = ["1:1 (0): rule X: dup", "1:3 (2): rule X: dup"] := by
  decide

/-- `Expr <- Add "x" / "a"` ; `Add <- Expr "y" / "b"` (leader: `Add`, the smaller name); start rule `Expr` -/
def rulesD25 : List Rule :=
  [ { name := "Expr", displayName := "", leader := false, leftRecursive := true,
      expr := .choice 1 1 9 [.seq 2 [.ruleRef 3 "Add", lit 4 "x"], lit 5 "a"] },
    { name := "Add", displayName := "", leader := true, leftRecursive := true,
      expr := .choice 6 2 8 [.seq 7 [.ruleRef 8 "Expr", lit 9 "y"], lit 10 "b"] } ]

/-- the iteration the grammar denotes: `Expr <- ("b" "x" / "a") ("y" "x")*` -/
def rulesD25iter : List Rule :=
  [ { name := "Expr", displayName := "", leader := false, leftRecursive := false,
      expr := .seq 1 [.choice 2 1 9 [.seq 3 [lit 4 "b", lit 5 "x"], lit 6 "a"], .zeroOrMore 7 (.seq 8 [lit 9 "y", lit 10 "x"])] } ]

def envD25 (rules : List Rule) (lr : Bool) (inp : String) : Env :=
  { flags := { optimize := false, globalState := false, leftRec := lr, basicLatin := false },
    opts := {}, rules := rules, code := { args := fun _ => [], run := fun _ ctx => { state := ctx.state, global := ctx.global } },
    toLower := id, input := inp.toList.map (·.toNat) }

def consumed : Final → Option Nat
  | .ret _ [] s => some s.pt.pos.off
  | _ => none

/-- **Finding D25 on the model**: entered through the rule that is not the leader, the left-recursive
    pair matches only `a` of `ayxy` (the iteration it denotes matches `ayx`), and rejects `bxy`
    (the iteration matches `bx`). -/
theorem C08_D25_nonleader_entry_is_not_greedy :
    consumed (parse (envD25 rulesD25 true "ayxy") 40) = some 1 ∧
    consumed (parse (envD25 rulesD25iter false "ayxy") 40) = some 3 ∧
    consumed (parse (envD25 rulesD25 true "bxy") 40) = none ∧
    consumed (parse (envD25 rulesD25iter false "bxy") 40) = some 2 := by
  decide

/-- `A <- Z C "a" / "q"` (leader) ; `Z <- A "y" / ""` ; `C <- A "z" / "c"` with the marks pigeon EMITS for it: `C` is NOT marked
    left-recursive although it lies on a same-position cycle (`Z` is nullable); `correct = true` gives the marks it should carry -/
def rulesD37 (correct : Bool) : List Rule :=
  [ { name := "A", displayName := "", leader := true, leftRecursive := true,
      expr := .choice 1 1 1 [.seq 2 [.ruleRef 3 "Z", .ruleRef 4 "C", lit 5 "a"], lit 6 "q"] },
    { name := "Z", displayName := "", leader := false, leftRecursive := true,
      expr := .choice 7 2 1 [.seq 8 [.ruleRef 9 "A", lit 10 "y"], lit 11 ""] },
    { name := "C", displayName := "", leader := false, leftRecursive := correct,
      expr := .choice 12 3 1 [.seq 13 [.ruleRef 14 "A", lit 15 "z"], lit 16 "c"] } ]

def envD37 (correct memo : Bool) : Env :=
  { flags := { optimize := false, globalState := false, leftRec := true, basicLatin := false },
    opts := { memoize := memo }, rules := rulesD37 correct,
    code := { args := fun _ => [], run := fun _ ctx => { state := ctx.state, global := ctx.global } },
    toLower := id, input := "caza".toList.map (·.toNat) }

/-- **Finding D37 on the model**: with the marks pigeon emits, `caza` is matched completely by default and only up to offset 2
    with `Memoize(true)` - the unmarked `C` is memoized during the first growth round of `A`. With `C` marked (as a rule on a
    same-position cycle should be) both configurations match all four bytes. -/
theorem C08_D37_unmarked_rule_on_a_cycle_is_memoized :
    consumed (parse (envD37 false false) 60) = some 4 ∧ consumed (parse (envD37 false true) 60) = some 2 ∧
    consumed (parse (envD37 true false) 60) = some 4 ∧ consumed (parse (envD37 true true) 60) = some 4 := by
  decide

end Witness

end RT
end PV
