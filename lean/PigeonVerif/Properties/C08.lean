/-
  C08 — left-recursive rules parse as the left-associative iteration they denote.

  The equality "seed growing = iteration" is NOT proved. Kernel-checked here: the structural facts of
  the seed-growing loop (`parseRuleRecursiveLeader`) on the full runtime model, and — at the end of the file — the
  TERMINATION clause: with `-support-left-recursion`, a grammar in which every same-position cycle passes through a
  leader rule terminates on every input, without a budget (`C08_left_recursive_parse_terminates`,
  `Proofs/AdvanceLR.lean`, `Proofs/Conv.lean`, `Proofs/LRTerm.lean`).
-/
import PigeonVerif.Proofs.TermProof
import PigeonVerif.Proofs.LRTerm

namespace PV
namespace RT

/-- **C08 (a)** The loop keeps a result only if it is strictly longer than the previous one (after
    the first), and what it returns is the last kept result: a growth attempt that fails or does not
    extend is dropped, with the error list and the state store it found restored. -/
theorem C08_last_attempt_dropped (E : Env) (rec : Expr → PState → Outcome) (r : Rule) (startMark : Savepoint)
    (k depth : Nat) (last : MemoVal) (lastErrs : List String) (s s2 : PState) (v : Val) (ok : Bool)
    (hrule : parseRule E rec r (setMemoized s startMark (.rule r.name) last) = .done v ok s2)
    (hstop : (!ok || (s2.pt.pos.off ≤ last.end.pos.off && depth ≠ 0)) = true) :
    ∃ s', leaderLoop E rec r startMark (k + 1) depth last lastErrs s = .done last.v last.b s' ∧
      s'.errs = lastErrs ∧ s'.pt.pos.off = last.end.pos.off ∧
      (E.useState = true → s'.state = s.state) := by
  simp only [leaderLoop, hrule, Outcome.bind]
  rw [if_pos hstop]
  refine ⟨_, rfl, by simp, by simp, fun hu => by simp [restoreState, hu]⟩

/-- **C08 (b)** a growth attempt that extends the match is adopted as the new seed: the next
    iteration starts again at the rule's start position with the longer result memoized. -/
theorem C08_growth_adopted (E : Env) (rec : Expr → PState → Outcome) (r : Rule) (startMark : Savepoint)
    (k depth : Nat) (last : MemoVal) (lastErrs : List String) (s s2 : PState) (v : Val)
    (hrule : parseRule E rec r (setMemoized s startMark (.rule r.name) last) = .done v true s2)
    (hgrow : (s2.pt.pos.off ≤ last.end.pos.off && depth ≠ 0) = false) :
    leaderLoop E rec r startMark (k + 1) depth last lastErrs s =
      leaderLoop E rec r startMark k (depth + 1) { v := v, b := true, «end» := s2.pt } s2.errs
        (restore s2 startMark) := by
  simp only [leaderLoop, hrule, Outcome.bind]
  have : ¬ ((!true || (s2.pt.pos.off ≤ last.end.pos.off && depth ≠ 0)) = true) := by
    simp only [Bool.not_true, Bool.false_or, hgrow]; simp
  rw [if_neg this]

/-- **C08 (c)** the recursive reference sees the previous seed: while the loop runs, a reference to
    the leader at the rule's start offset is answered from the memo table with the last kept result. -/
theorem C08_recursive_reference_sees_seed (E : Env) (rec : Expr → PState → Outcome) (r : Rule) (k : Nat)
    (s : PState) (last : MemoVal) (hk : getMemoized s (.rule r.name) = some last) :
    parseRuleLeader E rec k r s = .done last.v last.b (restore s last.end) := by
  simp [parseRuleLeader, hk]

/-- **C08 (d)** Termination: with a budget the seed-growing loop (like every other loop) always
    returns — `C16_terminates` covers left-recursive grammars. Without a budget each adopted growth
    strictly increases the end offset, which is bounded by the input length. -/
theorem C08_growth_strictly_extends (last : MemoVal) (s2 : PState) (depth : Nat)
    (hgrow : (s2.pt.pos.off ≤ last.end.pos.off && depth ≠ 0) = false) (hd : depth ≠ 0) :
    last.end.pos.off < s2.pt.pos.off := by
  simp [hd] at hgrow
  omega

/-! ### termination -/

/-- **C08 (parsing terminates).** Left-recursion template, Memoize off, no budget. `LRWF`: a closed nullability oracle,
    repetitions over non-nullable bodies, no throw/recover, and a ranking of the rules that strictly decreases along every
    first-graph edge EXCEPT those into leader rules — every cycle "rule → rule reachable before consuming anything" passes
    through a leader (what `builder.ComputeLeftRecursives` has to provide). Then for every code environment and every input
    `Parse` returns at some finite depth: a leader without a seed runs the growing loop, inside which it has one; the
    loop ends because each round after the first must end strictly later than the seed. -/
theorem C08_left_recursive_parse_terminates (E : Env) (rn : String → Bool) (rank : String → Nat) (h : LRWF E rn rank) :
    ∃ f, parse E f ≠ .oof := lr_parse_terminates h

/-- every expression of such a grammar, from every state the parser can be in (any seeds in the table) -/
theorem C08_every_expression_terminates (E : Env) (rn : String → Bool) (rank : String → Nat) (h : LRWF E rn rank)
    (e : Expr) (s : PState) (hi : LI E rn s) (hwf : e.wfs rn = true) : ∃ f, parseExpr E f e s ≠ .oof :=
  lr_terminates h e s hi hwf

/-- progress with seeds: a successful evaluation never moves backwards, an expression that succeeds without consuming is
    nullable, every seed in the table respects the same, and the table only grows -/
theorem C08_progress_with_seeds (E : Env) (hc : LRCfg E) (rn : String → Bool)
    (hrn : ∀ n r, E.findRule n = some r → r.expr.nul rn = true → rn n = true)
    (f : Nat) (e : Expr) (s s' : PState) (v : Val) (hi : FInv E s) (hm : MA rn s) (h : parseExpr E f e s = .done v true s') :
    s.pt.pos.off ≤ s'.pt.pos.off ∧ (s'.pt.pos.off = s.pt.pos.off → e.nul rn = true) ∧ MA rn s' ∧
      ∃ new, s'.memo = new ++ s.memo := by
  have := advLR hc hrn s.memo f e s hi ⟨hm, [], by simp⟩
  rw [h] at this
  obtain ⟨⟨a, b⟩, c⟩ := this
  exact ⟨(c rfl).1, (c rfl).2, a, b⟩

/-- the hypothesis is decidable given a candidate witness; `true` is sound -/
theorem C08_checked_grammars_terminate (E : Env) (nl : List String) (rk : List (String × Nat))
    (hc : checkLRWF E nl rk = true) : ∃ f, parse E f ≠ .oof :=
  lr_parse_terminates (checkLRWF_sound hc)

/-- a leader is needed: a same-position self-loop on a rule that is NOT a leader has no ranking -/
theorem C08_cycle_without_leader_has_no_ranking (E : Env) (rn : String → Bool) (rank : String → Nat) (n : String) (r : Rule)
    (hf : E.findRule n = some r) (hself : n ∈ r.expr.first rn) (hnl : isLd r = false) : ¬ LRWF E rn rank := fun h => by
  rcases h.ranked n r hf n hself with hx | hx
  · simp [ldName, hf, hnl] at hx
  · exact Nat.lt_irrefl _ hx

namespace ExampleC08

def lit (id : Nat) (s : String) : Expr := .lit id (s.toList.map (·.toNat)) false ("\"" ++ s ++ "\"")

/-- `S <- E !.` ; `E <- E "+" T / T` (leader) ; `T <- T "*" N / N` (leader) ; `N <- "1" / "(" E ")"` -/
def rules : List Rule :=
  [ { name := "S", displayName := "", leader := false, leftRecursive := false,
      expr := .seq 1 [.ruleRef 2 "E", .not 3 (.any 4)] },
    { name := "E", displayName := "", leader := true, leftRecursive := true,
      expr := .choice 5 2 6 [.seq 6 [.ruleRef 7 "E", lit 8 "+", .ruleRef 9 "T"], .ruleRef 10 "T"] },
    { name := "T", displayName := "", leader := true, leftRecursive := true,
      expr := .choice 11 3 6 [.seq 12 [.ruleRef 13 "T", lit 14 "*", .ruleRef 15 "N"], .ruleRef 16 "N"] },
    { name := "N", displayName := "", leader := false, leftRecursive := false,
      expr := .choice 17 4 6 [lit 18 "1", .seq 19 [lit 20 "(", .ruleRef 21 "E", lit 22 ")"]] } ]

def env (inp : String) : Env :=
  { flags := { optimize := false, globalState := false, leftRec := true, basicLatin := false },
    opts := {}, rules := rules,
    code := { args := fun _ => [], run := fun _ ctx => { state := ctx.state, global := ctx.global } },
    toLower := id, input := inp.toList.map (·.toNat) }

/-- no rule is nullable; `T` ranks above `N` (its only edge to a non-leader); edges into the leaders `E`, `T` need nothing -/
theorem wellformed (inp : String) : checkLRWF (env inp) [] [("T", 1)] = true := by
  have : checkLRWF (env inp) [] [("T", 1)] = checkLRWF (env "") [] [("T", 1)] := rfl
  rw [this]; decide

example (inp : String) : ∃ f, parse (env inp) f ≠ .oof := C08_checked_grammars_terminate _ _ _ (wellformed inp)

/-- ... and it does what a left-associative grammar should on `1+1*1` (kernel-evaluated) -/
theorem parses : (match parse (env "1+1*1") 60 with | .ret _ errs _ => some errs.isEmpty | _ => none) = some true := by
  decide

/-- the same grammar with `E` NOT marked as leader fails the check (and overflows in reality) -/
def rulesBad : List Rule := rules.map (fun r => if r.name = "E" then { r with leader := false } else r)

theorem not_wellformed : checkLRWF { env "" with rules := rulesBad } [] [("T", 1)] = false := by decide

end ExampleC08

/-! ### kernel-evaluated witnesses of two listed findings (the model reproduces the code; the same inputs are
    replayed against the real generated parser by the check) -/

namespace Witness

def lit (id : Nat) (s : String) : Expr := .lit id (s.toList.map (·.toNat)) false ("\"" ++ s ++ "\"")

/-- `S <- E ("+" X)* !.` ; `E <- E "+" X ";" / X` (leader) ; `X <- "-" { return text, errors.New("dup") }` -/
def rulesD26 : List Rule :=
  [ { name := "S", displayName := "", leader := false, leftRecursive := false,
      expr := .seq 1 [.ruleRef 2 "E", .zeroOrMore 3 (.seq 4 [lit 5 "+", .ruleRef 6 "X"]), .not 7 (.any 8)] },
    { name := "E", displayName := "", leader := true, leftRecursive := true,
      expr := .choice 9 2 7 [.seq 10 [.ruleRef 11 "E", lit 12 "+", .ruleRef 13 "X", lit 14 ";"], .ruleRef 15 "X"] },
    { name := "X", displayName := "", leader := false, leftRecursive := false,
      expr := .action 16 1 (lit 17 "-") } ]

def codeD26 : CodeEnv :=
  { args := fun _ => [],
    run := fun _ ctx => { ret := .bytes ctx.text, state := ctx.state, global := ctx.global, err := some "dup" } }

def envD26 (memo : Bool) : Env :=
  { flags := { optimize := false, globalState := false, leftRec := true, basicLatin := false },
    opts := { memoize := memo }, rules := rulesD26, code := codeD26, toLower := id,
    input := "-+-;+-".toList.map (·.toNat) }

def errsOf : Final → List String
  | .ret _ errs _ => errs
  | _ => []

/-- **Finding D26 on the model**: the plain parser reports the error of every `X` (offsets 0, 2, 5);
    with `Memoize(true)` the error at offset 5 — raised inside the discarded growth attempt, rolled
    back with it, and answered from the memo table afterwards — is missing. -/
theorem C08_D26_memo_loses_rolled_back_error :
    errsOf (parse (envD26 false) 40) = ["1:1 (0): rule X: dup", "1:3 (2): rule X: dup", "1:6 (5): rule X: dup"] ∧
    errsOf (parse (envD26 true) 40) = ["1:1 (0): rule X: dup", "1:3 (2): rule X: dup"] := by
  decide

/-- `Expr <- Add "x" / "a"` ; `Add <- Expr "y" / "b"` (leader: `Add`, the smaller name); start rule `Expr` -/
def rulesD25 : List Rule :=
  [ { name := "Expr", displayName := "", leader := false, leftRecursive := true,
      expr := .choice 1 1 9 [.seq 2 [.ruleRef 3 "Add", lit 4 "x"], lit 5 "a"] },
    { name := "Add", displayName := "", leader := true, leftRecursive := true,
      expr := .choice 6 2 8 [.seq 7 [.ruleRef 8 "Expr", lit 9 "y"], lit 10 "b"] } ]

/-- the iteration the grammar denotes: `Expr <- ("b" "x" / "a") ("y" "x")*` -/
def rulesD25iter : List Rule :=
  [ { name := "Expr", displayName := "", leader := false, leftRecursive := false,
      expr := .seq 1 [.choice 2 1 9 [.seq 3 [lit 4 "b", lit 5 "x"], lit 6 "a"], .zeroOrMore 7 (.seq 8 [lit 9 "y", lit 10 "x"])] } ]

def envD25 (rules : List Rule) (lr : Bool) (inp : String) : Env :=
  { flags := { optimize := false, globalState := false, leftRec := lr, basicLatin := false },
    opts := {}, rules := rules, code := { args := fun _ => [], run := fun _ ctx => { state := ctx.state, global := ctx.global } },
    toLower := id, input := inp.toList.map (·.toNat) }

def consumed : Final → Option Nat
  | .ret _ [] s => some s.pt.pos.off
  | _ => none

/-- **Finding D25 on the model**: entered through the rule that is not the leader, the left-recursive
    pair matches only `a` of `ayxy` (the iteration it denotes matches `ayx`), and rejects `bxy`
    (the iteration matches `bx`). -/
theorem C08_D25_nonleader_entry_is_not_greedy :
    consumed (parse (envD25 rulesD25 true "ayxy") 40) = some 1 ∧
    consumed (parse (envD25 rulesD25iter false "ayxy") 40) = some 3 ∧
    consumed (parse (envD25 rulesD25 true "bxy") 40) = none ∧
    consumed (parse (envD25 rulesD25iter false "bxy") 40) = some 2 := by
  decide

end Witness

end RT
end PV
