/-
  C09 — -optimize-grammar preserves the language.

  Each rewrite of `ast.Optimize` is an algebraic law of PEG recognition. Recognisers are modelled
  denotationally as functions from the remaining input (a list of runes) to the remaining input
  after a match (`none` = failure); sub-expressions are ARBITRARY recognisers, so every law holds
  in every context and for every grammar. (Values and label scopes are not part of this model:
  what actions see is decided by the translation-validation stream harness/cmd/pvopt, which runs
  the real optimizer.)
-/
namespace PV
namespace Peg

abbrev Rune := Nat
/-- a recogniser: remaining input ↦ remaining input after the match -/
abbrev P := List Rune → Option (List Rune)

def seqP : List P → P
  | [] => fun i => some i
  | p :: ps => fun i => (p i).bind (seqP ps)

def choiceP : List P → P
  | [] => fun _ => none
  | p :: ps => fun i => match p i with
    | some r => some r
    | none => choiceP ps i

/-- literal; `f` is the case folding applied to the input rune (`id` without the `i` flag), the
    literal's runes are already folded by the builder -/
def litP (f : Rune → Rune) : List Rune → P
  | [] => fun i => some i
  | c :: cs => fun i => match i with
    | r :: rest => if f r = c then litP f cs rest else none
    | [] => none

/-- character class given by its membership predicate on the (folded) rune; never matches at EOF -/
def clsP (f : Rune → Rune) (mem : Rune → Bool) : P
  | r :: rest => if mem (f r) then some rest else none
  | [] => none

/-! ### sequences and choices -/

theorem seqP_append (a b : List P) : seqP (a ++ b) = fun i => (seqP a i).bind (seqP b) := by
  induction a with
  | nil => funext i; simp [seqP]
  | cons p ps ih =>
    funext i
    simp only [List.cons_append, seqP, ih]
    cases p i <;> simp

theorem choiceP_append (a b : List P) :
    choiceP (a ++ b) = fun i => match choiceP a i with | some r => some r | none => choiceP b i := by
  induction a with
  | nil => funext i; simp [choiceP]
  | cons p ps ih =>
    funext i
    simp only [List.cons_append, choiceP, ih]
    cases p i <;> simp

/-- **"resolve sequence expressions with only one element"** -/
theorem C09_seq_singleton (p : P) : seqP [p] = p := by
  funext i; simp only [seqP]; cases p i <;> simp

/-- **"resolve choice expressions with only one alternative"** -/
theorem C09_choice_singleton (p : P) : choiceP [p] = p := by
  funext i; simp only [choiceP]; cases p i <;> simp

/-- **"resolve nested sequences"**: a sequence nested in a sequence can be spliced in, at any position -/
theorem C09_seq_flatten (a b c : List P) : seqP (a ++ [seqP b] ++ c) = seqP (a ++ b ++ c) := by
  funext i
  simp only [List.append_assoc, seqP_append, List.singleton_append, seqP]

/-- **"resolve nested choice expressions"**: ordered choice is associative -/
theorem C09_choice_flatten (a b c : List P) : choiceP (a ++ [choiceP b] ++ c) = choiceP (a ++ b ++ c) := by
  funext i
  simp only [List.append_assoc, choiceP_append, List.singleton_append, choiceP]

/-! ### terminals -/

theorem litP_append (f : Rune → Rune) (a b : List Rune) :
    litP f (a ++ b) = fun i => (litP f a i).bind (litP f b) := by
  induction a with
  | nil => funext i; simp [litP]
  | cons c cs ih =>
    funext i
    cases i with
    | nil => simp [litP]
    | cons r rest =>
      simp only [List.cons_append, litP, ih]
      split <;> simp

/-- **"combine sequence of LitMatcher"**: `"a" "b"` ≡ `"ab"` (same `i` flag) -/
theorem C09_lit_concat (f : Rune → Rune) (a b : List Rune) : seqP [litP f a, litP f b] = litP f (a ++ b) := by
  funext i
  simp only [seqP, litP_append]
  cases litP f a i with
  | none => rfl
  | some j => simp only [Option.bind]; cases litP f b j <;> simp

/-- a one-rune literal is a one-member class -/
theorem lit1_is_class (f : Rune → Rune) (c : Rune) : litP f [c] = clsP f (fun r => r == c) := by
  funext i
  cases i with
  | nil => rfl
  | cons r rest => simp [litP, clsP]

/-- **"combine character class matcher and literal matcher"**: for NON-inverted classes the choice
    of two classes is the class of the union of their members (`"a" / "b"`, `"a" / [bc]`,
    `[ab] / "c"`, `[ab] / [cd]` are all instances, by `lit1_is_class`) -/
theorem C09_class_union (f : Rune → Rune) (m1 m2 : Rune → Bool) :
    choiceP [clsP f m1, clsP f m2] = clsP f (fun r => m1 r || m2 r) := by
  funext i
  cases i with
  | nil => rfl
  | cons r rest =>
    by_cases h1 : m1 (f r) = true <;> by_cases h2 : m2 (f r) = true <;> simp [choiceP, clsP, h1, h2]

theorem C09_lit_lit (f : Rune → Rune) (a b : Rune) :
    choiceP [litP f [a], litP f [b]] = clsP f (fun r => r == a || r == b) := by
  rw [lit1_is_class, lit1_is_class, C09_class_union]

/-- For INVERTED classes the union of the member lists is NOT the choice (finding D11, fixed):
    `[^a] / [^b]` accepts `a`, the merged `[^ab]` does not. -/
theorem C09_inverted_union_unsound :
    choiceP [clsP id (fun r => !(r == 97)), clsP id (fun r => !(r == 98))] [97]
      ≠ clsP id (fun r => !(r == 97 || r == 98)) [97] := by decide

/-- the sound law for two inverted classes: the members of the merged class would have to be the
    INTERSECTION of the two member sets -/
theorem C09_inverted_choice (f : Rune → Rune) (m1 m2 : Rune → Bool) :
    choiceP [clsP f (fun r => !m1 r), clsP f (fun r => !m2 r)] = clsP f (fun r => !(m1 r && m2 r)) := by
  funext i
  cases i with
  | nil => rfl
  | cons r rest =>
    by_cases h1 : m1 (f r) = true <;> by_cases h2 : m2 (f r) = true <;> simp [choiceP, clsP, h1, h2]

/-! ### congruence: a rewrite inside any context -/

/-- replacing a sub-recogniser by an equal one anywhere in a sequence or choice preserves the
    whole (so the local laws above apply under every context; rule inlining replaces a reference
    by the recogniser it denotes, which is the same function) -/
theorem C09_congr_seq (a c : List P) (p q : P) (h : p = q) : seqP (a ++ [p] ++ c) = seqP (a ++ [q] ++ c) := by
  rw [h]

theorem C09_congr_choice (a c : List P) (p q : P) (h : p = q) : choiceP (a ++ [p] ++ c) = choiceP (a ++ [q] ++ c) := by
  rw [h]

end Peg
end PV
