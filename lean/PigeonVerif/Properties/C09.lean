/-
  C09 — -optimize-grammar preserves the language.

  Each rewrite of `ast.Optimize` is an algebraic law of PEG recognition. Recognisers are modelled
  denotationally as functions from the remaining input (a list of runes) to the remaining input
  after a match (`none` = failure); sub-expressions are ARBITRARY recognisers, so every law holds
  in every context and for every grammar. (Values and label scopes are not part of this model:
  what actions see is decided by the translation-validation stream harness/cmd/pvopt, which runs
  the real optimizer.)

  Second part (end of the file): a VERIFIED VALIDATOR. `Opt.validate g g' … = true` implies that the optimized grammar
  `g'` matches exactly what `g` matches, for whole grammars with recursion, predicates, code predicates and repetition
  (`C09_validated_output_preserves_the_language`; `Opt/Sem.lean` recognition semantics, `Opt/Nf.lean` normal form,
  `Opt/NfSound.lean`, `Opt/Validate.lean`). The C09 check runs it on every (input, output) pair of the real
  `ast.Optimize`: the optimizer is not trusted, each of its outputs is checked by a function whose acceptance is proved
  to mean "same language".
-/
import PigeonVerif.Opt.Validate

namespace PV
namespace Peg

abbrev Rune := Nat
/-- a recogniser: remaining input ↦ remaining input after the match -/
abbrev P := List Rune → Option (List Rune)

def seqP : List P → P
  | [] => fun i => some i
  | p :: ps => fun i => (p i).bind (seqP ps)

def choiceP : List P → P
  | [] => fun _ => none
  | p :: ps => fun i => match p i with
    | some r => some r
    | none => choiceP ps i

/-- literal; `f` is the case folding applied to the input rune (`id` without the `i` flag), the
    literal's runes are already folded by the builder -/
def litP (f : Rune → Rune) : List Rune → P
  | [] => fun i => some i
  | c :: cs => fun i => match i with
    | r :: rest => if f r = c then litP f cs rest else none
    | [] => none

/-- character class given by its membership predicate on the (folded) rune; never matches at EOF -/
def clsP (f : Rune → Rune) (mem : Rune → Bool) : P
  | r :: rest => if mem (f r) then some rest else none
  | [] => none

/-! ### sequences and choices -/

theorem seqP_append (a b : List P) : seqP (a ++ b) = fun i => (seqP a i).bind (seqP b) := by
  induction a with
  | nil => funext i; simp [seqP]
  | cons p ps ih =>
    funext i
    simp only [List.cons_append, seqP, ih]
    cases p i <;> simp

theorem choiceP_append (a b : List P) :
    choiceP (a ++ b) = fun i => match choiceP a i with | some r => some r | none => choiceP b i := by
  induction a with
  | nil => funext i; simp [choiceP]
  | cons p ps ih =>
    funext i
    simp only [List.cons_append, choiceP, ih]
    cases p i <;> simp

/-- **"resolve sequence expressions with only one element"** -/
theorem C09_seq_singleton (p : P) : seqP [p] = p := by
  funext i; simp only [seqP]; cases p i <;> simp

/-- **"resolve choice expressions with only one alternative"** -/
theorem C09_choice_singleton (p : P) : choiceP [p] = p := by
  funext i; simp only [choiceP]; cases p i <;> simp

/-- **"resolve nested sequences"**: a sequence nested in a sequence can be spliced in, at any position -/
theorem C09_seq_flatten (a b c : List P) : seqP (a ++ [seqP b] ++ c) = seqP (a ++ b ++ c) := by
  funext i
  simp only [List.append_assoc, seqP_append, List.singleton_append, seqP]

/-- **"resolve nested choice expressions"**: ordered choice is associative -/
theorem C09_choice_flatten (a b c : List P) : choiceP (a ++ [choiceP b] ++ c) = choiceP (a ++ b ++ c) := by
  funext i
  simp only [List.append_assoc, choiceP_append, List.singleton_append, choiceP]

/-! ### terminals -/

theorem litP_append (f : Rune → Rune) (a b : List Rune) :
    litP f (a ++ b) = fun i => (litP f a i).bind (litP f b) := by
  induction a with
  | nil => funext i; simp [litP]
  | cons c cs ih =>
    funext i
    cases i with
    | nil => simp [litP]
    | cons r rest =>
      simp only [List.cons_append, litP, ih]
      split <;> simp

/-- **"combine sequence of LitMatcher"**: `"a" "b"` ≡ `"ab"` (same `i` flag) -/
theorem C09_lit_concat (f : Rune → Rune) (a b : List Rune) : seqP [litP f a, litP f b] = litP f (a ++ b) := by
  funext i
  simp only [seqP, litP_append]
  cases litP f a i with
  | none => rfl
  | some j => simp only [Option.bind]; cases litP f b j <;> simp

/-- a one-rune literal is a one-member class -/
theorem lit1_is_class (f : Rune → Rune) (c : Rune) : litP f [c] = clsP f (fun r => r == c) := by
  funext i
  cases i with
  | nil => rfl
  | cons r rest => simp [litP, clsP]

/-- **"combine character class matcher and literal matcher"**: for NON-inverted classes the choice
    of two classes is the class of the union of their members (`"a" / "b"`, `"a" / [bc]`,
    `[ab] / "c"`, `[ab] / [cd]` are all instances, by `lit1_is_class`) -/
theorem C09_class_union (f : Rune → Rune) (m1 m2 : Rune → Bool) :
    choiceP [clsP f m1, clsP f m2] = clsP f (fun r => m1 r || m2 r) := by
  funext i
  cases i with
  | nil => rfl
  | cons r rest =>
    by_cases h1 : m1 (f r) = true <;> by_cases h2 : m2 (f r) = true <;> simp [choiceP, clsP, h1, h2]

theorem C09_lit_lit (f : Rune → Rune) (a b : Rune) :
    choiceP [litP f [a], litP f [b]] = clsP f (fun r => r == a || r == b) := by
  rw [lit1_is_class, lit1_is_class, C09_class_union]

/-- For INVERTED classes the union of the member lists is NOT the choice (finding D11, fixed):
    `[^a] / [^b]` accepts `a`, the merged `[^ab]` does not. -/
theorem C09_inverted_union_unsound :
    choiceP [clsP id (fun r => !(r == 97)), clsP id (fun r => !(r == 98))] [97]
      ≠ clsP id (fun r => !(r == 97 || r == 98)) [97] := by decide

/-- the sound law for two inverted classes: the members of the merged class would have to be the
    INTERSECTION of the two member sets -/
theorem C09_inverted_choice (f : Rune → Rune) (m1 m2 : Rune → Bool) :
    choiceP [clsP f (fun r => !m1 r), clsP f (fun r => !m2 r)] = clsP f (fun r => !(m1 r && m2 r)) := by
  funext i
  cases i with
  | nil => rfl
  | cons r rest =>
    by_cases h1 : m1 (f r) = true <;> by_cases h2 : m2 (f r) = true <;> simp [choiceP, clsP, h1, h2]

/-! ### congruence: a rewrite inside any context -/

/-- replacing a sub-recogniser by an equal one anywhere in a sequence or choice preserves the
    whole (so the local laws above apply under every context; rule inlining replaces a reference
    by the recogniser it denotes, which is the same function) -/
theorem C09_congr_seq (a c : List P) (p q : P) (h : p = q) : seqP (a ++ [p] ++ c) = seqP (a ++ [q] ++ c) := by
  rw [h]

theorem C09_congr_choice (a c : List P) (p q : P) (h : p = q) : choiceP (a ++ [p] ++ c) = choiceP (a ++ [q] ++ c) := by
  rw [h]

end Peg

/-! ### the verified validator of the optimizer's output -/

namespace Opt

/-- **C09, language clause, for every output the validator accepts.** `g`: the grammar before `-optimize-grammar`, `g'`:
    what the optimizer made of it, `names`: the rules of `g'`. If the rules of `names` have syntactically equal normal
    forms in `g` and `g'` (`validate`; the normal form unfolds the rules selected by `inl` `k` levels deep, splices nested
    sequences and choices, concatenates adjacent literals, unites adjacent one-rune literals and non-inverted classes of a
    choice, drops one-element sequences and choices, and lists class members sorted without repetition — every step a
    proved equivalence), then each of these rules, started on any input, fails in `g'` iff it fails in `g` and succeeds
    in `g'` iff it succeeds in `g`, consuming the same prefix — under every case folding, every meaning of ranges and
    Unicode classes and every outcome of the code predicates (as functions of the block and the remaining input).
    Not in the semantics (so not covered): values and label scopes (actions, labels and state blocks are transparent),
    throw / recover (treated as failing / transparent: grammars with them are outside the theorem), and grammars on
    which some evaluation does not terminate are compared on their terminating runs only. -/
theorem C09_validated_output_preserves_the_language (S : Sem) (g g' : Gram) (inl inl' : String → Bool) (k : Nat)
    (names : List String) (h : validate g g' inl inl' k names = true) (n : String) (hn : n ∈ names) (i : List Rune)
    (r : Res) (hr : r ≠ .oof) :
    (∃ f, den S g f (.ref n) i = r) ↔ (∃ f, den S g' f (.ref n) i = r) :=
  validate_sound S h n hn i r hr

/-- the normal form itself never changes what an expression matches (same grammar; forward with the same depth) -/
theorem C09_normal_form_is_sound (S : Sem) (g : Gram) (inl : String → Bool) (k : Nat) (e : OE) (i : List Rune) (r : Res)
    (hr : r ≠ .oof) : (∃ f, den S g f e i = r) ↔ (∃ f, den S g f (nfK g inl k e) i = r) := by
  constructor
  · rintro ⟨f, hf⟩
    exact ⟨f, by rw [(nfK_sound S g inl k).1 f e i (by rw [hf]; exact hr), hf]⟩
  · rintro ⟨f, hf⟩
    obtain ⟨f', h'⟩ := (nfK_sound S g inl k).2 e f i (by rw [hf]; exact hr)
    exact ⟨f', by rw [h', hf]⟩

namespace Example

/-- `A <- B "c" / [x-z] / "w" ; B <- "a" ("b")` optimizes to `A <- "abc" / [x-zw]` (B inlined and removed) -/
def before : Gram :=
  [("A", .choice [.seq [.ref "B", .lit [99] false], .cls [] [(120, 122)] [] false false, .lit [119] false]),
   ("B", .seq [.lit [97] false, .seq [.lit [98] false]])]
def after : Gram := [("A", .choice [.lit [97, 98, 99] false, .cls [119] [(120, 122)] [] false false])]

theorem accepted : validate before after (fun n => n == "B") (fun n => n == "B") 2 ["A"] = true := by decide

/-- merging the literal with an INVERTED class is not accepted -/
def afterBad : Gram := [("A", .choice [.lit [97, 98, 99] false, .cls [119] [(120, 122)] [] false true])]
theorem rejected : validate before afterBad (fun n => n == "B") (fun n => n == "B") 2 ["A"] = false := by decide

example (S : Sem) (i : List Rune) (r : Res) (hr : r ≠ .oof) :
    (∃ f, den S before f (.ref "A") i = r) ↔ (∃ f, den S after f (.ref "A") i = r) :=
  C09_validated_output_preserves_the_language S _ _ _ _ _ _ accepted "A" (by simp) i r hr

end Example

end Opt
end PV
