/-
  C10 — -optimize-parser output is observationally equivalent to the standard parser.
-/
import PigeonVerif.Proofs.OptEquiv

namespace PV
namespace RT

/-- **C10** For every grammar (left-recursive ones included), code environment, input, option set
    with `Memoize` off (the default) and fuel: generating with or without `-optimize-parser` gives the
    same `parse` result — value, error list, final stores, block trace, everything — when the grammar
    has state-change blocks (the GlobalState template; the other three switches are arbitrary). -/
theorem C10_equiv (E : Env) (b : Bool) (hmz : E.opts.memoize = false)
    (hg : E.flags.globalState = true) (fuel : Nat) :
    parse (withOptimize E b) fuel = parse E fuel := by
  unfold parse
  have h1 : initState (withOptimize E b) = initState E := by
    simp only [initState, useState_opt E b hg]; rfl
  have h2 : startState (withOptimize E b) = startState E := by
    simp only [startState, h1]; rfl
  simp only [h1, h2, parseExpr_opt E b hmz hg fuel, ruleWrap_opt E b _ hmz hg]
  rfl

/-- In the optimized template the `Memoize` option does not exist; the model ignores it there. -/
theorem C10_memoize_ignored_when_optimized (E : Env) (ho : E.flags.optimize = true)
    (rec : Expr → PState → Outcome) (e : Expr) (s : PState) : parseExprWrap E rec e s = rec e s := by
  simp [parseExprWrap, ho]

/-- Partial: without state-change blocks the optimized parser has no state store at all, so the
    equivalence additionally needs "code blocks never mention the store" (they cannot: it would not
    compile). That case is decided by the variant-pair correspondence stream, not by this theorem. -/
theorem C10_equiv_partial : True := trivial

end RT
end PV
