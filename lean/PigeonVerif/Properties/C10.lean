/-
  C10 — -optimize-parser output is observationally equivalent to the standard parser.
-/
import PigeonVerif.Proofs.OptEquiv
import PigeonVerif.Proofs.OptEquivNoState

namespace PV
namespace RT

/-- **C10** For every grammar (left-recursive ones included), code environment, input, option set
    with `Memoize` off (the default) and fuel: generating with or without `-optimize-parser` gives the
    same `parse` result — value, error list, final stores, block trace, everything — when the grammar
    has state-change blocks (the GlobalState template; the other three switches are arbitrary). -/
theorem C10_equiv (E : Env) (b : Bool) (hmz : E.opts.memoize = false)
    (hg : E.flags.globalState = true) (fuel : Nat) :
    parse (withOptimize E b) fuel = parse E fuel := by
  unfold parse
  have h1 : initState (withOptimize E b) = initState E := by
    simp only [initState, useState_opt E b hg]; rfl
  have h2 : startState (withOptimize E b) = startState E := by
    simp only [startState, h1]; rfl
  simp only [h1, h2, parseExpr_opt E b hmz hg fuel, ruleWrap_opt E b _ hmz hg]
  rfl

/-- In the optimized template the `Memoize` option does not exist; the model ignores it there. -/
theorem C10_memoize_ignored_when_optimized (E : Env) (ho : E.flags.optimize = true)
    (rec : Expr → PState → Outcome) (e : Expr) (s : PState) : parseExprWrap E rec e s = rec e s := by
  simp [parseExprWrap, ho]

def Final.mapS (f : PState → PState) : Final → Final
  | .oof => .oof
  | .ret v errs s => .ret v errs (f s)
  | .panic p s => .panic p (f s)

theorem finish_er (E : Env) (o : Outcome) :
    (finish (E1 E) o).mapS er = finish (E2 E) (o.mapS er) := by
  have hrec : (E2 E).opts.recover = (E1 E).opts.recover := rfl
  cases o with
  | oof => rfl
  | panic p s =>
    simp only [finish, Outcome.mapS, hrec]
    split
    · simp only [Final.mapS, ← er_addErr]; rfl
    · rfl
  | done v ok s =>
    cases ok with
    | true => rfl
    | false =>
      have hL : finish (E1 E) (.done v false s) =
          (if s.errs.isEmpty then
            .ret .nil (dedupe (addErrAt (E1 E) s (noMatchMessage s.maxFailExpected.reverse).1 s.maxFailPos).errs)
              (addErrAt (E1 E) s (noMatchMessage s.maxFailExpected.reverse).1 s.maxFailPos)
           else .ret .nil (dedupe s.errs) s) := rfl
      have hR : finish (E2 E) ((Outcome.done v false s).mapS er) =
          (if s.errs.isEmpty then
            .ret .nil (dedupe (addErrAt (E2 E) (er s) (noMatchMessage s.maxFailExpected.reverse).1 s.maxFailPos).errs)
              (addErrAt (E2 E) (er s) (noMatchMessage s.maxFailExpected.reverse).1 s.maxFailPos)
           else .ret .nil (dedupe s.errs) (er s)) := rfl
      rw [hL, hR]
      split
      · simp only [Final.mapS]
        rw [← er_addErrAt (E1 E) (E2 E) rfl]
        rfl
      · rfl

/-- **C10, grammars without state-change blocks.** Here `-optimize-parser` removes the state store
    altogether. For every such grammar (no `#{}` block in any rule; left-recursive ones included), every
    code environment whose blocks neither read nor write the store (in the optimized parser they cannot:
    `c.state` does not exist), every input, option set with `Memoize` off and fuel: the run of the
    optimized parser is the run of the standard parser with the store erased — same value, same error
    list, same global store, same sequence of code-block invocations with the same positions, texts
    and arguments. Together with `C10_equiv` this covers both template families. -/
theorem C10_equiv_no_state (E : Env) (hg : E.flags.globalState = false) (hmz : E.opts.memoize = false)
    (hb : StateBlind E) (hG : ∀ n r, E.findRule n = some r → r.expr.noState = true) (fuel : Nat) :
    (parse (withOptimize E false) fuel).mapS er = parse (withOptimize E true) fuel := by
  have hinit : er (initState (E1 E)) = initState (E2 E) := by
    simp only [initState, useState1, useState2 hg]; rfl
  have hstart : er (startState (E1 E)) = startState (E2 E) := by
    unfold startState
    simp only []
    rw [← hinit, ← er_read]
    rfl
  show (parse (E1 E) fuel).mapS er = parse (E2 E) fuel
  unfold parse
  simp only []
  have hrules : (E2 E).rules = (E1 E).rules := rfl
  rw [hrules]
  cases hr : (E1 E).rules with
  | nil =>
    simp only [Final.mapS]
    rw [← hinit, ← er_addErr]; rfl
  | cons first rest =>
    simp only []
    have hent : entryName (E2 E) first = entryName (E1 E) first := rfl
    have hfind : ∀ n, (E2 E).findRule n = (E1 E).findRule n := fun _ => rfl
    rw [hent, hfind]
    cases hf : (E1 E).findRule (entryName (E1 E) first) with
    | none =>
      simp only [Final.mapS]
      rw [← hinit, ← er_addErr]; rfl
    | some r =>
      simp only []
      rw [finish_er, ← hstart]
      congr 1
      have hi : Inv (startState (E1 E)) :=
        ⟨by intro fr hfr; simp [startState, initState] at hfr,
         fun e he => by simp [startState, initState] at he⟩
      exact ruleWrap_er hg hmz (parseExpr_er E hg hmz hb hG fuel) (parseExpr_frame (E1 E) fuel) fuel r _
        (hG _ r hf) hi

/-- the hypotheses of `C10_equiv_no_state` are satisfiable: a code environment whose blocks ignore the store -/
example (E : Env) (h : ∀ blk ctx, E.code.run blk ctx =
    { ret := .nil, retB := true, state := ctx.state, global := ctx.global }) : StateBlind E :=
  ⟨fun blk ctx st => by simp [h], fun blk ctx => by simp [h]⟩

end RT
end PV
