/-
  C11 — the error contract of `Parse`, whole-parse form.

  `Properties/C11Base.lean` has the ingredients (de-duplication keeps the first occurrence in order, the prefix shape, panic
  containment on the runtime model). This file states the contract for a complete `Parse` call as ONE equation between the
  runtime model and the PEG specification:

      what the caller of Parse sees  =  Spec.run E fuel

  where `Spec.run` evaluates the start rule with the independent semantics `Spec.eval` and applies `Spec.finish`, the
  result contract written as a five-line function of the outcome (value + recorded errors de-duplicated; the single
  synthesised "no match" error computed from the log of terminal evaluations; a recovered panic as the final error at the
  place where the code block was called; the panic itself with `Recover(false)`). It is the top-level theorem of the
  runtime family: C01 (value, acceptance), C02/C05 (what code blocks saw: the trace inside the world), C11 (this file),
  C12 (the synthesised error) and C14 (handlers are an argument of `Spec.eval`) are all read off its right-hand side.
-/
import PigeonVerif.Properties.C11Base
import PigeonVerif.Properties.C12
import PigeonVerif.Proofs.SpecErrs

namespace PV
namespace RT

/-- what the caller of `Parse` sees of the model's final result -/
def Final.view : Final → Spec.Final
  | .oof => .oof
  | .ret v errs _ => .ret v errs
  | .panic p s => .panic p s.errs

theorem errPrefix_rule (E : Env) (s : PState) (pos : Pos) :
    errPrefix E s pos = Spec.errPrefix E { rule := s.rstack.head?, handlers := [] } pos := by
  unfold errPrefix Spec.errPrefix
  cases s.rstack <;> rfl

theorem firstPos_eq (E : Env) : Spec.firstPos E = firstPos E := rfl

/-- **C11 — the contract of a whole parse.** Plain configuration (no Memoize, no budget, no left-recursive rules), EVERY
    grammar, code environment, template variant, entry point, input and depth: value and error list returned by `Parse` are
    `Spec.run` - the start rule evaluated by the PEG specification, then the result contract `Spec.finish`. In particular
    (read off `Spec.finish` / `Spec.eval`): every error a code block returns is in the list, prefixed with file, position of
    its match and rule (`Spec.addErrAt` in the `action` / `andCode` / `notCode` / `stateCode` clauses), parsing continues
    after it (the clause returns `.ok` / `.fail` with the extended world), a value and errors can be returned together
    (`.ok v … w ↦ .ret v (dedupe w.errs)`), equal messages are reported once in order of first occurrence (`dedupe`:
    `C11_dedupe_nodup`, `C11_dedupe_mem`, `C11_dedupe_order`), a panic with `Recover(true)` becomes the final error with a
    nil value, and propagates with `Recover(false)`. -/
theorem C11_parse_contract (E : Env) (hp : Plain E) (fuel : Nat) : (parse E fuel).view = Spec.run E fuel := by
  cases hr : E.rules with
  | nil =>
    simp [parse, Spec.run, hr, Final.view, addErr, addErrAt, initState, dedupe, dedupeAux, Spec.topErr, errPrefix,
      Spec.errPrefix, pt0]
  | cons first rest =>
    cases hf : E.findRule (entryName E first) with
    | none =>
      simp [parse, Spec.run, hr, hf, Final.view, addErr, addErrAt, initState, dedupe, dedupeAux, Spec.topErr, errPrefix,
        Spec.errPrefix, pt0]
    | some r =>
      obtain ⟨h1, h2⟩ := C01_parse_is_peg E hp fuel first rest hr r hf
      have hrs0 : (startState E).rstack = [] := by simp [startState, initState]
      obtain ⟨s0, hs0⟩ : ∃ s0 : PState, s0 = pushV { startState E with rstack := [r] } := ⟨_, rfl⟩
      have a1 : Spec.parse E fuel = some (abs (parseExpr E fuel r.expr s0)) := by subst hs0; exact h1
      have a4 : parseRule E (parseExpr E fuel) r (startState E) =
          (parseExpr E fuel r.expr s0).bind (fun v ok s2 => .done v ok { popV s2 with rstack := (popV s2).rstack.tail }) := by
        subst hs0; unfold parseRule; simp only [wrap_eq hp.nomemo, hrs0]
      have hrun : Spec.run E fuel = Spec.finish E (abs (parseExpr E fuel r.expr s0)) := by
        simp only [Spec.run, hr, hf, a1]
      rw [hrun]
      cases ho : parseExpr E fuel r.expr s0 with
      | oof => rw [h2, a4, ho]; rfl
      | panic p s1 =>
        rw [h2, a4, ho]
        simp only [Outcome.bind, finish, abs, Spec.finish, absP]
        by_cases hrec : E.opts.recover = true
        · simp [hrec, Final.view, addErr, addErrAt, errPrefix_rule, absW]
        · simp [hrec, Final.view, absW]
      | done v ok s1 =>
        cases ok with
        | true =>
          rw [h2, a4, ho]
          simp [Outcome.bind, finish, abs, Spec.finish, Final.view, popV, absW]
        | false =>
          by_cases he : s1.errs = []
          · -- the synthesised error: C12
            have hs : Spec.parse E fuel = some (.fail (envOf s1) (absW s1)) := by rw [a1, ho]; rfl
            obtain ⟨sf, hsf⟩ := C12_report_is_declarative E hp fuel first rest hr r hf (envOf s1) (absW s1) hs
              (by simpa [absW] using he)
            rw [hsf]
            have : (absW s1).errs.isEmpty = true := by simp [absW, he]
            simp only [abs, Spec.finish, this, if_true, Final.view, topPrefix, Spec.topErr, firstPos_eq]
          · rw [h2, a4, ho]
            have h1' : ({ popV s1 with rstack := (popV s1).rstack.tail } : PState).errs ≠ [] := by simpa [popV] using he
            simp only [Outcome.bind]
            rw [C12_not_synthesised E v _ h1']
            simp [abs, Spec.finish, Final.view, popV, absW, he]

/-- every parse is covered: `Plain` is met by any environment without the three features -/
example (E : Env) (h1 : E.opts.memoize = false) (h2 : E.opts.maxExpr = none)
    (h3 : ∀ n r, E.findRule n = some r → r.leftRecursive = false ∧ r.leader = false) (fuel : Nat) :
    (parse E fuel).view = Spec.run E fuel := C11_parse_contract E ⟨h1, h2, h3⟩ fuel

/-! #### read off the contract -/

/-- a value and errors are returned together, each message once -/
theorem C11_contract_value_and_errors (E : Env) (v : Val) (pt : Savepoint) (env : List (String × Val)) (w : Spec.World) :
    Spec.finish E (.ok v pt env w) = .ret v (dedupe w.errs) := rfl

/-- a failed parse with recorded errors returns exactly those, each once, and a nil value -/
theorem C11_contract_failure_with_errors (E : Env) (env : List (String × Val)) (w : Spec.World) (h : w.errs ≠ []) :
    Spec.finish E (.fail env w) = .ret .nil (dedupe w.errs) := by
  have : w.errs.isEmpty = false := by cases hs : w.errs <;> simp_all
  simp [Spec.finish, this]

/-- with `Recover(true)` a panic is the LAST recorded error (unless the same message was recorded before: then that
    earlier occurrence stands for it), the value is nil -/
theorem C11_contract_panic_recovered (E : Env) (hrec : E.opts.recover = true) (p : PanicVal) (w : Spec.World)
    (rule : Option Rule) (pos : Pos) (hs : w.site = some (rule, pos)) :
    Spec.finish E (.panic p w) =
      .ret .nil (dedupe (w.errs ++ [Spec.errPrefix E { rule := rule, handlers := [] } pos ++ ": " ++ panicMessage p])) := by
  simp [Spec.finish, hrec, hs]

/-- with `Recover(false)` it propagates -/
theorem C11_contract_panic_propagates (E : Env) (hrec : E.opts.recover = false) (p : PanicVal) (w : Spec.World) :
    Spec.finish E (.panic p w) = .panic p w.errs := by
  simp [Spec.finish, hrec]

/-- the specification records a code block's error at the START of the action's match, in the current rule, and goes on -/
theorem C11_contract_action_error_recorded (E : Env) (rec : Spec.Ctx → Expr → List (String × Val) → Savepoint → Spec.World → Spec.Res)
    (k id blk : Nat) (e1 : Expr) (c : Spec.Ctx) (env : List (String × Val)) (pt pt' : Savepoint) (w w1 : Spec.World)
    (v1 : Val) (env' : List (String × Val)) (h : rec c e1 env pt w = .ok v1 pt' env' w1)
    (hnp : (Spec.call E blk env' pt' { w1 with curPos := pt.pos, curText := Spec.slice E pt pt' }).1.panic = none) :
    Spec.evalStep E rec k c (.action id blk e1) env pt w =
      .ok (Spec.call E blk env' pt' { w1 with curPos := pt.pos, curText := Spec.slice E pt pt' }).1.ret pt' env'
        (Spec.rollback E
          (Spec.addErrAt E c (Spec.call E blk env' pt' { w1 with curPos := pt.pos, curText := Spec.slice E pt pt' }).2
            (Spec.call E blk env' pt' { w1 with curPos := pt.pos, curText := Spec.slice E pt pt' }).1.err pt.pos)
          w1.state) := by
  simp only [Spec.evalStep, h, hnp]

/-! #### every recorded error is returned -/

/-- **errors are never taken back** (the PEG specification, every depth, every expression): whatever the evaluation of an
    expression ends in - a match, a failure that backtracking will undo, a panic - the error list of the resulting world
    extends the one it started with. An error a code block returns (or the `invalid encoding` error of a byte the reader
    advanced onto: C17) inside an alternative that is later rejected stays recorded: "parsing continues". -/
theorem C11_errors_are_never_taken_back (E : Env) (f : Nat) (c : Spec.Ctx) (e : Expr) (env : List (String × Val))
    (pt : Savepoint) (w w' : Spec.World) (h : (Spec.eval E f c e env pt w).world? = some w') : w.errs <+: w'.errs :=
  Spec.eval_grows E f c e env pt w w' h

/-- ... and what is recorded when the start rule returns is what `Parse` returns (each message once): with
    `C11_parse_contract`, every error recorded at any point of a plain parse is in the returned list -/
theorem C11_final_errors_are_returned (E : Env) (res : Spec.Res) (w : Spec.World) (hw : res.world? = some w)
    (v : Val) (errs : List String) (hf : Spec.finish E res = .ret v errs) (m : String) (hm : m ∈ w.errs) : m ∈ errs := by
  cases res with
  | oof => simp [Spec.Res.world?] at hw
  | ok v1 pt env w1 =>
    simp [Spec.Res.world?] at hw; subst hw
    simp [Spec.finish] at hf
    rw [← hf.2]; exact (C11_dedupe_mem _ m).mpr hm
  | fail env w1 =>
    simp [Spec.Res.world?] at hw; subst hw
    have hne : w1.errs.isEmpty = false := by cases hs : w1.errs <;> simp_all
    simp [Spec.finish, hne] at hf
    rw [← hf.2]; exact (C11_dedupe_mem _ m).mpr hm
  | panic p w1 =>
    simp [Spec.Res.world?] at hw; subst hw
    unfold Spec.finish at hf
    by_cases hr : E.opts.recover = true
    · simp only [hr, if_true] at hf
      cases hs : w1.site with
      | none => simp [hs] at hf; rw [← hf.2]; exact (C11_dedupe_mem _ m).mpr hm
      | some sp =>
        obtain ⟨rule, pos⟩ := sp
        simp [hs] at hf
        rw [← hf.2]; exact (C11_dedupe_mem _ m).mpr (List.mem_append_left _ hm)
    · simp [hr] at hf

end RT
end PV
