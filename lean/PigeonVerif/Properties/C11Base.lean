/-
  C11 — error contract: accumulated, deduplicated errors; panics are contained.
-/
import PigeonVerif.Model.Runtime

namespace PV

/-! ### `errList.dedupe` -/

theorem dedupeAux_sub (seen l : List String) : ∀ m ∈ dedupeAux seen l, m ∈ l ∧ m ∉ seen := by
  induction l generalizing seen with
  | nil => simp [dedupeAux]
  | cons x xs ih =>
    intro m hm
    simp only [dedupeAux] at hm
    split at hm
    · obtain ⟨h1, h2⟩ := ih seen m hm
      exact ⟨List.mem_cons_of_mem _ h1, h2⟩
    · next hx =>
      rcases List.mem_cons.mp hm with rfl | hm
      · exact ⟨List.mem_cons_self, by simpa using hx⟩
      · obtain ⟨h1, h2⟩ := ih (m := m) (x :: seen) hm
        exact ⟨List.mem_cons_of_mem _ h1, fun h => h2 (List.mem_cons_of_mem _ h)⟩

theorem dedupeAux_complete (seen l : List String) : ∀ m ∈ l, m ∉ seen → m ∈ dedupeAux seen l := by
  induction l generalizing seen with
  | nil => simp
  | cons x xs ih =>
    intro m hm hs
    simp only [dedupeAux]
    split
    · next hx =>
      rcases List.mem_cons.mp hm with rfl | hm
      · exact absurd (by simpa using hx) hs
      · exact ih seen m hm hs
    · next hx =>
      rcases List.mem_cons.mp hm with rfl | hm
      · exact List.mem_cons_self
      · by_cases hmx : m = x
        · subst hmx; exact List.mem_cons_self
        · exact List.mem_cons_of_mem _ (ih (x :: seen) m hm (by simp [hmx, hs]))

theorem dedupeAux_nodup (seen l : List String) : (dedupeAux seen l).Nodup := by
  induction l generalizing seen with
  | nil => simp [dedupeAux]
  | cons x xs ih =>
    simp only [dedupeAux]
    split
    · exact ih seen
    · refine List.nodup_cons.mpr ⟨fun h => ?_, ih _⟩
      exact (dedupeAux_sub (x :: seen) xs x h).2 List.mem_cons_self

/-- **C11 (a)** messages are reported once… -/
theorem C11_dedupe_nodup (l : List String) : (dedupe l).Nodup := dedupeAux_nodup [] l

/-- …every message that was recorded is reported, nothing else is… -/
theorem C11_dedupe_mem (l : List String) (m : String) : m ∈ dedupe l ↔ m ∈ l :=
  ⟨fun h => (dedupeAux_sub [] l m h).1, fun h => dedupeAux_complete [] l m h (by simp)⟩

/-- …in order of first occurrence (the result is a sublist of the recorded list). -/
theorem dedupeAux_sublist (seen l : List String) : (dedupeAux seen l).Sublist l := by
  induction l generalizing seen with
  | nil => simp [dedupeAux]
  | cons x xs ih =>
    simp only [dedupeAux]
    split
    · exact (ih seen).cons _
    · exact (ih _).cons_cons _

theorem C11_dedupe_order (l : List String) : (dedupe l).Sublist l := dedupeAux_sublist [] l

/-- the first recorded message is always the first reported one -/
theorem C11_dedupe_head (m : String) (l : List String) : (dedupe (m :: l)).head? = some m := by
  simp [dedupe, dedupeAux]

/-- dedupe is idempotent -/
theorem dedupeAux_of_nodup (seen l : List String) (h : l.Nodup) (hd : ∀ m ∈ l, m ∉ seen) :
    dedupeAux seen l = l := by
  induction l generalizing seen with
  | nil => rfl
  | cons x xs ih =>
    simp only [dedupeAux]
    have hx : x ∉ seen := hd x List.mem_cons_self
    have : seen.contains x = false := by simpa using hx
    simp only [this, Bool.false_eq_true, if_false]
    congr 1
    apply ih _ (List.nodup_cons.mp h).2
    intro m hm
    have : m ≠ x := fun he => (List.nodup_cons.mp h).1 (he ▸ hm)
    simp [this, hd m (List.mem_cons_of_mem _ hm)]

theorem C11_dedupe_idem (l : List String) : dedupe (dedupe l) = dedupe l :=
  dedupeAux_of_nodup [] _ (C11_dedupe_nodup l) (by simp)

namespace RT

/-- **C11 (b)** With `Recover(true)` (the default) no panic escapes `parse`: whatever a code
    block (or the budget) raises becomes the final recorded error, with a `nil` value. -/
theorem C11_panic_contained (E : Env) (fuel : Nat) (hr : E.opts.recover = true) :
    ∀ p s, parse E fuel ≠ .panic p s := by
  intro p s h
  unfold parse at h
  simp only [] at h
  split at h
  · simp at h
  · split at h
    · simp at h
    · revert h
      generalize parseRuleWrap E (parseExpr E fuel) fuel _ (startState E) = o
      cases o with
      | oof => simp [finish]
      | panic p' s' => simp [finish, hr]
      | done v ok s' => simp only [finish]; split <;> (try split) <;> simp

theorem C11_panic_becomes_final_error (E : Env) (hr : E.opts.recover = true) (p : PanicVal) (s : PState) :
    finish E (.panic p s) = .ret .nil (dedupe (s.errs ++ [errPrefix E s s.pt.pos ++ ": " ++ panicMessage p]))
      (addErr E s (panicMessage p)) := by
  simp [finish, hr, addErr, addErrAt]

/-- **C11 (c)** with `Recover(false)` the panic propagates to the caller -/
theorem C11_panic_propagates (E : Env) (hr : E.opts.recover = false) (p : PanicVal) (s : PState) :
    finish E (.panic p s) = .panic p s := by
  simp [finish, hr]

/-- a value and errors can be returned together: a successful parse returns its value and
    whatever errors were recorded on the way -/
theorem C11_value_and_errors (E : Env) (v : Val) (s : PState) :
    finish E (.done v true s) = .ret v (dedupe s.errs) s := by
  simp [finish]

/-- **C11 (d)** every error is `prefix: inner` with `prefix = [file:]line:col (offset)[: rule name]`;
    the rule part is the display name when there is one. -/
theorem C11_error_shape (E : Env) (s : PState) (msg : String) (pos : Pos) :
    (addErrAt E s msg pos).errs = s.errs ++ [errPrefix E s pos ++ ": " ++ msg] := rfl

theorem C11_prefix_display_name (E : Env) (s : PState) (pos : Pos) (r : Rule) (rs : List Rule)
    (hrs : s.rstack = r :: rs) (hd : r.displayName ≠ "") :
    errPrefix E s pos =
      (if E.opts.filename ≠ "" then E.opts.filename ++ ":" else "") ++
        toString pos.line ++ ":" ++ toString pos.col ++ " (" ++ toString pos.off ++ ")" ++
        ": " ++ ("rule " ++ r.displayName) := by
  simp [errPrefix, hrs, hd]

end RT
end PV
