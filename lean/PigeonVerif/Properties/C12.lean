/-
  C12 — a failed parse reports the farthest failure position and the exact expected set.
-/
import PigeonVerif.Properties.C11Base
import PigeonVerif.Properties.C01
import PigeonVerif.Proofs.FailLog

namespace PV

/-! ### the incremental bookkeeping of `failAt` is the declarative max / filter -/

/-- one effective `failAt` call on the pair (farthest offset, expected labels — most recent first) -/
def failStep (st : Nat × List String) (ev : Nat × String) : Nat × List String :=
  if ev.1 < st.1 then st
  else if ev.1 > st.1 then (ev.1, [ev.2])
  else (st.1, ev.2 :: st.2)

/-- declarative: the greatest offset of any event (or the initial one) -/
def farthest (m0 : Nat) (evs : List (Nat × String)) : Nat := evs.foldl (fun m e => max m e.1) m0

/-- declarative: the labels of the events at offset `m`, in order -/
def labelsAt (m : Nat) (evs : List (Nat × String)) : List String :=
  (evs.filter (fun e => e.1 = m)).map (·.2)

theorem farthest_ge (m0 : Nat) (evs : List (Nat × String)) : m0 ≤ farthest m0 evs := by
  induction evs generalizing m0 with
  | nil => exact Nat.le_refl _
  | cons e es ih => exact Nat.le_trans (Nat.le_max_left _ _) (ih (max m0 e.1))

theorem farthest_mono {a b : Nat} (h : a ≤ b) (evs : List (Nat × String)) :
    farthest a evs ≤ farthest b evs := by
  induction evs generalizing a b with
  | nil => exact h
  | cons e es ih => exact ih (by simp only [Nat.max_def]; split <;> split <;> omega)

theorem labelsAt_none (m : Nat) (evs : List (Nat × String)) (h : ∀ e ∈ evs, e.1 < m) : labelsAt m evs = [] := by
  induction evs with
  | nil => rfl
  | cons e es ih =>
    have h1 := h e List.mem_cons_self
    have : ¬ e.1 = m := by omega
    simp only [labelsAt, List.filter, this, decide_false] at *
    exact ih (fun e' he => h e' (List.mem_cons_of_mem _ he))

/-- **C12 (a)** Folding `failAt` over any sequence of terminal-failure events yields exactly the
    greatest offset and the labels of the events at that offset (in order of occurrence), whatever
    happened at smaller offsets in between. -/
theorem C12_bookkeeping (evs : List (Nat × String)) (m0 : Nat) (e0 : List String) :
    evs.foldl failStep (m0, e0) =
      (farthest m0 evs,
       (labelsAt (farthest m0 evs) evs).reverse ++ (if farthest m0 evs = m0 then e0 else [])) := by
  induction evs generalizing m0 e0 with
  | nil => simp [farthest, labelsAt]
  | cons e es ih =>
    obtain ⟨off, w⟩ := e
    simp only [List.foldl_cons, failStep]
    by_cases h1 : off < m0
    · have hmax : max m0 off = m0 := by omega
      simp only [h1, if_true]
      rw [ih]
      have hf : farthest m0 ((off, w) :: es) = farthest m0 es := by simp [farthest, hmax]
      have hne : ¬ off = farthest m0 es := by have := farthest_ge m0 es; omega
      simp [hf, labelsAt, List.filter, hne]
    · by_cases h2 : off > m0
      · have hmax : max m0 off = off := by omega
        simp only [h1, h2, if_true, if_false]
        rw [ih]
        have hf : farthest m0 ((off, w) :: es) = farthest off es := by simp [farthest, hmax]
        rw [hf]
        have hge := farthest_ge off es
        by_cases h3 : farthest off es = off
        · have hne : ¬ farthest off es = m0 := by omega
          have hne3 : ¬ off = m0 := by omega
          simp [h3, labelsAt, List.filter, hne3]
        · have hne : ¬ off = farthest off es := fun h => h3 h.symm
          have hne2 : ¬ farthest off es = m0 := by omega
          simp [h3, labelsAt, List.filter, hne, hne2]
      · have heq : off = m0 := by omega
        subst heq
        simp only [Nat.lt_irrefl, if_false]
        rw [ih]
        have hf : farthest off ((off, w) :: es) = farthest off es := by simp [farthest]
        rw [hf]
        by_cases h3 : farthest off es = off
        · simp [h3, labelsAt, List.filter]
        · have hne : ¬ off = farthest off es := fun h => h3 h.symm
          simp [h3, labelsAt, List.filter, hne]

namespace RT

/-- `failAt` is `failStep` on the (offset, expected) pair when the event counts, and the identity
    otherwise; under a `!` the label is prefixed with `!`. -/
theorem C12_failAt_is_failStep (s : PState) (fail : Bool) (pos : Pos) (want : String) :
    ((failAt s fail pos want).maxFailPos.off, (failAt s fail pos want).maxFailExpected) =
      if fail == s.maxFailInvert then
        failStep (s.maxFailPos.off, s.maxFailExpected)
          (pos.off, if s.maxFailInvert then "!" ++ want else want)
      else (s.maxFailPos.off, s.maxFailExpected) := by
  unfold failAt failAtCore failStep
  by_cases h : (fail == s.maxFailInvert) = true
  · simp only [h, if_true]
    by_cases h1 : pos.off < s.maxFailPos.off
    · simp [h1]
    · by_cases h2 : pos.off > s.maxFailPos.off
      · simp [h1, h2]
      · simp [h1, h2]
  · simp [h]

/-- when the farthest offset moves, the recorded position is the event's own position -/
theorem C12_failAt_pos (s : PState) (fail : Bool) (pos : Pos) (want : String)
    (h : (fail == s.maxFailInvert) = true) (h2 : pos.off > s.maxFailPos.off) :
    (failAt s fail pos want).maxFailPos = pos := by
  unfold failAt failAtCore
  have : ¬ pos.off < s.maxFailPos.off := by omega
  simp [h, h2, this]

end RT

/-! ### the synthesised message -/

theorem mem_insertStr (x y : String) (l : List String) : y ∈ insertStr x l ↔ y = x ∨ y ∈ l := by
  induction l with
  | nil => simp [insertStr]
  | cons z zs ih =>
    simp only [insertStr]
    split
    · simp
    · simp [ih]; constructor <;> (intro h; rcases h with h | h | h <;> simp [h])

theorem mem_sortStrs (y : String) (l : List String) : y ∈ sortStrs l ↔ y ∈ l := by
  induction l with
  | nil => simp [sortStrs]
  | cons x xs ih => simp [sortStrs, mem_insertStr, ih]

theorem sorted_insertStr (x : String) (l : List String) (h : l.Pairwise (· ≤ ·)) :
    (insertStr x l).Pairwise (· ≤ ·) := by
  induction l with
  | nil => simp [insertStr]
  | cons z zs ih =>
    simp only [insertStr]
    have hz := List.pairwise_cons.mp h
    split
    · next hle =>
      refine List.pairwise_cons.mpr ⟨?_, h⟩
      intro a ha
      rcases List.mem_cons.mp ha with rfl | ha
      · exact hle
      · exact String.le_trans hle (hz.1 a ha)
    · next hnle =>
      have hzx : z ≤ x := by
        rcases String.le_total x z with h | h
        · exact absurd h hnle
        · exact h
      refine List.pairwise_cons.mpr ⟨?_, ih hz.2⟩
      intro a ha
      rcases (mem_insertStr x a zs).mp ha with rfl | ha
      · exact hzx
      · exact hz.1 a ha

/-- **C12 (b)** the expected list is sorted … -/
theorem C12_sorted (l : List String) : (sortStrs l).Pairwise (· ≤ ·) := by
  induction l with
  | nil => simp [sortStrs]
  | cons x xs ih => exact sorted_insertStr x _ ih

/-- … lists exactly the recorded labels (end of input, recorded as `!.`, is shown as `EOF`, last) … -/
theorem C12_expected_members (expected : List String) (x : String) (hx : x ≠ "EOF") :
    x ∈ (RT.noMatchMessage expected).2 ↔ (x ∈ expected ∧ x ≠ "!.") := by
  unfold RT.noMatchMessage
  simp only []
  split
  · simp [mem_sortStrs, C11_dedupe_mem, hx]
  · simp [mem_sortStrs, C11_dedupe_mem]

theorem C12_eof_last (expected : List String) (h : "!." ∈ expected) :
    (RT.noMatchMessage expected).2.getLast? = some "EOF" := by
  unfold RT.noMatchMessage
  have : "!." ∈ dedupe expected := (C11_dedupe_mem expected "!.").mpr h
  simp [this]

/-- … and the message is the documented text -/
theorem C12_message_text (expected : List String) :
    (RT.noMatchMessage expected).1 = "no match found, expected: " ++ listJoin (RT.noMatchMessage expected).2 := by
  unfold RT.noMatchMessage; rfl

namespace RT

/-- **C12 (c)** When the start rule fails and nothing was recorded, `parse` returns exactly one
    error: the synthesised message at the farthest-failure position. -/
theorem C12_single (E : Env) (v : Val) (s : PState) (h : s.errs = []) :
    finish E (.done v false s) =
      .ret .nil [errPrefix E s s.maxFailPos ++ ": " ++ (noMatchMessage s.maxFailExpected.reverse).1]
        (addErrAt E s (noMatchMessage s.maxFailExpected.reverse).1 s.maxFailPos) := by
  simp [finish, h, addErrAt, dedupe, dedupeAux]

/-- when code blocks (or the decoder) recorded errors, no message is synthesised -/
theorem C12_not_synthesised (E : Env) (v : Val) (s : PState) (h : s.errs ≠ []) :
    finish E (.done v false s) = .ret .nil (dedupe s.errs) s := by
  have : s.errs.isEmpty = false := by cases hs : s.errs <;> simp_all
  simp [finish, this]

/-! ### finding D30: under `Memoize(true)` the expected set loses terminals -/

namespace WitnessC12

def lit (id : Nat) (s : String) : Expr := .lit id (s.toList.map (·.toNat)) false ("\"" ++ s ++ "\"")

/-- `S <- !X "q" / X "z"` ; `X <- "a"` -/
def rulesD30 : List Rule :=
  [ { name := "S", displayName := "", leader := false, leftRecursive := false,
      expr := .choice 1 1 6 [.seq 2 [.not 3 (.ruleRef 4 "X"), lit 5 "q"], .seq 6 [.ruleRef 7 "X", lit 8 "z"]] },
    { name := "X", displayName := "", leader := false, leftRecursive := false, expr := lit 9 "a" } ]

def envD30 (memo : Bool) : Env :=
  { flags := { optimize := false, globalState := false, leftRec := false, basicLatin := false },
    opts := { memoize := memo }, rules := rulesD30,
    code := { args := fun _ => [], run := fun _ ctx => { state := ctx.state, global := ctx.global } },
    toLower := id, input := "b".toList.map (·.toNat) }

def errsOf : Final → Option (List String)
  | .ret _ errs _ => some errs
  | _ => none

/-- **Finding D30 on the model** (genuine defect of the unchanged tree, reproduced on the real parser): on input `b` both
    `"a"` (the rule `X`, tried by the second alternative) and `"q"` fail at offset 0. The plain parser reports both. With
    `Memoize(true)` the second evaluation of `X` at offset 0 is a memo hit - `X` was evaluated there inside the `!` of the
    first alternative, where a FAILING terminal is not recorded - and a memo hit does not replay `failAt`: `"a"` is missing
    from the expected set, although it is a terminal that failed at the reported offset outside any predicate. -/
theorem C12_D30_memo_hit_drops_an_expected_terminal :
    errsOf (parse (envD30 false) 40) = some ["1:1 (0): no match found, expected: \"a\" or \"q\""] ∧
    errsOf (parse (envD30 true) 40) = some ["1:1 (0): no match found, expected: \"q\""] := by
  decide

end WitnessC12

end RT

/-! ### the report is a function of the terminal evaluations of the PEG semantics

  So far: `failAt` folds to max / filter (`C12_bookkeeping`) and the message is sorted, duplicate-free, EOF last.
  What follows closes the gap between the two: WHICH events reach `failAt`.

  * In every configuration (memoization, left recursion, budget, all template switches) the record
    `(maxFailPos, maxFailExpected)` is the bookkeeping `book` of the ghost log of terminal evaluations
    (`Proofs/FailLog.lean`: `parseExpr_fi`).
  * `book` is the declarative max / filter over the evaluations that count (`book_declarative`).
  * In the plain configuration the log IS the list of terminal evaluations of the PEG specification `Spec.eval`
    (the refinement theorem carries the log: `absW` has the field `attempts`, `Spec.note` writes it, the negation
    parity is part of `Spec.Ctx`), so the error `Parse` returns for an input that does not match is a function of
    the specification's run alone (`C12_report_is_declarative`).
-/

/-- the events the report is made of, in order of occurrence: (offset, label) of every terminal evaluation that
    failed outside, or matched inside, an odd number of `!` predicates -/
def events (log : List Attempt) : List (Nat × String) :=
  (log.reverse.filter Attempt.counts).map (fun a => (a.pos.off, a.label))

theorem events_cons (a : Attempt) (log : List Attempt) :
    events (a :: log) = events log ++ (if a.counts then [(a.pos.off, a.label)] else []) := by
  unfold events
  simp only [List.reverse_cons, List.filter_append, List.map_append]
  by_cases h : a.counts = true <;> simp [List.filter, h]

/-- on offsets and labels `book` is the fold of `failStep` over the events -/
theorem book_failStep (p0 : Pos) (log : List Attempt) :
    ((book p0 log).1.off, (book p0 log).2) = (events log).foldl failStep (p0.off, []) := by
  induction log with
  | nil => rfl
  | cons a log ih =>
    rw [events_cons, List.foldl_append, ← ih]
    show ((noteStep (book p0 log) a).1.off, (noteStep (book p0 log) a).2) = _
    unfold noteStep
    by_cases h : a.counts = true
    · simp only [h, if_true, List.foldl_cons, List.foldl_nil, failStep]
      by_cases h1 : a.pos.off < (book p0 log).1.off
      · simp [h1]
      · by_cases h2 : a.pos.off > (book p0 log).1.off
        · simp [h1, h2]
        · simp [h1, h2]
    · simp [h]

/-- the recorded position is the start position or the position of an evaluation that counts -/
theorem book_pos (p0 : Pos) (log : List Attempt) :
    (book p0 log).1 = p0 ∨ ∃ a ∈ log, a.counts = true ∧ a.pos = (book p0 log).1 := by
  induction log with
  | nil => exact Or.inl rfl
  | cons a log ih =>
    show (noteStep (book p0 log) a).1 = p0 ∨ ∃ b ∈ a :: log, b.counts = true ∧ b.pos = (noteStep (book p0 log) a).1
    have keep : (book p0 log).1 = p0 ∨ ∃ b ∈ a :: log, b.counts = true ∧ b.pos = (book p0 log).1 := by
      rcases ih with h | ⟨b, hb, hc, hp⟩
      · exact Or.inl h
      · exact Or.inr ⟨b, List.mem_cons_of_mem _ hb, hc, hp⟩
    unfold noteStep
    by_cases h : a.counts = true
    · simp only [h, if_true]
      by_cases h1 : a.pos.off < (book p0 log).1.off
      · simpa [h1] using keep
      · by_cases h2 : a.pos.off > (book p0 log).1.off
        · simp only [h1, h2, if_true, if_false]
          exact Or.inr ⟨a, List.mem_cons_self, h, rfl⟩
        · simpa [h1, h2] using keep
    · simpa [h] using keep

/-- **C12 (d) — the bookkeeping, declaratively.** Whatever the log: the recorded offset is the greatest offset of
    any evaluation that counts (or the start offset when there is none beyond it), the expected labels are exactly
    the labels of the counting evaluations at that offset, in order of occurrence, and the recorded position is that
    of such an evaluation (or the start position) - so its line and column are the ones the reader computed for that
    offset (`C02_pos_pure`: a pure function of input and offset). -/
theorem book_declarative (p0 : Pos) (log : List Attempt) :
    (book p0 log).1.off = farthest p0.off (events log) ∧
    (book p0 log).2.reverse = labelsAt (farthest p0.off (events log)) (events log) ∧
    ((book p0 log).1 = p0 ∨ ∃ a ∈ log, a.counts = true ∧ a.pos = (book p0 log).1) := by
  have h := book_failStep p0 log
  rw [C12_bookkeeping] at h
  simp only [Prod.mk.injEq] at h
  obtain ⟨h1, h2⟩ := h
  refine ⟨h1, ?_, book_pos p0 log⟩
  rw [h2]; simp

namespace RT

/-- the position of the first rune: where `parse` initialises `maxFailPos` -/
def firstPos (E : Env) : Pos := (nextPt E.input pt0).pos

theorem startState_pos (E : Env) : (startState E).pt.pos = firstPos E := by
  show (read E (initState E)).pt.pos = _
  rw [read_pt]; rfl

/-- **C12 (e) — every configuration.** Whatever the grammar, code, flags and options (Memoize, left recursion, a
    budget): in the state the start rule returns (or panics in), the farthest-failure record is the bookkeeping of the
    log of terminal evaluations the parser performed. -/
theorem C12_record_is_book_of_log (E : Env) (fuel : Nat) (r : Rule) :
    (parseRuleWrap E (parseExpr E fuel) fuel r (startState E)).FIOK (firstPos E) := by
  have h0 : FI (firstPos E) (startState E) := by rw [← startState_pos]; exact startState_fi E
  exact ruleWrap_fi (parseExpr_fi E (firstPos E) fuel) fuel r (startState E) h0

/-- the error prefix of an error raised outside any rule -/
def topPrefix (E : Env) (pos : Pos) : String := Spec.errPrefix E { rule := none, handlers := [] } pos

/-- **C12 (f) — the report is declarative.** Plain configuration (no Memoize: finding D30; no budget; no
    left-recursive rules), any grammar, code environment, input and depth. If the PEG specification `Spec.parse`
    says the start rule does not match and no error was recorded (no code block returned one, no undecodable byte was
    read), then `Parse` returns exactly one error, and that error is computed from the specification's log of terminal
    evaluations `w.attempts` alone: position and expected labels are `book (firstPos E) w.attempts`, i.e.
    (`book_declarative`) the greatest offset at which a terminal failed outside - or matched inside - an odd number of
    `!`, and the labels of exactly those evaluations at that offset. -/
theorem C12_report_is_declarative (E : Env) (hp : Plain E) (fuel : Nat) (first : Rule) (rest : List Rule)
    (hr : E.rules = first :: rest) (r : Rule) (hf : E.findRule (entryName E first) = some r)
    (env : List (String × Val)) (w : Spec.World)
    (hs : Spec.parse E fuel = some (.fail env w)) (he : w.errs = []) :
    ∃ s, parse E fuel =
      .ret .nil [topPrefix E (book (firstPos E) w.attempts).1 ++ ": " ++
                 (noMatchMessage (book (firstPos E) w.attempts).2.reverse).1] s := by
  obtain ⟨h1, h2⟩ := C01_parse_is_peg E hp fuel first rest hr r hf
  rw [hs] at h1
  have h1' := Option.some.inj h1
  rw [h2]
  have hg := C01_start_is_good E r
  have hfr := parseExpr_frame E fuel r.expr _ hg.memo
  have hfi : FI (firstPos E) (pushV { startState E with rstack := [r] }) := by
    have h0 : FI (firstPos E) (startState E) := by rw [← startState_pos]; exact startState_fi E
    exact h0.congr rfl
  have hfi2 := parseExpr_fi E (firstPos E) fuel r.expr _ hfi
  have hrs0 : (startState E).rstack = [] := by simp [startState, initState]
  -- name the state in which the entry rule's expression is evaluated
  obtain ⟨s0, hs0⟩ : ∃ s0 : PState, s0 = pushV { startState E with rstack := [r] } := ⟨_, rfl⟩
  have a1 : Spec.Res.fail env w = abs (parseExpr E fuel r.expr s0) := by subst hs0; exact h1'
  have a2 : (parseExpr E fuel r.expr s0).Sat (fun _ ok s' => Framed E s0 ok s') (fun s' => PanicPost E s0 s') := by
    subst hs0; exact hfr
  have a3 : (parseExpr E fuel r.expr s0).FIOK (firstPos E) := by subst hs0; exact hfi2
  have a4 : parseRule E (parseExpr E fuel) r (startState E) =
      (parseExpr E fuel r.expr s0).bind (fun v ok s2 => .done v ok { popV s2 with rstack := (popV s2).rstack.tail }) := by
    subst hs0; unfold parseRule; simp only [wrap_eq hp.nomemo, hrs0]
  have a5 : s0.rstack = [r] := by subst hs0; rfl
  rw [a4]
  revert a1 a2 a3
  generalize parseExpr E fuel r.expr s0 = o
  cases o with
  | oof => intro h; cases h
  | panic p s1 => intro h; cases h
  | done v ok s1 =>
    cases ok with
    | true => intro h; cases h
    | false =>
      intro h hfr hfi2
      simp only [abs, Spec.Res.fail.injEq] at h
      obtain ⟨_, hw⟩ := h
      have herrs : s1.errs = [] := by
        have : (absW s1).errs = w.errs := by rw [hw]
        simpa [absW, he] using this
      have hatt : s1.attempts = w.attempts := by
        have : (absW s1).attempts = w.attempts := by rw [hw]
        simpa [absW] using this
      have hrs : s1.rstack = [r] := by
        have := hfr.stk.rstack
        rw [a5] at this; exact this
      have hbk : (s1.maxFailPos, s1.maxFailExpected) = book (firstPos E) w.attempts := by
        rw [← hatt]; exact hfi2
      have hb1 : s1.maxFailPos = (book (firstPos E) w.attempts).1 := by rw [← hbk]
      have hb2 : s1.maxFailExpected = (book (firstPos E) w.attempts).2 := by rw [← hbk]
      simp only [Outcome.bind]
      rw [C12_single E v _ (by simpa [popV] using herrs)]
      simp only [popV, errPrefix, hrs, List.tail_cons, topPrefix, Spec.errPrefix, hb1, hb2]
      exact ⟨_, rfl⟩

/-! #### the theorem is not vacuous: a failing parse, its log and its report, evaluated by the kernel -/

namespace WitnessC12

/-- `S <- !X "q" / X "z"` ; `X <- "a"` on `b` (the grammar of D30, Memoize off) -/
theorem spec_run :
    (match Spec.parse (envD30 false) 40 with
     | some (.fail _ w) => some (w.errs, events w.attempts)
     | _ => none) = some ([], [(0, "\"q\""), (0, "\"a\"")]) := by
  decide

/-- ... and the report `Parse` makes of it (`C12_D30_memo_hit_drops_an_expected_terminal`, first half) -/
example : errsOf (parse (envD30 false) 40) = some ["1:1 (0): no match found, expected: \"a\" or \"q\""] :=
  C12_D30_memo_hit_drops_an_expected_terminal.1

end WitnessC12

end RT
end PV
