/-
  C12 — a failed parse reports the farthest failure position and the exact expected set.
-/
import PigeonVerif.Properties.C11

namespace PV

/-! ### the incremental bookkeeping of `failAt` is the declarative max / filter -/

/-- one effective `failAt` call on the pair (farthest offset, expected labels — most recent first) -/
def failStep (st : Nat × List String) (ev : Nat × String) : Nat × List String :=
  if ev.1 < st.1 then st
  else if ev.1 > st.1 then (ev.1, [ev.2])
  else (st.1, ev.2 :: st.2)

/-- declarative: the greatest offset of any event (or the initial one) -/
def farthest (m0 : Nat) (evs : List (Nat × String)) : Nat := evs.foldl (fun m e => max m e.1) m0

/-- declarative: the labels of the events at offset `m`, in order -/
def labelsAt (m : Nat) (evs : List (Nat × String)) : List String :=
  (evs.filter (fun e => e.1 = m)).map (·.2)

theorem farthest_ge (m0 : Nat) (evs : List (Nat × String)) : m0 ≤ farthest m0 evs := by
  induction evs generalizing m0 with
  | nil => exact Nat.le_refl _
  | cons e es ih => exact Nat.le_trans (Nat.le_max_left _ _) (ih (max m0 e.1))

theorem farthest_mono {a b : Nat} (h : a ≤ b) (evs : List (Nat × String)) :
    farthest a evs ≤ farthest b evs := by
  induction evs generalizing a b with
  | nil => exact h
  | cons e es ih => exact ih (by simp only [Nat.max_def]; split <;> split <;> omega)

theorem labelsAt_none (m : Nat) (evs : List (Nat × String)) (h : ∀ e ∈ evs, e.1 < m) : labelsAt m evs = [] := by
  induction evs with
  | nil => rfl
  | cons e es ih =>
    have h1 := h e List.mem_cons_self
    have : ¬ e.1 = m := by omega
    simp only [labelsAt, List.filter, this, decide_false] at *
    exact ih (fun e' he => h e' (List.mem_cons_of_mem _ he))

/-- **C12 (a)** Folding `failAt` over any sequence of terminal-failure events yields exactly the
    greatest offset and the labels of the events at that offset (in order of occurrence), whatever
    happened at smaller offsets in between. -/
theorem C12_bookkeeping (evs : List (Nat × String)) (m0 : Nat) (e0 : List String) :
    evs.foldl failStep (m0, e0) =
      (farthest m0 evs,
       (labelsAt (farthest m0 evs) evs).reverse ++ (if farthest m0 evs = m0 then e0 else [])) := by
  induction evs generalizing m0 e0 with
  | nil => simp [farthest, labelsAt]
  | cons e es ih =>
    obtain ⟨off, w⟩ := e
    simp only [List.foldl_cons, failStep]
    by_cases h1 : off < m0
    · have hmax : max m0 off = m0 := by omega
      simp only [h1, if_true]
      rw [ih]
      have hf : farthest m0 ((off, w) :: es) = farthest m0 es := by simp [farthest, hmax]
      have hne : ¬ off = farthest m0 es := by have := farthest_ge m0 es; omega
      simp [hf, labelsAt, List.filter, hne]
    · by_cases h2 : off > m0
      · have hmax : max m0 off = off := by omega
        simp only [h1, h2, if_true, if_false]
        rw [ih]
        have hf : farthest m0 ((off, w) :: es) = farthest off es := by simp [farthest, hmax]
        rw [hf]
        have hge := farthest_ge off es
        by_cases h3 : farthest off es = off
        · have hne : ¬ farthest off es = m0 := by omega
          have hne3 : ¬ off = m0 := by omega
          simp [h3, labelsAt, List.filter, hne3]
        · have hne : ¬ off = farthest off es := fun h => h3 h.symm
          have hne2 : ¬ farthest off es = m0 := by omega
          simp [h3, labelsAt, List.filter, hne, hne2]
      · have heq : off = m0 := by omega
        subst heq
        simp only [Nat.lt_irrefl, if_false]
        rw [ih]
        have hf : farthest off ((off, w) :: es) = farthest off es := by simp [farthest]
        rw [hf]
        by_cases h3 : farthest off es = off
        · simp [h3, labelsAt, List.filter]
        · have hne : ¬ off = farthest off es := fun h => h3 h.symm
          simp [h3, labelsAt, List.filter, hne]

namespace RT

/-- `failAt` is `failStep` on the (offset, expected) pair when the event counts, and the identity
    otherwise; under a `!` the label is prefixed with `!`. -/
theorem C12_failAt_is_failStep (s : PState) (fail : Bool) (pos : Pos) (want : String) :
    ((failAt s fail pos want).maxFailPos.off, (failAt s fail pos want).maxFailExpected) =
      if fail == s.maxFailInvert then
        failStep (s.maxFailPos.off, s.maxFailExpected)
          (pos.off, if s.maxFailInvert then "!" ++ want else want)
      else (s.maxFailPos.off, s.maxFailExpected) := by
  unfold failAt failStep
  by_cases h : (fail == s.maxFailInvert) = true
  · simp only [h, if_true]
    by_cases h1 : pos.off < s.maxFailPos.off
    · simp [h1]
    · by_cases h2 : pos.off > s.maxFailPos.off
      · simp [h1, h2]
      · simp [h1, h2]
  · simp [h]

/-- when the farthest offset moves, the recorded position is the event's own position -/
theorem C12_failAt_pos (s : PState) (fail : Bool) (pos : Pos) (want : String)
    (h : (fail == s.maxFailInvert) = true) (h2 : pos.off > s.maxFailPos.off) :
    (failAt s fail pos want).maxFailPos = pos := by
  unfold failAt
  have : ¬ pos.off < s.maxFailPos.off := by omega
  simp [h, h2, this]

end RT

/-! ### the synthesised message -/

theorem mem_insertStr (x y : String) (l : List String) : y ∈ insertStr x l ↔ y = x ∨ y ∈ l := by
  induction l with
  | nil => simp [insertStr]
  | cons z zs ih =>
    simp only [insertStr]
    split
    · simp
    · simp [ih]; constructor <;> (intro h; rcases h with h | h | h <;> simp [h])

theorem mem_sortStrs (y : String) (l : List String) : y ∈ sortStrs l ↔ y ∈ l := by
  induction l with
  | nil => simp [sortStrs]
  | cons x xs ih => simp [sortStrs, mem_insertStr, ih]

theorem sorted_insertStr (x : String) (l : List String) (h : l.Pairwise (· ≤ ·)) :
    (insertStr x l).Pairwise (· ≤ ·) := by
  induction l with
  | nil => simp [insertStr]
  | cons z zs ih =>
    simp only [insertStr]
    have hz := List.pairwise_cons.mp h
    split
    · next hle =>
      refine List.pairwise_cons.mpr ⟨?_, h⟩
      intro a ha
      rcases List.mem_cons.mp ha with rfl | ha
      · exact hle
      · exact String.le_trans hle (hz.1 a ha)
    · next hnle =>
      have hzx : z ≤ x := by
        rcases String.le_total x z with h | h
        · exact absurd h hnle
        · exact h
      refine List.pairwise_cons.mpr ⟨?_, ih hz.2⟩
      intro a ha
      rcases (mem_insertStr x a zs).mp ha with rfl | ha
      · exact hzx
      · exact hz.1 a ha

/-- **C12 (b)** the expected list is sorted … -/
theorem C12_sorted (l : List String) : (sortStrs l).Pairwise (· ≤ ·) := by
  induction l with
  | nil => simp [sortStrs]
  | cons x xs ih => exact sorted_insertStr x _ ih

/-- … lists exactly the recorded labels (end of input, recorded as `!.`, is shown as `EOF`, last) … -/
theorem C12_expected_members (expected : List String) (x : String) (hx : x ≠ "EOF") :
    x ∈ (RT.noMatchMessage expected).2 ↔ (x ∈ expected ∧ x ≠ "!.") := by
  unfold RT.noMatchMessage
  simp only []
  split
  · simp [mem_sortStrs, C11_dedupe_mem, hx]
  · simp [mem_sortStrs, C11_dedupe_mem]

theorem C12_eof_last (expected : List String) (h : "!." ∈ expected) :
    (RT.noMatchMessage expected).2.getLast? = some "EOF" := by
  unfold RT.noMatchMessage
  have : "!." ∈ dedupe expected := (C11_dedupe_mem expected "!.").mpr h
  simp [this]

/-- … and the message is the documented text -/
theorem C12_message_text (expected : List String) :
    (RT.noMatchMessage expected).1 = "no match found, expected: " ++ listJoin (RT.noMatchMessage expected).2 := by
  unfold RT.noMatchMessage; rfl

namespace RT

/-- **C12 (c)** When the start rule fails and nothing was recorded, `parse` returns exactly one
    error: the synthesised message at the farthest-failure position. -/
theorem C12_single (E : Env) (v : Val) (s : PState) (h : s.errs = []) :
    finish E (.done v false s) =
      .ret .nil [errPrefix E s s.maxFailPos ++ ": " ++ (noMatchMessage s.maxFailExpected.reverse).1]
        (addErrAt E s (noMatchMessage s.maxFailExpected.reverse).1 s.maxFailPos) := by
  simp [finish, h, addErrAt, dedupe, dedupeAux]

/-- when code blocks (or the decoder) recorded errors, no message is synthesised -/
theorem C12_not_synthesised (E : Env) (v : Val) (s : PState) (h : s.errs ≠ []) :
    finish E (.done v false s) = .ret .nil (dedupe s.errs) s := by
  have : s.errs.isEmpty = false := by cases hs : s.errs <;> simp_all
  simp [finish, this]

/-! ### finding D30: under `Memoize(true)` the expected set loses terminals -/

namespace WitnessC12

def lit (id : Nat) (s : String) : Expr := .lit id (s.toList.map (·.toNat)) false ("\"" ++ s ++ "\"")

/-- `S <- !X "q" / X "z"` ; `X <- "a"` -/
def rulesD30 : List Rule :=
  [ { name := "S", displayName := "", leader := false, leftRecursive := false,
      expr := .choice 1 1 6 [.seq 2 [.not 3 (.ruleRef 4 "X"), lit 5 "q"], .seq 6 [.ruleRef 7 "X", lit 8 "z"]] },
    { name := "X", displayName := "", leader := false, leftRecursive := false, expr := lit 9 "a" } ]

def envD30 (memo : Bool) : Env :=
  { flags := { optimize := false, globalState := false, leftRec := false, basicLatin := false },
    opts := { memoize := memo }, rules := rulesD30,
    code := { args := fun _ => [], run := fun _ ctx => { state := ctx.state, global := ctx.global } },
    toLower := id, input := "b".toList.map (·.toNat) }

def errsOf : Final → Option (List String)
  | .ret _ errs _ => some errs
  | _ => none

/-- **Finding D30 on the model** (genuine defect of the unchanged tree, reproduced on the real parser): on input `b` both
    `"a"` (the rule `X`, tried by the second alternative) and `"q"` fail at offset 0. The plain parser reports both. With
    `Memoize(true)` the second evaluation of `X` at offset 0 is a memo hit - `X` was evaluated there inside the `!` of the
    first alternative, where a FAILING terminal is not recorded - and a memo hit does not replay `failAt`: `"a"` is missing
    from the expected set, although it is a terminal that failed at the reported offset outside any predicate. -/
theorem C12_D30_memo_hit_drops_an_expected_terminal :
    errsOf (parse (envD30 false) 40) = some ["1:1 (0): no match found, expected: \"a\" or \"q\""] ∧
    errsOf (parse (envD30 true) 40) = some ["1:1 (0): no match found, expected: \"q\""] := by
  decide

end WitnessC12

end RT
end PV
