/-
  C13 — the tool is total: exit status logic of `main.go`.
  `Tool.exit` models the decision structure of `main()`: which outcome of which stage leads to
  which exit status. Termination and crash-freedom of the stages themselves are decided by
  execution (harness/cmd/pvtool), not here.
-/
import PigeonVerif.Model.Tool

namespace PV
namespace Tool

theorem exitBuild_nonzero (r : Run) (h : r.noBuild = false) (h2 : (!r.buildOK || !r.formatOK) = true) :
    exitBuild r ≠ 0 := by
  unfold exitBuild
  cases ho : r.outOpens <;> cases hb : r.buildOK <;> cases hf : r.formatOK <;> cases hw : r.writeOK <;> simp_all

theorem exitParse_nonzero (r : Run) (h : rejected r = true) : exitParse r ≠ 0 := by
  unfold exitParse
  cases hp : r.parseOK
  · simp
  · cases he : r.entrypointsKnown
    · simp
    · simp only [Bool.not_true, Bool.false_eq_true, if_false]
      have : r.noBuild = false ∧ (!r.buildOK || !r.formatOK) = true := by
        unfold rejected at h
        simp [hp, he] at h
        cases hn : r.noBuild <;> simp_all
      exact exitBuild_nonzero r this.1 this.2

/-- **C13 (exit status)** a grammar that is rejected never produces exit status 0 (help aside,
    which does not look at the grammar) -/
theorem C13_rejected_nonzero (r : Run) (hh : r.help = false) (h : rejected r = true) : exit r ≠ 0 := by
  unfold exit
  cases hf : r.flagsParse
  · simp
  · simp only [Bool.not_true, Bool.false_eq_true, if_false, hh]
    split
    · simp
    · cases hi : r.inputOpens
      · simp
      · simp only [Bool.not_true, Bool.false_eq_true, if_false]
        exact exitParse_nonzero r h

theorem exitBuild_set (r : Run) : exitBuild r ∈ [0, 4, 5, 6, 7, 8] := by
  unfold exitBuild
  cases r.noBuild <;> cases r.outOpens <;> cases r.buildOK <;> cases r.formatOK <;> cases r.writeOK <;> cases r.closeOutOK <;>
    cases r.closeInOK <;> simp

/-- the documented statuses are the only ones -/
theorem C13_status_set (r : Run) : exit r ∈ [0, 1, 2, 3, 4, 5, 6, 7, 8, 9] := by
  have hb := exitBuild_set r
  unfold exit exitParse
  cases r.flagsParse <;> cases r.help <;> cases r.inputOpens <;> cases r.parseOK <;> cases r.entrypointsKnown <;>
    simp <;> (try split) <;> simp_all <;> rcases hb with h | h | h | h | h | h <;> simp_all

end Tool
end PV
