/-
  C13 — the tool is total: exit status logic of `main.go`.
  `Tool.exit` models the decision structure of `main()`: which outcome of which stage leads to
  which exit status. Termination and crash-freedom of the stages themselves are decided by
  execution (harness/cmd/pvtool), not here.
-/
namespace PV
namespace Tool

/-- what the stages of `main()` can report -/
structure Run where
  flagsParse : Bool        -- fs.Parse succeeded
  help : Bool              -- -h / -help
  nargs : Nat              -- positional arguments
  inputOpens : Bool
  parseOK : Bool           -- ParseReader returned no error (the grammar text is accepted)
  entrypointsKnown : Bool  -- every non-empty -alternate-entrypoints name is a rule
  noBuild : Bool           -- -x
  buildOK : Bool           -- builder.BuildParser returned no error (e.g. no left recursion)
  formatOK : Bool          -- imports.Process succeeded
  writeOK : Bool
  closeOutOK : Bool
  closeInOK : Bool

/-- the part of `main()` after the grammar was parsed and the entrypoints validated -/
def exitBuild (r : Run) : Nat :=
  if r.noBuild then (if r.closeInOK then 0 else 7)
  else if !r.buildOK then 5
  else if !r.formatOK then (if r.writeOK then 6 else 7)
  else if !r.writeOK then 7
  else if !r.closeOutOK then 8
  else if !r.closeInOK then 7
  else 0

/-- the part after the input was opened -/
def exitParse (r : Run) : Nat :=
  if !r.parseOK then 3
  else if !r.entrypointsKnown then 9
  else exitBuild r

/-- exit status of `main()` (0 = falls off the end) -/
def exit (r : Run) : Nat :=
  if !r.flagsParse then 6
  else if r.help then 0
  else if r.nargs > 1 then 1
  else if !r.inputOpens then 2
  else exitParse r

/-- the grammar is rejected: it does not parse, names an unknown entrypoint, or (when a parser is
    to be built) the builder or the formatter refuses it -/
def rejected (r : Run) : Bool :=
  !r.parseOK || !r.entrypointsKnown || (!r.noBuild && (!r.buildOK || !r.formatOK))

theorem exitBuild_nonzero (r : Run) (h : r.noBuild = false) (h2 : (!r.buildOK || !r.formatOK) = true) :
    exitBuild r ≠ 0 := by
  unfold exitBuild
  cases hb : r.buildOK <;> cases hf : r.formatOK <;> cases hw : r.writeOK <;> simp_all

theorem exitParse_nonzero (r : Run) (h : rejected r = true) : exitParse r ≠ 0 := by
  unfold exitParse
  cases hp : r.parseOK
  · simp
  · cases he : r.entrypointsKnown
    · simp
    · simp only [Bool.not_true, Bool.false_eq_true, if_false]
      have : r.noBuild = false ∧ (!r.buildOK || !r.formatOK) = true := by
        unfold rejected at h
        simp [hp, he] at h
        cases hn : r.noBuild <;> simp_all
      exact exitBuild_nonzero r this.1 this.2

/-- **C13 (exit status)** a grammar that is rejected never produces exit status 0 (help aside,
    which does not look at the grammar) -/
theorem C13_rejected_nonzero (r : Run) (hh : r.help = false) (h : rejected r = true) : exit r ≠ 0 := by
  unfold exit
  cases hf : r.flagsParse
  · simp
  · simp only [Bool.not_true, Bool.false_eq_true, if_false, hh]
    split
    · simp
    · cases hi : r.inputOpens
      · simp
      · simp only [Bool.not_true, Bool.false_eq_true, if_false]
        exact exitParse_nonzero r h

theorem exitBuild_set (r : Run) : exitBuild r ∈ [0, 5, 6, 7, 8] := by
  unfold exitBuild
  cases r.noBuild <;> cases r.buildOK <;> cases r.formatOK <;> cases r.writeOK <;> cases r.closeOutOK <;>
    cases r.closeInOK <;> simp

/-- the documented statuses are the only ones -/
theorem C13_status_set (r : Run) : exit r ∈ [0, 1, 2, 3, 5, 6, 7, 8, 9] := by
  have hb := exitBuild_set r
  unfold exit exitParse
  cases r.flagsParse <;> cases r.help <;> cases r.inputOpens <;> cases r.parseOK <;> cases r.entrypointsKnown <;>
    simp <;> (try split) <;> simp_all <;> rcases hb with h | h | h | h | h <;> simp_all

end Tool
end PV
