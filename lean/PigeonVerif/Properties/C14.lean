/-
  C14 — throw and recover follow the labelled-failure semantics.
  The handler stack discipline of the runtime model.
-/
import PigeonVerif.Proofs.StoreLemmas

namespace PV
namespace RT

/-- **C14 (a)** Handlers are in force only while their guarded expression is being evaluated:
    whatever an expression does (match, fail, throw, recover, nested recoveries, memo hits,
    seed growing), the handler stack after it is the handler stack before it. -/
theorem C14_handlers_balanced (E : Env) (f : Nat) (e : Expr) (s s' : PState) (v : Val) (ok : Bool)
    (hm : MemoOK s) (h : parseExpr E f e s = .done v ok s') :
    s'.recoveryStack = s.recoveryStack := by
  have := parseExpr_frame E f e s hm
  rw [h] at this
  exact this.stk.recov

/-- **C14 (b)** `e //{L…} r` evaluates `e` with exactly one more handler frame (mapping each listed
    label to `r`) on top of the current stack, and returns `e`'s own result. -/
theorem C14_recovery_pushes (E : Env) (f : Nat) (id : Nat) (e1 r : Expr) (labels : List String)
    (s s' : PState) (v : Val) (ok : Bool)
    (h : parseExpr E (f + 1) (.recovery id e1 r labels) s = .done v ok s') :
    ∃ s1, parseExprWrap E (parseExpr E f) e1 (pushRecovery (bump s) labels r) = .done v ok s1 ∧
      s' = popRecovery s1 := by
  obtain ⟨_, hb⟩ := parseExpr_succ h
  simp only [parseExprBody, parseRecovery] at hb
  revert hb
  generalize parseExprWrap E (parseExpr E f) e1 (pushRecovery (bump s) labels r) = o
  cases o with
  | oof => simp [Outcome.bind]
  | panic p s1 => simp [Outcome.bind]
  | done v1 ok1 s1 =>
    simp only [Outcome.bind]
    intro hb
    injection hb with h1 h2 h3
    subst h1 h2 h3
    exact ⟨s1, rfl, rfl⟩

/-- the throw loop, as a specification: innermost handler first, first recovery expression
    that matches wins, none ⇒ ordinary failure -/
theorem C14_throw_no_handler (E : Env) (rec : Expr → PState → Outcome) (label : String)
    (frames : List (List (String × Expr))) (s : PState)
    (h : ∀ fr ∈ frames, lookup label fr = none) :
    parseThrow E rec label frames s = .done .nil false s := by
  induction frames with
  | nil => rfl
  | cons fr frs ih =>
    simp only [parseThrow, h fr (List.mem_cons_self)]
    exact ih (fun fr' hf => h fr' (List.mem_cons_of_mem _ hf))

theorem C14_throw_innermost_first (E : Env) (rec : Expr → PState → Outcome) (label : String)
    (fr : List (String × Expr)) (frs : List (List (String × Expr))) (r : Expr) (s : PState)
    (hl : lookup label fr = some r) :
    parseThrow E rec label (fr :: frs) s =
      (parseExprWrap E rec r s).bind fun v ok s1 =>
        if ok then .done v true s1 else parseThrow E rec label frs s1 := by
  simp only [parseThrow, hl]

end RT
end PV
