/-
  C14 — throw and recover follow the labelled-failure semantics.
  The handler stack discipline of the runtime model.
-/
import PigeonVerif.Proofs.StoreLemmas
import PigeonVerif.Proofs.ThrowLaws

namespace PV
namespace RT

/-- **C14 (a)** Handlers are in force only while their guarded expression is being evaluated:
    whatever an expression does (match, fail, throw, recover, nested recoveries, memo hits,
    seed growing), the handler stack after it is the handler stack before it. -/
theorem C14_handlers_balanced (E : Env) (f : Nat) (e : Expr) (s s' : PState) (v : Val) (ok : Bool)
    (hm : MemoOK s) (h : parseExpr E f e s = .done v ok s') :
    s'.recoveryStack = s.recoveryStack := by
  have := parseExpr_frame E f e s hm
  rw [h] at this
  exact this.stk.recov

/-- **C14 (b)** `e //{L…} r` evaluates `e` with exactly one more handler frame (mapping each listed
    label to `r`) on top of the current stack, and returns `e`'s own result. -/
theorem C14_recovery_pushes (E : Env) (f : Nat) (id : Nat) (e1 r : Expr) (labels : List String)
    (s s' : PState) (v : Val) (ok : Bool)
    (h : parseExpr E (f + 1) (.recovery id e1 r labels) s = .done v ok s') :
    ∃ s1, parseExprWrap E (parseExpr E f) e1 (pushRecovery (bump s) labels r) = .done v ok s1 ∧
      s' = popRecovery s1 := by
  obtain ⟨_, hb⟩ := parseExpr_succ h
  simp only [parseExprBody, parseRecovery] at hb
  revert hb
  generalize parseExprWrap E (parseExpr E f) e1 (pushRecovery (bump s) labels r) = o
  cases o with
  | oof => simp [Outcome.bind]
  | panic p s1 => simp [Outcome.bind]
  | done v1 ok1 s1 =>
    simp only [Outcome.bind]
    intro hb
    injection hb with h1 h2 h3
    subst h1 h2 h3
    exact ⟨s1, rfl, rfl⟩

/-- the throw loop, as a specification: innermost handler first, first recovery expression
    that matches wins, none ⇒ ordinary failure -/
theorem C14_throw_no_handler (E : Env) (rec : Expr → PState → Outcome) (label : String)
    (frames : List (List (String × Expr))) (s : PState)
    (h : ∀ fr ∈ frames, lookup label fr = none) :
    parseThrow E rec label frames s = .done .nil false s := by
  induction frames with
  | nil => rfl
  | cons fr frs ih =>
    simp only [parseThrow, h fr (List.mem_cons_self)]
    exact ih (fun fr' hf => h fr' (List.mem_cons_of_mem _ hf))

theorem C14_throw_innermost_first (E : Env) (rec : Expr → PState → Outcome) (label : String)
    (fr : List (String × Expr)) (frs : List (List (String × Expr))) (r : Expr) (s : PState)
    (hl : lookup label fr = some r) :
    parseThrow E rec label (fr :: frs) s =
      (parseExprWrap E rec r s).bind fun v ok s1 =>
        if ok then .done v true s1 else parseThrow E rec label frs s1 := by
  simp only [parseThrow, hl]

/-! ### the declarative form: the labelled-failure semantics of the independent specification, and the runtime refines it

  (`Proofs/ThrowLaws.lean`; in `Spec.eval` the handlers in force are an argument of the evaluation, innermost first.) -/

/-- **C14 (handlers are in force only while their guarded expression is evaluated).** `e //{L…} r` is `e` evaluated with one
    more handler frame; the frame is an argument of that evaluation and of nothing else. -/
theorem C14_recovery_is_guarded_eval (E : Env) (f : Nat) (c : Spec.Ctx) (id : Nat) (e1 r : Expr) (labels : List String)
    (env : List (String × Val)) (pt : Savepoint) (w : Spec.World) :
    Spec.eval E (f + 1) c (.recovery id e1 r labels) env pt w =
      Spec.eval E f { c with handlers := (labels.map (fun l => (l, r))).reverse :: c.handlers } e1 env pt w :=
  Spec.recovery_is_guarded_eval E f c id e1 r labels env pt w

/-- **C14 (a throw outside every operator listing its label fails like an ordinary mismatch)**: nothing consumed, scope and
    world untouched - so normal backtracking resumes. -/
theorem C14_unhandled_throw_fails (E : Env) (f : Nat) (c : Spec.Ctx) (id : Nat) (label : String)
    (env : List (String × Val)) (pt : Savepoint) (w : Spec.World) (h : ∀ fr ∈ c.handlers, lookup label fr = none) :
    Spec.eval E (f + 1) c (.throw id label) env pt w = .fail env w := by
  rw [Spec.throw_is_handler_search]
  exact Spec.throw_unhandled (Spec.eval E f) c label c.handlers env pt w h

/-- **C14 (the innermost operator listing the label recovers, at the throw position, with its value in place of the
    throw).** -/
theorem C14_innermost_handler_recovers (E : Env) (f : Nat) (c : Spec.Ctx) (id : Nat) (label : String)
    (fr : List (String × Expr)) (hs : List (List (String × Expr))) (r : Expr)
    (env : List (String × Val)) (pt : Savepoint) (w : Spec.World) (v : Val) (pt' : Savepoint)
    (env' : List (String × Val)) (w' : Spec.World)
    (hc : c.handlers = fr :: hs) (hl : lookup label fr = some r)
    (hr : Spec.eval E f c r env pt w = .ok v pt' env' w') :
    Spec.eval E (f + 1) c (.throw id label) env pt w = .ok v pt' env' w' := by
  rw [Spec.throw_is_handler_search, hc]
  exact Spec.throw_recovered (Spec.eval E f) c label fr hs r env pt w v pt' env' w' hl hr

/-- **C14 (if it fails, the next enclosing operator listing the label is tried, at the same position).** -/
theorem C14_failed_recovery_tries_the_next_handler (E : Env) (f : Nat) (c : Spec.Ctx) (id : Nat) (label : String)
    (fr : List (String × Expr)) (hs : List (List (String × Expr))) (r : Expr)
    (env : List (String × Val)) (pt : Savepoint) (w : Spec.World) (env' : List (String × Val)) (w' : Spec.World)
    (hc : c.handlers = fr :: hs) (hl : lookup label fr = some r)
    (hr : Spec.eval E f c r env pt w = .fail env' w') :
    Spec.eval E (f + 1) c (.throw id label) env pt w = Spec.evalThrow (Spec.eval E f) c label hs env' pt w' := by
  rw [Spec.throw_is_handler_search, hc]
  exact Spec.throw_next_handler (Spec.eval E f) c label fr hs r env pt w env' w' hl hr

/-- **C14 (the runtime implements this semantics).** Plain configuration (no Memoize, no budget, no left-recursive rules -
    C14 itself does not mention them; with a memo table the handlers in force are NOT part of the key: the observation at
    the end of DESIGN 0.5 and finding D31): for every grammar, code environment, input, depth, expression and reachable
    state, the runtime's outcome - match or not, value, end position, label scope, stores, errors, every code-block
    invocation - is the outcome of the labelled-failure semantics, the runtime's handler stack being the handlers in force. -/
theorem C14_runtime_implements_labelled_failures (E : Env) (hp : Plain E) (f : Nat) (e : Expr) (s : PState)
    (hg : Good E s) : abs (parseExpr E f e s) = Spec.eval E f (ctxOf s) e (envOf s) s.pt (absW s) :=
  throw_recover_is_spec E hp f e s hg

end RT
end PV
