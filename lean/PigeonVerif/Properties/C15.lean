/-
  C15 — -optimize-basic-latin is a pure optimisation of character classes.
-/
import PigeonVerif.Model.Runtime

namespace PV
namespace RT

/-- the same environment with the `BasicLatinLookupTable` template switch set to `b` -/
def withBasicLatin (E : Env) (b : Bool) : Env := { E with flags := { E.flags with basicLatin := b } }

theorem classContains_bl (E : Env) (b : Bool) (c : ClassDesc) (r : Rune) :
    classContains (withBasicLatin E b) c r = classContains E c r := rfl

theorem basicLatinLookup_get (E : Env) (c : ClassDesc) (r : Nat) (h : r < 128) :
    (basicLatinLookup E c).getD r false = classContains E c r := by
  unfold basicLatinLookup
  simp [List.getD, h]

/-- **C15 (a)** the precomputed decision for each of the 128 Basic Latin runes equals the decision of
    the general matching procedure — for every class (any mix of characters, ranges and Unicode
    classes, with or without `^` and `i`) -/
theorem C15_table_eq_general (E : Env) (c : ClassDesc) (r : Nat) (h : r < 128) :
    ((basicLatinLookup E c).getD r false != c.inverted) = (classContains E c r != c.inverted) := by
  rw [basicLatinLookup_get E c r h]

/-- **C15 (b)** a parser generated with `-optimize-basic-latin` matches a class exactly when the
    parser generated without it does: for every class whose table was computed by
    `BasicLatinLookup`, every parser state (ASCII rune, non-ASCII rune, invalid byte, end of input)
    `parseCharClassMatcher` returns the same outcome in both template variants. -/
theorem C15_equiv (E : Env) (c : ClassDesc) (s : PState)
    (htab : c.basicLatin = basicLatinLookup E c) :
    parseCharClass (withBasicLatin E true) c s = parseCharClass (withBasicLatin E false) c s := by
  unfold parseCharClass
  simp only [withBasicLatin, Bool.true_and, Bool.false_and, Bool.false_eq_true, if_false]
  by_cases h : s.pt.rn < 128
  · have hne : ¬ (s.pt.rn = runeError ∧ s.pt.w = 0) := by
      intro ⟨h1, _⟩; rw [h1] at h; simp [runeError] at h
    have hget := basicLatinLookup_get E c s.pt.rn h
    simp only [h, decide_true, if_true, htab]
    have hne' : ¬ (s.pt.rn = runeError && s.pt.w = 0) = true := by simpa using hne
    simp only [hne', if_false, Bool.false_eq_true]
    change (if ((basicLatinLookup E c).getD s.pt.rn false != c.inverted) = true then _ else _) = _
    rw [hget]
    rfl
  · simp only [h, decide_false, if_false, Bool.false_eq_true]
    rfl

/-- with the table switched off the table field is never read -/
theorem C15_table_unused_without_flag (E : Env) (c : ClassDesc) (tab : List Bool) (s : PState)
    (h : E.flags.basicLatin = false) :
    parseCharClass E { c with basicLatin := tab } s = parseCharClass E c s := by
  unfold parseCharClass
  simp only [h, Bool.false_and, Bool.false_eq_true, if_false]
  rfl

end RT
end PV
