/-
  C16 — MaxExpressions bounds every parse (budget part; termination is in C16T).
-/
import PigeonVerif.Proofs.TermProof
import PigeonVerif.Proofs.FuelMono
import PigeonVerif.Proofs.TermMemo
import PigeonVerif.Proofs.BudgetTransparent
import PigeonVerif.Properties.C11Base

namespace PV
namespace RT

/-- **C16 (a)** With `MaxExpressions(n)`: every normal return happens with at most `n` expressions
    evaluated; a panic (budget or code block) is raised with at most `n+1` counted. Holds under
    every other option (Memoize, left recursion, …). -/
theorem C16_bound (E : Env) (n : Nat) (hn : E.opts.maxExpr = some n) (f : Nat) (e : Expr) (s : PState)
    (hm : MemoOK s) (hs : s.exprCnt ≤ n) :
    match parseExpr E f e s with
    | .oof => True
    | .done _ _ s' => s'.exprCnt ≤ n
    | .panic _ s' => s'.exprCnt ≤ n + 1 := by
  have := parseExpr_frame E f e s hm
  revert this
  generalize parseExpr E f e s = o
  cases o with
  | oof => intro _; trivial
  | done v ok s' => intro h; exact h.stk.bnd n hn hs
  | panic p s' => intro h; exact h.bnd n hn hs

/-- **C16 (b)** The budget panic is the documented error, and it is raised exactly when the
    counter passes the budget. -/
theorem C16_reports (E : Env) (n : Nat) (hn : E.opts.maxExpr = some n) (rec : Expr → PState → Outcome)
    (k : Nat) (e : Expr) (s : PState) (h : s.exprCnt ≥ n) :
    parseExprStep E rec k e s = .panic (.err "max number of expressions parsed") (bump s) := by
  unfold parseExprStep
  have : overBudget E (bump s) = true := by
    simp only [overBudget, hn, bump]
    exact decide_eq_true (by omega)
  rw [if_pos this]; rfl

/-- **C16 (c)** While the budget is not exceeded the budgeted parser does exactly what the
    unbudgeted one does at that step (the check is the only difference). -/
theorem C16_transparent_step (E : Env) (rec : Expr → PState → Outcome) (k : Nat) (e : Expr) (s : PState)
    (h : overBudget E (bump s) = false) :
    parseExprStep E rec k e s = parseExprBody E rec k e (bump s) := by
  unfold parseExprStep; rw [if_neg (by simp [h])]

/-- exprCnt never decreases (so "at most n evaluated" is about the whole parse) -/
theorem C16_monotone (E : Env) (f : Nat) (e : Expr) (s s' : PState) (v : Val) (ok : Bool)
    (hm : MemoOK s) (h : parseExpr E f e s = .done v ok s') : s.exprCnt ≤ s'.exprCnt := by
  have := parseExpr_frame E f e s hm
  rw [h] at this
  exact this.stk.cnt


theorem read_memo_ok (E : Env) : MemoOK (startState E) :=
  (initState_memo E).congr (by show (read E (initState E)).memo = _; simp)
where initState_memo (E : Env) : MemoOK (initState E) := fun _ h => by simp [initState] at h

/-- **C16 (d)** Termination: with `MaxExpressions(n)` and `Memoize(false)` every parse — of any
    grammar, including ones whose repetitions can iterate without consuming input and
    left-recursive ones — returns: with fuel `≥ n + 2` the model never runs out of fuel. -/
theorem C16_terminates (E : Env) (n : Nat) (hn : E.opts.maxExpr = some n)
    (hmz : E.opts.memoize = false) (fuel : Nat) (hf : n + 2 ≤ fuel) :
    parse E fuel ≠ .oof := by
  intro h
  unfold parse at h
  simp only [] at h
  split at h
  · simp at h
  · split at h
    · simp at h
    · next r _ =>
      have hrec : RecOK E (parseExpr E fuel) n 0 :=
        ⟨parseExpr_frame E fuel, fun e s v ok s' hm h => parseExpr_strict E fuel e s s' v ok hm h,
         fun e s hm _ hb => parseExpr_term E n hn hmz fuel e s hm (by omega) hb⟩
      have hcnt : (startState E).exprCnt = 0 := by simp [startState, initState]
      have := ruleWrap_term hn hmz hrec fuel r (startState E) (read_memo_ok E)
        (Nat.zero_le _) (by omega) (by omega)
      revert this h
      generalize parseRuleWrap E (parseExpr E fuel) fuel r (startState E) = o
      cases o with
      | oof => intro _ h; exact absurd rfl h
      | panic p s => simp only [finish]; split <;> simp
      | done v ok s => simp only [finish]; split <;> (try split) <;> simp

/-- **C16 (e)** The fuel of the model is only a recursion device: once a parse returns, every larger
    fuel returns the same final result — in every configuration (memoization, left recursion,
    with or without a budget). -/
theorem C16_result_independent_of_fuel (E : Env) (f f' : Nat) (hf : f ≤ f') (hne : parse E f ≠ .oof) :
    parse E f' = parse E f := parse_mono E hf hne

/-- **C16 (f)** ... so under a budget (Memoize off) the parse is a TOTAL function of grammar, options
    and input: the result exists (fuel `n + 2`) and no fuel gives another one. -/
theorem C16_parse_total (E : Env) (n : Nat) (hn : E.opts.maxExpr = some n) (hmz : E.opts.memoize = false)
    (fuel : Nat) (hf : n + 2 ≤ fuel) : parse E fuel = parse E (n + 2) ∧ parse E (n + 2) ≠ .oof :=
  ⟨parse_mono E hf (C16_terminates E n hn hmz (n + 2) (Nat.le_refl _)), C16_terminates E n hn hmz (n + 2) (Nat.le_refl _)⟩

/-- **C16 (g)** Termination under EVERY combination of the other runtime options: with
    `MaxExpressions(n)` every parse returns, Memoize on or off (and Debug, Statistics, Recover,
    AllowInvalidUTF8, entrypoints, all template switches, left recursion): fuel `2n + 2` suffices.
    The measure is `exprCnt + memoHits`: an evaluation charges the first, a memo hit the second
    (Proofs/TermMemo.lean). Before the repair of finding D15 (memo hits were free) this statement
    was false: `("a"?)*` with Memoize spun on cache hits for ever. -/
theorem C16_terminates_any_options (E : Env) (n : Nat) (hn : E.opts.maxExpr = some n) (fuel : Nat)
    (hf : 2 * n + 2 ≤ fuel) : parse E fuel ≠ .oof := by
  intro h
  unfold parse at h
  simp only [] at h
  split at h
  · simp at h
  · split at h
    · simp at h
    · next r _ =>
      have hrec : RecOK2 E (parseExpr E fuel) n 0 :=
        ⟨parseExpr_frame E fuel, fun e s v ok s' hm h => parseExpr_strict E fuel e s s' v ok hm h,
         parseExpr_hits E n hn fuel,
         fun e s hm _ hb hh => parseExpr_term2 E n hn fuel e s hm (by omega) hb hh⟩
      have hcnt : (startState E).exprCnt = 0 := by simp [startState, initState]
      have hhit : (startState E).memoHits = 0 := by simp [startState, initState]
      have := ruleWrap_term2 hn hrec fuel r (startState E) (read_memo_ok E)
        (Nat.zero_le _) (by omega) (by omega) (by omega)
      revert this h
      generalize parseRuleWrap E (parseExpr E fuel) fuel r (startState E) = o
      cases o with
      | oof => intro _ h; exact absurd rfl h
      | panic p s => simp only [finish]; split <;> simp
      | done v ok s => simp only [finish]; split <;> (try split) <;> simp

/-- ... hence the parse is a total function of grammar, options and input under any budget -/
theorem C16_parse_total_any_options (E : Env) (n : Nat) (hn : E.opts.maxExpr = some n) (fuel : Nat)
    (hf : 2 * n + 2 ≤ fuel) : parse E fuel = parse E (2 * n + 2) ∧ parse E (2 * n + 2) ≠ .oof :=
  ⟨parse_mono E hf (C16_terminates_any_options E n hn _ (Nat.le_refl _)), C16_terminates_any_options E n hn _ (Nat.le_refl _)⟩

/-! ### a budget that is not exhausted is invisible (whole parse, every configuration) -/

theorem finish_noBudget (E : Env) (o : Outcome) : finish (withoutBudget E) o = finish E o := by
  cases o <;> rfl

/-- **C16 (h) — "with a budget that is not exhausted the result is identical to the unbounded parse".** EVERY grammar, code
    environment, template variant and option set (Memoize, left recursion, Recover, …), every input and depth: if `Parse`
    with `MaxExpressions(n)` returns a result whose error list does not report the budget error, then `Parse` WITHOUT
    `MaxExpressions` returns exactly the same result - value, error list, and final parser state (counters included).
    (`Proofs/BudgetTransparent.lean`: the budget is read in two places, both raise a panic nothing catches.) -/
theorem C16_unexhausted_budget_is_transparent (E : Env) (f : Nat) (v : Val) (errs : List String) (s : PState)
    (h : parse E f = .ret v errs s) (hno : ∀ m ∈ errs, ∀ p : String, m ≠ p ++ ": " ++ errMaxExprCnt) :
    parse (withoutBudget E) f = .ret v errs s := by
  unfold parse at h ⊢
  have hr : (withoutBudget E).rules = E.rules := rfl
  have hi : initState (withoutBudget E) = initState E := rfl
  have hs : startState (withoutBudget E) = startState E := rfl
  simp only [hr, hi, hs, noBudget_addErr]
  cases hrules : E.rules with
  | nil => simp only [hrules] at h; exact h
  | cons first rest =>
    simp only [hrules] at h ⊢
    have he : entryName (withoutBudget E) first = entryName E first := rfl
    simp only [he, noBudget_findRule]
    cases hf : E.findRule (entryName E first) with
    | none => simp only [hf] at h; exact h
    | some r =>
      simp only [hf] at h ⊢
      have hnbp : ¬ (parseRuleWrap E (parseExpr E f) f r (startState E)).BP := by
        intro hbp
        cases ho : parseRuleWrap E (parseExpr E f) f r (startState E) with
        | oof => rw [ho] at hbp; exact hbp
        | done v1 ok s1 => rw [ho] at hbp; exact hbp
        | panic p s1 =>
          rw [ho] at hbp h
          cases p with
          | str m => exact hbp
          | int n => exact hbp
          | err m =>
            have hm : m = errMaxExprCnt := hbp
            subst hm
            by_cases hrec : E.opts.recover = true
            · simp only [finish, hrec, if_true] at h
              injection h with _ h2 _
              have hx : errPrefix E s1 s1.pt.pos ++ ": " ++ errMaxExprCnt ∈ errs := by
                rw [← h2]
                refine (C11_dedupe_mem _ _).mpr ?_
                simp [addErr, addErrAt, panicMessage]
              exact hno _ hx _ rfl
            · simp [finish, hrec] at h
      rw [ruleWrap_nb (parseExpr_nb E f) f r (startState E) hnbp, finish_noBudget]
      exact h

/-- the hypothesis is met whenever the parse succeeded without errors (`errs = []`), and by every error list that does not
    mention the budget -/
example (E : Env) (f : Nat) (v : Val) (s : PState) (h : parse E f = .ret v [] s) : parse (withoutBudget E) f = .ret v [] s :=
  C16_unexhausted_budget_is_transparent E f v [] s h (fun m hm => by simp at hm)

end RT
end PV
