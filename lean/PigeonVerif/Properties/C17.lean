/-
  C17 — invalid UTF-8 is reported by default and matched bytewise when allowed.
-/
import PigeonVerif.Model.Runtime

namespace PV

/-- Well-formed UTF-8 byte sequences, Unicode Table 3-7 / RFC 3629 (independent of the decoder). -/
def wellFormed : List Nat → Bool
  | [b0] => b0 < 0x80
  | [b0, b1] => 0xC2 ≤ b0 && b0 ≤ 0xDF && isCont b1
  | [b0, b1, b2] =>
    ((b0 == 0xE0 && 0xA0 ≤ b1 && b1 ≤ 0xBF) || (0xE1 ≤ b0 && b0 ≤ 0xEC && isCont b1)
      || (b0 == 0xED && 0x80 ≤ b1 && b1 ≤ 0x9F) || (0xEE ≤ b0 && b0 ≤ 0xEF && isCont b1)) && isCont b2
  | [b0, b1, b2, b3] =>
    ((b0 == 0xF0 && 0x90 ≤ b1 && b1 ≤ 0xBF) || (0xF1 ≤ b0 && b0 ≤ 0xF3 && isCont b1)
      || (b0 == 0xF4 && 0x80 ≤ b1 && b1 ≤ 0x8F)) && isCont b2 && isCont b3
  | _ => false

/-- **C17 (a)** end of input: width 0 -/
theorem C17_decode_eof : decodeRune [] = (runeError, 0) := rfl

theorem dec2_sound (p0 : Nat) (rest : List Nat) (r : Rune) (n : Nat) (h : dec2 p0 rest = (r, n)) :
    (r = runeError ∧ n = 1) ∨ (n = 2 ∧ ∃ b1 tl, rest = b1 :: tl ∧ isCont b1 = true) := by
  unfold dec2 at h
  split at h
  · next b1 tl =>
    split at h
    · next hc => right; simp at h; exact ⟨h.2.symm, b1, tl, rfl, hc⟩
    · left; simp at h; exact ⟨h.1.symm, h.2.symm⟩
  · left; simp at h; exact ⟨h.1.symm, h.2.symm⟩

theorem dec3_sound (p0 lo hi : Nat) (rest : List Nat) (r : Rune) (n : Nat)
    (h : dec3 p0 lo hi rest = (r, n)) :
    (r = runeError ∧ n = 1) ∨
      (n = 3 ∧ ∃ b1 b2 tl, rest = b1 :: b2 :: tl ∧ lo ≤ b1 ∧ b1 ≤ hi ∧ isCont b2 = true) := by
  unfold dec3 at h
  split at h
  · next b1 b2 tl =>
    split at h
    · next hc =>
      right; simp at h hc
      exact ⟨h.2.symm, b1, b2, tl, rfl, hc.1.1, hc.1.2, hc.2⟩
    · left; simp at h; exact ⟨h.1.symm, h.2.symm⟩
  · left; simp at h; exact ⟨h.1.symm, h.2.symm⟩

theorem dec4_sound (p0 lo hi : Nat) (rest : List Nat) (r : Rune) (n : Nat)
    (h : dec4 p0 lo hi rest = (r, n)) :
    (r = runeError ∧ n = 1) ∨
      (n = 4 ∧ ∃ b1 b2 b3 tl, rest = b1 :: b2 :: b3 :: tl ∧ lo ≤ b1 ∧ b1 ≤ hi ∧ isCont b2 = true ∧
        isCont b3 = true) := by
  unfold dec4 at h
  split at h
  · next b1 b2 b3 tl =>
    split at h
    · next hc =>
      right; simp at h hc
      exact ⟨h.2.symm, b1, b2, b3, tl, rfl, hc.1.1.1, hc.1.1.2, hc.1.2, hc.2⟩
    · left; simp at h; exact ⟨h.1.symm, h.2.symm⟩
  · left; simp at h; exact ⟨h.1.symm, h.2.symm⟩

/-- **C17 (b)** Every result of the decoder is either end of input, or the one-byte rune U+FFFD,
    or a rune of width `n` whose `n` bytes are a well-formed UTF-8 sequence. Hence every byte that
    does not start a well-formed sequence — truncated sequences, overlongs (C0/C1, E0 80.., F0 80..),
    surrogates (ED A0..), > U+10FFFF (F4 90.., F5..), stray continuation bytes — is a one-byte U+FFFD. -/
theorem C17_decode_sound (bs : List Nat) (r : Rune) (n : Nat) (h : decodeRune bs = (r, n)) :
    (n = 0 ∧ bs = []) ∨ (r = runeError ∧ n = 1 ∧ bs ≠ []) ∨
      (wellFormed (bs.take n) = true ∧ n ≤ bs.length) := by
  unfold decodeRune at h
  split at h
  · left; simp at h; exact ⟨h.2.symm, rfl⟩
  · next p0 rest =>
    right
    split at h
    · next h0 => right; simp at h; obtain ⟨_, rfl⟩ := h; simp [wellFormed, h0]
    split at h
    · left; simp at h; exact ⟨h.1.symm, h.2.symm, by simp⟩
    split at h
    · rcases dec2_sound _ _ _ _ h with ⟨rfl, rfl⟩ | ⟨rfl, b1, tl, rfl, hc⟩
      · left; simp
      · right; simp [wellFormed, hc]; omega
    split at h
    · next he0 =>
      rcases dec3_sound _ _ _ _ _ _ h with ⟨rfl, rfl⟩ | ⟨rfl, b1, b2, tl, rfl, h1, h2, hc⟩
      · left; simp
      · right; subst he0; simp [wellFormed, hc, h1, h2]
    split at h
    · next hed =>
      rcases dec3_sound _ _ _ _ _ _ h with ⟨rfl, rfl⟩ | ⟨rfl, b1, b2, tl, rfl, h1, h2, hc⟩
      · left; simp
      · right; subst hed; simp [wellFormed, hc, h1, h2]
    split at h
    · next hne0 hned hlt =>
      rcases dec3_sound _ _ _ _ _ _ h with ⟨rfl, rfl⟩ | ⟨rfl, b1, b2, tl, rfl, h1, h2, hc⟩
      · left; simp
      · right
        have hcb1 : isCont b1 = true := by simp [isCont, h1, h2]
        simp only [List.take, wellFormed, hc, hcb1, Bool.and_true]
        refine ⟨?_, by simp⟩
        by_cases hle : p0 ≤ 0xEC
        · have : 0xE1 ≤ p0 := by omega
          simp [this, hle]
        · have h1' : 0xEE ≤ p0 := by omega
          have h2' : p0 ≤ 0xEF := by omega
          simp [h1', h2']
    split at h
    · next hf0 =>
      rcases dec4_sound _ _ _ _ _ _ h with ⟨rfl, rfl⟩ | ⟨rfl, b1, b2, b3, tl, rfl, h1, h2, hc2, hc3⟩
      · left; simp
      · right; subst hf0; simp [wellFormed, hc2, hc3, h1, h2]
    split at h
    · next hnf0 hlt =>
      rcases dec4_sound _ _ _ _ _ _ h with ⟨rfl, rfl⟩ | ⟨rfl, b1, b2, b3, tl, rfl, h1, h2, hc2, hc3⟩
      · left; simp
      · right
        have hcb1 : isCont b1 = true := by simp [isCont, h1, h2]
        have ha : 0xF1 ≤ p0 := by omega
        have hb : p0 ≤ 0xF3 := by omega
        simp [wellFormed, hc2, hc3, hcb1, ha, hb]
    split at h
    · next hf4 =>
      rcases dec4_sound _ _ _ _ _ _ h with ⟨rfl, rfl⟩ | ⟨rfl, b1, b2, b3, tl, rfl, h1, h2, hc2, hc3⟩
      · left; simp
      · right; subst hf4; simp [wellFormed, hc2, hc3, h1, h2]
    · left; simp at h; exact ⟨h.1.symm, h.2.symm, by simp⟩

/-- the error rune with width 1 is returned only for a byte ≥ 0x80, i.e. never for ASCII -/
theorem C17_invalid_not_ascii (p0 : Nat) (rest : List Nat) (h : decodeRune (p0 :: rest) = (runeError, 1)) :
    0x80 ≤ p0 := by
  by_cases h0 : p0 < 0x80
  · simp [decodeRune, h0, runeError] at h; subst h; simp at h0
  · omega

namespace RT

/-- **C17 (c)** `read` records `invalid encoding` at the byte's own position exactly when the
    decoder returns the one-byte error rune and `AllowInvalidUTF8` is off; never otherwise. -/
theorem C17_reported (E : Env) (s : PState) :
    (read E s).errs =
      if (decodeRune (E.input.drop (s.pt.pos.off + s.pt.w))) = (runeError, 1) ∧ E.opts.allowInvalid = false
      then s.errs ++ [errPrefix E (read E s) (read E s).pt.pos ++ ": " ++ "invalid encoding"]
      else s.errs := by
  rcases hd : decodeRune (E.input.drop (s.pt.pos.off + s.pt.w)) with ⟨rn, n⟩
  unfold read
  simp only [hd]
  by_cases h1 : rn = runeError <;> by_cases h2 : n = 1 <;> by_cases h3 : E.opts.allowInvalid = true <;>
    simp [h1, h2, h3, addErr, addErrAt, errPrefix, errInvalidEncoding]

theorem C17_allowed_never_reported (E : Env) (s : PState) (h : E.opts.allowInvalid = true) :
    (read E s).errs = s.errs := by
  rw [C17_reported]; simp [h]

/-- **C17 (d)** offsets count bytes: `read` advances by exactly the width of the previous rune, and
    the new width is the decoder's (so an invalid byte advances by one). -/
theorem C17_read_offset (E : Env) (s : PState) :
    (read E s).pt.pos.off = s.pt.pos.off + s.pt.w ∧
    (read E s).pt.w = (decodeRune (E.input.drop (s.pt.pos.off + s.pt.w))).2 := by
  rcases hd : decodeRune (E.input.drop (s.pt.pos.off + s.pt.w)) with ⟨rn, n⟩
  unfold read
  simp only [hd]
  split <;> (try split) <;> simp [addErr, addErrAt]

/-- **C17 (e)** the any matcher consumes an invalid byte (it only refuses end of input), and the
    value is the original byte. -/
theorem C17_any_matches_invalid (E : Env) (s : PState) (h : s.pt.w ≠ 0) :
    ∃ s', parseAny E s = .done (.bytes (sliceFrom E (read E s) s.pt)) true s' := by
  unfold parseAny
  have : ¬ (s.pt.rn = runeError && s.pt.w = 0) = true := by simp [h]
  simp only [this, if_false, matchOne, Bool.false_eq_true]
  exact ⟨_, rfl⟩

/-- matched values and `text` are slices of the input -/
theorem C17_slices (E : Env) (s : PState) (start : Savepoint) :
    sliceFrom E s start = (E.input.drop start.pos.off).take (s.pt.pos.off - start.pos.off) := rfl

end RT
end PV
