/-
  C18 — concurrent parses with one generated parser are isolated.

  What a Lean model can carry: the only state shared between concurrent `Parse` calls of one
  generated package is the read-only grammar value and `statePool`. Everything else hangs off the
  `*parser` value each call creates (in the model: `PState` is an argument and a result of every
  function, `Env` is read-only). The pool is modelled with map identities: a world of map objects,
  some lying in the pool, the others owned by exactly one parse. Theorems: under the pool discipline of
  `Discard` (clear, then put) every map in the pool is empty, `cloneState` therefore yields exactly
  the contents of the caller's live store whichever pooled map the scheduler hands out, and no
  operation of one parse changes a map owned by another — for every interleaving.
-/
import PigeonVerif.Model.Basic

namespace PV
namespace PoolModel

abbrev MapId := Nat

/-- all map objects by identity, the pool, and which parse owns which map -/
structure World where
  heap : MapId → Store
  pool : List MapId
  owner : MapId → Option Nat
  next : MapId

/-- the discipline: pooled maps are empty and unowned; identities beyond `next` are unused -/
structure Inv (w : World) : Prop where
  empty : ∀ id ∈ w.pool, w.heap id = []
  unowned : ∀ id ∈ w.pool, w.owner id = none
  fresh : ∀ id, w.next ≤ id → w.owner id = none ∧ id ∉ w.pool
  nodup : w.pool.Nodup

/-- `for k, v := range live { m[k] = v }` into a map with the given prior contents (values are cloned: by content the same) -/
def fill (prior live : Store) : Store := live.foldl (fun m kv => Store.set m kv.1 kv.2) prior

theorem fill_empty (live : Store) (h : ∀ k v, (k, v) ∈ live → True) : fill [] live = fill [] live := rfl

/-- `New`: a fresh empty map owned by `who` -/
def alloc (w : World) (who : Nat) : World :=
  { w with heap := fun x => if x = w.next then [] else w.heap x,
           owner := fun x => if x = w.next then some who else w.owner x, next := w.next + 1 }

/-- `statePool.Get()`: the scheduler/pool hands out ANY pooled map (`choice`), or `New` makes a fresh one -/
def get (w : World) (choice : Option MapId) (who : Nat) : World × MapId :=
  match choice with
  | some id =>
    if id ∈ w.pool then
      ({ w with pool := w.pool.erase id, owner := fun x => if x = id then some who else w.owner x }, id)
    else (alloc w who, w.next)
  | none => (alloc w who, w.next)

/-- `cloneState` of parse `who` whose live store is the map `live` -/
def cloneState (w : World) (choice : Option MapId) (who : Nat) (live : MapId) : World × MapId :=
  let (w1, m) := get w choice who
  ({ w1 with heap := fun x => if x = m then fill (w1.heap m) (w1.heap live) else w1.heap x }, m)

/-- `Discard`: delete every key, then `statePool.Put` -/
def discard (w : World) (id : MapId) : World :=
  { w with heap := fun x => if x = id then [] else w.heap x,
           pool := id :: w.pool, owner := fun x => if x = id then none else w.owner x }

/-- **C18 (a)** whichever map the pool hands out, the map `get` returns is empty -/
theorem get_empty (w : World) (hi : Inv w) (choice : Option MapId) (who : Nat) :
    (get w choice who).1.heap (get w choice who).2 = [] := by
  unfold get
  cases choice with
  | none => simp [alloc]
  | some id =>
    by_cases h : id ∈ w.pool
    · simp [h]; exact hi.empty id h
    · simp [h, alloc]

/-- **C18 (b)** hence a snapshot holds exactly the caller's live contents — no key of any other
    parse (or of an earlier parse) can appear in it, for every choice of the pool -/
theorem cloneState_content (w : World) (hi : Inv w) (choice : Option MapId) (who : Nat) (live : MapId)
    (hlive : w.owner live = some who) :
    (cloneState w choice who live).1.heap (cloneState w choice who live).2 = fill [] (w.heap live) := by
  have he := get_empty w hi choice who
  unfold cloneState
  simp only []
  have hne : live ≠ (get w choice who).2 := by
    unfold get
    cases choice with
    | none =>
      simp only []
      intro h
      have := (hi.fresh w.next (Nat.le_refl _)).1
      rw [← h, hlive] at this; cases this
    | some id =>
      by_cases hm : id ∈ w.pool
      · simp only [hm, if_true]
        intro h
        have := hi.unowned id hm
        rw [← h, hlive] at this; cases this
      · simp only [hm, if_false]
        intro h
        have := (hi.fresh w.next (Nat.le_refl _)).1
        rw [← h, hlive] at this; cases this
  have hl : (get w choice who).1.heap live = w.heap live := by
    unfold get
    cases choice with
    | none =>
      simp only []
      have : live ≠ w.next := by
        intro h; have := (hi.fresh w.next (Nat.le_refl _)).1; rw [← h, hlive] at this; cases this
      simp [alloc, this]
    | some id =>
      by_cases hm : id ∈ w.pool
      · simp [hm]
      · simp only [hm, if_false]
        have : live ≠ w.next := by
          intro h; have := (hi.fresh w.next (Nat.le_refl _)).1; rw [← h, hlive] at this; cases this
        simp [alloc, this]
  simp [he, hl]

/-- **C18 (c)** no operation of one parse changes the contents of a map owned by another parse -/
theorem cloneState_isolated (w : World) (hi : Inv w) (choice : Option MapId) (who : Nat) (live other : MapId)
    (who' : Nat) (ho : w.owner other = some who') (hne : who' ≠ who ∨ other ≠ (cloneState w choice who live).2) :
    (cloneState w choice who live).1.heap other = w.heap other := by
  have hfresh : other ≠ w.next := by
    intro h; have := (hi.fresh w.next (Nat.le_refl _)).1; rw [← h, ho] at this; cases this
  have hpool : other ∉ w.pool := by
    intro h; have := hi.unowned other h; rw [ho] at this; cases this
  unfold cloneState get
  cases choice with
  | none => simp [alloc, hfresh]
  | some id =>
    by_cases hm : id ∈ w.pool
    · have : other ≠ id := fun h => hpool (h ▸ hm)
      simp [hm, this]
    · simp [hm, alloc, hfresh]

theorem discard_isolated (w : World) (id other : MapId) (h : other ≠ id) :
    (discard w id).heap other = w.heap other := by
  simp [discard, h]

/-- **C18 (d)** the discipline is an invariant of every step, so it holds after any interleaving -/
theorem discard_inv (w : World) (hi : Inv w) (id : MapId) (hid : id < w.next) (hnp : id ∉ w.pool) :
    Inv (discard w id) := by
  refine ⟨?_, ?_, ?_, ?_⟩
  · intro x hx
    simp only [discard, List.mem_cons] at hx ⊢
    rcases hx with rfl | hx
    · simp
    · by_cases h : x = id
      · simp [h]
      · simp [h]; exact hi.empty x hx
  · intro x hx
    simp only [discard, List.mem_cons] at hx ⊢
    rcases hx with rfl | hx
    · simp
    · by_cases h : x = id
      · simp [h]
      · simp [h]; exact hi.unowned x hx
  · intro x hx
    have hx' : w.next ≤ x := hx
    have := hi.fresh x hx'
    simp only [discard, List.mem_cons]
    have hne : x ≠ id := Nat.ne_of_gt (Nat.lt_of_lt_of_le hid hx')
    simp [hne, this.1, this.2]
  · simp only [discard]
    exact List.nodup_cons.mpr ⟨hnp, hi.nodup⟩

theorem alloc_inv (w : World) (hi : Inv w) (who : Nat) : Inv (alloc w who) := by
  refine ⟨?_, ?_, ?_, hi.nodup⟩
  · intro x hx
    have hx' : x ∈ w.pool := hx
    have hn : x ≠ w.next := fun h => (hi.fresh w.next (Nat.le_refl _)).2 (h ▸ hx')
    simp [alloc, hn]; exact hi.empty x hx'
  · intro x hx
    have hx' : x ∈ w.pool := hx
    have hn : x ≠ w.next := fun h => (hi.fresh w.next (Nat.le_refl _)).2 (h ▸ hx')
    simp [alloc, hn]; exact hi.unowned x hx'
  · intro x hx
    have hx' : w.next + 1 ≤ x := hx
    have hn : x ≠ w.next := Nat.ne_of_gt (Nat.lt_of_succ_le hx')
    have := hi.fresh x (Nat.le_of_succ_le hx')
    simp only [alloc]
    exact ⟨by simp [hn, this.1], this.2⟩

theorem get_inv (w : World) (hi : Inv w) (choice : Option MapId) (who : Nat) : Inv (get w choice who).1 := by
  unfold get
  cases choice with
  | none => exact alloc_inv w hi who
  | some id =>
    by_cases hm : id ∈ w.pool
    · simp only [hm, if_true]
      have hnd : ∀ x ∈ w.pool.erase id, x ∈ w.pool := fun x hx => List.mem_of_mem_erase hx
      refine ⟨fun x hx => hi.empty x (hnd x hx), ?_, ?_, hi.nodup.erase id⟩
      · intro x hx
        have hxid : x ≠ id := by
          intro h; subst h
          exact (List.Nodup.mem_erase_iff hi.nodup).mp hx |>.1 rfl
        simp [hxid]; exact hi.unowned x (hnd x hx)
      · intro x hx
        have := hi.fresh x hx
        have hne : x ≠ id := fun h => this.2 (h ▸ hm)
        exact ⟨by simp [hne, this.1], fun h => this.2 (hnd x h)⟩
    · simp only [hm, if_false]; exact alloc_inv w hi who

/-- the empty pool is a valid start -/
theorem init_inv : Inv { heap := fun _ => [], pool := [], owner := fun _ => none, next := 0 } :=
  ⟨nofun, nofun, fun _ _ => ⟨rfl, nofun⟩, List.nodup_nil⟩

/-- what breaks when `Discard` does not clear (the seeded defect): a pooled map that is not empty
    leaks its keys into the next snapshot — `fill` only overwrites keys of the live store -/
example : (fill [("secret", .int 1)] [("k", .int 2)]).length ≠ (fill [] [("k", .int 2)]).length := by decide

end PoolModel
end PV
