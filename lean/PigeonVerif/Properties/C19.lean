/-
  C19 — generation is deterministic (the part that depends on the grammar analysis).
-/
import PigeonVerif.Model.Mid
import PigeonVerif.Properties.C12
import PigeonVerif.Proofs.LROrder

namespace PV

theorem insertStr_perm (x : String) (l : List String) : (insertStr x l).Perm (x :: l) := by
  induction l with
  | nil => simp [insertStr]
  | cons y ys ih =>
    simp only [insertStr]
    split
    · exact List.Perm.refl _
    · exact (List.Perm.cons y ih).trans (List.Perm.swap x y ys)

theorem sortStrs_perm (l : List String) : (sortStrs l).Perm l := by
  induction l with
  | nil => exact List.Perm.refl _
  | cons x xs ih => exact (insertStr_perm x _).trans (List.Perm.cons x ih)

/-- **C19 (a)** The order in which `ComputeNullables` visits the rules — the sorted rule names —
    does not depend on the order in which the map hands them out: sorting any permutation of the
    names gives the same list. -/
theorem C19_sorted_order_invariant (l1 l2 : List String) (h : l1.Perm l2) : sortStrs l1 = sortStrs l2 := by
  apply List.Perm.eq_of_pairwise (le := (· ≤ ·))
  · intro a b _ _ h1 h2; exact String.le_antisymm h1 h2
  · exact C12_sorted l1
  · exact C12_sorted l2
  · exact (sortStrs_perm l1).trans (h.trans (sortStrs_perm l2).symm)

namespace Mid

/-- `ComputeNullables` as it is after the repair: visit in sorted order -/
def computeNullablesSorted (cfg : Cfg) (G : AGrammar) (mapOrder : List String) : Option AGrammar :=
  computeNullables cfg G (sortStrs mapOrder)

/-- **C19 (b)** the analysis result is a function of the grammar alone: any two map iteration
    orders give the same flags, first graph, left-recursive set, leader and verdict. -/
theorem C19_analysis_order_free (cfg : Cfg) (G : AGrammar) (o1 o2 : List String) (h : o1.Perm o2) :
    (computeNullablesSorted cfg G o1).map (computeLeftRecursives cfg) =
    (computeNullablesSorted cfg G o2).map (computeLeftRecursives cfg) := by
  unfold computeNullablesSorted
  rw [C19_sorted_order_invariant o1 o2 h]

theorem C19_analysis_order_free_nullables (cfg : Cfg) (G : AGrammar) (o1 o2 : List String) (h : o1.Perm o2) :
    computeNullablesSorted cfg G o1 = computeNullablesSorted cfg G o2 := by
  unfold computeNullablesSorted
  rw [C19_sorted_order_invariant o1 o2 h]

/-- **C19 (c): the leader of a component does not depend on any iteration order.**  `findLeader` ranges over Go maps
    three times (start vertices, successors in the path search, surviving candidates); in the model an iteration
    order is the order of a list.  Any two enumerations of the same component (`SameMem`, same number of keys) over
    adjacency structures with the same successor SETS (`SameSuccs`) choose the same leader, or both none. -/
theorem C19_leader_choice_order_free {g1 g2 : Graph} {scc1 scc2 : List String} (hg : SameSuccs g1 g2)
    (hs : SameMem scc1 scc2) (hl : scc1.length = scc2.length) : findLeader g1 scc1 = findLeader g2 scc2 :=
  findLeader_order_free hg hs hl

/-- **C19 (d): `ComputeLeftRecursives` is a function of the first graph as a set.**  Whatever order the map of the first
    graph hands its keys out in (`verts2`), and whatever order every successor map is ranged over (`g2`), the
    `leftRecursive` / `leader` marks left on EVERY rule and the verdict (no left recursion / left recursion / a component
    without a leader) are those of the model's own enumeration — several components, several cycles, ties between
    leader candidates included.  Proof: the loop has a closed form (`computeLRWith_closed_form`: a rule in a handled
    component carries `markOf`, which only looks at its component and that component's leader), components are
    equivalence classes, and (c). -/
theorem C19_left_recursion_marks_order_free (cfg : Cfg) (G : AGrammar) (g2 : Graph) (verts2 : List String)
    (h2 : GraphOK g2) (hs : SameSuccs (firstGraph cfg G) g2)
    (hv : SameMem ((firstGraph cfg G).map (·.1)) verts2) :
    computeLRWith g2 verts2 G = computeLeftRecursives cfg G :=
  (computeLRWith_order_free (firstGraph_ok cfg G) h2 hs hv G).symm

/-- (b) and (d) together: **the whole analysis** — nullable flags, first graph, marks, leader, verdict — is the same
    for any order in which `ComputeNullables` receives the rule names and any enumeration of the vertices. -/
theorem C19_analysis_is_a_function_of_the_grammar (cfg : Cfg) (G : AGrammar) (o1 o2 : List String) (h : o1.Perm o2)
    (enum : AGrammar → List String)
    (he : ∀ G', SameMem ((firstGraph cfg G').map (·.1)) (enum G')) :
    (computeNullablesSorted cfg G o1).map (fun G' => computeLRWith (firstGraph cfg G') (enum G') G') =
    (computeNullablesSorted cfg G o2).map (computeLeftRecursives cfg) := by
  rw [C19_analysis_order_free_nullables cfg G o1 o2 h]
  congr 1
  funext G'
  exact C19_left_recursion_marks_order_free cfg G' _ _ (firstGraph_ok cfg G') (fun _ => SameMem.refl _) (he G')

/-- the hypotheses are satisfiable by something that is not the model's own order: the vertices in reverse -/
example (cfg : Cfg) (G : AGrammar) :
    computeLRWith (firstGraph cfg G) ((firstGraph cfg G).map (·.1)).reverse G = computeLeftRecursives cfg G :=
  C19_left_recursion_marks_order_free cfg G _ _ (firstGraph_ok cfg G) (fun _ => SameMem.refl _)
    (fun x => by simp)

/-- … and a concrete instance evaluated by the kernel: a three-rule component with two cycles through `A`, a self-loop
    and an isolated vertex, the adjacency lists and the vertex list reversed -/
def marks (r : AGrammar × Verdict) : List (String × Bool × Bool) × Verdict :=
  (r.1.map (fun x => (x.name, x.leftRecursive, x.leader)), r.2)

def g5 : AGrammar :=
  [{ name := "A", expr := .any }, { name := "B", expr := .any }, { name := "C", expr := .any },
   { name := "D", expr := .any }, { name := "E", expr := .any }]

example :
    marks (computeLRWith [("A", ["B", "C"]), ("B", ["A"]), ("C", ["A"]), ("D", ["D"]), ("E", [])]
      ["A", "B", "C", "D", "E"] g5) =
    ([("A", true, true), ("B", true, false), ("C", true, false), ("D", true, true), ("E", false, false)], .ok true) ∧
    marks (computeLRWith [("E", []), ("D", ["D"]), ("C", ["A"]), ("B", ["A"]), ("A", ["C", "B"])]
      ["E", "D", "C", "B", "A"] g5) =
    ([("A", true, true), ("B", true, false), ("C", true, false), ("D", true, true), ("E", false, false)], .ok true) := by
  decide

def cfgBeforeFixes : Cfg := { visitOperands := false, predNames := false, emptyClassNotNullable := false }
def cfgNow : Cfg := { visitOperands := true, predNames := true, emptyClassNotNullable := true }

/-- X <- Y / ""; Y <- X Z; Z <- Y 'z' / 'q' -/
def gD16 : AGrammar := [
  { name := "X", expr := .choice false [.ref false "Y", .lit true] },
  { name := "Y", expr := .seq false [.ref false "X", .ref false "Z"] },
  { name := "Z", expr := .choice false [.seq false [.ref false "Y", .lit false], .lit false] }]

/-- Why the repair is needed (finding D16, now fixed): WITHOUT a fixed visiting order the result
    depends on it — two orders give different leaders for this grammar, before and after the other
    repairs. The unrestricted statement "the analysis is independent of the visiting order" is false. -/
theorem C19_order_matters_without_sorting :
    ((prepare cfgNow gD16 ["X", "Y", "Z"]).map (fun r => r.1.map (·.leader))) ≠
    ((prepare cfgNow gD16 ["Z", "Y", "X"]).map (fun r => r.1.map (·.leader))) := by decide

theorem C19_order_mattered_before_fix :
    ((prepare cfgBeforeFixes gD16 ["X", "Y", "Z"]).map (fun r => r.1.map (·.leader))) ≠
    ((prepare cfgBeforeFixes gD16 ["Z", "Y", "X"]).map (fun r => r.1.map (·.leader))) := by decide

end Mid
end PV
