/-
  C19 — generation is deterministic (the part that depends on the grammar analysis).
-/
import PigeonVerif.Model.Mid
import PigeonVerif.Properties.C12

namespace PV

theorem insertStr_perm (x : String) (l : List String) : (insertStr x l).Perm (x :: l) := by
  induction l with
  | nil => simp [insertStr]
  | cons y ys ih =>
    simp only [insertStr]
    split
    · exact List.Perm.refl _
    · exact (List.Perm.cons y ih).trans (List.Perm.swap x y ys)

theorem sortStrs_perm (l : List String) : (sortStrs l).Perm l := by
  induction l with
  | nil => exact List.Perm.refl _
  | cons x xs ih => exact (insertStr_perm x _).trans (List.Perm.cons x ih)

/-- **C19 (a)** The order in which `ComputeNullables` visits the rules — the sorted rule names —
    does not depend on the order in which the map hands them out: sorting any permutation of the
    names gives the same list. -/
theorem C19_sorted_order_invariant (l1 l2 : List String) (h : l1.Perm l2) : sortStrs l1 = sortStrs l2 := by
  apply List.Perm.eq_of_pairwise (le := (· ≤ ·))
  · intro a b _ _ h1 h2; exact String.le_antisymm h1 h2
  · exact C12_sorted l1
  · exact C12_sorted l2
  · exact (sortStrs_perm l1).trans (h.trans (sortStrs_perm l2).symm)

namespace Mid

/-- `ComputeNullables` as it is after the repair: visit in sorted order -/
def computeNullablesSorted (cfg : Cfg) (G : AGrammar) (mapOrder : List String) : Option AGrammar :=
  computeNullables cfg G (sortStrs mapOrder)

/-- **C19 (b)** the analysis result is a function of the grammar alone: any two map iteration
    orders give the same flags, first graph, left-recursive set, leader and verdict. -/
theorem C19_analysis_order_free (cfg : Cfg) (G : AGrammar) (o1 o2 : List String) (h : o1.Perm o2) :
    (computeNullablesSorted cfg G o1).map (computeLeftRecursives cfg) =
    (computeNullablesSorted cfg G o2).map (computeLeftRecursives cfg) := by
  unfold computeNullablesSorted
  rw [C19_sorted_order_invariant o1 o2 h]

def cfgBeforeFixes : Cfg := { visitOperands := false, predNames := false, emptyClassNotNullable := false }
def cfgNow : Cfg := { visitOperands := true, predNames := true, emptyClassNotNullable := true }

/-- X <- Y / ""; Y <- X Z; Z <- Y 'z' / 'q' -/
def gD16 : AGrammar := [
  { name := "X", expr := .choice false [.ref false "Y", .lit true] },
  { name := "Y", expr := .seq false [.ref false "X", .ref false "Z"] },
  { name := "Z", expr := .choice false [.seq false [.ref false "Y", .lit false], .lit false] }]

/-- Why the repair is needed (finding D16, now fixed): WITHOUT a fixed visiting order the result
    depends on it — two orders give different leaders for this grammar, before and after the other
    repairs. The unrestricted statement "the analysis is independent of the visiting order" is false. -/
theorem C19_order_matters_without_sorting :
    ((prepare cfgNow gD16 ["X", "Y", "Z"]).map (fun r => r.1.map (·.leader))) ≠
    ((prepare cfgNow gD16 ["Z", "Y", "X"]).map (fun r => r.1.map (·.leader))) := by decide

theorem C19_order_mattered_before_fix :
    ((prepare cfgBeforeFixes gD16 ["X", "Y", "Z"]).map (fun r => r.1.map (·.leader))) ≠
    ((prepare cfgBeforeFixes gD16 ["Z", "Y", "X"]).map (fun r => r.1.map (·.leader))) := by decide

end Mid
end PV
