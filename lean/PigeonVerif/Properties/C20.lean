/-
  C20 — the bootstrap chain agrees with itself and with the checked-in artifacts.
  (a) the two front-ends are compared by execution (harness/cmd/pvboot); (b) artifact regeneration
  is a ground, finite statement decided by recomputation (`make clean all` on a copy, byte
  comparison of every tracked file). Kernel-checked here: the escape validity test the two
  scanners apply to `\u`/`\U` escapes, where they are known to differ (finding F3).
-/
namespace PV
namespace Boot

/-- the generated front-end (and Go): a code point is a surrogate iff 0xD800 ≤ x < 0xE000 -/
def isSurrogate (x : Nat) : Bool := 0xD800 ≤ x && x < 0xE000

/-- `bootstrap/scan.go` `scanEscape`: 0xD800 ≤ x ≤ 0xE000 (off by one) -/
def isSurrogateBootstrap (x : Nat) : Bool := 0xD800 ≤ x && x ≤ 0xE000

/-- the two tests agree on every code point except U+E000, which only the bootstrap scanner rejects;
    so the bootstrap subset is a subset (it never accepts an escape the generated front-end
    rejects) and differs from it in exactly one code point -/
theorem C20_escape_tests_differ_exactly_at_E000 (x : Nat) :
    isSurrogateBootstrap x ≠ isSurrogate x ↔ x = 0xE000 := by
  unfold isSurrogateBootstrap isSurrogate
  constructor
  · intro h
    by_cases h1 : 0xD800 ≤ x <;> by_cases h2 : x < 0xE000 <;> by_cases h3 : x ≤ 0xE000 <;> simp_all <;> omega
  · intro h; subst h; decide

theorem C20_bootstrap_rejects_more (x : Nat) (h : isSurrogate x = true) : isSurrogateBootstrap x = true := by
  unfold isSurrogateBootstrap isSurrogate at *
  simp at h ⊢
  omega

end Boot
end PV
