/-
  Spec — the PEG semantics a generated parser is supposed to implement, written without any of
  the runtime's bookkeeping: no mutable position with save/restore, no memo table, no expression
  counter, no farthest-failure tracking, no statistics, no rule/variable/handler *stacks* (scopes
  are function arguments). What remains is what the documentation describes: ordered choice, greedy
  repetition, predicates that consume nothing, the documented value shapes, label scopes, the state
  store rolled back on failure, throw/recover with lexically-dynamic handlers, and the code blocks'
  view of the world (position, text, labels, stores, errors they return).

  `Spec.eval` is executable; the driver runs it next to `RT` and the check compares it with the real
  generated parser (C01 oracle). `Proofs/Refine.lean` relates it to `RT`.
-/
import PigeonVerif.Model.Runtime
import PigeonVerif.Proofs.PtInv

namespace PV
namespace Spec

/-- everything code blocks can observe or change, plus the errors recorded so far -/
structure World where
  state : Store
  global : Store
  errs : List String
  curPos : Pos
  curText : List Nat
  nCalls : Nat
  trace : List Event
  /-- every evaluation of a terminal so far, most recent first: where it started, which terminal, whether it
      matched, and whether it was inside an odd number of `!` predicates. Nothing in the semantics reads
      this log; the farthest-failure report of a failed parse is a function of it (C12) -/
  attempts : List Attempt := []
  /-- set only in the world a PANIC result carries: the rule in which, and the position at which, the panicking code
      block was called (`Parse` with `Recover(true)` reports the panic there) -/
  site : Option (Option Rule × Pos) := none
deriving Inhabited

/-- result of evaluating an expression at a position in a scope -/
inductive Res where
  | oof
  | panic (p : PanicVal) (w : World)
  /-- no match: nothing consumed. The world may have changed (errors recorded, globalStore, trace), and
      so may the current scope: labels bound by sub-expressions that matched before the failure stay
      bound until the scope ends (the next scope boundary discards them) -/
  | fail (env : List (String × Val)) (w : World)
  /-- match: value, position after the match, labels of the enclosing scope, world -/
  | ok (v : Val) (pt : Savepoint) (env : List (String × Val)) (w : World)
deriving Inhabited

/-- static context of an evaluation: the rule being evaluated (for error prefixes) and the
    handlers in force (innermost first) -/
structure Ctx where
  rule : Option Rule
  handlers : List (List (String × Expr))
  /-- inside an odd number of `!` predicates -/
  neg : Bool := false

def errPrefix (E : Env) (c : Ctx) (pos : Pos) : String :=
  let file := E.opts.filename
  let b := if file ≠ "" then file ++ ":" else ""
  let b := b ++ toString pos.line ++ ":" ++ toString pos.col ++ " (" ++ toString pos.off ++ ")"
  match c.rule with
  | none => b
  | some r => b ++ ": " ++ (if r.displayName ≠ "" then "rule " ++ r.displayName else "rule " ++ r.name)

def addErrAt (E : Env) (c : Ctx) (w : World) (msg : Option String) (pos : Pos) : World :=
  match msg with
  | some m => { w with errs := w.errs ++ [errPrefix E c pos ++ ": " ++ m] }
  | none => w

/-- advancing over one rune: the next position, and the `invalid encoding` error the reader records -/
def advance (E : Env) (c : Ctx) (pt : Savepoint) (w : World) : Savepoint × World :=
  let pt' := RT.nextPt E.input pt
  if pt'.rn = runeError && pt'.w = 1 && !E.opts.allowInvalid then
    (pt', addErrAt E c w (some RT.errInvalidEncoding) pt'.pos)
  else (pt', w)

def slice (E : Env) (a b : Savepoint) : List Nat := (E.input.drop a.pos.off).take (b.pos.off - a.pos.off)

def atEOF (pt : Savepoint) : Bool := pt.rn = runeError && pt.w = 0

/-- the world of a panic result: where the panic was raised -/
def panicAt (c : Ctx) (pt : Savepoint) (w : World) : World := { w with site := some (c.rule, pt.pos) }

/-- log the evaluation of a terminal that started at `pt` -/
def note (c : Ctx) (pos : Pos) (want : String) (matched : Bool) (w : World) : World :=
  { w with attempts := { pos := pos, want := want, matched := matched, neg := c.neg } :: w.attempts }

/-- invoke a code block in the given scope -/
def call (E : Env) (blk : Nat) (env : List (String × Val)) (pt : Savepoint) (w : World) : BlockResult × World :=
  let args := (E.code.args blk).map (fun n => (lookup n env).getD .nil)
  let st := if E.useState then w.state else []
  let r := E.code.run blk { pos := w.curPos, text := w.curText, args := args, state := st, global := w.global, calli := w.nCalls }
  let ev : Event := { blk := blk, calli := w.nCalls, pos := w.curPos, text := w.curText, pt := pt.pos, args := args,
                      state := st, global := w.global, sout := r.state, gout := r.global }
  (r, { w with nCalls := w.nCalls + 1, trace := ev :: w.trace,
               state := if E.useState then r.state else w.state, global := r.global })

/-- the store after backtracking / after a block whose writes are discarded -/
def rollback (E : Env) (w : World) (st : Store) : World := if E.useState then { w with state := st } else w

section
variable (E : Env) (rec : Ctx → Expr → List (String × Val) → Savepoint → World → Res)

/-- sequence: items are evaluated left to right in the SAME scope; value = one element per item -/
def evalSeq (c : Ctx) (st0 : Store) : List Expr → List (String × Val) → Savepoint → World → List Val → Res
  | [], env, pt, w, acc => .ok (.list acc.reverse) pt env w
  | e :: es, env, pt, w, acc =>
    match rec c e env pt w with
    | .ok v pt' env' w' => evalSeq c st0 es env' pt' w' (v :: acc)
    | .fail env' w' => .fail env' (rollback E w' st0)
    | r => r

/-- ordered choice: each alternative in a fresh scope; commits to the first that matches -/
def evalChoice (c : Ctx) : List Expr → List (String × Val) → Savepoint → World → Res
  | [], env, _, w => .fail env w
  | e :: es, env, pt, w =>
    match rec c e [] pt w with
    | .ok v pt' _ w' => .ok v pt' env w'
    | .fail _ w' => evalChoice c es env pt (rollback E w' w.state)
    | r => r

/-- greedy repetition: iterate until the body fails; each iteration in a fresh scope -/
def evalLoop (c : Ctx) (e : Expr) : Nat → List (String × Val) → Savepoint → World → List Val → Res
  | 0, _, _, _, _ => .oof
  | k + 1, env, pt, w, acc =>
    match rec c e [] pt w with
    | .ok v pt' _ w' => evalLoop c e k env pt' w' (v :: acc)
    | .fail _ w' => if acc.isEmpty then .fail env w' else .ok (.list acc.reverse) pt env w'
    | r => r

/-- literal: rune by rune, folding the input rune when `i` is given; nothing matches at end of input.
    Returns the position after the literal (`none` = mismatch) and the world (the reader may have
    recorded `invalid encoding` while looking ahead; such errors are never taken back) -/
def evalLit (c : Ctx) (ic : Bool) : List Rune → Savepoint → World → Option Savepoint × World
  | [], pt, w => (some pt, w)
  | r :: rs, pt, w =>
    let cur := if ic then E.toLower pt.rn else pt.rn
    if cur ≠ r || pt.w = 0 then (none, w)
    else
      let (pt', w') := advance E c pt w
      evalLit c ic rs pt' w'

/-- throw: innermost handler listing the label first; its recovery expression runs at the throw position -/
def evalThrow (c : Ctx) (label : String) : List (List (String × Expr)) → List (String × Val) → Savepoint → World → Res
  | [], env, _, w => .fail env w
  | h :: hs, env, pt, w =>
    match lookup label h with
    | some r =>
      match rec c r env pt w with
      | .ok v pt' env' w' => .ok v pt' env' w'
      | .fail env' w' => evalThrow c label hs env' pt w'
      | res => res
    | none => evalThrow c label hs env pt w

/-- one level of the semantics -/
def evalStep (loopFuel : Nat) (c : Ctx) (e : Expr) (env : List (String × Val)) (pt : Savepoint) (w : World) : Res :=
  match e with
  | .lit _ val ic want =>
    match evalLit E c ic val pt w with
    | (some pt', w') => .ok (.bytes (slice E pt pt')) pt' env (note c pt.pos want true w')
    | (none, w') => .fail env (note c pt.pos want false w')
  | .any _ =>
    if atEOF pt then .fail env (note c pt.pos "." false w)
    else let (pt', w') := advance E c pt w; .ok (.bytes (slice E pt pt')) pt' env (note c pt.pos "." true w')
  | .cls _ cd =>
    let isMember :=
      if E.flags.basicLatin && pt.rn < 128 then cd.basicLatin.getD pt.rn false
      else !atEOF pt && RT.classContains E cd pt.rn
    let isMatch := if E.flags.basicLatin && pt.rn < 128 then isMember != cd.inverted
                   else !atEOF pt && (isMember != cd.inverted)
    if isMatch then let (pt', w') := advance E c pt w; .ok (.bytes (slice E pt pt')) pt' env (note c pt.pos cd.val true w')
    else .fail env (note c pt.pos cd.val false w)
  | .seq _ es => evalSeq E rec c w.state es env pt w []
  | .choice _ _ _ es => evalChoice E rec c es env pt w
  | .zeroOrOne _ e1 =>
    match rec c e1 [] pt w with
    | .ok v pt' _ w' => .ok v pt' env w'
    | .fail _ w' => .ok .nil pt env w'
    | r => r
  | .zeroOrMore _ e1 =>
    match evalLoop rec c e1 loopFuel env pt w [] with
    | .fail _ w' => .ok (.list []) pt env w'
    | r => r
  | .oneOrMore _ e1 => evalLoop rec c e1 loopFuel env pt w []
  | .and _ e1 =>
    match rec c e1 [] pt w with
    | .ok _ _ _ w' => .ok .nil pt env (rollback E w' w.state)
    | .fail _ w' => .fail env (rollback E w' w.state)
    | r => r
  | .not _ e1 =>
    match rec { c with neg := !c.neg } e1 [] pt w with
    | .ok _ _ _ w' => .fail env (rollback E w' w.state)
    | .fail _ w' => .ok .nil pt env (rollback E w' w.state)
    | r => r
  | .labeled _ l e1 =>
    match rec c e1 [] pt w with
    | .ok v pt' _ w' => .ok v pt' (if l ≠ "" then (l, v) :: env else env) w'
    | .fail _ w' => .fail env w'
    | r => r
  | .action _ blk e1 =>
    match rec c e1 env pt w with
    | .ok _ pt' env' w1 =>
      let w2 := { w1 with curPos := pt.pos, curText := slice E pt pt' }
      let (r, w3) := call E blk env' pt' w2
      match r.panic with
      | some p => .panic p (panicAt c pt' w3)
      | none => .ok r.ret pt' env' (rollback E (addErrAt E c w3 r.err pt.pos) w1.state)
    | r => r
  | .andCode _ blk =>
    let (r, w1) := call E blk env pt w
    match r.panic with
    | some p => .panic p (panicAt c pt w1)
    | none =>
      let w2 := rollback E (addErrAt E c w1 r.err pt.pos) w.state
      if r.retB then .ok .nil pt env w2 else .fail env w2
  | .notCode _ blk =>
    let (r, w1) := call E blk env pt w
    match r.panic with
    | some p => .panic p (panicAt c pt w1)
    | none =>
      let w2 := rollback E (addErrAt E c w1 r.err pt.pos) w.state
      if !r.retB then .ok .nil pt env w2 else .fail env w2
  | .stateCode _ blk =>
    if !E.useState then .panic (.str "unknown expression type *main.stateCodeExpr") (panicAt c pt w) else
    let (r, w1) := call E blk env pt w
    match r.panic with
    | some p => .panic p (panicAt c pt w1)
    | none => .ok .nil pt env (addErrAt E c w1 r.err pt.pos)
  | .ruleRef _ name =>
    if name = "" then .panic (.str "invalid rule: missing name") (panicAt c pt w) else
    match E.findRule name with
    | none => .fail env (addErrAt E c w (some ("undefined rule: " ++ name)) pt.pos)
    | some r =>
      match rec { c with rule := some r } r.expr [] pt w with
      | .ok v pt' _ w' => .ok v pt' env w'
      | .fail _ w' => .fail env w'
      | res => res
  | .recovery _ e1 r labels =>
    rec { c with handlers := (labels.map (fun l => (l, r))).reverse :: c.handlers } e1 env pt w
  | .throw _ label => evalThrow rec c label c.handlers env pt w

end

/-- the semantics, by depth fuel -/
def eval (E : Env) : Nat → Ctx → Expr → List (String × Val) → Savepoint → World → Res
  | 0, _, _, _, _, _ => .oof
  | f + 1, c, e, env, pt, w => evalStep E (eval E f) f c e env pt w

/-- a whole parse: start rule at the first rune, then the result contract of `Parse` -/
inductive Final where
  | oof
  | ret (v : Val) (errs : List String)
  | panic (p : PanicVal) (errs : List String)
deriving Inhabited

/-- outcome of the start rule -/
def parse (E : Env) (fuel : Nat) : Option Res :=
  match E.rules with
  | [] => none
  | first :: _ =>
    match E.findRule (RT.entryName E first) with
    | none => none
    | some r =>
      let w0 : World := { state := if E.useState then E.opts.initState else [], global := E.opts.initGlobal, errs := [],
                          curPos := { line := 0, col := 0, off := 0 }, curText := [], nCalls := 0, trace := [] }
      let (pt, w) := advance E { rule := none, handlers := [] } RT.pt0 w0
      some (eval E fuel { rule := some r, handlers := [] } r.expr [] pt w)

def initWorld (E : Env) : World :=
  { state := if E.useState then E.opts.initState else [], global := E.opts.initGlobal, errs := [],
    curPos := { line := 0, col := 0, off := 0 }, curText := [], nCalls := 0, trace := [] }

/-- the position of the first rune -/
def firstPos (E : Env) : Pos := (RT.nextPt E.input RT.pt0).pos

/-- an error raised outside any rule -/
def topErr (E : Env) (pos : Pos) (msg : String) : String :=
  errPrefix E { rule := none, handlers := [] } pos ++ ": " ++ msg

/-- **the result contract of `Parse`**, as a function of what the start rule evaluates to:
    * a match: its value, and the recorded errors, each message once, in order of first occurrence;
    * no match: a nil value and the recorded errors - or, when nothing was recorded, the single synthesised error
      "no match found, expected: …" at the farthest failure, computed from the log of terminal evaluations (`book`);
    * a panic in a code block: with `Recover(true)` a nil value and the recorded errors followed by the panic, reported in
      the rule and at the position where the block was called; with `Recover(false)` the panic itself. -/
def finish (E : Env) : Res → Final
  | .oof => .oof
  | .ok v _ _ w => .ret v (dedupe w.errs)
  | .fail _ w =>
    if w.errs.isEmpty then
      let b := book (firstPos E) w.attempts
      .ret .nil [topErr E b.1 (RT.noMatchMessage b.2.reverse).1]
    else .ret .nil (dedupe w.errs)
  | .panic p w =>
    if E.opts.recover then
      match w.site with
      | some (rule, pos) =>
        .ret .nil (dedupe (w.errs ++ [errPrefix E { rule := rule, handlers := [] } pos ++ ": " ++ RT.panicMessage p]))
      | none => .ret .nil (dedupe w.errs)
    else .panic p w.errs

/-- a whole `Parse` call -/
def run (E : Env) (fuel : Nat) : Final :=
  match E.rules with
  | [] => .ret .nil [topErr E RT.pt0.pos RT.errNoRule]
  | first :: _ =>
    match E.findRule (RT.entryName E first) with
    | none => .ret .nil [topErr E RT.pt0.pos RT.errInvalidEntrypoint]
    | some _ =>
      match parse E fuel with
      | some res => finish E res
      | none => .oof

end Spec
end PV
