/-
  Printing the specification's result for a case line (driver mode `--spec`).
-/
import PigeonVerif.Spec.Peg
import PigeonVerif.Model.Protocol

namespace PV
namespace SpecProtocol
open Protocol

/-- the specification is the plain PEG semantics: it does not describe memoization, the seed-growing
    of left-recursive rules, or a budget -/
def applicable (c : Case) : Bool :=
  !c.opts.memoize && c.opts.maxExpr.isNone && !(c.flags.leftRec && c.rules.any (fun r => r.leftRecursive || r.leader))

def fmtWorld (E : Env) (pt : Savepoint) (w : Spec.World) : String :=
  " ".intercalate
    ([toString pt.pos.off, toString pt.pos.line, toString pt.pos.col, toString w.errs.length] ++ w.errs.map hexOfString ++
     [if E.useState then fmtStore w.state else "0", fmtStore w.global, toString w.trace.length] ++ w.trace.reverse.map fmtEvent)

/-- what `Parse` returns according to the result contract `Spec.finish` (C11_parse_contract): the complete error list,
    in order, including the synthesised "no match" error and a recovered panic -/
def fmtFinal (f : Spec.Final) : String :=
  match f with
  | .oof => "final oof"
  | .ret _ errs => " ".intercalate (["final", "ret", toString errs.length] ++ errs.map hexOfString)
  | .panic _ errs => " ".intercalate (["final", "panic", toString errs.length] ++ errs.map hexOfString)

def runSpec (c : Case) (tl : Rune → Rune) : String :=
  if !applicable c then s!"spec {c.id} na" else
  let E := envOfCase c tl
  match Spec.parse E c.fuel with
  | none => s!"spec {c.id} na"
  | some .oof => s!"spec {c.id} oof"
  | some (.panic p w) => s!"spec {c.id} panic {fmtPanic p} {fmtWorld E RT.pt0 w} {fmtFinal (Spec.finish E (.panic p w))}"
  | some (.fail env w) =>
    let pt := (Spec.advance E { rule := none, handlers := [] } RT.pt0 (Spec.initWorld E)).1
    s!"spec {c.id} fail nil {fmtWorld E pt w} {fmtFinal (Spec.finish E (.fail env w))}"
  | some (.ok v pt env w) => s!"spec {c.id} ok {fmtVal v} {fmtWorld E pt w} {fmtFinal (Spec.finish E (.ok v pt env w))}"

end SpecProtocol
end PV
