"""Build H1 case lines from a compact Python description (used for known-finding witnesses and corpus cases).

 expr := ("lit", "text"[, ignoreCase]) | ("any",) | ("cls", val, chars, ranges[, inverted[, ignoreCase]])
       | ("seq", e...) | ("ch", e...) | ("star", e) | ("plus", e) | ("opt", e) | ("and", e) | ("not", e)
       | ("lab", name, e) | ("act", blk, e) | ("andc", blk) | ("notc", blk) | ("stc", blk)
       | ("ref", name) | ("rec", e, r, [labels]) | ("thr", label)
"""
import json


def hx(s):
    if isinstance(s, str):
        s = s.encode("utf-8")
    return "x" + s.hex()


def goquote(s):
    # strconv.Quote for the ASCII/printable subset used in witnesses
    out = ['"']
    for ch in s:
        if ch == '"':
            out.append('\\"')
        elif ch == "\\":
            out.append("\\\\")
        elif ch == "\n":
            out.append("\\n")
        elif ch == "�":
            out.append("�")
        else:
            out.append(ch)
    out.append('"')
    return "".join(out)


class B:
    def __init__(self):
        self.id = 0

    def nid(self):
        self.id += 1
        return str(self.id)

    def expr(self, e):
        k = e[0]
        i = self.nid()
        if k == "lit":
            s = e[1]
            ic = len(e) > 2 and e[2]
            runes = [ord(c) for c in (s.lower() if ic else s)]
            return ["lit", i, str(len(runes))] + [str(r) for r in runes] + ["1" if ic else "0", hx(goquote(s) + ("i" if ic else ""))]
        if k == "any":
            return ["any", i]
        if k == "cls":
            val, chars, ranges = e[1], e[2], e[3]
            inv = len(e) > 4 and e[4]
            ic = len(e) > 5 and e[5]
            t = ["cls", i, hx(val), "1" if ic else "0", "1" if inv else "0", str(len(chars))] + [str(ord(c)) for c in chars]
            t += [str(len(ranges))]
            for lo, hi in ranges:
                t += [str(ord(lo)), str(ord(hi))]
            t += ["0", "-"]
            return t
        if k in ("seq",):
            t = ["seq", i, str(len(e) - 1)]
            for x in e[1:]:
                t += self.expr(x)
            return t
        if k == "ch":
            t = ["ch", i, "1", i, str(len(e) - 1)]
            for x in e[1:]:
                t += self.expr(x)
            return t
        if k in ("star", "plus", "opt", "and", "not"):
            return [k, i] + self.expr(e[1])
        if k == "lab":
            return ["lab", i, hx(e[1])] + self.expr(e[2])
        if k == "act":
            return ["act", i, str(e[1])] + self.expr(e[2])
        if k in ("andc", "notc", "stc"):
            return [k, i, str(e[1])]
        if k == "ref":
            return ["ref", i, hx(e[1])]
        if k == "rec":
            t = ["rec", i] + self.expr(e[1]) + self.expr(e[2]) + [str(len(e[3]))] + [hx(l) for l in e[3]]
            return t
        if k == "thr":
            return ["thr", i, hx(e[1])]
        raise ValueError(k)


def val(v):
    if v is None:
        return ["nil"]
    if isinstance(v, bool):
        return ["bool", "1" if v else "0"]
    if isinstance(v, int):
        return ["i", str(v)]
    if isinstance(v, bytes):
        return ["b", hx(v)]
    if isinstance(v, str):
        return ["s", hx(v)]
    if isinstance(v, list):
        t = ["l", str(len(v))]
        for x in v:
            t += val(x)
        return t
    if isinstance(v, tuple) and v[0] == "cl":
        return ["cl", str(len(v[1]))] + [str(x) for x in v[1]]
    raise ValueError(v)


def store(d):
    t = [str(len(d))]
    for k, v in d.items():
        t += [hx(k)] + val(v)
    return t


def block(bid, kind, args=(), effects=(), ret=None, err=None, panic=None):
    """ret: raw token list for VEXPR/BEXPR, e.g. ["tup","2","arg","0","arg","1"]; effects: list of raw token lists"""
    t = ["blk", str(bid), kind, str(len(args))] + [hx(a) for a in args]
    t += [str(len(effects))]
    for ef in effects:
        t += list(ef)
    if kind == "a":
        t += list(ret or ["const", "nil"])
    elif kind == "p":
        t += list(ret or ["t"])
    else:
        t += ["-"]
    t += list(err or ["noerr"])
    t += list(panic or ["nopanic"])
    return t


def case(cid, variant, rules, blocks, inp, memoize=False, debug=False, stats=False, maxExpr=0, entry=None,
         allowInvalid=False, recover=True, filename="", initState=None, initGlobal=None, fuel=None):
    """variant 'o0g1l0b0'; rules: list of (name, expr) or (name, expr, leader, leftRecursive) or with displayName 5-tuple"""
    o, g, l, b = variant[1], variant[3], variant[5], variant[7]
    t = ["case", str(cid), o, g, l, b, "1" if memoize else "0", "1" if debug else "0", "1" if stats else "0",
         str(maxExpr), "-" if entry is None else hx(entry), "1" if allowInvalid else "0", "1" if recover else "0", hx(filename)]
    t += store(initState or {}) + store(initGlobal or {})
    t += [str(fuel if fuel is not None else (400 if maxExpr == 0 else min(6000, maxExpr + 50)))]
    bld = B()
    t += [str(len(rules))]
    for r in rules:
        name, e = r[0], r[1]
        leader = len(r) > 2 and r[2]
        lr = len(r) > 3 and r[3]
        dn = r[4] if len(r) > 4 else ""
        t += [hx(name), hx(dn), "1" if leader else "0", "1" if lr else "0"] + bld.expr(e)
    t += [str(len(blocks))]
    for bl in blocks:
        t += bl
    if isinstance(inp, str):
        inp = inp.encode("utf-8")
    t += [hx(inp)]
    return " ".join(t)
