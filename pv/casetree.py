"""Parse the grammar part of an H1 case line into a tree and print it back (used for twin constructions)."""

UNARY = {"and", "not", "plus", "star", "opt"}


class P:
    def __init__(self, toks, i):
        self.t = toks
        self.i = i

    def nx(self):
        v = self.t[self.i]
        self.i += 1
        return v


def skip_val(p):
    t = p.nx()
    if t in ("b", "s", "i", "bool"):
        p.nx()
    elif t == "l":
        for _ in range(int(p.nx())):
            skip_val(p)
    elif t == "cl":
        for _ in range(int(p.nx())):
            p.nx()
    elif t != "nil":
        raise ValueError("VAL " + t)


def skip_store(p):
    for _ in range(int(p.nx())):
        p.nx()
        skip_val(p)


def expr(p):
    tag = p.nx()
    nid = p.nx()
    if tag == "act":
        blk = p.nx()
        return ["act", nid, blk, expr(p)]
    if tag in ("andc", "notc", "stc"):
        return [tag, nid, p.nx()]
    if tag in UNARY:
        return [tag, nid, expr(p)]
    if tag == "any":
        return ["any", nid]
    if tag == "cls":
        raw = [p.nx(), p.nx(), p.nx()]
        nc = int(p.nx())
        raw.append(str(nc))
        raw += [p.nx() for _ in range(nc)]
        nr = int(p.nx())
        raw.append(str(nr))
        raw += [p.nx() for _ in range(2 * nr)]
        ncl = int(p.nx())
        raw.append(str(ncl))
        for _ in range(ncl):
            raw.append(p.nx())
            k = int(p.nx())
            raw.append(str(k))
            raw += [p.nx() for _ in range(3 * k)]
        raw.append(p.nx())
        return ["cls", nid, raw]
    if tag == "ch":
        line, col = p.nx(), p.nx()
        n = int(p.nx())
        return ["ch", nid, line, col, [expr(p) for _ in range(n)]]
    if tag == "lab":
        l = p.nx()
        return ["lab", nid, l, expr(p)]
    if tag == "lit":
        n = int(p.nx())
        raw = [str(n)] + [p.nx() for _ in range(n)] + [p.nx(), p.nx()]
        return ["lit", nid, raw]
    if tag == "rec":
        e = expr(p)
        r = expr(p)
        n = int(p.nx())
        return ["rec", nid, e, r, [p.nx() for _ in range(n)]]
    if tag == "ref":
        return ["ref", nid, p.nx()]
    if tag == "seq":
        n = int(p.nx())
        return ["seq", nid, [expr(p) for _ in range(n)]]
    if tag == "thr":
        return ["thr", nid, p.nx()]
    raise ValueError("EXPR " + tag)


def emit(e, out):
    tag = e[0]
    out += [tag, e[1]]
    if tag == "act":
        out.append(e[2])
        emit(e[3], out)
    elif tag in ("andc", "notc", "stc", "ref", "thr"):
        out.append(e[2])
    elif tag in UNARY:
        emit(e[2], out)
    elif tag == "cls" or tag == "lit":
        out += e[2]
    elif tag == "ch":
        out += [e[2], e[3], str(len(e[4]))]
        for k in e[4]:
            emit(k, out)
    elif tag == "lab":
        out.append(e[2])
        emit(e[3], out)
    elif tag == "rec":
        emit(e[2], out)
        emit(e[3], out)
        out.append(str(len(e[4])))
        out += e[4]
    elif tag == "seq":
        out.append(str(len(e[2])))
        for k in e[2]:
            emit(k, out)


def split_case(line):
    """-> (head tokens up to and incl. fuel, rules [(name, disp, leader, lr, expr)], tail tokens (blocks + input))"""
    t = line.split(" ")
    p = P(t, 14)
    skip_store(p)
    skip_store(p)
    p.nx()  # fuel
    head = t[:p.i]
    n = int(p.nx())
    rules = []
    for _ in range(n):
        name, disp, leader, lr = p.nx(), p.nx(), p.nx(), p.nx()
        rules.append([name, disp, leader, lr, expr(p)])
    tail = t[p.i:]
    return head, rules, tail


def join_case(head, rules, tail):
    out = list(head) + [str(len(rules))]
    for name, disp, leader, lr, e in rules:
        out += [name, disp, leader, lr]
        emit(e, out)
    return " ".join(out + list(tail))


def max_id(rules):
    m = 0

    def walk(e):
        nonlocal m
        m = max(m, int(e[1]))
        for x in e[2:]:
            if isinstance(x, list):
                if x and isinstance(x[0], list):
                    for y in x:
                        walk(y)
                elif x and isinstance(x[0], str) and x[0] in KINDS:
                    walk(x)
    for r in rules:
        walk(r[4])
    return m


KINDS = {"act", "andc", "notc", "stc", "and", "not", "plus", "star", "opt", "any", "cls", "ch", "lab", "lit", "rec", "ref", "seq", "thr"}
