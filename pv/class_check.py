"""The class-parser stream (C03): the real ast.NewCharClassMatcher (harness/cmd/pvclass -run) against the Lean model of
(*ast.CharClassMatcher).parse (lean/PigeonVerif/Model/ClassParse.lean, run by pvdriver on `class` lines), on generated class
texts: every escape form, ranges and dashes in every position, \\p classes, ^, i, stray bytes, truncations. The descriptors
(flags, characters, ranges, class names) are compared field by field; the class text is the failing input."""
import subprocess, hashlib
from . import core
from .core import log


def run(prop, tier, seed, nq=20000, nt=400000):
    core.ensure_built()
    n = nq if tier == "quick" else nt
    tool = core.need_tool("pvclass")
    g = subprocess.run([tool, "-gen", "-seed", str(seed), "-n", str(n)], stdout=subprocess.PIPE, stderr=subprocess.PIPE, timeout=600)
    if g.returncode != 0:
        raise RuntimeError("pvclass -gen failed: " + g.stderr.decode()[-1000:])
    lines = [l for l in g.stdout.decode().splitlines() if l.startswith("class ")]
    r = subprocess.run([tool, "-run"], input=("\n".join(lines) + "\n").encode(), stdout=subprocess.PIPE, stderr=subprocess.PIPE, timeout=1800)
    if r.returncode != 0:
        raise RuntimeError("pvclass -run failed: " + r.stderr.decode()[-1000:])
    impl = r.stdout.decode().splitlines()
    model = core.run_model_lines("unicode 0", lines)
    viol, panics, distinct = [], 0, set()
    for cl, il, ml in zip(lines, impl, model):
        raw = bytes.fromhex(cl.split(" ")[2][1:])
        distinct.add(raw)
        if il.endswith(" panic"):
            panics += 1
        if il != ml:
            viol.append(("class-parse", {"why": "ast.NewCharClassMatcher(%r) gives %s, the model of CharClassMatcher.parse gives %s" % (raw.decode("utf-8", "replace"), il.split(" ", 2)[2][:300], ml.split(" ", 2)[2][:300] if ml.count(" ") >= 2 else ml),
                                         "detail": "class descriptor differs", "class_text": raw.decode("utf-8", "replace"), "class_text_hex": raw.hex(),
                                         "impl": il, "model": ml, "id": hashlib.sha1(raw).hexdigest()[:10],
                                         "replay_cmd": "echo '%s' | /verif/build/bin/pvclass -run; echo '%s' | /verif/lean/.lake/build/bin/pvdriver" % (cl, cl)}, True))
    cov = {"class_texts": len(lines), "class_texts_distinct": len(distinct), "class_texts_on_which_the_go_function_panics": panics,
           "class_parse_disagreements": len(viol)}
    log("class parser: %d texts (%d distinct, %d slice-bounds panics predicted), %d disagreements" % (len(lines), len(distinct), panics, len(viol)))
    return viol, cov
