"""C18: concurrent parses with one generated parser are isolated.
Execution: race-detector builds of the 16 host variants, groups of cases sharing one grammar parsed concurrently
and compared with their solo results (harness/cmd/pvconc). Lean: the pool discipline model (Properties/C18.lean)."""
import json, os, subprocess, time, hashlib
from . import core
from .core import log
from .props_h1 import TRUSTED

RACE_HOSTS = os.path.join(core.BUILD, "hosts_race")


def ensure_race_hosts():
    want = core.ensure_built()
    stamp_p = os.path.join(core.BUILD, "stamp_race.json")
    have = {}
    if os.path.exists(stamp_p):
        try:
            have = json.load(open(stamp_p))
        except Exception:
            have = {}
    if have == want and all(os.path.exists(os.path.join(RACE_HOSTS, v)) for v in core.ALL_VARIANTS):
        return
    if os.path.exists(stamp_p):
        os.remove(stamp_p)
    os.makedirs(RACE_HOSTS, exist_ok=True)
    log("building the race-detector hosts")
    rc, out, _ = core.run([os.path.join(core.BIN, "pvconcgen"), "-pigeon", os.path.join(core.BIN, "pigeon"), "-out", RACE_HOSTS,
                           "-harness", core.HARNESS, "-q"], env=core.goenv(True), check=False, timeout=1200)
    if rc != 0:
        raise core.BuildError("race host generation failed:\n" + out[-3000:])
    json.dump(want, open(stamp_p, "w"))


def run_c18(prop, cfg, tier, seed):
    t0 = time.time()
    ensure_race_hosts()
    audit = core.lean_audit(cfg["module"])
    lean_ok = audit["ok"]
    groups = 200 if tier == "quick" else 4000
    rounds = 20 if tier == "quick" else 30
    outdir = os.path.join(core.BUILD, "work", prop)
    os.makedirs(outdir, exist_ok=True)
    cmd = [os.path.join(core.BIN, "pvconc"), "-hosts", RACE_HOSTS, "-seed", str(seed), "-groups", str(groups), "-rounds", str(rounds),
           "-j", str(max(2, core.NCPU // 2)), "-pvgen", os.path.join(core.BIN, "pvgen"), "-out", outdir]
    p = subprocess.run(cmd, stdout=subprocess.PIPE, stderr=subprocess.PIPE, timeout=7200)
    if p.returncode != 0:
        raise RuntimeError("pvconc failed: " + p.stderr.decode()[-2000:])
    res = json.loads(p.stdout.decode())
    printed = []
    nviol = 0

    def rep(kind, obj, failing=True):
        nonlocal nviol
        nviol += 1
        if nviol > 3:
            return
        obj.update({"property": prop, "kind": kind, "property_fails_on_impl": [obj.get("why")] if failing else [],
                    "replay_cmd": "/verif/build/bin/pvconc -hosts /verif/build/hosts_race -groupfile <group_file>"})
        gf = obj.get("group_file")
        if gf and os.path.exists(gf):
            keep = os.path.join(core.VERIF, "replays", prop)
            os.makedirs(keep, exist_ok=True)
            dst = os.path.join(keep, os.path.basename(gf))
            open(dst, "wb").write(open(gf, "rb").read())
            obj["group_file"] = dst
        name = "%s_%s" % (kind, hashlib.md5(json.dumps(obj, sort_keys=True).encode()).hexdigest()[:10])
        pth = core.write_replay(prop, name, obj)
        printed.append("VIOLATION property=%s replay=%s%s" % (prop, pth, "" if failing else " no-failing-input-found"))
    if not lean_ok:
        rep("proof-obligation", {"module": cfg["module"], "problems": audit["problems"]}, False)
    for m in res.get("mismatches") or []:
        m["why"] = "a Parse call running concurrently with others returned a different result than when run alone"
        rep("concurrent-mismatch", m)
    for r in res.get("races") or []:
        r["why"] = "the race detector reported a data race between concurrent Parse calls"
        rep("data-race", r)
    for key in ("timeouts", "crashes"):
        if res.get(key):
            rep(key, {"why": "%d %s while parsing concurrently" % (res[key], key), "count": res[key]})
    wall = time.time() - t0
    cov = {"obligations": len(audit["theorems"]), "discharged": len(audit["theorems"]) if lean_ok else 0,
           "checker_cmd": "cd /verif/lean && lake build %s && #print axioms audit" % cfg["module"],
           "trusted_base": TRUSTED[:2] + ["Go's race detector (happens-before based; reports only races that occur in the explored schedules)", "sync.Pool, the Go scheduler and memory model are not modelled",
                                          "harness/cmd/pvconc, hosttmpl/conc.go.tmpl"],
           "theorems": audit["theorems"], "axioms": audit["axioms"],
           "evaluations": res.get("concurrent_parses", 0) + res.get("solo_parses", 0),
           "distinct_nontrivial": res.get("cases", 0),
           "rule": "groups of k cases sharing one grammar (different inputs, options, initial stores with per-member marker keys) are parsed solo and then concurrently (k + k goroutines behind a barrier, several rounds) on -race builds of all 16 template variants; distinct = distinct case",
           "groups": res.get("groups"), "per_variant": res.get("per_variant"), "per_profile": res.get("per_profile"),
           "mismatches": len(res.get("mismatches") or []), "races": len(res.get("races") or []),
           "samples": [{"groups": res.get("groups"), "cases": res.get("cases"), "concurrent_parses": res.get("concurrent_parses")}],
           "explanation": "schedule independence is argued in Lean from the pool discipline (pooled maps are empty, a snapshot is filled from the live store only) and the ownership of every other piece of parser state by its parser value; races as defined by the Go memory model are outside any Lean model and are searched for with the race detector"}
    core.write_evidence(prop, tier, seed, cfg.get("level", "other"), cov,
                        ["a data race or a schedule-dependent result that does not occur in the explored schedules is not seen"], wall, nviol)
    for l in printed:
        print(l)
    log("%s: %s groups, %s concurrent parses, %d mismatches, %d races, lean_ok=%s %.1fs" % (prop, res.get("groups"), res.get("concurrent_parses"), len(res.get("mismatches") or []), len(res.get("races") or []), lean_ok, wall))
    return 1 if nviol else 0
