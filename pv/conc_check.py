"""C18: concurrent parses with one generated parser are isolated.
Execution: race-detector builds of the 16 host variants, groups of cases sharing one grammar parsed concurrently
and compared with their solo results (harness/cmd/pvconc). Lean: the pool discipline model (Properties/C18.lean)."""
import json, os, subprocess, time, hashlib
from . import core
from .core import log
from .props_h1 import TRUSTED
from . import h1

RACE_HOSTS = os.path.join(core.BUILD, "hosts_race")


def ensure_race_hosts():
    want = core.ensure_built()
    stamp_p = os.path.join(core.BUILD, "stamp_race.json")
    have = {}
    if os.path.exists(stamp_p):
        try:
            have = json.load(open(stamp_p))
        except Exception:
            have = {}
    if have == want and all(os.path.exists(os.path.join(RACE_HOSTS, v)) for v in core.ALL_VARIANTS):
        return
    if os.path.exists(stamp_p):
        os.remove(stamp_p)
    os.makedirs(RACE_HOSTS, exist_ok=True)
    log("building the race-detector hosts")
    rc, out, _ = core.run([os.path.join(core.BIN, "pvconcgen"), "-pigeon", os.path.join(core.BIN, "pigeon"), "-out", RACE_HOSTS,
                           "-harness", core.HARNESS, "-q"], env=core.goenv(True), check=False, timeout=1200)
    if rc != 0:
        raise core.BuildError("race host generation failed:\n" + out[-3000:])
    json.dump(want, open(stamp_p, "w"))


def model_reference(outdir, dump_f, solo_f, seed):
    """The solo result of every member of every group, as the race host reports it AFTER the cold concurrent round of
    its group (and after every earlier group of the same host process), against the Lean runtime model run on that case
    alone. Solo-vs-concurrent comparison inside one process cannot see state that the process keeps ACROSS parses
    consistently (a package-level cache filled by the first call); the model is a reference without a history."""
    out = {"compared": 0, "identical_lines": 0, "inconclusive": 0, "without_solo_line": 0, "disagree": []}
    if not (os.path.exists(dump_f) and os.path.exists(solo_f)):
        return out
    hdr_f = os.path.join(outdir, "hdr.cases")
    core.gen_cases("core", seed, 0, hdr_f)
    header = open(hdr_f).read().splitlines()[0]
    cases = [l for l in open(dump_f).read().splitlines() if l.startswith("case ")]
    solo = {}
    for l in open(solo_f).read().splitlines():
        f = l.split(" ", 3)
        if len(f) >= 3 and f[0] == "res":
            solo.setdefault(f[1], l)
    cases = [c for c in cases if c.split(" ", 2)[1] in solo]
    model = core.run_model_lines(header, cases)
    proj = h1.P(["val", "errs", "cnt", "mf", "stores", "choices", "trace_ctx", "trace_stores"])
    for cl, ml in zip(cases, model):
        il = solo[cl.split(" ", 2)[1]]
        ik, mk = il.split(" ", 3)[2], ml.split(" ", 3)[2]
        if h1.inconclusive(ik) or h1.inconclusive(mk) or ik in ("crash", "badvariant"):
            out["inconclusive"] += 1
            continue
        out["compared"] += 1
        if il == ml:
            out["identical_lines"] += 1
            continue
        pi, pm = proj(core.parse_result(il)), proj(core.parse_result(ml))
        if pi != pm:
            why = "projection differs"
            for a, b in zip(pi, pm):
                if a != b:
                    why = "impl %s  vs  model %s" % (repr(a)[:300], repr(b)[:300])
                    break
            out["disagree"].append((cl, il, ml, why))
    return out


def run_c18(prop, cfg, tier, seed):
    t0 = time.time()
    ensure_race_hosts()
    audit = core.lean_audit(cfg["module"])
    lean_ok = audit["ok"]
    groups = 200 if tier == "quick" else 4000
    rounds = 20 if tier == "quick" else 30
    outdir = os.path.join(core.BUILD, "work", prop)
    os.makedirs(outdir, exist_ok=True)
    cmd = [os.path.join(core.BIN, "pvconc"), "-hosts", RACE_HOSTS, "-seed", str(seed), "-groups", str(groups), "-rounds", str(rounds),
           "-j", str(max(2, core.NCPU // 2)), "-pvgen", os.path.join(core.BIN, "pvgen"), "-out", outdir]
    dump_f, solo_f = os.path.join(outdir, "groups.txt"), os.path.join(outdir, "solo.txt")
    for f in (dump_f, solo_f):
        if os.path.exists(f):
            os.remove(f)
    cmd += ["-dump", dump_f, "-solo", solo_f]
    p = subprocess.run(cmd, stdout=subprocess.PIPE, stderr=subprocess.PIPE, timeout=7200)
    if p.returncode != 0:
        raise RuntimeError("pvconc failed: " + p.stderr.decode()[-2000:])
    res = json.loads(p.stdout.decode())
    printed = []
    nviol = 0
    model_cmp = model_reference(outdir, dump_f, solo_f, seed)
    # a second, small run on the family whose result depends on WHICH rule evaluates a shared node (Statistics keys of a
    # choice inside an inline recovery expression, thrown to from two rules): pvgen is told to draw it (PVGEN_FORCE)
    dump2, solo2 = os.path.join(outdir, "groups2.txt"), os.path.join(outdir, "solo2.txt")
    for f in (dump2, solo2):
        if os.path.exists(f):
            os.remove(f)
    cmd2 = [os.path.join(core.BIN, "pvconc"), "-hosts", RACE_HOSTS, "-seed", str(seed + 1), "-groups", str(32 if tier == "quick" else 400),
            "-rounds", "8", "-profiles", "throw", "-j", str(max(2, core.NCPU // 2)), "-pvgen", os.path.join(core.BIN, "pvgen"), "-out", outdir,
            "-dump", dump2, "-solo", solo2]
    p2 = subprocess.run(cmd2, stdout=subprocess.PIPE, stderr=subprocess.PIPE, timeout=7200, env=dict(os.environ, PVGEN_FORCE="statsrec"))
    if p2.returncode != 0:
        raise RuntimeError("pvconc (second run) failed: " + p2.stderr.decode()[-2000:])
    res2 = json.loads(p2.stdout.decode())
    for key in ("mismatches", "races"):
        res[key] = (res.get(key) or []) + (res2.get(key) or [])
    for key in ("timeouts", "crashes", "groups", "cases", "concurrent_parses", "solo_parses"):
        res[key] = (res.get(key) or 0) + (res2.get(key) or 0)
    mc2 = model_reference(outdir, dump2, solo2, seed)
    for k, v in mc2.items():
        model_cmp[k] = model_cmp[k] + v

    def rep(kind, obj, failing=True):
        nonlocal nviol
        nviol += 1
        if nviol > 3:
            return
        obj.update({"property": prop, "kind": kind, "property_fails_on_impl": [obj.get("why")] if failing else [],
                    "replay_cmd": "/verif/build/bin/pvconc -hosts /verif/build/hosts_race -groupfile <group_file>"})
        gf = obj.get("group_file")
        if gf and os.path.exists(gf):
            keep = os.path.join(core.VERIF, "replays", prop)
            os.makedirs(keep, exist_ok=True)
            dst = os.path.join(keep, os.path.basename(gf))
            open(dst, "wb").write(open(gf, "rb").read())
            obj["group_file"] = dst
        name = "%s_%s" % (kind, hashlib.md5(json.dumps(obj, sort_keys=True).encode()).hexdigest()[:10])
        pth = core.write_replay(prop, name, obj)
        printed.append("VIOLATION property=%s replay=%s%s" % (prop, pth, "" if failing else " no-failing-input-found"))
    if not lean_ok:
        rep("proof-obligation", {"module": cfg["module"], "problems": audit["problems"]}, False)
    for m in res.get("mismatches") or []:
        m["why"] = "a Parse call running concurrently with others returned a different result than when run alone"
        rep("concurrent-mismatch", m)
    for r in res.get("races") or []:
        r["why"] = "the race detector reported a data race between concurrent Parse calls"
        rep("data-race", r)
    for cl, il, ml, why in model_cmp["disagree"][:3]:
        rep("history-dependent-result", {"why": "a Parse call in a process that has parsed other inputs with the same generated parser returns something "
                                                 "else than the runtime model prescribes for that call alone (" + why + ")",
                                         "case": cl, "impl": il, "model": ml, "group_file": None})
    nviol += max(0, len(model_cmp["disagree"]) - 3)
    for key in ("timeouts", "crashes"):
        if res.get(key):
            rep(key, {"why": "%d %s while parsing concurrently" % (res[key], key), "count": res[key]})
    wall = time.time() - t0
    cov = {"obligations": len(audit["theorems"]), "discharged": len(audit["theorems"]) if lean_ok else 0,
           "checker_cmd": "cd /verif/lean && lake build %s && #print axioms audit" % cfg["module"],
           "trusted_base": TRUSTED[:2] + ["Go's race detector (happens-before based; reports only races that occur in the explored schedules)", "sync.Pool, the Go scheduler and memory model are not modelled",
                                          "harness/cmd/pvconc, hosttmpl/conc.go.tmpl"],
           "theorems": audit["theorems"], "axioms": audit["axioms"],
           "evaluations": res.get("concurrent_parses", 0) + res.get("solo_parses", 0),
           "distinct_nontrivial": res.get("cases", 0),
           "rule": "groups of k cases sharing one grammar (different inputs, options, initial stores with per-member marker keys) are parsed solo and then concurrently (k + k goroutines behind a barrier, several rounds) on -race builds of all 16 template variants; distinct = distinct case",
           "groups": res.get("groups"), "per_variant": res.get("per_variant"), "per_profile": res.get("per_profile"),
           "mismatches": len(res.get("mismatches") or []), "races": len(res.get("races") or []),
           "solo_results_against_the_model": {k: v for k, v in model_cmp.items() if k != "disagree"},
           "solo_vs_model_disagreements": len(model_cmp["disagree"]),
           "samples": [{"groups": res.get("groups"), "cases": res.get("cases"), "concurrent_parses": res.get("concurrent_parses")}],
           "explanation": "schedule independence is argued in Lean from the pool discipline (pooled maps are empty, a snapshot is filled from the live store only) and the ownership of every other piece of parser state by its parser value; races as defined by the Go memory model are outside any Lean model and are searched for with the race detector"}
    core.write_evidence(prop, tier, seed, cfg.get("level", "other"), cov,
                        ["a data race or a schedule-dependent result that does not occur in the explored schedules is not seen"], wall, nviol)
    for l in printed:
        print(l)
    log("%s: %s groups, %s concurrent parses, %d mismatches, %d races, lean_ok=%s %.1fs" % (prop, res.get("groups"), res.get("concurrent_parses"), len(res.get("mismatches") or []), len(res.get("races") or []), lean_ok, wall))
    return 1 if nviol else 0
