"""Core of the /verif check machinery: rebuild from /repo, run correspondence
streams (real pigeon runtime vs Lean model), Lean build + audit, evidence."""
import fcntl, hashlib, json, os, re, shutil, subprocess, sys, time
from concurrent.futures import ThreadPoolExecutor

VERIF = os.path.dirname(os.path.dirname(os.path.abspath(__file__)))
REPO = os.environ.get("PV_REPO", "/repo")
BUILD = os.path.join(VERIF, "build")
BIN = os.path.join(BUILD, "bin")
HOSTS = os.path.join(BUILD, "hosts")
LEAN = os.path.join(VERIF, "lean")
HARNESS = os.path.join(VERIF, "harness")
DRIVER = os.path.join(LEAN, ".lake", "build", "bin", "pvdriver")
NCPU = min(16, os.cpu_count() or 4)


# result values nest as deep as the parse recursed (the deep-recovery family: a few hundred levels)
sys.setrecursionlimit(20000)

def goenv(modmod=False):
    e = dict(os.environ)
    e["GOPROXY"] = "off"
    e.pop("GOTOOLCHAIN", None)      # go.mod says go 1.25.0; the cached toolchain is selected by the default (auto)
    e.pop("GOSUMDB", None)
    e["GOFLAGS"] = "-mod=mod" if modmod else ""
    return e


def log(*a):
    print("[check]", *a, file=sys.stderr, flush=True)


def run(cmd, cwd=None, env=None, timeout=None, check=True, capture=True, input=None):
    t0 = time.time()
    p = subprocess.run(cmd, cwd=cwd, env=env, timeout=timeout, input=input,
                       stdout=subprocess.PIPE if capture else None,
                       stderr=subprocess.STDOUT if capture else None)
    out = p.stdout.decode("utf-8", "replace") if capture and p.stdout else ""
    if check and p.returncode != 0:
        raise RuntimeError("command failed (%d): %s\n%s" % (p.returncode, " ".join(cmd), out[-4000:]))
    return p.returncode, out, time.time() - t0


# ---------------------------------------------------------------- repo hash / build

SRC_EXT = (".go", ".peg", ".mod", ".sum")


def repo_hash():
    h = hashlib.sha256()
    for root, dirs, files in os.walk(REPO):
        dirs[:] = sorted(d for d in dirs if d not in (".git", "bin", "node_modules"))
        for f in sorted(files):
            if f.endswith(SRC_EXT) or f == "Makefile":
                p = os.path.join(root, f)
                h.update(os.path.relpath(p, REPO).encode())
                try:
                    with open(p, "rb") as fh:
                        h.update(hashlib.sha256(fh.read()).digest())
                except OSError:
                    pass
    return h.hexdigest()


def harness_hash():
    h = hashlib.sha256()
    for root, dirs, files in os.walk(HARNESS):
        dirs[:] = sorted(d for d in dirs if not d.startswith("hosts_gen"))
        for f in sorted(files):
            p = os.path.join(root, f)
            h.update(p.encode())
            with open(p, "rb") as fh:
                h.update(fh.read())
    return h.hexdigest()


class BuildError(Exception):
    pass


def ensure_built(need_hosts=True):
    """(Re)build pigeon, the harness tools and the 16 hosts from /repo's working tree.
    Cached by content hash of the sources, so consecutive checks on an unchanged tree share it."""
    os.makedirs(BIN, exist_ok=True)
    os.makedirs(HOSTS, exist_ok=True)
    lock = open(os.path.join(BUILD, ".lock"), "w")
    fcntl.flock(lock, fcntl.LOCK_EX)
    try:
        stamp_p = os.path.join(BUILD, "stamp.json")
        want = {"repo": repo_hash(), "harness": harness_hash()}
        have = {}
        if os.path.exists(stamp_p):
            try:
                have = json.load(open(stamp_p))
            except Exception:
                have = {}
        ok = (have.get("repo") == want["repo"] and have.get("harness") == want["harness"] and not have.get("failed_tools")
              and os.path.exists(os.path.join(BIN, "pigeon"))
              and all(os.path.exists(os.path.join(HOSTS, v)) for v in ALL_VARIANTS))
        if ok:
            return want
        why = [k for k in ("repo", "harness") if have.get(k) != want[k]]
        if have.get("failed_tools"):
            why.append("tools that failed to build: %s" % have["failed_tools"])
        if not os.path.exists(os.path.join(BIN, "pigeon")):
            why.append("no pigeon binary")
        why += ["host %s missing" % v for v in ALL_VARIANTS if not os.path.exists(os.path.join(HOSTS, v))][:2]
        log("rebuild needed:", ", ".join(why) or "no stamp")
        t0 = time.time()
        if os.path.exists(stamp_p):
            os.remove(stamp_p)
        for f in os.listdir(HOSTS):
            os.remove(os.path.join(HOSTS, f))
        log("building pigeon from", REPO)
        rc, out, _ = run(["go", "build", "-tags", "verif", "-o", os.path.join(BIN, "pigeon"), "."],
                         cwd=REPO, env=goenv(), check=False)
        if rc != 0:
            raise BuildError("pigeon does not build:\n" + out[-3000:])
        log("building harness tools")
        rc, out, _ = run(["go", "build", "-o", BIN + "/", "./cmd/..."], cwd=HARNESS, env=goenv(True), check=False)
        if rc != 0:
            # build the tools one by one: a tool that does not build only matters to the checks that use it
            failed = {}
            for d in sorted(os.listdir(os.path.join(HARNESS, "cmd"))):
                old_bin = os.path.join(BIN, d)
                if os.path.exists(old_bin):
                    os.remove(old_bin)
                rc1, out1, _ = run(["go", "build", "-o", BIN + "/", "./cmd/" + d], cwd=HARNESS, env=goenv(True), check=False)
                if rc1 != 0:
                    failed[d] = out1[-1500:]
            want["failed_tools"] = sorted(failed)
            core_tools = [x for x in ("pvgen", "pvrun", "pvhostgen", "pvshrink", "pvshow") if x in failed]
            if core_tools:
                raise BuildError("harness tools do not build (does /repo's ast/builder API still compile?):\n" + "\n".join(failed[x] for x in core_tools))
        if need_hosts:
            log("generating the 16 host parsers")
            rc, out, _ = run([os.path.join(BIN, "pvhostgen"), "-pigeon", os.path.join(BIN, "pigeon"),
                              "-out", HOSTS, "-harness", HARNESS], env=goenv(True), check=False)
            if rc != 0:
                raise BuildError("host generation failed:\n" + out[-3000:])
        json.dump(want, open(stamp_p, "w"))
        log("build done in %.1fs" % (time.time() - t0))
        return want
    finally:
        fcntl.flock(lock, fcntl.LOCK_UN)
        lock.close()


ALL_VARIANTS = ["o%dg%dl%db%d" % (o, g, l, b) for o in (0, 1) for g in (0, 1) for l in (0, 1) for b in (0, 1)]

# ---------------------------------------------------------------- lean

LEAN_LOCK = os.path.join(BUILD, ".leanlock")
FORBIDDEN = re.compile(r"\b(sorry|admit|native_decide|bv_decide|implemented_by|unsafe)\b|^\s*axiom\s|maxHeartbeats\s+0")
ALLOWED_AXIOMS = {"propext", "Classical.choice", "Quot.sound"}


def strip_comments(src):
    out = []
    i = 0
    depth = 0
    n = len(src)
    while i < n:
        if src.startswith("/-", i):
            depth += 1
            i += 2
            continue
        if depth and src.startswith("-/", i):
            depth -= 1
            i += 2
            continue
        if depth:
            if src[i] == "\n":
                out.append("\n")
            i += 1
            continue
        if src.startswith("--", i):
            while i < n and src[i] != "\n":
                i += 1
            continue
        out.append(src[i])
        i += 1
    return "".join(out)


def lean_sources():
    res = []
    for root, dirs, files in os.walk(LEAN):
        dirs[:] = [d for d in dirs if d != ".lake"]
        for f in files:
            if f.endswith(".lean"):
                res.append(os.path.join(root, f))
    return sorted(res)


def lean_build(targets=None):
    """lake build (incremental). Returns (ok, output)."""
    os.makedirs(BUILD, exist_ok=True)
    lock = open(LEAN_LOCK, "w")
    fcntl.flock(lock, fcntl.LOCK_EX)
    try:
        cmd = ["lake", "build"] + (targets or [])
        rc, out, dt = run(cmd, cwd=LEAN, check=False, timeout=3600)
        return rc == 0, out
    finally:
        fcntl.flock(lock, fcntl.LOCK_UN)
        lock.close()


def theorems_in(module_file):
    src = strip_comments(open(module_file).read())
    ns = []
    names = []
    for line in src.splitlines():
        m = re.match(r"\s*namespace\s+(\S+)", line)
        if m:
            ns.append(m.group(1))
            continue
        m = re.match(r"\s*end\s+(\S+)\s*$", line)
        if m and ns and ns[-1] == m.group(1):
            ns.pop()
            continue
        m = re.match(r"\s*(?:@\[[^\]]*\]\s*)?(?:private\s+|protected\s+)?theorem\s+([^\s:({\[]+)", line)
        if m:
            names.append(".".join(ns + [m.group(1)]))
    return names


def lean_audit(module, extra_modules=()):
    """Build the property module, check for forbidden constructs in every source file it can depend on,
    and `#print axioms` every theorem of the property file. Returns dict."""
    res = {"module": module, "ok": False, "theorems": [], "axioms": {}, "problems": []}
    ok, out = lean_build([module, "pvdriver"] + list(extra_modules))
    if not ok:
        res["problems"].append("lake build failed:\n" + out[-3000:])
        res["build_output"] = out[-6000:]
        return res
    for f in lean_sources():
        src = strip_comments(open(f).read())
        for i, line in enumerate(src.splitlines(), 1):
            if FORBIDDEN.search(line):
                res["problems"].append("%s:%d: forbidden construct: %s" % (os.path.relpath(f, VERIF), i, line.strip()[:80]))
    mfile = os.path.join(LEAN, module.replace(".", "/") + ".lean")
    thms = theorems_in(mfile)
    # a property file may keep its ingredient lemmas in <module>Base.lean (imported by it): audited with it
    bfile = mfile[:-len(".lean")] + "Base.lean"
    if os.path.exists(bfile):
        thms = theorems_in(bfile) + thms
    res["theorems"] = thms
    if not thms:
        res["problems"].append("no theorem found in " + mfile)
        return res
    audit = "import %s\n" % module + "".join("#print axioms %s\n" % t for t in thms)
    tmp = os.path.join(BUILD, "audit_%s.lean" % module.split(".")[-1])
    open(tmp, "w").write(audit)
    rc, out, _ = run(["lake", "env", "lean", tmp], cwd=LEAN, check=False, timeout=1800)
    if rc != 0:
        res["problems"].append("audit failed:\n" + out[-2000:])
        return res
    cur = None
    text = out.replace("\n  ", " ")
    for m in re.finditer(r"'([^']+)' (does not depend on any axioms|depends on axioms: \[([^\]]*)\])", text):
        name = m.group(1)
        axs = [a.strip() for a in (m.group(3) or "").split(",") if a.strip()]
        res["axioms"][name] = axs
        bad = [a for a in axs if a not in ALLOWED_AXIOMS]
        if bad:
            res["problems"].append("theorem %s depends on non-standard axioms %s" % (name, bad))
    missing = [t for t in thms if t not in res["axioms"]]
    if missing:
        res["problems"].append("no axiom report for %s" % missing)
    res["ok"] = not res["problems"]
    return res


def leanchecker(module):
    rc, out, dt = run(["lake", "env", "leanchecker", module], cwd=LEAN, check=False, timeout=3600)
    return rc == 0, out[-2000:], dt

# ---------------------------------------------------------------- streams


def workdir(prop):
    d = os.path.join(BUILD, "work", prop)
    shutil.rmtree(d, ignore_errors=True)
    os.makedirs(d)
    return d


def gen_cases(profile, seed, n, out, variants=None, stats=None, id0=1):
    if profile == "enum":
        # bounded-exhaustive: every start-rule body of at most 4 (5 when more than 120 000 cases are asked for) nodes x every
        # input over {a,b} up to length 3; `n` selects a residue class of the enumeration (stride), the seed which one
        tool = need_tool("pvenum")
        size = "4" if n <= 120000 else "5"
        rc, cnt, _ = run([tool, "-size", size, "-count"], check=True)
        total = int(cnt.split("=")[1].split()[0])
        stride = max(1, total // max(1, n))
        cmd = [tool, "-size", size, "-stride", str(stride), "-offset", str(seed % stride), "-id0", str(id0)]
        if variants:
            cmd += ["-variants", ",".join(variants)]
        with open(out, "wb") as fh:
            p = subprocess.run(cmd, stdout=fh, stderr=subprocess.PIPE)
        if p.returncode != 0:
            raise RuntimeError("pvenum failed: " + p.stderr.decode()[-2000:])
        return
    cmd = [os.path.join(BIN, "pvgen"), "-profile", profile, "-seed", str(seed), "-n", str(n), "-id0", str(id0)]
    if variants:
        cmd += ["-variants", ",".join(variants)]
    if stats:
        cmd += ["-stats", stats]
    with open(out, "wb") as fh:
        p = subprocess.run(cmd, stdout=fh, stderr=subprocess.PIPE)
    if p.returncode != 0:
        raise RuntimeError("pvgen failed: " + p.stderr.decode()[-2000:])


def run_impl(cases_file, out_file, j=NCPU):
    rc, out, dt = run([os.path.join(BIN, "pvrun"), "-hosts", HOSTS, "-cases", cases_file, "-out", out_file,
                       "-j", str(j)], check=False, timeout=7200)
    summary = {}
    for line in out.splitlines():
        line = line.strip()
        if line.startswith("{"):
            try:
                summary = json.loads(line)
            except Exception:
                pass
    if rc != 0:
        raise RuntimeError("pvrun failed: " + out[-2000:])
    return summary


def run_lrwf_lines(header, case_lines, timeout=900):
    """pvdriver --lrwf: for each case, does the kernel-proved checker RT.checkLRWF accept a witness that every
    same-position cycle passes through a leader (C08_checked_grammars_terminate then says the parse terminates)?"""
    if not case_lines:
        return {}
    data = (header + "\n" + "\n".join(case_lines) + "\n").encode()
    p = subprocess.run([DRIVER, "--lrwf"], input=data, stdout=subprocess.PIPE, stderr=subprocess.PIPE, timeout=timeout)
    res = {}
    for l in p.stdout.decode().splitlines():
        f = l.split(" ")
        if len(f) == 3 and f[0] == "lrwf":
            res[f[1]] = f[2] == "1"
    return res


def run_wfg_lines(header, case_lines, timeout=600):
    """pvdriver --wfg: for each case, does the kernel-proved checker RT.checkWFG accept a witness of well-formedness
    (C07_checked_grammars_terminate then says the parse terminates)? -> {case id: bool}"""
    if not case_lines:
        return {}
    data = (header + "\n" + "\n".join(case_lines) + "\n").encode()
    p = subprocess.run([DRIVER, "--wfg"], input=data, stdout=subprocess.PIPE, stderr=subprocess.PIPE, timeout=timeout)
    res = {}
    for l in p.stdout.decode().splitlines():
        f = l.split(" ")
        if len(f) == 3 and f[0] == "wfg":
            res[f[1]] = f[2] == "1"
    return res


def run_model_lines(header, case_lines, timeout=900, spec=False):
    """Run the Lean driver over the cases, NCPU-way parallel, order preserving.
    A chunk that times out is re-run case by case; a case that times out alone yields 'res <id> modeltimeout'."""
    if not case_lines:
        return []
    nchunk = min(NCPU, max(1, len(case_lines) // 50))
    size = (len(case_lines) + nchunk - 1) // nchunk
    chunks = [case_lines[i:i + size] for i in range(0, len(case_lines), size)]

    def one(chunk, to):
        data = (header + "\n" + "\n".join(chunk) + "\n").encode()
        p = subprocess.run(["/bin/sh", "-c", "ulimit -s unlimited 2>/dev/null; exec " + DRIVER + (" --spec" if spec else "")], input=data,
                           stdout=subprocess.PIPE, stderr=subprocess.PIPE, timeout=to)
        lines = p.stdout.decode().splitlines()
        return lines, p.returncode

    def work(chunk):
        try:
            lines, rc = one(chunk, timeout)
            if len(lines) == len(chunk):
                return lines
        except subprocess.TimeoutExpired:
            pass
        res = []
        for c in chunk:
            cid = c.split(" ", 2)[1]
            try:
                lines, rc = one([c], 60)
                res.append(lines[0] if lines else "%s %s modelcrash" % ("spec" if spec else "res", cid))
            except subprocess.TimeoutExpired:
                res.append("%s %s modeltimeout" % ("spec" if spec else "res", cid))
        return res

    with ThreadPoolExecutor(max_workers=NCPU) as ex:
        parts = list(ex.map(work, chunks))
    return [l for part in parts for l in part]


def read_cases(path):
    with open(path, "r") as fh:
        lines = fh.read().splitlines()
    if not lines or not lines[0].startswith("unicode "):
        raise RuntimeError("case file without unicode header: " + path)
    return lines[0], [l for l in lines[1:] if l.startswith("case ")]

# ---------------------------------------------------------------- result / case parsing (python side)


class Tok:
    def __init__(self, toks):
        self.t = toks
        self.i = 0

    def next(self):
        v = self.t[self.i]
        self.i += 1
        return v

    def nat(self):
        return int(self.next())

    def more(self):
        return self.i < len(self.t)

    def hexs(self):
        v = self.next()
        assert v.startswith("x"), v
        return bytes.fromhex(v[1:])


def p_val(tk):
    t = tk.next()
    if t == "nil":
        return None
    if t == "b":
        return ("b", tk.hexs())
    if t == "l":
        n = tk.nat()
        return ("l", [p_val(tk) for _ in range(n)])
    if t == "s":
        return ("s", tk.hexs())
    if t == "i":
        return ("i", int(tk.next()))
    if t == "bool":
        return ("bool", tk.next() == "1")
    if t == "cl":
        n = tk.nat()
        return ("cl", [int(tk.next()) for _ in range(n)])
    raise ValueError("bad VAL tag " + t)


def p_store(tk):
    n = tk.nat()
    return [(tk.hexs(), p_val(tk)) for _ in range(n)]


def parse_result(line):
    """-> dict(id, kind in ret|panic|oof|timeout|crash|..., val, errs, off, line, col, cnt, mf, expected, state, glob, choices, trace)"""
    toks = line.split(" ")
    tk = Tok(toks)
    assert tk.next() == "res"
    r = {"id": int(tk.next()), "raw": line}
    kind = tk.next()
    r["kind"] = kind
    if kind == "ret":
        r["val"] = p_val(tk)
    elif kind == "panic":
        pk = tk.next()
        r["val"] = (pk, tk.next())
    else:
        return r
    n = tk.nat()
    r["errs"] = [tk.hexs().decode("utf-8", "replace") for _ in range(n)]
    r["off"], r["line"], r["col"], r["cnt"] = tk.nat(), tk.nat(), tk.nat(), tk.nat()
    r["mf"] = (tk.nat(), tk.nat(), tk.nat())
    n = tk.nat()
    r["expected"] = [tk.hexs().decode("utf-8", "replace") for _ in range(n)]
    r["state"] = p_store(tk)
    r["glob"] = p_store(tk)
    n = tk.nat()
    r["choices"] = [(tk.hexs(), tk.hexs(), tk.nat()) for _ in range(n)]
    n = tk.nat()
    tr = []
    for _ in range(n):
        assert tk.next() == "ev"
        ev = {"blk": tk.nat(), "calli": tk.nat(), "line": tk.nat(), "col": tk.nat(), "off": tk.nat(), "text": tk.hexs()}
        ev["pt"] = (tk.nat(), tk.nat(), tk.nat())   # line, col, off of p.pt
        na = tk.nat()
        ev["args"] = [p_val(tk) for _ in range(na)]
        ev["state"] = p_store(tk)
        ev["glob"] = p_store(tk)
        tr.append(ev)
    r["trace"] = tr
    # the result contract applied by the specification (Spec.finish): the complete error list Parse returns
    if tk.more() and tk.next() == "final":
        fk = tk.next()
        r["final_kind"] = fk
        if fk in ("ret", "panic"):
            n = tk.nat()
            r["final_errs"] = [tk.hexs().decode("utf-8", "replace") for _ in range(n)]
    return r


def parse_case_head(line):
    """cheap parse of the fixed-position prefix of a case line + the input"""
    t = line.split(" ")
    c = {"id": int(t[1]), "o": t[2] == "1", "g": t[3] == "1", "l": t[4] == "1", "b": t[5] == "1",
         "memoize": t[6] == "1", "debug": t[7] == "1", "stats": t[8] == "1", "maxExpr": int(t[9]),
         "entry": None if t[10] == "-" else bytes.fromhex(t[10][1:]), "allowInvalid": t[11] == "1",
         "recover": t[12] == "1", "filename": bytes.fromhex(t[13][1:]).decode(), "input": bytes.fromhex(t[-1][1:]),
         "variant": "o%sg%sl%sb%s" % (t[2], t[3], t[4], t[5]), "toks": t}
    return c


def block_kinds(line):
    """blk id -> kind (a|p|s) and arg count"""
    t = line.split(" ")
    res = {}
    for i, x in enumerate(t):
        if x == "blk" and i + 3 < len(t) and t[i + 2] in ("a", "p", "s"):
            try:
                res[int(t[i + 1])] = t[i + 2]
            except ValueError:
                pass
    return res


def set_tok(line, idx, val):
    t = line.split(" ")
    t[idx] = val
    return " ".join(t)


def with_id(line, newid):
    return set_tok(line, 1, str(newid))

# ---------------------------------------------------------------- position oracle (independent of model and code)


def decode_rune_len(b, i):
    """length of the UTF-8 sequence starting at b[i] by RFC 3629; 1 for a malformed start"""
    n = len(b)
    c = b[i]
    if c < 0x80:
        return 1
    if 0xC2 <= c <= 0xDF:
        return 2 if i + 1 < n and 0x80 <= b[i + 1] <= 0xBF else 1
    if 0xE0 <= c <= 0xEF:
        if i + 2 >= n:
            return 1
        lo, hi = 0x80, 0xBF
        if c == 0xE0:
            lo = 0xA0
        if c == 0xED:
            hi = 0x9F
        return 3 if lo <= b[i + 1] <= hi and 0x80 <= b[i + 2] <= 0xBF else 1
    if 0xF0 <= c <= 0xF4:
        if i + 3 >= n:
            return 1
        lo, hi = 0x80, 0xBF
        if c == 0xF0:
            lo = 0x90
        if c == 0xF4:
            hi = 0x8F
        return 4 if lo <= b[i + 1] <= hi and 0x80 <= b[i + 2] <= 0xBF and 0x80 <= b[i + 3] <= 0xBF else 1
    return 1


def pos_table(inp):
    """offset -> (line, col) for every rune-start offset and len(inp), by the documented rule:
    line = 1 + newlines at offsets <= off ... exactly what `read` computes starting from 1:0 before the first rune"""
    tab = {}
    line, col = 1, 0
    i = 0
    n = len(inp)
    while True:
        # position of the rune starting at i (or EOF)
        col += 1
        if i < n and inp[i] == 0x0A:
            line += 1
            col = 0
        tab[i] = (line, col)
        if i >= n:
            break
        i += decode_rune_len(inp, i)
    return tab

# ---------------------------------------------------------------- evidence


def write_evidence(prop, tier, seed, level, coverage, assumptions, wall, violations):
    os.makedirs(os.path.join(VERIF, "evidence"), exist_ok=True)
    ev = {"property_id": prop, "tier": tier, "seed": int(seed), "level": level, "coverage": coverage,
          "assumptions": assumptions, "wall_s": round(wall, 2), "violations": violations}
    p = os.path.join(VERIF, "evidence", prop + ".json")
    tmp = p + ".tmp"
    with open(tmp, "w") as fh:
        json.dump(ev, fh, indent=1, sort_keys=True)
    os.replace(tmp, p)
    return p


def write_replay(prop, name, obj):
    d = os.path.join(VERIF, "replays", prop)
    os.makedirs(d, exist_ok=True)
    p = os.path.join(d, name + ".json")
    with open(p, "w") as fh:
        json.dump(obj, fh, indent=1)
    return p


def parse_spec(line):
    tk = Tok(line.split(" "))
    assert tk.next() == "spec"
    r = {"id": int(tk.next())}
    k = tk.next()
    r["kind"] = k
    if k not in ("ok", "fail", "panic"):
        return r
    if k == "panic":
        pk = tk.next()
        r["val"] = (pk, tk.next())
    else:
        r["val"] = p_val(tk)
    r["off"], r["line"], r["col"] = tk.nat(), tk.nat(), tk.nat()
    n = tk.nat()
    r["errs"] = [tk.hexs().decode("utf-8", "replace") for _ in range(n)]
    r["state"] = p_store(tk)
    r["glob"] = p_store(tk)
    n = tk.nat()
    tr = []
    for _ in range(n):
        assert tk.next() == "ev"
        ev = {"blk": tk.nat(), "calli": tk.nat(), "line": tk.nat(), "col": tk.nat(), "off": tk.nat(), "text": tk.hexs()}
        ev["pt"] = (tk.nat(), tk.nat(), tk.nat())
        na = tk.nat()
        ev["args"] = [p_val(tk) for _ in range(na)]
        ev["state"] = p_store(tk)
        ev["glob"] = p_store(tk)
        tr.append(ev)
    r["trace"] = tr
    return r


NOMATCH = ": no match found, expected: "


def spec_compare(i, s, fields):
    """implementation result i (parse_result) against the specification's result s (parse_spec) on the given
    aspects; returns None or a text describing the first deviation"""
    if s["kind"] not in ("ok", "fail", "panic") or i["kind"] not in ("ret", "panic"):
        return None
    nm = [e for e in i["errs"] if NOMATCH in e]
    ierrs = [e for e in i["errs"] if NOMATCH not in e]
    if s["kind"] == "panic":
        if i["kind"] == "panic":
            return None if i["val"] == s["val"] else "panic payload %r, specification %r" % (i["val"], s["val"])
        return None if i["val"] is None else "a panic was contained but a value was returned"
    if i["kind"] != "ret":
        return "a panic escaped where the specification returns normally"
    if "final" in fields and s.get("final_kind") == "ret" and i["kind"] == "ret" and i["errs"] != s["final_errs"]:
        return "Parse returns the error list %r, the result contract of the specification (Spec.finish, C11_parse_contract) gives %r" % (i["errs"][:4], s["final_errs"][:4])
    if "match" in fields:
        if s["kind"] == "ok" and nm:
            return "the parse fails (%s) where the specification matches a prefix of %d bytes" % (nm[0][:80], s["off"])
        if s["kind"] == "fail" and not s["errs"] and not nm:
            return "the parse succeeds where the specification finds no match"
        if s["kind"] == "ok" and i["off"] != s["off"]:
            return "%d bytes consumed, specification %d" % (i["off"], s["off"])
    if "val" in fields and repr(i["val"]) != repr(s["val"]):
        return "value %s, specification %s" % (repr(i["val"])[:200], repr(s["val"])[:200])
    if "errs" in fields and sorted(set(ierrs)) != sorted(set(s["errs"])):
        return "recorded errors %r, specification %r" % (ierrs[:4], s["errs"][:4])
    if "trace" in fields:
        if len(i["trace"]) != len(s["trace"]):
            return "%d code-block invocations, specification %d" % (len(i["trace"]), len(s["trace"]))
        for a, b in zip(i["trace"], s["trace"]):
            for k in ("blk", "line", "col", "off", "text", "args"):
                if repr(a[k]) != repr(b[k]):
                    return "block %d invocation %d sees %s=%s, specification %s" % (a["blk"], a["calli"], k, repr(a[k])[:120], repr(b[k])[:120])
    if "stores" in fields:
        for a, b in zip(i["trace"], s["trace"]):
            if repr(a["state"]) != repr(b["state"]) or repr(a["glob"]) != repr(b["glob"]):
                return "block %d invocation %d sees stores %s / %s, specification %s / %s" % (a["blk"], a["calli"], repr(a["state"])[:100], repr(a["glob"])[:100], repr(b["state"])[:100], repr(b["glob"])[:100])
        if repr(i["glob"]) != repr(s["glob"]):
            return "final globalStore %s, specification %s" % (repr(i["glob"])[:150], repr(s["glob"])[:150])
        if s["kind"] == "ok" and repr(i["state"]) != repr(s["state"]):
            return "final state %s, specification %s" % (repr(i["state"])[:150], repr(s["state"])[:150])
    return None


def need_tool(name):
    p = os.path.join(BIN, name)
    if not os.path.exists(p):
        raise BuildError("harness tool %s does not build against /repo's current API" % name)
    return p
