"""Known findings (committed file /verif/known_findings.json, never written at run time) and the corpus."""
import json, os
from . import core

KF_PATH = os.path.join(core.VERIF, "known_findings.json")


def load():
    if not os.path.exists(KF_PATH):
        return {"findings": [], "fixed": []}
    return json.load(open(KF_PATH))


def listed(prop):
    return {f["id"]: f for f in load()["findings"] if prop in f["properties"] and f.get("status") == "known"}


def corpus_cases(prop):
    d = os.path.join(core.VERIF, "corpus", prop)
    res = []
    if os.path.isdir(d):
        for f in sorted(os.listdir(d)):
            if f.endswith(".case"):
                for line in open(os.path.join(d, f)):
                    line = line.strip()
                    if line.startswith("case "):
                        res.append(line)
    return res


def replay_known(prop, header, sr):
    """For every listed finding of this property: replay its witness against the real code; print
    KNOWN-FINDING while it still fails. Returns (lines, unlisted_ids)."""
    from . import h1
    from . import props_h1
    lines = []
    lst = listed(prop)
    for fid, f in sorted(lst.items()):
        w = f.get("witness", {})
        still = None
        if w.get("kind") == "h1" and header:
            try:
                il, ml = h1.run_single(header, w["case"])
                still = signature_holds(f, w["case"], il, ml)
            except Exception as e:
                still = None
        elif w.get("kind") == "h1-twin-state" and header:
            try:
                il, ml = h1.run_single(header, w["case"])
                il2, ml2 = h1.run_single(header, w["twin"])
                ra, rb = core.parse_result(il), core.parse_result(il2)
                still = repr(ra.get("state")) != repr(rb.get("state")) and not ra["errs"] and not rb["errs"]
            except Exception:
                still = None
        elif w.get("kind") == "h1-twin-prefix" and header:
            # the witness and its twin grammar must consume the same prefix of the input (the values differ in shape)
            try:
                il, ml = h1.run_single(header, w["case"])
                il2, ml2 = h1.run_single(header, w["twin"])
                ra, rb = core.parse_result(il), core.parse_result(il2)
                still = (ra["kind"], bool(ra.get("errs")), ra.get("off")) != (rb["kind"], bool(rb.get("errs")), rb.get("off"))
            except Exception:
                still = None
        elif w.get("kind") == "h1-twin" and header:
            try:
                il, ml = h1.run_single(header, w["case"])
                il2, ml2 = h1.run_single(header, w["twin"])
                ra, rb = core.parse_result(il), core.parse_result(il2)
                still = (ra["kind"], repr(ra.get("val")), tuple(ra.get("errs", ()))) != (rb["kind"], repr(rb.get("val")), tuple(rb.get("errs", ())))
            except Exception:
                still = None
        else:
            still = sr.known.get(fid, 0) > 0 if sr is not None else None
        if still or (still is None and sr is not None and sr.known.get(fid, 0) > 0):
            lines.append("KNOWN-FINDING: property=%s %s %s" % (prop, fid, f["what"]))
    unlisted = [k for k in (sr.known if sr is not None else {}) if k not in lst]
    return lines, unlisted


def signature_holds(f, case, il, ml):
    from . import props_h1
    sig = f.get("signature")
    r = core.parse_result(il)
    if sig == "oracle":
        orc = getattr(props_h1, f["oracle"])
        return any(v[0] == "known" and v[1] == f["id"] for v in (orc(case, r) or ()))
    if sig == "matches":        # the witness input is accepted although the property says it must not be
        return r["kind"] == "ret" and not r["errs"]
    if sig == "timeout":
        return r["kind"] == "timeout"
    if sig == "crash":          # the host process dies on the witness (Go's fatal stack overflow is not recoverable)
        return r["kind"] == "crash"
    return False
