"""The front-end through the runtime MODEL (stream H9; C03, C12, C13).

    grammar/pigeon.peg --(the working tree's pigeon, default flags)--> a parser for grammar texts
        --(pvlower -readback)--> the `var g = &grammar{...}` literal as a case line (61 rules; actions are opaque:
                                 pigeon.peg has no code predicate, so WHAT MATCHES does not depend on any code block)
        --(pvdriver)--> the Lean runtime model run on that table with a grammar TEXT as input

and next to it the real tool (`pigeon -x FILE`, a fresh process) on the same text. The model has to predict
  * the verdict: the tool reports a syntax error exactly when the model's start rule fails, and
  * the diagnostic: the tool's `FILE:line:col (offset): no match found, expected: ...` line (and every `invalid encoding`
    line) byte for byte - position, expected set, order, EOF -, i.e. C12 / C17 on the real front-end.
Errors that ACTIONS of pigeon.peg return (invalid escapes, reserved words, ...) are outside the model (its blocks return
nothing): they may appear in the tool's list, and when they do the tool does not synthesise the no-match error.

This ties three things at once: the runtime model (on a 61-rule real grammar, not a generated one), the checked-in
pigeon.go to the parser the working tree generates from pigeon.peg (a stale or hand-edited pigeon.go shows here as a
wrong diagnostic), and the termination theorem's subject (Generated/G*.lean is this very table) to the tool that runs.
"""
import os, re, subprocess, tempfile, shutil, hashlib
from concurrent.futures import ThreadPoolExecutor
from . import core
from .core import log

FNAME = "g.peg"
FUEL = 6000


FRONTS = {
    # name: (grammar file, the real tool's argv prefix, what stderr starts with on a syntax error)
    "pigeon": ("pigeon.peg", lambda: [os.path.join(core.BIN, "pigeon"), "-x"], "parse error(s):\n "),
    # the SECOND generated front-end of the bootstrap chain (C20): bootstrap/cmd/bootstrap-pigeon, whose parser
    # (bootstrap_pigeon.go) is generated from grammar/bootstrap.peg by the hand-written bootstrap-build
    "bootstrap": ("bootstrap.peg", lambda: [bootstrap_pigeon(), "-x"], "parse error:  "),
}


def bootstrap_pigeon():
    """bootstrap/cmd/bootstrap-pigeon built from the working tree (cached with the other build products)"""
    core.ensure_built()
    out = os.path.join(core.BIN, "bootstrap-pigeon")
    stamp = out + ".repo"
    want = core.repo_hash()
    if os.path.exists(out) and os.path.exists(stamp) and open(stamp).read() == want:
        return out
    rc, txt, _ = core.run(["go", "build", "-o", out, "./bootstrap/cmd/bootstrap-pigeon"], cwd=core.REPO, env=core.goenv(), check=False, timeout=600)
    if rc != 0:
        raise core.BuildError("bootstrap-pigeon does not build:\n" + txt[-2000:])
    open(stamp, "w").write(want)
    return out


def base_case(front="pigeon"):
    """the case line of the parser the working tree's pigeon generates for grammar/<front>.peg"""
    core.need_tool("pvlower")
    tmp = tempfile.mkdtemp(prefix="pvfm.", dir=core.BUILD)
    try:
        out = os.path.join(tmp, "pg.go")
        rc, txt, _ = core.run([os.path.join(core.BIN, "pigeon"), "-o", out, os.path.join(core.REPO, "grammar", FRONTS[front][0])],
                              check=False, timeout=120, cwd=tmp)
        if rc != 0:
            raise RuntimeError("the working tree's pigeon rejects grammar/%s: " % FRONTS[front][0] + txt[-500:])
        rc, lines, _ = core.run([os.path.join(core.BIN, "pvlower"), "-readback", "o0l0b0:" + out], check=False, timeout=300)
        cl = [l for l in lines.splitlines() if l.startswith("case ")]
        if not cl:
            raise RuntimeError("pvlower -readback gives no case line for pigeon.peg: " + lines[:500])
        return cl[0].split(" ")
    finally:
        shutil.rmtree(tmp, ignore_errors=True)


def real_tool(text, wd, i, limit=10, argv=None, prefix="parse error(s):\n "):
    path = os.path.join(wd, "t%d" % i, FNAME)
    os.makedirs(os.path.dirname(path), exist_ok=True)
    open(path, "wb").write(text)
    argv = argv or [os.path.join(core.BIN, "pigeon"), "-x"]
    p = subprocess.run(["sh", "-c", "ulimit -v 2000000; cd %s && exec timeout %d %s %s" % (os.path.dirname(path), limit, " ".join(argv), FNAME)],
                       stdout=subprocess.PIPE, stderr=subprocess.PIPE, stdin=subprocess.DEVNULL)
    err = p.stderr.decode("utf-8", "replace")
    errs = None
    if p.returncode == 3 and err.startswith(prefix):
        errs = err[len(prefix):].rstrip("\n").split("\n")
    return p.returncode, errs, err


MODELLED = ("no match found", "invalid encoding")


def judge(rc, rerrs, rraw, mres):
    """None = agreement; "skip:<why>" = inconclusive; otherwise the description of the disagreement"""
    if rc == 124:
        return "skip:tool-timeout"
    if mres["kind"] != "ret":
        return "skip:model-" + mres["kind"]
    merrs = [e for e in mres["errs"]]
    if "panic:" in rraw or "goroutine " in rraw or "fatal error" in rraw:
        return "skip:tool-crash"            # reported by pvtool (C13), not a question for the model
    if not merrs:
        if rc == 3 and rerrs is not None:
            bad = [e for e in rerrs if any(k in e for k in MODELLED)]
            if bad:
                return "the model's start rule MATCHES this text (end of input reached, no error), the tool reports: %s" % bad[0][:300]
        return None
    # the model fails / records decoding errors
    if rc != 3 or rerrs is None:
        return "the model reports %r, the tool exits %d: %s" % (merrs[0][:200], rc, rraw[:200])
    sub = [e for e in rerrs if any(k in e for k in MODELLED)]
    others = [e for e in rerrs if e not in sub]
    msub = list(merrs)
    if sub == msub:
        return None
    # an action error was recorded before the failure: the tool then does not synthesise the no-match error
    if others and [e for e in msub if "no match found" not in e] == [e for e in sub if "no match found" not in e] and not any("no match found" in e for e in sub):
        return None
    # messages with embedded newlines (quoted terminals never contain one; a code block's error may): compare joined
    if "\n".join(msub) in "\n".join(rerrs):
        return None
    return "diagnostic differs: the tool prints %r, the model (the tables of pigeon.peg run by the Lean runtime model) gives %r" % (sub[:2] or rerrs[:2], msub[:2])


def run(prop, tier, seed, nq=250, nt=6000, front="pigeon"):
    """returns (violations, coverage)"""
    core.ensure_built()
    n = nq if tier == "quick" else nt
    try:
        base = base_case(front)
    except Exception as e:
        # the tables the working tree's pigeon emits for the front-end grammar cannot be read back (a field the harness does not
        # know, a changed layout): this stage cannot be run; the other stages of the check go on and may find a failing input
        msg = "the front-end-through-the-model stage cannot run against this tree: %s" % str(e)[:800]
        log(msg)
        return [("front-model/stage-broken", {"detail": msg, "broken_obligation": "read-back of the grammar literal emitted for grammar/%s.peg" % ("pigeon" if front == "pigeon" else front)}, False)], {"front_model_broken": str(e)[:300]}
    argv, prefix = FRONTS[front][1](), FRONTS[front][2]
    # 13 = filename, 16 = fuel, last = input (PROTOCOL.md)
    base[13] = "x" + FNAME.encode().hex()
    base[16] = str(FUEL)
    rc, out, _ = core.run([core.need_tool("pvtexts"), "-seed", str(seed), "-n", str(n)], check=True, timeout=600)
    texts = []
    for ln in out.splitlines():
        cls, hx = ln.split(" ")
        b = bytes.fromhex(hx[1:])
        if len(b) <= 4000:
            texts.append((cls, b))
    # the repository's own grammars, whole (valid) and cut in the middle
    for root, _, files in os.walk(core.REPO):
        if "/.git" in root:
            continue
        for f in sorted(files):
            if f.endswith(".peg"):
                b = open(os.path.join(root, f), "rb").read()
                if len(b) <= 6000:
                    texts.append(("repo", b))
                    texts.append(("repo-cut", b[: (len(b) * 2) // 3]))
    cases = []
    for i, (_, b) in enumerate(texts):
        t = list(base)
        t[1] = str(i + 1)
        t[-1] = "x" + b.hex()
        cases.append(" ".join(t))
    mlines = core.run_model_lines("unicode 0", cases)
    wd = tempfile.mkdtemp(prefix="pvfm.run.", dir=core.BUILD)
    try:
        with ThreadPoolExecutor(16) as ex:
            reals = list(ex.map(lambda ib: real_tool(ib[1][1], wd, ib[0], argv=argv, prefix=prefix), enumerate(texts)))
    finally:
        shutil.rmtree(wd, ignore_errors=True)
    viol, stats = [], {}
    agree_fail = agree_ok = 0
    for (cls, b), ml, (rc, rerrs, rraw) in zip(texts, mlines, reals):
        mres = core.parse_result(ml)
        v = judge(rc, rerrs, rraw, mres)
        key = cls + ":" + ("agree" if v is None else v.split(":")[0] if v.startswith("skip:") else "DISAGREE")
        if v is not None and v.startswith("skip:"):
            key = cls + ":" + v
        stats[key] = stats.get(key, 0) + 1
        if v is None:
            if mres["kind"] == "ret" and mres["errs"]:
                agree_fail += 1
            else:
                agree_ok += 1
            continue
        if v.startswith("skip:"):
            continue
        h = hashlib.sha1(b).hexdigest()[:10]
        viol.append(("front-model-%s/%s" % (front, cls), {"why": v, "detail": v, "grammar_text_hex": b.hex(), "grammar_text": b.decode("utf-8", "replace")[:2000],
                                              "tool_exit": rc, "tool_stderr": rraw[:1500], "model_errors": mres.get("errs", [])[:4],
                                              "replay_cmd": "printf '%%s' '<grammar_text_hex>' | xxd -r -p > /tmp/g.peg && /verif/build/bin/pigeon -x /tmp/g.peg   # and the same text through pvdriver on the readback of grammar/pigeon.peg (pv/front_model.py)",
                                              "id": h}, True))
    pre = "front_model_" if front == "pigeon" else "front_model_%s_" % front
    cov = {pre + "texts": len(texts), pre + "agree_rejected_same_diagnostic": agree_fail, pre + "agree_accepted": agree_ok,
           pre + "outcomes": dict(sorted(stats.items())), pre + "rules_in_table": int(base[17])}
    log("front-end (%s.peg) through the model: %d texts, %d rejected with the same diagnostic, %d accepted by both, %d disagreements" % (front, len(texts), agree_fail, agree_ok, len(viol)))
    return viol, cov
