"""H1 (host) correspondence checks: real generated-parser runtime vs the Lean model RT,
plus per-property direct oracles evaluated on the implementation's own output."""
import json, os, subprocess, sys, time, hashlib
from . import core
from .core import log

# ---------------------------------------------------------------- projections


def store_key(st):
    return tuple((k, repr(v)) for k, v in st)


def proj_all(r):
    return r["raw"].split(" ", 2)[2] if r["kind"] not in ("ret", "panic") else r["raw"].split(" ", 2)[2]


def P(fields):
    def f(r):
        if r["kind"] not in ("ret", "panic"):
            return (r["kind"],)
        out = [r["kind"]]
        for fld in fields:
            if fld == "val":
                out.append(repr(r["val"]))
            elif fld == "errs":
                out.append(tuple(r["errs"]))
            elif fld == "noerr":
                out.append(len(r["errs"]) == 0)
            elif fld == "pos":
                out.append((r["off"], r["line"], r["col"]))
            elif fld == "off":
                out.append(r["off"])
            elif fld == "cnt":
                out.append(r["cnt"])
            elif fld == "mf":
                out.append((r["mf"], tuple(r["expected"])))
            elif fld == "stores":
                out.append((store_key(r["state"]), store_key(r["glob"])))
            elif fld == "choices":
                out.append(tuple(r["choices"]))
            elif fld == "trace_ctx":
                out.append(tuple((e["blk"], e["calli"], e["line"], e["col"], e["off"], e["text"], repr(e["args"])) for e in r["trace"]))
            elif fld == "trace_stores":
                out.append(tuple((e["blk"], e["calli"], store_key(e["state"]), store_key(e["glob"])) for e in r["trace"]))
            elif fld == "trace_blks":
                out.append(tuple((e["blk"], e["calli"]) for e in r["trace"]))
            else:
                raise KeyError(fld)
        return tuple(out)
    return f


def inconclusive(kind):
    return kind in ("oof", "timeout", "modeltimeout", "modelcrash", "timeout-skipped")

# ---------------------------------------------------------------- one stream


class StreamResult:
    def __init__(self):
        self.cases = 0
        self.distinct = set()
        self.nontrivial = 0
        self.disagree = []      # (case_line, impl_line, model_line, why)
        self.oracle_viol = []   # (case_line, impl_line, model_line, why)
        self.known = {}         # finding id -> count
        self.known_samples = {}
        self.inconclusive = 0
        self.unattributed = 0
        self.stats = {}
        self.samples = []
        self.kinds = {}
        self.crashes = 0


def run_stream(workdir, header, case_lines, proj, oracles, sr, tag, spec_fields=None):
    cases_f = os.path.join(workdir, tag + ".cases")
    with open(cases_f, "w") as fh:
        fh.write(header + "\n" + "\n".join(case_lines) + "\n")
    impl_f = os.path.join(workdir, tag + ".impl")
    t0 = time.time()
    summ = core.run_impl(cases_f, impl_f)
    t1 = time.time()
    impl = open(impl_f).read().splitlines()
    model = core.run_model_lines(header, case_lines)
    spec = core.run_model_lines(header, case_lines, spec=True) if spec_fields else None
    t2 = time.time()
    log("stream %s: %d cases, impl %.1fs, model %.1fs" % (tag, len(case_lines), t1 - t0, t2 - t1))
    if len(impl) != len(case_lines) or len(model) != len(case_lines):
        raise RuntimeError("stream %s: result count mismatch impl=%d model=%d cases=%d" % (tag, len(impl), len(model), len(case_lines)))
    sr.stats.setdefault("timeouts", 0)
    sr.stats["timeouts"] += summ.get("timeouts", 0)
    sr.crashes += summ.get("crashes", 0)
    if spec is not None and len(spec) != len(case_lines):
        raise RuntimeError("stream %s: specification result count mismatch" % tag)
    sr.stats.setdefault("spec_compared", 0)
    for ci, (cl, il, ml) in enumerate(zip(case_lines, impl, model)):
        sr.cases += 1
        h = hashlib.md5(cl.split(" ", 2)[2].encode()).digest()[:8]
        new = h not in sr.distinct
        sr.distinct.add(h)
        ik = il.split(" ", 3)[2]
        mk = ml.split(" ", 3)[2]
        sr.kinds[ik] = sr.kinds.get(ik, 0) + 1
        if ik == "crash":
            sr.disagree.append((cl, il, ml, "host process crashed on this case"))
            continue
        if ik == "badvariant":
            raise RuntimeError("generator produced a case the host rejects: " + cl[:200])
        if inconclusive(ik) or inconclusive(mk):
            if ik == "timeout-skipped":
                sr.inconclusive += 1       # not run: the job had already timed out repeatedly
            elif ik == "timeout" and mk in ("oof", "modeltimeout"):
                sr.inconclusive += 1       # both sides did not terminate
            elif ik == "timeout" and mk in ("ret", "panic") and _model_cnt(ml) > EXPENSIVE_CNT:
                # the model did return, after millions of expression evaluations (exponential backtracking on this
                # input): the 10 s watchdog of the host says nothing about termination here
                sr.inconclusive += 1
                sr.stats["timeouts_on_expensive_cases"] = sr.stats.get("timeouts_on_expensive_cases", 0) + 1
            elif inconclusive(ik) != inconclusive(mk) and not (mk == "oof"):
                sr.disagree.append((cl, il, ml, "one side terminates, the other does not (%s vs %s)" % (ik, mk)))
            else:
                sr.inconclusive += 1
            continue
        ir = None
        if il != ml:
            ir = core.parse_result(il)
            mr = core.parse_result(ml)
            pi, pm = proj(ir), proj(mr)
            if pi != pm:
                why = "projection differs"
                for a, b in zip(pi, pm):
                    if a != b:
                        why = "impl %s  vs  model %s" % (repr(a)[:300], repr(b)[:300])
                        break
                sr.disagree.append((cl, il, ml, why))
                continue
            sr.unattributed += 1
        if ir is None:
            ir = core.parse_result(il)
        if spec is not None:
            sk = spec[ci].split(" ", 3)[2]
            if sk in ("ok", "fail", "panic"):
                sr.stats["spec_compared"] += 1
                dev = core.spec_compare(ir, core.parse_spec(spec[ci]), spec_fields)
                if dev:
                    sr.oracle_viol.append((cl, il, ml, "the implementation deviates from the PEG specification (Spec.eval): " + dev))
        if oracles:
            for orc in oracles:
                for verdict in orc(cl, ir) or ():
                    if verdict[0] == "known":
                        sr.known[verdict[1]] = sr.known.get(verdict[1], 0) + 1
                        sr.known_samples.setdefault(verdict[1], (cl, il, verdict[2]))
                    else:
                        sr.oracle_viol.append((cl, il, ml, verdict[1]))
        if new:
            # non-trivial: the parse did something beyond failing at the first terminal
            if ir["cnt"] > 2:
                sr.nontrivial += 1
        if len(sr.samples) < 3 and new:
            sr.samples.append({"case": cl[:600], "impl": il[:400]})

# a parse that needs more expression evaluations than this is not expected to finish within the host's watchdog
# (the real runtime evaluates roughly 2-10 million expressions per second, depending on the variant)
EXPENSIVE_CNT = 3_000_000


def _model_cnt(ml):
    try:
        return core.parse_result(ml)["cnt"]
    except Exception:
        return 0


def confirm_timeouts(header, sr, limit=6):
    """A lone timeout of the implementation (10 s wall clock in the host) can be an artefact of an overloaded
    machine: such cases are run once more, alone, before they count as 'the implementation does not return'."""
    keep, rerun = [], 0
    for d in sr.disagree:
        cl, il, ml, why = d[0], d[1], d[2], d[3]
        if why.startswith("one side terminates") and il.split(" ", 3)[2] == "timeout" and rerun < limit:
            rerun += 1
            try:
                il2, ml2 = run_single(header, cl)
            except Exception:
                keep.append(d)
                continue
            if not inconclusive(il2.split(" ", 3)[2]):
                sr.inconclusive += 1
                sr.stats["timeouts_not_reproduced"] = sr.stats.get("timeouts_not_reproduced", 0) + 1
                continue
        keep.append(d)
    sr.disagree = keep


# ---------------------------------------------------------------- shrinking


def differs_cmd(prop, visible=False):
    return "%s %s %s" % (os.path.join(core.VERIF, "check"), "--differs-visible" if visible else "--differs", prop)


SHRINK_BUDGET_S = 300.0     # per check run: a failing tree must still be reported within minutes
_shrink_spent = [0.0]


def shrink(workdir, header, case_line, prop, idx, visible=False, maxtests=250):
    if _shrink_spent[0] >= SHRINK_BUDGET_S or os.environ.get("PV_NO_SHRINK"):
        # PV_NO_SHRINK: the selftest only needs the verdict, not a minimal replay
        return case_line
    t_start = time.time()
    try:
        return _shrink(workdir, header, case_line, prop, idx, visible, maxtests,
                       timeout=max(30, min(240, SHRINK_BUDGET_S - _shrink_spent[0])))
    finally:
        _shrink_spent[0] += time.time() - t_start


def _shrink(workdir, header, case_line, prop, idx, visible, maxtests, timeout):
    inp = os.path.join(workdir, "shrink_in_%d.txt" % idx)
    out = os.path.join(workdir, "shrink_out_%d.txt" % idx)
    open(inp, "w").write(header + "\n" + case_line + "\n")
    try:
        rc, o, dt = core.run([os.path.join(core.BIN, "pvshrink"), "-in", inp, "-out", out, "-test", differs_cmd(prop, visible),
                              "-max", str(maxtests)], check=False, timeout=timeout)
        if rc == 0 and os.path.exists(out):
            h, cl = core.read_cases(out)
            if cl:
                return cl[0]
    except Exception as e:
        log("shrink failed:", e)
    return case_line


def run_single(header, case_line):
    d = os.path.join(core.BUILD, "work", "single_%d" % os.getpid())
    os.makedirs(d, exist_ok=True)
    cf = os.path.join(d, "c.txt")
    open(cf, "w").write(header + "\n" + case_line + "\n")
    of = os.path.join(d, "i.txt")
    core.run_impl(cf, of, j=1)
    il = open(of).read().splitlines()[0]
    ml = core.run_model_lines(header, [case_line])[0]
    return il, ml


def pretty_case(header, case_line):
    try:
        p = subprocess.run([os.path.join(core.BIN, "pvshow"), "/dev/stdin"], input=(header + "\n" + case_line + "\n").encode(),
                           stdout=subprocess.PIPE, stderr=subprocess.STDOUT, timeout=20)
        return p.stdout.decode("utf-8", "replace")
    except Exception as e:
        return "(pvshow failed: %s)" % e
