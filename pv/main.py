import os, sys, json, time
from . import core


def get_seed():
    try:
        return int(os.environ.get("VERIF_SEED", "1"))
    except ValueError:
        return 1


def registry():
    from . import registry as reg
    return reg.PROPS


def main(argv):
    if not argv:
        print(__doc__ or "usage: check <PROPERTY> [--tier quick|thorough]")
        return 2
    if argv[0] == "--setup":
        core.ensure_built()
        ok, out = core.lean_build()
        if not ok:
            print(out[-4000:])
            return 1
        print("setup ok")
        return 0
    if argv[0] in ("--differs", "--differs-visible"):
        prop, casefile = argv[1], argv[2]
        cfg = registry()[prop]
        if argv[0] == "--differs-visible":
            return cfg["differs"](prop, cfg, casefile, visible=True)
        return cfg["differs"](prop, cfg, casefile)
    if argv[0] == "--replay":
        from . import replay
        return replay.replay(argv[1])
    prop = argv[0]
    tier = os.environ.get("VERIF_TIER", "quick")
    if "--tier" in argv:
        tier = argv[argv.index("--tier") + 1]
    if tier not in ("quick", "thorough"):
        tier = "quick"
    props = registry()
    if prop not in props:
        print("unknown property", prop, "- known:", " ".join(sorted(props)))
        return 2
    cfg = props[prop]
    try:
        rc = cfg["run"](prop, cfg, tier, get_seed())
        if rc == 0 and not os.environ.get("PV_KEEP_WORK"):
            # scratch (case files, result files, emitted grammars: gigabytes at the thorough tier): not needed after a
            # clean run; after a violation it is kept (the replay files are self-contained, this is for debugging)
            import glob, shutil
            for d in glob.glob(os.path.join(core.BUILD, "work", prop)) + glob.glob(os.path.join(core.BUILD, "work", prop + "_*")):
                shutil.rmtree(d, ignore_errors=True)
        return rc
    except core.BuildError as e:
        # the tree does not build: nothing about the property is shown
        p = core.write_replay(prop, "build_failure", {"property": prop, "kind": "build", "error": str(e)})
        core.write_evidence(prop, tier, get_seed(), cfg.get("level", "proof"),
                            {"evaluations": 1, "distinct_nontrivial": 2, "explanation": "build of /repo failed: " + str(e)[:500],
                             "obligations": 1, "discharged": 0, "checker_cmd": "go build", "trusted_base": []}, [], 0.0, 1)
        print("VIOLATION property=%s replay=%s no-failing-input-found" % (prop, p))
        return 1
    except Exception as e:
        # a stage of the check could not run against this tree (the read-back of the emitted grammar literal met a field it
        # does not know, a tool could not interpret what pigeon printed, ...): the correspondence between the model and the
        # code cannot be established, so the property is not shown to hold. Reported as such - with the stage that broke -
        # instead of dying without a verdict.
        import traceback
        tb = traceback.format_exc()
        sys.stderr.write(tb)
        p = core.write_replay(prop, "correspondence_broken", {"property": prop, "kind": "correspondence-broken",
                                                              "broken_obligation": "%s: %s" % (type(e).__name__, str(e)[:1500]),
                                                              "traceback": tb[-3000:], "property_fails_on_impl": []})
        try:
            core.write_evidence(prop, tier, get_seed(), cfg.get("level", "proof"),
                                {"evaluations": 1, "distinct_nontrivial": 2,
                                 "explanation": "a stage of the check could not be run against this tree: " + str(e)[:500],
                                 "obligations": 1, "discharged": 0, "checker_cmd": "./check " + prop, "trusted_base": []}, [], 0.0, 1)
        except Exception:
            pass
        print("VIOLATION property=%s replay=%s no-failing-input-found" % (prop, p))
        return 1
