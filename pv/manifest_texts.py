HOOK_COMMITS = []
NOTES = ("Every check rebuilds pigeon, the 16 host parsers and the Lean theorems from /repo's working tree and /verif/lean. "
         "A VIOLATION line ending in no-failing-input-found means a proof obligation or the model/implementation correspondence broke "
         "without a concrete failing input having been found. Known findings are listed in /verif/known_findings.json.")
NOT_CLAIMED = {}

RT_NOTE = ("Theorems are about the hand-written model lean/PigeonVerif/Model/Runtime.lean (one Lean function per Go function of "
           "builder/static_code.go, all four template switches and all runtime options), for every grammar, code-block environment, input and fuel. "
           "The model is tied to the code by execution (H1 stream: the working tree's pigeon generates the 16 behavioural template variants; "
           "model and generated runtime must agree on this property's projection of the result on generated cases), not by proof. "
           "Axioms: propext, Quot.sound, Classical.choice at most. Trusted: Lean kernel, Go toolchain, the harness and its printers.")

TEXTS = {
    "C01": dict(technique="Lean 4 theorems on a runtime model + differential correspondence",
                design_ref="DESIGN.md §5 C01",
                level_text=("Kernel-checked theorems (Properties/C01.lean) that a failing expression and every &/! predicate consume nothing, "
                            "for every expression kind incl. memoization and left recursion; the value-shape/PEG-semantics part of C01 is "
                            "so far decided by model/implementation correspondence on generated cases (refinement to an independent PEG spec in progress)."),
                level_note=RT_NOTE),
    "C05": dict(technique="Lean 4 theorems on a runtime model + differential correspondence",
                design_ref="DESIGN.md §5 C05",
                level_text=("Kernel-checked theorems (Properties/C05.lean): a failed expression leaves the state store unchanged; after &, !, &{}, !{} the store is "
                            "the one from before; an action's writes are discarded; a #{} block's result persists; globalStore is never touched by the parser "
                            "(always equals what the most recent block left). All flags/options, memoization and left recursion included."),
                level_note=RT_NOTE + " The store is modelled persistently (a snapshot is a value); sync.Pool recycling and map identity are exercised only through the correspondence stream with Cloner values mutated in place."),
    "C11": dict(technique="Lean 4 theorems on a runtime model + differential correspondence + output oracle",
                design_ref="DESIGN.md §5 C11",
                level_text=("Kernel-checked theorems (Properties/C11.lean): dedupe keeps exactly the first occurrences in order (nodup, membership, sublist, idempotent); "
                            "with Recover(true) no panic escapes parse and it becomes the final recorded error with nil value; with Recover(false) it propagates; error prefix shape. "
                            "Plus an oracle on every implementation result (position-prefixed, no duplicates, containment)."),
                level_note=RT_NOTE),
    "C14": dict(technique="Lean 4 theorems on a runtime model + differential correspondence",
                design_ref="DESIGN.md §5 C14",
                level_text=("Kernel-checked theorems (Properties/C14.lean): the handler stack after any expression equals the one before (handlers are in force only during their guarded expression), "
                            "recovery pushes exactly one frame, the throw loop tries innermost first and fails when no handler lists the label."),
                level_note=RT_NOTE),
    "C16": dict(technique="Lean 4 theorems on a runtime model + differential correspondence + output oracle",
                design_ref="DESIGN.md §5 C16",
                level_text=("Kernel-checked theorems (Properties/C16.lean): exprCnt never exceeds the budget on a normal return (n+1 at the panic), the budget panic is the documented error, "
                            "the check is the only difference to the unbudgeted step, and termination: with Memoize(false) every parse returns (fuel n+2 suffices) for every grammar incl. nullable loops and left recursion."),
                level_note=RT_NOTE + " Termination with Memoize(true) is NOT proved: it is false for the unchanged code (finding D15)."),
}
