HOOK_COMMITS = ["1ea259d verif hook: AST dump server behind the verif build tag (verif_astdump.go, //go:build verif)"]
NOTES = ("Every check rebuilds pigeon, the 16 host parsers and the Lean theorems from /repo's working tree and /verif/lean. "
         "A VIOLATION line ending in no-failing-input-found means a proof obligation or the model/implementation correspondence broke "
         "without a concrete failing input having been found. Known findings are listed in /verif/known_findings.json.")
NOT_CLAIMED = {}

RT_NOTE = ("Theorems are about the hand-written model lean/PigeonVerif/Model/Runtime.lean (one Lean function per Go function of "
           "builder/static_code.go, all four template switches and all runtime options), for every grammar, code-block environment, input and fuel. "
           "The model is tied to the code by execution (H1 stream: the working tree's pigeon generates the 16 behavioural template variants; "
           "model and generated runtime must agree on this property's projection of the result on generated cases), not by proof. "
           "Axioms: propext, Quot.sound, Classical.choice at most. Trusted: Lean kernel, Go toolchain, the harness and its printers.")

TOOLNOTE = ("Decided by execution on generated inputs (differential / oracle based), not by proof; the Lean part covers only the fragment named. "
            "Trusted: the harness (harness/pvpeg generator, printer with position oracle, canonical dump), the verif AST-dump hook, go vet / go build / go/parser.")

TEXTS = {
    "C01": dict(technique="Lean 4 theorems on a runtime model + differential correspondence",
                design_ref="DESIGN.md §5 C01",
                level_text=("Kernel-checked theorems (Properties/C01.lean): (a,b) a failing expression and every &/! predicate consume nothing, "
                            "for every expression kind incl. memoization and left recursion; (c,d) REFINEMENT: without Memoize, MaxExpressions and left-recursive rules "
                            "the runtime model computes exactly the independent 150-line PEG specification Spec.eval (Spec/Peg.lean) - success/failure, value shape, end "
                            "position, labels in scope, stores, errors and the complete code-block trace - for every grammar, code environment, input, depth and reachable "
                            "state (C01_runtime_is_peg, C01_parse_is_peg; proof in Proofs/Refine.lean). The specification itself is ALSO run against the implementation "
                            "(spec oracle in the check), and the memoized / left-recursive / budgeted variants are tied to the plain one by twin streams and C06/C08/C16."),
                level_note=RT_NOTE),
    "C05": dict(technique="Lean 4 theorems on a runtime model + differential correspondence",
                design_ref="DESIGN.md §5 C05",
                level_text=("Kernel-checked theorems (Properties/C05.lean): a failed expression leaves the state store unchanged; after &, !, &{}, !{} the store is "
                            "the one from before; an action's writes are discarded; a #{} block's result persists; globalStore is never touched by the parser "
                            "(always equals what the most recent block left). All flags/options, memoization and left recursion included."),
                level_note=RT_NOTE + " The store is modelled persistently (a snapshot is a value); sync.Pool recycling and map identity are exercised only through the correspondence stream with Cloner values mutated in place."),
    "C11": dict(technique="Lean 4 theorems on a runtime model + differential correspondence + output oracle",
                design_ref="DESIGN.md §5 C11",
                level_text=("Kernel-checked theorems (Properties/C11.lean): dedupe keeps exactly the first occurrences in order (nodup, membership, sublist, idempotent); "
                            "with Recover(true) no panic escapes parse and it becomes the final recorded error with nil value; with Recover(false) it propagates; error prefix shape. "
                            "Plus an oracle on every implementation result (position-prefixed, no duplicates, containment)."),
                level_note=RT_NOTE),
    "C14": dict(technique="Lean 4 theorems on a runtime model + differential correspondence",
                design_ref="DESIGN.md §5 C14",
                level_text=("Kernel-checked theorems (Properties/C14.lean): the handler stack after any expression equals the one before (handlers are in force only during their guarded expression), "
                            "recovery pushes exactly one frame, the throw loop tries innermost first and fails when no handler lists the label."),
                level_note=RT_NOTE),
    "C16": dict(technique="Lean 4 theorems on a runtime model + differential correspondence + output oracle",
                design_ref="DESIGN.md §5 C16",
                level_text=("Kernel-checked theorems (Properties/C16.lean): exprCnt never exceeds the budget on a normal return (n+1 at the panic), the budget panic is the documented error, "
                            "the check is the only difference to the unbudgeted step, and TERMINATION UNDER EVERY OPTION COMBINATION: with MaxExpressions(n) every parse returns - Memoize on or off, "
                            "every template variant, nullable loops, left recursion (C16_terminates_any_options: fuel 2n+2 suffices; measure exprCnt+memoHits, Proofs/TermMemo.lean, Proofs/Hits.lean); "
                            "the result does not depend on the fuel (C16_result_independent_of_fuel, Proofs/FuelMono.lean), so the budgeted parse is a total function of grammar, options and input."),
                level_note=RT_NOTE + " The Memoize(true) half became provable with the repair of finding D15 (memo hits are charged); on the pinned tree it was false."),
    "C02": dict(technique="Lean 4 theorems on a runtime model + differential correspondence + position oracle",
                design_ref="DESIGN.md §5 C02",
                level_text=("Kernel-checked theorems (Properties/C02.lean): an action runs exactly when its expression matched and then sees pos = match start, text = the input slice "
                            "from the start to the current offset, arguments = the labels bound in the innermost scope; a code predicate's boolean alone decides, nothing is consumed; labels are bound on success. "
                            "The statement that predicate/state blocks see the current position is FALSE for the unchanged code (known finding D2, reproduced by the model: C02_pred_ctx_is_stale). "
                            "That line/col are a pure function of (input, offset) is kernel-checked too (C02_position_reachable: after any expression, in every configuration, the parser's position and every memoized end position are reader positions; C02_pos_pure: a reader position is determined by its offset) and is re-checked on every block invocation of every generated case by an oracle independent of model and code."),
                level_note=RT_NOTE),
    "C06": dict(technique="Lean 4 theorem (memo-table soundness by two-run simulation) for label-free pure grammars + twin execution (Memoize/Debug/Statistics flipped) on the real runtime",
                design_ref="DESIGN.md §5 C06",
                level_text=("Kernel-checked theorem C06_memoize_same_result_partial (Proofs/Sim2.lean, Proofs/MemoSound.lean): for every grammar with unique node identifiers and no throw/recover, every code environment whose blocks are pure functions of text and pos and take no label arguments (predicate blocks not looking at pos/text), every input and every pair of depths, "
                            "Parse with Memoize(true) and with Memoize(false) return the same value and the same error list (standard template without left-recursion support, no budget); the invariant is that every memo entry is what the un-memoized parser computes at that offset from ANY state (locality theorem), with its errors already reported. "
                            "The two hypotheses beyond C06's own are necessary: with label arguments the statement is false (finding D7), with predicates that read c.pos/c.text it is false (finding D27, found while doing this proof); both have kernel-evaluated witnesses on the model and deterministic replays on the real runtime. With left recursion: finding D26. "
                            "WORK BOUND, kernel-checked (C06_packrat_bound_partial, Proofs/MemoCount.lean): Memoize(true), unique node identifiers, no throw/recover, no same-position cycle (closed nullability oracle + ranking along the first graph; nothing assumed of the code blocks) - a parse that returns has ExprCnt <= nodes*(len+1); the invariant: the .expr keys of the memo table are pairwise distinct and ExprCnt equals their number. And the memoized parser returns wherever the plain one does, at the same depth (C06_memoized_terminates_if_plain_does_partial). "
                            "Every generated case is also run on the real generated parser with Debug, Statistics and (for terminating grammars) Memoize flipped and compared on the property's own terms; the packrat bound is checked on every memoized run by an oracle as well. The model has no input for Debug/Statistics at all."),
                level_note=RT_NOTE + " Level 'other': theorems on sub-domains (result: label-free, position-blind predicates, no left recursion; bound: no same-position cycle) + differential twins and the bound oracle on the whole domain."),
    "C10": dict(technique="Lean 4 theorem (function equality of the two template instantiations) + variant-pair execution",
                design_ref="DESIGN.md §5 C10",
                level_text=("Kernel-checked theorem C10_equiv: for every grammar (left-recursive included), code environment, input and option set with Memoize off, the optimized and the standard instantiation of the runtime model "
                            "compute the same parse result (value, errors, stores, trace) when the grammar has state-change blocks; C10_equiv_no_state: for grammars WITHOUT state blocks (the optimized parser then has no store at all) the run of the optimized parser "
                            "is the run of the standard parser with the store erased (same value, errors, global store, block invocations), for every code environment whose blocks neither read nor write the store (Proofs/OptEquivNoState.lean). "
                            "Both are also run on real generated parsers: every generated case on the variant pair (X, X + -optimize-parser)."),
                level_note=RT_NOTE),
    "C12": dict(technique="Lean 4 theorems (bookkeeping = declarative max/filter; message shape) + differential correspondence + output oracle",
                design_ref="DESIGN.md §5 C12",
                level_text=("Kernel-checked theorems (Properties/C12.lean): folding failAt over any sequence of terminal-failure events yields exactly the greatest offset and the labels of the events at that offset (C12_bookkeeping), failAt is that step with the ! prefix under negation, "
                            "the synthesised message is sorted, lists exactly the recorded labels with EOF last, and a failed parse with no recorded error returns exactly one error at the farthest-failure position. An oracle recomputes position and message for every failing generated case from the implementation's own raw expectation list and an independent position function."),
                level_note=RT_NOTE + " Which events reach failAt (terminals failing under an even number of !, matching under an odd number) is the model's transcription of parseNotExpr/parse*Matcher, tied by correspondence."),
    "C17": dict(technique="Lean 4 theorems (decoder vs RFC 3629 table; read/any behaviour) + differential correspondence + output oracle",
                design_ref="DESIGN.md §5 C17",
                level_text=("Kernel-checked theorems (Properties/C17.lean): every result of the UTF-8 decoder model is end of input, or the one-byte rune U+FFFD, or a rune of width n whose n bytes form a well-formed sequence per Unicode Table 3-7 (so truncations, overlongs, surrogates, >U+10FFFF and stray continuation bytes are one-byte U+FFFD); "
                            "read records 'invalid encoding' at the byte's position exactly when the decoder returns the one-byte error rune and AllowInvalidUTF8 is off, never when it is on; offsets advance by the decoded width; the any matcher consumes an invalid byte; values are input slices. "
                            "The decoder model is tied to utf8.DecodeRune through the malformed-input stream."),
                level_note=RT_NOTE),
    "C07": dict(technique="Lean 4 theorems (nullable analysis sound w.r.t. the runtime model; well-formed grammars terminate) + Lean model of the analysis and independent specification, differential against the real ast/builder code; kernel-checked witnesses",
                design_ref="DESIGN.md §5 C07", engine="lean-mid",
                level_text=("Consequence clause, kernel-checked for the runtime model (Proofs/Advance.lean, Proofs/WFTerm.lean): C07_nullable_sound — for every grammar, code environment, input and depth a successful evaluation never moves backwards and an expression that succeeds without consuming is nullable in the sense of the static analysis; "
                            "C07_no_same_position_cycle_terminates — a grammar whose first graph (rule -> rules its body can invoke before consuming) has no cycle (ranking witness), with repetitions over non-nullable bodies and no throw/recover, terminates on every input from every state without any budget: the generated parser cannot recurse without bound. C07_spec_not_left_recursive_terminates: the same conclusion from the verdict of the independent specification the check judges the builder by (Mid.Spec.leftRec = false on the lowered grammar; Proofs/Bridge.lean, Proofs/Reach.lean: the specification's breadth-first closure is proved to be reachability and its nullable fixpoint a closed oracle). The hypothesis is decided by an executable checker whose verdict is proved sound (checkWFG_sound); "
                            "the check runs it on the generated runtime-termination cases (how many it accepts is in the evidence) and every such case is executed on the real runtime, where a crash or timeout is a violation. "
                            "Detection clause: the real analysis (ast.NullableVisit/InitialNames, builder.ComputeLeftRecursives, called in-process with chosen visiting orders) is compared node by node (every Nullable flag, first graph, left-recursive set, leader, verdict) with the Lean model Mid, "
                            "and its verdict with the independent Ford-style specification Mid.Spec.leftRec on generated grammars; every discrepancy is classified by which uncommitted repair of the model removes it (known findings D17, D18; D9 listed). "
                            "Kernel-checked: the witnesses of the four repaired defects, the D17 witness and its would-be repair, direct left recursion is always seen. The general theorem detect = specification is not proved (false for the unchanged tree)."),
                level_note=("Trusted: Lean kernel; Model/Runtime.lean tied to the emitted runtime by the H1 streams and Model/Mid.lean tied to the analysis by the mid stream; that the builder's verdict 'accepted' implies the theorem's ranking hypothesis is NOT proved (it is false where D17/D9 apply) — the link is the correspondence of verdicts with the specification; the specification is for grammars without throw/recover.")),
    "C19": dict(technique="Lean theorem (visiting order is a function of the name set) + repeated in-process and fresh-process generation",
                design_ref="DESIGN.md §5 C19", engine="lean-mid",
                level_text=("Kernel-checked: sorting any permutation of the rule names yields the same list (C19_sorted_order_invariant), hence the repaired analysis computes the same flags, first graph, left-recursive set, leader and verdict for every map iteration order (C19_analysis_order_free); "
                            "and the necessity of the repair: for the D16 witness two visiting orders give different leaders (C19_order_matters_without_sorting). Execution: every generated grammar is analysed 12 (40) times in one process under Go's randomised map order, all outcomes identical and equal to the model's; Makefile generation rules are re-run in fresh processes and compared byte for byte."),
                level_note=("Trusted: Lean kernel; Model/Mid.lean tied by the mid stream; emission (builder.go writes rules in grammar order, no map iteration) and the optimizer's maps are covered by execution only.")),
    "C15": dict(technique="Lean 4 theorem (table lookup = general procedure) + table recomputation on every generated class + variant-pair execution",
                design_ref="DESIGN.md §5 C15",
                level_text=("Kernel-checked theorems (Properties/C15.lean): for every class and every rune < 128 the table entry computed by BasicLatinLookup equals the decision of the general matching procedure (C15_table_eq_general), and parseCharClassMatcher returns the same outcome with and without the table for every parser state — ASCII, non-ASCII, invalid byte, end of input (C15_equiv). "
                            "Tie: the tables in the generated cases come from the real builder.BasicLatinLookup and the model driver recomputes each of them (all 128 entries) from the class descriptor; every case of a table variant is also run on the general-path variant of the real generated parser and the results compared."),
                level_note=RT_NOTE + " unicode.Is is modelled as membership in the range table passed in the case line; unicode.ToLower comes from the stream header."),
    "C08": dict(technique="Lean 4 theorem (left-recursive parsing terminates when every same-position cycle passes through a leader) + differential: real left-recursive parsers vs Lean model (full result) and vs the plain parser of the iterative twin grammar; Lean lemmas on the seed-growing loop",
                design_ref="DESIGN.md §5 C08",
                level_text=("MAIN CLAUSE, kernel-checked for a sub-class (C08_direct_left_recursion_is_iteration_partial; Proofs/LFree.lean, LRIter.lean): for A <- A t1/../A tn / b1/../bm whose operands reach no leader rule, with non-nullable ti, unique node ids, no throw/recover and pure code (Memoize off, no budget), whatever the seed-growing loop returns is what the iteration returns - the first base the ordinary parser (generated without left-recursion support) matches, extended greedily by the first tail it matches at the end of the match so far, value left-nested; failure iff no base matches. Operands that recurse into a leader (\"(\" Expr \")\"), indirect recursion, Memoize are NOT covered by the theorem and are compared by execution (iterative twins). "
                            "TERMINATION, kernel-checked (C08_left_recursive_parse_terminates; Proofs/AdvanceLR.lean, Conv.lean, LRTerm.lean): left-recursion template, Memoize off, no budget; if the grammar has a closed nullability oracle, repetitions over non-nullable bodies, no throw/recover, and a ranking that decreases along every first-graph edge except those into leader rules (every same-position cycle passes through a leader), then Parse returns on every input for every code environment; with it C08_progress_with_seeds (no step back, nullable soundness, every seed respects progress, the table only grows). "
                            "The hypothesis is decided by an executable checker proved sound (checkLRWF_sound): the check asks it for every generated case (how many it accepts is in the evidence) and, on the BUILDER's side, verifies on generated grammars that the leader marks of builder.PrepareGrammar cover every cycle of its own first graph (a cycle without a leader is a concrete grammar whose parser recurses without bound: C08_cycle_without_leader_has_no_ranking). "
                            "Every generated left-recursive case (direct, indirect, nested towers; all 8 LeftRecursion template variants; Memoize on/off) is run on the real generated parser and on the Lean model and compared on the full result (values, errors, stores, block trace); "
                            "direct left recursion without predicates is additionally run as its iterative twin (b1/../bm)(a1/../an)* on the plain template, which must match exactly the same prefix. Kernel-checked lemmas on the loop of the model: a failing or non-extending growth attempt is dropped with errors and store restored, an extending one becomes the seed, "
                            "the recursive reference is answered from the seed, adopted growths strictly extend, and termination under a budget (C16_terminates covers left-recursive grammars). The equality 'seed growing = iteration' itself is not proved - it is false for the code as it is: known findings D6 (a leader memo hit drops #{} effects), D25 (indirect recursion entered through the non-leader rule is not greedy) and D26 (a memo hit loses a rolled-back error), "
                            "each with a kernel-evaluated witness on the model (C08_D25_..., C08_D26_..., C05_D6_...) that the check replays on the real parser."),
                level_note=RT_NOTE + " Level 'other': differential + partial proof."),
    "C18": dict(technique="race-detector stress of all 16 template variants (solo vs concurrent results) + Lean model of the pool discipline",
                design_ref="DESIGN.md §5 C18", engine="lean-rt",
                level_text=("Execution: -race builds of the 16 host parsers; groups of cases sharing one grammar (different inputs, options, initial stores with marker keys) are parsed alone and then by 2k goroutines behind a barrier for 20-30 rounds; every concurrent result must equal the solo result and the race detector must stay silent. "
                            "Kernel-checked (Properties/C18.lean, a model of statePool with map identities): under the Discard discipline every pooled map is empty and unowned (invariant of get/alloc/discard, hence of every interleaving), so cloneState yields exactly the caller's live contents whichever map the pool hands out, and no operation of one parse changes a map owned by another. "
                            "In the runtime model all other parser state is a value threaded through the functions (no shared variable exists), and the grammar is read-only."),
                level_note=("Data races as the Go memory model defines them, sync.Pool's internals and the scheduler are outside any Lean model: that part is searched for by the race detector over the explored schedules only. The pool model is not tied to the Go code by a translator; the seeded-defect experiments (Discard without clearing, extra Put) show the stress harness detects such deviations.")),
    "C03": dict(technique="differential round trip through the real front-end (verif hook) + Lean theorem on the class extraction phase",
                design_ref="DESIGN.md §5 C03", engine="tools",
                level_text=("Generated ASTs are printed in random concrete spellings and layouts, parsed by the real front-end (verif-tagged AST dump server in package main) and compared with the expected AST node by node including the position of every node's first token; the parsed AST is re-printed and re-parsed. "
                            "Kernel-checked (Properties/C03.lean): the range/character extraction of CharClassMatcher.parse inverts the printer for every class whose single characters contain no '-' and whose ranges do not start with '-' (unbounded); the unrestricted statement is false (known finding D3). Known findings D3, D20, D21, F1, F2 are avoided by the default generator and replayed on every run."),
                level_note=TOOLNOTE),
    "C04": dict(technique="end-to-end generation + go vet + go build + run over flag sets; Lean facts on the method naming scheme",
                design_ref="DESIGN.md §5 C04", engine="tools",
                level_text=("Generated well-formed grammars with compilable code blocks are run through the real pigeon with sampled (quick) or all 32 (thorough) combinations of the generation switches, the packages are vetted, compiled and executed (package initialisation incl. every rangeTable lookup), each generated method is compared with the labels in scope, and results are compared across flag sets. "
                            "Kernel-checked: the method naming scheme is injective within a rule and NOT injective across rules (C04_funcName_not_injective, known finding D4). Known findings D4, D5."),
                level_note=TOOLNOTE),
    "C13": dict(technique="process-level fuzzing of the real binary over inputs x flag sets with an exit-status/crash/hang/output oracle; Lean model of main()'s exit logic",
                design_ref="DESIGN.md §5 C13", engine="tools",
                level_text=("The real binary is run on valid, mutated, spliced, truncated and random inputs x random flag sets; every run must terminate within the timeout, exit with a documented status, print no Go panic trace, write parseable Go when it exits 0, never exit 0 on a text the front-end rejects, and print a diagnostic when it exits non-zero. "
                            "Kernel-checked (Properties/C13.lean): in the model of main()'s decision structure a rejected grammar never yields exit status 0, exit 0 implies every stage that ran succeeded, and only the documented statuses occur. Known findings F4, D13; the Go stack limit (300k nested parentheses) is outside any model."),
                level_note=TOOLNOTE),
    "C20": dict(technique="exhaustive regeneration of every checked-in artifact (byte comparison) + differential comparison of the two front-ends; Lean fact on the one known scanner difference",
                design_ref="DESIGN.md §5 C20", engine="tools",
                level_text=("(b) EXHAUSTIVE: a copy of the working tree is regenerated with `make clean all` (static-code string tables, bootstrap parser, pigeon.go, all test and example parsers, with the Makefile's flags) and every tracked file is compared byte for byte — the three-stage bootstrap is a fixpoint iff nothing differs. "
                            "(a) grammars in the bootstrap subset are parsed by bootstrap.Parser in-process and by the generated front-end through the verif hook and the ASTs compared (positions and display-name quoting aside), incl. the two checked-in grammars. Kernel-checked: the two scanners' escape validity tests differ exactly at U+E000 (known finding F3), and the bootstrap test only rejects more."),
                level_note=TOOLNOTE),
    "C09": dict(technique="translation validation of the real optimizer against a reference PEG interpreter + Lean laws of denotational PEG recognition",
                design_ref="DESIGN.md §5 C09", engine="tools",
                level_text=("The real ast.Optimize is run on independent copies of generated grammars (incl. the shapes of the repaired defects D10, D11, D13, whose avoidance is lifted) and the original and optimized ASTs are compared under an independent reference interpreter on acceptance, consumed prefix and every code-block invocation (text, pos, canonical label values), for the first rule and every alternate entrypoint; entrypoint survival, dangling references, parameter lists and the fixpoint are checked statically. "
                            "Kernel-checked (Properties/C09.lean): in a denotational model where sub-expressions are arbitrary recognisers, each rewrite is an equation — singleton sequence/choice, sequence and choice flattening at any position, literal concatenation, one-rune literals as classes, union of NON-inverted classes — hence sound in every context; the union of inverted classes is proved unsound (D11) and the sound law stated. Known findings D5, O1."),
                level_note=TOOLNOTE + " Values and label scopes are outside the Lean model; the reference interpreter (harness/pvref) is validated by unit tests and seeded-bug experiments only."),
}
