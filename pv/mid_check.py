"""C07 / C19: the grammar analysis (nullable flags, first graph, SCCs, leader, verdict).
Real code (ast + builder packages of /repo, called in-process by harness/cmd/pvmid) vs the Lean model Mid,
and the implementation's verdict vs the independent specification Mid.Spec.leftRec."""
import os, subprocess, time, json, hashlib, re
from . import core, findings, h1
from .core import log
from .props_h1 import TRUSTED

PVMID = os.path.join(core.BIN, "pvmid")


def run_mid_cases(case_lines):
    core.need_tool("pvmid")
    data = ("\n".join(case_lines) + "\n").encode()
    p = subprocess.run([PVMID, "-run"], input=data, stdout=subprocess.PIPE, stderr=subprocess.PIPE, timeout=1800)
    if p.returncode != 0:
        raise RuntimeError("pvmid -run failed: " + p.stderr.decode()[-2000:])
    impl = p.stdout.decode().splitlines()
    model = core.run_model_lines("unicode 0", case_lines)
    return impl, model


def gen_mid(seed, n, throws=False):
    cmd = [PVMID, "-gen", "-seed", str(seed), "-n", str(n)]
    if throws:
        cmd.append("-throw")
    p = subprocess.run(cmd, stdout=subprocess.PIPE, stderr=subprocess.PIPE, timeout=600)
    if p.returncode != 0:
        raise RuntimeError("pvmid -gen failed: " + p.stderr.decode()[-2000:])
    return [l for l in p.stdout.decode().splitlines() if l.startswith("mid ")]


def corpus_mid(prop):
    d = os.path.join(core.VERIF, "corpus", prop)
    res = []
    if os.path.isdir(d):
        for f in sorted(os.listdir(d)):
            if f.endswith(".mid"):
                res += [l.strip() for l in open(os.path.join(d, f)) if l.startswith("mid ")]
    return res


def split_model(ml):
    if " spec " not in ml:
        return ml, None
    a, b = ml.rsplit(" spec ", 1)
    return a, b.split()[:4]


def spec_graph(ml):
    """the graph of the independent specification, printed by the driver after the verdicts: ... sg <n> (<v> <k> <t>*k)*n"""
    if " sg " not in ml:
        return None
    f = ml.rsplit(" sg ", 1)[1].split(" ")
    try:
        n, i, g = int(f[0]), 1, {}
        for _ in range(n):
            name, k = f[i], int(f[i + 1])
            g[name] = f[i + 2:i + 2 + k]
            i += 2 + k
        return g
    except (IndexError, ValueError):
        return None


def norm_noleader(line):
    """midres <id> noleader <n> (<name> <nullable> <lr> <leader> f<flags>)*n <graph...>: when the build fails with
    ErrNoLeader no parser is generated and ComputeLeftRecursives returns at the first component without a leader, so
    which OTHER components already carry their leftRecursive/leader marks depends on the (map) order in which the
    components are met. Those marks are not an observable result: they are blanked before comparing."""
    f = line.split(" ")
    if len(f) < 4 or f[2] != "noleader":
        return line
    try:
        n = int(f[3])
    except ValueError:
        return line
    for k in range(n):
        i = 4 + 5 * k
        if i + 3 < len(f):
            f[i + 2], f[i + 3] = "-", "-"
    return " ".join(f)


def parse_midres(il):
    """midres <id> <verdict> <n> (<name> <nullable> <lr> <leader> f<flags>)*n <nverts> (<vertex> <k> <target>*k)* ->
    (verdict, {name: (nullable, lr, leader)}, {vertex: [targets]}) or None"""
    f = il.split(" ")
    try:
        v = f[2]
        n = int(f[3])
        rules = {}
        i = 4
        for _ in range(n):
            rules[f[i]] = (f[i + 1], f[i + 2], f[i + 3])
            i += 5
        nv = int(f[i])
        i += 1
        graph = {}
        for _ in range(nv):
            name, k = f[i], int(f[i + 1])
            graph[name] = f[i + 2:i + 2 + k]
            i += 2 + k
        return v, rules, graph
    except (IndexError, ValueError):
        return None


def uncovered_cycle(il, graph_from=None, graph=None):
    """For a grammar accepted with left-recursion support (verdict ok1): is there a cycle of the first graph that passes
    through NO leader? Such a cycle is re-entered at the same offset without bound by the generated parser
    (theorem C08_cycle_without_leader_has_no_ranking; with every cycle covered: C08_left_recursive_parse_terminates).
    The leader marks are the builder's; the graph is the builder's own or, with graph_from (a midres line of the Lean
    model of the analysis), the model's - so that an analysis that LOSES an edge cannot hide the cycle it no longer sees.
    -> list of rule names on such a cycle, or None"""
    r = parse_midres(il)
    if r is None or r[0] != "ok1":
        return None
    _, rules, g0 = r
    if graph is None:
        graph = g0
    if graph_from is not None:
        rm = parse_midres(graph_from)
        if rm is not None:
            graph = rm[2]
    leaders = {n for n, (_, lr, ld) in rules.items() if lr == "1" and ld == "1"}
    # depth-first search in the graph without the edges into leaders
    color = {}
    for root in graph:
        if root in color:
            continue
        stack = [(root, iter([t for t in graph.get(root, []) if t not in leaders]))]
        color[root] = 1
        path = [root]
        while stack:
            node, it = stack[-1]
            nxt = next(it, None)
            if nxt is None:
                color[node] = 2
                stack.pop()
                path.pop()
                continue
            if color.get(nxt) == 1:
                return path[path.index(nxt):] if nxt in path else [nxt]
            if nxt not in color:
                color[nxt] = 1
                path.append(nxt)
                stack.append((nxt, iter([t for t in graph.get(nxt, []) if t not in leaders])))
    return None


def classify(cl, il, ml):
    """-> None | ('viol', text) | ('known', id, text) | ('obs', id)"""
    a, extra = split_model(ml)
    if extra is None:
        return None
    spec, a17, a23, aboth = extra
    v = il.split(" ", 3)[2]
    if v == "panic":
        return ("viol", "the analysis panicked")
    lr = v != "ok0"
    has_throw = " thr" in cl or " rec " in cl
    if lr == (spec == "1"):
        return None
    if has_throw:
        return ("known", "D9" if not lr else "D18", "grammar with throw/recover: verdict %s, specification (throw-free reading) says left-recursive=%s" % (v, spec))
    if not lr:
        if a17 != "ok0":
            return ("known", "D17", "accepted although a rule reaches itself at the same position; the choice's early return left later alternatives unvisited")
        if a23 != "ok0":
            return ("obs", "plus-over-nullable")
        if aboth != "ok0":
            return ("known", "D17", "accepted although left-recursive (needs the D17 repair)")
        return ("viol", "accepted (verdict %s) although the specification finds a rule that reaches itself at the same position" % v)
    return ("viol", "rejected (verdict %s) although the specification finds no same-position cycle" % v)


def differs_rt(prop, cfg, casefile, visible=False):
    """exit 0 iff the implementation still crashes / does not return on the case while the model returns"""
    header, lines = core.read_cases(casefile)
    if not lines:
        return 1
    try:
        il, ml = h1.run_single(header, lines[0])
    except Exception:
        return 1
    ik, mk = il.split(" ", 3)[2], ml.split(" ", 3)[2]
    if h1.inconclusive(mk):
        return 1
    return 0 if (ik == "crash" or h1.inconclusive(ik)) else 1


def run_c07(prop, cfg, tier, seed):
    t0 = time.time()
    core.ensure_built()
    audit = core.lean_audit(cfg["module"])
    lean_ok = audit["ok"]
    if tier == "thorough" and lean_ok:
        ok, out, dt = core.leanchecker(cfg["module"])
        audit["leanchecker"] = {"ok": ok, "wall_s": round(dt, 1)}
        lean_ok = lean_ok and ok
    nq = 4000 if tier == "quick" else 60000
    cases = corpus_mid(prop) + gen_mid(seed, nq) + gen_mid(seed + 17, nq // 4, throws=True)
    # bounded-exhaustive: EVERY grammar of 2 rules with bodies of at most 3 nodes and of 3 rules with bodies of at most 2
    # nodes (leaves: a literal, "", a reference to each rule; ? * + & !; sequence and choice of two), each in two visiting
    # orders: 102 672 cases, 3 s for the real analysis and the model together
    pe = subprocess.run([PVMID, "-enum"], stdout=subprocess.PIPE, stderr=subprocess.PIPE, timeout=600)
    if pe.returncode != 0:
        raise RuntimeError("pvmid -enum failed: " + pe.stderr.decode()[-2000:])
    enum_cases = [l for l in pe.stdout.decode().splitlines() if l.startswith("mid ")]
    cases += enum_cases
    # renumber ids to be unique
    cases = [" ".join(["mid", str(i + 1)] + c.split(" ")[2:]) for i, c in enumerate(cases)]
    impl, model = run_mid_cases(cases)
    if len(impl) != len(cases) or len(model) != len(cases):
        raise RuntimeError("mid stream: result count mismatch")
    disagree, viol, known, obs = [], [], {}, {}
    known_s = {}
    verdicts = {}
    distinct = set()
    for cl, il, ml in zip(cases, impl, model):
        a, extra = split_model(ml)
        distinct.add(hashlib.md5(cl.split(" ", 2)[2].encode()).digest()[:8])
        v = il.split(" ", 3)[2]
        verdicts[v] = verdicts.get(v, 0) + 1
        if il != a and norm_noleader(il) == norm_noleader(a):
            a = il      # differs only in marks that are left behind by an aborted (ErrNoLeader) analysis
        if il != a:
            # the implementation left the model: does it also leave the specification where the model does not?
            lr_impl = v != "ok0"
            if extra is not None and v != "panic" and " thr" not in cl and " rec " not in cl:
                lr_model = a.split(" ", 3)[2] != "ok0"
                spec = extra[0] == "1"
                if lr_impl != spec and lr_model == spec:
                    viol.append((cl, il, ml, ("accepted" if not lr_impl else "rejected") + " although the specification says left-recursive=%s (the analysis model of the unchanged code decides this grammar correctly)" % extra[0]))
                    continue
            disagree.append((cl, il, ml))
            continue
        c = classify(cl, il, ml)
        if c is None:
            continue
        if c[0] == "viol":
            viol.append((cl, il, ml, c[1]))
        elif c[0] == "known":
            known[c[1]] = known.get(c[1], 0) + 1
            known_s.setdefault(c[1], (cl, il, c[2]))
        else:
            obs[c[1]] = obs.get(c[1], 0) + 1
    # ---- shadowed duplicate definitions: references resolve to the last definition of a name, so must the analysis
    dp = subprocess.run([PVMID, "-dup"], input=("\n".join(cases) + "\n").encode(), stdout=subprocess.PIPE, stderr=subprocess.PIPE, timeout=3600)
    if dp.returncode != 0:
        raise RuntimeError("pvmid -dup failed: " + dp.stderr.decode()[-2000:])
    dup_checked = 0
    for cl, dl in zip(cases, dp.stdout.decode().splitlines()):
        f = dl.split(" ")
        if len(f) == 5 and int(f[2]) > 0:
            dup_checked += 1
            if f[3] != f[4]:
                viol.append((cl, dl, "", "builder.PrepareGrammar gives verdict %s for the grammar and %s after inserting shadowed (earlier, never executed) duplicate definitions of non-first rules: the analysis does not look at the definitions that the generated parser runs" % (f[3], f[4])))

    # ---- the acceptance path: what builder.BuildParser (which is what the tool calls) does with the analysis' verdict
    # BuildParser emits the whole runtime each time (~2 ms per call): in the quick tier every grammar without a leader,
    # a share of the left-recursive ones and of the others
    if tier != "quick":
        acases = cases
    else:
        byv = {}
        for cl, il in zip(cases, impl):
            byv.setdefault(il.split(" ", 3)[2:3][0] if len(il.split(" ", 3)) > 2 else "?", []).append(cl)
        acases = byv.get("noleader", [])[:1500] + byv.get("ok1", [])[:2500] + byv.get("ok0", [])[:1500]
    ap = subprocess.run([PVMID, "-accept"], input=("\n".join(acases) + "\n").encode(), stdout=subprocess.PIPE, stderr=subprocess.PIPE, timeout=3600)
    if ap.returncode != 0:
        raise RuntimeError("pvmid -accept failed: " + ap.stderr.decode()[-2000:])
    want = {"ok0": ("ok", "ok"), "ok1": ("lr", "ok"), "noleader": ("noleader", "noleader")}
    acc_checked = 0
    for cl, al in zip(acases, ap.stdout.decode().splitlines()):
        f = al.split(" ")
        if len(f) != 5 or f[2] not in want:
            continue
        acc_checked += 1
        w0, w1 = want[f[2]]
        if f[3] == "ok" and w0 != "ok":
            viol.insert(0, (cl, al, "", "builder.PrepareGrammar finds left recursion in this grammar (verdict %s) but builder.BuildParser WITHOUT SupportLeftRecursion accepts it and emits a parser: a rule can re-enter itself at the same offset without bound" % f[2]))
        elif (f[3], f[4]) != (w0, w1) and "err" not in (f[3], f[4]):
            viol.append((cl, al, "", "builder.BuildParser answers %s without and %s with SupportLeftRecursion for a grammar on which builder.PrepareGrammar says %s (expected %s / %s)" % (f[3], f[4], f[2], w0, w1)))

    # ---- leaders: every cycle of the first graph of a grammar accepted with left-recursion support passes through one
    # (put first: these are concrete grammars on which the generated parser recurses without bound)
    lead = []
    for cl, il in zip(cases, impl):
        cyc = uncovered_cycle(il)
        if cyc:
            lead.append((cl, il, "", "accepted with -support-left-recursion although the cycle %s of the first graph passes through no leader rule: the generated parser re-enters these rules at the same offset without bound (C08_cycle_without_leader_has_no_ranking)" % " -> ".join(bytes.fromhex(x[1:]).decode("utf8", "replace") for x in cyc)))
    viol = lead + viol
    # ---- the consequence clause: a parser generated WITHOUT left-recursion support, for a grammar without a
    # same-position cycle, returns on every input (no unbounded re-entry). Generated non-left-recursive cases on the
    # real runtime (template variants without the left-recursion code) against the runtime model: only termination
    # is compared here (a crash = Go stack overflow, or a timeout where the model returns).
    rt_sr, rt_header = h1.StreamResult(), None
    wfg = {}
    wd = core.workdir(prop + "_rt")
    novar = [v for v in core.ALL_VARIANTS if v[5] == "0"]
    for k, (prof, nq_rt, nt_rt) in enumerate((("core", 2500, 60000), ("utf8", 1500, 30000), ("throw", 500, 10000))):
        cf = os.path.join(wd, prof + ".gen")
        core.gen_cases(prof, seed, nq_rt if tier == "quick" else nt_rt, cf, variants=novar, id0=(k + 1) * 400_000 + 1)
        rt_header, lines = core.read_cases(cf)
        h1.run_stream(wd, rt_header, lines, (lambda r: ()), None, rt_sr, prof)
        try:
            wfg.update(core.run_wfg_lines(rt_header, lines))
        except Exception as e:
            log("wfg query failed: %s" % e)
    wfg_yes = sum(1 for v in wfg.values() if v)
    if rt_header:
        h1.confirm_timeouts(rt_header, rt_sr)
    lst = findings.listed(prop)
    printed, kf = [], []
    nviol = 0
    for (cl, il, ml, why) in rt_sr.disagree[:3]:
        nviol += 1
        scl = h1.shrink(wd, rt_header, cl, prop, nviol, maxtests=40)
        try:
            sil, sml = h1.run_single(rt_header, scl)
        except Exception:
            scl, sil, sml = cl, il, ml
        msg = "a parser generated without left-recursion support does not return on this input although the grammar has no same-position cycle and the runtime model returns: " + why
        if wfg.get(cl.split(" ", 2)[1]):
            msg += " (the grammar passes the kernel-proved checker RT.checkWFG: theorem C07_checked_grammars_terminate says the parse terminates)"
        pth = core.write_replay(prop, "runtime_%s" % hashlib.md5(scl.encode()).hexdigest()[:10],
                                {"property": prop, "kind": "runtime-termination", "why": msg, "header": rt_header, "case": scl,
                                 "pretty": h1.pretty_case(rt_header, scl), "impl": sil, "model": sml,
                                 "property_fails_on_impl": [msg], "replay_cmd": "./check --replay <this file>"})
        printed.append("VIOLATION property=%s replay=%s" % (prop, pth))
    nviol = len(rt_sr.disagree)

    def report(kind, cl, il, ml, why):
        nonlocal nviol
        nviol += 1
        if nviol > 3:
            return
        name = "%s_%s" % (kind, hashlib.md5(cl.encode()).hexdigest()[:10])
        failing = kind == "oracle"
        p = core.write_replay(prop, name, {"property": prop, "kind": kind, "why": why, "mid_case": cl, "impl": il, "model": ml,
                                           "property_fails_on_impl": [why] if failing else [],
                                           "broken_obligation": None if failing else "correspondence Mid(model) = ast/builder analysis (flags, first graph, verdict)",
                                           "replay_cmd": "echo '<mid_case>' | /verif/build/bin/pvmid -run ; echo '<mid_case>' | /verif/lean/.lake/build/bin/pvdriver"})
        printed.append("VIOLATION property=%s replay=%s%s" % (prop, p, "" if failing else " no-failing-input-found"))

    if not lean_ok:
        nviol += 1
        p = core.write_replay(prop, "lean_obligation", {"property": prop, "kind": "proof-obligation", "module": cfg["module"], "problems": audit["problems"]})
        printed.append("VIOLATION property=%s replay=%s no-failing-input-found" % (prop, p))
    # regenerated obligations (translator tie): the repository's own grammars, kernel-checked on every run
    from . import gram_check
    gviol, gram_cov = gram_check.for_property(prop)
    for kind, obj, failing in gviol:
        nviol += 1
        obj.update({"property": prop, "kind": kind, "property_fails_on_impl": [obj["why"]] if failing else [],
                    "broken_obligation": None if failing else "regenerated Lean module of a repository grammar (pv/gram_check.py)"})
        pth = core.write_replay(prop, kind.replace("/", "_") + "_" + hashlib.md5(obj["why"].encode()).hexdigest()[:10], obj)
        printed.append("VIOLATION property=%s replay=%s%s" % (prop, pth, "" if failing else " no-failing-input-found"))
    for d in viol:
        report("oracle", *d)
    for d in disagree:
        report("correspondence", d[0], d[1], d[2], "model and implementation differ on flags / first graph / verdict")
    for fid, (cl, il, why) in known_s.items():
        if fid in lst:
            kf.append("KNOWN-FINDING: property=%s %s %s" % (prop, fid, lst[fid]["what"]))
        else:
            report("oracle", cl, il, "", "defect class %s (%s) is not a listed known finding of %s" % (fid, why, prop))
    # listed findings with explicit witnesses that did not show up in the stream
    for fid, f in sorted(lst.items()):
        if fid in known_s:
            continue
        w = f.get("witness", {})
        if w.get("kind") == "mid":
            i2, m2 = run_mid_cases([w["case"]])
            c = classify(w["case"], i2[0], m2[0])
            if (c and c[0] == "known" and c[1] == fid) or (w.get("expect_verdict") and i2[0].split(" ", 3)[2] == w["expect_verdict"]):
                kf.append("KNOWN-FINDING: property=%s %s %s" % (prop, fid, f["what"]))
    wall = time.time() - t0
    cov = {"obligations": len(audit["theorems"]), "discharged": len(audit["theorems"]) if lean_ok else 0,
           "checker_cmd": "cd /verif/lean && lake build %s && #print axioms audit" % cfg["module"],
           "trusted_base": TRUSTED[:2] + ["the hand-written analysis model lean/PigeonVerif/Model/Mid.lean, tied to ast.NullableVisit/InitialNames and builder/left_recursion.go, scc.go by the mid correspondence stream (node-by-node flags, first graph, verdict, for chosen visiting orders)",
                                          "the specification Mid.Spec.leftRec (Ford-style static same-position reachability, throw-free fragment)", "harness/cmd/pvmid"],
           "theorems": audit["theorems"], "axioms": audit["axioms"],
           "evaluations": len(cases) + rt_sr.cases, "distinct_nontrivial": len(distinct) + rt_sr.nontrivial,
           "duplicate_definition_cases": dup_checked,
           "runtime_termination_stream": {"cases": rt_sr.cases, "non_terminating_or_crashing_on_impl_only": len(rt_sr.disagree),
                                          "cases_accepted_by_proved_wellformedness_checker": wfg_yes, "cases_asked": len(wfg),
                                          "inconclusive": rt_sr.inconclusive, "result_kinds": rt_sr.kinds},
           "rule": "random grammars of 1-4 rules biased towards references behind nullable prefixes, predicates and repetitions, each with up to 4 visiting orders; distinct = distinct (grammar, order)",
           "traces_validated_against_impl": len(cases) - len(disagree),
           "model_impl_disagreements": len(disagree), "oracle_violations": len(viol),
           "verdicts": verdicts, "known_finding_hits": known, "observations": obs,
           "samples": [{"case": c, "impl": i} for c, i in list(zip(cases, impl))[:3]],
           "explanation": "the real analysis is compared with the Lean model node by node, and its verdict with an independent static specification; discrepancies are classified by which (uncommitted) repair of the model removes them"}
    cov.update(gram_cov)
    core.write_evidence(prop, tier, seed, cfg.get("level", "other"), cov,
                        ["the general equivalence detect = specification is not proved; it is false for the unchanged tree (D17, D9, D18)"], wall, nviol)
    for l in kf + printed:
        print(l)
    log("%s: %d mid cases, %d disagreements, %d oracle violations, known=%s obs=%s lean_ok=%s %.1fs" % (prop, len(cases), len(disagree), len(viol), known, obs, lean_ok, wall))
    return 1 if nviol else 0


# ------------------------------------------------------------------------------------------------ C19

def makefile_rules():
    """(grammar path, flags, target) for every generation rule of the Makefile that uses $(BINDIR)/pigeon"""
    mk = open(os.path.join(core.REPO, "Makefile")).read().replace("\\\n", " ")
    rules = []
    lines = mk.splitlines()
    for i, l in enumerate(lines):
        m = re.match(r"^(\S+\.go):\s*(\S+\.peg)", l)
        if m and i + 1 < len(lines) and "$(BINDIR)/pigeon" in lines[i + 1]:
            cmd = lines[i + 1].strip()
            toks = cmd.split()
            try:
                flags = toks[toks.index("$(BINDIR)/pigeon") + 1:toks.index("$<")]
            except ValueError:
                continue
            sub = lambda s: s.replace("$(EXAMPLES_DIR)", "examples").replace("$(TEST_DIR)", "test").replace("$(ROOT)", ".").replace("$(GRAMMAR_DIR)", "grammar").replace("$(PIGEON_GRAMMAR)", "grammar/pigeon.peg")
            rules.append((sub(m.group(2)), flags, sub(m.group(1))))
    return rules


def prepare_vs_model(prop, seed, nq, k):
    """builder.PrepareGrammar itself (the real entry point, Go's map order, its own visiting order), k times per grammar in one
    process, against the Lean model of the analysis with the SORTED visiting order: -> (viol, disagree, number of grammars).
    viol = several outcomes for one grammar; disagree = the one outcome is not the model's (marks, leader, verdict)."""
    cases = corpus_mid(prop) + gen_mid(seed, nq)
    # one case per grammar (first order only)
    seen, gl = set(), []
    for c in cases:
        key = c.split(" ", 2)[2].rsplit(" ", int(c.split(" ")[-1 - int(c.rsplit(" ", 1)[0].count("x") * 0)] if False else 0) or 0)[0] if False else None
        t = c.split(" ")
        # strip the order suffix: last token count is found by scanning from the end
        # order = n names at the end preceded by n
        n = 0
        for j in range(len(t) - 1, 1, -1):
            if not t[j].startswith("x"):
                n = int(t[j])
                body = t[2:j]
                names = t[j + 1:]
                break
        g = " ".join(body)
        if g in seen:
            continue
        seen.add(g)
        srt = sorted(names, key=lambda h: bytes.fromhex(h[1:]))
        gl.append(" ".join(["mid", str(len(gl) + 1)] + body + [str(len(srt))] + srt))
    data = ("\n".join(gl) + "\n").encode()
    p = subprocess.run([PVMID, "-det", str(k)], input=data, stdout=subprocess.PIPE, stderr=subprocess.PIPE, timeout=3600)
    if p.returncode != 0:
        raise RuntimeError("pvmid -det failed: " + p.stderr.decode()[-2000:])
    det = p.stdout.decode().splitlines()
    model = core.run_model_lines("unicode 0", gl)
    viol, disagree = [], []
    for cl, dl, ml in zip(gl, det, model):
        parts = dl.split(" | ")
        nout = int(parts[0].split()[2])
        if nout != 1:
            viol.append((cl, dl, ml, "%d different analysis results in %d in-process builds of one grammar" % (nout, k)))
            continue
        outcome = parts[1].split(" ", 1)[1]
        a, _ = split_model(ml)
        mo = a.split(" ", 2)[2]
        # model line: "<verdict> <n> rules... <nverts> graph..." ; det outcome has no graph part
        if outcome.startswith("noleader "):
            mo = norm_noleader("midres 0 " + mo)[len("midres 0 "):]
        if not mo.startswith(outcome):
            disagree.append((cl, dl, ml))
    return viol, disagree, len(gl)


def run_c19(prop, cfg, tier, seed):
    t0 = time.time()
    core.ensure_built()
    audit = core.lean_audit(cfg["module"])
    lean_ok = audit["ok"]
    nq = 3000 if tier == "quick" else 40000
    k = 12 if tier == "quick" else 40
    viol, disagree, ngl = prepare_vs_model(prop, seed, nq, k)
    gl = [None] * ngl
    # tool level: the real binary, fresh processes
    tool_runs, tool_viol = 0, []
    rules = makefile_rules()
    reps = 3 if tier == "quick" else 10
    pig = os.path.join(core.BIN, "pigeon")
    import random
    rnd = random.Random(seed)
    sel = rules if tier != "quick" else rnd.sample(rules, min(12, len(rules)))
    lr_dir = os.path.join(core.VERIF, "corpus", "C19")
    extra = [(os.path.join(lr_dir, f), ["-support-left-recursion"], f) for f in sorted(os.listdir(lr_dir)) if f.endswith(".peg")] if os.path.isdir(lr_dir) else []
    for g, flags, target in [(os.path.join(core.REPO, g), fl, t) for (g, fl, t) in sel] + extra:
        outs = set()
        for _ in range(reps):
            q = subprocess.run([pig] + flags + [g], stdin=subprocess.DEVNULL, stdout=subprocess.PIPE, stderr=subprocess.PIPE, timeout=120)
            outs.add(hashlib.sha256(q.stdout + b"|" + str(q.returncode).encode()).hexdigest())
            tool_runs += 1
        if len(outs) != 1:
            tool_viol.append((g, flags, len(outs)))
    # the optimizer (ast.Optimize on identical copies, in process) and the whole pipeline on generated grammars shaped
    # for it (shared leaf rules, mergeable choices with duplicate members): fresh pigeon processes, byte comparison
    from . import tool_check
    from concurrent.futures import ThreadPoolExecutor
    emit = os.path.join(core.BUILD, "work", "C19_emit")
    import shutil
    shutil.rmtree(emit, ignore_errors=True)
    nopt = 600 if tier == "quick" else 8000
    ro = tool_check.run_tool("pvopt", seed, nopt, ["-lift", "optmerge-inverted,optshare,optthrow", "-det", "12" if tier == "quick" else "30", "-k", "1", "-emit", emit],
                             pigeon=False, prop=prop)
    opt_nd = [f for f in (ro.get("failures") or []) if f.get("kind") == "nondeterministic-optimizer"]
    flagsets = [["-optimize-grammar"], ["-optimize-grammar", "-optimize-parser", "-optimize-basic-latin"], ["-support-left-recursion"]]
    files = sorted(os.listdir(emit))[:(40 if tier == "quick" else 400)] if os.path.isdir(emit) else []

    def pipeline(job):
        f, fl = job
        outs = set()
        last = None
        for _ in range(reps):
            q = subprocess.run([pig] + fl + [os.path.join(emit, f)], stdin=subprocess.DEVNULL, stdout=subprocess.PIPE, stderr=subprocess.PIPE, timeout=120)
            outs.add(hashlib.sha256(q.stdout + b"|" + q.stderr + b"|" + str(q.returncode).encode()).hexdigest())
            last = q
        # the output is a function of grammar and flags only: written with -o over an existing (longer) file it is the
        # same bytes as on stdout
        if last is not None and last.returncode == 0:
            of = os.path.join(emit, f + "." + hashlib.md5(" ".join(fl).encode()).hexdigest()[:6] + ".out.go")
            open(of, "wb").write(b"// stale content of an earlier generation\n" * 20000)
            q = subprocess.run([pig] + fl + ["-o", of, os.path.join(emit, f)], stdin=subprocess.DEVNULL, stdout=subprocess.PIPE, stderr=subprocess.PIPE, timeout=120)
            got = open(of, "rb").read() if os.path.exists(of) else b""
            os.remove(of)
            if q.returncode != 0 or got != last.stdout:
                return f, fl + ["-o <existing file>"], 2
        return f, fl, len(outs)
    with ThreadPoolExecutor(max_workers=max(2, core.NCPU)) as ex:
        for f, fl, n in ex.map(pipeline, [(f, fl) for f in files for fl in flagsets]):
            tool_runs += reps
            if n != 1:
                keep = os.path.join(core.VERIF, "replays", prop)
                os.makedirs(keep, exist_ok=True)
                shutil.copyfile(os.path.join(emit, f), os.path.join(keep, f))
                tool_viol.append((os.path.join(keep, f), fl, n))
    # history independence: what BuildParser emits must not depend on what the process built before
    rh = tool_check.run_tool("pvhist", seed, 40 if tier == "quick" else 400, [], pigeon=False, prop=prop)
    hist_fail = [f for f in (rh.get("failures") or [])]
    # the output must not depend on the directory the tool is run in (other .go files there): witness of finding D28
    d28 = [f for f in findings.load()["findings"] if f.get("witness", {}).get("kind") == "cwd-siblings" and prop in f["properties"]]
    cwd_known = []
    wdc = os.path.join(core.BUILD, "work", "C19_cwd")
    shutil.rmtree(wdc, ignore_errors=True)
    for f in d28:
        w = f["witness"]
        outs = []
        for tag in ("a", "b"):
            d = os.path.join(wdc, f["id"], tag)
            os.makedirs(d, exist_ok=True)
            open(os.path.join(d, "sib.go"), "w").write(w["sibling_" + tag])
            open(os.path.join(d, "g.peg"), "w").write(w["grammar"])
            q = subprocess.run([pig, "g.peg"], cwd=d, stdin=subprocess.DEVNULL, stdout=subprocess.PIPE, stderr=subprocess.PIPE, timeout=120)
            outs.append((q.returncode, q.stdout))
        if outs[0] != outs[1] and f.get("status") == "known":
            cwd_known.append("KNOWN-FINDING: property=%s %s %s" % (prop, f["id"], f["what"]))
    # listed finding(s) of kind rerun: the same command in the same (empty) directory gives different bytes from run to run
    for f in [f for f in findings.load()["findings"] if f.get("witness", {}).get("kind") == "rerun" and prop in f["properties"]]:
        w = f["witness"]
        d = os.path.join(wdc, f["id"])
        os.makedirs(d, exist_ok=True)
        open(os.path.join(d, "g.peg"), "w").write(w["grammar"])
        seen = set()
        for _ in range(int(w.get("runs", 24))):
            q = subprocess.run([pig, "g.peg"], cwd=d, stdin=subprocess.DEVNULL, stdout=subprocess.PIPE, stderr=subprocess.PIPE, timeout=120)
            seen.add((q.returncode, hashlib.md5(q.stdout).hexdigest()))
            tool_runs += 1
            if len(seen) > 1:
                break
        if len(seen) > 1 and f.get("status") == "known":
            cwd_known.append("KNOWN-FINDING: property=%s %s %s" % (prop, f["id"], f["what"]))
    # ... and, for the generated grammars, on nothing else in the directory: an empty directory and one with unrelated
    # sibling files give the same bytes
    cwd_viol = []
    sib_dir = os.path.join(wdc, "sib")
    os.makedirs(sib_dir, exist_ok=True)
    open(os.path.join(sib_dir, "other.go"), "w").write("package main\n\nimport \"os\"\n\nvar _ = os.Args\n")
    open(os.path.join(sib_dir, "notes.txt"), "w").write("x\n")
    empty_dir = os.path.join(wdc, "empty")
    os.makedirs(empty_dir, exist_ok=True)
    for f in files[:12]:
        a = subprocess.run([pig, os.path.join(emit, f)], cwd=empty_dir, stdin=subprocess.DEVNULL, stdout=subprocess.PIPE, stderr=subprocess.PIPE, timeout=120)
        b = subprocess.run([pig, os.path.join(emit, f)], cwd=sib_dir, stdin=subprocess.DEVNULL, stdout=subprocess.PIPE, stderr=subprocess.PIPE, timeout=120)
        tool_runs += 2
        if (a.returncode, a.stdout) != (b.returncode, b.stdout):
            keep = os.path.join(core.VERIF, "replays", prop)
            os.makedirs(keep, exist_ok=True)
            shutil.copyfile(os.path.join(emit, f), os.path.join(keep, f))
            cwd_viol.append(os.path.join(keep, f))
    # ... nor on the directory the OUTPUT is written to: `pigeon -o DIR/parser.go g.peg`, run from an empty directory,
    # writes the bytes that the same command writes to stdout, whatever else DIR holds - here another file of the same
    # package that imports the project's own package named errors (goimports would take the import from there if it
    # were told that the generated file lives in DIR)
    odir_viol = []
    proj = os.path.join(wdc, "proj")
    os.makedirs(os.path.join(proj, "errors"), exist_ok=True)
    os.makedirs(os.path.join(proj, "out"), exist_ok=True)
    open(os.path.join(proj, "go.mod"), "w").write("module demo\n\ngo 1.21\n")
    open(os.path.join(proj, "errors", "errors.go"), "w").write("package errors\n\ntype tagged struct{ msg string }\n\nfunc (e *tagged) Error() string { return \"[demo/errors] \" + e.msg }\n\n// New returns a tagged error.\nfunc New(msg string) error { return &tagged{msg} }\n")
    open(os.path.join(proj, "out", "helper.go"), "w").write("package p\n\nimport \"demo/errors\"\n\n// ErrEmpty is reported for an empty document.\nvar ErrEmpty = errors.New(\"empty document\")\n")
    gtext = "{\npackage p\n}\n\nDoc <- Word ( ' ' Word )* !.\n\nWord <- [a-z]+\n"
    open(os.path.join(wdc, "odir.peg"), "w").write(gtext)
    for fl in ([], ["-optimize-parser"], ["-support-left-recursion", "-optimize-grammar"]):
        outp = os.path.join(proj, "out", "parser.go")
        if os.path.exists(outp):
            os.remove(outp)
        a = subprocess.run([pig] + fl + [os.path.join(wdc, "odir.peg")], cwd=empty_dir, stdin=subprocess.DEVNULL, stdout=subprocess.PIPE, stderr=subprocess.PIPE, timeout=120)
        b = subprocess.run([pig] + fl + ["-o", outp, os.path.join(wdc, "odir.peg")], cwd=empty_dir, stdin=subprocess.DEVNULL, stdout=subprocess.PIPE, stderr=subprocess.PIPE, timeout=120)
        tool_runs += 2
        got = open(outp, "rb").read() if os.path.exists(outp) else None
        if a.returncode != 0 or b.returncode != 0 or got != a.stdout:
            odir_viol.append({"flags": fl, "why": "pigeon %s -o DIR/parser.go does not write what the same command writes to stdout (exit %d / %d): the generated file depends on what else is in the output directory (DIR holds another file of the package that imports a package named errors)" % (" ".join(fl), a.returncode, b.returncode),
                              "grammar_text": gtext,
                              "replay_cmd": "see pv/mid_check.py run_c19 (proj/ skeleton): cd <empty dir> && pigeon %s odir.peg | sha256sum; pigeon %s -o proj/out/parser.go odir.peg && sha256sum proj/out/parser.go" % (" ".join(fl), " ".join(fl))})
    printed = []
    nviol = 0

    def rep(kind, obj, failing):
        nonlocal nviol
        nviol += 1
        if nviol > 3:
            return
        name = "%s_%s" % (kind, hashlib.md5(json.dumps(obj, sort_keys=True).encode()).hexdigest()[:10])
        obj.update({"property": prop, "kind": kind, "property_fails_on_impl": [obj.get("why")] if failing else []})
        pth = core.write_replay(prop, name, obj)
        printed.append("VIOLATION property=%s replay=%s%s" % (prop, pth, "" if failing else " no-failing-input-found"))
    if not lean_ok:
        rep("proof-obligation", {"module": cfg["module"], "problems": audit["problems"]}, False)
    for cl, dl, ml, why in viol:
        rep("nondeterminism", {"mid_case": cl, "det": dl[:2000], "why": why, "replay_cmd": "echo '<mid_case>' | /verif/build/bin/pvmid -det 200"}, True)
    for cl, dl, ml in disagree:
        rep("correspondence", {"mid_case": cl, "det": dl[:2000], "model": ml[:2000], "why": "PrepareGrammar's result differs from the model with sorted visiting order"}, False)
    for f in hist_fail[:3]:
        f = tool_check.keep_failure_file(prop, dict(f))
        rep("nondeterminism", {"why": "pvhist: " + str(f.get("detail"))[:700], "file": f.get("file"), "flags": f.get("flags"),
                               "replay_cmd": "/verif/build/bin/pvhist -seed %d -n %d" % (seed, 40 if tier == "quick" else 400)}, f.get("kind") != "harness")
    for f in opt_nd:
        f = tool_check.keep_failure_file(prop, dict(f))
        rep("nondeterminism", {"why": "ast.Optimize gives different results on identical copies of one grammar: " + str(f.get("detail"))[:600], "file": f.get("file"),
                               "replay_cmd": "/verif/build/bin/pvopt -seed %d -n %d -det 30" % (seed, nopt)}, True)
    for o in odir_viol:
        rep("nondeterminism", o, True)
    for g in cwd_viol:
        rep("nondeterminism", {"grammar": g, "why": "pigeon writes different bytes for this grammar when it is run in an empty directory and in a directory that holds an unrelated .go file and a text file",
                               "replay_cmd": "mkdir -p /tmp/e /tmp/s && printf 'package main\\nimport \"os\"\\nvar _ = os.Args\\n' > /tmp/s/other.go && (cd /tmp/e && /verif/build/bin/pigeon %s | sha256sum) && (cd /tmp/s && /verif/build/bin/pigeon %s | sha256sum)" % (g, g)}, True)
    for g, flags, n in tool_viol:
        rep("nondeterminism", {"grammar": g, "flags": flags, "why": "%d different outputs of pigeon for the same grammar and flags" % n,
                               "replay_cmd": "for i in 1 2 3 4 5 6; do /verif/build/bin/pigeon %s %s | sha256sum; done" % (" ".join(flags), g)}, True)
    wall = time.time() - t0
    cov = {"obligations": len(audit["theorems"]), "discharged": len(audit["theorems"]) if lean_ok else 0,
           "checker_cmd": "cd /verif/lean && lake build %s && #print axioms audit" % cfg["module"],
           "trusted_base": TRUSTED[:2] + ["Model/Mid.lean tied to the real analysis by the mid stream", "Go's randomised map iteration actually varying between calls (observed: it does, see the D16 witness)"],
           "theorems": audit["theorems"], "axioms": audit["axioms"],
           "evaluations": len(gl) * k + tool_runs, "distinct_nontrivial": len(gl) + len(sel),
           "rule": "each generated grammar is analysed %d times in one process by builder.PrepareGrammar (Go map order varies per call) and all outcomes (flags of every node, left-recursive set, leader, verdict) must be identical and equal to the model's result for the sorted visiting order; %d Makefile generation rules (+ corpus grammars) are run %d times in fresh processes and compared byte for byte" % (k, len(sel), reps),
           "grammars": len(gl), "in_process_builds": len(gl) * k, "tool_runs": tool_runs,
           "history_independence": {"grammars": rh.get("evaluations"), "builds": (rh.get("stats") or {}).get("builds"), "failures": rh.get("failure_count")},
           "optimizer_determinism": {"grammars": ro.get("evaluations"), "nondeterministic": len(opt_nd), "pipeline_grammars": len(files), "flag_sets": flagsets},
           "samples": [{"grammars": len(gl), "in_process_builds_each": k}],
           "explanation": "determinism is decided by repeated execution under Go's randomised map order plus a kernel-checked proof that the (repaired) analysis visits rules in an order that does not depend on the map order"}
    core.write_evidence(prop, tier, seed, cfg.get("level", "proof"), cov,
                        ["byte-identity of the emitted file beyond the analysis (emission order = grammar order) is checked by execution only"], wall, nviol)
    for l in cwd_known + printed:
        print(l)
    log("%s: %d grammars x %d builds, %d tool runs, %d violations, %d disagreements, lean_ok=%s %.1fs" % (prop, len(gl), k, tool_runs, len(viol) + len(tool_viol) + len(opt_nd) + len(hist_fail) + len(cwd_viol) + len(odir_viol), len(disagree), lean_ok, wall))
    return 1 if nviol else 0
