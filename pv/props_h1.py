"""Per-property configuration for the properties decided on the runtime model (H1 stream):
Lean module, correspondence streams, projection, direct oracles, twin constructions."""
import re
from . import core
from .h1 import P

TRUSTED = [
    "Lean 4.33.0 kernel (theorems re-checked by `lake build`; `leanchecker` in the thorough tier)",
    "axioms: propext, Quot.sound, Classical.choice only (audited with #print axioms on every property theorem)",
    "the hand-written runtime model lean/PigeonVerif/Model/Runtime.lean, tied to builder/generated_static_code.go (as emitted by the working tree's pigeon for all 16 behavioural template variants) by the H1 correspondence stream, not by proof",
    "the Go harness (harness/), its canonical printers and the driver's protocol parser",
    "Go toolchain, runtime, unicode tables (passed to the model through the stream header / case lines)",
]

ERR_RE = re.compile(r"^\d+:\d+ \(\d+\)(?:: rule [^\n]+?)?: ", re.S)
POS_RE = re.compile(r"^(\d+):(\d+) \((\d+)\)", re.S)


def strip_file(c, e):
    """an error message without its file-name prefix; None when the (non-empty) file name of the case is not there.
    The name is arbitrary data (it may itself look like a position), so it is removed literally, never parsed."""
    fn = c["filename"]
    if not fn:
        return e
    fn = fn if isinstance(fn, str) else fn.decode("utf-8", "replace")
    return e[len(fn) + 1:] if e.startswith(fn + ":") else None


# ----------------------------------------------------------------------------- oracles
# an oracle takes (case_line, impl_result) and yields ("viol", text) or ("known", id, text)


def orc_c02(cl, r):
    """action blocks: pos is the pure position function of the match start, text is the matched input slice;
    predicate/state blocks: pos = the parser's position, text empty (D2: known not to hold)."""
    if r["kind"] not in ("ret", "panic") or not r["trace"]:
        return
    c = core.parse_case_head(cl)
    inp = c["input"]
    kinds = core.block_kinds(cl)
    tab = None
    for ev in r["trace"]:
        k = kinds.get(ev["blk"])
        if tab is None:
            tab = core.pos_table(inp)
        if k == "a":
            off = ev["off"]
            if off not in tab:
                yield ("viol", "action block %d called with pos.offset=%d which is not a rune boundary of the input" % (ev["blk"], off))
                continue
            want = tab[off]
            if (ev["line"], ev["col"]) != want:
                if _d1_reads_past_eof(cl):
                    yield ("known", "D1", "position after a U+FFFD literal matched at EOF")
                else:
                    yield ("viol", "action block %d at offset %d sees pos %d:%d, position function gives %d:%d" % (ev["blk"], off, ev["line"], ev["col"], want[0], want[1]))
            end = ev["pt"][2]
            if inp[off:end] != ev["text"]:
                yield ("viol", "action block %d: text %r is not input[%d:%d]=%r" % (ev["blk"], ev["text"], off, end, inp[off:end]))
        elif k in ("p", "s"):
            ptl, ptc, pto = ev["pt"]
            if pto in tab and (ptl, ptc) != tab[pto] and not _d1_reads_past_eof(cl):
                yield ("viol", "parser position %d:%d at offset %d is not the position function's %d:%d" % (ptl, ptc, pto, tab[pto][0], tab[pto][1]))
            if (ev["line"], ev["col"], ev["off"]) != (ptl, ptc, pto) or ev["text"] != b"":
                yield ("known", "D2", "predicate/state block %d sees pos=%d:%d[%d] text=%r while the parser is at %d:%d[%d]" % (
                    ev["blk"], ev["line"], ev["col"], ev["off"], ev["text"], ptl, ptc, pto))


def _d1_reads_past_eof(cl):
    # a literal containing U+FFFD (65533) can match at EOF and make `read` run past the end (finding D1)
    return " 65533 " in cl


def orc_c11(cl, r):
    if r["kind"] not in ("ret", "panic"):
        return
    c = core.parse_case_head(cl)
    if r["kind"] == "panic":
        if c["recover"]:
            yield ("viol", "a panic escaped Parse although Recover is on")
        return
    errs = r["errs"]
    if len(set(errs)) != len(errs):
        yield ("viol", "duplicate message in the returned error list")
    for e in errs:
        rest = strip_file(c, e)
        if rest is None:
            yield ("viol", "error not prefixed with the file name: %r" % e[:120])
            continue
        if not ERR_RE.match(rest):
            yield ("viol", "error without position prefix: %r" % e[:120])


def listjoin(l):
    if not l:
        return ""
    if len(l) == 1:
        return l[0]
    return ", ".join(l[:-1]) + " or " + l[-1]


def orc_c12(cl, r):
    """failed parse without block errors: exactly one error, at the farthest-failure position, listing
    sorted+deduplicated expectations with EOF last"""
    if r["kind"] != "ret" or not r["errs"]:
        return
    nm = [e for e in r["errs"] if ": no match found, expected: " in e]
    if not nm:
        return
    if len(r["errs"]) != 1:
        yield ("viol", "a 'no match' error was synthesised although other errors were recorded")
        return
    c = core.parse_case_head(cl)
    e = nm[0]
    mfoff, mfl, mfc = r["mf"]
    exp = sorted(set(x for x in r["expected"] if x != "!."), key=lambda s: s.encode("utf-8"))
    if "!." in r["expected"]:
        exp.append("EOF")
    want_msg = "no match found, expected: " + listjoin(exp)
    prefix = (c["filename"] + ":" if c["filename"] else "") + "%d:%d (%d)" % (mfl, mfc, mfoff)
    if e != prefix + ": " + want_msg:
        yield ("viol", "no-match error is %r, expected %r" % (e[:200], (prefix + ": " + want_msg)[:200]))
    tab = core.pos_table(c["input"])
    if mfoff in tab and tab[mfoff] != (mfl, mfc):
        if mfoff == 0 and c["input"][:1] == b"\n" and (mfl, mfc) == (1, 1):
            yield ("known", "D12", "failure at offset 0 of an input starting with a newline reported at 1:1")
        elif _d1_reads_past_eof(cl):
            yield ("known", "D1", "position after a U+FFFD literal matched at EOF")
        else:
            yield ("viol", "farthest failure position %d:%d for offset %d, position function gives %d:%d" % (mfl, mfc, mfoff, tab[mfoff][0], tab[mfoff][1]))


def orc_c16(cl, r):
    c = core.parse_case_head(cl)
    n = c["maxExpr"]
    if n == 0 or r["kind"] not in ("ret", "panic"):
        return
    if r["cnt"] > n + 1:
        yield ("viol", "exprCnt %d exceeds the budget %d" % (r["cnt"], n))
    if r["cnt"] > n:
        if r["kind"] == "ret":
            if not r["errs"] or not any(e.endswith("max number of expressions parsed") for e in r["errs"]):
                yield ("viol", "budget exhausted but no 'max number of expressions parsed' error")
            if r["val"] is not None:
                yield ("viol", "budget exhausted but a value was returned")
        elif r["val"] != ("e", "x" + b"max number of expressions parsed".hex()):
            yield ("viol", "budget exhausted with Recover(false): panic payload is %r" % (r["val"],))


def orc_c17(cl, r):
    if r["kind"] not in ("ret", "panic"):
        return
    c = core.parse_case_head(cl)
    inp = c["input"]
    inv = [e for e in r["errs"] if e.endswith(": invalid encoding")]
    if c["allowInvalid"] and inv:
        yield ("viol", "invalid encoding reported although AllowInvalidUTF8 is on")
    if inv:
        tab = core.pos_table(inp)
        for e in inv:
            m = POS_RE.match(strip_file(c, e) or "")
            if not m:
                continue
            l, col, off = int(m.group(1)), int(m.group(2)), int(m.group(3))
            if off >= len(inp) or off not in tab:
                yield ("viol", "invalid encoding reported at offset %d which is not a rune start of the input" % off)
                continue
            if not (inp[off] >= 0x80 and core.decode_rune_len(inp, off) == 1):
                yield ("viol", "invalid encoding reported at offset %d but the bytes there are well-formed UTF-8" % off)
            if tab[off] != (l, col):
                yield ("viol", "invalid encoding at offset %d reported at %d:%d, position function gives %d:%d" % (off, l, col, tab[off][0], tab[off][1]))

    def walk(v):
        if v is None:
            return
        if v[0] == "b":
            if v[1] and v[1] not in inp:
                yield ("viol", "matched value %r is not a slice of the input" % (v[1],))
        elif v[0] == "l":
            for x in v[1]:
                yield from walk(x)
    if r["kind"] == "ret" and " act " not in cl:
        yield from walk(r["val"])

# ----------------------------------------------------------------------------- twins
# a twin builder takes (case_line, head) and returns a list of (twin_line, relation_name)


def twin_id(line, k):
    t = line.split(" ")
    return " ".join([t[0], str(int(t[1]) + k * 10_000_000)] + t[2:])


STATE_OPS = (" sset ", " sinc ", " smut ", " sdel ", " sget ", " sge ", " stc ")


def twins_c10(cl, c):
    """(X, X + -optimize-parser) under default runtime options"""
    if c["memoize"] or c["debug"] or c["stats"]:
        return []
    t = cl.split(" ")
    if not c["g"]:
        # without #{} blocks the optimized parser has no state store at all: user code cannot mention it
        if any(op in cl for op in STATE_OPS) or t[14] != "0":
            return []
    t2 = list(t)
    t2[2] = "0" if c["o"] else "1"
    return [(twin_id(" ".join(t2), 1), "optimize-pair")]


def twins_c06(cl, c):
    if c["o"]:
        return []
    res = []
    t = cl.split(" ")
    for k, idx, name in ((1, 6, "memoize"), (2, 7, "debug"), (3, 8, "stats")):
        t2 = list(t)
        t2[idx] = "0" if t[idx] == "1" else "1"
        res.append((twin_id(" ".join(t2), k), name))
    return res


def twins_c16(cl, c):
    if c["maxExpr"] == 0:
        return []
    t = cl.split(" ")
    t2 = list(t)
    t2[9] = "0"
    return [(twin_id(" ".join(t2), 1), "unbounded")]


# ----------------------------------------------------------------------------- twin relations

EXPR_TAGS = {"act", "andc", "notc", "stc", "and", "not", "any", "cls", "ch", "lab", "lit", "plus", "star", "opt", "rec", "ref", "seq", "thr"}


def block_errs(errs):
    return tuple(e for e in errs if not (e.endswith(": invalid encoding") or ": no match found, expected: " in e
                                         or e.endswith("max number of expressions parsed")))


def rel_c10(cl, tl, rel, ra, rb):
    a = (ra["kind"], repr(ra["val"]), tuple(ra["errs"]))
    b = (rb["kind"], repr(rb["val"]), tuple(rb["errs"]))
    if a != b:
        return ("viol", "standard: %r  optimized: %r" % (a, b))
    return None


def pure_domain(cl):
    """C06's domain: code blocks are pure functions of text, pos and their labels; no #{}, no throw/recover"""
    if " stc " in cl or " thr " in cl or " rec " in cl:
        return False
    for w in (" calli", " even", " sget ", " gget ", " sge ", " gge ", " sset ", " sinc ", " smut ", " sdel ", " gset ", " ginc ", " gmut ", " gdel ", " at ", " panic "):
        if w in cl:
            return False
    return True


def has_label_args(cl):
    t = cl.split(" ")
    for i, x in enumerate(t):
        if x == "blk" and i + 3 < len(t) and t[i + 2] in ("a", "p", "s") and t[i + 3] != "0":
            return True
    return False


def _pred_views(cl, r):
    """what the predicate / state blocks of a run saw: {(blk, parser offset, seen line, col, off, text)}"""
    kinds = core.block_kinds(cl)
    return set((ev["blk"], ev["pt"][2], ev["line"], ev["col"], ev["off"], bytes(ev["text"]))
               for ev in r["trace"] if kinds.get(ev["blk"]) in ("p", "s"))


def stale_view_differs(cl, ra, rb):
    """D27 signature: the grammar has a predicate that looks at c.pos / c.text (posge, tlen), and in one of the two
    runs some predicate block, at some parser offset, saw a pos/text it never saw at that offset in the other run
    (the pos/text a predicate sees are those of the most recently executed action, and a memo hit skips actions)"""
    if " posge " not in cl and " tlen " not in cl:
        return False
    va, vb = _pred_views(cl, ra), _pred_views(cl, rb)
    return va != vb


def rel_c06(cl, tl, rel, ra, rb):
    if rel in ("debug", "stats"):
        fa = (ra["kind"], repr(ra["val"]), tuple(ra["errs"]), ra["cnt"], repr(ra["state"]), repr(ra["glob"]), repr(ra["trace"]))
        fb = (rb["kind"], repr(rb["val"]), tuple(rb["errs"]), rb["cnt"], repr(rb["state"]), repr(rb["glob"]), repr(rb["trace"]))
        if fa != fb:
            return ("viol", "result changes when %s is switched" % rel)
        return None
    c = core.parse_case_head(cl)
    if c["maxExpr"] != 0 or not pure_domain(cl):
        return None
    a = (ra["kind"], repr(ra["val"]), len(ra["errs"]) == 0, block_errs(ra["errs"]))
    b = (rb["kind"], repr(rb["val"]), len(rb["errs"]) == 0, block_errs(rb["errs"]))
    if a != b:
        if has_label_args(cl):
            return ("known", "D7", "Memoize changes the result of a grammar whose blocks take label arguments")
        if stale_view_differs(cl, ra, rb):
            return ("known", "D27", "a predicate that reads c.pos / c.text sees the pos / text of another action when a memo hit skips one")
        if c["l"] and a[:2] == b[:2]:
            # D26: same value; the memoized run lacks block errors of the plain run (errors of a discarded
            # left-recursion growth attempt are rolled back, the memo entries made during it are not)
            memo_side, plain_side = (a, b) if c["memoize"] else (b, a)
            if set(memo_side[3]) < set(plain_side[3]):
                return ("known", "D26", "with left recursion a memo hit loses a block error that was rolled back with a discarded growth attempt")
        return ("viol", "Memoize changes the result: %r vs %r" % (a, b))
    return None


def orc_c06_bound(cl, r):
    c = core.parse_case_head(cl)
    if not c["memoize"] or c["o"] or r["kind"] not in ("ret", "panic"):
        return
    t = c["toks"]
    # no rule marked left-recursive
    nodes = sum(1 for x in t if x in EXPR_TAGS)
    if c["l"] or c["maxExpr"] != 0:
        return      # budgeted cases may be left-recursive / non-terminating by construction
    bound = nodes * (len(c["input"]) + 1)
    if r["cnt"] > bound:
        yield ("viol", "with Memoize %d expressions were evaluated, more than nodes*(len+1) = %d*%d" % (r["cnt"], nodes, len(c["input"]) + 1))


def phase2_c16(wd, header, sr):
    """unbounded twins of the budgeted parses that stayed within budget: identical result"""
    import os
    from . import h1
    pairs = []
    res = {}
    cases = {}
    for f in os.listdir(wd):
        if f.endswith(".impl"):
            for line in open(os.path.join(wd, f)):
                sp = line.split(" ", 2)
                res[sp[1]] = line.rstrip("\n")
        if f.endswith(".cases"):
            for line in open(os.path.join(wd, f)):
                if line.startswith("case "):
                    cases[line.split(" ", 2)[1]] = line.rstrip("\n")
    twins = []
    for cid, cl in cases.items():
        c = core.parse_case_head(cl)
        if c["maxExpr"] == 0 or cid not in res:
            continue
        r = res[cid]
        k = r.split(" ", 3)[2]
        if k != "ret":
            continue
        rr = core.parse_result(r)
        if rr["cnt"] > c["maxExpr"] or any(e.endswith("max number of expressions parsed") for e in rr["errs"]):
            continue
        t = cl.split(" ")
        t[9] = "0"
        t[1] = str(int(t[1]) + 20_000_000)
        twins.append((cl, " ".join(t), r))
    if not twins:
        return []
    tf = os.path.join(wd, "phase2.cases")
    open(tf, "w").write(header + "\n" + "\n".join(x[1] for x in twins) + "\n")
    of = os.path.join(wd, "phase2.impl")
    core.run_impl(tf, of)
    out = open(of).read().splitlines()
    viol = []
    sr.stats["budget_twins"] = len(twins)
    for (cl, tl, r), o in zip(twins, out):
        a = r.split(" ", 2)[2]
        b = o.split(" ", 2)[2]
        if a != b:
            viol.append((cl, r, o, "a budget that is not exhausted changes the result (budgeted vs unbounded differ)", tl))
    return viol


def twins_c15(cl, c):
    """(X with -optimize-basic-latin, X without): the same parser but for the class lookup tables"""
    if not c["b"]:
        return []
    t = cl.split(" ")
    t2 = list(t)
    t2[5] = "0"
    # drop the tables: every cls node ends with its BL token (128 chars of 0/1)
    t2 = ["-" if (len(x) == 128 and set(x) <= {"0", "1"}) else x for x in t2]
    return [(twin_id(" ".join(t2), 1), "basic-latin-pair")]


def rel_c15(cl, tl, rel, ra, rb):
    a = ra["raw"].split(" ", 2)[2]
    b = rb["raw"].split(" ", 2)[2]
    if a != b:
        fa = (ra["kind"], repr(ra["val"]), tuple(ra["errs"]), ra["off"])
        fb = (rb["kind"], repr(rb["val"]), tuple(rb["errs"]), rb["off"])
        return ("viol", "with table: %r  general path: %r" % (fa, fb) if fa != fb else "results differ in bookkeeping fields")
    return None


# ----------------------------------------------------------------------------- C08: the iterative twin

def _strip(e):
    """drop action / label wrappers (they do not influence matching)"""
    while e[0] in ("act", "lab"):
        e = e[3]
    return e


def twins_c08(cl, c):
    """For direct left-recursive leader rules  A <- A a1 / ... / A an / b1 / ... / bm  build the grammar in which
    A <- (b1/.../bm) (a1/.../an)*  (no left recursion, plain template) — it must match the same prefix."""
    from . import casetree
    if not c["l"] or c["maxExpr"] != 0:
        return []
    for w in (" andc ", " notc ", " stc ", " err ", " panic ", " thr ", " rec "):
        if w in cl:
            return []
    try:
        head, rules, tail = casetree.split_case(cl)
    except Exception:
        return []
    nid = [casetree.max_id(rules) + 1]

    def fresh():
        nid[0] += 1
        return str(nid[0])
    changed = False
    new_rules = []
    for name, disp, leader, lr, e in rules:
        if lr == "1" and leader != "1":
            return []          # indirect cycle member: not the direct form
        if lr != "1":
            new_rules.append([name, disp, "0", "0", e])
            continue
        body = _strip(e)
        if body[0] != "ch":
            return []
        lralts, base = [], []
        for alt in body[4]:
            a = _strip(alt)
            first = _strip(a[2][0]) if a[0] == "seq" and a[2] else None
            if first is not None and first[0] == "ref" and first[2] == name:
                if base:
                    return []          # a non-recursive alternative before a recursive one: not the stated form
                rest = a[2][1:]
                if not rest:
                    return []
                lralts.append(["seq", fresh(), rest])
            else:
                base.append(alt)
        if not lralts or not base:
            return []
        tw = ["seq", fresh(), [["ch", fresh(), "1", "1", base], ["star", fresh(), ["ch", fresh(), "1", "2", lralts]]]]
        new_rules.append([name, disp, "0", "0", tw])
        changed = True
    if not changed:
        return []
    h2 = list(head)
    h2[4] = "0"         # plain (non left-recursion) template
    return [(twin_id(casetree.join_case(h2, new_rules, tail), 1), "iterative-twin")]


def rel_c08(cl, tl, rel, ra, rb):
    try:
        core.parse_case_head(cl)["input"].decode("utf-8")
    except UnicodeDecodeError:
        return None     # 'invalid encoding' errors of a dropped growth attempt are (by C08) not retained: success is not comparable
    sa, sb = (ra["kind"] == "ret" and not ra["errs"]), (rb["kind"] == "ret" and not rb["errs"])
    if sa != sb:
        return ("viol", "left-recursive parser %s, its iteration %s" % ("matches" if sa else "fails", "matches" if sb else "fails"))
    if sa and ra["off"] != rb["off"]:
        return ("viol", "left-recursive parser consumes %d bytes, its iteration %d" % (ra["off"], rb["off"]))
    return None


def twins_c16_memo(cl, c):
    """the budget must hold 'with Memoize on and off': every budgeted non-optimized case is also run memoized"""
    if c["o"] or c["memoize"] or c["maxExpr"] == 0:
        return []
    t = cl.split(" ")
    t[6] = "1"
    return [(twin_id(" ".join(t), 3), "memoized-budget")]


def rel_none(cl, tl, rel, ra, rb):
    return None


def twins_c12(cl, c):
    """C12 does not exempt Memoize: in the domain where Memoize must not change the outcome (C06: pure blocks, no labels,
    no state, no throw/recover; here also no left recursion and no budget) the failure REPORT must be the same too"""
    if c["o"] or c["maxExpr"] != 0 or c["l"] or not pure_domain(cl) or has_label_args(cl):
        return []
    t = cl.split(" ")
    t[6] = "0" if t[6] == "1" else "1"
    return [(twin_id(" ".join(t), 4), "memoize-report")]


def _nomatch_only(r):
    """(offset, set of recorded expectations) when the parse failed with the synthesised message as its only error"""
    if r["kind"] != "ret" or len(r["errs"]) != 1 or ": no match found, expected: " not in r["errs"][0] and not r["errs"][0].endswith("no match found"):
        return None
    return (r["mf"][0], frozenset(r["expected"]))


def rel_c12(cl, tl, rel, ra, rb):
    c = core.parse_case_head(cl)
    memo, plain = (ra, rb) if c["memoize"] else (rb, ra)
    m, p = _nomatch_only(memo), _nomatch_only(plain)
    if m is None or p is None or (m == p and memo["errs"] == plain["errs"]):
        return None
    # finding D30: a memo hit does not replay failAt, so the memoized record can only LACK what the plain run recorded
    if m[0] < p[0] or (m[0] == p[0] and m[1] < p[1]):
        return ("known", "D30", "with Memoize a terminal that failed at the reported offset is missing from the expected set (or the offset is smaller): memoized %r, plain %r" % (memo["errs"], plain["errs"]))
    if m == p:
        return None      # same record, differently rendered: the message oracle decides that
    return ("viol", "Memoize changes the failure report beyond finding D30: memoized %r, plain %r" % (memo["errs"], plain["errs"]))
